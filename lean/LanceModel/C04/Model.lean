/-
C04 — no lost updates: the MODEL (import-free) of the row-level rebase of Delete / Update transactions.

Counterparts in lance (pinned commit + `fix:` commits):
  rust/lance/src/io/commit/conflict_resolver.rs   TransactionRebase::{try_new, check_txn (check_delete_txn / check_update_txn: the
                                                   Delete, Update, Rewrite, ReserveFragments arms), finish_delete_update},
                                                   initial_fragments_for_rebase
  rust/lance/src/io/commit.rs                      commit_transaction (load the transactions committed after the read version in
                                                   version order, check each, finish, build the manifest on the latest version)
  rust/lance/src/dataset/transaction.rs            Transaction::build_manifest, arms Delete / Update (RewriteRows) / Rewrite /
                                                   ReserveFragments; fragments_with_ids
  rust/lance/src/dataset/write/delete.rs           DeleteJob::execute_impl, apply_deletions            (`mkDelete`)
  rust/lance/src/dataset/write/update.rs           UpdateJob::execute_impl / commit_impl               (`mkUpdate`)
  rust/lance/src/dataset/write/merge_insert.rs     execute_uncommitted_impl / exec::write (upsert)     (`mkMerge`),
                                                   update_fragments (partial source schema)            (`mkMergeCols`)
  rust/lance/src/dataset/write/retry.rs            execute_with_retry                                  (`runOp`)
  rust/lance/src/dataset/fragment.rs               FileFragment::{extend_deletions, write_deletions}   (`extendDeletions`)
  rust/lance/src/dataset/optimize.rs               plan_compaction / commit_compaction with one bin    (`compact`)

A row is (ghost key = the unique key column, value).  A fragment is its data files (`rows`; their identity is abstracted to
their number `files`: only a column rewrite changes it, by adding one), its deletion vector `del` (offsets) and the metadata of its
deletion file `dfile` (`tok` stands for read_version + the random id of `write_deletion_file`, `n` = num_deleted_rows).  The
manifest is the fragment list plus the high-water mark of fragment ids.  Row addresses are (fragment id, offset).
-/
namespace LanceModel.C04

structure Row where
  key : Nat
  v : Nat
deriving DecidableEq, Repr, Inhabited

/-- lance_table::format::DeletionFile: `tok` ~ (read_version, id), `n` = num_deleted_rows -/
structure DelFile where
  tok : Nat
  n : Nat
deriving DecidableEq, Repr

/-- lance_table::format::Fragment together with the contents of its files -/
structure Frag where
  id : Nat
  files : Nat
  rows : List Row
  del : List Nat
  dfile : Option DelFile
deriving DecidableEq, Repr

/-- the part of the manifest the row-level operations touch: fragments and max_fragment_id (+ 1) -/
structure Table where
  frags : List Frag
  maxFrag : Nat
deriving DecidableEq, Repr

abbrev Addr := Nat × Nat

/-- Operation::Delete / Operation::Update{RewriteRows} / Operation::Rewrite (one group) / Operation::ReserveFragments -/
inductive Kind where
  | delete | update | rewrite | reserve
deriving DecidableEq, Repr

/-- `updated` = updated_fragments, `removed` = deleted_fragment_ids / removed_fragment_ids / the old fragments of the rewrite
    group, `newRows` = the rows of the one new fragment (`[]` = no new fragment), `newId` = the id that fragment carries
    (0 = not assigned yet: every writer but a compaction that reserved its ids); `reserve` reserves one fragment id -/
structure Txn where
  kind : Kind
  updated : List Frag
  removed : List Nat
  newRows : List Row
  newId : Nat
deriving DecidableEq, Repr

/-- Error::RetryableCommitConflict; Error::Internal or a panic (`expect` / `unwrap` in finish_delete_update) -/
inductive Err where
  | retryable | internal
deriving DecidableEq, Repr

/-! ## sets of offsets (RoaringBitmap / DeletionVector): duplicate-free lists -/

def insertNew (l : List Nat) (x : Nat) : List Nat := if x ∈ l then l else l ++ [x]

/-- `a | b` -/
def union (a b : List Nat) : List Nat := b.foldl insertNew a

/-- the bitmap of fragment `i` in a RowIdTreeMap / RoaringTreemap of addresses -/
def offsetsOf (A : List Addr) (i : Nat) : List Nat := (A.filter (fun a => a.1 == i)).map (·.2)

/-! ## reading -/

/-- the fragment with id `i` (fragment ids are unique in a manifest) -/
def Table.get (t : Table) (i : Nat) : Option Frag := t.frags.find? (fun f => f.id == i)

/-- offsets of the visible rows of a fragment, in order -/
def Frag.liveIdx (f : Frag) : List Nat := (List.range f.rows.length).filter (fun o => !f.del.contains o)

/-- scan with a filter and `_rowaddr`: addresses of the visible rows satisfying `p` -/
def Table.addrsWhere (t : Table) (p : Row → Bool) : List Addr :=
  t.frags.flatMap (fun f =>
    (f.liveIdx.filter (fun o => match f.rows[o]? with | some r => p r | none => false)).map (fun o => (f.id, o)))

/-- scan with a filter: the visible rows satisfying `p`, in fragment / offset order -/
def Table.rowsWhere (t : Table) (p : Row → Bool) : List Row :=
  t.frags.flatMap (fun f =>
    f.liveIdx.filterMap (fun o => match f.rows[o]? with | some r => if p r then some r else none | none => none))

def Table.scan (t : Table) : List Row := t.rowsWhere (fun _ => true)

/-! ## building a transaction from the read version -/

/-- FileFragment::extend_deletions + write_deletions: `none` = every row is deleted now (the fragment is removed).
    (The Internal error of write_deletions for offsets beyond the fragment cannot arise: offsets come from a scan.) -/
def extendDeletions (f : Frag) (offs : List Nat) (tok : Nat) : Option Frag :=
  if (union f.del offs).length == f.rows.length then none
  else some { f with del := union f.del offs, dfile := some ⟨tok, (union f.del offs).length⟩ }

/-- apply_deletions (delete.rs / update.rs / merge_insert.rs): FragmentChange::Modified -/
def updatedOf (t : Table) (A : List Addr) (tok : Nat) : List Frag :=
  t.frags.filterMap (fun f => if (offsetsOf A f.id).isEmpty then none else extendDeletions f (offsetsOf A f.id) tok)

/-- apply_deletions: FragmentChange::Removed -/
def removedOf (t : Table) (A : List Addr) (tok : Nat) : List Nat :=
  t.frags.filterMap (fun f =>
    if (offsetsOf A f.id).isEmpty then none
    else if (extendDeletions f (offsetsOf A f.id) tok).isNone then some f.id else none)

/-- DeleteJob::execute_impl with the predicate `key IN keys` (also the older route FileFragment::delete per fragment):
    the transaction and its affected rows -/
def mkDelete (t : Table) (keys : List Nat) (tok : Nat) : Txn × List Addr :=
  (⟨.delete, updatedOf t (t.addrsWhere (fun r => keys.contains r.key)) tok,
     removedOf t (t.addrsWhere (fun r => keys.contains r.key)) tok, [], 0⟩,
   t.addrsWhere (fun r => keys.contains r.key))

/-- UpdateJob::execute_impl + commit_impl with `SET v = v + 100 WHERE key IN keys` -/
def mkUpdate (t : Table) (keys : List Nat) (tok : Nat) : Txn × List Addr :=
  (⟨.update, updatedOf t (t.addrsWhere (fun r => keys.contains r.key)) tok,
     removedOf t (t.addrsWhere (fun r => keys.contains r.key)) tok,
     (t.rowsWhere (fun r => keys.contains r.key)).map (fun r => { r with v := r.v + 100 }), 0⟩,
   t.addrsWhere (fun r => keys.contains r.key))

/-- the source row a target row is matched with -/
def srcFor (src : List Row) (r : Row) : Row :=
  match src.find? (fun s => s.key == r.key) with
  | some s => s
  | none => r

/-- merge_insert on the key, WhenMatched::UpdateAll, WhenNotMatched::InsertAll (full schema): every matched target row is
    deleted and written again with the source values, every unmatched source row is inserted -/
def mkMerge (t : Table) (src : List Row) (tok : Nat) : Txn × List Addr :=
  (⟨.update, updatedOf t (t.addrsWhere (fun r => src.any (fun s => s.key == r.key))) tok,
     removedOf t (t.addrsWhere (fun r => src.any (fun s => s.key == r.key))) tok,
     (t.rowsWhere (fun r => src.any (fun s => s.key == r.key))).map (srcFor src)
       ++ src.filter (fun s => !(t.scan.any (fun r => r.key == s.key))), 0⟩,
   t.addrsWhere (fun r => src.any (fun s => s.key == r.key)))

/-- merge_insert on the key with a PARTIAL source schema (key, v), WhenMatched::UpdateAll, WhenNotMatched::InsertAll
    (Update / RewriteColumns, `update_fragments`): the matched rows are rewritten IN PLACE - every fragment with a matched
    row gets one more data file holding the new column values, its deletion file stays - and the unmatched source rows go
    to a new fragment.  No affected rows ("we have rewritten the fragments, not just the deletion files"). -/
def mkMergeCols (t : Table) (src : List Row) : Txn × List Addr :=
  (⟨.update,
     t.frags.filterMap (fun f =>
       if (offsetsOf (t.addrsWhere (fun r => src.any (fun s => s.key == r.key))) f.id).isEmpty then none
       else some { f with
         files := f.files + 1,
         rows := f.rows.zipIdx.map (fun (r, o) =>
           if (offsetsOf (t.addrsWhere (fun r => src.any (fun s => s.key == r.key))) f.id).contains o
           then srcFor src r else r) }),
     [],
     src.filter (fun s => !(t.scan.any (fun r => r.key == s.key))), 0⟩,
   t.addrsWhere (fun r => src.any (fun s => s.key == r.key)))

/-! ## Transaction::build_manifest -/

/-- Update arm: `updated_fragments.iter().find(|uf| uf.id == f.id)` -/
def pickFirst (us : List Frag) (f : Frag) : Frag :=
  match us.find? (fun u => u.id == f.id) with
  | some u => u
  | none => f

/-- Delete arm: `for updated in updated_fragments { if updated.id == f.id { *f = updated.clone() } }` -/
def pickLast (us : List Frag) (f : Frag) : Frag := us.foldl (fun acc u => if u.id == acc.id then u else acc) f

/-- fragments_with_ids: `if f.id == 0 { f.id = *fragment_id; *fragment_id += 1 }` -/
def newFragId (t : Table) (T : Txn) : Nat := if T.newId == 0 then t.maxFrag else T.newId

def newFrag (t : Table) (T : Txn) : List Frag :=
  if T.newRows.isEmpty then [] else [⟨newFragId t T, 1, T.newRows, [], none⟩]

/-- max_fragment_id after the commit (update_max_fragment_id: the high-water mark never decreases) -/
def newMax (t : Table) (T : Txn) : Nat :=
  if T.newRows.isEmpty then t.maxFrag else max t.maxFrag (newFragId t T + 1)

def build (t : Table) (T : Txn) : Table :=
  match T.kind with
  | .delete => ⟨(t.frags.filter (fun f => !T.removed.contains f.id)).map (pickLast T.updated), t.maxFrag⟩
  | .update =>
    ⟨(t.frags.filter (fun f => !T.removed.contains f.id)).map (pickFirst T.updated) ++ newFrag t T, newMax t T⟩
  | .rewrite => ⟨t.frags.filter (fun f => !T.removed.contains f.id) ++ newFrag t T, newMax t T⟩
  | .reserve => ⟨t.frags, t.maxFrag + 1⟩

/-! ## TransactionRebase -/

/-- `initial` = initial_fragments (fragment as of the read version, needs_rewrite), `modified` = modified_fragment_ids -/
structure Rebase where
  txn : Txn
  initial : List (Frag × Bool)
  modified : List Nat
  affected : Option (List Addr)
deriving Repr

def modifiedIds (T : Txn) : List Nat := T.updated.map (·.id) ++ T.removed

/-- TransactionRebase::try_new, arm Delete | Update (with initial_fragments_for_rebase on the table of the read version) -/
def tryNew (tr : Table) (T : Txn) (aff : Option (List Addr)) : Rebase :=
  if T.updated.isEmpty && aff.isSome then ⟨T, [], modifiedIds T, none⟩
  else ⟨T, (tr.frags.filter (fun f => (modifiedIds T).contains f.id)).map (fun f => (f, false)), modifiedIds T, aff⟩

/-- `self.initial_fragments.get(&id)` -/
def lookupInit (init : List (Frag × Bool)) (i : Nat) : Option (Frag × Bool) := init.find? (fun e => e.1.id == i)

/-- check_delete_txn / check_update_txn against a committed Rewrite, ReserveFragments, Delete or Update (the two functions
    agree on these arms) -/
def checkTxn (rb : Rebase) (o : Txn) : Except Err Rebase :=
  match o.kind with
  | .reserve => .ok rb
  | .rewrite => if o.removed.any (fun i => rb.modified.contains i) then .error .retryable else .ok rb
  | _ =>
    if !((modifiedIds o).any (fun i => rb.modified.contains i)) then .ok rb
    else if rb.affected.isNone then .error .retryable
    else if o.updated.any (fun u => match lookupInit rb.initial u.id with
                                    | some (f, _) => f.files != u.files
                                    | none => false) then .error .retryable
    else if o.removed.any (fun i => (lookupInit rb.initial i).isSome) then .error .retryable
    else .ok { rb with initial := rb.initial.map (fun e =>
                (e.1, e.2 || o.updated.any (fun u => u.id == e.1.id && u.dfile != e.1.dfile))) }

/-- the loop `for (other_version, other_transaction) in other_transactions { rebase.check_txn(..)? }` -/
def checkAll (rb : Rebase) : List Txn → Except Err Rebase
  | [] => .ok rb
  | o :: os =>
    match checkTxn rb o with
    | .error e => .error e
    | .ok rb' => checkAll rb' os

/-- fragments_ids_to_rewrite -/
def rewriteIds (rb : Rebase) : List Nat := (rb.initial.filter (·.2)).map (·.1.id)

/-- existing_deletions: the deletion vectors of the fragments to rewrite, read from the CURRENT version -/
def existingDeletions (cur : Table) (ids : List Nat) : List Addr :=
  (cur.frags.filter (fun f => ids.contains f.id)).flatMap (fun f => f.del.map (fun o => (f.id, o)))

/-- `merged.get_fragment_bitmap(id)` with merged = existing_deletions | affected_rows -/
def mergedOffsets (cur : Table) (aff : List Addr) (i : Nat) : List Nat :=
  union (match cur.get i with | some c => c.del | none => []) (offsetsOf aff i)

/-- new_deleted_frag_ids: the merged deletion vector covers the fragment (dv.len() == physical_rows) -/
def promoted (rb : Rebase) (cur : Table) (aff : List Addr) : List Nat :=
  (rewriteIds rb).filter (fun i => match lookupInit rb.initial i with
                                   | some (f, _) => (mergedOffsets cur aff i).length == f.rows.length
                                   | none => false)

/-- TransactionRebase::finish_delete_update -/
def finish (rb : Rebase) (cur : Table) (tok : Nat) : Except Err Txn :=
  if rb.initial.any (·.2) then
    match rb.affected with
    | none => .error .internal
    | some aff =>
      -- `.expect("there should be a deletion file")`
      if (cur.frags.filter (fun f => (rewriteIds rb).contains f.id)).any (fun f => f.dfile.isNone) then .error .internal
      else if (existingDeletions cur (rewriteIds rb)).any (fun a => aff.contains a) then .error .retryable
      -- `merged.get_fragment_bitmap(id).unwrap()`
      else if (rewriteIds rb).any (fun i => (mergedOffsets cur aff i).isEmpty) then .error .internal
      else .ok { rb.txn with
        updated := rb.txn.updated.map (fun u =>
          if (rewriteIds rb).contains u.id && !(promoted rb cur aff).contains u.id then
            { u with del := mergedOffsets cur aff u.id, dfile := some ⟨tok, (mergedOffsets cur aff u.id).length⟩ }
          else u),
        removed := rb.txn.removed ++ promoted rb cur aff }
  else .ok rb.txn

/-! ## the history and commit_transaction -/

/-- version 1 = `base`; entry k of `log` = (the transaction as committed, i.e. after its rebase, the table it produced) =
    version k + 2 -/
structure Db where
  base : Table
  log : List (Txn × Table)
deriving Repr

def lastTable (base : Table) : List (Txn × Table) → Table
  | [] => base
  | e :: l => lastTable e.2 l

def Db.latest (db : Db) : Table := lastTable db.base db.log
def Db.version (db : Db) : Nat := db.log.length + 1
/-- checkout_version(r) -/
def Db.tableAt (db : Db) (r : Nat) : Table := lastTable db.base (db.log.take (r - 1))
/-- load_and_sort_new_transactions: the transactions of the versions after `r`, in version order -/
def Db.others (db : Db) (r : Nat) : List Txn := (db.log.drop (r - 1)).map (·.1)

/-- commit_transaction for a Delete / Update built at version `r` (one attempt: in this sequential setting nobody commits
    between loading the other transactions and writing the manifest) -/
def commit (db : Db) (r : Nat) (T : Txn) (aff : Option (List Addr)) (tok : Nat) : Except Err Db :=
  match checkAll (tryNew (db.tableAt r) T aff) (db.others r) with
  | .error e => .error e
  | .ok rb =>
    match finish rb db.latest tok with
    | .error e => .error e
    | .ok T' => .ok { db with log := db.log ++ [(T', build db.latest T')] }

/-! ## compaction of the latest version (never rebased here) -/

/-- plan_compaction with one bin of all fragments: a no-op for an empty table and for a single fragment without deletions -/
def compactNeeded (t : Table) : Bool :=
  match t.frags with
  | [] => false
  | [f] => !f.del.isEmpty
  | _ => true

def reserveTxn : Txn := ⟨.reserve, [], [], [], 0⟩

/-- the Rewrite of one group: every fragment of `t` is replaced by one fragment holding the visible rows -/
def rewriteTxn (t : Table) (newId : Nat) : Txn := ⟨.rewrite, [], t.frags.map (·.id), t.scan, newId⟩

/-- rewrite_files / commit_compaction: the id of the new fragment is reserved by a ReserveFragments commit first
    (`reserve_fragment_ids`: in rewrite_files without stable row ids, in commit_compaction with them) and the new fragment
    carries it; then the Rewrite is committed.  Two versions. -/
def compact (db : Db) : Db :=
  if compactNeeded db.latest then
    { db with log := db.log ++
        [(reserveTxn, build db.latest reserveTxn),
         (rewriteTxn db.latest db.latest.maxFrag,
          build (build db.latest reserveTxn) (rewriteTxn db.latest db.latest.maxFrag))] }
  else db

/-! ## the writers with their retry loop -/

inductive OpKind where
  | del (keys : List Nat)
  | upd (keys : List Nat)
  | mrg (src : List Row)
  | pmrg (src : List Row)
deriving Repr

/-- the writers that move rows (Delete, Update / RewriteRows) as opposed to rewriting columns in place -/
def OpKind.movesRows : OpKind → Bool
  | .pmrg _ => false
  | _ => true

def mk (t : Table) (op : OpKind) (tok : Nat) : Txn × List Addr :=
  match op with
  | .del keys => mkDelete t keys tok
  | .upd keys => mkUpdate t keys tok
  | .mrg src => mkMerge t src tok
  | .pmrg src => mkMergeCols t src

/-- execute_with_retry: build at the handle's version and commit; on a retryable conflict (and retries left) check out the
    latest version, build again and commit.  `withAff = false` is the older writer that does not pass affected_rows. -/
def runOp (db : Db) (r : Nat) (op : OpKind) (withAff retry : Bool) (tok : Nat) : Except Err Db :=
  match commit db r (mk (db.tableAt r) op tok).1 (if withAff then some (mk (db.tableAt r) op tok).2 else none) (tok + 1) with
  | .ok db' => .ok db'
  | .error .retryable =>
    if retry then
      commit db db.version (mk db.latest op (tok + 2)).1
        (if withAff then some (mk db.latest op (tok + 2)).2 else none) (tok + 3)
    else .error .retryable
  | .error e => .error e

end LanceModel.C04
