import LanceModel.C04.Driver
def main : IO Unit := LanceModel.Util.runDriver LanceModel.C04.Driver.step LanceModel.C04.Driver.init
