import LanceModel.C04.HistLemmas
/-
C04 helper lemmas: the second update mode.  An Update / RewriteColumns transaction (partial-schema merge_insert) rewrites
rows IN PLACE and carries no affected rows: it commits only if none of its fragments was touched since its read version.
-/
namespace LanceModel.C04

/-- `T` rewrites columns of fragments of table `t` in place (and may add a fragment of new rows) -/
structure WellBuiltCols (t : Table) (T : Txn) : Prop where
  kind : T.kind = .update
  newId : T.newId = 0
  nodup : (T.updated.map (·.id)).Nodup
  noRem : T.removed = []
  upd : ∀ u ∈ T.updated, ∃ f, t.get u.id = some f ∧ ColsRewritten f u

theorem wellBuiltCols_mk {t : Table} (hw : t.WF) (src : List Row) : WellBuiltCols t (mkMergeCols t src).1 := by
  refine ⟨rfl, rfl, ?_, rfl, ?_⟩
  · refine List.Nodup.sublist ?_ hw.1
    apply filterMap_ids_sublist
    intro f u h
    split at h
    · cases h
    · injection h with h; rw [← h]
  · intro u hu
    simp only [mkMergeCols, List.mem_filterMap] at hu
    obtain ⟨f, hf, h⟩ := hu
    split at h
    · cases h
    · injection h with h
      subst h
      exact ⟨f, get_of_mem hw hf, rfl, by simp, by simp, rfl, rfl⟩

/-- a successful commit of a column rewrite: its fragments are exactly as they were at its read version (nobody deleted,
    updated or moved a row of them in between), they are replaced by the rewritten ones, every other fragment is untouched,
    and the visible rows are the latest ones plus the new fragment -/
theorem cols_commit_effect {db db' : Db} {r : Nat} {T : Txn} {tok : Nat}
    (hinv : db.Inv) (hb : WellBuiltCols (db.tableAt r) T) (hc : commit db r T none tok = .ok db') :
    db'.Inv ∧ db'.base = db.base ∧
    (∀ u ∈ T.updated, db.latest.get u.id = (db.tableAt r).get u.id) ∧
    (∀ u ∈ T.updated, db'.latest.get u.id = some u) ∧
    (∀ i, (∀ u ∈ T.updated, u.id ≠ i) → i ≠ db.latest.maxFrag → db'.latest.get i = db.latest.get i) ∧
    (∀ a, db'.latest.live a ↔ db.latest.live a ∨ (a.1 = db.latest.maxFrag ∧ a.2 < T.newRows.length)) ∧
    db.latest.maxFrag ≤ db'.latest.maxFrag := by
  rw [commit_unfold] at hc
  cases hck : checkAll (tryNew (db.tableAt r) T none) (db.others r) with
  | error e => rw [hck] at hc; cases hc
  | ok rb =>
    rw [hck] at hc
    simp only at hc
    obtain ⟨htr, htxn, hmod, haf⟩ := commit_tracks hinv hck
    have hnone : rb.affected = none := by rcases haf with h | h <;> exact h
    have hflags : ∀ i, flagOf rb i = false := fun i => flagOf_false (htr.noflag hnone) i
    have hfin : finish rb db.latest tok = .ok T := by
      unfold finish
      have : rb.initial.any (·.2) = false := by
        rw [List.any_eq_false]
        intro e he
        rw [htr.noflag hnone e he]
        simp
      rw [this, htxn]
      rfl
    rw [hfin] at hc
    simp only at hc
    injection hc with hc
    have hw := inv_latest_wf hinv
    have hkk : T.kind = .delete ∨ T.kind = .update := .inr hb.kind
    have hrem : ∀ i, i ∉ T.removed := by intro i; rw [hb.noRem]; simp
    -- isolation
    have hiso : ∀ u ∈ T.updated, ∃ f, (db.tableAt r).get u.id = some f ∧ db.latest.get u.id = some f ∧
        ColsRewritten f u := by
      intro u hu
      obtain ⟨f, hf, hcr⟩ := hb.upd u hu
      have hi : u.id ∈ modifiedIds T := mem_modifiedIds.mpr (.inl ⟨u, hu, rfl⟩)
      exact ⟨f, hf, unchanged_of_noflag htr hmod hi (hflags u.id) hf, hcr⟩
    have hlog : Logged db.latest T := by
      refine ⟨fun _ => ⟨hb.nodup, ?_, hb.newId⟩, fun h => by rw [hb.kind] at h; cases h⟩
      intro u hu _
      obtain ⟨f, _, hf, hcr⟩ := hiso u hu
      exact ⟨f, hf, .inr hcr⟩
    have hl : db'.latest = build db.latest T := by rw [← hc]; exact latest_append db _
    have hgu : ∀ u ∈ T.updated, db'.latest.get u.id = some u := by
      intro u hu
      obtain ⟨f, _, hf, _⟩ := hiso u hu
      rw [hl]
      exact get_build_updated hkk hb.nodup hf (hrem _) hu rfl
    have hframe : ∀ i, (∀ u ∈ T.updated, u.id ≠ i) → i ≠ db.latest.maxFrag → db'.latest.get i = db.latest.get i := by
      intro i hnu hne
      rw [hl]
      cases hg : db.latest.get i with
      | some c => exact get_build_untouched hg (hrem i) hnu
      | none =>
        rw [get_build_new hw hkk hb.newId hg (hrem i), if_neg]
        rintro ⟨_, _, h⟩; exact hne h
    refine ⟨?_, by rw [← hc], ?_, hgu, hframe, ?_, by rw [hl]; exact build_maxFrag_ge _ _⟩
    · rw [← hc]
      exact chain_snoc hinv T hlog
    · intro u hu
      obtain ⟨f, hf0, hf, _⟩ := hiso u hu
      rw [hf, hf0]
    · intro a
      by_cases hex : ∃ u ∈ T.updated, u.id = a.1
      · obtain ⟨u, hu, hui⟩ := hex
        obtain ⟨f, _, hf, hcr⟩ := hiso u hu
        have hg := hgu u hu
        rw [hui] at hg hf
        have hlt : a.1 < db.latest.maxFrag := get_lt hw hf
        rw [live_iff hg, live_iff hf, hcr.2.2.1, hcr.2.2.2.1]
        constructor
        · intro h; exact .inl h
        · rintro (h | ⟨h, _⟩)
          · exact h
          · omega
      · have hnu : ∀ u ∈ T.updated, u.id ≠ a.1 := fun u hu e => hex ⟨u, hu, e⟩
        by_cases hm : a.1 = db.latest.maxFrag
        · have hnone : db.latest.get a.1 = none := get_none_of_ge hw (by omega)
          have hg := get_build_new hw hkk hb.newId hnone (hrem a.1)
          rw [← hl] at hg
          constructor
          · intro hlive
            right
            by_cases hcond : T.kind = .update ∧ T.newRows.isEmpty = false ∧ a.1 = db.latest.maxFrag
            · rw [if_pos hcond] at hg
              rw [live_iff hg] at hlive
              exact ⟨hm, hlive.1⟩
            · rw [if_neg hcond] at hg
              exact absurd hlive (not_live_of_none hg)
          · rintro (h | ⟨_, h3⟩)
            · exact absurd h (not_live_of_none hnone)
            · have hcond : T.kind = .update ∧ T.newRows.isEmpty = false ∧ a.1 = db.latest.maxFrag := by
                refine ⟨hb.kind, ?_, hm⟩
                cases hnr : T.newRows with
                | nil => rw [hnr] at h3; simp at h3
                | cons x xs => rfl
              rw [if_pos hcond] at hg
              rw [live_iff hg]
              exact ⟨h3, by simp⟩
        · have hg := hframe a.1 hnu hm
          unfold Table.live
          rw [hg]
          constructor
          · intro h; exact .inl h
          · rintro (h | ⟨h, _⟩)
            · exact h
            · exact absurd h hm

/-! ### the new images of an update are the images of exactly the rows it kills -/

theorem rowAt_of_mem {t : Table} (hw : t.WF) {f : Frag} (hf : f ∈ t.frags) (o : Nat) : t.rowAt (f.id, o) = f.rows[o]? := by
  unfold Table.rowAt
  rw [get_of_mem hw hf]

theorem frag_rows_of_addrs {t : Table} {f : Frag} (hr : ∀ o, t.rowAt (f.id, o) = f.rows[o]?) (p : Row → Bool) (L : List Nat) :
    ((L.filter (fun o => match f.rows[o]? with | some r => p r | none => false)).map (fun o => (f.id, o))).filterMap t.rowAt
      = L.filterMap (fun o => match f.rows[o]? with | some r => if p r then some r else none | none => none) := by
  induction L with
  | nil => rfl
  | cons o L ih =>
    cases hro : f.rows[o]? with
    | none =>
      rw [List.filter_cons_of_neg (by simp [hro]), List.filterMap_cons_none (by simp [hro])]
      exact ih
    | some r =>
      by_cases hp : p r = true
      · rw [List.filter_cons_of_pos (by simp [hro, hp]), List.map_cons,
          List.filterMap_cons_some (b := r) (by rw [hr o, hro]),
          List.filterMap_cons_some (b := r) (by simp [hro, hp]), ih]
      · rw [List.filter_cons_of_neg (by simp [hro, hp]), List.filterMap_cons_none (by simp [hro, hp])]
        exact ih

/-- scanning the rows that satisfy `p` = reading the stored rows at the addresses the same scan reports -/
theorem rows_of_addrs {t : Table} (hw : t.WF) (p : Row → Bool) : (t.addrsWhere p).filterMap t.rowAt = t.rowsWhere p := by
  unfold Table.addrsWhere Table.rowsWhere
  have : ∀ l : List Frag, (∀ f ∈ l, f ∈ t.frags) →
      (l.flatMap (fun f => (f.liveIdx.filter (fun o => match f.rows[o]? with | some r => p r | none => false)).map
          (fun o => (f.id, o)))).filterMap t.rowAt
      = l.flatMap (fun f => f.liveIdx.filterMap
          (fun o => match f.rows[o]? with | some r => if p r then some r else none | none => none)) := by
    intro l
    induction l with
    | nil => intro _; rfl
    | cons f r ih =>
      intro hm
      rw [List.flatMap_cons, List.flatMap_cons, List.filterMap_append,
        frag_rows_of_addrs (rowAt_of_mem hw (hm f (by simp))) p f.liveIdx, ih (fun g hg => hm g (by simp [hg]))]
  exact this t.frags (fun _ h => h)

end LanceModel.C04
