import LanceModel.C04.GetLemmas
/-
C04 helper lemmas: the history invariant (`Chain`), and what a transaction that passed `check_txn` against every transaction
committed since its read version knows about the fragments it modifies (`Tracks`).
-/
namespace LanceModel.C04

/-- `u` is `f` with a strictly larger deletion vector (same data files) -/
def Extends (f u : Frag) : Prop :=
  u.id = f.id ∧ u.files = f.files ∧ u.rows = f.rows ∧ (∀ o ∈ f.del, o ∈ u.del) ∧ f.del.length < u.del.length ∧ u.WF

/-- `u` is `f` with its columns rewritten in place (Update / RewriteColumns): one more data file, same row addresses, same
    deletion vector and deletion file -/
def ColsRewritten (f u : Frag) : Prop :=
  u.id = f.id ∧ u.files ≠ f.files ∧ u.rows.length = f.rows.length ∧ u.del = f.del ∧ u.dfile = f.dfile

theorem ColsRewritten.wf {f u : Frag} (h : ColsRewritten f u) (hf : f.WF) : u.WF := by
  obtain ⟨_, _, h3, h4, h5⟩ := h
  obtain ⟨w1, w2, w3, w4⟩ := hf
  refine ⟨by rw [h4]; exact w1, ?_, ?_, ?_⟩
  · intro o ho; rw [h4] at ho; rw [h3]; exact w2 o ho
  · intro hd; rw [h5] at hd; rw [h4]; exact w3 hd
  · intro d hd; rw [h5] at hd; rw [h4]; exact w4 d hd

/-- what the history knows about a committed transaction (in the form it was committed, i.e. after its rebase) relative to
    the version it was committed on.  (A fragment that finish_delete_update promoted to "removed" keeps its stale entry in
    updated_fragments; build_manifest drops removed fragments first, so that entry is dead.) -/
def Logged (t : Table) (o : Txn) : Prop :=
  ((o.kind = .delete ∨ o.kind = .update) →
      (o.updated.map (·.id)).Nodup ∧
        (∀ u ∈ o.updated, u.id ∉ o.removed → ∃ f, t.get u.id = some f ∧ (Extends f u ∨ ColsRewritten f u)) ∧
        o.newId = 0) ∧
  (o.kind = .rewrite → o.newId = 0 ∨ ∀ f ∈ t.frags, f.id < o.newId)

/-- every version is well formed and is `build_manifest` of its predecessor and the recorded transaction -/
def Chain : Table → List (Txn × Table) → Prop
  | t, [] => t.WF
  | t, e :: rest => t.WF ∧ Logged t e.1 ∧ e.2 = build t e.1 ∧ Chain e.2 rest

theorem chain_wf_head {t : Table} {l : List (Txn × Table)} (h : Chain t l) : t.WF := by
  cases l with
  | nil => exact h
  | cons e r => exact h.1

theorem chain_append {t : Table} {l1 l2 : List (Txn × Table)} :
    Chain t (l1 ++ l2) ↔ Chain t l1 ∧ Chain (lastTable t l1) l2 := by
  induction l1 generalizing t with
  | nil =>
    simp only [List.nil_append, lastTable]
    exact ⟨fun h => ⟨chain_wf_head h, h⟩, fun h => h.2⟩
  | cons e r ih =>
    simp only [List.cons_append, Chain, lastTable]
    rw [ih]
    constructor
    · rintro ⟨a, b, c, d, e'⟩; exact ⟨⟨a, b, c, d⟩, e'⟩
    · rintro ⟨⟨a, b, c, d⟩, e'⟩; exact ⟨a, b, c, d, e'⟩

theorem chain_wf_last {t : Table} {l : List (Txn × Table)} (h : Chain t l) : (lastTable t l).WF := by
  induction l generalizing t with
  | nil => exact h
  | cons e r ih => exact ih h.2.2.2

theorem lastTable_append (t : Table) (l1 l2 : List (Txn × Table)) :
    lastTable t (l1 ++ l2) = lastTable (lastTable t l1) l2 := by
  induction l1 generalizing t with
  | nil => rfl
  | cons e r ih => simp only [List.cons_append, lastTable]; exact ih _

/-! ### reading through one `build` -/

theorem get_build_untouched {t : Table} {o : Txn} {i : Nat} {c : Frag} (hg : t.get i = some c)
    (hr : i ∉ o.removed) (hu : ∀ u ∈ o.updated, u.id ≠ i) : (build t o).get i = some c := by
  have hid : c.id = i := (get_some hg).2
  rw [get_build]
  cases hk : o.kind with
  | delete =>
    simp only [hr, if_false, hg, Option.map_some]
    rw [pickLast_self (fun u hu' => by rw [hid]; exact hu u hu')]
  | update =>
    simp only [hr, if_false, hg, Option.map_some, Option.some_or]
    rw [pickFirst_self (fun u hu' => by rw [hid]; exact hu u hu')]
  | rewrite => simp only [hr, if_false, hg, Option.some_or]
  | reserve => exact hg

theorem get_build_updated {t : Table} {o : Txn} {i : Nat} {c u : Frag} (hk : o.kind = .delete ∨ o.kind = .update)
    (hn : (o.updated.map (·.id)).Nodup) (hg : t.get i = some c) (hr : i ∉ o.removed) (hu : u ∈ o.updated)
    (hui : u.id = i) : (build t o).get i = some u := by
  have hid : c.id = i := (get_some hg).2
  rw [get_build]
  rcases hk with hk | hk
  · simp only [hk, hr, if_false, hg, Option.map_some]
    rw [pickLast_eq_pickFirst hn, pickFirst_of_mem hn hu (by rw [hui, hid])]
  · simp only [hk, hr, if_false, hg, Option.map_some, Option.some_or]
    rw [pickFirst_of_mem hn hu (by rw [hui, hid])]

/-! ### `build` keeps tables well formed -/

theorem newFrag_wf (t : Table) (T : Txn) : ∀ f ∈ newFrag t T, f.WF ∧ f.id = newFragId t T := by
  intro f hf
  unfold newFrag at hf
  split at hf
  · simp at hf
  · simp only [List.mem_singleton] at hf
    subst hf
    exact ⟨⟨by simp, by simp, by simp, by simp⟩, rfl⟩

theorem newMax_ge (t : Table) (T : Txn) : t.maxFrag ≤ newMax t T := by
  unfold newMax; split <;> omega

theorem newMax_gt (t : Table) (T : Txn) : ∀ f ∈ newFrag t T, f.id < newMax t T := by
  intro f hf
  have hid := (newFrag_wf t T f hf).2
  unfold newMax
  unfold newFrag at hf
  split at hf
  · simp at hf
  · rename_i h; simp only [h]; simp; omega

theorem pick_mem_or (us : List Frag) (f : Frag) : pickFirst us f = f ∨ pickFirst us f ∈ us := by
  unfold pickFirst
  split
  · rename_i u hu; exact .inr (List.mem_of_find?_eq_some hu)
  · exact .inl rfl

theorem build_wf {t : Table} {o : Txn} (hw : t.WF) (hl : Logged t o) : (build t o).WF := by
  obtain ⟨hn, hf⟩ := hw
  have hsub : ∀ (R : List Nat), ((t.frags.filter (fun f => !R.contains f.id)).map (·.id)).Nodup :=
    fun R => hn.sublist (List.Sublist.map _ List.filter_sublist)
  cases hk : o.kind with
  | reserve =>
    unfold build; simp only [hk]
    exact ⟨hn, fun f hf' => ⟨by have := (hf f hf').1; show f.id < t.maxFrag + 1; omega, (hf f hf').2⟩⟩
  | delete =>
    obtain ⟨hun, hue, _⟩ := hl.1 (.inl hk)
    unfold build; simp only [hk]
    refine ⟨?_, ?_⟩
    · simp only [List.map_map]
      have : ((fun x : Frag => x.id) ∘ pickLast o.updated) = fun x => x.id := by
        funext x; exact pickLast_id _ _
      rw [this]; exact hsub _
    · intro g hg
      simp only [List.mem_map, List.mem_filter] at hg
      obtain ⟨f, ⟨hfm, hfr⟩, rfl⟩ := hg
      rw [pickLast_eq_pickFirst hun]
      refine ⟨by rw [pickFirst_id]; exact (hf f hfm).1, ?_⟩
      rcases pick_mem_or o.updated f with h | h
      · rw [h]; exact (hf f hfm).2
      · obtain ⟨f0, hf0, he⟩ := hue _ h (by rw [pickFirst_id]; simpa using hfr)
        rcases he with he | he
        · exact he.2.2.2.2.2
        · exact he.wf (hf f0 (get_some hf0).1).2
  | update =>
    obtain ⟨hun, hue, hz⟩ := hl.1 (.inr hk)
    unfold build; simp only [hk]
    have hidn : newFragId t o = t.maxFrag := newFragId_zero hz
    refine ⟨?_, ?_⟩
    · rw [List.map_append, List.nodup_append]
      refine ⟨?_, ?_, ?_⟩
      · simp only [List.map_map]
        have : ((fun x : Frag => x.id) ∘ pickFirst o.updated) = fun x => x.id := by
          funext x; exact pickFirst_id _ _
        rw [this]; exact hsub _
      · unfold newFrag; split <;> simp
      · intro a ha b hb
        simp only [List.mem_map, List.mem_filter] at ha hb
        obtain ⟨g, ⟨f, ⟨hfm, _⟩, rfl⟩, rfl⟩ := ha
        obtain ⟨n, hn', rfl⟩ := hb
        rw [pickFirst_id, (newFrag_wf t o n hn').2, hidn]
        have := (hf f hfm).1
        omega
    · intro g hg
      simp only [List.mem_append, List.mem_map, List.mem_filter] at hg
      rcases hg with ⟨f, ⟨hfm, hfr⟩, rfl⟩ | hg
      · refine ⟨by rw [pickFirst_id]; exact Nat.lt_of_lt_of_le (hf f hfm).1 (newMax_ge t o), ?_⟩
        rcases pick_mem_or o.updated f with h | h
        · rw [h]; exact (hf f hfm).2
        · obtain ⟨f0, hf0, he⟩ := hue _ h (by rw [pickFirst_id]; simpa using hfr)
          rcases he with he | he
          · exact he.2.2.2.2.2
          · exact he.wf (hf f0 (get_some hf0).1).2
      · exact ⟨newMax_gt t o g hg, (newFrag_wf t o g hg).1⟩
  | rewrite =>
    have hz := hl.2 hk
    unfold build; simp only [hk]
    refine ⟨?_, ?_⟩
    · rw [List.map_append, List.nodup_append]
      refine ⟨hsub _, ?_, ?_⟩
      · unfold newFrag; split <;> simp
      · intro a ha b hb
        simp only [List.mem_map, List.mem_filter] at ha hb
        obtain ⟨f, ⟨hfm, _⟩, rfl⟩ := ha
        obtain ⟨n, hn', rfl⟩ := hb
        rw [(newFrag_wf t o n hn').2]
        rcases hz with hz | hz
        · rw [newFragId_zero hz]; have := (hf f hfm).1; omega
        · have := hz f hfm
          unfold newFragId
          split
          · rename_i h0; simp at h0; omega
          · omega
    · intro g hg
      simp only [List.mem_append, List.mem_filter] at hg
      rcases hg with ⟨hfm, _⟩ | hg
      · exact ⟨Nat.lt_of_lt_of_le (hf g hfm).1 (newMax_ge t o), (hf g hfm).2⟩
      · exact ⟨newMax_gt t o g hg, (newFrag_wf t o g hg).1⟩

/-! ### the rebase state tracks the fragments the transaction modifies -/

def flagOf (rb : Rebase) (i : Nat) : Bool :=
  match lookupInit rb.initial i with
  | some e => e.2
  | none => false

/-- `c` (current) relative to `f` (as of the read version): only the deletion vector may have grown, and it has not changed
    at all unless `needs_rewrite` was raised -/
def Rel (f c : Frag) (nr : Bool) : Prop :=
  c.id = f.id ∧ c.files = f.files ∧ c.rows = f.rows ∧ (∀ o ∈ f.del, o ∈ c.del) ∧ f.del.length ≤ c.del.length ∧
    (nr = false → c = f) ∧ (nr = true → f.del.length < c.del.length)

structure Tracks (t0 t : Table) (rb : Rebase) : Prop where
  frag : ∀ i ∈ rb.modified, ∀ f, t0.get i = some f → ∃ c, t.get i = some c ∧ Rel f c (flagOf rb i)
  nodup : (rb.initial.map (·.1.id)).Nodup
  init : ∀ e ∈ rb.initial, t0.get e.1.id = some e.1 ∧ e.1.id ∈ rb.modified
  cover : rb.affected.isSome → ∀ i ∈ rb.modified, ∀ f, t0.get i = some f → ∃ nr, lookupInit rb.initial i = some (f, nr)
  noflag : rb.affected = none → ∀ e ∈ rb.initial, e.2 = false

theorem lookupInit_map (init : List (Frag × Bool)) (h : Frag × Bool → Bool) (i : Nat) :
    lookupInit (init.map (fun e => (e.1, h e))) i = (lookupInit init i).map (fun e => (e.1, h e)) := by
  unfold lookupInit
  rw [List.find?_map]
  rfl

/-- the deletion file of a strictly larger deletion vector is a different file -/
theorem dfile_ne {f u : Frag} (hf : f.WF) (hu : u.WF) (hlen : f.del.length < u.del.length) : u.dfile ≠ f.dfile := by
  obtain ⟨_, _, hu3, hu4⟩ := hu
  obtain ⟨_, _, hf3, hf4⟩ := hf
  cases hud : u.dfile with
  | none =>
    have := hu3 hud
    rw [this] at hlen
    simp at hlen
  | some d =>
    have hd := hu4 d hud
    cases hfd : f.dfile with
    | none => simp
    | some d' =>
      have hd' := hf4 d' hfd
      intro e
      injection e with e
      subst e
      omega

theorem tracks_step {t0 t : Table} {rb rb' : Rebase} {o : Txn}
    (hw0 : t0.WF) (hl : Logged t o) (htr : Tracks t0 t rb) (hc : checkTxn rb o = .ok rb') :
    Tracks t0 (build t o) rb' ∧ rb'.txn = rb.txn ∧ rb'.modified = rb.modified ∧ rb'.affected = rb.affected := by
  unfold checkTxn at hc
  cases hk : o.kind with
  | reserve =>
    simp only [hk] at hc
    injection hc with hc; subst hc
    refine ⟨⟨?_, htr.nodup, htr.init, htr.cover, htr.noflag⟩, rfl, rfl, rfl⟩
    intro i hi f hf
    obtain ⟨c, hc1, hc2⟩ := htr.frag i hi f hf
    refine ⟨c, ?_, hc2⟩
    rw [get_build]; simp only [hk]; exact hc1
  | rewrite =>
    simp only [hk] at hc
    split at hc
    · cases hc
    · rename_i hany
      injection hc with hc; subst hc
      refine ⟨⟨?_, htr.nodup, htr.init, htr.cover, htr.noflag⟩, rfl, rfl, rfl⟩
      intro i hi f hf
      obtain ⟨c, hc1, hc2⟩ := htr.frag i hi f hf
      refine ⟨c, ?_, hc2⟩
      have hr : i ∉ o.removed := by
        intro hmem
        apply hany
        rw [List.any_eq_true]
        exact ⟨i, hmem, by simpa using hi⟩
      rw [get_build]; simp only [hk, hr, if_false, hc1, Option.some_or]
  | delete | update =>
    have hkk : o.kind = .delete ∨ o.kind = .update := by simp [hk]
    obtain ⟨hun, hue, _⟩ := hl.1 hkk
    simp only [hk] at hc
    split at hc
    · -- no fragment in common
      rename_i hno
      injection hc with hc; subst hc
      refine ⟨⟨?_, htr.nodup, htr.init, htr.cover, htr.noflag⟩, rfl, rfl, rfl⟩
      intro i hi f hf
      obtain ⟨c, hc1, hc2⟩ := htr.frag i hi f hf
      refine ⟨c, ?_, hc2⟩
      have hnot : i ∉ modifiedIds o := by
        intro hmem
        simp only [Bool.not_eq_true', List.any_eq_false] at hno
        have := hno i hmem
        simp at this
        exact this hi
      unfold modifiedIds at hnot
      simp only [List.mem_append, List.mem_map, not_or, not_exists, not_and] at hnot
      exact get_build_untouched hc1 hnot.2 (fun u hu e => hnot.1 u hu e)
    · split at hc
      · cases hc
      · rename_i hov haff
        split at hc
        · cases hc
        · rename_i hfiles
          split at hc
          · cases hc
          · rename_i hrem
            injection hc with hc; subst hc
            have haff' : rb.affected.isSome := by
              cases h : rb.affected with
              | none => simp [h] at haff
              | some _ => rfl
            refine ⟨⟨?_, ?_, ?_, ?_, ?_⟩, rfl, rfl, rfl⟩
            · intro i hi f hf
              obtain ⟨c, hc1, hc2⟩ := htr.frag i hi f hf
              obtain ⟨nr, hnr⟩ := htr.cover haff' i hi f hf
              have hfid : f.id = i := (get_some hf).2
              have hflag : flagOf rb i = nr := by unfold flagOf; rw [hnr]
              have hr : i ∉ o.removed := by
                intro hmem
                apply hrem
                rw [List.any_eq_true]
                exact ⟨i, hmem, by rw [hnr]; rfl⟩
              have hflag' : flagOf { rb with initial := rb.initial.map (fun e =>
                  (e.1, e.2 || o.updated.any (fun u => u.id == e.1.id && u.dfile != e.1.dfile))) } i
                  = (nr || o.updated.any (fun u => u.id == f.id && u.dfile != f.dfile)) := by
                unfold flagOf
                simp only
                rw [lookupInit_map rb.initial
                  (fun e => e.2 || o.updated.any (fun u => u.id == e.1.id && u.dfile != e.1.dfile)) i, hnr]
                rfl
              by_cases hex : ∃ u ∈ o.updated, u.id = i
              · obtain ⟨u, hu, hui⟩ := hex
                obtain ⟨c', hc', hext⟩ := hue u hu (by rw [hui]; exact hr)
                rw [hui, hc1] at hc'
                injection hc' with hc'; subst hc'
                refine ⟨u, get_build_updated hkk hun hc1 hr hu hui, ?_⟩
                -- a column rewrite of this fragment would have been refused: its data files differ
                have hsame : f.files = u.files := by
                  apply Classical.byContradiction
                  intro hne
                  apply hfiles
                  rw [List.any_eq_true]
                  refine ⟨u, hu, ?_⟩
                  rw [hui, hnr]
                  simpa using hne
                have hext' := hext.resolve_right (fun h => h.2.1 (hsame.symm.trans hc2.2.1.symm))
                obtain ⟨e1, e2, e3, e4, e5, e6⟩ := hext'
                obtain ⟨r1, r2, r3, r4, r5, _, _⟩ := hc2
                have hne : u.dfile ≠ f.dfile :=
                  dfile_ne (get_wf hw0 hf) e6 (Nat.lt_of_le_of_lt r5 e5)
                have hany : o.updated.any (fun u => u.id == f.id && u.dfile != f.dfile) = true := by
                  rw [List.any_eq_true]
                  exact ⟨u, hu, by simp [hui, hfid, hne]⟩
                rw [hflag', hany, Bool.or_true]
                exact ⟨by rw [e1, r1], by rw [e2, r2], by rw [e3, r3], fun x hx => e4 x (r4 x hx), by omega,
                  (fun h => by cases h), (fun _ => by omega)⟩
              · have hnone : ∀ u ∈ o.updated, u.id ≠ i := fun u hu e => hex ⟨u, hu, e⟩
                refine ⟨c, get_build_untouched hc1 hr hnone, ?_⟩
                have hany : o.updated.any (fun u => u.id == f.id && u.dfile != f.dfile) = false := by
                  rw [List.any_eq_false]
                  intro u hu
                  have := hnone u hu
                  simp [hfid, this]
                rw [hflag', hany, Bool.or_false, ← hflag]
                exact hc2
            · simp only [List.map_map]
              exact htr.nodup
            · intro e he
              simp only [List.mem_map] at he
              obtain ⟨e0, he0, rfl⟩ := he
              exact htr.init e0 he0
            · intro _ i hi f hf
              obtain ⟨nr, hnr⟩ := htr.cover haff' i hi f hf
              simp only
              rw [lookupInit_map rb.initial
                (fun e => e.2 || o.updated.any (fun u => u.id == e.1.id && u.dfile != e.1.dfile)) i, hnr]
              exact ⟨_, rfl⟩
            · intro hnone
              simp only at hnone
              rw [hnone] at haff'
              cases haff'

theorem tracks_all {t0 : Table} (hw0 : t0.WF) : ∀ {l : List (Txn × Table)} {t : Table} {rb rb' : Rebase},
    Chain t l → Tracks t0 t rb → checkAll rb (l.map (·.1)) = .ok rb' →
    Tracks t0 (lastTable t l) rb' ∧ rb'.txn = rb.txn ∧ rb'.modified = rb.modified ∧ rb'.affected = rb.affected := by
  intro l
  induction l with
  | nil =>
    intro t rb rb' _ htr hc
    simp only [List.map_nil, checkAll] at hc
    injection hc with hc; subst hc
    exact ⟨htr, rfl, rfl, rfl⟩
  | cons e rest ih =>
    intro t rb rb' hch htr hc
    obtain ⟨_, hl, he, hrest⟩ := hch
    simp only [List.map_cons, checkAll] at hc
    cases h1 : checkTxn rb e.1 with
    | error x => rw [h1] at hc; cases hc
    | ok rb1 =>
      rw [h1] at hc
      obtain ⟨htr1, a1, a2, a3⟩ := tracks_step hw0 hl htr h1
      rw [← he] at htr1
      obtain ⟨htr2, b1, b2, b3⟩ := ih hrest htr1 hc
      exact ⟨htr2, b1.trans a1, b2.trans a2, b3.trans a3⟩

theorem rel_refl (f : Frag) : Rel f f false :=
  ⟨rfl, rfl, rfl, fun _ h => h, Nat.le_refl _, fun _ => rfl, fun h => by cases h⟩

theorem flagOf_false {rb : Rebase} (h : ∀ e ∈ rb.initial, e.2 = false) (i : Nat) : flagOf rb i = false := by
  unfold flagOf
  cases hl : lookupInit rb.initial i with
  | none => rfl
  | some e => exact h e (List.mem_of_find?_eq_some hl)

theorem lookupInit_mk {l : List Frag} (hn : (l.map (·.id)).Nodup) {f : Frag} (hf : f ∈ l) :
    lookupInit (l.map (fun f => (f, false))) f.id = some (f, false) := by
  unfold lookupInit
  rw [List.find?_map]
  have : ((fun e : Frag × Bool => e.1.id == f.id) ∘ fun f => (f, false)) = fun g : Frag => g.id == f.id := rfl
  rw [this, find_of_mem hn hf]
  rfl

/-- TransactionRebase::try_new starts in a state that tracks the table of the read version -/
theorem tracks_init {t0 : Table} (hw0 : t0.WF) (T : Txn) (aff : Option (List Addr)) :
    Tracks t0 t0 (tryNew t0 T aff) ∧ (tryNew t0 T aff).txn = T ∧ (tryNew t0 T aff).modified = modifiedIds T := by
  have hflag : ∀ i, flagOf (tryNew t0 T aff) i = false := by
    intro i
    apply flagOf_false
    unfold tryNew
    split
    · simp
    · intro e he
      simp only [List.mem_map] at he
      obtain ⟨f, _, rfl⟩ := he
      rfl
  have hfrag : ∀ i ∈ (tryNew t0 T aff).modified, ∀ f, t0.get i = some f →
      ∃ c, t0.get i = some c ∧ Rel f c (flagOf (tryNew t0 T aff) i) :=
    fun i _ f hf => ⟨f, hf, by rw [hflag i]; exact rel_refl f⟩
  refine ⟨⟨hfrag, ?_, ?_, ?_, ?_⟩, ?_, ?_⟩
  all_goals unfold tryNew
  all_goals split
  · simp
  · simp only [List.map_map]
    exact hw0.1.sublist (List.Sublist.map _ List.filter_sublist)
  · simp
  · intro e he
    simp only [List.mem_map, List.mem_filter] at he
    obtain ⟨f, ⟨hf, hm⟩, rfl⟩ := he
    exact ⟨get_of_mem hw0 hf, by simpa using hm⟩
  · simp
  · have hsub : ((t0.frags.filter (fun f => (modifiedIds T).contains f.id)).map (·.id)).Nodup :=
      hw0.1.sublist (List.Sublist.map _ List.filter_sublist)
    intro _ i hi f hf
    obtain ⟨hfm, hfi⟩ := get_some hf
    refine ⟨false, ?_⟩
    have hmem : f ∈ t0.frags.filter (fun f => (modifiedIds T).contains f.id) := by
      simp only [List.mem_filter]
      exact ⟨hfm, by rw [hfi]; simpa using hi⟩
    have := lookupInit_mk hsub hmem
    rw [hfi] at this
    exact this
  · simp
  · intro _ e he
    simp only [List.mem_map] at he
    obtain ⟨f, _, rfl⟩ := he
    rfl
  · rfl
  · rfl
  · rfl
  · rfl

end LanceModel.C04
