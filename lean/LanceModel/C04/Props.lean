import LanceModel.C04.ColsLemmas
/-!
# C04 — no lost updates: two committed transactions never both modify the same row

"If two concurrent transactions each delete or update a common row, at most one of them commits and the other fails with a
(retryable) conflict.  A rebased commit never resurrects a row that a concurrent commit deleted and never leaves both the
old and the new image of an updated row visible."

Everything below is about the model in `Model.lean`: `mkDelete / mkUpdate / mkMerge` = what `DeleteJob`, `UpdateJob` and the
full-schema `merge_insert` put into their transaction (`apply_deletions`, `affected_rows`), `tryNew / checkTxn / finish` =
`TransactionRebase::{try_new, check_delete_txn | check_update_txn, finish_delete_update}`, `build` = `build_manifest`,
`commit` = `commit_transaction`, `runOp` = `execute_with_retry`, `compact` = `compact_files` with one bin.  The tie to the
Rust code is the correspondence run of `./check C04`.

Rows are identified by their ADDRESS (fragment id, offset); a transaction built at read version `r` KILLS the set `A` of
rows visible at `r` (deletes them; an update / upsert writes their new images into a fresh fragment).  `WellBuilt t T A`
(EffectLemmas.lean) says `T` is what a writer builds from table `t` to kill `A`; `wellBuilt_mk` proves it for the three
writers, so every theorem below applies to them — and to any other writer that builds its Delete / Update operation by
extending the deletion vectors of the version it read (`FileFragment::delete` + `CommitBuilder`, with or without
`affected_rows`).

The second update mode (Update / RewriteColumns: a partial-schema merge_insert rewrites the matched rows IN PLACE and passes
no `affected_rows`) is `mkMergeCols` / `WellBuiltCols`: `cols_isolated` shows such a transaction commits only if none of its
fragments was touched since its read version, and a committed one makes every stale row-level transaction on its
fragments fail (`check_txn`: "data files, not just deletion files, are modified").

`Db.Inv` (CommitLemmas.lean) is the history invariant: every version is well formed and is `build_manifest` of its
predecessor and the recorded transaction.  `Reach` below generates all histories: ANY number of row-modifying transactions,
each built at ANY earlier version and committed later, in ANY order, interleaved with compactions.
-/
namespace LanceModel.C04

instance instDecEqExcept {ε α : Type} [DecidableEq ε] [DecidableEq α] : DecidableEq (Except ε α) := fun a b =>
  match a, b with
  | .ok x, .ok y => if h : x = y then isTrue (by rw [h]) else isFalse (by intro h'; cases h'; exact h rfl)
  | .error x, .error y => if h : x = y then isTrue (by rw [h]) else isFalse (by intro h'; cases h'; exact h rfl)
  | .ok _, .error _ => isFalse (by intro h; cases h)
  | .error _, .ok _ => isFalse (by intro h; cases h)

deriving instance DecidableEq for Db

/-! ## Part 1: one commit against an arbitrary history -/

/-- NO LOST UPDATE (one step).  When a transaction built at version `r` commits on a history that has moved on:
    every row it kills is still visible in the latest version (nobody deleted or updated it since `r`); the new version
    shows exactly the latest rows minus the killed ones plus the transaction's new fragment — the serial application of
    the transaction's effect to the LATEST version; stored rows are untouched and the new fragment holds the new images. -/
theorem no_lost_update {db db' : Db} {r : Nat} {T : Txn} {A : List Addr} {aff : Option (List Addr)} {tok : Nat}
    (hinv : db.Inv) (hb : WellBuilt (db.tableAt r) T A) (haff : aff = some A ∨ aff = none)
    (hc : commit db r T aff tok = .ok db') :
    (∀ a ∈ A, db.latest.live a) ∧
    (∀ a, db'.latest.live a ↔
      (db.latest.live a ∧ a ∉ A) ∨ (T.kind = .update ∧ a.1 = db.latest.maxFrag ∧ a.2 < T.newRows.length)) ∧
    (∀ a, db'.latest.live a →
      db'.latest.rowAt a = if a.1 = db.latest.maxFrag then T.newRows[a.2]? else db.latest.rowAt a) ∧
    db'.Inv := by
  obtain ⟨h1, _, _, h4, h5, h6, _⟩ := commit_effect hinv hb haff hc
  exact ⟨h4, h5, h6, h1⟩

/-- CONFLICT IS RETRYABLE.  Whatever the history and the transaction, a commit that does not succeed fails with
    RetryableCommitConflict — never with an Internal error or a panic of `finish_delete_update` (and the history is
    unchanged: `commit` returns no new history). -/
theorem conflict_is_retryable {db : Db} {r : Nat} {T : Txn} {aff : Option (List Addr)} {tok : Nat} {e : Err}
    (hinv : db.Inv) (hc : commit db r T aff tok = .error e) : e = .retryable :=
  commit_err hinv hc

/-- AT MOST ONE COMMITS.  If a row the transaction kills is no longer visible in the latest version (a transaction
    committed since `r` deleted or updated it, or a compaction moved it), the commit fails, and the failure is a
    retryable conflict: never a silent success. -/
theorem overlap_conflicts {db : Db} {r : Nat} {T : Txn} {A : List Addr} {aff : Option (List Addr)} {tok : Nat}
    (hinv : db.Inv) (hb : WellBuilt (db.tableAt r) T A) (haff : aff = some A ∨ aff = none)
    (hov : ∃ a ∈ A, ¬ db.latest.live a) : commit db r T aff tok = .error .retryable := by
  cases hc : commit db r T aff tok with
  | error e => rw [conflict_is_retryable hinv hc]
  | ok db' =>
    obtain ⟨a, ha, hna⟩ := hov
    exact absurd ((no_lost_update hinv hb haff hc).1 a ha) hna

/-- THE LOSER CAN RETRY.  With retries enabled the writer re-reads the latest version, re-applies its predicate and commits:
    that second attempt never conflicts, so `execute_with_retry` always ends in a commit. -/
theorem retry_succeeds {db : Db} (hinv : db.Inv) (r : Nat) (op : OpKind) (withAff : Bool) (tok : Nat) :
    ∃ db', runOp db r op withAff true tok = .ok db' := by
  unfold runOp
  cases hc : commit db r (mk (db.tableAt r) op tok).1
      (if withAff then some (mk (db.tableAt r) op tok).2 else none) (tok + 1) with
  | ok db' => exact ⟨db', rfl⟩
  | error e =>
    have := conflict_is_retryable hinv hc
    subst this
    simp only [if_true]
    exact ⟨_, commit_latest_ok _ _ _⟩

/-- what the retry commits is the transaction built on the latest version, applied to the latest version -/
theorem retry_effect {db db' : Db} (hinv : db.Inv) (r : Nat) (op : OpKind) (withAff : Bool) (tok : Nat)
    (h : runOp db r op withAff true tok = .ok db') :
    (∃ tk, commit db r (mk (db.tableAt r) op tok).1 (if withAff then some (mk (db.tableAt r) op tok).2 else none) tk
        = .ok db') ∨
    (∃ tk tk', commit db db.version (mk db.latest op tk).1 (if withAff then some (mk db.latest op tk).2 else none) tk'
        = .ok db') := by
  unfold runOp at h
  cases hc : commit db r (mk (db.tableAt r) op tok).1
      (if withAff then some (mk (db.tableAt r) op tok).2 else none) (tok + 1) with
  | ok db1 =>
    rw [hc] at h
    injection h with h
    exact .inl ⟨tok + 1, by rw [hc, h]⟩
  | error e =>
    have := conflict_is_retryable hinv hc
    subst this
    rw [hc] at h
    simp only [if_true] at h
    exact .inr ⟨tok + 2, tok + 3, h⟩

/-- the raw verdict (`conflict_retries(0)`): either the commit of the transaction built at `r`, or a retryable conflict -/
theorem raw_verdict {db : Db} (hinv : db.Inv) (r : Nat) (op : OpKind) (withAff : Bool) (tok : Nat) :
    (∃ db', runOp db r op withAff false tok = .ok db') ∨ runOp db r op withAff false tok = .error .retryable := by
  unfold runOp
  cases hc : commit db r (mk (db.tableAt r) op tok).1
      (if withAff then some (mk (db.tableAt r) op tok).2 else none) (tok + 1) with
  | ok db' => exact .inl ⟨db', rfl⟩
  | error e =>
    have := conflict_is_retryable hinv hc
    subst this
    exact .inr rfl

/-! ## Part 2: two concurrent transactions -/

theorem tableAt_append {db : Db} {r : Nat} (hr : r ≤ db.version) (e : Txn × Table) :
    ({ db with log := db.log ++ [e] } : Db).tableAt r = db.tableAt r := by
  unfold Db.tableAt
  unfold Db.version at hr
  simp only
  rw [List.take_append_of_le_length (by omega)]

/-- BOTH COMMIT ⇒ DISJOINT.  Two transactions built at versions of the same history (`r₁`, `r₂ ≤` the current version — in
    particular at a common read version), committed one after the other: if both commits succeed, no row is killed by
    both. -/
theorem both_commit_disjoint {db db1 db2 : Db} {r1 r2 : Nat} {T1 T2 : Txn} {A1 A2 : List Addr}
    {aff1 aff2 : Option (List Addr)} {tok1 tok2 : Nat}
    (hinv : db.Inv) (hr2 : r2 ≤ db.version)
    (hb1 : WellBuilt (db.tableAt r1) T1 A1) (ha1 : aff1 = some A1 ∨ aff1 = none)
    (hb2 : WellBuilt (db.tableAt r2) T2 A2) (ha2 : aff2 = some A2 ∨ aff2 = none)
    (hc1 : commit db r1 T1 aff1 tok1 = .ok db1) (hc2 : commit db1 r2 T2 aff2 tok2 = .ok db2) :
    ∀ a, a ∈ A1 → a ∉ A2 := by
  intro a h1 h2
  obtain ⟨T1', hdb1, _, _⟩ := commit_sound hinv hb1 ha1 hc1
  obtain ⟨hl1, he1, _, hinv1⟩ := no_lost_update hinv hb1 ha1 hc1
  have hb2' : WellBuilt (db1.tableAt r2) T2 A2 := by rw [hdb1, tableAt_append hr2]; exact hb2
  have hl2 := (no_lost_update hinv1 hb2' ha2 hc2).1 a h2
  rcases (he1 a).mp hl2 with ⟨_, hna⟩ | ⟨_, hm, _⟩
  · exact hna h1
  · have := live_lt (inv_latest_wf hinv) (hl1 a h1)
    omega

/-- NO RESURRECTION (two transactions).  After the second commit every row killed by either transaction is invisible:
    the rebased commit did not bring back what the concurrent commit deleted, and (for an update / upsert) the old image
    of an updated row is gone while its new image is in the new fragment (`no_lost_update`). -/
theorem no_resurrection {db db1 db2 : Db} {r1 r2 : Nat} {T1 T2 : Txn} {A1 A2 : List Addr}
    {aff1 aff2 : Option (List Addr)} {tok1 tok2 : Nat}
    (hinv : db.Inv) (hr2 : r2 ≤ db.version)
    (hb1 : WellBuilt (db.tableAt r1) T1 A1) (ha1 : aff1 = some A1 ∨ aff1 = none)
    (hb2 : WellBuilt (db.tableAt r2) T2 A2) (ha2 : aff2 = some A2 ∨ aff2 = none)
    (hc1 : commit db r1 T1 aff1 tok1 = .ok db1) (hc2 : commit db1 r2 T2 aff2 tok2 = .ok db2) :
    ∀ a, a ∈ A1 ∨ a ∈ A2 → ¬ db2.latest.live a := by
  intro a ha hlive
  obtain ⟨T1', hdb1, _, _⟩ := commit_sound hinv hb1 ha1 hc1
  obtain ⟨_, _, _, hl1, he1, _, hm1⟩ := commit_effect hinv hb1 ha1 hc1
  have hinv1 := (no_lost_update hinv hb1 ha1 hc1).2.2.2
  have hb2' : WellBuilt (db1.tableAt r2) T2 A2 := by rw [hdb1, tableAt_append hr2]; exact hb2
  obtain ⟨hl2, he2, _, _⟩ := no_lost_update hinv1 hb2' ha2 hc2
  have hw := inv_latest_wf hinv
  have hw1 := inv_latest_wf hinv1
  rcases (he2 a).mp hlive with ⟨h1live, hna2⟩ | ⟨_, hm, _⟩
  · rcases ha with h | h
    · rcases (he1 a).mp h1live with ⟨_, hna1⟩ | ⟨_, hm, _⟩
      · exact hna1 h
      · have := live_lt hw (hl1 a h); omega
    · exact hna2 h
  · rcases ha with h | h
    · have := live_lt hw (hl1 a h); omega
    · have := live_lt hw1 (hl2 a h); omega

/-! ## Part 3: any number of transactions and compactions, in any order -/

/-- the row-level effect of one step of a history -/
inductive Eff where
  /-- a committed transaction: kills `A`, writes `n` rows into the new fragment `frag` -/
  | txn (A : List Addr) (frag n : Nat)
  /-- a compaction: every visible row moves into the new fragment `frag` (`n` rows) -/
  | moveTo (frag n : Nat)
  /-- a committed column rewrite (Update / RewriteColumns): rows change in place, `n` new rows go into fragment `frag` -/
  | cols (frag n : Nat)

def Eff.killed : Eff → List Addr
  | .txn A _ _ => A
  | .moveTo _ _ => []
  | .cols _ _ => []

/-- serial application of an effect to a set of visible rows -/
def Eff.apply (live : Addr → Prop) : Eff → Addr → Prop
  | .txn A m n => fun a => (live a ∧ a ∉ A) ∨ (a.1 = m ∧ a.2 < n)
  | .moveTo m n => fun a => a.1 = m ∧ a.2 < n
  | .cols m n => fun a => live a ∨ (a.1 = m ∧ a.2 < n)

/-- All histories: starting from any well-formed table, any number of times either a Delete / Update transaction that some
    writer built at ANY version `r` (stale or not) is committed — with or without `affected_rows` — or the latest version
    is compacted.  (Failed commits leave the history unchanged, so they need no constructor.)  The ghost list records the
    effect of every step that produced a version. -/
inductive Reach (t0 : Table) : Db → List Eff → Prop
  | init : t0.WF → Reach t0 ⟨t0, []⟩ []
  | commit {db db' : Db} {effs : List Eff} (r : Nat) (T : Txn) (A : List Addr) (aff : Option (List Addr)) (tok : Nat) :
      Reach t0 db effs → WellBuilt (db.tableAt r) T A → (aff = some A ∨ aff = none) →
      LanceModel.C04.commit db r T aff tok = .ok db' →
      Reach t0 db' (effs ++ [.txn A db.latest.maxFrag (if T.kind = .update then T.newRows.length else 0)])
  | compact {db : Db} {effs : List Eff} :
      Reach t0 db effs → compactNeeded db.latest = true →
      Reach t0 (LanceModel.C04.compact db) (effs ++ [.moveTo db.latest.maxFrag db.latest.scan.length])
  | commitCols {db db' : Db} {effs : List Eff} (r : Nat) (T : Txn) (tok : Nat) :
      Reach t0 db effs → WellBuiltCols (db.tableAt r) T →
      LanceModel.C04.commit db r T none tok = .ok db' →
      Reach t0 db' (effs ++ [.cols db.latest.maxFrag T.newRows.length])

theorem reach_inv {t0 : Table} {db : Db} {effs : List Eff} (h : Reach t0 db effs) : db.Inv ∧ db.base = t0 := by
  induction h with
  | init hw => exact ⟨hw, rfl⟩
  | commit r T A aff tok _ hb haff hc ih =>
    obtain ⟨h1, h2, _⟩ := commit_effect ih.1 hb haff hc
    exact ⟨h1, h2.trans ih.2⟩
  | compact _ _ ih =>
    refine ⟨compact_inv ih.1, ?_⟩
    rw [← ih.2]
    unfold LanceModel.C04.compact
    cases compactNeeded _ <;> rfl
  | commitCols r T tok _ hb hc ih =>
    obtain ⟨h1, h2, _⟩ := cols_commit_effect ih.1 hb hc
    exact ⟨h1, h2.trans ih.2⟩

/-- NO RESURRECTION, for every history: a row killed by ANY committed transaction is invisible in the latest version — and
    stays so, whatever commits or compactions follow (fragment ids are never reused). -/
theorem rounds_no_resurrection {t0 : Table} {db : Db} {effs : List Eff} (h : Reach t0 db effs) :
    ∀ e ∈ effs, ∀ a ∈ e.killed, ¬ db.latest.live a ∧ a.1 < db.latest.maxFrag := by
  induction h with
  | init _ => intro e he; cases he
  | @commit db db' effs r T A aff tok hreach hb haff hc ih =>
    have hinv := (reach_inv hreach).1
    obtain ⟨_, _, _, hl, he, _, hm⟩ := commit_effect hinv hb haff hc
    have hw := inv_latest_wf hinv
    intro e hmem a ha
    simp only [List.mem_append, List.mem_singleton] at hmem
    have key : ¬ db.latest.live a ∨ a ∈ A → a.1 < db.latest.maxFrag → ¬ db'.latest.live a ∧ a.1 < db'.latest.maxFrag := by
      intro hdead hlt
      refine ⟨?_, by omega⟩
      intro hlive
      rcases (he a).mp hlive with ⟨h1, h2⟩ | ⟨_, h3, _⟩
      · rcases hdead with h | h
        · exact h h1
        · exact h2 h
      · omega
    rcases hmem with hmem | hmem
    · obtain ⟨h1, h2⟩ := ih e hmem a ha
      exact key (.inl h1) h2
    · subst hmem
      change a ∈ A at ha
      exact key (.inr ha) (live_lt hw (hl a ha))
  | @compact db effs hreach hn ih =>
    have hinv := (reach_inv hreach).1
    intro e hmem a ha
    simp only [List.mem_append, List.mem_singleton] at hmem
    rcases hmem with hmem | hmem
    · obtain ⟨_, h2⟩ := ih e hmem a ha
      have hge := compact_maxFrag_ge (db := db)
      refine ⟨?_, by omega⟩
      intro hlive
      have := compact_fresh hinv hn a hlive
      omega
    · subst hmem
      change a ∈ [] at ha
      cases ha
  | @commitCols db db' effs r T tok hreach hb hc ih =>
    have hinv := (reach_inv hreach).1
    obtain ⟨_, _, _, _, _, he, hm⟩ := cols_commit_effect hinv hb hc
    intro e hmem a ha
    simp only [List.mem_append, List.mem_singleton] at hmem
    rcases hmem with hmem | hmem
    · obtain ⟨h1, h2⟩ := ih e hmem a ha
      refine ⟨?_, by omega⟩
      intro hlive
      rcases (he a).mp hlive with h | ⟨h, _⟩
      · exact h1 h
      · omega
    · subst hmem
      change a ∈ [] at ha
      cases ha

/-- BOTH COMMIT ⇒ DISJOINT, for every history: the sets of rows killed by the committed transactions are pairwise
    disjoint, however many transactions there are, whatever versions they were built at and in whatever order they
    committed. -/
theorem rounds_disjoint {t0 : Table} {db : Db} {effs : List Eff} (h : Reach t0 db effs) :
    (effs.map Eff.killed).Pairwise (fun A B => ∀ a ∈ A, a ∉ B) := by
  induction h with
  | init _ => simp
  | @commit db db' effs r T A aff tok hreach hb haff hc ih =>
    have hinv := (reach_inv hreach).1
    obtain ⟨_, _, _, hl, _⟩ := commit_effect hinv hb haff hc
    rw [List.map_append, List.pairwise_append]
    refine ⟨ih, by simp, ?_⟩
    intro A0 hA0 B hB a ha0 haB
    simp only [List.map_cons, List.map_nil, List.mem_singleton] at hB
    rw [hB] at haB
    change a ∈ A at haB
    simp only [List.mem_map] at hA0
    obtain ⟨e, he, rfl⟩ := hA0
    exact (rounds_no_resurrection hreach e he a ha0).1 (hl a haB)
  | @compact db effs hreach hn ih =>
    rw [List.map_append, List.pairwise_append]
    refine ⟨ih, by simp, ?_⟩
    intro A0 _ B hB a _ haB
    simp only [List.map_cons, List.map_nil, List.mem_singleton] at hB
    subst hB
    change a ∈ [] at haB
    cases haB
  | @commitCols db db' effs r T tok hreach hb hc ih =>
    rw [List.map_append, List.pairwise_append]
    refine ⟨ih, by simp, ?_⟩
    intro A0 _ B hB a _ haB
    simp only [List.map_cons, List.map_nil, List.mem_singleton] at hB
    subst hB
    change a ∈ [] at haB
    cases haB

/-- NO LOST UPDATE, for every history: the visible rows of the latest version are exactly the
    serial application, in commit order, of the effects of the committed transactions — each effect being the rows the
    transaction killed as seen at ITS OWN read version, and the fragment it wrote. -/
theorem rounds_serial {t0 : Table} {db : Db} {effs : List Eff} (h : Reach t0 db effs) :
    ∀ a, db.latest.live a ↔ effs.foldl Eff.apply t0.live a := by
  induction h with
  | init _ => intro a; rfl
  | @commit db db' effs r T A aff tok hreach hb haff hc ih =>
    have hinv := (reach_inv hreach).1
    obtain ⟨_, _, _, _, he, _, _⟩ := commit_effect hinv hb haff hc
    intro a
    rw [List.foldl_append, he a]
    simp only [List.foldl_cons, List.foldl_nil, Eff.apply]
    rw [ih a]
    constructor
    · rintro (h | ⟨h1, h2, h3⟩)
      · exact .inl h
      · exact .inr ⟨h2, by rw [if_pos h1]; exact h3⟩
    · rintro (h | ⟨h2, h3⟩)
      · exact .inl h
      · by_cases hk : T.kind = .update
        · rw [if_pos hk] at h3; exact .inr ⟨hk, h2, h3⟩
        · rw [if_neg hk] at h3; omega
  | @compact db effs hreach hn ih =>
    have hinv := (reach_inv hreach).1
    intro a
    rw [List.foldl_append]
    simp only [List.foldl_cons, List.foldl_nil, Eff.apply]
    constructor
    · rintro ⟨f, hf, h1, _⟩
      rw [compact_get hinv hn] at hf
      split at hf
      · rename_i hcond
        injection hf with hf
        subst hf
        exact ⟨hcond.2.symm, h1⟩
      · cases hf
    · rintro ⟨h1, h2⟩
      have hne : db.latest.scan.isEmpty = false := by
        cases hs : db.latest.scan with
        | nil => rw [hs] at h2; simp at h2
        | cons x xs => rfl
      refine ⟨⟨db.latest.maxFrag, 1, db.latest.scan, [], none⟩, ?_, h2, by simp⟩
      rw [compact_get hinv hn, if_pos ⟨hne, h1.symm⟩]
  | @commitCols db db' effs r T tok hreach hb hc ih =>
    have hinv := (reach_inv hreach).1
    obtain ⟨_, _, _, _, _, he, _⟩ := cols_commit_effect hinv hb hc
    intro a
    rw [List.foldl_append, he a]
    simp only [List.foldl_cons, List.foldl_nil, Eff.apply]
    rw [ih a]

/-! ## The property, in full -/

/-- FULL STATEMENT.  In every history (any number of writers, any read versions, any commit order, compactions anywhere):
    (1) the rows killed by the committed transactions are pairwise disjoint — two committed transactions never both
        modify the same row;
    (2) a commit that does not succeed is a retryable conflict, and it is forced whenever a row the transaction kills was
        modified since its read version;
    (3) every row killed by a committed transaction is invisible in the latest version — no resurrection, no old image of
        an updated row next to its new image;
    (4) the latest version is the serial application of the committed effects. -/
def C04_full : Prop :=
  ∀ (t0 : Table) (db : Db) (effs : List Eff), Reach t0 db effs →
    (effs.map Eff.killed).Pairwise (fun A B => ∀ a ∈ A, a ∉ B) ∧
    (∀ (r : Nat) (T : Txn) (A : List Addr) (aff : Option (List Addr)) (tok : Nat),
        WellBuilt (db.tableAt r) T A → (aff = some A ∨ aff = none) →
        (∀ e, commit db r T aff tok = .error e → e = .retryable) ∧
        ((∃ a ∈ A, ¬ db.latest.live a) → commit db r T aff tok = .error .retryable)) ∧
    (∀ e ∈ effs, ∀ a ∈ e.killed, ¬ db.latest.live a) ∧
    (∀ a, db.latest.live a ↔ effs.foldl Eff.apply t0.live a)

theorem C04_holds : C04_full := by
  intro t0 db effs h
  have hinv := (reach_inv h).1
  refine ⟨rounds_disjoint h, ?_, fun e he a ha => (rounds_no_resurrection h e he a ha).1, rounds_serial h⟩
  intro r T A aff tok hb haff
  exact ⟨fun e he => conflict_is_retryable hinv he, overlap_conflicts hinv hb haff⟩

/-- ISOLATION OF A COLUMN REWRITE (the second update mode, no affected rows).  A committed Update / RewriteColumns found
    every fragment it rewrites exactly as it was at its read version: no transaction committed in between deleted, updated
    or moved a row of those fragments - so in particular no row is modified by it and by a concurrent transaction. -/
theorem cols_isolated {db db' : Db} {r : Nat} {T : Txn} {tok : Nat}
    (hinv : db.Inv) (hb : WellBuiltCols (db.tableAt r) T) (hc : commit db r T none tok = .ok db') :
    (∀ u ∈ T.updated, db.latest.get u.id = (db.tableAt r).get u.id) ∧
    (∀ u ∈ T.updated, db'.latest.get u.id = some u) ∧
    (∀ i, (∀ u ∈ T.updated, u.id ≠ i) → i ≠ db.latest.maxFrag → db'.latest.get i = db.latest.get i) := by
  obtain ⟨_, _, h1, h2, h3, _⟩ := cols_commit_effect hinv hb hc
  exact ⟨h1, h2, h3⟩

/-- the partial-schema upsert builds such a transaction -/
theorem cols_writer_well_built {t : Table} (hw : t.WF) (src : List Row) : WellBuiltCols t (mk t (.pmrg src) 0).1 :=
  wellBuiltCols_mk hw src

/-- NO OLD IMAGE NEXT TO THE NEW ONE.  The rows an update writes are the images (`v + 100`) of exactly the rows it kills, in
    scan order; an upsert writes the source image of every row it kills plus the unmatched source rows.  Together with
    `no_lost_update` (the killed rows are invisible after the commit, the new fragment holds exactly these rows) an updated
    logical row is visible exactly once. -/
theorem update_images {t : Table} (hw : t.WF) (keys : List Nat) (tok : Nat) :
    (mkUpdate t keys tok).1.newRows
      = ((mkUpdate t keys tok).2.filterMap t.rowAt).map (fun r => { r with v := r.v + 100 }) := by
  show (t.rowsWhere _).map _ = ((t.addrsWhere _).filterMap t.rowAt).map _
  rw [rows_of_addrs hw]

theorem merge_images {t : Table} (hw : t.WF) (src : List Row) (tok : Nat) :
    (mkMerge t src tok).1.newRows
      = ((mkMerge t src tok).2.filterMap t.rowAt).map (srcFor src)
          ++ src.filter (fun s => !(t.scan.any (fun r => r.key == s.key))) := by
  show (t.rowsWhere _).map _ ++ _ = ((t.addrsWhere _).filterMap t.rowAt).map _ ++ _
  rw [rows_of_addrs hw]

/-- the three writers build well-built transactions, so `Reach.commit` covers `DeleteBuilder`, `UpdateBuilder` and the
    full-schema upsert of `MergeInsertBuilder` -/
theorem writers_well_built {t : Table} (hw : t.WF) (op : OpKind) (hop : op.movesRows = true) (tok : Nat) :
    WellBuilt t (mk t op tok).1 (mk t op tok).2 := wellBuilt_mk hw op hop tok

/-! ## Non-vacuity: concrete histories (two fragments of three rows, keys 1..6) -/

def exBase : Table :=
  ⟨[⟨0, 1, [⟨1, 11⟩, ⟨2, 12⟩, ⟨3, 13⟩], [], none⟩, ⟨1, 1, [⟨4, 14⟩, ⟨5, 15⟩, ⟨6, 16⟩], [], none⟩], 2⟩

def exDb : Db := ⟨exBase, []⟩

theorem exBase_wf : exBase.WF := by
  refine ⟨by decide, ?_⟩
  intro f hf
  simp only [exBase, List.mem_cons, List.mem_nil_iff, or_false] at hf
  rcases hf with rfl | rfl
  · exact ⟨by decide, ⟨by decide, by decide, fun _ => rfl, fun d h => by cases h⟩⟩
  · exact ⟨by decide, ⟨by decide, by decide, fun _ => rfl, fun d h => by cases h⟩⟩

/-- same fragment, different rows, both built at version 1: the second commit is REBASED (merged deletion vector) -/
example :
    (match runOp exDb 1 (.del [1]) true false 1 with
     | .ok db1 => (match runOp db1 1 (.upd [2]) true false 5 with
                   | .ok db2 => (db2.latest.frags.map (fun f => (f.id, f.del)), db2.latest.scan.map (fun r => (r.key, r.v)))
                   | .error _ => ([], []))
     | .error _ => ([], []))
    = ([(0, [0, 1]), (1, []), (2, [])], [(3, 13), (4, 14), (5, 15), (6, 16), (2, 112)]) := by decide

/-- same row: the second commit is refused with a retryable conflict; with retries it re-applies on the latest version -/
example :
    (match runOp exDb 1 (.upd [2]) true false 1 with
     | .ok db1 => (match runOp db1 1 (.upd [2, 3]) true false 5, runOp db1 1 (.upd [2, 3]) true true 5 with
                   | .error e, .ok db2 => some (e, db2.latest.scan.map (fun r => (r.key, r.v)))
                   | _, _ => none)
     | .error _ => none)
    = some (.retryable, [(1, 11), (4, 14), (5, 15), (6, 16), (3, 113), (2, 212)]) := by decide

/-- whole-fragment delete against a row delete in that fragment: conflict (no affected rows after the short cut) -/
example :
    (match runOp exDb 1 (.del [4]) true false 1 with
     | .ok db1 => (match runOp db1 1 (.del [4, 5, 6]) true false 5 with
                   | .error e => some e
                   | .ok _ => none)
     | .error _ => none) = some .retryable := by decide

/-- an older writer (no affected rows): any concurrent change of the same fragment is a conflict -/
example :
    (match runOp exDb 1 (.del [1]) true false 1 with
     | .ok db1 => (match runOp db1 1 (.del [2]) false false 5 with
                   | .error e => some e
                   | .ok _ => none)
     | .error _ => none) = some .retryable := by decide

/-- the rebase promotes a fragment to "removed" when the merged deletion vector covers it -/
example :
    (match runOp exDb 1 (.del [1, 2]) true false 1 with
     | .ok db1 => (match runOp db1 1 (.del [3]) true false 5 with
                   | .ok db2 => db2.latest.frags.map (fun f => f.id)
                   | .error _ => [])
     | .error _ => []) = [1] := by decide

/-- a stale transaction on a compacted fragment conflicts -/
example :
    (match runOp exDb 1 (.del [1]) true false 1 with
     | .ok db1 => (match runOp (compact db1) 1 (.del [5]) true false 5 with
                   | .error e => some e
                   | .ok _ => none)
     | .error _ => none) = some .retryable := by decide

/-- a column rewrite (partial-schema upsert) of a fragment in which a row was deleted since its read version conflicts;
    on another fragment it commits and changes the rows in place -/
example :
    (match runOp exDb 1 (.del [1]) true false 1 with
     | .ok db1 => (match runOp db1 1 (.pmrg [⟨2, 92⟩]) false false 5, runOp db1 1 (.pmrg [⟨5, 95⟩, ⟨7, 97⟩]) false false 5 with
                   | .error e, .ok db2 =>
                     some (e, db2.latest.frags.map (fun f => (f.id, f.files)), db2.latest.scan.map (fun r => (r.key, r.v)))
                   | _, _ => none)
     | .error _ => none)
    = some (.retryable, [(0, 1), (1, 2), (2, 1)], [(2, 12), (3, 13), (4, 14), (5, 95), (6, 16), (7, 97)]) := by decide

/-- the first committed version of the example history: key 1 deleted -/
def exDb1 : Db :=
  match commit exDb 1 (mk (exDb.tableAt 1) (.del [1]) 1).1 (some (mk (exDb.tableAt 1) (.del [1]) 1).2) 2 with
  | .ok d => d
  | .error _ => exDb

/-- the second: key 2 updated by a transaction built at version 1 (stale), rebased over the deletion of key 1 -/
def exDb2 : Db :=
  match commit exDb1 1 (mk (exDb1.tableAt 1) (.upd [2]) 9).1 (some (mk (exDb1.tableAt 1) (.upd [2]) 9).2) 10 with
  | .ok d => d
  | .error _ => exDb1

theorem exCommit1 :
    commit exDb 1 (mk (exDb.tableAt 1) (.del [1]) 1).1 (some (mk (exDb.tableAt 1) (.del [1]) 1).2) 2 = .ok exDb1 := by
  decide

theorem exCommit2 :
    commit exDb1 1 (mk (exDb1.tableAt 1) (.upd [2]) 9).1 (some (mk (exDb1.tableAt 1) (.upd [2]) 9).2) 10 = .ok exDb2 := by
  decide

/-- the hypotheses of the theorems are satisfiable: a history with a stale, well-built transaction that commits -/
theorem exReach : ∃ effs, Reach exBase exDb2 effs ∧ effs.map Eff.killed = [[(0, 0)], [(0, 1)]] := by
  have hb1 := wellBuilt_mk (show (exDb.tableAt 1).WF from exBase_wf) (.del [1]) rfl 1
  have r1 := Reach.commit 1 _ _ _ 2 (Reach.init exBase_wf) hb1 (.inl rfl) exCommit1
  have hw1 : (exDb1.tableAt 1).WF := (inv_split (reach_inv r1).1 1).2.2
  have hb2 := wellBuilt_mk hw1 (.upd [2]) rfl 9
  have r2 := Reach.commit 1 _ _ _ 10 r1 hb2 (.inl rfl) exCommit2
  exact ⟨_, r2, by decide⟩

example : exDb2.latest.scan.map (fun r => (r.key, r.v)) = [(3, 13), (4, 14), (5, 15), (6, 16), (2, 112)] := by decide

end LanceModel.C04
