import LanceModel.C04.EffectLemmas
/-
C04 helper lemmas: the transactions the writers build (`mkDelete`, `mkUpdate`, `mkMerge`) are `WellBuilt`.
-/
namespace LanceModel.C04

theorem mem_liveIdx {f : Frag} {o : Nat} : o ∈ f.liveIdx ↔ o < f.rows.length ∧ o ∉ f.del := by
  unfold Frag.liveIdx
  simp [List.mem_filter, List.mem_range]

theorem mem_addrsWhere {t : Table} {p : Row → Bool} {a : Addr} :
    a ∈ t.addrsWhere p ↔ ∃ f ∈ t.frags, f.id = a.1 ∧ a.2 < f.rows.length ∧ a.2 ∉ f.del ∧
      ∃ r, f.rows[a.2]? = some r ∧ p r = true := by
  unfold Table.addrsWhere
  simp only [List.mem_flatMap, List.mem_map, List.mem_filter, mem_liveIdx]
  constructor
  · rintro ⟨f, hf, o, ⟨⟨h1, h2⟩, h3⟩, rfl⟩
    refine ⟨f, hf, rfl, h1, h2, ?_⟩
    simp only
    cases hr : f.rows[o]? with
    | none => rw [hr] at h3; cases h3
    | some r => rw [hr] at h3; exact ⟨r, rfl, h3⟩
  · rintro ⟨f, hf, h0, h1, h2, r, hr, hp⟩
    refine ⟨f, hf, a.2, ⟨⟨h1, h2⟩, by rw [hr]; exact hp⟩, ?_⟩
    rw [h0]

theorem addrsWhere_live {t : Table} (hw : t.WF) {p : Row → Bool} {a : Addr} (ha : a ∈ t.addrsWhere p) : t.live a := by
  obtain ⟨f, hf, h0, h1, h2, _⟩ := mem_addrsWhere.mp ha
  exact ⟨f, by rw [← h0]; exact get_of_mem hw hf, h1, h2⟩

theorem extendDeletions_some {f u : Frag} {offs : List Nat} {tok : Nat} (h : extendDeletions f offs tok = some u) :
    u = { f with del := union f.del offs, dfile := some ⟨tok, (union f.del offs).length⟩ } ∧
      (union f.del offs).length ≠ f.rows.length := by
  unfold extendDeletions at h
  split at h
  · cases h
  · rename_i hne
    injection h with h
    exact ⟨h.symm, by simpa using hne⟩

theorem extendDeletions_none {f : Frag} {offs : List Nat} {tok : Nat} (h : extendDeletions f offs tok = none) :
    (union f.del offs).length = f.rows.length := by
  unfold extendDeletions at h
  split at h
  · rename_i he; simpa using he
  · cases h

theorem mem_updatedOf {t : Table} {A : List Addr} {tok : Nat} {u : Frag} :
    u ∈ updatedOf t A tok ↔ ∃ f ∈ t.frags, offsetsOf A f.id ≠ [] ∧ extendDeletions f (offsetsOf A f.id) tok = some u := by
  unfold updatedOf
  simp only [List.mem_filterMap]
  constructor
  · rintro ⟨f, hf, h⟩
    split at h
    · cases h
    · rename_i hne
      exact ⟨f, hf, by simpa using hne, h⟩
  · rintro ⟨f, hf, hne, h⟩
    refine ⟨f, hf, ?_⟩
    rw [if_neg (by simpa using hne)]
    exact h

theorem mem_removedOf {t : Table} {A : List Addr} {tok : Nat} {i : Nat} :
    i ∈ removedOf t A tok ↔ ∃ f ∈ t.frags, f.id = i ∧ offsetsOf A f.id ≠ [] ∧ extendDeletions f (offsetsOf A f.id) tok = none := by
  unfold removedOf
  simp only [List.mem_filterMap]
  constructor
  · rintro ⟨f, hf, h⟩
    split at h
    · cases h
    · rename_i hne
      split at h
      · rename_i hn
        injection h with h
        exact ⟨f, hf, h, by simpa using hne, by simpa using hn⟩
      · cases h
  · rintro ⟨f, hf, hi, hne, h⟩
    refine ⟨f, hf, ?_⟩
    rw [if_neg (by simpa using hne), if_pos (by rw [h]; rfl), hi]

theorem filterMap_ids_sublist (l : List Frag) (g : Frag → Option Frag) (hg : ∀ f u, g f = some u → u.id = f.id) :
    ((l.filterMap g).map (·.id)).Sublist (l.map (·.id)) := by
  induction l with
  | nil => simp
  | cons f t ih =>
    rw [List.filterMap_cons]
    cases h : g f with
    | none => simp only [List.map_cons]; exact ih.cons _
    | some u =>
      simp only [List.map_cons]
      rw [hg f u h]
      exact ih.cons_cons _

/-- the transaction apply_deletions builds from a set of visible rows is well built -/
theorem wellBuilt_of_addrs {t : Table} (hw : t.WF) (p : Row → Bool) (kind : Kind) (hk : kind = .delete ∨ kind = .update)
    (rows : List Row) (tok : Nat) :
    WellBuilt t ⟨kind, updatedOf t (t.addrsWhere p) tok, removedOf t (t.addrsWhere p) tok, rows, 0⟩ (t.addrsWhere p) := by
  have hlive : ∀ a ∈ t.addrsWhere p, t.live a := fun a ha => addrsWhere_live hw ha
  have hoff : ∀ f ∈ t.frags, ∀ o ∈ offsetsOf (t.addrsWhere p) f.id, o < f.rows.length ∧ o ∉ f.del := by
    intro f hf o ho
    obtain ⟨f', hf', h1, h2⟩ := hlive _ (mem_offsetsOf.mp ho)
    simp only at hf' h1 h2
    rw [get_of_mem hw hf] at hf'; injection hf' with hf'; subst hf'
    exact ⟨h1, h2⟩
  refine ⟨hk, rfl, ?_, ?_, ?_, hlive, ?_⟩
  · -- updated ids are distinct
    refine List.Nodup.sublist ?_ hw.1
    unfold updatedOf
    apply filterMap_ids_sublist
    intro f u h
    split at h
    · cases h
    · rw [(extendDeletions_some h).1]
  · intro u hu
    obtain ⟨f, hf, hne, he⟩ := mem_updatedOf.mp hu
    obtain ⟨hu', _⟩ := extendDeletions_some he
    have hid : u.id = f.id := by rw [hu']
    obtain ⟨o0, ho0⟩ := List.exists_mem_of_ne_nil _ hne
    have hfw := (hw.2 f hf).2
    refine ⟨f, by rw [hid]; exact get_of_mem hw hf, ⟨hid, by rw [hu'], by rw [hu'], ?_, ?_, ?_⟩, ?_, ?_⟩
    · intro o ho; rw [hu']; exact mem_union.mpr (.inl ho)
    · rw [hu']; exact length_union_gt ho0 (hoff f hf o0 ho0).2
    · rw [hu']
      refine ⟨nodup_union hfw.1, ?_, by intro h; simp at h, ?_⟩
      · intro o ho
        rcases mem_union.mp ho with h | h
        · exact hfw.2.1 o h
        · exact (hoff f hf o h).1
      · intro d hd; simp only at hd; injection hd with hd; rw [← hd]
    · intro o
      rw [hid]
      conv => lhs; rw [hu']
      simp only
      rw [mem_union, mem_offsetsOf]
    · exact ⟨o0, by rw [hid]; exact mem_offsetsOf.mp ho0⟩
  · intro i hi
    obtain ⟨f, hf, hfi, hne, he⟩ := mem_removedOf.mp hi
    have hfw := (hw.2 f hf).2
    refine ⟨f, by rw [← hfi]; exact get_of_mem hw hf, ?_⟩
    intro o ho
    have hlen := extendDeletions_none he
    have hnd : (union f.del (offsetsOf (t.addrsWhere p) f.id)).Nodup := nodup_union hfw.1
    have hbd : ∀ x ∈ union f.del (offsetsOf (t.addrsWhere p) f.id), x < f.rows.length := by
      intro x hx
      rcases mem_union.mp hx with h | h
      · exact hfw.2.1 x h
      · exact (hoff f hf x h).1
    have := (nodup_bounded hnd hbd).2 hlen o ho
    rcases mem_union.mp this with h | h
    · exact .inl h
    · right; rw [← hfi]; exact mem_offsetsOf.mp h
  · -- every killed row lies in an updated or removed fragment
    intro a ha
    obtain ⟨f, hf, h0, _⟩ := mem_addrsWhere.mp ha
    have hne : offsetsOf (t.addrsWhere p) f.id ≠ [] := by
      have : a.2 ∈ offsetsOf (t.addrsWhere p) f.id := mem_offsetsOf.mpr (by rw [h0]; exact ha)
      intro h; rw [h] at this; cases this
    apply mem_modifiedIds.mpr
    simp only
    cases he : extendDeletions f (offsetsOf (t.addrsWhere p) f.id) tok with
    | none => exact .inr (mem_removedOf.mpr ⟨f, hf, h0, hne, he⟩)
    | some u =>
      refine .inl ⟨u, mem_updatedOf.mpr ⟨f, hf, hne, he⟩, ?_⟩
      rw [(extendDeletions_some he).1]; exact h0

theorem wellBuilt_mk {t : Table} (hw : t.WF) (op : OpKind) (hop : op.movesRows = true) (tok : Nat) :
    WellBuilt t (mk t op tok).1 (mk t op tok).2 := by
  cases op with
  | del keys => exact wellBuilt_of_addrs hw _ .delete (.inl rfl) _ tok
  | upd keys => exact wellBuilt_of_addrs hw _ .update (.inr rfl) _ tok
  | mrg src => exact wellBuilt_of_addrs hw _ .update (.inr rfl) _ tok
  | pmrg src => cases hop

end LanceModel.C04
