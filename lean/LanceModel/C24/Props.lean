import LanceModel.C24.ReqLemmas
/-
C24 — Index coverage is never claimed for data the index did not see.

  "An index is only used for a fragment when the indexed column values in that fragment are exactly the values the
   index was built or updated from, even when index creation or optimisation commits concurrently with updates, data
   replacement or compaction."

Quantifier: all histories of API calls through handles of arbitrary staleness (every commit order of concurrent
transactions is a history: a transaction is built from the version its handle is at and committed on the latest).

The code does NOT satisfy the property (three defect regions, each reproduced on the real code by the harness and kept
in corpus/C24): the full statement is `C24_full`; `coverage_faithful_partial` proves it for every history that stays
outside the three regions (`safeRun`, decidable), the three `…_counterexample` theorems refute `C24_full` from
concrete histories, one per region.
-/
namespace LanceModel.C24
open LanceModel.Table

/-- THE PROPERTY at full strength: after any history, in every published version, every index, for every fragment in
    its bitmap: the entries the index holds for that fragment are exactly the current cells of the indexed fields. -/
def C24_full : Prop :=
  ∀ (table : List (List Row)) (steps : List (Nat × Req)),
    ∀ v ∈ (runReqs (initStore table) steps).hist, Faithful v.m

/-- `coverage_faithful` outside the defective regions: for all tables, all histories (requests × handle staleness) in
    which (a) no index commit is rebased over a column-rewriting Update of its field in a fragment it claims, (b) no
    DataReplacement replaces an indexed field in a claimed fragment, (c) optimize_indices never merges an index that
    still holds entries of a live fragment it no longer claims — every version is faithful. -/
theorem coverage_faithful_partial (table : List (List Row)) (steps : List (Nat × Req))
    (hsafe : safeRun (initStore table) steps = true) :
    ∀ v ∈ (runReqs (initStore table) steps).hist, Faithful v.m := by
  intro v hv
  exact ((runReqs_inv _ steps (init_inv table) hsafe).2 v hv).1

/-- the same at the level of TRANSACTIONS (any transaction content, not only what the builders of this model produce):
    a commit of a transaction that was `Built` from the version its handle was at keeps every version faithful,
    outside regions (a) and (b) -/
theorem commit_preserves_coverage (hist hist' : List Ver) (lag : Nat) (t : Txn) (hI : Inv hist)
    (hlag : lag < hist.length) (hBuilt : Built (hist[lag]).m t) (hS : safeTxn hist lag t = true)
    (h : commit hist lag t = .ok hist') : ∀ v ∈ hist', Faithful v.m :=
  fun v hv => ((commit_inv hist hist' lag t hI hlag hBuilt hS h).2 v hv).1

/-- soundness of the CreateIndex row of the conflict matrix (`check_create_index_txn`) outside region (a): a
    transaction the check lets an index commit pass did not install another file for an indexed field in a claimed
    fragment -/
theorem create_index_check_sound (new : List Index) (removed : List Nat) (other : Txn) (hD : Declared other)
    (hc : conflicts (.createIndex new removed) other = false) (hs : rebaseUnsafe new other = false)
    (i : Index) (hi : i ∈ new) (f : Nat) (hf : f ∈ i.bitmap) : ¬ touches other f i.fields :=
  createIndex_row_sound new removed other hD hc hs i hi f hf

/-- the OTHER commit order is handled: a column-rewriting Update (or any Delete / Append / Update) committed on a
    faithful version leaves a faithful version — `prune_updated_fields_from_indices` removes what it invalidates -/
theorem update_after_index_pruned (m m' : Manifest) (aff : List (Nat × List Nat)) (removed : List Nat)
    (patches : List (Nat × Patch)) (news : List (List Row)) (fm : List Nat) (hit : List (Nat × List Nat)) (cm : Option (List Nat))
    (hst : m.stable = false) (hF : Faithful m) (hB : Bounded m) (hD : Declared (.update aff removed patches news fm hit cm))
    (hb : build m (.update aff removed patches news fm hit cm) = .ok m') : Faithful m' :=
  (build_keeps hb hst hF hB hD (by intro _ _ h; cases h) (by intro _ _ h; cases h)).1

/-- create_index builds what it claims, from the version of its handle -/
theorem create_index_built (m : Manifest) (uuid name fld : Nat) : Built m (bIndex m uuid name fld) :=
  built_bIndex m uuid name fld

/-- optimize_indices builds what it claims when no index holds entries of a live fragment outside its bitmap -/
theorem optimize_built (m : Manifest) (uuid : Nat) (hF : Faithful m) (hB : Bounded m) (hS : noStale m = true) :
    Built m (bOptimize m uuid) :=
  built_bOptimize m uuid hF hB hS

/-- frame: a transaction that installs no other file for a field of `F` in fragment `f` leaves those cells alone, and
    fragment ids are never re-used -/
theorem untouched_columns_unchanged {m m' : Manifest} {t : Txn} (F : List Nat) (f : Nat) (h : build m t = .ok m')
    (hf : f < m.nextFrag) (hnt : ¬ touches t f F) (g' : Frag) (hg' : m'.frags f = some g') :
    ∃ g, m.frags f = some g ∧ cols F g = cols F g' :=
  build_frame F f h hf hnt g' hg'

/-! ### the repair candidate for region (a) is sufficient -/

/-- check_create_index_txn with the repair candidate: an Update whose fields_modified meets the new index's fields in a
    fragment of its bitmap is a (retryable) conflict, like the DataReplacement arm next to it -/
def conflictsRepaired (mine other : Txn) : Bool :=
  conflicts mine other ||
    match mine with
    | .createIndex new _ => rebaseUnsafe new other
    | _ => false

def commitRepaired (hist : List Ver) (lag : Nat) (t : Txn) : Except Err (List Ver) :=
  if (hist.take lag).any (fun v => conflictsRepaired t v.t) then .error .retryable else commit hist lag t

/-- with that repair no hypothesis about index commits is left: every index commit the repaired check lets through keeps
    all versions faithful (region (b) still has to be excluded for DataReplacement commits) -/
theorem repaired_check_preserves_coverage (hist hist' : List Ver) (lag : Nat) (t : Txn) (hI : Inv hist)
    (hlag : lag < hist.length) (hBuilt : Built (hist[lag]).m t)
    (hS : ∀ f p, t = .dataRepl f p → safeTxn hist lag t = true)
    (h : commitRepaired hist lag t = .ok hist') : ∀ v ∈ hist', Faithful v.m := by
  unfold commitRepaired at h
  split at h
  · cases h
  · rename_i hc
    refine commit_preserves_coverage hist hist' lag t hI hlag hBuilt ?_ h
    cases t with
    | createIndex new removed =>
      simp only [safeTxn, Bool.not_eq_true', List.any_eq_false]
      intro v hv
      simp only [List.any_eq_true, not_exists, not_and, Bool.not_eq_true] at hc
      have := hc v hv
      simp only [conflictsRepaired, Bool.or_eq_false_iff] at this
      simpa using this.2
    | dataRepl f p => exact hS f p rfl
    | append _ => rfl
    | delete _ _ => rfl
    | update _ _ _ _ _ _ _ => rfl
    | reserve _ => rfl

/-! ### counterexamples (one per defect region), on the observation `faithfulB` -/

def allFaithfulB (s : Store) : Bool := s.hist.all fun v => faithfulB v.m

theorem allFaithfulB_of_full (hfull : C24_full) (table : List (List Row)) (steps : List (Nat × Req)) :
    allFaithfulB (runReqs (initStore table) steps) = true := by
  simp only [allFaithfulB, List.all_eq_true]
  intro v hv
  exact faithfulB_of_faithful v.m (hfull table steps v hv)

/-- the table of the witnesses: (k, x, y), two fragments -/
def wTable : List (List Row) :=
  [[[some 1, some 10, some 100], [some 2, some 20, some 200]], [[some 3, some 30, some 300]]]

/-- region (a): handle A stays at v1; a partial-schema merge_insert rewrites x of fragment 0 (v2); A's create_index(x)
    commits as v3 and claims fragment 0 with the entries of v1 -/
def wRebase : List (Nat × Req) := [(0, .mix [[some 1, some 100]]), (1, .index 1 1)]

/-- region (b): create_index(x), then a DataReplacement of the file of fragment 0 -/
def wRepl : List (Nat × Req) :=
  [(0, .index 1 1), (0, .repl 0 [[some 11, some 110, some 100], [some 12, some 120, some 200]])]

/-- region (c): create_index(x), merge_insert rewrites x of fragment 0 (pruned), optimize_indices re-scans fragment 0
    and merges the old entries back in -/
def wOptimize : List (Nat × Req) := [(0, .index 1 1), (0, .mix [[some 1, some 100]]), (0, .optimize)]

theorem coverage_counterexample_rebase : ¬ C24_full := by
  intro h
  have h1 := allFaithfulB_of_full h wTable wRebase
  have h2 : allFaithfulB (runReqs (initStore wTable) wRebase) = false := by decide
  rw [h2] at h1; cases h1

theorem coverage_counterexample_data_replacement : ¬ C24_full := by
  intro h
  have h1 := allFaithfulB_of_full h wTable wRepl
  have h2 : allFaithfulB (runReqs (initStore wTable) wRepl) = false := by decide
  rw [h2] at h1; cases h1

theorem coverage_counterexample_optimize : ¬ C24_full := by
  intro h
  have h1 := allFaithfulB_of_full h wTable wOptimize
  have h2 : allFaithfulB (runReqs (initStore wTable) wOptimize) = false := by decide
  rw [h2] at h1; cases h1

/-! ### non-vacuity -/

/-- the witnesses are exactly outside `safeRun` -/
example : safeRun (initStore wTable) wRebase = false := by decide
example : safeRun (initStore wTable) wRepl = false := by decide
example : safeRun (initStore wTable) wOptimize = false := by decide

/-- a history with real races that IS inside the hypothesis of `coverage_faithful_partial`: index built at v1 and
    committed after a concurrent update of x that MOVES rows (RewriteRows), a concurrent delete, a merge_insert
    committed AFTER the index (pruned), a DataReplacement of a fragment no index claims any more, a stale
    create_index(y) rebased over the merge_insert on x, an optimize when nothing is stale — 7 versions published -/
def wSafe : List (Nat × Req) :=
  [(0, .update 1 [2] 21), (1, .index 1 1), (2, .delete [3]), (0, .mix [[some 1, some 100]]),
   (0, .repl 0 [[some 11, some 110], [some 12, some 120]]), (5, .index 2 2), (0, .append [[some 7, some 70, some 700]])]

example : safeRun (initStore wTable) wSafe = true := by decide
example : (runReqs (initStore wTable) wSafe).hist.length = 8 := by decide
example : allFaithfulB (runReqs (initStore wTable) wSafe) = true := by decide

/-- the repaired check refuses the witness of region (a): A's create_index(x), built at v1, after the merge_insert -/
example : (match commitRepaired (runReqs (initStore wTable) [(0, .mix [[some 1, some 100]])]).hist 1
      (bIndex ⟨addNews (fun _ => none) 0 wTable, 2, [], false⟩ 1 1 1) with
    | .error .retryable => true
    | _ => false) = true := by decide

/-- the conflict matrix refuses what it must: create_index(x) built before a DataReplacement of x is refused -/
example : (runReqs (initStore wTable)
    [(0, .repl 0 [[some 11, some 110, some 100], [some 12, some 120, some 200]]), (1, .index 1 1)]).hist.length = 2 := by
  decide

/-- `create_index_check_sound` has instances: create_index(x) passes a concurrent update of y in place … -/
example : conflicts (bIndex ⟨addNews (fun _ => none) 0 wTable, 2, [], false⟩ 1 1 1)
    (.update [] [] [(0, [(2, [some 1, some 2])])] [] [2] [] none) = false := by decide

end LanceModel.C24
