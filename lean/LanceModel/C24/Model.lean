import LanceModel.Table.Basic
/-
C24 model: index coverage is never claimed for data the index did not see.

Mirrors (pinned commit of /repo):
  rust/lance/src/io/commit/conflict_resolver.rs   TransactionRebase::{try_new (modified_fragment_ids), check_txn,
                                                  check_create_index_txn, check_update_txn, check_delete_txn,
                                                  check_data_replacement_txn, check_append_txn, check_reserve_fragments_txn,
                                                  finish_delete_update (row-level rebase of deletion vectors)}
  rust/lance/src/dataset/transaction.rs           Transaction::build_manifest (Append / Delete / Update / CreateIndex /
                                                  DataReplacement / ReserveFragments arms), prune_updated_fields_from_indices,
                                                  retain_relevant_indices (a no-op here: one index per name, no schema change)
  rust/lance/src/io/commit.rs                     commit_transaction: the transaction was BUILT from the version its handle
                                                  is at and is COMMITTED on the latest version: conflict check against every
                                                  transaction in between, rebase, build_manifest on the latest manifest
  rust/lance/src/index/create.rs, index.rs        create_index (bitmap = every fragment of the handle's version, trained on
                                                  them), optimize_indices / index/append.rs merge_indices (+ BTreeIndex::update
                                                  = combine_old_new: ALL old entries + the un-indexed fragments)
  rust/lance/src/dataset/write/{update,delete,merge_insert}.rs   the shapes of the transactions they build

A table is a finite map fragment id -> fragment (a function `Nat -> Option Frag` below `nextFrag`; ids are unique by
construction, the manifest order is the id order: `final_fragments.sort_by_key(|frag| frag.id)`).  A fragment is its
PHYSICAL rows, the deleted offsets and one bit of file layout (`split`: a partial-schema merge_insert left a (c0, c1)
data file next to the tombstoned original).  Data files are immutable, so "the column cells of fragment f" only change
through a transaction that installs another file for that column.

An index is (uuid, name, indexed field ids, fragment bitmap, entries).  `ents` is what the index FILES hold: one entry
(fragment, offset, indexed cells) per row the index was trained on or updated with.  Pruning a bitmap does not touch
the files; `optimize_indices` merges all old entries with the entries of the un-indexed fragments.

Modelling decision (documented in props/C24.json): Update / Delete / DataReplacement transactions carry the CHANGE
(newly deleted offsets, replacement columns) and `build` applies it to the latest fragment, whereas the real
transaction carries the whole new fragment metadata built at the read version; the two agree because the conflict
check refuses the commit whenever the fragment's files changed in between (`fragment.files != updated.files`) and the
deletion vectors are merged by `finish_delete_update`.  CreateIndex — the subject of C24 — is modelled as it is: bitmap
and entries are taken at the READ version and committed unchanged on the latest.
-/
namespace LanceModel.C24
open LanceModel.Table

structure Frag where
  rows : List Row
  dels : List Nat
  split : Bool
  deriving Repr, DecidableEq

structure Ent where
  frag : Nat
  off : Nat
  val : List Cell
  deriving Repr, DecidableEq

structure Index where
  uuid : Nat
  name : Nat
  fields : List Nat
  bitmap : List Nat
  ents : List Ent
  deriving Repr, DecidableEq

structure Manifest where
  frags : Nat → Option Frag
  /-- `max_fragment_id + 1` (0 for a table that never had a fragment) -/
  nextFrag : Nat
  indices : List Index
  /-- the table uses stable row ids (FLAG_STABLE_ROW_IDS; fixed at creation) -/
  stable : Bool := false

/-- the cells of the indexed fields of one row -/
def proj (F : List Nat) (r : Row) : List Cell := F.map (cellAt r)

/-- the indexed column(s) of a fragment, by physical offset -/
def cols (F : List Nat) (g : Frag) : List (List Cell) := g.rows.map (proj F)

/-- the entries an index trained on fragment `f` holds for it -/
def entsOfAux (F : List Nat) (f : Nat) : List Row → Nat → List Ent
  | [], _ => []
  | r :: rs, k => ⟨f, k, proj F r⟩ :: entsOfAux F f rs (k + 1)

def entsOf (F : List Nat) (f : Nat) (g : Frag) : List Ent := entsOfAux F f g.rows 0

def assoc {α : Type} (l : List (Nat × α)) (k : Nat) : Option α :=
  match l with
  | [] => none
  | (a, v) :: t => if a = k then some v else assoc t k

def inter (a b : List Nat) : Bool := a.any b.contains

/-! ## transactions -/

/-- a column replacement: (field id, the new cells by physical offset) -/
abbrev Patch := List (Nat × List Cell)

/-- `Operation` (transaction.rs), the variants of this model.
    `aff` = per fragment the offsets this transaction deletes (`affected_rows`), `removed` = fragments it deletes
    wholly (`deleted_fragment_ids` / `removed_fragment_ids`, a subset of the ids of `aff`), `patches` = per fragment the
    columns a RewriteColumns update replaces (`updated_fragments` with a new data file), `news` = `new_fragments`,
    `fm` = `fields_modified`, `hit` = `affected_rows` (equal to `aff` for RewriteRows; none for RewriteColumns), `rowsMode` = `update_mode`: `none` for RewriteColumns, `some fields_for_preserving_frag_bitmap` (the fields the UPDATE
    statement assigns) for RewriteRows. -/
inductive Txn where
  | append (news : List (List Row))
  | delete (aff : List (Nat × List Nat)) (removed : List Nat)
  | update (aff : List (Nat × List Nat)) (removed : List Nat) (patches : List (Nat × Patch)) (news : List (List Row))
      (fm : List Nat) (hit : List (Nat × List Nat)) (rowsMode : Option (List Nat))
  | createIndex (new : List Index) (removed : List Nat)
  | dataRepl (f : Nat) (p : Patch)
  | reserve (n : Nat)
  deriving Repr

inductive Err where
  | retryable | invalid
  deriving Repr, DecidableEq

def patchCol (c : Nat) : List Row → List Cell → List Row
  | [], _ => []
  | r :: rs, [] => r :: rs
  | r :: rs, v :: vs => r.set c v :: patchCol c rs vs

def applyPatch (rows : List Row) : Patch → List Row
  | [] => rows
  | (c, vs) :: p => applyPatch (patchCol c rows vs) p

def patchFields (p : Patch) : List Nat := p.map (·.1)

/-- build_manifest, Delete / Update arms: the fragment after the transaction -/
def modFrag (aff : List (Nat × List Nat)) (patches : List (Nat × Patch)) (f : Nat) (g : Frag) : Frag :=
  { rows := match assoc patches f with
            | some p => applyPatch g.rows p
            | none => g.rows,
    dels := match assoc aff f with
            | some a => g.dels ++ a
            | none => g.dels,
    split := match assoc patches f with
             | some _ => true
             | none => g.split }

/-- `fragments_with_ids` + `final_fragments.extend(new_fragments)` -/
def addNews (frags : Nat → Option Frag) (start : Nat) (news : List (List Row)) : Nat → Option Frag :=
  fun f => if start ≤ f ∧ f < start + news.length then
      match news[f - start]? with
      | some rows => some ⟨rows, [], false⟩
      | none => none
    else frags f

/-- prune_updated_fields_from_indices -/
def prune (ixs : List Index) (ids fm : List Nat) : List Index :=
  if fm.isEmpty then ixs
  else ixs.map fun i =>
    if inter i.fields fm then { i with bitmap := i.bitmap.filter (fun f => !ids.contains f) } else i

/-- build_manifest, Update arm, `config.use_stable_row_ids && update_mode == Some(RewriteRows)`:
    register_pure_rewrite_rows_update_frags_in_indices.  With stable row ids the rows an update moves keep their row
    ids, so an index on a field the update does not assign still holds the right entries for them: the new (pure:
    every row carries a row id) fragments are added to the bitmap of every such index that covers EVERY fragment the
    moved rows come from (`removed_fragment_ids` and `updated_fragments`). -/
def register (stable : Bool) (rowsMode : Option (List Nat)) (ixs : List Index) (newIds originals : List Nat) :
    List Index :=
  if !stable then ixs
  else
    match rowsMode with
    | none => ixs
    | some pres =>
      if newIds.isEmpty then ixs
      else ixs.map fun i =>
        if inter i.fields pres then i
        else if originals.all i.bitmap.contains then { i with bitmap := i.bitmap ++ newIds } else i

/-- `finish_delete_update`: a row this transaction deletes was deleted by a transaction committed since -/
def rowConflict (m : Manifest) (aff : List (Nat × List Nat)) : Bool :=
  aff.any fun fa =>
    match m.frags fa.1 with
    | none => false
    | some g => fa.2.any g.dels.contains

/-- `finish_delete_update`, `new_deleted_frag_ids`: fragments in which the merged deletion vector covers every
    physical row (they are added to the removed ids of the rebased transaction) -/
def gone (m : Manifest) (aff : List (Nat × List Nat)) : List Nat :=
  (aff.filter fun fa =>
    match m.frags fa.1 with
    | none => false
    | some g => (List.range g.rows.length).all fun j => g.dels.contains j || fa.2.contains j).map (·.1)

/-- `updated_fragments` of an Update: partially deleted fragments and column-rewritten fragments (the wholly removed
    ones are listed too: pruning a fragment that is gone changes nothing, and fields_modified is only non-empty for
    RewriteColumns updates, which delete nothing) -/
def updatedIds (aff : List (Nat × List Nat)) (patches : List (Nat × Patch)) : List Nat :=
  aff.map (·.1) ++ patches.map (·.1)

/-- the fields of the data file of a fragment that stores c1 -/
def fileFields (g : Frag) : List Nat := if g.split then [0, 1] else [0, 1, 2]

/-- Transaction::build_manifest on the latest manifest (with the deletion-vector rebase folded in) -/
def build (m : Manifest) : Txn → Except Err Manifest
  | .append news =>
    .ok { m with frags := addNews m.frags m.nextFrag news, nextFrag := m.nextFrag + news.length }
  | .delete aff removed =>
    if rowConflict m aff then .error .retryable
    else .ok { m with frags := fun f =>
      if removed.contains f || (gone m aff).contains f then none else (m.frags f).map (modFrag aff [] f) }
  | .update aff removed patches news fm hit rm =>
    if rowConflict m hit then .error .retryable
    else .ok {
      frags := addNews (fun f => if removed.contains f || (gone m aff).contains f then none
                                 else (m.frags f).map (modFrag aff patches f))
                 m.nextFrag news,
      nextFrag := m.nextFrag + news.length,
      indices := register m.stable rm (prune m.indices (updatedIds aff patches) fm)
        ((List.range news.length).map (m.nextFrag + ·)) (aff.map (·.1) ++ removed.filter (fun f => !(aff.map (·.1)).contains f)),
      stable := m.stable }
  | .createIndex new removed =>
    .ok { m with indices :=
            (m.indices.filter fun e => !(new.any fun n => n.name == e.name) && !removed.contains e.uuid) ++ new }
  | .dataRepl f p =>
    match m.frags f with
    | none => .error .invalid
    | some g =>
      -- "Expected to modify the fragment but no changes were made": no data file of the fragment has these fields
      if patchFields p != fileFields g then .error .invalid
      else .ok { m with frags := fun f' => if f' = f then some { g with rows := applyPatch g.rows p } else m.frags f' }
  | .reserve n => .ok { m with nextFrag := m.nextFrag + n }

/-- TransactionRebase::try_new, `modified_fragment_ids` -/
def Txn.modified : Txn → List Nat
  | .delete aff removed => aff.map (·.1) ++ removed
  | .update aff removed patches _ _ _ _ => aff.map (·.1) ++ removed ++ patches.map (·.1)
  | .dataRepl f _ => [f]
  | _ => []

/-- fragments whose FILES another Update / Delete changes or which it removes: what check_update_txn / check_delete_txn
    refuse to be rebased over (`fragment.files != updated.files`, `removed_fragment_ids` ∩ initial fragments) -/
def Txn.filesChanged : Txn → List Nat
  | .delete _ removed => removed
  | .update _ removed patches _ _ _ _ => removed ++ patches.map (·.1)
  | _ => []

/-- fragments an Update / Delete modifies in any way (its own `modified_fragment_ids`) -/
def Txn.udModified : Txn → List Nat
  | .delete aff removed => aff.map (·.1) ++ removed
  | .update aff removed patches _ _ _ _ => aff.map (·.1) ++ removed ++ patches.map (·.1)
  | _ => []

/-- TransactionRebase::check_txn: does `mine` (being committed) conflict with `other` (committed since `mine` was built)?
    Every conflict between the operations of this model is a retryable one. -/
def conflicts (mine other : Txn) : Bool :=
  match mine, other with
  -- check_create_index_txn: Append / Delete / Update / CreateIndex / ReserveFragments => Ok(()), whatever they touch;
  -- DataReplacement: conflict iff a replaced field is one of the newly indexed fields
  | .createIndex new _, .dataRepl _ p => inter (new.flatMap (·.fields)) (patchFields p)
  | .createIndex _ _, _ => false
  -- check_delete_txn / check_update_txn
  | .delete aff removed, .dataRepl f _ => (Txn.delete aff removed).modified.contains f
  | .update aff removed ps nw fm ht cm, .dataRepl f _ => (Txn.update aff removed ps nw fm ht cm).modified.contains f
  | .delete aff removed, o => inter (Txn.delete aff removed).modified o.filesChanged
  -- a RewriteColumns update is committed without `affected_rows` ("we have rewritten the fragments, not just the
  -- deletion files"): any Update / Delete of one of its fragments is a conflict; with affected rows only a change of
  -- the fragment's files or its removal is (deletion vectors are merged row by row, `rowConflict`)
  | .update aff removed ps nw fm ht cm, o =>
    inter (Txn.update aff removed ps nw fm ht cm).modified (if cm.isNone then o.udModified else o.filesChanged)
  -- check_data_replacement_txn
  | .dataRepl _ p, .createIndex new _ => inter (new.flatMap (·.fields)) (patchFields p)
  | .dataRepl f p, .dataRepl f' p' => f == f' && inter (patchFields p) (patchFields p')
  | .dataRepl _ _, _ => false
  -- check_append_txn, check_reserve_fragments_txn
  | .append _, _ => false
  | .reserve _, _ => false

/-- one published version: the manifest and the (rebased) transaction that produced it -/
structure Ver where
  m : Manifest
  t : Txn

/-- `finish_delete_update`: the transaction that is recorded is the rebased one — the fragments the merged deletion
    vectors empty are added to its removed ids -/
def rebase (m : Manifest) : Txn → Txn
  | .delete aff removed => .delete aff (removed ++ gone m aff)
  | .update aff removed patches news fm hit cm => .update aff (removed ++ gone m aff) patches news fm hit cm
  | t => t

/-- commit_transaction: `hist` is the version chain, newest first; the transaction was built `lag` versions ago. -/
def commit (hist : List Ver) (lag : Nat) (t : Txn) : Except Err (List Ver) :=
  if (hist.take lag).any (fun v => conflicts t v.t) then .error .retryable
  else
    match hist with
    | [] => .error .invalid
    | v :: rest =>
      match build v.m t with
      | .ok m' => .ok (⟨m', rebase v.m t⟩ :: v :: rest)
      | .error e => .error e

/-! ## the operations of the harness: what the lance builders put into the transaction, from the handle's version -/

/-- ids of the fragments of a manifest, ascending -/
def fragIds (m : Manifest) : List Nat := (List.range m.nextFrag).filter fun f => (m.frags f).isSome

def keyOf (r : Row) : Cell := cellAt r 0

def keyIn (keys : List Int) (r : Row) : Bool :=
  match keyOf r with
  | some k => keys.contains k
  | none => false

/-- offsets (from `i`) of the live rows with a key in `keys` -/
def matchOffs (keys : List Int) (dels : List Nat) : List Row → Nat → List Nat
  | [], _ => []
  | r :: rs, i => if !dels.contains i && keyIn keys r then i :: matchOffs keys dels rs (i + 1)
                  else matchOffs keys dels rs (i + 1)

def liveOffs (dels : List Nat) : List Row → Nat → List Nat
  | [], _ => []
  | _ :: rs, i => if !dels.contains i then i :: liveOffs dels rs (i + 1) else liveOffs dels rs (i + 1)

/-- (fragment, matched offsets) for every fragment with a matched live row -/
def affOf (m : Manifest) (keys : List Int) : List (Nat × List Nat) :=
  (fragIds m).filterMap fun f =>
    match m.frags f with
    | none => none
    | some g => if (matchOffs keys g.dels g.rows 0).isEmpty then none else some (f, matchOffs keys g.dels g.rows 0)

/-- fragments all of whose live rows are matched -/
def removedOf (m : Manifest) (keys : List Int) : List Nat :=
  (fragIds m).filter fun f =>
    match m.frags f with
    | none => false
    | some g => !(matchOffs keys g.dels g.rows 0).isEmpty && matchOffs keys g.dels g.rows 0 == liveOffs g.dels g.rows 0

/-- the matched live rows in scan order -/
def matchedRows (m : Manifest) (keys : List Int) : List Row :=
  (fragIds m).flatMap fun f =>
    match m.frags f with
    | none => []
    | some g => (matchOffs keys g.dels g.rows 0).filterMap fun j => g.rows[j]?

/-- DeleteBuilder: `c0 IN (keys)` -/
def bDelete (m : Manifest) (keys : List Int) : Txn := .delete (affOf m keys) (removedOf m keys)

/-- UpdateBuilder: `SET c<col> = v WHERE c0 IN (keys)` (RewriteRows: matched rows move to one new fragment) -/
def bUpdate (m : Manifest) (col : Nat) (keys : List Int) (v : Int) : Txn :=
  .update (affOf m keys) (removedOf m keys) []
    (if (matchedRows m keys).isEmpty then [] else [(matchedRows m keys).map fun r => r.set col (some v)]) []
    (affOf m keys) (some [col])

def srcFor (src : List Row) (k : Cell) : Option Row := src.find? fun s => keyOf s == k

/-- the new c1 column of a fragment under a partial-schema merge_insert (source rows (c0, c1)) -/
def mixCol (src : List Row) (dels : List Nat) : List Row → Nat → List Cell
  | [], _ => []
  | r :: rs, i =>
    (if !dels.contains i then
        match srcFor src (keyOf r) with
        | some s => if (keyOf r).isSome then cellAt s 1 else cellAt r 1
        | none => cellAt r 1
      else cellAt r 1) :: mixCol src dels rs (i + 1)

def srcKeys (src : List Row) : List Int := src.filterMap keyOf

def mixPatches (m : Manifest) (src : List Row) : List (Nat × Patch) :=
  (affOf m (srcKeys src)).filterMap fun fa =>
    match m.frags fa.1 with
    | none => none
    | some g => some (fa.1, [(0, g.rows.map keyOf), (1, mixCol src g.dels g.rows 0)])

/-- MergeInsertBuilder on c0, source (c0, c1), UpdateAll / DoNothing: RewriteColumns of (c0, c1) in every fragment
    with a matched live row; fields_modified = the fields of the data files it adds = {c0, c1} (nothing when no row
    matches: the transaction is committed all the same) -/
def bMix (m : Manifest) (src : List Row) : Txn :=
  .update [] [] (mixPatches m src) [] (if (mixPatches m src).isEmpty then [] else [0, 1]) [] none

/-- the entries a training scan of fragment `f` produces -/
def fragEnts (m : Manifest) (F : List Nat) (f : Nat) : List Ent :=
  match m.frags f with
  | some g => entsOf F f g
  | none => []

def scanEnts (m : Manifest) (F : List Nat) (ids : List Nat) : List Ent := ids.flatMap (fragEnts m F)

/-- CreateIndexBuilder (BTree on one field, trained on every fragment of the handle's version) -/
def bIndex (m : Manifest) (uuid name fld : Nat) : Txn :=
  .createIndex
    [{ uuid := uuid, name := name, fields := [fld], bitmap := fragIds m,
       ents := scanEnts m [fld] (fragIds m) }] []

/-- merge_indices for one scalar index: all old entries + the un-indexed fragments; bitmap = un-indexed ∪ old bitmap -/
def mergeIndex (m : Manifest) (uuid : Nat) (j : Index) : Index :=
  { uuid := uuid, name := j.name, fields := j.fields,
    bitmap := (fragIds m).filter (fun f => !j.bitmap.contains f) ++ j.bitmap,
    ents := j.ents ++ scanEnts m j.fields ((fragIds m).filter (fun f => !j.bitmap.contains f)) }

def mergeAll (m : Manifest) : Nat → List Index → List Index
  | _, [] => []
  | u, j :: js => mergeIndex m u j :: mergeAll m (u + 1) js

/-- optimize_indices(default): every index is replaced by its merge -/
def bOptimize (m : Manifest) (uuid : Nat) : Txn :=
  .createIndex (mergeAll m uuid m.indices) (m.indices.map (·.uuid))

/-- Operation::DataReplacement of the file of fragment `f` that stores c1: columns (c0, c1) or (c0, c1, c2) -/
def bRepl (f : Nat) (rows : List Row) : Txn :=
  .dataRepl f (((List.range (match rows with | r :: _ => r.length | [] => 0)).map fun c => (c, rows.map fun r => cellAt r c)))

/-- the rows an ordered scan returns -/
def liveRows (g : Frag) : List Row := (liveOffs g.dels g.rows 0).filterMap fun j => g.rows[j]?

def scan (m : Manifest) : List Row :=
  (fragIds m).flatMap fun f =>
    match m.frags f with
    | some g => liveRows g
    | none => []

end LanceModel.C24
