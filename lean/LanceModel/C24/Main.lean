import LanceModel.C24.Driver
def main : IO Unit := LanceModel.Util.runDriver LanceModel.C24.Driver.step LanceModel.C24.Driver.init
