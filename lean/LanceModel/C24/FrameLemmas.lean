import LanceModel.C24.Model
/-
C24 helper lemmas, part 1: what "the index covers fragment f faithfully" means, and the FRAME lemma — a transaction
that does not replace a column of the indexed fields in fragment f leaves those column cells as they are (or removes
the fragment), and never re-uses the id of an older fragment.
-/
namespace LanceModel.C24
open LanceModel.Table

/-- entry `e` is what an index on fields `F` holds for the row at its offset in fragment `f` as it is now -/
def Holds (F : List Nat) (f : Nat) (g : Frag) (e : Ent) : Prop :=
  e.frag = f ∧ (cols F g)[e.off]? = some e.val

/-- the entries the index files hold for fragment `f` are exactly the current cells of the indexed fields of `f` -/
def Covers (m : Manifest) (i : Index) (f : Nat) : Prop :=
  ∀ g, m.frags f = some g → ∀ e, (e ∈ i.ents ∧ e.frag = f) ↔ Holds i.fields f g e

/-- C24 on one version: every index, for every fragment its bitmap claims -/
def Faithful (m : Manifest) : Prop := ∀ i ∈ m.indices, ∀ f ∈ i.bitmap, Covers m i f

/-- ids are handed out below `nextFrag`; bitmaps only name ids handed out -/
def Bounded (m : Manifest) : Prop :=
  (∀ f, m.nextFrag ≤ f → m.frags f = none) ∧ (∀ i ∈ m.indices, ∀ f ∈ i.bitmap, f < m.nextFrag)

theorem mem_entsOfAux (F : List Nat) (f : Nat) (rows : List Row) (k : Nat) (e : Ent) :
    e ∈ entsOfAux F f rows k ↔ e.frag = f ∧ k ≤ e.off ∧ (rows.map (proj F))[e.off - k]? = some e.val := by
  induction rows generalizing k with
  | nil => simp [entsOfAux]
  | cons r rs ih =>
    simp only [entsOfAux, List.mem_cons, ih, List.map_cons]
    constructor
    · rintro (h | ⟨h1, h2, h3⟩)
      · subst h; simp
      · refine ⟨h1, by omega, ?_⟩
        have : e.off - k = (e.off - (k + 1)) + 1 := by omega
        rw [this]; simpa using h3
    · rintro ⟨h1, h2, h3⟩
      by_cases hk : e.off = k
      · left
        have : e.off - k = 0 := by omega
        rw [this] at h3
        simp at h3
        cases e; simp_all
      · right
        refine ⟨h1, by omega, ?_⟩
        have : e.off - k = (e.off - (k + 1)) + 1 := by omega
        rw [this] at h3; simpa using h3

theorem mem_entsOf (F : List Nat) (f : Nat) (g : Frag) (e : Ent) : e ∈ entsOf F f g ↔ Holds F f g e := by
  simp [entsOf, mem_entsOfAux, Holds, cols]

theorem holds_congr {F : List Nat} {f : Nat} {g g' : Frag} (h : cols F g = cols F g') (e : Ent) :
    Holds F f g e ↔ Holds F f g' e := by
  simp [Holds, h]

/-- coverage only depends on the entries, the fields and the indexed column cells -/
theorem covers_transfer {m m' : Manifest} {i i' : Index} {f : Nat}
    (hents : i'.ents = i.ents) (hflds : i'.fields = i.fields)
    (hfr : ∀ g', m'.frags f = some g' → ∃ g, m.frags f = some g ∧ cols i.fields g = cols i.fields g')
    (h : Covers m i f) : Covers m' i' f := by
  intro g' hg' e
  obtain ⟨g, hg, hc⟩ := hfr g' hg'
  rw [hents, hflds, ← holds_congr hc]
  exact h g hg e

/-! ### patches -/

theorem cellAt_set_ne (r : Row) (c x : Nat) (v : Cell) (h : x ≠ c) : cellAt (r.set c v) x = cellAt r x := by
  unfold cellAt
  rw [List.getElem?_set_ne (by omega)]

theorem proj_set (F : List Nat) (r : Row) (c : Nat) (v : Cell) (h : c ∉ F) : proj F (r.set c v) = proj F r := by
  unfold proj
  apply List.map_congr_left
  intro x hx
  exact cellAt_set_ne r c x v (fun hxc => h (hxc ▸ hx))

theorem map_proj_patchCol (F : List Nat) (c : Nat) (h : c ∉ F) (rows : List Row) (vs : List Cell) :
    (patchCol c rows vs).map (proj F) = rows.map (proj F) := by
  induction rows generalizing vs with
  | nil => simp [patchCol]
  | cons r rs ih =>
    cases vs with
    | nil => simp [patchCol]
    | cons v vs => simp [patchCol, proj_set F r c v h, ih]

theorem map_proj_applyPatch (F : List Nat) (p : Patch) (h : ∀ c ∈ patchFields p, c ∉ F) (rows : List Row) :
    (applyPatch rows p).map (proj F) = rows.map (proj F) := by
  induction p generalizing rows with
  | nil => simp [applyPatch]
  | cons cv p ih =>
    obtain ⟨c, vs⟩ := cv
    simp only [applyPatch]
    rw [ih (fun c' hc' => h c' (by simp [patchFields] at hc' ⊢; exact Or.inr hc'))]
    exact map_proj_patchCol F c (h c (by simp [patchFields])) rows vs

theorem inter_false {a b : List Nat} (h : inter a b = false) : ∀ x ∈ a, x ∉ b := by
  intro x hx hb
  have : inter a b = true := by
    simp only [inter, List.any_eq_true]
    exact ⟨x, hx, by simpa using hb⟩
  rw [h] at this; cases this

theorem inter_false_symm {a b : List Nat} (h : inter a b = false) : ∀ x ∈ b, x ∉ a :=
  fun x hb ha => inter_false h x ha hb

/-- does transaction `t` install another file for a field of `F` in fragment `f`? -/
def touches (t : Txn) (f : Nat) (F : List Nat) : Prop :=
  match t with
  | .update _ _ patches _ _ _ _ => ∃ p, assoc patches f = some p ∧ ∃ c ∈ patchFields p, c ∈ F
  | .dataRepl f' p => f' = f ∧ ∃ c ∈ patchFields p, c ∈ F
  | _ => False

theorem cols_modFrag (F : List Nat) (aff : List (Nat × List Nat)) (patches : List (Nat × Patch)) (f : Nat) (g : Frag)
    (h : ∀ p, assoc patches f = some p → ∀ c ∈ patchFields p, c ∉ F) :
    cols F (modFrag aff patches f g) = cols F g := by
  unfold cols modFrag
  cases hp : assoc patches f with
  | none => simp
  | some p => simpa using map_proj_applyPatch F p (h p hp) g.rows

theorem addNews_old (frags : Nat → Option Frag) (start : Nat) (news : List (List Row)) (f : Nat) (h : f < start) :
    addNews frags start news f = frags f := by
  unfold addNews
  rw [if_neg (by omega)]

theorem addNews_none (frags : Nat → Option Frag) (start : Nat) (news : List (List Row)) (f : Nat)
    (h : start + news.length ≤ f) (hn : frags f = none) : addNews frags start news f = none := by
  unfold addNews
  rw [if_neg (by omega)]; exact hn

theorem build_nextFrag_le {m m' : Manifest} {t : Txn} (h : build m t = .ok m') : m.nextFrag ≤ m'.nextFrag := by
  cases t with
  | append news => simp [build] at h; subst h; simp
  | delete aff removed =>
    simp only [build] at h
    split at h
    · cases h
    · cases h; simp
  | update aff removed patches news fm hit cm =>
    simp only [build] at h
    split at h
    · cases h
    · cases h; simp
  | createIndex new removed => simp [build] at h; subst h; simp
  | dataRepl f p =>
    simp only [build] at h
    split at h
    · cases h
    · split at h
      · cases h
      · cases h; simp
  | reserve n => simp [build] at h; subst h; simp

/-- FRAME: an old fragment id that survives a transaction which does not touch its `F` columns has the same `F` cells -/
theorem build_frame {m m' : Manifest} {t : Txn} (F : List Nat) (f : Nat) (h : build m t = .ok m')
    (hf : f < m.nextFrag) (hnt : ¬ touches t f F) (g' : Frag) (hg' : m'.frags f = some g') :
    ∃ g, m.frags f = some g ∧ cols F g = cols F g' := by
  cases t with
  | append news =>
    simp [build] at h; subst h
    simp only [addNews_old _ _ _ _ hf] at hg'
    exact ⟨g', hg', rfl⟩
  | delete aff removed =>
    simp only [build] at h
    split at h
    · cases h
    · cases h
      simp only at hg'
      split at hg'
      · cases hg'
      · cases hm : m.frags f with
        | none => simp [hm] at hg'
        | some g =>
          simp [hm] at hg'; subst hg'
          exact ⟨g, rfl, (cols_modFrag F aff [] f g (by simp [assoc])).symm⟩
  | update aff removed patches news fm hit cm =>
    simp only [build] at h
    split at h
    · cases h
    · cases h
      simp only [addNews_old _ _ _ _ hf] at hg'
      split at hg'
      · cases hg'
      · cases hm : m.frags f with
        | none => simp [hm] at hg'
        | some g =>
          simp [hm] at hg'; subst hg'
          refine ⟨g, rfl, (cols_modFrag F aff patches f g ?_).symm⟩
          intro p hp c hc hcF
          exact hnt ⟨p, hp, c, hc, hcF⟩
  | createIndex new removed =>
    simp [build] at h; subst h
    exact ⟨g', hg', rfl⟩
  | dataRepl f0 p =>
    simp only [build] at h
    split at h
    · cases h
    · rename_i g0 hg0
      split at h
      · cases h
      · cases h
        simp only at hg'
        split at hg'
        · rename_i hff
          cases hg'
          subst hff
          refine ⟨g0, hg0, ?_⟩
          unfold cols
          simp only
          exact (map_proj_applyPatch F p (fun c hc hcF => hnt ⟨rfl, c, hc, hcF⟩) g0.rows).symm
        · exact ⟨g', hg', rfl⟩
  | reserve n =>
    simp [build] at h; subst h
    exact ⟨g', hg', rfl⟩

/-! ### the version chain -/

/-- every version is `build` of the one before it -/
inductive Chain : List Ver → Prop where
  | base (v : Ver) : Chain [v]
  | step (v w : Ver) (rest : List Ver) : Chain (w :: rest) → build w.m v.t = .ok v.m → Chain (v :: w :: rest)

theorem chain_tail {v : Ver} {rest : List Ver} (h : Chain (v :: rest)) (hne : rest ≠ []) : Chain rest := by
  cases h with
  | base => exact absurd rfl hne
  | step _ w r hc _ => exact hc

/-- FRAME along the chain: from the version a transaction was built from (`w`) to the latest (`head`) -/
theorem chain_frame (F : List Nat) (f : Nat) (newer : List Ver) (w : Ver) (older : List Ver)
    (hc : Chain (newer ++ w :: older)) (hnt : ∀ v ∈ newer, ¬ touches v.t f F) (hf : f < w.m.nextFrag) :
    ∀ top, (newer ++ w :: older).head? = some top →
      w.m.nextFrag ≤ top.m.nextFrag ∧
      ∀ g', top.m.frags f = some g' → ∃ g, w.m.frags f = some g ∧ cols F g = cols F g' := by
  induction newer with
  | nil =>
    intro top htop
    simp at htop; subst htop
    exact ⟨Nat.le_refl _, fun g' hg' => ⟨g', hg', rfl⟩⟩
  | cons v newer ih =>
    intro top htop
    simp at htop; subst htop
    have hc' : Chain (newer ++ w :: older) := chain_tail hc (by simp)
    cases hl : newer ++ w :: older with
    | nil => simp at hl
    | cons u rest =>
      have hstep : build u.m v.t = .ok v.m := by
        rw [List.cons_append, hl] at hc
        cases hc with
        | step _ _ _ _ hb => exact hb
      obtain ⟨hle, hfr⟩ := ih hc' (fun x hx => hnt x (List.mem_cons_of_mem _ hx)) u (by rw [hl]; rfl)
      refine ⟨Nat.le_trans hle (build_nextFrag_le hstep), ?_⟩
      intro g' hg'
      obtain ⟨g1, hg1, hc1⟩ :=
        build_frame F f hstep (by omega) (hnt v (List.mem_cons_self)) g' hg'
      obtain ⟨g, hg, hc2⟩ := hfr g1 hg1
      exact ⟨g, hg, hc2.trans hc1⟩

end LanceModel.C24
