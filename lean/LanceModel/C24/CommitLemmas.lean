import LanceModel.C24.FrameLemmas
/-
C24 helper lemmas, part 2: one commit (conflict check, rebase, build_manifest on the latest version) preserves
"every version is faithful", provided the transaction was built from the version its handle was at and the commit
is outside the two defective regions (`safeTxn`).
-/
namespace LanceModel.C24
open LanceModel.Table

/-- a column-rewriting Update lists every field it rewrites in `fields_modified` (merge_insert computes it from the
    fields of the data file it adds) -/
def Declared : Txn → Prop
  | .update _ _ patches _ fm _ _ => ∀ fp ∈ patches, ∀ c ∈ patchFields fp.2, c ∈ fm
  | _ => True

/-- what a builder guarantees about its transaction, relative to the version `mr` it was built from: an index commit
    names fragments of `mr` and holds exactly their cells -/
def Built (mr : Manifest) : Txn → Prop
  | .createIndex new _ => ∀ i ∈ new, ∀ f ∈ i.bitmap, f < mr.nextFrag ∧ Covers mr i f
  | t => Declared t

/-- DEFECT REGION (a): an index commit is rebased over a column-rewriting Update of one of its fields in one of the
    fragments it claims (check_create_index_txn answers Ok(()) for every Update) -/
def rebaseUnsafe (new : List Index) (other : Txn) : Bool :=
  match other with
  | .update _ _ patches _ fm _ _ => new.any fun i => inter i.fields fm && inter i.bitmap (patches.map (·.1))
  | _ => false

/-- DEFECT REGION (b): a DataReplacement replaces an indexed field in a fragment an index claims (the DataReplacement
    arm of build_manifest leaves the index bitmaps alone) -/
def replUnsafe (m : Manifest) (f : Nat) (p : Patch) : Bool :=
  m.indices.any fun i => i.bitmap.contains f && inter i.fields (patchFields p)

def safeTxn (hist : List Ver) (lag : Nat) (t : Txn) : Bool :=
  match t with
  | .createIndex new _ => !(hist.take lag).any (fun v => rebaseUnsafe new v.t)
  | .dataRepl f p =>
    match hist with
    | v :: _ => !replUnsafe v.m f p
    | [] => true
  | _ => true

theorem assoc_mem {α : Type} (l : List (Nat × α)) (k : Nat) (v : α) (h : assoc l k = some v) : (k, v) ∈ l := by
  induction l with
  | nil => simp [assoc] at h
  | cons a t ih =>
    obtain ⟨a1, a2⟩ := a
    simp only [assoc] at h
    split at h
    · rename_i hk; cases h; subst hk; simp
    · exact List.mem_cons_of_mem _ (ih h)

theorem mem_prune {ixs : List Index} {ids fm : List Nat} {i' : Index} (h : i' ∈ prune ixs ids fm) :
    ∃ i ∈ ixs, i'.ents = i.ents ∧ i'.fields = i.fields ∧ (∀ f ∈ i'.bitmap, f ∈ i.bitmap) ∧
      (fm ≠ [] → inter i.fields fm = true → ∀ f ∈ i'.bitmap, f ∉ ids) := by
  unfold prune at h
  split at h
  · rename_i hfm
    refine ⟨i', h, rfl, rfl, fun _ hf => hf, ?_⟩
    intro hne; simp at hfm; exact absurd hfm hne
  · simp only [List.mem_map] at h
    obtain ⟨i, hi, rfl⟩ := h
    refine ⟨i, hi, ?_⟩
    split
    · rename_i hint
      refine ⟨rfl, rfl, ?_, ?_⟩
      · intro f hf; simp at hf; exact hf.1
      · intro _ _ f hf; simp at hf; exact hf.2
    · rename_i hint
      refine ⟨rfl, rfl, fun _ hf => hf, ?_⟩
      intro _ h2; exact absurd h2 hint

/-- the indices a non-index transaction leaves behind are the old ones with possibly smaller bitmaps -/
def IxFrom (old new : List Index) : Prop :=
  ∀ i' ∈ new, ∃ i ∈ old, i'.ents = i.ents ∧ i'.fields = i.fields ∧ ∀ f ∈ i'.bitmap, f ∈ i.bitmap

/-- generic preservation: old indices keep covering what they claim when the transaction touches none of it -/
theorem faithful_of_frame {m m' : Manifest} {t : Txn} (hb : build m t = .ok m') (hF : Faithful m) (hB : Bounded m)
    (hix : ∀ i' ∈ m'.indices, ∃ i ∈ m.indices, i'.ents = i.ents ∧ i'.fields = i.fields ∧
      ∀ f ∈ i'.bitmap, f ∈ i.bitmap ∧ ¬ touches t f i.fields) : Faithful m' := by
  intro i' hi' f hf
  obtain ⟨i, hi, he, hfl, hbm⟩ := hix i' hi'
  obtain ⟨hfi, hnt⟩ := hbm f hf
  refine covers_transfer he hfl ?_ (hF i hi f hfi)
  intro g' hg'
  exact build_frame i.fields f hb (hB.2 i hi f hfi) hnt g' hg'

theorem register_unstable (rm : Option (List Nat)) (ixs : List Index) (a b : List Nat) :
    register false rm ixs a b = ixs := by
  simp [register]

theorem build_keeps {m m' : Manifest} {t : Txn} (hb : build m t = .ok m') (hst : m.stable = false)
    (hF : Faithful m) (hB : Bounded m)
    (hD : Declared t)
    (hrepl : ∀ f p, t = .dataRepl f p → replUnsafe m f p = false)
    (hnotix : ∀ new removed, t ≠ .createIndex new removed) : Faithful m' ∧ Bounded m' := by
  cases t with
  | append news =>
    have hb' := hb
    simp [build] at hb; subst hb
    refine ⟨faithful_of_frame hb' hF hB ?_, ?_, ?_⟩
    · intro i' hi'
      exact ⟨i', hi', rfl, rfl, fun f hf => ⟨hf, by simp [touches]⟩⟩
    · intro f hf
      exact addNews_none _ _ _ _ hf (hB.1 f (by simp at hf; omega))
    · intro i hi f hf
      have := hB.2 i hi f hf
      simp; omega
  | delete aff removed =>
    have hb' := hb
    simp only [build] at hb
    split at hb
    · cases hb
    · cases hb
      refine ⟨faithful_of_frame hb' hF hB ?_, ?_, ?_⟩
      · intro i' hi'
        exact ⟨i', hi', rfl, rfl, fun f hf => ⟨hf, by simp [touches]⟩⟩
      · intro f hf
        simp only
        split
        · rfl
        · simp [hB.1 f hf]
      · exact hB.2
  | update aff removed patches news fm hit cm =>
    have hb' := hb
    simp only [build, hst, register_unstable] at hb
    split at hb
    · cases hb
    · cases hb
      refine ⟨faithful_of_frame hb' hF hB ?_, ?_, ?_⟩
      · intro i' hi'
        obtain ⟨i, hi, he, hfl, hsub, hpr⟩ := mem_prune hi'
        refine ⟨i, hi, he, hfl, fun f hf => ⟨hsub f hf, ?_⟩⟩
        rintro ⟨p, hp, c, hc, hcF⟩
        have hmem := assoc_mem _ _ _ hp
        have hcfm : c ∈ fm := hD (f, p) hmem c hc
        have hne : fm ≠ [] := by intro h0; rw [h0] at hcfm; cases hcfm
        have hint : inter i.fields fm = true := by
          simp only [inter, List.any_eq_true]
          exact ⟨c, hcF, by simpa using hcfm⟩
        apply hpr hne hint f hf
        unfold updatedIds
        apply List.mem_append_right
        exact List.mem_map.mpr ⟨(f, p), hmem, rfl⟩
      · intro f hf
        simp only at hf ⊢
        apply addNews_none _ _ _ _ hf
        split
        · rfl
        · simp [hB.1 f (by omega)]
      · intro i' hi' f hf
        obtain ⟨i, hi, _, _, hsub, _⟩ := mem_prune hi'
        have := hB.2 i hi f (hsub f hf)
        simp only; omega
  | createIndex new removed => exact absurd rfl (hnotix new removed)
  | dataRepl f0 p =>
    have hb' := hb
    have hsafe := hrepl f0 p rfl
    simp only [build] at hb
    split at hb
    · cases hb
    · rename_i g0 hg0
      split at hb
      · cases hb
      · cases hb
        refine ⟨faithful_of_frame hb' hF hB ?_, ?_, ?_⟩
        · intro i' hi'
          refine ⟨i', hi', rfl, rfl, fun f hf => ⟨hf, ?_⟩⟩
          rintro ⟨hff, c, hc, hcF⟩
          subst hff
          have : replUnsafe m f0 p = true := by
            simp only [replUnsafe, List.any_eq_true, Bool.and_eq_true]
            refine ⟨i', hi', by simpa using hf, ?_⟩
            simp only [inter, List.any_eq_true]
            exact ⟨c, hcF, by simpa using hc⟩
          rw [hsafe] at this; cases this
        · intro f hf
          simp only
          split
          · rename_i hff
            subst hff
            rw [hB.1 _ hf] at hg0; cases hg0
          · exact hB.1 f hf
        · exact hB.2
  | reserve n =>
    have hb' := hb
    simp [build] at hb; subst hb
    refine ⟨faithful_of_frame hb' hF hB ?_, ?_, ?_⟩
    · intro i' hi'
      exact ⟨i', hi', rfl, rfl, fun f hf => ⟨hf, by simp [touches]⟩⟩
    · intro f hf
      exact hB.1 f (by simp at hf; omega)
    · intro i hi f hf
      have := hB.2 i hi f hf
      simp; omega

/-- an index commit: the new indices cover what they claim if they do so on the LATEST version -/
theorem build_createIndex {m m' : Manifest} {new : List Index} {removed : List Nat}
    (hb : build m (.createIndex new removed) = .ok m') (hF : Faithful m) (hB : Bounded m)
    (hnew : ∀ i ∈ new, ∀ f ∈ i.bitmap, f < m.nextFrag ∧ Covers m i f) : Faithful m' ∧ Bounded m' := by
  simp [build] at hb; subst hb
  refine ⟨?_, hB.1, ?_⟩
  · intro i hi f hf
    simp only [List.mem_append, List.mem_filter] at hi
    rcases hi with ⟨hi, _⟩ | hi
    · exact hF i hi f hf
    · exact (hnew i hi f hf).2
  · intro i hi f hf
    simp only [List.mem_append, List.mem_filter] at hi
    rcases hi with ⟨hi, _⟩ | hi
    · exact hB.2 i hi f hf
    · exact (hnew i hi f hf).1

/-- the invariant of the version chain -/
def Inv (hist : List Ver) : Prop :=
  Chain hist ∧ ∀ v ∈ hist, Faithful v.m ∧ Bounded v.m ∧ Declared v.t ∧ v.m.stable = false

/-- stable row ids are a property of the table, fixed at creation -/
theorem build_stable {m m' : Manifest} {t : Txn} (h : build m t = .ok m') : m'.stable = m.stable := by
  cases t with
  | append news => simp [build] at h; subst h; rfl
  | delete aff removed =>
    simp only [build] at h
    split at h
    · cases h
    · cases h; rfl
  | update aff removed patches news fm hit cm =>
    simp only [build] at h
    split at h
    · cases h
    · cases h; rfl
  | createIndex new removed => simp [build] at h; subst h; rfl
  | dataRepl f p =>
    simp only [build] at h
    split at h
    · cases h
    · split at h
      · cases h
      · cases h; rfl
  | reserve n => simp [build] at h; subst h; rfl

/-- SOUNDNESS OF THE CreateIndex ROW of the conflict matrix outside region (a): if the check lets an index commit
    pass a transaction, that transaction did not replace a claimed column -/
theorem createIndex_row_sound (new : List Index) (removed : List Nat) (other : Txn) (hD : Declared other)
    (hc : conflicts (.createIndex new removed) other = false) (hs : rebaseUnsafe new other = false)
    (i : Index) (hi : i ∈ new) (f : Nat) (hf : f ∈ i.bitmap) : ¬ touches other f i.fields := by
  cases other with
  | update aff rem patches news fm hit cm =>
    rintro ⟨p, hp, c, hc', hcF⟩
    have hmem := assoc_mem _ _ _ hp
    have hcfm : c ∈ fm := hD (f, p) hmem c hc'
    have : rebaseUnsafe new (.update aff rem patches news fm hit cm) = true := by
      simp only [rebaseUnsafe, List.any_eq_true, Bool.and_eq_true]
      refine ⟨i, hi, ?_, ?_⟩
      · simp only [inter, List.any_eq_true]; exact ⟨c, hcF, by simpa using hcfm⟩
      · simp only [inter, List.any_eq_true]
        exact ⟨f, hf, by simpa using ⟨p, hmem⟩⟩
    rw [hs] at this; cases this
  | dataRepl f0 p =>
    rintro ⟨_, c, hc', hcF⟩
    simp only [conflicts] at hc
    exact inter_false hc c (List.mem_flatMap.mpr ⟨i, hi, hcF⟩) hc'
  | append _ => simp [touches]
  | delete _ _ => simp [touches]
  | createIndex _ _ => simp [touches]
  | reserve _ => simp [touches]

theorem contains_append_or (a b : List Nat) (f : Nat) :
    ((a ++ b).contains f || b.contains f) = (a.contains f || b.contains f) := by
  cases ha : a.contains f <;> cases hb : b.contains f <;> simp_all

theorem gone_sub (m : Manifest) (aff : List (Nat × List Nat)) :
    (gone m aff).filter (fun f => !(aff.map (·.1)).contains f) = [] := by
  rw [List.filter_eq_nil_iff]
  intro f hf
  simp only [gone, List.mem_map, List.mem_filter] at hf
  obtain ⟨fa, ⟨hfa, _⟩, rfl⟩ := hf
  have hm : fa.1 ∈ aff.map (·.1) := List.mem_map.mpr ⟨fa, hfa, rfl⟩
  simp [hm]

/-- recording the rebased transaction does not change what was built -/
theorem build_rebase (m : Manifest) (t : Txn) : build m (rebase m t) = build m t := by
  cases t with
  | delete aff removed =>
    simp only [rebase, build]
    split
    · rfl
    · congr 2
      funext f
      rw [contains_append_or]
  | update aff removed patches news fm hit cm =>
    simp only [rebase, build]
    split
    · rfl
    · congr 1
      · congr 1
        · congr 1
          funext f
          rw [contains_append_or]
        · rw [List.filter_append, gone_sub, List.append_nil]
  | append _ => rfl
  | createIndex _ _ => rfl
  | dataRepl _ _ => rfl
  | reserve _ => rfl

theorem declared_rebase (m : Manifest) (t : Txn) (h : Declared t) : Declared (rebase m t) := by
  cases t <;> exact h

theorem commit_inv (hist hist' : List Ver) (lag : Nat) (t : Txn) (hI : Inv hist)
    (hlag : lag < hist.length) (hBuilt : Built (hist[lag]).m t) (hS : safeTxn hist lag t = true)
    (h : commit hist lag t = .ok hist') : Inv hist' := by
  unfold commit at h
  split at h
  · cases h
  · rename_i hconf
    cases hist with
    | nil => cases h
    | cons v rest =>
      simp only at h
      cases hb : build v.m t with
      | error e => rw [hb] at h; cases h
      | ok m' =>
        rw [hb] at h; cases h
        obtain ⟨hch, hall⟩ := hI
        have hv := hall v (List.mem_cons_self)
        have hDt : Declared t := by
          cases t <;> first | exact hBuilt | trivial
        have key : Faithful m' ∧ Bounded m' := by
          cases t with
          | createIndex new removed =>
            apply build_createIndex hb hv.1 hv.2.1
            intro i hi f hf
            -- split the chain at the version the index was built from
            have hsplit : (v :: rest) = (v :: rest).take lag ++ (v :: rest)[lag] :: (v :: rest).drop (lag + 1) := by
              rw [List.getElem_cons_drop]; exact (List.take_append_drop lag _).symm
            obtain ⟨hlt, hcov⟩ := hBuilt i hi f hf
            have hnt : ∀ u ∈ (v :: rest).take lag, ¬ touches u.t f i.fields := by
              intro u hu
              have hu' : u ∈ v :: rest := List.mem_of_mem_take hu
              apply createIndex_row_sound new removed u.t (hall u hu').2.2.1 ?_ ?_ i hi f hf
              · have := hconf
                simp only [List.any_eq_true, not_exists, not_and, Bool.not_eq_true] at this
                exact this u hu
              · simp only [safeTxn, Bool.not_eq_true', List.any_eq_false] at hS
                simpa using hS u hu
            have hfr := chain_frame i.fields f ((v :: rest).take lag) ((v :: rest)[lag]) ((v :: rest).drop (lag + 1))
              (by rw [← hsplit]; exact hch) hnt hlt v (by rw [← hsplit]; rfl)
            refine ⟨by omega, ?_⟩
            exact covers_transfer rfl rfl hfr.2 hcov
          | append news => exact build_keeps hb hv.2.2.2 hv.1 hv.2.1 hDt (by intro _ _ h; cases h) (by intro _ _ h; cases h)
          | delete a r => exact build_keeps hb hv.2.2.2 hv.1 hv.2.1 hDt (by intro _ _ h; cases h) (by intro _ _ h; cases h)
          | update a r p n fm ht cm =>
            exact build_keeps hb hv.2.2.2 hv.1 hv.2.1 hDt (by intro _ _ h; cases h) (by intro _ _ h; cases h)
          | reserve n => exact build_keeps hb hv.2.2.2 hv.1 hv.2.1 hDt (by intro _ _ h; cases h) (by intro _ _ h; cases h)
          | dataRepl f p =>
            apply build_keeps hb hv.2.2.2 hv.1 hv.2.1 hDt ?_ (by intro _ _ h; cases h)
            intro f' p' heq
            cases heq
            simpa [safeTxn] using hS
        refine ⟨Chain.step ⟨m', rebase v.m t⟩ v rest hch (by rw [build_rebase]; exact hb), ?_⟩
        intro u hu
        simp only [List.mem_cons] at hu
        rcases hu with rfl | hu
        · exact ⟨key.1, key.2, declared_rebase v.m t hDt, (build_stable hb).trans hv.2.2.2⟩
        · exact hall u (by simpa using hu)

end LanceModel.C24
