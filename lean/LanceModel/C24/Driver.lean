import LanceModel.C24.ReqLemmas
import LanceModel.Util
/-
C24 driver: the op lines of harness/src/bin/c24.rs executed on the model (`stepReq` = the function the theorems are
about).  One output line per op line, identical to the harness's canonical form.
-/
namespace LanceModel.C24.Driver
open LanceModel.Table LanceModel.Util LanceModel.C24

structure St where
  store : Option Store
  /-- version (1-based) each handle is at -/
  handles : List Nat
  used : List Int

def init : St := ⟨none, [0, 0, 0], []⟩

def showIds (l : List Nat) : String := showNatList (sortNat l)

def chunkRows (f : Nat) : Nat → List Row → List (List Row)
  | 0, _ => []
  | fuel + 1, l => if l.isEmpty then [] else l.take f :: chunkRows f fuel (l.drop f)

def idxName (n : Nat) : String := if n = 1 then "ix" else if n = 2 then "iy" else "i" ++ toString n

def showIndex (i : Index) : String := idxName i.name ++ "/" ++ showIds i.fields ++ "/" ++ showIds i.bitmap

def insertStr (x : String) : List String → List String
  | [] => [x]
  | y :: t => if x ≤ y then x :: y :: t else y :: insertStr x t

def sortStr (l : List String) : List String := l.foldr insertStr []

def joinOr (sep : String) (l : List String) : String := if l.isEmpty then "-" else sep.intercalate l

def dedup : List Nat → List Nat
  | [] => []
  | x :: xs => if xs.contains x then dedup xs else x :: dedup xs

/-- `show_txn` of the harness; `mr` = the version the transaction was built from (names of removed indices), `mp` =
    the version it was committed on (the rebase adds the fragments it empties to the removed ids) -/
def showTxn (mr mp : Manifest) : Txn → String
  | .append news => "append:" ++ toString news.length
  | .delete aff removed =>
    "delete:u=" ++ showIds ((aff.map (·.1)).filter fun f => !removed.contains f) ++ ":r="
      ++ showIds (dedup (removed ++ gone mp aff))
  | .update aff removed patches news fm _ cm =>
    "update:r=" ++ showIds (dedup (removed ++ gone mp aff)) ++ ":u=" ++ showIds ((aff.map (·.1)).filter (fun f => !removed.contains f) ++ patches.map (·.1))
      ++ ":n=" ++ toString news.length ++ ":fm=" ++ showIds fm ++ ":m=" ++ (if cm.isNone then "cols" else "rows")
  | .createIndex new removed =>
    "createindex:new=" ++ joinOr "+" (sortStr (new.map showIndex)) ++ ":rm="
      ++ joinOr "+" (sortStr ((mr.indices.filter fun i => removed.contains i.uuid).map fun i => idxName i.name))
  | .dataRepl f p => "datarepl:" ++ toString f ++ "/" ++ showIds (patchFields p)
  | .reserve n => "reserve:" ++ toString n

def showFrag (f : Nat) (g : Frag) : String :=
  toString f ++ ":" ++ toString g.rows.length ++ ":" ++ showIds g.dels ++ ":" ++ (if g.split then "s" else "u")

def showFrags (m : Manifest) : String :=
  joinOr "," ((fragIds m).filterMap fun f => (m.frags f).map (showFrag f))

def showIdx (m : Manifest) : String := joinOr "+" (sortStr (m.indices.map showIndex))

def showState (version : Nat) (txn : String) (m : Manifest) : String :=
  "ok v=" ++ toString version ++ " txn=" ++ txn ++ " frags=" ++ showFrags m ++ " idx=" ++ showIdx m
    ++ " scan=" ++ showRows (scan m)

def distinctCells : List Cell → Bool
  | [] => true
  | c :: cs => !cs.contains c && distinctCells cs

/-- keys of new rows: non-NULL, distinct, never used in the case -/
def freshKeys (used : List Int) (rows : List Row) : Bool :=
  (rows.all fun r =>
    match keyOf r with
    | some k => !used.contains k
    | none => false) && distinctCells (rows.map keyOf)

def parseKeys (s : String) : Option (List Int) := (s.splitOn ",").mapM parseI64

def rowsW (s : String) (ws : List Nat) : Option (List Row) :=
  match parseRows s with
  | some (r :: rs) => if ws.contains r.length && rs.all (fun x => x.length == r.length) then some (r :: rs) else none
  | _ => none

def parseNat9 (s : String) : Option Nat :=
  if s.length > 9 then none else parseNatChars s.toList

inductive Act where
  | req (q : Req)
  | compact

def parseAct : List String → Option Act
  | ["append", rows] => (rowsW rows [3]).map fun r => .req (.append r)
  | ["delete", keys] => (parseKeys keys).map fun k => .req (.delete k)
  | ["updx", keys, v] => do
    let k ← parseKeys keys
    let v ← parseI64 v
    pure (.req (.update 1 k v))
  | ["updy", keys, v] => do
    let k ← parseKeys keys
    let v ← parseI64 v
    pure (.req (.update 2 k v))
  | ["mix", rows] => (rowsW rows [2]).map fun r => .req (.mix r)
  | ["index", "x"] => some (.req (.index 1 1))
  | ["index", "y"] => some (.req (.index 2 2))
  | ["optimize"] => some (.req .optimize)
  | ["repl", f, rows] => do
    let f ← parseNat9 f
    let r ← rowsW rows [2, 3]
    pure (.req (.repl f r))
  | ["compact"] => some .compact
  | _ => none

def setAt (l : List Nat) (i v : Nat) : List Nat := l.set i v

/-- does the builder commit anything?  (delete / update / merge_insert that match no row still publish a version;
    optimize_indices without an index does not) -/
def commits (mr : Manifest) : Req → Bool
  | .optimize => !mr.indices.isEmpty
  | _ => true

def reject (used : List Int) (mr : Manifest) : Req → Option String
  | .append rows => if freshKeys used rows then none else some "keys"
  | .mix src =>
    if (src.all fun r => (keyOf r).isSome) && distinctCells (src.map keyOf) then none else some "keys"
  | .repl f rows =>
    match mr.frags f with
    | none => some "no_frag"
    | some g =>
      if ((match rows with | r :: _ => r.length | [] => 0) == 2) != g.split then some "width"
      else if rows.length != g.rows.length then some "len"
      else if !freshKeys used rows then some "keys"
      else none
  | _ => none

def newKeys : Req → List Int
  | .append rows => rows.filterMap keyOf
  | .repl _ rows => rows.filterMap keyOf
  | _ => []

def doReq (st : St) (s : Store) (h : Nat) (q : Req) : St × String :=
  let latest := s.hist.length
  let hv := st.handles.getD h 0
  let lag := latest - hv
  match s.hist[lag]? with
  | none => (st, "err no_table")
  | some vr =>
    match reject st.used vr.m q with
    | some k => (st, "err " ++ k)
    | none =>
      let st := { st with used := newKeys q ++ st.used }
      if !commits vr.m q then
        match s.hist.head? with
        | some top => (st, showState latest "none" top.m)
        | none => (st, "err no_table")
      else
        let s' := stepReq s lag q
        if s'.hist.length = latest then
          -- refused: every conflict of this model is retryable, a missing fragment is invalid input
          match commit s.hist lag (reqTxn vr.m s.nextUuid q) with
          | .error .invalid => (st, "err invalid_input")
          | _ => (st, "err conflict_retryable")
        else
          match s'.hist.head?, s.hist.head? with
          | some top, some prev =>
            ({ st with store := some s', handles := setAt st.handles h s'.hist.length },
              showState s'.hist.length (showTxn vr.m prev.m (reqTxn vr.m s.nextUuid q)) top.m)
          | _, _ => (st, "err no_table")

def doCreate (st : St) (f sr rows : String) : St × String :=
  match (f.dropPrefix? "f=").bind (fun x => parseNat9 x.toString), rowsW rows [3],
      (if sr = "s=0" then some false else if sr = "s=1" then some true else none) with
  | some f, some rs, some stable =>
    if f = 0 then (st, "err parse")
    else if st.store.isSome then (st, "err no_table")
    else if !freshKeys [] rs then (st, "err keys")
    else
      let s := initStoreS stable (chunkRows f rs.length rs)
      match s.hist.head? with
      | some top =>
        (⟨some s, [1, 1, 1], rs.filterMap keyOf⟩, showState 1 "create" top.m)
      | none => (st, "err parse")
  | _, _, _ => (st, "err parse")

def step (st : St) (line : String) : St × String :=
  match splitTokens line with
  | ["create", f, rows] => doCreate st f "s=0" rows
  | ["create", f, sr, rows] => doCreate st f sr rows
  | ["open", h] =>
    match parseNat9 h with
    | some h =>
      if h ≥ 3 then (st, "err parse")
      else
        match st.store with
        | none => (st, "err no_table")
        | some s => ({ st with handles := setAt st.handles h s.hist.length }, "ok v=" ++ toString s.hist.length)
    | none => (st, "err parse")
  | h :: rest =>
    match parseNat9 h, parseAct rest with
    | some h, some act =>
      if h ≥ 3 then (st, "err parse")
      else
        match st.store with
        | none => (st, "err no_table")
        | some s =>
          match act with
          | .req q => doReq st s h q
          | .compact => (st, "err unsupported")
    | _, _ => (st, "err parse")
  | _ => (st, "err parse")

end LanceModel.C24.Driver
