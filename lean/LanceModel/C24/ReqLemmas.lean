import LanceModel.C24.CommitLemmas
/-
C24 helper lemmas, part 3: the builders (create_index, optimize_indices, update, merge_insert, …) produce
transactions that are `Built` from the handle's version; histories of requests; the decidable faithfulness test.
-/
namespace LanceModel.C24
open LanceModel.Table

/-- a request of the public API, as the harness issues it through a (possibly stale) handle -/
inductive Req where
  | append (rows : List Row)
  | delete (keys : List Int)
  | update (col : Nat) (keys : List Int) (v : Int)
  | mix (src : List Row)
  | index (name fld : Nat)
  | optimize
  | repl (f : Nat) (rows : List Row)
  deriving Repr

/-- the transaction the lance builder makes of a request, from the handle's version `mr` -/
def reqTxn (mr : Manifest) (uuid : Nat) : Req → Txn
  | .append rows => .append [rows]
  | .delete keys => bDelete mr keys
  | .update col keys v => bUpdate mr col keys v
  | .mix src => bMix mr src
  | .index name fld => bIndex mr uuid name fld
  | .optimize => bOptimize mr uuid
  | .repl f rows => bRepl f rows

/-- DEFECT REGION (c): an index whose files still hold entries of a live fragment it no longer claims (pruned by a
    column rewrite); optimize_indices merges ALL old entries with the re-scanned fragment and claims it again -/
def noStale (m : Manifest) : Bool :=
  m.indices.all fun j => j.ents.all fun e => j.bitmap.contains e.frag || (m.frags e.frag).isNone

def safeReq (hist : List Ver) (lag : Nat) (mr : Manifest) (uuid : Nat) (q : Req) : Bool :=
  safeTxn hist lag (reqTxn mr uuid q) &&
    match q with
    | .optimize => noStale mr
    | _ => true

theorem mem_fragIds {m : Manifest} {f : Nat} : f ∈ fragIds m ↔ f < m.nextFrag ∧ (m.frags f).isSome = true := by
  simp [fragIds]

theorem mem_scanEnts (m : Manifest) (F : List Nat) (ids : List Nat) (e : Ent) :
    e ∈ scanEnts m F ids ↔ e.frag ∈ ids ∧ ∃ g, m.frags e.frag = some g ∧ Holds F e.frag g e := by
  simp only [scanEnts, List.mem_flatMap, fragEnts]
  constructor
  · rintro ⟨f, hf, he⟩
    cases hm : m.frags f with
    | none => simp [hm] at he
    | some g =>
      simp only [hm] at he
      have hh := (mem_entsOf F f g e).mp he
      have : e.frag = f := hh.1
      subst this
      exact ⟨hf, g, hm, hh⟩
  · rintro ⟨hf, g, hm, hh⟩
    refine ⟨e.frag, hf, ?_⟩
    simp only [hm]
    exact (mem_entsOf F e.frag g e).mpr hh

theorem built_bIndex (m : Manifest) (uuid name fld : Nat) : Built m (bIndex m uuid name fld) := by
  intro i hi f hf
  simp only [List.mem_singleton] at hi
  subst hi
  simp only at hf
  refine ⟨(mem_fragIds.mp hf).1, ?_⟩
  intro g hg e
  simp only [mem_scanEnts]
  constructor
  · rintro ⟨⟨_, g', hg', hh⟩, hef⟩
    rw [hef] at hg' hh
    rw [hg] at hg'; cases hg'
    exact hh
  · intro hh
    have hef : e.frag = f := hh.1
    refine ⟨⟨by rw [hef]; exact hf, g, by rw [hef]; exact hg, by rw [hef]; exact hh⟩, hef⟩

theorem mem_mergeAll {m : Manifest} {u : Nat} {js : List Index} {i : Index} (h : i ∈ mergeAll m u js) :
    ∃ u' j, j ∈ js ∧ i = mergeIndex m u' j := by
  induction js generalizing u with
  | nil => simp [mergeAll] at h
  | cons j js ih =>
    simp only [mergeAll, List.mem_cons] at h
    rcases h with rfl | h
    · exact ⟨u, j, List.mem_cons_self, rfl⟩
    · obtain ⟨u', j', hj', rfl⟩ := ih h
      exact ⟨u', j', List.mem_cons_of_mem _ hj', rfl⟩

theorem built_bOptimize (m : Manifest) (uuid : Nat) (hF : Faithful m) (hB : Bounded m) (hS : noStale m = true) :
    Built m (bOptimize m uuid) := by
  intro i hi f hf
  obtain ⟨u', j, hj, rfl⟩ := mem_mergeAll hi
  simp only [mergeIndex, List.mem_append, List.mem_filter] at hf
  have hlt : f < m.nextFrag := by
    rcases hf with ⟨hf, _⟩ | hf
    · exact (mem_fragIds.mp hf).1
    · exact hB.2 j hj f hf
  refine ⟨hlt, ?_⟩
  intro g hg e
  simp only [mergeIndex, List.mem_append, mem_scanEnts, List.mem_filter]
  by_cases hfj : f ∈ j.bitmap
  · -- claimed by the old index: its entries are right (invariant), the re-scanned fragments are other fragments
    rw [← hF j hj f hfj g hg e]
    constructor
    · rintro ⟨h | ⟨⟨_, hnb⟩, _⟩, hef⟩
      · exact ⟨h, hef⟩
      · rw [hef] at hnb; simp [hfj] at hnb
    · rintro ⟨h, hef⟩; exact ⟨Or.inl h, hef⟩
  · -- re-scanned: the old index must hold nothing for it
    constructor
    · rintro ⟨h | ⟨_, g', hg', hh⟩, hef⟩
      · exfalso
        simp only [noStale, List.all_eq_true, Bool.or_eq_true] at hS
        rcases hS j hj e h with hc | hn
        · rw [hef] at hc; exact hfj (by simpa using hc)
        · rw [hef, hg] at hn; simp at hn
      · rw [hef] at hg' hh; rw [hg] at hg'; cases hg'; exact hh
    · intro hh
      have hef : e.frag = f := hh.1
      have hfi : f ∈ fragIds m := mem_fragIds.mpr ⟨hlt, by simp [hg]⟩
      refine ⟨Or.inr ⟨⟨by rw [hef]; exact hfi, by rw [hef]; simpa using hfj⟩, g, by rw [hef]; exact hg,
        by rw [hef]; exact hh⟩, hef⟩

theorem declared_bMix (m : Manifest) (src : List Row) : Declared (bMix m src) := by
  intro fp hfp c hc
  have hne : (mixPatches m src).isEmpty = false := by
    cases hmp : mixPatches m src with
    | nil => rw [hmp] at hfp; cases hfp
    | cons a t => rfl
  simp only [hne]
  simp only [mixPatches, List.mem_filterMap] at hfp
  obtain ⟨fa, _, h⟩ := hfp
  cases hm : m.frags fa.1 with
  | none => simp [hm] at h
  | some g =>
    simp only [hm, Option.some.injEq] at h
    subst h
    simp [patchFields] at hc
    rcases hc with rfl | rfl <;> simp

theorem built_req (m : Manifest) (uuid : Nat) (q : Req) (hF : Faithful m) (hB : Bounded m)
    (hS : q = .optimize → noStale m = true) : Built m (reqTxn m uuid q) := by
  cases q with
  | append rows => trivial
  | delete keys => trivial
  | update col keys v =>
    simp only [reqTxn, bUpdate, Built, Declared]
    intro fp hfp; cases hfp
  | mix src => exact declared_bMix m src
  | index name fld => exact built_bIndex m uuid name fld
  | optimize => exact built_bOptimize m uuid hF hB (hS rfl)
  | repl f rows => trivial

/-! ### histories of requests -/

structure Store where
  hist : List Ver
  nextUuid : Nat

/-- one API call through a handle that is `lag` versions behind; a refused commit changes nothing -/
def stepReq (s : Store) (lag : Nat) (q : Req) : Store :=
  if h : lag < s.hist.length then
    match commit s.hist lag (reqTxn (s.hist[lag]).m s.nextUuid q) with
    | .ok hist' => ⟨hist', s.nextUuid + 4⟩
    | .error _ => s
  else s

def runReqs (s : Store) : List (Nat × Req) → Store
  | [] => s
  | (lag, q) :: rest => runReqs (stepReq s lag q) rest

/-- every step of the run is outside the defective regions (evaluated along the run; decidable) -/
def safeRun (s : Store) : List (Nat × Req) → Bool
  | [] => true
  | (lag, q) :: rest =>
    (if h : lag < s.hist.length then safeReq s.hist lag (s.hist[lag]).m s.nextUuid q else true)
      && safeRun (stepReq s lag q) rest

theorem stepReq_inv (s : Store) (lag : Nat) (q : Req) (hI : Inv s.hist)
    (hS : ∀ h : lag < s.hist.length, safeReq s.hist lag (s.hist[lag]).m s.nextUuid q = true) :
    Inv (stepReq s lag q).hist := by
  unfold stepReq
  split
  · rename_i hlag
    have hs := hS hlag
    simp only [safeReq, Bool.and_eq_true] at hs
    cases hc : commit s.hist lag (reqTxn (s.hist[lag]).m s.nextUuid q) with
    | error e => exact hI
    | ok hist' =>
      simp only
      have hv := hI.2 (s.hist[lag]) (List.getElem_mem hlag)
      refine commit_inv s.hist hist' lag _ hI hlag ?_ hs.1 hc
      apply built_req _ _ _ hv.1 hv.2.1
      intro hq; subst hq; simpa using hs.2
  · exact hI

theorem runReqs_inv (s : Store) (steps : List (Nat × Req)) (hI : Inv s.hist) (hS : safeRun s steps = true) :
    Inv (runReqs s steps).hist := by
  induction steps generalizing s with
  | nil => exact hI
  | cons st rest ih =>
    obtain ⟨lag, q⟩ := st
    simp only [safeRun, Bool.and_eq_true] at hS
    simp only [runReqs]
    apply ih _ _ hS.2
    apply stepReq_inv s lag q hI
    intro hlag
    simpa [hlag] using hS.1

/-- the store after `create`: one version, no index; `stable` = enable_stable_row_ids -/
def initStoreS (stable : Bool) (news : List (List Row)) : Store :=
  ⟨[⟨{ frags := addNews (fun _ => none) 0 news, nextFrag := news.length, indices := [], stable := stable },
      .append news⟩], 1⟩

/-- a table without stable row ids (what the theorems are about) -/
def initStore (news : List (List Row)) : Store := initStoreS false news

theorem init_inv (news : List (List Row)) : Inv (initStore news).hist := by
  refine ⟨Chain.base _, ?_⟩
  intro v hv
  simp only [initStore, initStoreS, List.mem_singleton] at hv
  subst hv
  refine ⟨?_, ⟨?_, ?_⟩, trivial, rfl⟩
  · intro i hi; cases hi
  · intro f hf
    have hf' : 0 + news.length ≤ f := by
      have : news.length ≤ f := hf
      omega
    exact addNews_none (fun _ => none) 0 news f hf' rfl
  · intro i hi; cases hi

/-! ### a decidable test that is implied by faithfulness (used for the counterexamples) -/

def coversB (m : Manifest) (i : Index) (f : Nat) : Bool :=
  match m.frags f with
  | none => true
  | some g =>
    (i.ents.all fun e => e.frag != f || decide ((cols i.fields g)[e.off]? = some e.val))
      && (entsOf i.fields f g).all fun e => i.ents.contains e

def faithfulB (m : Manifest) : Bool := m.indices.all fun i => i.bitmap.all fun f => coversB m i f

theorem faithfulB_of_faithful (m : Manifest) (h : Faithful m) : faithfulB m = true := by
  simp only [faithfulB, List.all_eq_true]
  intro i hi f hf
  have hc := h i hi f hf
  unfold coversB
  cases hg : m.frags f with
  | none => rfl
  | some g =>
    simp only [Bool.and_eq_true, List.all_eq_true, Bool.or_eq_true, bne_iff_ne, ne_eq, decide_eq_true_eq]
    constructor
    · intro e he
      by_cases hef : e.frag = f
      · right; exact ((hc g hg e).mp ⟨he, hef⟩).2
      · left; exact hef
    · intro e he
      have := (hc g hg e).mpr ((mem_entsOf _ _ _ _).mp he)
      simpa using this.1

end LanceModel.C24
