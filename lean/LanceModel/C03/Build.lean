import LanceModel.C03.Model
/-
C03 — the transaction BUILDERS (import-free): what the writers of lance put into a transaction when they run against a
handle at manifest `m` (the read version).  They are the counterpart of

  InsertBuilder::execute_uncommitted (Append / Overwrite)           mkAppend, mkOverwrite
  DeleteJob::execute_impl + apply_deletions                          mkDelete
  UpdateJob::execute_impl (UpdateMode::RewriteRows)                  mkUpdate
  plan_compaction + rewrite_files + commit_compaction                planGroups, mkRewrite   (default options, target
                                                                     2^20 rows, materialize_deletions with threshold 0)
  DatasetIndexExt::create_index(BTree on c1, replace = true)         mkIndex   (removed_indices is empty: the index
                                                                     of the same name is dropped by build_manifest)
  add_columns(SqlExpressions [d<k> = c0 + k])                        mkAddCol
  drop_columns                                                       mkDropCol

The writers themselves are the subject of C11 / C12 / C13 / C14; here they only have to produce transactions of the shape
the real ones have, so that the correspondence run exercises the commit path with realistic inputs.  Column names are
coded as naturals: `c<i>` = i (i < 10), `d<k>` = 10 + k.
-/
namespace LanceModel.C03

def schemaIds (s : List Fld) : List Nat := s.map (·.id)

/-- value a writer stores in column `name` for a new row with key `k` and x-value `x` -/
def newCell (name : Nat) (k : Int) (x : Cell) : Cell :=
  if name == 0 then some k else if name == 1 then x else some (100 * k + (name : Int))

def newRow (s : List Fld) (kx : Int × Cell) : PRow := s.map (fun f => (f.id, newCell f.name kx.1 kx.2))

/-- one data file with every column of the schema -/
def newFrag (s : List Fld) (rows : List (Int × Cell)) : NewFrag :=
  { files := [schemaIds s], phys := rows.map (newRow s) }

def mkAppend (m : Manifest) (rows : List (Int × Cell)) : Txn :=
  { read := m.version, op := .append [newFrag m.schema rows], affected := none }

def baseSchema : List Fld := [⟨0, 0⟩, ⟨1, 1⟩, ⟨2, 2⟩]

/-- `max_rows_per_file = f` -/
def chunkRows {α : Type} (f : Nat) : Nat → List α → List (List α)
  | 0, _ => []
  | fuel + 1, l => if l.isEmpty then [] else l.take f :: chunkRows f fuel (l.drop f)

def mkOverwrite (m : Manifest) (f : Nat) (rows : List (Int × Cell)) : Txn :=
  { read := m.version, op := .overwrite baseSchema ((chunkRows f rows.length rows).map (newFrag baseSchema)),
    affected := none }

/-- addresses of the live rows that satisfy the predicate, in scan order -/
def matching (m : Manifest) (p : PRow → Bool) : List Addr := ((rowsOf m.frags).filter (fun x => p x.2)).map (·.1)

/-- `Fragment::extend_deletions`: `none` = every physical row is deleted now -/
def extendDeletions (f : Frag) (offs : List Nat) : Option Frag :=
  if covers (unionNat f.del offs) f.phys.length then none else some { f with del := unionNat f.del offs }

/-- apply_deletions: (updated fragments, removed fragment ids) -/
def applyDeletions (m : Manifest) (A : List Addr) : List Frag × List Nat :=
  ((m.frags.filter (fun f => !(offsetsIn A f.id).isEmpty)).filterMap (fun f => extendDeletions f (offsetsIn A f.id)),
   ((m.frags.filter (fun f => !(offsetsIn A f.id).isEmpty)).filter
      (fun f => (extendDeletions f (offsetsIn A f.id)).isNone)).map (·.id))

def mkDelete (m : Manifest) (p : PRow → Bool) : Txn :=
  { read := m.version, op := .delete (applyDeletions m (matching m p)).1 (applyDeletions m (matching m p)).2,
    affected := some (matching m p) }

/-- the updated image of a row: every column of the schema materialised, c1 := v -/
def updatedRow (s : List Fld) (v : Int) (r : PRow) : PRow :=
  s.map (fun f => (f.id, if f.name == 1 then some v else cellOf r f.id))

def mkUpdate (m : Manifest) (p : PRow → Bool) (v : Int) : Txn :=
  { read := m.version,
    op := .update (applyDeletions m (matching m p)).2 (applyDeletions m (matching m p)).1
      (if (matching m p).isEmpty then []
       else [{ files := [schemaIds m.schema],
               phys := ((rowsOf m.frags).filter (fun x => p x.2)).map (fun x => updatedRow m.schema v x.2) }]),
    affected := some (matching m p) }

def mkIndex (m : Manifest) (uuid : Nat) : Txn :=
  { read := m.version,
    op := .createIndex [{ name := 0, uuid := uuid, fields := [1], bitmap := m.frags.map (·.id) }] [],
    affected := none }

/-- `Manifest::max_field_id`: schema and data files -/
def maxFieldId (m : Manifest) : Nat :=
  (schemaIds m.schema ++ m.frags.flatMap (fun f => f.files.flatten)).foldl max 0

def hasName (m : Manifest) (name : Nat) : Bool := m.schema.any (fun f => f.name == name)

/-- add_columns(SqlExpressions [("d<k>", "c0 + <k>")]): one new data file per fragment -/
def mkAddCol (m : Manifest) (k : Nat) : Txn :=
  { read := m.version,
    op := .merge (m.schema ++ [⟨maxFieldId m + 1, 10 + k⟩])
      (m.frags.map (fun f => { f with files := f.files ++ [[maxFieldId m + 1]],
                                      phys := f.phys.map (fun r => (maxFieldId m + 1, (cellOf r 0).map (· + (k : Int))) :: r) })),
    affected := none }

def mkDropCol (m : Manifest) (name : Nat) : Txn :=
  { read := m.version, op := .project (m.schema.filter (fun f => f.name != name)), affected := none }

/-! ### compaction -/

def indicesContaining (ixs : List Index) (id : Nat) : List Nat :=
  ixs.zipIdx.filterMap (fun p => if p.1.bitmap.contains id then some p.2 else none)

/-- plan_compaction with every fragment a candidate (all smaller than the target): bins of consecutive fragments
    with the same index set -/
def binsFrom (ixs : List Index) : Option (List Frag × List Nat) → List Frag → List (List Frag)
  | none, [] => []
  | some b, [] => [b.1]
  | none, f :: fs => binsFrom ixs (some ([f], indicesContaining ixs f.id)) fs
  | some b, f :: fs =>
    if b.2 = indicesContaining ixs f.id then binsFrom ixs (some (b.1 ++ [f], b.2)) fs
    else b.1 :: binsFrom ixs (some ([f], indicesContaining ixs f.id)) fs

/-- `CandidateBin::is_noop`: a lone fragment without deletions -/
def isNoop (b : List Frag) : Bool :=
  match b with
  | [] => true
  | [f] => f.del.isEmpty
  | _ => false

def planGroups (m : Manifest) : List (List Frag) := (binsFrom m.indices none m.frags).filter (fun b => !isNoop b)

/-- rewrite_files: the live rows of the old fragments in scan order, every column of the schema materialised -/
def compactedFrag (s : List Fld) (id : Nat) (olds : List Frag) : Frag :=
  { id := id, files := [schemaIds s], del := [],
    phys := (rowsOf olds).map (fun x => s.map (fun f => (f.id, cellOf x.2 f.id))) }

/-- commit_compaction: `ids` = the reserved fragment id of each task, `uuids` = new uuid for each remapped index -/
def mkRewrite (m : Manifest) (ids : List Nat) (firstUuid : Nat) : Txn :=
  { read := m.version,
    op := .rewrite
      ((planGroups m).zip ids |>.map (fun p => { olds := p.1, news := [compactedFrag m.schema p.2 p.1] }))
      (((m.indices.filter (fun i => i.bitmap.any (fun b => ((planGroups m).flatMap (fun g => g.map (·.id))).contains b))).zipIdx).map
        (fun p => (p.1.uuid, firstUuid + p.2))),
    affected := none }

end LanceModel.C03
