import LanceModel.C03.Spec
/-
C03 — list lemmas: membership characterisations of the model's helper functions.
-/
namespace LanceModel.C03

theorem mem_live (f : Frag) (o : Nat) (r : PRow) :
    (o, r) ∈ f.live ↔ f.phys[o]? = some r ∧ o ∉ f.del := by
  simp only [Frag.live, List.mem_map, List.mem_filter, Prod.mk.injEq]
  constructor
  · rintro ⟨⟨r', o'⟩, ⟨hm, hd⟩, rfl, rfl⟩
    rw [List.mem_zipIdx_iff_getElem?] at hm
    simp_all
  · rintro ⟨h1, h2⟩
    refine ⟨(r, o), ⟨?_, ?_⟩, rfl, rfl⟩
    · rw [List.mem_zipIdx_iff_getElem?]; simpa using h1
    · simpa using h2

theorem mem_rowsOf (fs : List Frag) (x : Addr × PRow) :
    x ∈ rowsOf fs ↔ ∃ f ∈ fs, x.1.1 = f.id ∧ f.phys[x.1.2]? = some x.2 ∧ x.1.2 ∉ f.del := by
  obtain ⟨⟨i, o⟩, r⟩ := x
  simp only [rowsOf, List.mem_flatMap, List.mem_map, Prod.mk.injEq]
  constructor
  · rintro ⟨f, hf, ⟨o', r'⟩, hl, ⟨rfl, rfl⟩, rfl⟩
    exact ⟨f, hf, rfl, (mem_live f _ _).1 hl⟩
  · rintro ⟨f, hf, h1, h2⟩
    exact ⟨f, hf, (o, r), (mem_live f o r).2 h2, ⟨h1.symm, rfl⟩, rfl⟩

theorem mem_insertFrag (x y : Frag) (l : List Frag) : y ∈ insertFrag x l ↔ y = x ∨ y ∈ l := by
  induction l with
  | nil => simp [insertFrag]
  | cons a t ih =>
    simp only [insertFrag]
    split <;> simp [ih] <;> grind

theorem mem_sortFrags (y : Frag) (l : List Frag) : y ∈ sortFrags l ↔ y ∈ l := by
  induction l with
  | nil => simp [sortFrags]
  | cons a t ih =>
    have : sortFrags (a :: t) = insertFrag a (sortFrags t) := rfl
    rw [this, mem_insertFrag, ih]; simp

theorem mem_unionNat (a b : List Nat) (x : Nat) : x ∈ unionNat a b ↔ x ∈ a ∨ x ∈ b := by
  simp only [unionNat, List.mem_append, List.mem_filter]
  by_cases h : x ∈ a <;> simp [h]

theorem mem_offsetsIn (A : List Addr) (f o : Nat) : o ∈ offsetsIn A f ↔ (f, o) ∈ A := by
  simp only [offsetsIn, List.mem_map, List.mem_filter]
  constructor
  · rintro ⟨⟨a1, a2⟩, ⟨h1, h2⟩, rfl⟩
    simp at h2; subst h2; exact h1
  · intro h; exact ⟨(f, o), ⟨h, by simp⟩, rfl⟩

theorem covers_iff (d : List Nat) (n : Nat) : covers d n = true ↔ ∀ o, o < n → o ∈ d := by
  simp [covers]

theorem replaceLast_id (upd : List Frag) (f : Frag) : (replaceLast upd f).id = f.id := by
  unfold replaceLast
  suffices h : ∀ (acc : Frag), acc.id = f.id →
      (upd.foldl (fun acc u => if (u.id == f.id) = true then u else acc) acc).id = f.id from h f rfl
  induction upd with
  | nil => intro acc h; simpa using h
  | cons u t ih =>
    intro acc h
    simp only [List.foldl_cons]
    apply ih
    split
    · rename_i hu; simpa using hu
    · exact h

theorem replaceLast_spec (upd : List Frag) (f : Frag) :
    (replaceLast upd f = f ∧ ∀ u ∈ upd, u.id ≠ f.id) ∨ (∃ u ∈ upd, u.id = f.id ∧ replaceLast upd f = u) := by
  unfold replaceLast
  suffices h : ∀ (acc : Frag),
      ((upd.foldl (fun acc u => if (u.id == f.id) = true then u else acc) acc) = acc ∧ ∀ u ∈ upd, u.id ≠ f.id) ∨
      (∃ u ∈ upd, u.id = f.id ∧ (upd.foldl (fun acc u => if (u.id == f.id) = true then u else acc) acc) = u) from h f
  induction upd with
  | nil => intro acc; simp
  | cons u t ih =>
    intro acc
    simp only [List.foldl_cons]
    by_cases hu : u.id = f.id
    · simp only [hu, beq_self_eq_true, if_true]
      rcases ih u with ⟨h1, h2⟩ | ⟨w, hw, h1, h2⟩
      · right; exact ⟨u, by simp, hu, h1⟩
      · right; exact ⟨w, by simp [hw], h1, h2⟩
    · have : (u.id == f.id) = false := by simpa using hu
      simp only [this]
      rcases ih acc with ⟨h1, h2⟩ | ⟨w, hw, h1, h2⟩
      · left; refine ⟨by simpa using h1, ?_⟩
        intro w hw; simp at hw; rcases hw with rfl | hw
        · exact hu
        · exact h2 w hw
      · right; exact ⟨w, by simp [hw], h1, by simpa using h2⟩

theorem replaceFirst_spec (upd : List Frag) (f : Frag) :
    (replaceFirst upd f = f ∧ ∀ u ∈ upd, u.id ≠ f.id) ∨ (∃ u ∈ upd, u.id = f.id ∧ replaceFirst upd f = u) := by
  unfold replaceFirst
  split
  · rename_i u hu
    right
    have h1 := List.find?_some hu
    have h2 := List.mem_of_find?_eq_some hu
    exact ⟨u, h2, by simpa using h1, rfl⟩
  · rename_i hn
    left
    refine ⟨rfl, ?_⟩
    intro u hu
    have := List.find?_eq_none.1 hn u hu
    simpa using this

theorem replaceFirst_id (upd : List Frag) (f : Frag) : (replaceFirst upd f).id = f.id := by
  rcases replaceFirst_spec upd f with ⟨h, _⟩ | ⟨u, _, h1, h2⟩
  · rw [h]
  · rw [h2, h1]

theorem mem_assignIds (start : Nat) (frs : List NewFrag) (g : Frag) :
    g ∈ assignIds start frs ↔ ∃ i nf, frs[i]? = some nf ∧ g = { id := start + i, files := nf.files, phys := nf.phys, del := [] } := by
  simp only [assignIds, List.mem_map]
  constructor
  · rintro ⟨⟨nf, i⟩, hm, rfl⟩
    rw [List.mem_zipIdx_iff_getElem?] at hm
    exact ⟨i, nf, by simpa using hm, rfl⟩
  · rintro ⟨i, nf, h, rfl⟩
    exact ⟨(nf, i), by rw [List.mem_zipIdx_iff_getElem?]; simpa using h, rfl⟩

theorem assignIds_ge (start : Nat) (frs : List NewFrag) (g : Frag) (h : g ∈ assignIds start frs) :
    start ≤ g.id ∧ g.id < start + frs.length := by
  obtain ⟨i, nf, hi, rfl⟩ := (mem_assignIds _ _ _).1 h
  have := (List.getElem?_eq_some_iff.1 hi).1
  simp; omega

theorem assignIds_inj (start : Nat) (frs : List NewFrag) (g1 g2 : Frag) (h1 : g1 ∈ assignIds start frs)
    (h2 : g2 ∈ assignIds start frs) (h : g1.id = g2.id) : g1 = g2 := by
  obtain ⟨i, nf, hi, rfl⟩ := (mem_assignIds _ _ _).1 h1
  obtain ⟨j, nf', hj, rfl⟩ := (mem_assignIds _ _ _).1 h2
  simp at h
  subst h
  rw [hi] at hj; cases hj; rfl

theorem fragAt_some {fs : List Frag} {id : Nat} {f : Frag} (h : fragAt fs id = some f) : f ∈ fs ∧ f.id = id := by
  unfold fragAt at h
  exact ⟨List.mem_of_find?_eq_some h, by simpa using List.find?_some h⟩

theorem fragAt_of_mem {fs : List Frag} {f : Frag} (hf : f ∈ fs)
    (hinj : ∀ a ∈ fs, ∀ b ∈ fs, a.id = b.id → a = b) : fragAt fs f.id = some f := by
  unfold fragAt
  cases h : fs.find? (fun g => g.id == f.id) with
  | none => have := List.find?_eq_none.1 h f hf; simp at this
  | some g =>
    have h1 := List.find?_some h
    have h2 := List.mem_of_find?_eq_some h
    rw [hinj g h2 f hf (by simpa using h1)]

theorem ids_assign_aux (s : Nat) (frs : List NewFrag) (k : Nat) :
    (frs.zipIdx k).map (fun p => s + p.2) = List.range' (s + k) frs.length := by
  induction frs generalizing k with
  | nil => simp
  | cons a t ih =>
    simp only [List.zipIdx_cons, List.map_cons, List.length_cons, List.range'_succ]
    rw [ih (k + 1)]
    congr 1

theorem ids_assignIds (s : Nat) (frs : List NewFrag) :
    (assignIds s frs).map (·.id) = List.range' s frs.length := by
  have h := ids_assign_aux s frs 0
  simp only [Nat.add_zero] at h
  rw [← h]
  simp only [assignIds, List.map_map]
  rfl

theorem insertFrag_perm (x : Frag) (l : List Frag) : (insertFrag x l).Perm (x :: l) := by
  induction l with
  | nil => simp [insertFrag]
  | cons a t ih =>
    simp only [insertFrag]
    split
    · exact List.Perm.refl _
    · exact (List.Perm.cons a ih).trans (List.Perm.swap x a t)

theorem sortFrags_perm (l : List Frag) : (sortFrags l).Perm l := by
  induction l with
  | nil => simp [sortFrags]
  | cons a t ih =>
    have : sortFrags (a :: t) = insertFrag a (sortFrags t) := rfl
    rw [this]
    exact (insertFrag_perm a _).trans (List.Perm.cons a ih)

theorem nodup_sortFrags {l : List Frag} (h : (l.map (·.id)).Nodup) : ((sortFrags l).map (·.id)).Nodup :=
  ((sortFrags_perm l).map (·.id)).nodup_iff.2 h

end LanceModel.C03
