import LanceModel.C03.FrameDUStep
/-
C03 — Lemma B for Delete / Update: under the frame, rebase-then-build removes exactly the rows at the affected
addresses (computed at the read version) from the latest version.
-/
namespace LanceModel.C03

/-- what the final (rebased) updated fragments `U` and removed ids `R` do to each fragment of the current version -/
structure Final (cur : Manifest) (A : List Addr) (U : List Frag) (R : List Nat) : Prop where
  removed : ∀ g ∈ cur.frags, g.id ∈ R → ∀ o r, g.phys[o]? = some r → o ∉ g.del → (g.id, o) ∈ A
  untouched : ∀ g ∈ cur.frags, g.id ∉ R → (∀ u ∈ U, u.id ≠ g.id) → ∀ o, (g.id, o) ∉ A
  updated : ∀ g ∈ cur.frags, g.id ∉ R → ∀ u ∈ U, u.id = g.id →
    u.phys = g.phys ∧ ∀ o, o ∈ u.del ↔ (o ∈ g.del ∨ (g.id, o) ∈ A)

theorem rows_final {cur : Manifest} {A : List Addr} {U : List Frag} {R : List Nat} (hf : Final cur A U R)
    (repl : Frag → Frag)
    (hrepl : ∀ g, (repl g = g ∧ ∀ u ∈ U, u.id ≠ g.id) ∨ ∃ u ∈ U, u.id = g.id ∧ repl g = u)
    (x : Addr × PRow) :
    x ∈ rowsOf ((cur.frags.filter (fun f => !R.contains f.id)).map repl) ↔ (x ∈ rowsOf cur.frags ∧ x.1 ∉ A) := by
  obtain ⟨⟨i, o⟩, r⟩ := x
  simp only [mem_rowsOf, List.mem_map, List.mem_filter]
  constructor
  · rintro ⟨g', ⟨g, ⟨hg, hR⟩, rfl⟩, h1, h2, h3⟩
    have hR' : g.id ∉ R := by simpa using hR
    rcases hrepl g with ⟨he, hno⟩ | ⟨u, hu, hid, he⟩
    · rw [he] at h1 h2 h3
      subst h1
      exact ⟨⟨g, hg, rfl, h2, h3⟩, hf.untouched g hg hR' hno o⟩
    · rw [he] at h1 h2 h3
      obtain ⟨hp, hd⟩ := hf.updated g hg hR' u hu hid
      subst h1
      rw [hp] at h2
      have hnd := fun hh => h3 ((hd o).2 hh)
      refine ⟨⟨g, hg, hid, h2, fun hh => hnd (Or.inl hh)⟩, ?_⟩
      rw [hid]; exact fun hh => hnd (Or.inr hh)
  · rintro ⟨⟨g, hg, h1, h2, h3⟩, hA⟩
    subst h1
    have hR' : g.id ∉ R := fun hh => hA (hf.removed g hg hh o r h2 h3)
    refine ⟨repl g, ⟨g, ⟨hg, by simpa using hR'⟩, rfl⟩, ?_⟩
    rcases hrepl g with ⟨he, _⟩ | ⟨u, hu, hid, he⟩
    · rw [he]; exact ⟨rfl, h2, h3⟩
    · rw [he]
      obtain ⟨hp, hd⟩ := hf.updated g hg hR' u hu hid
      refine ⟨hid.symm, by rw [hp]; exact h2, ?_⟩
      intro hh
      rcases (hd o).1 hh with h | h
      · exact h3 h
      · exact hA h

/-- the frame, read for one fragment of the read version by its counterpart in the current version -/
theorem frame_get {mRead cur : Manifest} {rb : Rebase} (hw : WfM cur) (hF : FrameDU mRead rb cur)
    {f g : Frag} (hf : f ∈ mRead.frags) (hm : f.id ∈ rb.modified) (hg : g ∈ cur.frags) (hid : f.id = g.id) :
    g.phys = f.phys ∧ (∀ o ∈ f.del, o ∈ g.del) ∧ (¬ flagged rb f.id → g.del = f.del) := by
  obtain ⟨g2, hg2, h1, h2, h3, h4⟩ := hF f hf hm
  have : g2 = g := hw.inj g2 hg2 g hg (h1.trans hid)
  subst this
  exact ⟨h2, h3, h4⟩

theorem lt_of_getElem? {α : Type} {l : List α} {i : Nat} {a : α} (h : l[i]? = some a) : i < l.length :=
  (List.getElem?_eq_some_iff.1 h).1

/-- no fragment is flagged: the transaction is applied as it was built -/
theorem final_noflag {mRead cur : Manifest} {rb : Rebase} {A : List Addr} {upd : List Frag} {rem : List Nat}
    (hw : WfM cur) (hB : BuiltDel mRead A upd rem) (hmod : rb.modified = upd.map (·.id) ++ rem)
    (hF : FrameDU mRead rb cur) (hnf : ∀ id, ¬ flagged rb id) : Final cur A upd rem := by
  refine ⟨?_, ?_, ?_⟩
  · intro g hg hR o r h2 h3
    obtain ⟨f, hf, hid, hall⟩ := hB.hrem g.id hR
    obtain ⟨hp, _, hd⟩ := frame_get hw hF hf (by rw [hmod, hid]; simp [hR]) hg hid
    have hlen : o < f.phys.length := by rw [← hp]; exact lt_of_getElem? h2
    rcases hall o hlen with h | h
    · exact absurd (by rw [hd (hnf _)]; exact h) h3
    · exact h
  · intro g hg hR hno o hA
    rcases hB.hcover (g.id, o) hA with ⟨u, hu, hid⟩ | h
    · exact hno u hu hid
    · exact hR h
  · intro g hg hR u hu hid
    obtain ⟨f, hf, hfid, hp, _, hd⟩ := hB.hupd u hu
    obtain ⟨hp', _, hd'⟩ := frame_get hw hF hf (by rw [hmod, hfid]; simp; left; exact ⟨u, hu, rfl⟩) hg (hfid.trans hid)
    refine ⟨by rw [hp, hp'], ?_⟩
    intro o
    rw [hd o, hd' (hnf _), hid]

theorem existingDel_eq {cur : Manifest} (hw : WfM cur) {g : Frag} (hg : g ∈ cur.frags) :
    existingDel cur g.id = g.del := by
  unfold existingDel
  rw [fragAt_of_mem hg hw.inj]

theorem mem_toRewrite {rb : Rebase} {f : Frag} : f ∈ toRewrite rb.initial ↔ (f, true) ∈ rb.initial := by
  simp only [toRewrite, List.mem_map, List.mem_filter]
  constructor
  · rintro ⟨⟨f', b⟩, ⟨h1, h2⟩, rfl⟩
    simp at h2; subst h2; exact h1
  · intro h; exact ⟨(f, true), ⟨h, rfl⟩, rfl⟩

theorem flagged_iff {rb : Rebase} {id : Nat} : flagged rb id ↔ ∃ f ∈ toRewrite rb.initial, f.id = id := by
  simp only [flagged, mem_toRewrite]
  constructor
  · rintro ⟨⟨f, b⟩, hp, h1, h2⟩
    simp at h2; subst h2; exact ⟨f, hp, h1⟩
  · rintro ⟨f, hf, h1⟩; exact ⟨(f, true), hf, h1, rfl⟩

theorem mem_newlyDeleted {cur : Manifest} {rw : List Frag} {A : List Addr} {id : Nat} :
    id ∈ newlyDeleted cur rw A ↔ ∃ f ∈ rw, f.id = id ∧ ∀ o, o < f.phys.length → (o ∈ existingDel cur id ∨ (id, o) ∈ A) := by
  simp only [newlyDeleted, List.mem_map, List.mem_filter, covers_iff, mergedDel, mem_unionNat, mem_offsetsIn]
  constructor
  · rintro ⟨f, ⟨hf, hc⟩, rfl⟩; exact ⟨f, hf, rfl, hc⟩
  · rintro ⟨f, hf, rfl, hc⟩; exact ⟨f, ⟨hf, hc⟩, rfl⟩

theorem mem_rebaseUpdated {cur : Manifest} {rw : List Frag} {A : List Addr} {upd : List Frag} {u' : Frag} :
    u' ∈ rebaseUpdated cur rw A upd ↔ ∃ u ∈ upd, u' =
      (if rw.any (fun f => f.id == u.id) && !(newlyDeleted cur rw A).contains u.id
       then { u with del := mergedDel cur A u.id } else u) := by
  simp only [rebaseUpdated, List.mem_map]
  constructor
  · rintro ⟨u, hu, rfl⟩; exact ⟨u, hu, rfl⟩
  · rintro ⟨u, hu, rfl⟩; exact ⟨u, hu, rfl⟩

/-- some fragment is flagged: deletion vectors are merged, emptied fragments are promoted to removed -/
theorem final_flag {mRead cur : Manifest} {rb : Rebase} {A : List Addr} {upd : List Frag} {rem : List Nat}
    (hw : WfM cur) (hB : BuiltDel mRead A upd rem) (hmod : rb.modified = upd.map (·.id) ++ rem)
    (hF : FrameDU mRead rb cur) (hok : RbOk mRead rb) :
    Final cur A (rebaseUpdated cur (toRewrite rb.initial) A upd)
      (rem ++ newlyDeleted cur (toRewrite rb.initial) A) := by
  refine ⟨?_, ?_, ?_⟩
  · intro g hg hR o r h2 h3
    rw [List.mem_append] at hR
    rcases hR with hR | hR
    · obtain ⟨f, hf, hid, hall⟩ := hB.hrem g.id hR
      obtain ⟨hp, hsub, _⟩ := frame_get hw hF hf (by rw [hmod, hid]; simp [hR]) hg hid
      have hlen : o < f.phys.length := by rw [← hp]; exact lt_of_getElem? h2
      rcases hall o hlen with h | h
      · exact absurd (hsub o h) h3
      · exact h
    · obtain ⟨f, hf, hid, hall⟩ := mem_newlyDeleted.1 hR
      have hfi := hok.init_mem (f, true) (mem_toRewrite.1 hf)
      obtain ⟨hp, _, _⟩ := frame_get hw hF hfi.1 hfi.2 hg hid
      have hlen : o < f.phys.length := by rw [← hp]; exact lt_of_getElem? h2
      rcases hall o hlen with h | h
      · rw [existingDel_eq hw hg] at h; exact absurd h h3
      · exact h
  · intro g hg hR hno o hA
    rw [List.mem_append, not_or] at hR
    rcases hB.hcover (g.id, o) hA with ⟨u, hu, hid⟩ | h
    · apply hno _ (mem_rebaseUpdated.2 ⟨u, hu, rfl⟩)
      split <;> exact hid
    · exact hR.1 h
  · intro g hg hR u' hu' hid'
    rw [List.mem_append, not_or] at hR
    obtain ⟨u, hu, rfl⟩ := mem_rebaseUpdated.1 hu'
    have hid : u.id = g.id := by
      split at hid' <;> exact hid'
    obtain ⟨f, hf, hfid, hp, _, hd⟩ := hB.hupd u hu
    obtain ⟨hp', _, hd'⟩ := frame_get hw hF hf (by rw [hmod, hfid]; simp; left; exact ⟨u, hu, rfl⟩) hg (hfid.trans hid)
    split
    · -- merged deletion vector
      refine ⟨by simp only; rw [hp, hp'], ?_⟩
      intro o
      simp only [mergedDel, mem_unionNat, mem_offsetsIn]
      rw [hid, existingDel_eq hw hg]
    · rename_i hcond
      refine ⟨by rw [hp, hp'], ?_⟩
      intro o
      have hnotflag : ¬ flagged rb f.id := by
        intro hfl
        obtain ⟨f2, hf2, hid2⟩ := flagged_iff.1 hfl
        apply hcond
        simp only [Bool.and_eq_true, List.any_eq_true, beq_iff_eq, Bool.not_eq_eq_eq_not, Bool.not_true]
        refine ⟨⟨f2, hf2, by rw [hid2, hfid]⟩, ?_⟩
        cases hc : (newlyDeleted cur (toRewrite rb.initial) A).contains u.id with
        | false => rfl
        | true =>
          exfalso; apply hR.2
          rw [← hid]; simpa using hc
      rw [hd o, hd' hnotflag, hid]

end LanceModel.C03
