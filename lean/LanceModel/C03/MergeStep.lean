import LanceModel.C03.RewriteStep
/-
C03 — a committed Merge (add columns) is the serial-replay step of its effect: the check lets it pass only over
transactions that leave fragments and schema alone, so the images it computed at its read version are images of
exactly the rows of the version it is committed on.
-/
namespace LanceModel.C03

/-- the frame of a Merge: same schema, same set of fragments -/
def FrameMG (mRead m : Manifest) : Prop := m.schema = mRead.schema ∧ ∀ g, g ∈ m.frags ↔ g ∈ mRead.frags

theorem frameMG_step {mRead prev next : Manifest} {rb rb' : Rebase} {op : Op} (hk : rb.txn.op.kind = .merge)
    (hb : buildManifest prev op = .ok next) (hc : checkTxn rb op = .ok rb') (hF : FrameMG mRead prev) :
    FrameMG mRead next := by
  unfold checkTxn at hc
  rw [hk] at hc
  cases op <;> simp [skeleton, Op.kind] at hc
  · obtain ⟨h1, h2, _, _⟩ := build_createIndex hb
    exact ⟨h2.trans hF.1, fun g => by rw [h1, mem_sortFrags]; exact hF.2 g⟩
  · obtain ⟨h1, h2, _, _⟩ := build_reserve hb
    exact ⟨h2.trans hF.1, fun g => by rw [h1, mem_sortFrags]; exact hF.2 g⟩

theorem frameMG_latest {h : Hist} (hinv : Inv h) {t : Txn} {mRead : Manifest} (hk : t.op.kind = .merge)
    (hm : manifestAt h t.read = some mRead) {rb : Rebase}
    (hc : checkAll (tryNew mRead t) (since h t.read) = .ok rb) :
    ∃ latest rest, h = latest :: rest ∧ FrameMG mRead latest.m := by
  have := chain_fold (P := fun rb m => FrameMG mRead m ∧ rb.txn = t) h hinv.chain hinv.wf t.read mRead hm
    (tryNew mRead t) ⟨⟨rfl, fun _ => Iff.rfl⟩, tryNew_txn _ _⟩
    (by
      intro prev next op rb rb' hb _ _ _ hc ⟨hF, htx⟩
      exact ⟨frameMG_step (by rw [htx]; exact hk) hb hc hF, (checkTxn_keep hc).1.trans htx⟩)
    rb hc
  obtain ⟨latest, rest, hl, hF, _⟩ := this
  exact ⟨latest, rest, hl, hF⟩

/-- positional correspondence between the fragments of the Merge and those of the read version -/
theorem merge_corr {frs fs : List Frag}
    (hkey : frs.map (fun f => (f.id, f.phys.length, f.del)) = fs.map (fun f => (f.id, f.phys.length, f.del))) :
    (∀ f ∈ frs, ∃ g ∈ fs, g.id = f.id ∧ g.phys.length = f.phys.length ∧ g.del = f.del) ∧
    (∀ g ∈ fs, ∃ f ∈ frs, g.id = f.id ∧ g.phys.length = f.phys.length ∧ g.del = f.del) := by
  have hlen : frs.length = fs.length := by simpa using congrArg List.length hkey
  have hget : ∀ (i : Nat) (f g : Frag), frs[i]? = some f → fs[i]? = some g →
      g.id = f.id ∧ g.phys.length = f.phys.length ∧ g.del = f.del := by
    intro i f g hf hg
    have h1 := congrArg (fun l => l[i]?) hkey
    simp only [List.getElem?_map, hf, hg, Option.map_some] at h1
    simp only [Option.some.injEq, Prod.mk.injEq] at h1
    exact ⟨h1.1.symm, h1.2.1.symm, h1.2.2.symm⟩
  constructor
  · intro f hf
    obtain ⟨i, hi⟩ := List.getElem?_of_mem hf
    have hlt : i < fs.length := by rw [← hlen]; exact (List.getElem?_eq_some_iff.1 hi).1
    exact ⟨fs[i], List.getElem_mem hlt, hget i f fs[i] hi (by simp [hlt])⟩
  · intro g hg
    obtain ⟨i, hi⟩ := List.getElem?_of_mem hg
    have hlt : i < frs.length := by rw [hlen]; exact (List.getElem?_eq_some_iff.1 hi).1
    exact ⟨frs[i], List.getElem_mem hlt, hget i frs[i] g (by simp [hlt]) hi⟩

theorem step_merge {h h' : Hist} {t : Txn} {s : List Fld} {frs : List Frag} (hinv : Inv h) (hc : commit h t = .ok h')
    (hop : t.op = .merge s frs) (hB : ∀ mRead, manifestAt h t.read = some mRead → Built mRead t) :
    StepOk h h' t ∧ Inv h' := by
  obtain ⟨latest, rest, mRead, rb, t', m', rfl, hm, hrb, hf, hb, rfl⟩ := commit_ok hc
  have hrt : rb.txn = t := (checkAll_keep hrb).1.trans (tryNew_txn _ _)
  have : t' = t := by
    rw [← hrt]; exact finish_other hf (by rw [hrt, hop]; simp [Op.kind])
  subst this
  obtain ⟨l2, r2, hl, hs, hfr⟩ := frameMG_latest hinv (by rw [hop]; rfl) hm hrb
  cases hl
  have hw := hinv.wf latest (by simp)
  have hB' := hB mRead hm
  simp only [Built, hop] at hB'
  obtain ⟨hkey, add, rfl, hadd⟩ := hB'
  rw [hop] at hb
  have hm' := build_merge hb
  -- ids of the new fragment list are the ids of the read version, which are those of the latest version
  obtain ⟨v, hv, hvm, _⟩ := manifestAt_mem hm
  have hwr : WfM mRead := by rw [← hvm]; exact hinv.wf v hv
  have hids : frs.map (·.id) = mRead.frags.map (·.id) := by
    have := congrArg (List.map (fun p : Nat × Nat × List Nat => p.1)) hkey
    simp only [List.map_map] at this
    exact this
  have hndf : (frs.map (·.id)).Nodup := by rw [hids]; exact hwr.nodup
  obtain ⟨hc1, hc2⟩ := merge_corr hkey
  refine ⟨⟨latest, rest, mRead, _, rfl, rfl, hm, ?_⟩, ?_⟩
  · rw [hm']
    refine ⟨?_, ?_, ?_⟩
    · simp only [abs, eff, hop, applyEff, mkManifest, hs]
      congr 1
      rw [List.filter_append]
      have h1 : mRead.schema.filter (fun f => !mRead.schema.contains f) = [] := by
        rw [List.filter_eq_nil_iff]; intro f hf; simp [hf]
      have h2 : add.filter (fun f => !mRead.schema.contains f) = add := by
        rw [List.filter_eq_self]; intro f hf; simpa using hadd f hf
      rw [h1, h2]; rfl
    · simp only [abs, eff, hop, applyEff, mkManifest]
      have := maxIdNext_le frs latest.m.nextFrag (by
        intro f hf
        obtain ⟨g, hg, hid, _⟩ := hc1 f hf
        rw [← hid]; exact hw.bound g ((hfr g).2 hg))
      omega
    · intro x
      obtain ⟨a, r⟩ := x
      simp only [abs, eff, hop, applyEff, mkManifest]
      rw [rowsOf_sort]
      simp only [List.mem_map, mem_rowsOf]
      constructor
      · rintro ⟨f, hf, h1, h2, h3⟩
        obtain ⟨g, hg, hid, hlen, hdel⟩ := hc1 f hf
        have hlt : a.2 < g.phys.length := by rw [hlen]; exact lt_of_getElem? h2
        refine ⟨(a, g.phys[a.2]), ⟨g, (hfr g).2 hg, h1.trans hid.symm, by simp [hlt], by rw [hdel]; exact h3⟩, ?_⟩
        have hfa : fragAt frs a.1 = some f := by
          have := fragAt_of_mem hf (inj_of_nodup hndf)
          rw [show a.1 = f.id from h1]; exact this
        simp only [imageAt, hfa]
        rw [show f.phys[a.2]? = some r from h2]
      · rintro ⟨⟨a', r0⟩, ⟨g, hg, h1, h2, h3⟩, heq⟩
        simp only [Prod.mk.injEq] at heq
        obtain ⟨rfl, hr⟩ := heq
        obtain ⟨f, hf, hid, hlen, hdel⟩ := hc2 g ((hfr g).1 hg)
        have hlt : a'.2 < f.phys.length := by rw [← hlen]; exact lt_of_getElem? h2
        have hfa : fragAt frs a'.1 = some f := by
          have := fragAt_of_mem hf (inj_of_nodup hndf)
          rw [show a'.1 = g.id from h1, hid]; exact this
        simp only [imageAt, hfa] at hr
        have hsome : f.phys[a'.2]? = some f.phys[a'.2] := by simp [hlt]
        rw [hsome] at hr
        simp only at hr
        subst hr
        exact ⟨f, hf, h1.trans hid, hsome, by rw [← hdel]; exact h3⟩
  · rw [hop]
    have hb' := hb
    rw [hm'] at hb' ⊢
    apply inv_push hinv hb' (wf_mk hndf)
    intro _ f hf g hg hid _ o ho
    rw [mk_frags] at hg
    obtain ⟨g0, hg0, hid0, _, hdel⟩ := hc1 g hg
    have : f = g0 := hw.inj f hf g0 ((hfr g0).2 hg0) (hid.trans hid0.symm)
    subst this
    rw [← hdel]; exact ho

end LanceModel.C03
