import LanceModel.C03.DelUpdCore
import LanceModel.C03.SimpleSteps
/-
C03 — a committed Delete / Update is the serial-replay step of its effect.
-/
namespace LanceModel.C03

theorem tryNew_modified {m : Manifest} {t : Txn} {upd : List Frag} {rem : List Nat}
    (hop : t.op = .delete upd rem ∨ ∃ n, t.op = .update rem upd n) :
    (tryNew m t).modified = upd.map (·.id) ++ rem := by
  rcases hop with hop | ⟨n, hop⟩ <;> simp only [tryNew, hop] <;> split <;> rfl

theorem tryNew_affected {m : Manifest} {t : Txn} {A : List Addr} (h : (tryNew m t).affected = some A) :
    t.affected = some A := by
  cases hop : t.op <;> simp only [tryNew, hop] at h
  all_goals first
    | exact h
    | (split at h
       · cases h
       · exact h)

theorem not_flagged_of_any {rb : Rebase} (h : ¬ (rb.initial.any (·.2)) = true) : ∀ id, ¬ flagged rb id := by
  intro id ⟨p, hp, _, h2⟩
  exact h (List.any_eq_true.2 ⟨p, hp, h2⟩)

/-- the two ways `finish_delete_update` ends well -/
theorem finish_cases {cur : Manifest} {rb : Rebase} {t' : Txn} (hf : finish cur rb = .ok t')
    {U0 : List Frag} {R0 : List Nat} :
    (rb.txn.op = .delete U0 R0 →
      (t'.op = .delete U0 R0 ∧ ∀ id, ¬ flagged rb id) ∨
      (∃ A, rb.affected = some A ∧ rowConflict cur (toRewrite rb.initial) A = false ∧
        t'.op = .delete (rebaseUpdated cur (toRewrite rb.initial) A U0) (R0 ++ newlyDeleted cur (toRewrite rb.initial) A))) ∧
    (∀ n, rb.txn.op = .update R0 U0 n →
      (t'.op = .update R0 U0 n ∧ ∀ id, ¬ flagged rb id) ∨
      (∃ A, rb.affected = some A ∧ rowConflict cur (toRewrite rb.initial) A = false ∧
        t'.op = .update (R0 ++ newlyDeleted cur (toRewrite rb.initial) A) (rebaseUpdated cur (toRewrite rb.initial) A U0) n)) := by
  refine ⟨?_, ?_⟩
  · intro hop
    simp only [finish, hop] at hf
    split at hf
    · split at hf
      · cases hf
      · rename_i A hA
        split at hf
        · cases hf
        · rename_i hrc
          cases hf
          right
          exact ⟨A, hA, by simpa using hrc, rfl⟩
    · rename_i hany
      cases hf
      left
      exact ⟨rfl, not_flagged_of_any hany⟩
  · intro n hop
    simp only [finish, hop] at hf
    split at hf
    · split at hf
      · cases hf
      · rename_i A hA
        split at hf
        · cases hf
        · rename_i hrc
          cases hf
          right
          exact ⟨A, hA, by simpa using hrc, rfl⟩
    · rename_i hany
      cases hf
      left
      exact ⟨rfl, not_flagged_of_any hany⟩

theorem mem_liveAddrsOf {fs : List Frag} {ids : List Nat} {a : Addr} :
    a ∈ liveAddrsOf fs ids ↔ ∃ f ∈ fs, f.id ∈ ids ∧ a.1 = f.id ∧ (∃ r, f.phys[a.2]? = some r) ∧ a.2 ∉ f.del := by
  simp only [liveAddrsOf, List.mem_map]
  constructor
  · rintro ⟨x, hx, rfl⟩
    obtain ⟨f, hf, h1, h2, h3⟩ := (mem_rowsOf _ _).1 hx
    simp only [List.mem_filter, List.contains_eq_mem, decide_eq_true_eq] at hf
    exact ⟨f, hf.1, hf.2, h1, ⟨x.2, h2⟩, h3⟩
  · rintro ⟨f, hf, hid, h1, ⟨r, h2⟩, h3⟩
    refine ⟨(a, r), (mem_rowsOf _ _).2 ⟨f, ?_, h1, h2, h3⟩, rfl⟩
    simp only [List.mem_filter, List.contains_eq_mem, decide_eq_true_eq]
    exact ⟨hf, hid⟩

/-- a Delete/Update of whole fragments without affected rows is built like one whose affected rows are all the
    live rows of those fragments -/
theorem builtDel_whole {m : Manifest} {rem : List Nat} (h : ∀ r ∈ rem, ∃ f ∈ m.frags, f.id = r) :
    BuiltDel m (liveAddrsOf m.frags rem) [] rem := by
  refine ⟨?_, ?_, ?_, ?_⟩
  · intro a ha
    obtain ⟨f, hf, _, h1, ⟨r, h2⟩, h3⟩ := mem_liveAddrsOf.1 ha
    exact ⟨f, hf, h1.symm, lt_of_getElem? h2, h3⟩
  · intro u hu; cases hu
  · intro r hr
    obtain ⟨f, hf, hid⟩ := h r hr
    refine ⟨f, hf, hid, ?_⟩
    intro o ho
    by_cases hd : o ∈ f.del
    · left; exact hd
    · right
      exact mem_liveAddrsOf.2 ⟨f, hf, by rw [hid]; exact hr, hid.symm, ⟨f.phys[o], by simp [ho]⟩, hd⟩
  · intro a ha
    obtain ⟨f, _, hid, h1, _, _⟩ := mem_liveAddrsOf.1 ha
    right; rw [h1]; exact hid

/-- the effective affected addresses of a Delete/Update and the fact that it is built from them -/
theorem built_effective {mRead : Manifest} {t : Txn} {upd : List Frag} {rem : List Nat}
    (hop : t.op = .delete upd rem ∨ ∃ n, t.op = .update rem upd n) (hB : Built mRead t) :
    ∃ A, BuiltDel mRead A upd rem ∧ (t.affected = some A ∨ (t.affected = none ∧ A = liveAddrsOf mRead.frags rem)) := by
  rcases hop with hop | ⟨n, hop⟩
  all_goals
    simp only [Built, hop] at hB
    cases ha : t.affected with
    | some A => rw [ha] at hB; exact ⟨A, hB, Or.inl rfl⟩
    | none =>
      rw [ha] at hB
      obtain ⟨rfl, h2⟩ := hB
      exact ⟨_, builtDel_whole h2, Or.inr ⟨rfl, rfl⟩⟩

theorem next_absorb' (n : Nat) (L E : List Frag) (hL : ∀ g ∈ L, g.id < n) :
    max n (maxIdNext (L ++ E)) = max n (maxIdNext E) := by
  rw [maxIdNext_append]
  have := maxIdNext_le L n hL
  omega

/-- the core of both step theorems: what is known once the commit went through -/
theorem delupd_commit {h h' : Hist} {t : Txn} {upd : List Frag} {rem : List Nat} (hinv : Inv h)
    (hc : commit h t = .ok h') (hop : t.op = .delete upd rem ∨ ∃ n, t.op = .update rem upd n)
    (hB : ∀ mRead, manifestAt h t.read = some mRead → Built mRead t) :
    ∃ latest rest mRead A U R m', h = latest :: rest ∧ manifestAt h t.read = some mRead ∧
      (t.affected = some A ∨ (t.affected = none ∧ A = liveAddrsOf mRead.frags rem)) ∧
      Final latest.m A U R ∧
      ((t.op = .delete upd rem ∧ buildManifest latest.m (.delete U R) = .ok m' ∧ h' = { m := m', op := .delete U R } :: h) ∨
       (∃ n, t.op = .update rem upd n ∧ buildManifest latest.m (.update R U n) = .ok m' ∧
          h' = { m := m', op := .update R U n } :: h)) := by
  obtain ⟨latest, rest, mRead, rb, t', m', rfl, hm, hrb, hf, hb, rfl⟩ := commit_ok hc
  have hk : t.op.kind = .delete ∨ t.op.kind = .update := by
    rcases hop with hop | ⟨n, hop⟩ <;> rw [hop] <;> simp [Op.kind]
  obtain ⟨l2, r2, hl, hF, hok, htx⟩ := frameDU_latest hinv hk hm hrb
  cases hl
  have hw := hinv.wf latest (by simp)
  have hmod : rb.modified = upd.map (·.id) ++ rem := (checkAll_keep hrb).2.1.trans (tryNew_modified hop)
  obtain ⟨A, hBD, hA⟩ := built_effective hop (hB mRead hm)
  have haff : ∀ A', rb.affected = some A' → A' = A := by
    intro A' h1
    have h2 := tryNew_affected ((checkAll_keep hrb).2.2.symm.trans h1)
    rcases hA with h3 | ⟨h3, _⟩
    · rw [h2] at h3; cases h3; rfl
    · rw [h2] at h3; cases h3
  obtain ⟨hd, hu⟩ := finish_cases (U0 := upd) (R0 := rem) hf
  rcases hop with hop | ⟨n, hop⟩
  · rcases hd (by rw [htx]; exact hop) with ⟨h1, hnf⟩ | ⟨A', h1, _, h2⟩
    · exact ⟨latest, rest, mRead, A, upd, rem, m', rfl, hm, hA, final_noflag hw hBD hmod hF hnf,
        Or.inl ⟨hop, by rw [← h1]; exact hb, by rw [h1]⟩⟩
    · cases haff A' h1
      exact ⟨latest, rest, mRead, A, _, _, m', rfl, hm, hA, final_flag hw hBD hmod hF hok,
        Or.inl ⟨hop, by rw [← h2]; exact hb, by rw [h2]⟩⟩
  · rcases hu n (by rw [htx]; exact hop) with ⟨h1, hnf⟩ | ⟨A', h1, _, h2⟩
    · exact ⟨latest, rest, mRead, A, upd, rem, m', rfl, hm, hA, final_noflag hw hBD hmod hF hnf,
        Or.inr ⟨n, hop, by rw [← h1]; exact hb, by rw [h1]⟩⟩
    · cases haff A' h1
      exact ⟨latest, rest, mRead, A, _, _, m', rfl, hm, hA, final_flag hw hBD hmod hF hok,
        Or.inr ⟨n, hop, by rw [← h2]; exact hb, by rw [h2]⟩⟩

theorem eff_delete {mRead : Manifest} {t : Txn} {upd : List Frag} {rem : List Nat} {A : List Addr}
    (hop : t.op = .delete upd rem) (hA : t.affected = some A ∨ (t.affected = none ∧ A = liveAddrsOf mRead.frags rem)) :
    eff mRead t = .delete A := by
  rcases hA with h | ⟨h, rfl⟩ <;> simp [eff, hop, h]

theorem eff_update {mRead : Manifest} {t : Txn} {upd : List Frag} {rem : List Nat} {n : List NewFrag} {A : List Addr}
    (hop : t.op = .update rem upd n) (hA : t.affected = some A ∨ (t.affected = none ∧ A = liveAddrsOf mRead.frags rem)) :
    eff mRead t = .update A n := by
  rcases hA with h | ⟨h, rfl⟩ <;> simp [eff, hop, h]

theorem step_delete {h h' : Hist} {t : Txn} {upd : List Frag} {rem : List Nat} (hinv : Inv h)
    (hc : commit h t = .ok h') (hop : t.op = .delete upd rem)
    (hB : ∀ mRead, manifestAt h t.read = some mRead → Built mRead t) : StepOk h h' t := by
  obtain ⟨latest, rest, mRead, A, U, R, m', rfl, hm, hA, hfin, hcase⟩ := delupd_commit hinv hc (Or.inl hop) hB
  rcases hcase with ⟨_, hb, rfl⟩ | ⟨n, hop', _⟩
  · refine ⟨latest, rest, mRead, _, rfl, rfl, hm, ?_⟩
    have hw := hinv.wf latest (by simp)
    rw [eff_delete hop hA, build_delete hb]
    refine ⟨rfl, ?_, ?_⟩
    · simp only [abs, applyEff, mkManifest]
      have := maxIdNext_le ((latest.m.frags.filter (fun f => !R.contains f.id)).map (replaceLast U)) latest.m.nextFrag (by
        intro g hg
        simp only [List.mem_map, List.mem_filter] at hg
        obtain ⟨g0, ⟨hg0, _⟩, rfl⟩ := hg
        rw [replaceLast_id]; exact hw.bound g0 hg0)
      omega
    · intro x
      simp only [abs, applyEff, mkManifest, rowsOf_sort, List.mem_filter]
      rw [rows_final hfin (replaceLast U) (replaceLast_spec U)]
      simp
  · rw [hop] at hop'; cases hop'

theorem step_update {h h' : Hist} {t : Txn} {upd : List Frag} {rem : List Nat} {new : List NewFrag} (hinv : Inv h)
    (hc : commit h t = .ok h') (hop : t.op = .update rem upd new)
    (hB : ∀ mRead, manifestAt h t.read = some mRead → Built mRead t) : StepOk h h' t := by
  obtain ⟨latest, rest, mRead, A, U, R, m', rfl, hm, hA, hfin, hcase⟩ := delupd_commit hinv hc (Or.inr ⟨new, hop⟩) hB
  rcases hcase with ⟨hop', _, _⟩ | ⟨n, hop', hb, rfl⟩
  · rw [hop] at hop'; cases hop'
  · rw [hop] at hop'; cases hop'
    refine ⟨latest, rest, mRead, _, rfl, rfl, hm, ?_⟩
    have hw := hinv.wf latest (by simp)
    rw [eff_update hop hA, build_update hb]
    refine ⟨rfl, ?_, ?_⟩
    · simp only [abs, applyEff, mkManifest]
      apply next_absorb'
      intro g hg
      simp only [List.mem_map, List.mem_filter] at hg
      obtain ⟨g0, ⟨hg0, _⟩, rfl⟩ := hg
      rw [replaceFirst_id]; exact hw.bound g0 hg0
    · intro x
      simp only [abs, applyEff, mkManifest, rowsOf_sort, List.mem_filter, mem_rowsOf_append, List.mem_append]
      rw [rows_final hfin (replaceFirst U) (replaceFirst_spec U)]
      simp

end LanceModel.C03
