import LanceModel.C03.Intact
/-
C03 — the reserve protocol: a ReserveFragments commit hands out ids that are below the counter and unused; such an id
stays below the counter and unused over every later commit that the Rewrite's check lets pass, unless another Rewrite
takes it; so the reserved ids of a Rewrite are fresh on the version it is committed on.
-/
namespace LanceModel.C03

/-- id `r` is below the counter of `m` and no fragment of `m` has it -/
def FreshId (r : Nat) (m : Manifest) : Prop := r < m.nextFrag ∧ ∀ g ∈ m.frags, g.id ≠ r

/-- `reserve_fragment_ids`: the ids `[nextFrag' - n, nextFrag')` a ReserveFragments commit hands out are non-zero,
    below the new counter and used by no fragment of the new version -/
theorem reserve_gives_fresh {cur m' : Manifest} {n : Nat} (hw : WfM cur)
    (hb : buildManifest cur (.reserve n) = .ok m') (r : Nat) (h1 : m'.nextFrag - n ≤ r) (h2 : r < m'.nextFrag) :
    FreshId r m' ∧ r ≠ 0 := by
  obtain ⟨hf, _, hn, _⟩ := build_reserve hb
  have hle := maxIdNext_le cur.frags cur.nextFrag hw.bound
  have hmax : max cur.nextFrag (maxIdNext cur.frags) = cur.nextFrag := by omega
  rw [hmax] at hn
  have hlow : cur.nextFrag ≤ r ∧ r ≠ 0 := by
    rw [hn] at h1 h2
    simp only [reserveNext] at h1 h2
    split at h1
    · rename_i h0; simp at h0; rw [if_pos (by simpa using h0)] at h2; omega
    · rename_i h0; simp at h0; rw [if_neg (by simpa using h0)] at h2; omega
  refine ⟨⟨h2, ?_⟩, hlow.2⟩
  intro g hg
  rw [hf, mem_sortFrags] at hg
  have := hw.bound g hg
  omega

/-- a fresh id stays fresh over one committed step, unless the step is an Overwrite, a Merge, or a Rewrite that takes
    the id for one of its new fragments -/
theorem fresh_step {prev next : Manifest} {op : Op} {r : Nat} (hw : WfM prev) (hb : buildManifest prev op = .ok next)
    (hF : FreshId r prev) (hov : op.kind ≠ .overwrite) (hmg : op.kind ≠ .merge)
    (hrw : ∀ gs ri, op = .rewrite gs ri → ∀ f ∈ allNews gs, f.id ≠ 0 ∧ f.id ≠ r) : FreshId r next := by
  obtain ⟨hlt, hun⟩ := hF
  cases op with
  | append frs =>
    rw [build_append hb]
    refine ⟨by simp only [mkManifest]; omega, ?_⟩
    intro g hg; rw [mk_frags, List.mem_append] at hg
    rcases hg with hg | hg
    · exact hun g hg
    · have := (assignIds_ge _ _ g hg).1; omega
  | delete upd rem =>
    rw [build_delete hb]
    refine ⟨by simp only [mkManifest]; omega, ?_⟩
    intro g hg; rw [mk_frags] at hg
    simp only [List.mem_map, List.mem_filter] at hg
    obtain ⟨g0, ⟨hg0, _⟩, rfl⟩ := hg
    rw [replaceLast_id]; exact hun g0 hg0
  | update rem upd new =>
    rw [build_update hb]
    refine ⟨by simp only [mkManifest]; omega, ?_⟩
    intro g hg; rw [mk_frags, List.mem_append] at hg
    rcases hg with hg | hg
    · simp only [List.mem_map, List.mem_filter] at hg
      obtain ⟨g0, ⟨hg0, _⟩, rfl⟩ := hg
      rw [replaceFirst_id]; exact hun g0 hg0
    · have := (assignIds_ge _ _ g hg).1; omega
  | overwrite s frs => exact absurd rfl hov
  | merge s frs => exact absurd rfl hmg
  | createIndex a b =>
    obtain ⟨h1, _, h3, _⟩ := build_createIndex hb
    exact ⟨by rw [h3]; omega, fun g hg => hun g (by rw [h1, mem_sortFrags] at hg; exact hg)⟩
  | reserve n =>
    obtain ⟨h1, _, h3, _⟩ := build_reserve hb
    refine ⟨?_, fun g hg => hun g (by rw [h1, mem_sortFrags] at hg; exact hg)⟩
    rw [h3]; simp only [reserveNext]; split <;> (rename_i hh; simp at hh; omega)
  | project s =>
    rw [build_project hb]
    refine ⟨by simp only [mkManifest]; omega, ?_⟩
    intro g hg; rw [mk_frags] at hg
    simp only [List.mem_map] at hg
    obtain ⟨g0, hg0, rfl⟩ := hg
    exact hun g0 hg0
  | rewrite gs ri =>
    obtain ⟨fs, n, ixs, hrg, rfl⟩ := build_rewrite hb
    refine ⟨by simp only [mkManifest]; omega, ?_⟩
    intro g hg; rw [mk_frags] at hg
    -- every fragment of the result is an old one or one of the new ones (ids kept: non-zero)
    have hsub : ∀ (groups : List Group) (fs0 fs1 : List Frag) (n0 n1 : Nat),
        rewriteGroups fs0 n0 groups = .ok (fs1, n1) → (∀ f ∈ allNews groups, f.id ≠ 0) →
        ∀ x ∈ fs1, x ∈ fs0 ∨ x ∈ allNews groups := by
      intro groups
      induction groups with
      | nil => intro fs0 fs1 n0 n1 h _ x hx; simp only [rewriteGroups] at h; cases h; exact Or.inl hx
      | cons g0 gs0 ih =>
        intro fs0 fs1 n0 n1 h hnz x hx
        simp only [rewriteGroups] at h
        split at h
        · cases h
        · rename_i fsm nm hm
          have hnz0 : ∀ f ∈ g0.news, f.id ≠ 0 := fun f hf => hnz f (by simp [allNews, hf])
          have hstep : ∀ y ∈ fsm, y ∈ fs0 ∨ y ∈ g0.news := by
            intro y hy
            unfold rewriteGroup at hm
            split at hm
            · cases hm
            · split at hm
              · cases hm
              · split at hm
                · cases hm
                · rw [withIds_nonzero _ _ hnz0] at hm; cases hm
                  simp only [List.mem_append] at hy
                  rcases hy with (hy | hy) | hy
                  · exact Or.inl (List.mem_of_mem_take hy)
                  · exact Or.inr hy
                  · exact Or.inl (List.mem_of_mem_drop hy)
                · rw [withIds_nonzero _ _ hnz0] at hm; cases hm
                  simp only [List.mem_append, List.mem_filter] at hy
                  rcases hy with hy | hy
                  · exact Or.inl hy.1
                  · exact Or.inr hy
          rcases ih fsm fs1 nm n1 h (fun f hf => hnz f (by simp only [allNews, List.flatMap_cons, List.mem_append]; right; exact hf)) x hx with h1 | h1
          · rcases hstep x h1 with h2 | h2
            · exact Or.inl h2
            · exact Or.inr (by simp only [allNews, List.flatMap_cons, List.mem_append]; left; exact h2)
          · exact Or.inr (by simp only [allNews, List.flatMap_cons, List.mem_append]; right; exact h1)
    rcases hsub gs _ _ _ _ hrg (fun f hf => (hrw gs ri rfl f hf).1) g hg with h1 | h1
    · exact hun g h1
    · exact (hrw gs ri rfl g h1).2

end LanceModel.C03

namespace LanceModel.C03

theorem chain_version_inj {h : Hist} (hch : Chain h) : ∀ v ∈ h, ∀ w ∈ h, v.m.version = w.m.version → v = w := by
  induction h with
  | nil => intro v hv; cases hv
  | cons a rest ih =>
    intro v hv w hw heq
    simp only [List.mem_cons] at hv hw
    have hlt := chain_versions_lt hch
    rcases hv with rfl | hv <;> rcases hw with rfl | hw
    · rfl
    · have := hlt w hw; omega
    · have := hlt v hv; omega
    · exact ih (chain_tail hch) v hv w hw heq

/-- `chain_fold` with the committed version available to the step -/
theorem chain_fold_mem {P : Rebase → Manifest → Prop} :
    ∀ (h : Hist), Chain h → (∀ v ∈ h, WfM v.m) → ∀ (rv : Nat) (mRead : Manifest), manifestAt h rv = some mRead →
    ∀ (rb0 : Rebase), P rb0 mRead →
    (∀ prev next op rb rb', (∃ v ∈ h, v.op = op ∧ v.m = next) → buildManifest prev op = .ok next →
        WfM prev → checkTxn rb op = .ok rb' → P rb prev → P rb' next) →
    ∀ rb, checkAll rb0 (since h rv) = .ok rb → ∃ latest rest, h = latest :: rest ∧ P rb latest.m := by
  intro h
  induction h with
  | nil => intro _ _ rv mRead hm; simp [manifestAt] at hm
  | cons v rest ih =>
    intro hch hwf rv mRead hm rb0 hbase hstep rb hc
    refine ⟨v, rest, rfl, ?_⟩
    rw [manifestAt_cons] at hm
    by_cases hv : v.m.version = rv
    · rw [if_pos hv] at hm
      cases hm
      have hs : since (v :: rest) rv = [] := by
        apply since_nil_of_le
        intro w hw
        simp at hw
        rcases hw with rfl | hw
        · omega
        · have := chain_versions_lt hch w hw; omega
      rw [hs] at hc
      simp only [checkAll] at hc
      cases hc
      exact hbase
    · rw [if_neg hv] at hm
      obtain ⟨x, hx, hxm, hxv⟩ := manifestAt_mem hm
      have hlt : rv < v.m.version := by
        have := chain_versions_lt hch x hx
        rw [hxm] at this
        omega
      rw [since_cons, if_pos hlt, checkAll_append] at hc
      split at hc
      · cases hc
      · rename_i rb1 h1
        cases rest with
        | nil => cases hx
        | cons w r =>
          obtain ⟨l, rs, hl, hP⟩ := ih (chain_tail hch) (fun u hu => hwf u (by simp [hu])) rv mRead hm rb0 hbase
            (fun prev next op rb rb' ⟨u, hu, h1, h2⟩ => hstep prev next op rb rb' ⟨u, by simp [hu], h1, h2⟩) rb1 h1
          cases hl
          exact hstep w.m v.m v.op rb1 rb ⟨v, by simp, rfl, rfl⟩ hch.1 (hwf w (by simp)) hc hP

/-- the reserve protocol, end to end: an id that was fresh on some version at or after the Rewrite's read version (what
    `reserve_gives_fresh` says of the ids its ReserveFragments commit returned) and that no committed Rewrite took is
    fresh on the version the Rewrite is committed on, whenever its check passes -/
theorem fresh_at_commit {h : Hist} (hinv : Inv h) {t : Txn} {mRead : Manifest} {gs : List Group} {ri : List (Nat × Nat)}
    (hop : t.op = .rewrite gs ri) (hm : manifestAt h t.read = some mRead) {rb : Rebase}
    (hc : checkAll (tryNew mRead t) (since h t.read) = .ok rb) (r : Nat)
    (hprov : ∃ w ∈ h, t.read ≤ w.m.version ∧ FreshId r w.m)
    (hexcl : ∀ v ∈ h, ∀ gs' ri', v.op = .rewrite gs' ri' → ∀ f ∈ allNews gs', f.id ≠ 0 ∧ f.id ≠ r) :
    ∃ latest rest, h = latest :: rest ∧ FreshId r latest.m := by
  obtain ⟨w, hw, hwv, hwf⟩ := hprov
  obtain ⟨x, hx, hxm, hxv⟩ := manifestAt_mem hm
  have := chain_fold_mem (P := fun rb m => rb.txn = t ∧ (w.m.version ≤ m.version → FreshId r m)) h hinv.chain hinv.wf
    t.read mRead hm (tryNew mRead t)
    ⟨tryNew_txn _ _, by
      intro hle
      have hveq : x.m.version = w.m.version := by rw [hxm]; omega
      rw [← hxm, chain_version_inj hinv.chain x hx w hw hveq]; exact hwf⟩
    (by
      intro prev next op rb rb' ⟨v, hv, hvop, hvm⟩ hb hwp hc ⟨htx, hP⟩
      refine ⟨(checkTxn_keep hc).1.trans htx, ?_⟩
      intro hle
      have hver := build_version hb
      by_cases hprev : w.m.version ≤ prev.version
      · have hk : rb.txn.op.kind = .rewrite := by rw [htx, hop]; rfl
        apply fresh_step hwp hb (hP hprev)
        · intro hh; unfold checkTxn at hc; rw [hk, hh] at hc; simp [skeleton] at hc
        · intro hh; unfold checkTxn at hc; rw [hk, hh] at hc; simp [skeleton] at hc
        · intro gs' ri' hop'
          exact hexcl v hv gs' ri' (by rw [hvop, hop'])
      · have hveq : v.m.version = w.m.version := by rw [hvm]; omega
        rw [← hvm, chain_version_inj hinv.chain v hv w hw hveq]; exact hwf)
    rb hc
  obtain ⟨latest, rest, hl, _, hP⟩ := this
  refine ⟨latest, rest, hl, hP ?_⟩
  -- the latest version is not older than any version of the history
  subst hl
  simp only [List.mem_cons] at hw
  rcases hw with rfl | hw
  · exact Nat.le_refl _
  · exact Nat.le_of_lt (chain_versions_lt hinv.chain w hw)

end LanceModel.C03
