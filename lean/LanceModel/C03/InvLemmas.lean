import LanceModel.C03.DelUpdStep
/-
C03 — the invariant of reachable histories is kept by every commit (ids unique and below the counter, deletion
vectors only grow).
-/
namespace LanceModel.C03

theorem wf_mk {cur : Manifest} {s : List Fld} {fs : List Frag} {ixs : List Index}
    (hnd : (fs.map (·.id)).Nodup) : WfM (mkManifest cur s fs ixs) :=
  ⟨nodup_sortFrags hnd, mk_bound cur s fs ixs⟩

theorem nodup_append_fresh {old : List Frag} {n : Nat} {frs : List NewFrag}
    (hnd : (old.map (·.id)).Nodup) (hb : ∀ f ∈ old, f.id < n) :
    ((old ++ assignIds n frs).map (·.id)).Nodup := by
  rw [List.map_append, List.nodup_append]
  refine ⟨hnd, by rw [ids_assignIds]; exact List.nodup_range' 1, ?_⟩
  intro a ha b hb' hab
  obtain ⟨f, hf, rfl⟩ := List.mem_map.1 ha
  obtain ⟨g, hg, rfl⟩ := List.mem_map.1 hb'
  have := hb f hf; have := (assignIds_ge n frs g hg).1; omega

theorem ids_map_repl {old : List Frag} {R : List Nat} (repl : Frag → Frag) (hid : ∀ g, (repl g).id = g.id) :
    ((old.filter (fun f => !R.contains f.id)).map repl).map (·.id) = (old.filter (fun f => !R.contains f.id)).map (·.id) := by
  rw [List.map_map]
  apply List.map_congr_left
  intro g _
  exact hid g

theorem nodup_map_repl {old : List Frag} {R : List Nat} (repl : Frag → Frag) (hid : ∀ g, (repl g).id = g.id)
    (hnd : (old.map (·.id)).Nodup) : (((old.filter (fun f => !R.contains f.id)).map repl).map (·.id)).Nodup := by
  rw [ids_map_repl repl hid]
  exact List.Nodup.sublist (List.Sublist.map _ List.filter_sublist) hnd

theorem bound_map_repl {old : List Frag} {R : List Nat} {n : Nat} (repl : Frag → Frag) (hid : ∀ g, (repl g).id = g.id)
    (hb : ∀ f ∈ old, f.id < n) : ∀ f ∈ (old.filter (fun f => !R.contains f.id)).map repl, f.id < n := by
  intro f hf
  simp only [List.mem_map, List.mem_filter] at hf
  obtain ⟨f0, ⟨hf0, _⟩, rfl⟩ := hf
  rw [hid]; exact hb f0 hf0

/-! ### per kind: the new manifest is well formed and deletion vectors have only grown -/

theorem good_append {cur m' : Manifest} {frs : List NewFrag} (hw : WfM cur)
    (h : buildManifest cur (.append frs) = .ok m') : WfM m' ∧ Mono cur m' := by
  rw [build_append h]
  refine ⟨wf_mk (nodup_append_fresh hw.nodup hw.bound), ?_⟩
  intro f hf g hg hid _ o ho
  rw [mk_frags, List.mem_append] at hg
  rcases hg with hg | hg
  · rw [← hw.inj f hf g hg hid]; exact ho
  · have := hw.bound f hf; have := (assignIds_ge _ _ g hg).1; omega

theorem good_overwrite {cur m' : Manifest} {s : List Fld} {frs : List NewFrag}
    (h : buildManifest cur (.overwrite s frs) = .ok m') : WfM m' := by
  rw [build_overwrite h]
  exact wf_mk (by rw [ids_assignIds]; exact List.nodup_range' 1)

theorem good_same {cur m' : Manifest} (hw : WfM cur) (hf : m'.frags = sortFrags cur.frags)
    (hn : cur.nextFrag ≤ m'.nextFrag) : WfM m' ∧ Mono cur m' := by
  refine ⟨⟨?_, ?_⟩, ?_⟩
  · rw [hf]; exact nodup_sortFrags hw.nodup
  · intro f hf'; rw [hf, mem_sortFrags] at hf'; have := hw.bound f hf'; omega
  · intro f hf' g hg hid _ o ho
    rw [hf, mem_sortFrags] at hg
    rw [← hw.inj f hf' g hg hid]; exact ho

theorem good_createIndex {cur m' : Manifest} {a b : List Index} (hw : WfM cur)
    (h : buildManifest cur (.createIndex a b) = .ok m') : WfM m' ∧ Mono cur m' := by
  obtain ⟨h1, _, h3, _⟩ := build_createIndex h
  exact good_same hw h1 (by rw [h3]; omega)

theorem good_reserve {cur m' : Manifest} {n : Nat} (hw : WfM cur)
    (h : buildManifest cur (.reserve n) = .ok m') : WfM m' ∧ Mono cur m' := by
  obtain ⟨h1, _, h3, _⟩ := build_reserve h
  refine good_same hw h1 ?_
  rw [h3]; simp only [reserveNext]; split <;> (rename_i hh; simp at hh; omega)

theorem good_project {cur m' : Manifest} {s : List Fld} (hw : WfM cur)
    (h : buildManifest cur (.project s) = .ok m') : WfM m' ∧ Mono cur m' := by
  rw [build_project h]
  refine ⟨wf_mk ?_, ?_⟩
  · rw [List.map_map]; exact hw.nodup
  · intro f hf g hg hid _ o ho
    rw [mk_frags] at hg
    simp only [List.mem_map] at hg
    obtain ⟨g0, hg0, rfl⟩ := hg
    rw [hw.inj f hf g0 hg0 hid] at ho; exact ho

theorem mono_final {cur : Manifest} {A : List Addr} {U : List Frag} {R : List Nat} (hw : WfM cur)
    (hfin : Final cur A U R) (repl : Frag → Frag)
    (hrepl : ∀ g, (repl g = g ∧ ∀ u ∈ U, u.id ≠ g.id) ∨ ∃ u ∈ U, u.id = g.id ∧ repl g = u)
    (f : Frag) (hf : f ∈ cur.frags) (g : Frag) (hg : g ∈ (cur.frags.filter (fun f => !R.contains f.id)).map repl)
    (hid : f.id = g.id) : ∀ o ∈ f.del, o ∈ g.del := by
  simp only [List.mem_map, List.mem_filter] at hg
  obtain ⟨g0, ⟨hg0, hR⟩, rfl⟩ := hg
  have hR' : g0.id ∉ R := by simpa using hR
  rcases hrepl g0 with ⟨he, _⟩ | ⟨u, hu, hu1, he⟩
  · rw [he] at hid ⊢
    rw [hw.inj f hf g0 hg0 hid]; exact fun o ho => ho
  · rw [he] at hid ⊢
    have := hw.inj f hf g0 hg0 (hid.trans hu1)
    subst this
    intro o ho
    exact ((hfin.updated f hf hR' u hu hu1).2 o).2 (Or.inl ho)

theorem good_delete {cur m' : Manifest} {A : List Addr} {U : List Frag} {R : List Nat} (hw : WfM cur)
    (hfin : Final cur A U R) (h : buildManifest cur (.delete U R) = .ok m') : WfM m' ∧ Mono cur m' := by
  rw [build_delete h]
  refine ⟨wf_mk (nodup_map_repl _ (replaceLast_id U) hw.nodup), ?_⟩
  intro f hf g hg hid _
  rw [mk_frags] at hg
  exact mono_final hw hfin (replaceLast U) (replaceLast_spec U) f hf g hg hid

theorem good_update {cur m' : Manifest} {A : List Addr} {U : List Frag} {R : List Nat} {n : List NewFrag} (hw : WfM cur)
    (hfin : Final cur A U R) (h : buildManifest cur (.update R U n) = .ok m') : WfM m' ∧ Mono cur m' := by
  rw [build_update h]
  refine ⟨wf_mk (nodup_append_fresh (nodup_map_repl _ (replaceFirst_id U) hw.nodup)
    (bound_map_repl _ (replaceFirst_id U) hw.bound)), ?_⟩
  intro f hf g hg hid _
  rw [mk_frags, List.mem_append] at hg
  rcases hg with hg | hg
  · exact mono_final hw hfin (replaceFirst U) (replaceFirst_spec U) f hf g hg hid
  · have := hw.bound f hf; have := (assignIds_ge _ _ g hg).1; omega

/-- adding one version on top keeps the invariant -/
theorem inv_push {latest : Ver} {rest : Hist} {m' : Manifest} {op : Op} (hinv : Inv (latest :: rest))
    (hb : buildManifest latest.m op = .ok m') (hw : WfM m') (hm : isOverwrite op = false → Mono latest.m m') :
    Inv ({ m := m', op := op } :: latest :: rest) :=
  ⟨⟨hb, hm, hinv.chain⟩, by
    intro v hv
    simp only [List.mem_cons] at hv
    rcases hv with rfl | hv
    · exact hw
    · exact hinv.wf v (by simpa using hv)⟩

end LanceModel.C03
