import LanceModel.C03.BuiltLemmas
import LanceModel.C03.ReservedRun
import LanceModel.C03.Gen
/-
C03 — property theorems.

  "For any set of concurrently started transactions, the table state after they finish equals applying the committed
   ones one at a time in version order, where each transaction's row-level effect (rows inserted, rows deleted or
   replaced, columns added or dropped, indices added, config changed) is the one it computed at its read version.  No
   effect of a committed transaction is lost or duplicated, and a transaction that reports failure has no visible
   effect."

`commit` is one attempt of commit_transaction: check against every transaction committed after the read version,
rebase, build on the latest version.  A history is the list of versions; `run h ts` commits the transactions `ts` in
that order (a failed commit leaves the history as it is); each transaction of `ts` names its read version, which may be
any version of the history at the time its turn comes — so `ts` ranges over every set of concurrently started
transactions and every commit order.  `replay` folds the effects of the committed ones, each computed at ITS read
version (`eff`), over the observed table (`abs`: schema, next fragment id, live rows tagged with their address).
-/
namespace LanceModel.C03

/-- the conflict matrix the model looks its arms up in is the one the source has now (225 cells) -/
theorem skeleton_matches_source : ∀ a ∈ Kind.all, ∀ b ∈ Kind.all, Gen.lookup a b = some (skeleton a b) := by
  decide

theorem kind_all_complete : ∀ k : Kind, k ∈ Kind.all := by
  intro k; cases k <;> decide

/-- C03, second half: a transaction whose commit returns an error leaves versions and rows unchanged -/
theorem failed_no_effect (h : Hist) (t : Txn) (e : Err) (hc : commit h t = .error e) : step h t = h := by
  simp [step, hc]

/-- a successful commit adds exactly one version on top, numbered latest + 1; earlier versions are untouched -/
theorem commit_adds_one_version (h h' : Hist) (t : Txn) (hc : commit h t = .ok h') :
    ∃ latest rest new, h = latest :: rest ∧ h' = new :: h ∧ new.m.version = latest.m.version + 1 := by
  obtain ⟨latest, rest, mRead, rb, t', m', rfl, _, _, _, hb, rfl⟩ := commit_ok hc
  exact ⟨latest, rest, _, rfl, rfl, build_version hb⟩

/-- a freshly created table satisfies the invariant of reachable histories -/
theorem inv_create (s : List Fld) (frs : List NewFrag) (m : Manifest)
    (hb : buildManifest { version := 0, schema := [], frags := [], indices := [], nextFrag := 0 } (.overwrite s frs) = .ok m) :
    Inv [{ m := m, op := .overwrite s frs }] :=
  ⟨trivial, by
    intro v hv
    simp only [List.mem_singleton] at hv
    subst hv
    exact good_overwrite hb⟩

/-- the invariant holds along every run of valid transactions -/
theorem inv_reachable (h : Hist) (ts : List Txn) (hinv : Inv h) (hv : ValidRunR h ts) : Inv (run h ts) :=
  inv_runR hinv hv

/-- Lemma A for the rows `check_delete_txn` / `check_update_txn` of the matrix: if the check against every transaction
    committed since the read version passes, then on the latest version every fragment the transaction modifies still
    holds the data it held at the read version, its deletion vector has only grown, and it is unchanged unless the
    fragment is flagged for a deletion-vector rewrite -/
theorem check_ok_frame (h : Hist) (hinv : Inv h) (t : Txn) (mRead : Manifest)
    (hk : t.op.kind = .delete ∨ t.op.kind = .update) (hm : manifestAt h t.read = some mRead)
    (rb : Rebase) (hc : checkAll (tryNew mRead t) (since h t.read) = .ok rb) :
    ∃ latest rest, h = latest :: rest ∧ FrameDU mRead rb latest.m := by
  obtain ⟨l, r, hl, hF, _, _⟩ := frameDU_latest hinv hk hm hc
  exact ⟨l, r, hl, hF⟩

/-- Lemma A for the row `check_rewrite_txn`: if every check passes, every fragment the compaction replaces is, on the
    latest version, exactly as the compaction read it (same physical rows, same deletion vector) — so the rows it
    copied are exactly the rows that are live now -/
theorem check_ok_frame_rewrite (h : Hist) (hinv : Inv h) (t : Txn) (mRead : Manifest) (gs : List Group)
    (ri : List (Nat × Nat)) (hop : t.op = .rewrite gs ri) (hB : Built mRead t)
    (hm : manifestAt h t.read = some mRead) (rb : Rebase)
    (hc : checkAll (tryNew mRead t) (since h t.read) = .ok rb) :
    ∃ latest rest, h = latest :: rest ∧ FrameRW gs latest.m :=
  frameRW_latest hinv hop hB hm hc

/-- Lemma A for the row `check_merge_txn`: if every check passes, the latest version has the schema and exactly the
    fragments the Merge read -/
theorem check_ok_frame_merge (h : Hist) (hinv : Inv h) (t : Txn) (mRead : Manifest) (hk : t.op.kind = .merge)
    (hm : manifestAt h t.read = some mRead) (rb : Rebase)
    (hc : checkAll (tryNew mRead t) (since h t.read) = .ok rb) :
    ∃ latest rest, h = latest :: rest ∧ FrameMG mRead latest.m :=
  frameMG_latest hinv hk hm hc

/-- Lemma A for the row `check_project_txn`: if every check passes, the latest version has the schema the Project read -/
theorem check_ok_frame_project (h : Hist) (hinv : Inv h) (t : Txn) (mRead : Manifest) (hk : t.op.kind = .project)
    (hm : manifestAt h t.read = some mRead) (rb : Rebase)
    (hc : checkAll (tryNew mRead t) (since h t.read) = .ok rb) :
    ∃ latest rest, h = latest :: rest ∧ latest.m.schema = mRead.schema :=
  schema_latest hinv hk hm hc

/-- "no effect is lost or duplicated", row level: the rows a committed Delete/Update removes or replaces are live on
    the version it is committed on and are the rows it saw at its read version -/
theorem affected_rows_intact (h h' : Hist) (t : Txn) (upd : List Frag) (rem : List Nat) (A : List Addr) (hinv : Inv h)
    (hc : commit h t = .ok h') (hop : t.op = .delete upd rem ∨ ∃ n, t.op = .update rem upd n)
    (haff : t.affected = some A) (hB : ∀ mRead, manifestAt h t.read = some mRead → Built mRead t) :
    ∃ latest rest mRead, h = latest :: rest ∧ manifestAt h t.read = some mRead ∧
      ∀ a ∈ A, ∃ r, (a, r) ∈ rowsOf mRead.frags ∧ (a, r) ∈ rowsOf latest.m.frags :=
  affected_intact hinv hc hop haff hB

/-- Lemma B + induction step: one committed transaction (any of the nine modelled kinds) is one step of the serial
    replay, on top of any reachable history (whatever mix of kinds committed before it) -/
theorem commit_is_replay_step (h h' : Hist) (t : Txn) (hinv : Inv h) (hv : ValidR h t)
    (hc : commit h t = .ok h') : StepOk h h' t :=
  (step_reserved hinv hv hc).1

/-- the reserve protocol, first half: the ids a ReserveFragments commit hands out (`[nextFrag' - n, nextFrag')`) are
    non-zero, below the new counter and used by no fragment of the new version -/
theorem reserve_hands_out_fresh_ids (cur m' : Manifest) (n : Nat) (hw : WfM cur)
    (hb : buildManifest cur (.reserve n) = .ok m') (r : Nat) (h1 : m'.nextFrag - n ≤ r) (h2 : r < m'.nextFrag) :
    FreshId r m' ∧ r ≠ 0 :=
  reserve_gives_fresh hw hb r h1 h2

/-- the reserve protocol, second half (`reserve_gives_fresh` as a property of reachable histories): the reserved ids
    of a Rewrite whose check passes are non-zero, distinct, below the counter, not ids of fragments it replaces and
    used by no fragment of the version it is committed on — every later writer allocates at or above the counter, an
    Overwrite or Merge in between makes the check fail, and no other Rewrite took them -/
theorem reserved_ids_fresh_at_commit (h h' : Hist) (t : Txn) (gs : List Group) (ri : List (Nat × Nat)) (hinv : Inv h)
    (hop : t.op = .rewrite gs ri) (hv : ValidR h t) (hc : commit h t = .ok h') :
    ∀ latest rest, h = latest :: rest → FreshNews latest.m gs :=
  reserved_fresh hinv hop hv hc

/-- C03, first half (`serial_replay`): for every reachable history, every list of transactions each built against
    some version of the history (at the time its turn to commit comes), in every commit order, the table after the
    run is the serial replay of the effects of the committed ones, each computed at its read version.
    All nine modelled kinds — Append, Delete, Update (RewriteRows), Overwrite, Rewrite, CreateIndex, ReserveFragments,
    Merge, Project — in any mix. -/
theorem serial_replay (h : Hist) (hinv : Inv h) (latest : Ver) (rest : Hist) (hh : h = latest :: rest)
    (ts : List Txn) (hv : ValidRunR h ts) :
    ∃ final older, run h ts = final :: older ∧ (abs final.m).Same (replay h ts (abs latest.m)) := by
  induction ts generalizing h latest rest with
  | nil => exact ⟨latest, rest, by simp [run, hh], same_refl _⟩
  | cons t ts ih =>
    simp only [run, replay]
    cases hc : commit h t with
    | error e =>
      have hs : step h t = h := by simp [step, hc]
      rw [hs]
      have hv' : ValidRunR h ts := by have := hv.2; rwa [hs] at this
      obtain ⟨f, o, h1, h2⟩ := ih h hinv latest rest hh hv'
      exact ⟨f, o, h1, h2⟩
    | ok h' =>
      have hs : step h t = h' := by simp [step, hc]
      rw [hs]
      obtain ⟨hstep, hinv'⟩ := step_reserved hinv hv.1 hc
      obtain ⟨l, r, mRead, new, hl, hn, hm, hsame⟩ := hstep
      rw [hh] at hl; cases hl
      have hv' : ValidRunR h' ts := by have := hv.2; rwa [hs] at this
      obtain ⟨f, o, h1, h2⟩ := ih h' hinv' new h hn hv'
      refine ⟨f, o, h1, ?_⟩
      rw [hh] at hm
      simp only [hh, hm]
      exact same_trans h2 (replay_congr h' ts hsame)

/-- the hypotheses of `serial_replay` are what the writers deliver: the transactions of the model's delete / update /
    append / overwrite / create-index / drop-column / add-column / compaction writers are `Built` against the manifest they ran on, for every
    manifest and every predicate -/
theorem writers_built :
    (∀ m p, Built m (mkDelete m p)) ∧ (∀ m p v, Built m (mkUpdate m p v)) ∧ (∀ m n, Built m (mkDropCol m n)) ∧
    (∀ m rows, Built m (mkAppend m rows)) ∧ (∀ m f rows, Built m (mkOverwrite m f rows)) ∧ (∀ m u, Built m (mkIndex m u)) ∧
    (∀ m k, Built m (mkAddCol m k)) ∧ (∀ m ids u, Built m (mkRewrite m ids u)) :=
  ⟨mkDelete_built, mkUpdate_built, mkDropCol_built, mkAppend_built, mkOverwrite_built, mkIndex_built, mkAddCol_built,
    mkRewrite_built⟩

/-! ### where the code does NOT meet the property: columns are identified by field id, and field ids are re-used

`serial_replay` identifies a column with its field id (as lance does).  At the level of column NAMES the statement
fails for Append: `Manifest::max_field_id` is computed from the current schema and the current data files, so after
`drop_columns` has removed the last data file that carried a field id, `add_columns` hands the same id out again; a
stale Append that was written against the version with the dropped column commits (Append is compatible with Project and
Merge in `check_append_txn`) and its values for the dropped column appear under the new column. -/

/-- the visible cell of a stored row under column `f` of the latest schema is what the writer wrote for the column of the
    same NAME of the schema it wrote against (NULL if that schema had no such column) -/
def NamedCellOk (sRead sLatest : List Fld) (r : PRow) : Prop :=
  ∀ f ∈ sLatest, cellOf r f.id = match sRead.find? (fun g => g.name == f.name) with
    | some g => cellOf r g.id
    | none => none

/-- the row holds values for fields of `s` only -/
def WrittenFor (s : List Fld) (r : PRow) : Prop := ∀ p ∈ r, ∃ g ∈ s, g.id = p.1

/-- the defect region excluded: a field id of the read schema and the same field id of the latest schema name the same
    column -/
def SameIds (sRead sLatest : List Fld) : Prop := ∀ g ∈ sRead, ∀ f ∈ sLatest, (g.id = f.id ↔ g.name = f.name)

/-- C03 on names, for the rows a stale Append inserts: full statement -/
def C03_names_full : Prop :=
  ∀ (sRead sLatest : List Fld) (r : PRow), WrittenFor sRead r → NamedCellOk sRead sLatest r

theorem cellOf_none_of_absent (r : PRow) (id : Nat) (h : ∀ p ∈ r, p.1 ≠ id) : cellOf r id = none := by
  unfold cellOf
  have : r.find? (fun p => p.1 == id) = none := by
    rw [List.find?_eq_none]; intro p hp; simpa using h p hp
  rw [this]

/-- C03 on names holds whenever no field id has changed its name between the version the rows were written against and
    the version they are committed on -/
theorem C03_names_partial (sRead sLatest : List Fld) (r : PRow) (hw : WrittenFor sRead r)
    (hs : SameIds sRead sLatest) : NamedCellOk sRead sLatest r := by
  intro f hf
  cases hfind : sRead.find? (fun g => g.name == f.name) with
  | some g =>
    have hg := List.mem_of_find?_eq_some hfind
    have hn : g.name = f.name := by simpa using List.find?_some hfind
    simp only
    rw [(hs g hg f hf).2 hn]
  | none =>
    simp only
    apply cellOf_none_of_absent
    intro p hp hid
    obtain ⟨g, hg, hgp⟩ := hw p hp
    have hn := (hs g hg f hf).1 (hgp.trans hid)
    have := List.find?_eq_none.1 hfind g hg
    simp [hn] at this

example : NamedCellOk baseSchema (baseSchema ++ [⟨3, 15⟩]) [(0, some 7), (1, some 70), (2, some 702)] :=
  C03_names_partial _ _ _ (by unfold WrittenFor; decide) (by unfold SameIds; decide)

/-- the witness: (c0, c1, d5 with field id 2), d5 dropped, d6 added with field id 2 again; a row written for d5 -/
theorem C03_names_counterexample : ¬ C03_names_full := by
  intro h
  have := h [⟨0, 0⟩, ⟨1, 1⟩, ⟨2, 15⟩] [⟨0, 0⟩, ⟨1, 1⟩, ⟨2, 16⟩] [(0, some 7), (1, some 70), (2, some 715)]
    (by unfold WrittenFor; decide) ⟨2, 16⟩ (by decide)
  revert this
  decide

/-- the same witness through the whole model, as the real code runs it (create, add d5, drop d5, add d6, append built
    before the drop): the appended row shows 715 — the value written for d5 — under d6 -/
def reuseH0 : Hist :=
  match buildManifest { version := 0, schema := [], frags := [], indices := [], nextFrag := 0 }
      (mkOverwrite { version := 0, schema := [], frags := [], indices := [], nextFrag := 0 } 3 [(1, some 10), (2, some 20)]).op with
  | .ok m => [{ m := m, op := .overwrite baseSchema [] }]
  | .error _ => []

def latestOf (h : Hist) : Manifest :=
  match h with
  | v :: _ => v.m
  | [] => { version := 0, schema := [], frags := [], indices := [], nextFrag := 0 }

def reuseRun : Hist :=
  let h1 := step reuseH0 (mkAddCol (latestOf reuseH0) 5)
  let stale := mkAppend (latestOf h1) [(7, some 70)]
  let h2 := step h1 (mkDropCol (latestOf h1) 15)
  let h3 := step h2 (mkAddCol (latestOf h2) 6)
  step h3 stale

theorem field_id_reuse_counterexample :
    scan (latestOf reuseRun) =
      [[some 1, some 10, some 102, some 7], [some 2, some 20, some 202, some 8], [some 7, some 70, some 702, some 715]] ∧
    (latestOf reuseRun).schema.map (·.name) = [0, 1, 2, 16] := by
  decide

/-! ### non-vacuity: a concrete table, two stale deletes on the same fragment, an update and an append -/

def exSchema : List Fld := [⟨0, 0⟩, ⟨1, 1⟩]
def exRow (k x : Int) : PRow := [(0, some k), (1, some x)]
def exM1 : Manifest :=
  { version := 1, schema := exSchema,
    frags := [{ id := 0, files := [[0, 1]], phys := [exRow 1 10, exRow 2 20, exRow 3 30], del := [] }],
    indices := [], nextFrag := 1 }
def exH : Hist := [{ m := exM1, op := .overwrite exSchema [{ files := [[0, 1]], phys := [exRow 1 10, exRow 2 20, exRow 3 30] }] }]
/-- delete key 1 and delete key 2, both built at version 1, then an update of key 3 built at version 1, an append -/
def exT1 : Txn := mkDelete exM1 (fun r => cellOf r 0 == some 1)
def exT2 : Txn := mkDelete exM1 (fun r => cellOf r 0 == some 2)
def exT3 : Txn := mkUpdate exM1 (fun r => cellOf r 0 == some 3) 77
def exT4 : Txn := mkAppend exM1 [(4, some 40)]

example : Inv exH := ⟨trivial, by
  intro v hv
  simp only [exH, List.mem_singleton] at hv
  subst hv
  exact ⟨by decide, by decide⟩⟩

/-- the hypotheses of `serial_replay` are satisfiable: the two deletes are `Built` against version 1 -/
example : Built exM1 exT1 := by
  show BuiltDel exM1 [(0, 0)] [{ id := 0, files := [[0, 1]], phys := [exRow 1 10, exRow 2 20, exRow 3 30], del := [0] }] []
  refine ⟨?_, ?_, ?_, ?_⟩
  · intro a ha; simp at ha; subst ha
    exact ⟨_, List.mem_singleton.2 rfl, rfl, by decide, by decide⟩
  · intro u hu; simp at hu; subst hu
    refine ⟨_, List.mem_singleton.2 rfl, rfl, rfl, rfl, ?_⟩
    intro o; simp
  · intro r hr; cases hr
  · intro a ha; simp at ha; subst ha
    exact Or.inl ⟨_, List.mem_singleton.2 rfl, rfl⟩

/-- all four commit (the second delete and the update are rebased: deletion vectors merged) -/
example : ((run exH [exT1, exT2, exT3, exT4]).map (·.m.version)) = [5, 4, 3, 2, 1] := by decide
example : (match run exH [exT1, exT2, exT3, exT4] with
    | v :: _ => scan v.m
    | [] => []) = [[some 3, some 77], [some 4, some 40]] := by decide
/-- two deletes of the SAME row: the second one is a retryable conflict and changes nothing -/
example : (match commit (step exH exT1) exT1 with
    | .error (.conflict .retryable) => true
    | _ => false) = true := by decide

end LanceModel.C03
