import LanceModel.C03.RewriteSpec
/-
C03 — a committed Rewrite (compaction) is the serial-replay step of its effect: the rows of the rewritten fragments
move to the new fragments, nothing else changes.
-/
namespace LanceModel.C03

def allNews (groups : List Group) : List Frag := groups.flatMap (·.news)

/-- side condition at commit time: the new fragments carry the ids `reserve_fragment_ids` handed out — non-zero,
    distinct, below the counter and used by no fragment of the version the rewrite is committed on -/
structure FreshNews (cur : Manifest) (groups : List Group) : Prop where
  nz : ∀ f ∈ allNews groups, f.id ≠ 0
  nodup : ((allNews groups).map (·.id)).Nodup
  unused : ∀ f ∈ allNews groups, ∀ x ∈ cur.frags, f.id ≠ x.id
  notOld : ∀ f ∈ allNews groups, f.id ∉ oldIds groups
  bound : ∀ f ∈ allNews groups, f.id < cur.nextFrag

theorem rewriteGroups_spec {groups : List Group} {fs fs' : List Frag} {next next' : Nat}
    (h : rewriteGroups fs next groups = .ok (fs', next')) (hnd : (fs.map (·.id)).Nodup)
    (hnz : ∀ f ∈ allNews groups, f.id ≠ 0) (hnn : ((allNews groups).map (·.id)).Nodup)
    (hfresh : ∀ f ∈ allNews groups, ∀ x ∈ fs, f.id ≠ x.id) (hno : ∀ f ∈ allNews groups, f.id ∉ oldIds groups) :
    (∀ x, x ∈ fs' ↔ ((x ∈ fs ∧ x.id ∉ oldIds groups) ∨ x ∈ allNews groups)) ∧ (fs'.map (·.id)).Nodup := by
  induction groups generalizing fs next with
  | nil =>
    simp only [rewriteGroups] at h; cases h
    exact ⟨by intro x; simp [oldIds, allNews], hnd⟩
  | cons g gs ih =>
    simp only [rewriteGroups] at h
    split at h
    · cases h
    · rename_i fs1 n1 h1
      have hnews : allNews (g :: gs) = g.news ++ allNews gs := by simp [allNews]
      have holds : oldIds (g :: gs) = g.olds.map (·.id) ++ oldIds gs := by simp [oldIds]
      rw [hnews] at hnz hnn hfresh hno
      rw [List.map_append, List.nodup_append] at hnn
      obtain ⟨hm1, hnd1, _⟩ := rewriteGroup_spec h1 hnd (fun f hf => hnz f (by simp [hf])) hnn.1
        (fun f hf => hfresh f (by simp [hf]))
      have hfresh2 : ∀ f ∈ allNews gs, ∀ x ∈ fs1, f.id ≠ x.id := by
        intro f hf x hx
        rcases (hm1 x).1 hx with ⟨hx', _⟩ | hx'
        · exact hfresh f (by simp [hf]) x hx'
        · intro heq
          exact hnn.2.2 x.id (List.mem_map.2 ⟨x, hx', rfl⟩) f.id (List.mem_map.2 ⟨f, hf, rfl⟩) heq.symm
      have hno2 : ∀ f ∈ allNews gs, f.id ∉ oldIds gs := by
        intro f hf hh
        exact hno f (by simp [hf]) (by rw [holds]; simp [hh])
      obtain ⟨hm2, hnd2⟩ := ih h hnd1 (fun f hf => hnz f (by simp [hf])) hnn.2.1 hfresh2 hno2
      refine ⟨?_, hnd2⟩
      intro x
      rw [hm2 x, hm1 x, hnews, holds]
      simp only [List.mem_append, List.mem_map, not_or, not_exists, not_and]
      constructor
      · rintro (⟨(⟨h1, h2⟩ | h1), h3⟩ | h1)
        · exact Or.inl ⟨h1, fun o ho => h2 o ho, h3⟩
        · exact Or.inr (Or.inl h1)
        · exact Or.inr (Or.inr h1)
      · rintro (⟨h1, h2, h3⟩ | h1 | h1)
        · exact Or.inl ⟨Or.inl ⟨h1, fun o ho => h2 o ho⟩, h3⟩
        · refine Or.inl ⟨Or.inr h1, ?_⟩
          intro hh
          exact hno x (by simp [h1]) (by rw [holds]; simp [hh])
        · exact Or.inr h1

theorem step_rewrite {h h' : Hist} {t : Txn} {gs : List Group} {ri : List (Nat × Nat)} (hinv : Inv h)
    (hc : commit h t = .ok h') (hop : t.op = .rewrite gs ri)
    (hfresh : ∀ latest rest, h = latest :: rest → FreshNews latest.m gs) : StepOk h h' t ∧ Inv h' := by
  obtain ⟨latest, rest, mRead, m', rfl, hm, hb, rfl⟩ := commit_plain hc (by rw [hop]; simp [Op.kind])
  rw [hop] at hb
  obtain ⟨fs, n, ixs, hrg, rfl⟩ := build_rewrite hb
  have hw := hinv.wf latest (by simp)
  have hfn := hfresh latest rest rfl
  obtain ⟨hmem, hnd⟩ := rewriteGroups_spec hrg hw.nodup hfn.nz hfn.nodup hfn.unused hfn.notOld
  have hbound : ∀ x ∈ fs, x.id < latest.m.nextFrag := by
    intro x hx
    rcases (hmem x).1 hx with ⟨hx', _⟩ | hx'
    · exact hw.bound x hx'
    · exact hfn.bound x hx'
  refine ⟨⟨latest, rest, mRead, _, rfl, rfl, hm, ?_⟩, ?_⟩
  · refine ⟨?_, ?_, ?_⟩
    · simp [abs, eff, hop, applyEff, mkManifest]
    · simp only [abs, eff, hop, applyEff, mkManifest]
      have := maxIdNext_le fs latest.m.nextFrag hbound
      omega
    · intro x
      simp only [abs, eff, hop, applyEff, mkManifest]
      rw [rowsOf_sort]
      simp only [List.mem_append, List.mem_filter, mem_rowsOf, hmem]
      constructor
      · rintro ⟨f, (⟨hf, hid⟩ | hf), h1, h2, h3⟩
        · left; exact ⟨⟨f, hf, h1, h2, h3⟩, by rw [h1]; simpa using hid⟩
        · right; exact ⟨f, hf, h1, h2, h3⟩
      · rintro (⟨⟨f, hf, h1, h2, h3⟩, hid⟩ | ⟨f, hf, h1, h2, h3⟩)
        · exact ⟨f, Or.inl ⟨hf, by rw [← h1]; simpa using hid⟩, h1, h2, h3⟩
        · exact ⟨f, Or.inr hf, h1, h2, h3⟩
  · rw [hop]
    apply inv_push hinv hb (wf_mk hnd)
    intro _ f hf g hg hid _ o ho
    rw [mk_frags] at hg
    rcases (hmem g).1 hg with ⟨hg', _⟩ | hg'
    · rw [← hw.inj f hf g hg' hid]; exact ho
    · exact absurd hid.symm (hfn.unused g hg' f hf)

end LanceModel.C03
