import LanceModel.C03.RunLemmas
/-
C03 — nothing is lost: the rows a committed Delete/Update removes (or replaces) are, on the version it is committed on,
still live and still the rows it saw at its read version; the fragments a committed Rewrite replaces are, on the
version it is committed on, exactly as they were at its read version.
-/
namespace LanceModel.C03

theorem rowConflict_false {cur : Manifest} {rw : List Frag} {A : List Addr} (h : rowConflict cur rw A = false)
    {a : Addr} (ha : a ∈ A) (hrw : ∃ f ∈ rw, f.id = a.1) : a.2 ∉ existingDel cur a.1 := by
  simp only [rowConflict, List.any_eq_false, Bool.and_eq_true, List.any_eq_true, beq_iff_eq,
    List.contains_eq_mem, decide_eq_true_eq, not_and] at h
  exact h a ha hrw

/-- the affected rows of a committed Delete/Update with `affected_rows` are live on the latest version and hold the
    rows they held at the read version (no row is deleted or replaced twice, no stale image is written back) -/
theorem affected_intact {h h' : Hist} {t : Txn} {upd : List Frag} {rem : List Nat} {A : List Addr} (hinv : Inv h)
    (hc : commit h t = .ok h') (hop : t.op = .delete upd rem ∨ ∃ n, t.op = .update rem upd n)
    (haff : t.affected = some A) (hB : ∀ mRead, manifestAt h t.read = some mRead → Built mRead t) :
    ∃ latest rest mRead, h = latest :: rest ∧ manifestAt h t.read = some mRead ∧
      ∀ a ∈ A, ∃ r, (a, r) ∈ rowsOf mRead.frags ∧ (a, r) ∈ rowsOf latest.m.frags := by
  obtain ⟨latest, rest, mRead, rb, t', m', rfl, hm, hrb, hf, hb, rfl⟩ := commit_ok hc
  have hk : t.op.kind = .delete ∨ t.op.kind = .update := by
    rcases hop with hop | ⟨n, hop⟩ <;> rw [hop] <;> simp [Op.kind]
  obtain ⟨l2, r2, hl, hF, hok, htx⟩ := frameDU_latest hinv hk hm hrb
  cases hl
  have hw := hinv.wf latest (by simp)
  have hmod : rb.modified = upd.map (·.id) ++ rem := (checkAll_keep hrb).2.1.trans (tryNew_modified hop)
  have hBD : BuiltDel mRead A upd rem := by
    have := hB mRead hm
    rcases hop with hop | ⟨n, hop⟩ <;> simp only [Built, hop, haff] at this <;> exact this
  refine ⟨latest, rest, mRead, rfl, hm, ?_⟩
  intro a ha
  obtain ⟨f, hf', hid, hlt, hnd⟩ := hBD.hlive a ha
  have hmodf : f.id ∈ rb.modified := by
    rw [hmod, hid]
    rcases hBD.hcover a ha with ⟨u, hu, hu1⟩ | h1
    · simp only [List.mem_append, List.mem_map]; left; exact ⟨u, hu, hu1⟩
    · simp [h1]
  obtain ⟨g, hg, hgid, hphys, _, hdel⟩ := hF f hf' hmodf
  have hrow : f.phys[a.2]? = some f.phys[a.2] := by simp [hlt]
  refine ⟨f.phys[a.2], (mem_rowsOf _ _).2 ⟨f, hf', hid.symm, hrow, hnd⟩,
    (mem_rowsOf _ _).2 ⟨g, hg, by rw [hgid]; exact hid.symm, by rw [hphys]; exact hrow, ?_⟩⟩
  -- not deleted on the latest version
  by_cases hfl : flagged rb f.id
  · -- flagged: the rebase ran, and it refuses overlapping rows
    obtain ⟨hd, hu⟩ := finish_cases (U0 := upd) (R0 := rem) hf
    have hcase : (∀ id, ¬ flagged rb id) ∨ ∃ A', rb.affected = some A' ∧ rowConflict latest.m (toRewrite rb.initial) A' = false := by
      rcases hop with hop | ⟨n, hop⟩
      · rcases hd (by rw [htx]; exact hop) with ⟨_, h2⟩ | ⟨A', h1, h2, _⟩
        · exact Or.inl h2
        · exact Or.inr ⟨A', h1, h2⟩
      · rcases hu n (by rw [htx]; exact hop) with ⟨_, h2⟩ | ⟨A', h1, h2, _⟩
        · exact Or.inl h2
        · exact Or.inr ⟨A', h1, h2⟩
    rcases hcase with hnf | ⟨A', h1, h2⟩
    · exact absurd hfl (hnf _)
    · have h3 := tryNew_affected ((checkAll_keep hrb).2.2.symm.trans h1)
      rw [haff] at h3; cases h3
      have := rowConflict_false h2 ha (by rw [← hid]; exact flagged_iff.1 hfl)
      rw [← hid, ← hgid, existingDel_eq hw hg] at this
      exact this
  · rw [hdel hfl]; exact hnd

/-! ### Lemma A for the row `check_rewrite_txn` -/

def allOlds (groups : List Group) : List Frag := groups.flatMap (·.olds)

/-- every fragment the Rewrite replaces is there, with the physical rows and the deletion vector it read -/
def FrameRW (groups : List Group) (m : Manifest) : Prop :=
  ∀ o ∈ allOlds groups, ∃ g ∈ m.frags, g.id = o.id ∧ g.phys = o.phys ∧ g.del = o.del

theorem mem_oldIds {groups : List Group} {o : Frag} (ho : o ∈ allOlds groups) : o.id ∈ oldIds groups := by
  simp only [allOlds, List.mem_flatMap] at ho
  obtain ⟨g, hg, hog⟩ := ho
  simp only [oldIds, List.mem_flatMap, List.mem_map]
  exact ⟨g, hg, o, hog, rfl⟩

theorem frameRW_step {prev next : Manifest} {rb rb' : Rebase} {op : Op} {gs : List Group} {ri : List (Nat × Nat)}
    (hop : rb.txn.op = .rewrite gs ri) (hmod : rb.modified = oldIds gs)
    (hb : buildManifest prev op = .ok next) (hc : checkTxn rb op = .ok rb') (hF : FrameRW gs prev) :
    FrameRW gs next := by
  have keep : (∀ g ∈ prev.frags, g.id ∈ oldIds gs → ∃ g' ∈ next.frags, g'.id = g.id ∧ g'.phys = g.phys ∧ g'.del = g.del) →
      FrameRW gs next := by
    intro hk o ho
    obtain ⟨g, hg, h1, h2, h3⟩ := hF o ho
    obtain ⟨g', hg', k1, k2, k3⟩ := hk g hg (by rw [h1]; exact mem_oldIds ho)
    exact ⟨g', hg', k1.trans h1, k2.trans h2, k3.trans h3⟩
  cases op with
  | append frs => exact keep (fun g hg _ => keeps_append hb g hg)
  | reserve n => exact keep (fun g hg _ => keeps_reserve hb g hg)
  | project s => exact keep (fun g hg _ => keeps_project hb g hg)
  | createIndex a b => exact keep (fun g hg _ => keeps_createIndex hb g hg)
  | overwrite s frs => simp only [checkTxn, hop, Op.kind, skeleton] at hc; cases hc
  | merge s frs => simp only [checkTxn, hop, Op.kind, skeleton] at hc; cases hc
  | rewrite gs2 ri2 =>
    simp only [checkTxn, hop, Op.kind, skeleton, condArm] at hc
    split at hc
    · cases hc
    · rename_i hno
      apply keep
      intro g hg hid
      refine ⟨g, keeps_rewrite hb g hg ?_, rfl, rfl, rfl⟩
      intro hin
      simp only [Bool.not_eq_true, List.any_eq_false, List.contains_eq_mem, decide_eq_true_eq] at hno
      exact hno g.id hin (by rw [hmod]; exact hid)
  | delete upd rem =>
    simp only [checkTxn, hop, Op.kind, skeleton, condArm] at hc
    split at hc
    · cases hc
    · rename_i hno
      apply keep
      intro g hg hid
      simp only [Bool.not_eq_true, List.any_eq_false, List.mem_append, List.mem_map, List.contains_eq_mem,
        decide_eq_true_eq] at hno
      have hr : g.id ∉ rem := fun hh => hno g.id (Or.inr hh) (by rw [hmod]; exact hid)
      obtain ⟨g', hg', hid', hcase⟩ := delupd_survive (Or.inl rfl) hb g hg hr
      rcases hcase with ⟨rfl, _⟩ | hu
      · exact ⟨g', hg', rfl, rfl, rfl⟩
      · exact absurd (by rw [hmod]; exact hid) (hno g.id (Or.inl ⟨g', hu, hid'⟩))
  | update rem upd new =>
    simp only [checkTxn, hop, Op.kind, skeleton, condArm] at hc
    split at hc
    · cases hc
    · rename_i hno
      apply keep
      intro g hg hid
      simp only [Bool.not_eq_true, List.any_eq_false, List.mem_append, List.mem_map, List.contains_eq_mem,
        decide_eq_true_eq] at hno
      have hr : g.id ∉ rem := fun hh => hno g.id (Or.inr hh) (by rw [hmod]; exact hid)
      obtain ⟨g', hg', hid', hcase⟩ := delupd_survive (Or.inr ⟨new, rfl⟩) hb g hg hr
      rcases hcase with ⟨rfl, _⟩ | hu
      · exact ⟨g', hg', rfl, rfl, rfl⟩
      · exact absurd (by rw [hmod]; exact hid) (hno g.id (Or.inl ⟨g', hu, hid'⟩))

theorem frameRW_latest {h : Hist} (hinv : Inv h) {t : Txn} {mRead : Manifest} {gs : List Group} {ri : List (Nat × Nat)}
    (hop : t.op = .rewrite gs ri) (hB : Built mRead t) (hm : manifestAt h t.read = some mRead) {rb : Rebase}
    (hc : checkAll (tryNew mRead t) (since h t.read) = .ok rb) :
    ∃ latest rest, h = latest :: rest ∧ FrameRW gs latest.m := by
  have hbase : FrameRW gs mRead := by
    intro o ho
    simp only [Built, hop] at hB
    simp only [allOlds, List.mem_flatMap] at ho
    obtain ⟨g, hg, hog⟩ := ho
    exact ⟨o, hB g hg o hog, rfl, rfl, rfl⟩
  have := chain_fold (P := fun rb m => FrameRW gs m ∧ rb.txn = t ∧ rb.modified = oldIds gs) h hinv.chain hinv.wf t.read
    mRead hm (tryNew mRead t) ⟨hbase, tryNew_txn _ _, by simp [tryNew, hop]⟩
    (by
      intro prev next op rb rb' hb _ _ _ hc ⟨hF, htx, hmod⟩
      exact ⟨frameRW_step (by rw [htx]; exact hop) hmod hb hc hF, (checkTxn_keep hc).1.trans htx,
        (checkTxn_keep hc).2.1.trans hmod⟩)
    rb hc
  obtain ⟨latest, rest, hl, hF, _⟩ := this
  exact ⟨latest, rest, hl, hF⟩

end LanceModel.C03
