import LanceModel.C03.ProjectStep
import LanceModel.C03.RewriteStep
import LanceModel.C03.MergeStep
/-
C03 — runs: the invariant along a run of commits, and the serial replay of a run.
-/
namespace LanceModel.C03

/-- the transaction was built against the version it says it read; a Rewrite carries reserved fragment ids that are
    unused on the version it is committed on -/
def Valid (h : Hist) (t : Txn) : Prop :=
  (∀ mRead, manifestAt h t.read = some mRead → Built mRead t) ∧
  (∀ gs ri, t.op = .rewrite gs ri → ∀ latest rest, h = latest :: rest → FreshNews latest.m gs)

/-- every transaction of the run is valid when its turn to commit comes (it may have been built against a version
    that an earlier transaction of the run created) -/
def ValidRun : Hist → List Txn → Prop
  | _, [] => True
  | h, t :: ts => Valid h t ∧ ValidRun (step h t) ts

/-- the serial replay of a run: the effects of the transactions that commit, each computed at its read version,
    applied in commit order; a transaction whose commit fails contributes nothing -/
def replay : Hist → List Txn → Tbl → Tbl
  | _, [], tb => tb
  | h, t :: ts, tb =>
    match commit h t, manifestAt h t.read with
    | .ok h', some mRead => replay h' ts (applyEff (eff mRead t) tb)
    | _, _ => replay h ts tb

theorem applyEff_congr (e : Effect) {a b : Tbl} (h : a.Same b) : (applyEff e a).Same (applyEff e b) := by
  obtain ⟨hs, hn, hr⟩ := h
  cases e <;> simp only [applyEff, Tbl.Same, hs, hn, true_and] <;>
    (try refine ⟨trivial, ?_⟩) <;> (try refine ⟨rfl, ?_⟩) <;> intro x <;>
    simp only [List.mem_append, List.mem_filter, List.mem_map, hr]

theorem same_refl (a : Tbl) : a.Same a := ⟨rfl, rfl, fun _ => Iff.rfl⟩

theorem same_trans {a b c : Tbl} (h1 : a.Same b) (h2 : b.Same c) : a.Same c :=
  ⟨h1.1.trans h2.1, h1.2.1.trans h2.2.1, fun x => (h1.2.2 x).trans (h2.2.2 x)⟩

theorem replay_congr (h : Hist) (ts : List Txn) {a b : Tbl} (hab : a.Same b) :
    (replay h ts a).Same (replay h ts b) := by
  induction ts generalizing h a b with
  | nil => exact hab
  | cons t ts ih =>
    simp only [replay]
    split
    · exact ih _ (applyEff_congr _ hab)
    · exact ih _ hab

/-- one committed step, whatever the kind: the serial-replay step, and the invariant is kept -/
theorem step_covered {h h' : Hist} {t : Txn} (hinv : Inv h) (hv : Valid h t)
    (hc : commit h t = .ok h') : StepOk h h' t ∧ Inv h' := by
  cases hop : t.op with
  | append frs =>
    refine ⟨step_append hinv hc hop, ?_⟩
    obtain ⟨latest, rest, mRead, m', rfl, _, hb, rfl⟩ := commit_plain hc (by rw [hop]; simp [Op.kind])
    rw [hop] at hb ⊢
    obtain ⟨a, b⟩ := good_append (hinv.wf latest (by simp)) hb
    exact inv_push hinv hb a (fun _ => b)
  | overwrite s frs =>
    refine ⟨step_overwrite hc hop, ?_⟩
    obtain ⟨latest, rest, mRead, m', rfl, _, hb, rfl⟩ := commit_plain hc (by rw [hop]; simp [Op.kind])
    rw [hop] at hb ⊢
    exact inv_push hinv hb (good_overwrite hb) (fun hh => by simp [isOverwrite] at hh)
  | createIndex a b =>
    refine ⟨step_createIndex hinv hc hop, ?_⟩
    obtain ⟨latest, rest, mRead, m', rfl, _, hb, rfl⟩ := commit_plain hc (by rw [hop]; simp [Op.kind])
    rw [hop] at hb ⊢
    obtain ⟨a', b'⟩ := good_createIndex (hinv.wf latest (by simp)) hb
    exact inv_push hinv hb a' (fun _ => b')
  | reserve n =>
    refine ⟨step_reserve hinv hc hop, ?_⟩
    obtain ⟨latest, rest, mRead, m', rfl, _, hb, rfl⟩ := commit_plain hc (by rw [hop]; simp [Op.kind])
    rw [hop] at hb ⊢
    obtain ⟨a', b'⟩ := good_reserve (hinv.wf latest (by simp)) hb
    exact inv_push hinv hb a' (fun _ => b')
  | project s =>
    refine ⟨step_project hinv hc hop hv.1, ?_⟩
    obtain ⟨latest, rest, mRead, m', rfl, _, hb, rfl⟩ := commit_plain hc (by rw [hop]; simp [Op.kind])
    rw [hop] at hb ⊢
    obtain ⟨a', b'⟩ := good_project (hinv.wf latest (by simp)) hb
    exact inv_push hinv hb a' (fun _ => b')
  | delete upd rem =>
    refine ⟨step_delete hinv hc hop hv.1, ?_⟩
    obtain ⟨latest, rest, mRead, A, U, R, m', rfl, _, _, hfin, hcase⟩ := delupd_commit hinv hc (Or.inl hop) hv.1
    rcases hcase with ⟨_, hb, rfl⟩ | ⟨n, hop', _⟩
    · obtain ⟨a', b'⟩ := good_delete (hinv.wf latest (by simp)) hfin hb
      exact inv_push hinv hb a' (fun _ => b')
    · rw [hop] at hop'; cases hop'
  | update rem upd new =>
    refine ⟨step_update hinv hc hop hv.1, ?_⟩
    obtain ⟨latest, rest, mRead, A, U, R, m', rfl, _, _, hfin, hcase⟩ := delupd_commit hinv hc (Or.inr ⟨new, hop⟩) hv.1
    rcases hcase with ⟨hop', _, _⟩ | ⟨n, hop', hb, rfl⟩
    · rw [hop] at hop'; cases hop'
    · obtain ⟨a', b'⟩ := good_update (hinv.wf latest (by simp)) hfin hb
      exact inv_push hinv hb a' (fun _ => b')
  | rewrite gs ri => exact step_rewrite hinv hc hop (hv.2 gs ri hop)
  | merge s frs => exact step_merge hinv hc hop hv.1

theorem inv_step {h : Hist} {t : Txn} (hinv : Inv h) (hv : Valid h t) :
    Inv (step h t) := by
  unfold step
  split
  · rename_i h' hc; exact (step_covered hinv hv hc).2
  · exact hinv

theorem inv_run {h : Hist} {ts : List Txn} (hinv : Inv h) (hv : ValidRun h ts) : Inv (run h ts) := by
  induction ts generalizing h with
  | nil => exact hinv
  | cons t ts ih => exact ih (inv_step hinv hv.1) hv.2

end LanceModel.C03
