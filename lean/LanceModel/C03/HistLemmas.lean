import LanceModel.C03.BuildLemmas
/-
C03 — commit_transaction: shape of a successful commit, what the check loop keeps, simple row lemmas.
-/
namespace LanceModel.C03

theorem rowsOf_congr {fs fs' : List Frag} (h : ∀ g, g ∈ fs ↔ g ∈ fs') (x : Addr × PRow) :
    x ∈ rowsOf fs ↔ x ∈ rowsOf fs' := by
  simp only [mem_rowsOf]
  constructor <;> (rintro ⟨f, hf, r⟩; exact ⟨f, by first | exact (h f).1 hf | exact (h f).2 hf, r⟩)

theorem mem_rowsOf_append (a b : List Frag) (x : Addr × PRow) :
    x ∈ rowsOf (a ++ b) ↔ x ∈ rowsOf a ∨ x ∈ rowsOf b := by
  simp [rowsOf, List.flatMap_append]

theorem rowsOf_sort (fs : List Frag) (x : Addr × PRow) : x ∈ rowsOf (sortFrags fs) ↔ x ∈ rowsOf fs :=
  rowsOf_congr (fun g => mem_sortFrags g fs) x

theorem maxIdNext_le (fs : List Frag) (n : Nat) (h : ∀ f ∈ fs, f.id < n) : maxIdNext fs ≤ n := by
  unfold maxIdNext
  suffices hh : ∀ acc, acc ≤ n → fs.foldl (fun acc f => max acc (f.id + 1)) acc ≤ n from hh 0 (Nat.zero_le _)
  induction fs with
  | nil => intro acc h; simpa using h
  | cons a t ih =>
    intro acc hacc
    simp only [List.foldl_cons]
    apply ih (fun f hf => h f (by simp [hf]))
    have := h a (by simp)
    omega

theorem maxIdNext_append (a b : List Frag) : maxIdNext (a ++ b) = max (maxIdNext a) (maxIdNext b) := by
  unfold maxIdNext
  rw [List.foldl_append]
  suffices hh : ∀ (l : List Frag) (x : Nat), l.foldl (fun acc f => max acc (f.id + 1)) x
      = max x (l.foldl (fun acc f => max acc (f.id + 1)) 0) from hh b _
  intro l
  induction l with
  | nil => intro x; simp
  | cons c t ih =>
    intro x
    simp only [List.foldl_cons]
    rw [ih (max x (c.id + 1)), ih (max 0 (c.id + 1))]
    omega

/-! ### the check loop keeps the transaction -/

theorem checkDelUpd_keep {rb rb' : Rebase} {upd : List Frag} {rem : List Nat} (h : checkDelUpd rb upd rem = .ok rb') :
    rb'.txn = rb.txn ∧ rb'.modified = rb.modified ∧ rb'.affected = rb.affected := by
  unfold checkDelUpd at h
  repeat' split at h
  all_goals first | (cases h; exact ⟨rfl, rfl, rfl⟩) | cases h

theorem condArm_keep {rb rb' : Rebase} {o : Op} (h : condArm rb o = .ok rb') :
    rb'.txn = rb.txn ∧ rb'.modified = rb.modified ∧ rb'.affected = rb.affected := by
  unfold condArm at h
  split at h
  all_goals first
    | exact checkDelUpd_keep h
    | (split at h <;> first | (cases h; exact ⟨rfl, rfl, rfl⟩) | cases h)
    | (cases h; exact ⟨rfl, rfl, rfl⟩)

theorem checkTxn_keep {rb rb' : Rebase} {o : Op} (h : checkTxn rb o = .ok rb') :
    rb'.txn = rb.txn ∧ rb'.modified = rb.modified ∧ rb'.affected = rb.affected := by
  unfold checkTxn at h
  split at h
  · cases h; exact ⟨rfl, rfl, rfl⟩
  · cases h
  · cases h
  · exact condArm_keep h

theorem checkAll_keep {ops : List Op} {rb rb' : Rebase} (h : checkAll rb ops = .ok rb') :
    rb'.txn = rb.txn ∧ rb'.modified = rb.modified ∧ rb'.affected = rb.affected := by
  induction ops generalizing rb with
  | nil => simp only [checkAll] at h; cases h; exact ⟨rfl, rfl, rfl⟩
  | cons o os ih =>
    simp only [checkAll] at h
    split at h
    · cases h
    · rename_i rb1 h1
      obtain ⟨a, b, c⟩ := ih h
      obtain ⟨a', b', c'⟩ := checkTxn_keep h1
      exact ⟨a.trans a', b.trans b', c.trans c'⟩

theorem checkAll_append (rb : Rebase) (xs : List Op) (o : Op) :
    checkAll rb (xs ++ [o]) = (match checkAll rb xs with
      | .error c => .error c
      | .ok rb' => checkTxn rb' o) := by
  induction xs generalizing rb with
  | nil =>
    simp only [List.nil_append, checkAll]
    cases checkTxn rb o <;> rfl
  | cons x t ih =>
    simp only [List.cons_append, checkAll]
    cases checkTxn rb x with
    | error c => rfl
    | ok rb1 => exact ih rb1

theorem tryNew_txn (m : Manifest) (t : Txn) : (tryNew m t).txn = t := by
  unfold tryNew
  repeat' split
  all_goals rfl

/-- shape of a successful commit -/
theorem commit_ok {h h' : Hist} {t : Txn} (hc : commit h t = .ok h') :
    ∃ latest rest mRead rb t' m', h = latest :: rest ∧ manifestAt h t.read = some mRead ∧
      checkAll (tryNew mRead t) (since h t.read) = .ok rb ∧ finish latest.m rb = .ok t' ∧
      buildManifest latest.m t'.op = .ok m' ∧ h' = { m := m', op := t'.op } :: h := by
  unfold commit at hc
  split at hc
  · cases hc
  · cases hc
  · rename_i latest rest mRead hm
    split at hc
    · cases hc
    · rename_i rb hrb
      split at hc
      · cases hc
      · rename_i t' ht'
        split at hc
        · cases hc
        · rename_i m' hm'
          cases hc
          exact ⟨latest, rest, mRead, rb, t', m', rfl, hm, hrb, ht', hm', rfl⟩

/-- for every kind but Delete and Update the rebase returns the transaction as it is -/
theorem finish_other {latest : Manifest} {rb : Rebase} {t' : Txn} (h : finish latest rb = .ok t')
    (hk : rb.txn.op.kind ≠ .delete ∧ rb.txn.op.kind ≠ .update) : t' = rb.txn := by
  unfold finish at h
  split at h
  · rename_i heq; rw [heq] at hk; exact absurd rfl hk.1
  · rename_i heq; rw [heq] at hk; exact absurd rfl hk.2
  · cases h; rfl

end LanceModel.C03
