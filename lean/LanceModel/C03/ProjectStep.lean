import LanceModel.C03.InvLemmas
/-
C03 — a committed Project (drop columns) is the serial-replay step of its effect: the check lets it pass only over
transactions that keep the schema.
-/
namespace LanceModel.C03

/-- every arm but Overwrite, Merge and Project publishes the schema it found -/
theorem build_schema {cur m' : Manifest} {op : Op} (h : buildManifest cur op = .ok m')
    (hk : op.kind ≠ .overwrite ∧ op.kind ≠ .merge ∧ op.kind ≠ .project) : m'.schema = cur.schema := by
  cases op with
  | append frs => rw [build_append h]; rfl
  | delete upd rem => rw [build_delete h]; rfl
  | update rem upd new => rw [build_update h]; rfl
  | overwrite s frs => exact absurd rfl hk.1
  | rewrite gs ri => obtain ⟨fs, next, ixs, _, rfl⟩ := build_rewrite h; rfl
  | createIndex new rm => exact (build_createIndex h).2.1
  | reserve n => exact (build_reserve h).2.1
  | merge s frs => exact absurd rfl hk.2.1
  | project s => exact absurd rfl hk.2.2

theorem schema_step {prev next : Manifest} {rb rb' : Rebase} {op : Op} (hk : rb.txn.op.kind = .project)
    (hb : buildManifest prev op = .ok next) (hc : checkTxn rb op = .ok rb') : next.schema = prev.schema := by
  apply build_schema hb
  unfold checkTxn at hc
  rw [hk] at hc
  cases op <;> simp [skeleton, Op.kind] at hc ⊢

theorem schema_latest {h : Hist} (hinv : Inv h) {t : Txn} {mRead : Manifest} (hk : t.op.kind = .project)
    (hm : manifestAt h t.read = some mRead) {rb : Rebase}
    (hc : checkAll (tryNew mRead t) (since h t.read) = .ok rb) :
    ∃ latest rest, h = latest :: rest ∧ latest.m.schema = mRead.schema := by
  have := chain_fold (P := fun rb m => m.schema = mRead.schema ∧ rb.txn = t) h hinv.chain hinv.wf t.read mRead hm
    (tryNew mRead t) ⟨rfl, tryNew_txn _ _⟩
    (by
      intro prev next op rb rb' hb _ _ _ hc ⟨hs, htx⟩
      exact ⟨(schema_step (by rw [htx]; exact hk) hb hc).trans hs, (checkTxn_keep hc).1.trans htx⟩)
    rb hc
  obtain ⟨latest, rest, hl, hs, _⟩ := this
  exact ⟨latest, rest, hl, hs⟩

theorem filter_drop (S : List Fld) (keep : Fld → Bool) :
    S.filter (fun f => !(S.filter (fun f => !(S.filter keep).contains f)).contains f) = S.filter keep := by
  apply List.filter_congr
  intro f hf
  by_cases hk : keep f = true
  · simp [hk, hf]
  · simp [hk, hf]

theorem step_project {h h' : Hist} {t : Txn} {s : List Fld} (hinv : Inv h) (hc : commit h t = .ok h')
    (hop : t.op = .project s) (hB : ∀ mRead, manifestAt h t.read = some mRead → Built mRead t) :
    StepOk h h' t := by
  obtain ⟨latest, rest, mRead, rb, t', m', rfl, hm, hrb, hf, hb, rfl⟩ := commit_ok hc
  have hrt : rb.txn = t := (checkAll_keep hrb).1.trans (tryNew_txn _ _)
  have : t' = t := by
    rw [← hrt]; exact finish_other hf (by rw [hrt, hop]; simp [Op.kind])
  subst this
  obtain ⟨l2, r2, hl, hs⟩ := schema_latest hinv (by rw [hop]; rfl) hm hrb
  cases hl
  have hw := hinv.wf latest (by simp)
  have hB' := hB mRead hm
  simp only [Built, hop] at hB'
  obtain ⟨keep, rfl⟩ := hB'
  rw [hop] at hb
  refine ⟨latest, rest, mRead, _, rfl, rfl, hm, ?_⟩
  rw [build_project hb]
  refine ⟨?_, ?_, ?_⟩
  · simp only [abs, eff, hop, applyEff, mkManifest, hs]
    exact (filter_drop mRead.schema keep).symm
  · simp only [abs, eff, hop, applyEff, mkManifest]
    have := maxIdNext_le (latest.m.frags.map (fun f => { f with files := f.files.filter (fun fl => fl.any (fun x => (mRead.schema.filter keep).any (fun t => t.id == x))) })) latest.m.nextFrag (by
      intro g hg
      simp only [List.mem_map] at hg
      obtain ⟨g0, hg0, rfl⟩ := hg
      exact hw.bound g0 hg0)
    omega
  · intro x
    simp only [abs, eff, hop, applyEff, mkManifest]
    rw [rowsOf_sort]
    simp only [mem_rowsOf, List.mem_map]
    constructor
    · rintro ⟨g, ⟨g0, hg0, rfl⟩, h1, h2, h3⟩; exact ⟨g0, hg0, h1, h2, h3⟩
    · rintro ⟨g0, hg0, h1, h2, h3⟩; exact ⟨_, ⟨g0, hg0, rfl⟩, h1, h2, h3⟩

end LanceModel.C03
