/-
C03 — concurrent transactions serialise: the MODEL (import-free).

Counterparts in lance (pinned commit + `fix:` commits):
  rust/lance/src/io/commit/conflict_resolver.rs   TransactionRebase::{try_new, check_txn, check_*_txn, finish,
                                                  finish_delete_update}, initial_fragments_for_rebase
  rust/lance/src/io/commit.rs                     commit_transaction (one attempt: load the transactions committed after
                                                  the read version in version order, check each, rebase, build on the latest)
  rust/lance/src/dataset/transaction.rs           Transaction::build_manifest (arms Append, Delete, Update, Overwrite,
                                                  Rewrite, CreateIndex, ReserveFragments, Merge, Project),
                                                  fragments_with_ids, handle_rewrite_fragments, handle_rewrite_indices,
                                                  recalculate_fragment_bitmap, retain_relevant_indices (field rule)

Data model.  A physical row is an association list field id -> cell (what the data files of the fragment store for
that row).  A fragment is (id, files = the field-id lists of its data files, physical rows, deleted offsets).  The real
`Fragment.files` comparison in the Delete/Update arm compares file paths; in the modelled alphabet a fragment's data
files change only together with their field lists or contents, so the model compares (files, phys).
A deletion file is modelled by its set of offsets (a list; `!=` on deletion files is `!=` on the lists: within the
alphabet a deletion file is only ever replaced by a strictly larger one).

Append / Update / Overwrite carry their new fragments WITHOUT ids (`NewFrag`): the writers leave `id = 0`, which
`fragments_with_ids` reads as "assign the next id".  Rewrite carries the ids `reserve_fragment_ids` handed out.
-/
namespace LanceModel.C03

abbrev Cell := Option Int
/-- what the data files of a fragment hold for one physical row: field id -> cell -/
abbrev PRow := List (Nat × Cell)
/-- row address (fragment id, offset) -/
abbrev Addr := Nat × Nat

structure Frag where
  id : Nat
  files : List (List Nat)
  phys : List PRow
  del : List Nat
  deriving DecidableEq, Repr

structure NewFrag where
  files : List (List Nat)
  phys : List PRow
  deriving DecidableEq, Repr

structure Fld where
  id : Nat
  name : Nat
  deriving DecidableEq, Repr

structure Index where
  name : Nat
  uuid : Nat
  fields : List Nat
  bitmap : List Nat
  deriving DecidableEq, Repr

/-- the part of `Manifest` that `build_manifest` reads and writes.  `nextFrag` = `max_fragment_id + 1`
    (0 = `max_fragment_id` is None) -/
structure Manifest where
  version : Nat
  schema : List Fld
  frags : List Frag
  indices : List Index
  nextFrag : Nat
  deriving DecidableEq, Repr

structure Group where
  olds : List Frag
  news : List Frag
  deriving DecidableEq, Repr

/-- the modelled variants of `Operation` -/
inductive Op where
  | append (frs : List NewFrag)
  | delete (upd : List Frag) (rem : List Nat)
  | update (rem : List Nat) (upd : List Frag) (new : List NewFrag)
  | overwrite (schema : List Fld) (frs : List NewFrag)
  | rewrite (groups : List Group) (rewritten : List (Nat × Nat))
  | createIndex (new : List Index) (removed : List Index)
  | reserve (n : Nat)
  | merge (schema : List Fld) (frs : List Frag)
  | project (schema : List Fld)
  deriving DecidableEq, Repr

/-- a transaction together with the `affected_rows` handed to `CommitBuilder::with_affected_rows` -/
structure Txn where
  read : Nat
  op : Op
  affected : Option (List Addr)
  deriving DecidableEq, Repr

/-! ## the conflict matrix skeleton -/

/-- the 15 variants of `Operation` -/
inductive Kind where
  | append | delete | update | overwrite | rewrite | createIndex | dataReplacement | merge | restore
  | reserveFragments | project | updateConfig | updateMemWalState | clone | updateBases
  deriving DecidableEq, Repr

def Kind.all : List Kind :=
  [.append, .delete, .update, .overwrite, .rewrite, .createIndex, .dataReplacement, .merge, .restore,
   .reserveFragments, .project, .updateConfig, .updateMemWalState, .clone, .updateBases]

/-- shape of one match arm of a `check_*_txn` function -/
inductive Arm where
  | ok        -- `Ok(())`
  | retry     -- `Err(self.retryable_conflict_err(..))`
  | incompat  -- `Err(self.incompatible_conflict_err(..))`
  | cond      -- anything computed
  deriving DecidableEq, Repr

/-- `TransactionRebase::check_txn` + the fifteen `check_*_txn`: skeleton of the arm for (own, other).
    `Gen.skeleton` (generated from the source on every run) must be equal to this table. -/
def skeleton : Kind → Kind → Arm
  -- check_delete_txn
  | .delete, .createIndex | .delete, .reserveFragments | .delete, .clone | .delete, .project | .delete, .append
  | .delete, .updateConfig | .delete, .updateBases => .ok
  | .delete, .rewrite | .delete, .dataReplacement | .delete, .update | .delete, .delete => .cond
  | .delete, .merge => .retry
  | .delete, .overwrite | .delete, .restore | .delete, .updateMemWalState => .incompat
  -- check_update_txn
  | .update, .createIndex | .update, .reserveFragments | .update, .project | .update, .append | .update, .clone
  | .update, .updateConfig | .update, .updateBases => .ok
  | .update, .rewrite | .update, .dataReplacement | .update, .update | .update, .delete
  | .update, .updateMemWalState => .cond
  | .update, .merge => .retry
  | .update, .overwrite | .update, .restore => .incompat
  -- check_create_index_txn
  | .createIndex, .append | .createIndex, .clone | .createIndex, .updateBases | .createIndex, .delete
  | .createIndex, .update | .createIndex, .merge | .createIndex, .reserveFragments | .createIndex, .project
  | .createIndex, .updateConfig => .ok
  | .createIndex, .createIndex | .createIndex, .rewrite | .createIndex, .dataReplacement => .cond
  | .createIndex, .overwrite | .createIndex, .restore | .createIndex, .updateMemWalState => .incompat
  -- check_rewrite_txn
  | .rewrite, .append | .rewrite, .reserveFragments | .rewrite, .project | .rewrite, .clone | .rewrite, .updateConfig
  | .rewrite, .updateMemWalState | .rewrite, .updateBases => .ok
  | .rewrite, .delete | .rewrite, .update | .rewrite, .rewrite | .rewrite, .dataReplacement
  | .rewrite, .createIndex => .cond
  | .rewrite, .merge => .retry
  | .rewrite, .overwrite | .rewrite, .restore => .incompat
  -- check_overwrite_txn
  | .overwrite, .overwrite | .overwrite, .updateConfig => .cond
  | .overwrite, .updateMemWalState => .incompat
  | .overwrite, _ => .ok
  -- check_append_txn
  | .append, .overwrite | .append, .restore | .append, .updateMemWalState => .incompat
  | .append, _ => .ok
  -- check_data_replacement_txn
  | .dataReplacement, .append | .dataReplacement, .clone | .dataReplacement, .delete | .dataReplacement, .update
  | .dataReplacement, .merge | .dataReplacement, .updateConfig | .dataReplacement, .reserveFragments
  | .dataReplacement, .project | .dataReplacement, .updateBases => .ok
  | .dataReplacement, .createIndex | .dataReplacement, .rewrite | .dataReplacement, .dataReplacement => .cond
  | .dataReplacement, .overwrite | .dataReplacement, .restore | .dataReplacement, .updateMemWalState => .incompat
  -- check_merge_txn
  | .merge, .createIndex | .merge, .reserveFragments | .merge, .clone | .merge, .updateConfig
  | .merge, .updateBases => .ok
  | .merge, .update | .merge, .append | .merge, .delete | .merge, .rewrite | .merge, .merge
  | .merge, .dataReplacement => .retry
  | .merge, .overwrite | .merge, .restore | .merge, .project | .merge, .updateMemWalState => .incompat
  -- check_restore_txn
  | .restore, .updateMemWalState => .incompat
  | .restore, _ => .ok
  -- check_reserve_fragments_txn
  | .reserveFragments, .overwrite | .reserveFragments, .restore => .incompat
  | .reserveFragments, _ => .ok
  -- check_project_txn
  | .project, .merge | .project, .project => .retry
  | .project, .overwrite | .project, .restore | .project, .updateMemWalState => .incompat
  | .project, _ => .ok
  -- check_update_config_txn
  | .updateConfig, .overwrite | .updateConfig, .updateConfig => .cond
  | .updateConfig, _ => .ok
  -- check_update_mem_wal_state_txn
  | .updateMemWalState, .updateMemWalState | .updateMemWalState, .update => .cond
  | .updateMemWalState, .updateConfig | .updateMemWalState, .rewrite | .updateMemWalState, .createIndex
  | .updateMemWalState, .reserveFragments | .updateMemWalState, .updateBases => .ok
  | .updateMemWalState, _ => .incompat
  -- `Operation::Clone { .. } => Ok(())`
  | .clone, _ => .ok
  -- check_add_bases_txn
  | .updateBases, .updateBases => .cond
  | .updateBases, _ => .ok

def Op.kind : Op → Kind
  | .append _ => .append
  | .delete _ _ => .delete
  | .update _ _ _ => .update
  | .overwrite _ _ => .overwrite
  | .rewrite _ _ => .rewrite
  | .createIndex _ _ => .createIndex
  | .reserve _ => .reserveFragments
  | .merge _ _ => .merge
  | .project _ => .project

/-! ## small list helpers -/

def fragAt (fs : List Frag) (id : Nat) : Option Frag := fs.find? (fun f => f.id == id)

/-- set union on lists (left operand first) -/
def unionNat (a b : List Nat) : List Nat := a ++ b.filter (fun x => !a.contains x)

/-- offsets of the affected rows that lie in fragment `f` -/
def offsetsIn (A : List Addr) (f : Nat) : List Nat := (A.filter (fun a => a.1 == f)).map (·.2)

/-- stable insertion sort by fragment id (`final_fragments.sort_by_key(|frag| frag.id)`) -/
def insertFrag (x : Frag) : List Frag → List Frag
  | [] => [x]
  | y :: t => if x.id < y.id then x :: y :: t else y :: insertFrag x t

def sortFrags (l : List Frag) : List Frag := l.foldr insertFrag []

/-! ## TransactionRebase -/

inductive Conflict where
  | retryable | incompatible
  deriving DecidableEq, Repr

inductive Err where
  | conflict (c : Conflict)
  /-- `Error::InvalidInput` out of build_manifest -/
  | invalid
  /-- `Error::Internal` -/
  | internal
  /-- an index out of bounds / unwrap on None in the real code -/
  | panic
  deriving DecidableEq, Repr

/-- `TransactionRebase` (without the frag-reuse-index bookkeeping) -/
structure Rebase where
  txn : Txn
  /-- `initial_fragments`: the fragments the transaction modifies as they were at its read version, with the
      `needs_rewrite` flag -/
  initial : List (Frag × Bool)
  modified : List Nat
  affected : Option (List Addr)
  deriving DecidableEq, Repr

/-- `initial_fragments_for_rebase` -/
def initialFragments (mRead : Manifest) (modified : List Nat) : List (Frag × Bool) :=
  (mRead.frags.filter (fun f => modified.contains f.id)).map (fun f => (f, false))

def oldIds (groups : List Group) : List Nat := groups.flatMap (fun g => g.olds.map (·.id))

/-- `TransactionRebase::try_new`; `mRead` = the manifest of the transaction's read version -/
def tryNew (mRead : Manifest) (t : Txn) : Rebase :=
  match t.op with
  | .delete upd rem | .update rem upd _ =>
    if upd.isEmpty && t.affected.isSome then
      { txn := t, initial := [], modified := upd.map (·.id) ++ rem, affected := none }
    else
      { txn := t, initial := initialFragments mRead (upd.map (·.id) ++ rem), modified := upd.map (·.id) ++ rem,
        affected := t.affected }
  | .rewrite groups _ =>
    { txn := t, initial := initialFragments mRead (oldIds groups), modified := oldIds groups, affected := t.affected }
  | .merge _ frs =>
    { txn := t, initial := initialFragments mRead (frs.map (·.id)), modified := frs.map (·.id), affected := t.affected }
  | _ => { txn := t, initial := [], modified := [], affected := t.affected }

/-- "data files, not just deletion files, are modified" — see the header for why (files, phys) -/
def filesDiffer (a b : Frag) : Bool := a.files != b.files || a.phys != b.phys

/-- the `for updated in updated_fragments` loop of the Delete/Update arm: some fragment of ours had its data
    files changed by the other transaction -/
def anyFilesDiffer (initial : List (Frag × Bool)) (upd : List Frag) : Bool :=
  upd.any (fun u => initial.any (fun p => p.1.id == u.id && filesDiffer p.1 u))

/-- `*needs_rewrite |= updated.deletion_file != fragment.deletion_file` over the loop -/
def markRewrites (initial : List (Frag × Bool)) (upd : List Frag) : List (Frag × Bool) :=
  initial.map (fun p => (p.1, p.2 || upd.any (fun u => u.id == p.1.id && u.del != p.1.del)))

/-- the `Operation::Update | Operation::Delete` arm of check_delete_txn / check_update_txn -/
def checkDelUpd (rb : Rebase) (upd : List Frag) (rem : List Nat) : Except Conflict Rebase :=
  if !((upd.map (·.id) ++ rem).any (fun id => rb.modified.contains id)) then .ok rb
  else if rb.affected.isNone then .error .retryable
  else if anyFilesDiffer rb.initial upd then .error .retryable
  else if rem.any (fun r => rb.initial.any (fun p => p.1.id == r)) then .error .retryable
  else .ok { rb with initial := markRewrites rb.initial upd }

/-- `affected_ids` of the CreateIndex/Rewrite arms: the union of the new indices' fragment bitmaps
    (every modelled index has a bitmap) -/
def bitmapIds (new : List Index) : List Nat := new.flatMap (·.bitmap)

/-- the computed arms, for the modelled operation kinds.  Frag-reuse indices, DataReplacement, UpdateConfig and
    MemWAL operations are outside the model: `upsert_key_conflict` is false without config keys, no index is named
    `__lance_frag_reuse`, `frag_reuse_index` is None. -/
def condArm (rb : Rebase) (other : Op) : Except Conflict Rebase :=
  match rb.txn.op, other with
  | .delete _ _, .rewrite groups _ | .update _ _ _, .rewrite groups _ =>
    if (oldIds groups).any (fun id => rb.modified.contains id) then .error .retryable else .ok rb
  | .delete _ _, .delete upd rem | .delete _ _, .update rem upd _
  | .update _ _ _, .delete upd rem | .update _ _ _, .update rem upd _ => checkDelUpd rb upd rem
  | .createIndex _ _, .createIndex _ _ => .ok rb
  | .createIndex new _, .rewrite groups _ =>
    if (oldIds groups).any (fun id => (bitmapIds new).contains id) then .error .retryable else .ok rb
  | .rewrite _ _, .delete upd rem | .rewrite _ _, .update rem upd _ =>
    if (upd.map (·.id) ++ rem).any (fun id => rb.modified.contains id) then .error .retryable else .ok rb
  | .rewrite _ _, .rewrite groups _ =>
    if (oldIds groups).any (fun id => rb.modified.contains id) then .error .retryable else .ok rb
  | .rewrite groups _, .createIndex new _ =>
    if (oldIds groups).any (fun id => (bitmapIds new).contains id) then .error .retryable else .ok rb
  | .overwrite _ _, .overwrite _ _ => .ok rb
  | _, _ => .ok rb

/-- `TransactionRebase::check_txn`: the arm is looked up in the skeleton; computed arms go to `condArm` -/
def checkTxn (rb : Rebase) (other : Op) : Except Conflict Rebase :=
  match skeleton rb.txn.op.kind other.kind with
  | .ok => .ok rb
  | .retry => .error .retryable
  | .incompat => .error .incompatible
  | .cond => condArm rb other

/-- the `for (other_version, other_transaction) in other_transactions.iter()` loop -/
def checkAll (rb : Rebase) : List Op → Except Conflict Rebase
  | [] => .ok rb
  | o :: os =>
    match checkTxn rb o with
    | .error c => .error c
    | .ok rb' => checkAll rb' os

/-- fragments of `initial` that need their deletion file rewritten -/
def toRewrite (initial : List (Frag × Bool)) : List Frag := (initial.filter (·.2)).map (·.1)

/-- the deletion vector of fragment `id` on the *current* dataset (the fragment is there: see `finishDeleteUpdate`) -/
def existingDel (latest : Manifest) (id : Nat) : List Nat :=
  match fragAt latest.frags id with
  | some f => f.del
  | none => []

/-- `existing_deletions & affected_rows` is not empty -/
def rowConflict (latest : Manifest) (rw : List Frag) (A : List Addr) : Bool :=
  A.any (fun a => rw.any (fun f => f.id == a.1) && (existingDel latest a.1).contains a.2)

/-- `merged.get_fragment_bitmap(fragment_id)` -/
def mergedDel (latest : Manifest) (A : List Addr) (id : Nat) : List Nat :=
  unionNat (existingDel latest id) (offsetsIn A id)

/-- `dv.len() == physical_rows` for a deletion vector `d` of a fragment with `n` physical rows.  A deletion vector is
    a SET of offsets below `n` (a RoaringBitmap filled from row addresses of the fragment), so its cardinality is `n`
    exactly when it holds every offset; the model's lists may repeat an offset, hence the test is stated on
    membership. -/
def covers (d : List Nat) (n : Nat) : Bool := (List.range n).all (fun o => d.contains o)

/-- fragments whose merged deletion vector covers every physical row -/
def newlyDeleted (latest : Manifest) (rw : List Frag) (A : List Addr) : List Nat :=
  (rw.filter (fun f => covers (mergedDel latest A f.id) f.phys.length)).map (·.id)

/-- `updated.deletion_file = new_deletion_file` for the rewritten fragments that are not fully deleted -/
def rebaseUpdated (latest : Manifest) (rw : List Frag) (A : List Addr) (upd : List Frag) : List Frag :=
  upd.map (fun u =>
    if rw.any (fun f => f.id == u.id) && !(newlyDeleted latest rw A).contains u.id
    then { u with del := mergedDel latest A u.id } else u)

/-- `TransactionRebase::finish` (finish_delete_update for Delete/Update; the other kinds return the transaction as
    it is — `finish_create_index` / `finish_rewrite` only act on frag-reuse indices).  A fragment to rewrite that is
    missing from the current dataset makes `merged.get_fragment_bitmap(..).unwrap()` panic unless affected rows
    mention it; the checks exclude that case (a fragment of ours that was removed is a retryable conflict). -/
def finish (latest : Manifest) (rb : Rebase) : Except Err Txn :=
  match rb.txn.op with
  | .delete upd rem =>
    if rb.initial.any (·.2) then
      match rb.affected with
      | none => .error .internal
      | some A =>
        if rowConflict latest (toRewrite rb.initial) A then .error (.conflict .retryable)
        else .ok { rb.txn with read := latest.version,
                               op := .delete (rebaseUpdated latest (toRewrite rb.initial) A upd)
                                             (rem ++ newlyDeleted latest (toRewrite rb.initial) A) }
    else .ok { rb.txn with read := latest.version }
  | .update rem upd new =>
    if rb.initial.any (·.2) then
      match rb.affected with
      | none => .error .internal
      | some A =>
        if rowConflict latest (toRewrite rb.initial) A then .error (.conflict .retryable)
        else .ok { rb.txn with read := latest.version,
                               op := .update (rem ++ newlyDeleted latest (toRewrite rb.initial) A)
                                             (rebaseUpdated latest (toRewrite rb.initial) A upd) new }
    else .ok { rb.txn with read := latest.version }
  | _ => .ok rb.txn

/-! ## build_manifest -/

/-- `fragments_with_ids` for fragments without an id -/
def assignIds (start : Nat) (frs : List NewFrag) : List Frag :=
  frs.zipIdx.map (fun p => { id := start + p.2, files := p.1.files, phys := p.1.phys, del := [] })

/-- `fragments_with_ids` for fragments that may carry an id (`id == 0` = not assigned) -/
def withIds : Nat → List Frag → List Frag × Nat
  | next, [] => ([], next)
  | next, f :: fs =>
    if f.id == 0 then
      (({ f with id := next } : Frag) :: (withIds (next + 1) fs).1, (withIds (next + 1) fs).2)
    else (f :: (withIds next fs).1, (withIds next fs).2)

/-- Delete arm: `for updated in updated_fragments { if updated.id == f.id { *f = updated.clone() } }` (last wins) -/
def replaceLast (upd : List Frag) (f : Frag) : Frag :=
  upd.foldl (fun acc u => if u.id == f.id then u else acc) f

/-- Update arm: `updated_fragments.iter().find(|uf| uf.id == f.id)` (first wins) -/
def replaceFirst (upd : List Frag) (f : Frag) : Frag :=
  match upd.find? (fun u => u.id == f.id) with
  | some u => u
  | none => f

/-- `retain_relevant_indices`, the part that matters for scalar indices with distinct names: an index whose fields
    are not all in the schema is dropped -/
def retainIndices (schema : List Fld) (ixs : List Index) : List Index :=
  ixs.filter (fun i => i.fields.all (fun f => schema.any (fun s => s.id == f)))

/-- position of the first fragment with the given id -/
def findPos (fs : List Frag) (id : Nat) : Option Nat :=
  match fs.findIdx? (fun f => f.id == id) with
  | some i => some i
  | none => none

/-- the `loop` of handle_rewrite_fragments that verifies that the old fragments are the contiguous range starting at
    `start`: `some true` = contiguous, `some false` = not, `none` = `final_fragments[start + i]` is out of bounds -/
def contiguous (fs : List Frag) (start : Nat) : Nat → List Frag → Option Bool
  | _, [] => some true
  | i, o :: os =>
    match fs[start + i]? with
    | none => none
    | some f => if f.id != o.id then some false else contiguous fs start (i + 1) os

/-- handle_rewrite_fragments for one group -/
def rewriteGroup (fs : List Frag) (next : Nat) (g : Group) : Except Err (List Frag × Nat) :=
  match g.olds with
  | [] => .error .panic                       -- `group.old_fragments[0]`
  | o :: os =>
    match findPos fs o.id with
    | none => .error (.conflict .incompatible)  -- "dataset does not contain a fragment a rewrite operation wants to replace"
    | some start =>
      match contiguous fs start 1 os with
      | none => .error .panic
      | some true =>
        .ok (fs.take start ++ (withIds next g.news).1 ++ fs.drop (start + g.olds.length), (withIds next g.news).2)
      | some false =>
        .ok (fs.filter (fun f => !(g.olds.any (fun o => o.id == f.id))) ++ (withIds next g.news).1,
             (withIds next g.news).2)

def rewriteGroups (fs : List Frag) (next : Nat) : List Group → Except Err (List Frag × Nat)
  | [] => .ok (fs, next)
  | g :: gs =>
    match rewriteGroup fs next g with
    | .error e => .error e
    | .ok (fs', next') => rewriteGroups fs' next' gs

/-- `recalculate_fragment_bitmap` -/
def recalcBitmap (old : List Nat) : List Group → Except Err (List Nat)
  | [] => .ok old
  | g :: gs =>
    match recalcBitmap old gs with
    | .error e => .error e
    | .ok rest =>
      if g.olds.any (fun f => old.contains f.id) then
        if g.olds.all (fun f => old.contains f.id) then
          .ok (unionNat (rest.filter (fun x => !(g.olds.any (fun f => f.id == x)))) (g.news.map (·.id)))
        else .error .invalid
      else .ok rest

/-- `handle_rewrite_indices` -/
def rewriteIndices (ixs : List Index) (groups : List Group) : List (Nat × Nat) → Except Err (List Index)
  | [] => .ok ixs
  | (oldId, newId) :: rest =>
    if rest.any (fun p => p.1 == oldId) then .error .invalid
    else if !(ixs.any (fun i => i.uuid == oldId)) then .error .invalid
    else
      match rewriteIndices ixs groups rest with
      | .error e => .error e
      | .ok ixs' =>
        match ixs'.find? (fun i => i.uuid == oldId) with
        | none => .error .invalid
        | some i =>
          match recalcBitmap i.bitmap groups with
          | .error e => .error e
          | .ok bm => .ok (ixs'.map (fun j => if j.uuid == oldId then { j with bitmap := bm, uuid := newId } else j))

def maxIdNext (fs : List Frag) : Nat := fs.foldl (fun acc f => max acc (f.id + 1)) 0

/-- `manifest.max_fragment_id = Some(manifest.max_fragment_id.unwrap_or(0) + num_fragments)` in terms of
    `nextFrag = max_fragment_id + 1` (0 = None) -/
def reserveNext (nf n : Nat) : Nat := if nf == 0 then n + 1 else nf + n

/-- assemble the new manifest: sort by id, version + 1, `update_max_fragment_id` -/
def mkManifest (cur : Manifest) (schema : List Fld) (fs : List Frag) (ixs : List Index) : Manifest :=
  { version := cur.version + 1, schema := schema, frags := sortFrags fs, indices := ixs,
    nextFrag := max cur.nextFrag (maxIdNext fs) }

/-- `Transaction::build_manifest` on the current (latest) manifest -/
def buildManifest (cur : Manifest) (op : Op) : Except Err Manifest :=
  match op with
  | .append frs => .ok (mkManifest cur cur.schema (cur.frags ++ assignIds cur.nextFrag frs) cur.indices)
  | .delete upd rem =>
    .ok (mkManifest cur cur.schema
      ((cur.frags.filter (fun f => !rem.contains f.id)).map (replaceLast upd))
      (retainIndices cur.schema cur.indices))
  | .update rem upd new =>
    .ok (mkManifest cur cur.schema
      ((cur.frags.filter (fun f => !rem.contains f.id)).map (replaceFirst upd) ++ assignIds cur.nextFrag new)
      (retainIndices cur.schema cur.indices))
  | .overwrite schema frs => .ok (mkManifest cur schema (assignIds 0 frs) [])
  | .rewrite groups rewritten =>
    match rewriteGroups cur.frags cur.nextFrag groups with
    | .error e => .error e
    | .ok (fs, _) =>
      match rewriteIndices cur.indices groups rewritten with
      | .error e => .error e
      | .ok ixs => .ok (mkManifest cur cur.schema fs ixs)
  | .createIndex new removed =>
    .ok (mkManifest cur cur.schema cur.frags
      (cur.indices.filter (fun e => !(new.any (fun n => n.name == e.name)) && !(removed.any (fun r => r.uuid == e.uuid)))
        ++ new))
  | .reserve n =>
    .ok { mkManifest cur cur.schema cur.frags cur.indices with
          nextFrag := reserveNext (max cur.nextFrag (maxIdNext cur.frags)) n }
  | .merge schema frs => .ok (mkManifest cur schema frs (retainIndices schema cur.indices))
  | .project schema =>
    .ok (mkManifest cur schema
      (cur.frags.map (fun f => { f with files := f.files.filter (fun fl => fl.any (fun x => schema.any (fun s => s.id == x))) }))
      (retainIndices schema cur.indices))

/-! ## the history and commit_transaction -/

/-- one committed version: its manifest and the transaction as it was written to the transaction file
    (i.e. after the rebase) -/
structure Ver where
  m : Manifest
  op : Op
  deriving DecidableEq, Repr

/-- newest first; never empty for a table that exists -/
abbrev Hist := List Ver

def manifestAt (h : Hist) (v : Nat) : Option Manifest := (h.find? (fun x => x.m.version == v)).map (·.m)

/-- `load_and_sort_new_transactions`: the operations committed after `rv`, oldest first -/
def since (h : Hist) (rv : Nat) : List Op := ((h.filter (fun x => rv < x.m.version)).map (·.op)).reverse

/-- one attempt of `commit_transaction` (`num_retries = 0`: the writer itself never retries here; a lost race for
    the version slot is C02's subject).  The result is the new history. -/
def commit (h : Hist) (t : Txn) : Except Err Hist :=
  match h, manifestAt h t.read with
  | [], _ => .error .internal
  | _, none => .error .internal
  | latest :: _, some mRead =>
    match checkAll (tryNew mRead t) (since h t.read) with
    | .error c => .error (.conflict c)
    | .ok rb =>
      match finish latest.m rb with
      | .error e => .error e
      | .ok t' =>
        match buildManifest latest.m t'.op with
        | .error e => .error e
        | .ok m' => .ok ({ m := m', op := t'.op } :: h)

/-- a commit that fails leaves the history as it is -/
def step (h : Hist) (t : Txn) : Hist :=
  match commit h t with
  | .ok h' => h'
  | .error _ => h

def run (h : Hist) : List Txn → Hist
  | [] => h
  | t :: ts => run (step h t) ts

/-! ## the abstraction: address-tagged visible rows -/

/-- live rows of a fragment with their offsets -/
def Frag.live (f : Frag) : List (Nat × PRow) :=
  (f.phys.zipIdx.filter (fun p => !f.del.contains p.2)).map (fun p => (p.2, p.1))

/-- what a scan with `_rowaddr` returns (before projection to the schema) -/
def rowsOf (fs : List Frag) : List (Addr × PRow) :=
  fs.flatMap (fun f => f.live.map (fun p => ((f.id, p.1), p.2)))

def cellOf (r : PRow) (field : Nat) : Cell :=
  match r.find? (fun p => p.1 == field) with
  | some p => p.2
  | none => none

/-- the visible cells of a stored row under a schema: NULL for a field no data file stores -/
def project (schema : List Fld) (r : PRow) : List Cell := schema.map (fun f => cellOf r f.id)

/-- an ordered scan of the manifest -/
def scan (m : Manifest) : List (List Cell) := (rowsOf m.frags).map (fun x => project m.schema x.2)

end LanceModel.C03
