import LanceModel.C03.HistLemmas
/-
C03 — handle_rewrite_fragments: fragments outside the rewritten groups stay.
-/
namespace LanceModel.C03

theorem contiguous_true {fs : List Frag} {start : Nat} :
    ∀ (os : List Frag) (i : Nat), contiguous fs start i os = some true →
      ∀ j, j < os.length → ∃ f, fs[start + i + j]? = some f ∧ ∃ o, os[j]? = some o ∧ f.id = o.id := by
  intro os
  induction os with
  | nil => intro i _ j hj; simp at hj
  | cons o t ih =>
    intro i h j hj
    simp only [contiguous] at h
    split at h
    · cases h
    · rename_i f hf
      split at h
      · cases h
      · rename_i hne
        cases j with
        | zero => exact ⟨f, by simpa using hf, o, by simp, by simpa using hne⟩
        | succ j =>
          have := ih (i + 1) h j (by simpa using hj)
          obtain ⟨f', hf', o', ho', hid⟩ := this
          refine ⟨f', ?_, o', by simpa using ho', hid⟩
          rw [← hf']; congr 1; omega

theorem withIds_length (next : Nat) (fs : List Frag) : ((withIds next fs).1).length = fs.length := by
  induction fs generalizing next with
  | nil => simp [withIds]
  | cons f t ih =>
    simp only [withIds]
    split <;> simp [ih]

/-- a fragment that is not one of the group's old fragments stays in the list -/
theorem rewriteGroup_keeps {fs fs' : List Frag} {next next' : Nat} {g : Group}
    (h : rewriteGroup fs next g = .ok (fs', next')) (x : Frag) (hx : x ∈ fs)
    (hid : ∀ o ∈ g.olds, o.id ≠ x.id) : x ∈ fs' := by
  unfold rewriteGroup at h
  split at h
  · cases h
  · rename_i o os holds
    split at h
    · cases h
    · rename_i start hstart
      split at h
      · cases h
      · rename_i hcont
        cases h
        -- splice
        obtain ⟨i, hi⟩ := List.getElem?_of_mem hx
        have hlt : i < fs.length := (List.getElem?_eq_some_iff.1 hi).1
        simp only [List.mem_append]
        by_cases h1 : i < start
        · left; left
          refine List.mem_of_getElem? (i := i) ?_
          rw [List.getElem?_take]; simp [h1, hi]
        · by_cases h2 : start + g.olds.length ≤ i
          · right
            refine List.mem_of_getElem? (i := i - (start + g.olds.length)) ?_
            rw [List.getElem?_drop]
            rw [← hi]; congr 1; omega
          · exfalso
            -- i is inside the range: x has the id of one of the old fragments
            have hs : start ≤ i := by omega
            unfold findPos at hstart
            split at hstart
            · rename_i k hk
              cases hstart
              by_cases h3 : i = start
              · subst h3
                have := List.findIdx?_eq_some_iff_getElem.1 hk
                obtain ⟨hlt', hp, _⟩ := this
                have hxi : fs[i] = x := by
                  have := List.getElem?_eq_some_iff.1 hi
                  exact this.2
                rw [hxi] at hp
                have hp' : x.id = o.id := by simpa using hp
                exact hid o (by rw [holds]; simp) hp'.symm
              · have hj : i - start - 1 < os.length := by
                  rw [holds] at h2; simp at h2; omega
                obtain ⟨f, hf, o', ho', hfo⟩ := contiguous_true os 1 hcont (i - start - 1) hj
                have : start + 1 + (i - start - 1) = i := by omega
                rw [this, hi] at hf
                cases hf
                exact hid o' (by rw [holds]; exact List.mem_cons_of_mem _ (List.mem_of_getElem? ho')) hfo.symm
            · cases hstart
      · cases h
        simp only [List.mem_append, List.mem_filter]
        left
        refine ⟨hx, ?_⟩
        simp only [Bool.not_eq_eq_eq_not, Bool.not_true, List.any_eq_false, beq_iff_eq]
        intro o ho
        exact hid o ho

theorem rewriteGroups_keeps {groups : List Group} {fs fs' : List Frag} {next next' : Nat}
    (h : rewriteGroups fs next groups = .ok (fs', next')) (x : Frag) (hx : x ∈ fs)
    (hid : x.id ∉ oldIds groups) : x ∈ fs' := by
  induction groups generalizing fs next with
  | nil => simp only [rewriteGroups] at h; cases h; exact hx
  | cons g gs ih =>
    simp only [rewriteGroups] at h
    split at h
    · cases h
    · rename_i fs1 n1 h1
      have hid1 : ∀ o ∈ g.olds, o.id ≠ x.id := by
        intro o ho heq
        apply hid
        simp only [oldIds, List.flatMap_cons, List.mem_append, List.mem_map]
        left; exact ⟨o, ho, heq⟩
      have hid2 : x.id ∉ oldIds gs := by
        intro hh; apply hid
        simp only [oldIds, List.flatMap_cons, List.mem_append]
        right; exact hh
      exact ih h (rewriteGroup_keeps h1 x hx hid1) hid2

end LanceModel.C03
