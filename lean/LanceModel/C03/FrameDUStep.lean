import LanceModel.C03.ChainLemmas
/-
C03 — the Delete/Update frame is carried over every committed transaction whose check passed (Lemma A for the rows
`check_delete_txn` and `check_update_txn` of the matrix), and therefore holds on the latest version.
-/
namespace LanceModel.C03

theorem frameDU_same {mRead prev next : Manifest} {rb : Rebase} (hF : FrameDU mRead rb prev) (hk : Keeps prev next) :
    FrameDU mRead rb next :=
  frameDU_of_keeps hF (fun g hg _ => hk g hg)

theorem frameDU_rewrite {mRead prev next : Manifest} {rb : Rebase} {gs : List Group} {ri : List (Nat × Nat)}
    (hF : FrameDU mRead rb prev) (hb : buildManifest prev (.rewrite gs ri) = .ok next)
    (hno : ((oldIds gs).any fun id => rb.modified.contains id) = false) : FrameDU mRead rb next := by
  apply frameDU_of_keeps hF
  intro g hg hmod
  refine ⟨g, keeps_rewrite hb g hg ?_, rfl, rfl, rfl⟩
  intro hin
  simp only [List.any_eq_false, List.contains_eq_mem, decide_eq_true_eq] at hno
  exact hno g.id hin hmod

theorem frameDU_step {mRead prev next : Manifest} {rb rb' : Rebase} {op : Op}
    (hk : rb.txn.op.kind = .delete ∨ rb.txn.op.kind = .update)
    (hok : RbOk mRead rb) (hb : buildManifest prev op = .ok next) (hmono : isOverwrite op = false → Mono prev next)
    (hc : checkTxn rb op = .ok rb') (hF : FrameDU mRead rb prev) :
    FrameDU mRead rb' next ∧ RbOk mRead rb' := by
  cases hop : rb.txn.op with
  | delete u r =>
    cases op with
    | append frs =>
      simp only [checkTxn, hop, Op.kind, skeleton] at hc; cases hc
      exact ⟨frameDU_same hF (keeps_append hb), hok⟩
    | delete upd rem =>
      simp only [checkTxn, hop, Op.kind, skeleton, condArm] at hc
      exact frameDU_delupd (Or.inl rfl) hok hb (hmono rfl) hc hF
    | update rem upd new =>
      simp only [checkTxn, hop, Op.kind, skeleton, condArm] at hc
      exact frameDU_delupd (Or.inr ⟨new, rfl⟩) hok hb (hmono rfl) hc hF
    | overwrite s frs => simp only [checkTxn, hop, Op.kind, skeleton] at hc; cases hc
    | rewrite gs ri =>
      simp only [checkTxn, hop, Op.kind, skeleton, condArm] at hc
      split at hc
      · cases hc
      · rename_i hno
        cases hc
        exact ⟨frameDU_rewrite hF hb (by simpa using hno), hok⟩
    | createIndex a b =>
      simp only [checkTxn, hop, Op.kind, skeleton] at hc; cases hc
      exact ⟨frameDU_same hF (keeps_createIndex hb), hok⟩
    | reserve n =>
      simp only [checkTxn, hop, Op.kind, skeleton] at hc; cases hc
      exact ⟨frameDU_same hF (keeps_reserve hb), hok⟩
    | merge s frs => simp only [checkTxn, hop, Op.kind, skeleton] at hc; cases hc
    | project s =>
      simp only [checkTxn, hop, Op.kind, skeleton] at hc; cases hc
      exact ⟨frameDU_same hF (keeps_project hb), hok⟩
  | update r u n =>
    cases op with
    | append frs =>
      simp only [checkTxn, hop, Op.kind, skeleton] at hc; cases hc
      exact ⟨frameDU_same hF (keeps_append hb), hok⟩
    | delete upd rem =>
      simp only [checkTxn, hop, Op.kind, skeleton, condArm] at hc
      exact frameDU_delupd (Or.inl rfl) hok hb (hmono rfl) hc hF
    | update rem upd new =>
      simp only [checkTxn, hop, Op.kind, skeleton, condArm] at hc
      exact frameDU_delupd (Or.inr ⟨new, rfl⟩) hok hb (hmono rfl) hc hF
    | overwrite s frs => simp only [checkTxn, hop, Op.kind, skeleton] at hc; cases hc
    | rewrite gs ri =>
      simp only [checkTxn, hop, Op.kind, skeleton, condArm] at hc
      split at hc
      · cases hc
      · rename_i hno
        cases hc
        exact ⟨frameDU_rewrite hF hb (by simpa using hno), hok⟩
    | createIndex a b =>
      simp only [checkTxn, hop, Op.kind, skeleton] at hc; cases hc
      exact ⟨frameDU_same hF (keeps_createIndex hb), hok⟩
    | reserve n =>
      simp only [checkTxn, hop, Op.kind, skeleton] at hc; cases hc
      exact ⟨frameDU_same hF (keeps_reserve hb), hok⟩
    | merge s frs => simp only [checkTxn, hop, Op.kind, skeleton] at hc; cases hc
    | project s =>
      simp only [checkTxn, hop, Op.kind, skeleton] at hc; cases hc
      exact ⟨frameDU_same hF (keeps_project hb), hok⟩
  | append _ => rw [hop] at hk; simp [Op.kind] at hk
  | overwrite _ _ => rw [hop] at hk; simp [Op.kind] at hk
  | rewrite _ _ => rw [hop] at hk; simp [Op.kind] at hk
  | createIndex _ _ => rw [hop] at hk; simp [Op.kind] at hk
  | reserve _ => rw [hop] at hk; simp [Op.kind] at hk
  | merge _ _ => rw [hop] at hk; simp [Op.kind] at hk
  | project _ => rw [hop] at hk; simp [Op.kind] at hk

theorem mem_initialFragments {m : Manifest} {ids : List Nat} {p : Frag × Bool} :
    p ∈ initialFragments m ids ↔ p.1 ∈ m.frags ∧ p.1.id ∈ ids ∧ p.2 = false := by
  obtain ⟨f, b⟩ := p
  simp only [initialFragments, List.mem_map, List.mem_filter, Prod.mk.injEq, List.contains_eq_mem, decide_eq_true_eq]
  constructor
  · rintro ⟨g, ⟨h1, h2⟩, rfl, rfl⟩; exact ⟨h1, h2, rfl⟩
  · rintro ⟨h1, h2, rfl⟩; exact ⟨f, ⟨h1, h2⟩, rfl, rfl⟩

theorem tryNew_initial {m : Manifest} {t : Txn} {p : Frag × Bool} (hp : p ∈ (tryNew m t).initial) :
    p.1 ∈ m.frags ∧ p.1.id ∈ (tryNew m t).modified ∧ p.2 = false := by
  cases hop : t.op with
  | delete upd rem =>
    simp only [tryNew, hop] at hp ⊢
    by_cases hsc : (upd.isEmpty && t.affected.isSome) = true
    · simp only [hsc, if_true] at hp; cases hp
    · simp only [hsc] at hp ⊢; exact mem_initialFragments.1 hp
  | update rem upd new =>
    simp only [tryNew, hop] at hp ⊢
    by_cases hsc : (upd.isEmpty && t.affected.isSome) = true
    · simp only [hsc, if_true] at hp; cases hp
    · simp only [hsc] at hp ⊢; exact mem_initialFragments.1 hp
  | rewrite gs ri => simp only [tryNew, hop] at hp ⊢; exact mem_initialFragments.1 hp
  | merge s frs => simp only [tryNew, hop] at hp ⊢; exact mem_initialFragments.1 hp
  | append _ => simp only [tryNew, hop] at hp; cases hp
  | overwrite _ _ => simp only [tryNew, hop] at hp; cases hp
  | createIndex _ _ => simp only [tryNew, hop] at hp; cases hp
  | reserve _ => simp only [tryNew, hop] at hp; cases hp
  | project _ => simp only [tryNew, hop] at hp; cases hp

theorem tryNew_all {m : Manifest} {t : Txn} (hk : t.op.kind = .delete ∨ t.op.kind = .update)
    (ha : (tryNew m t).affected.isSome = true) {f : Frag} (hf : f ∈ m.frags) (hm : f.id ∈ (tryNew m t).modified) :
    (f, false) ∈ (tryNew m t).initial := by
  cases hop : t.op with
  | delete upd rem =>
    simp only [tryNew, hop] at ha hm ⊢
    by_cases hsc : (upd.isEmpty && t.affected.isSome) = true
    · simp only [hsc, if_true] at ha; simp at ha
    · simp only [hsc] at hm ⊢; exact mem_initialFragments.2 ⟨hf, hm, rfl⟩
  | update rem upd new =>
    simp only [tryNew, hop] at ha hm ⊢
    by_cases hsc : (upd.isEmpty && t.affected.isSome) = true
    · simp only [hsc, if_true] at ha; simp at ha
    · simp only [hsc] at hm ⊢; exact mem_initialFragments.2 ⟨hf, hm, rfl⟩
  | append _ => rw [hop] at hk; simp [Op.kind] at hk
  | overwrite _ _ => rw [hop] at hk; simp [Op.kind] at hk
  | rewrite _ _ => rw [hop] at hk; simp [Op.kind] at hk
  | createIndex _ _ => rw [hop] at hk; simp [Op.kind] at hk
  | reserve _ => rw [hop] at hk; simp [Op.kind] at hk
  | merge _ _ => rw [hop] at hk; simp [Op.kind] at hk
  | project _ => rw [hop] at hk; simp [Op.kind] at hk

/-- the state `try_new` starts from satisfies the frame on the read version itself -/
theorem frameDU_init (mRead : Manifest) (t : Txn) (hk : t.op.kind = .delete ∨ t.op.kind = .update) :
    FrameDU mRead (tryNew mRead t) mRead ∧ RbOk mRead (tryNew mRead t) := by
  refine ⟨fun f hf _ => ⟨f, hf, rfl, rfl, fun _ h => h, fun _ => rfl⟩, ?_, ?_, ?_⟩
  · intro p hp
    exact ⟨(tryNew_initial hp).1, (tryNew_initial hp).2.1⟩
  · intro ha f hf hm
    exact ⟨(f, false), tryNew_all hk ha hf hm, rfl⟩
  · intro p hp h2
    rw [(tryNew_initial hp).2.2] at h2; cases h2

/-- Lemma A for Delete/Update: if every check passed, the frame holds on the latest version -/
theorem frameDU_latest {h : Hist} (hinv : Inv h) {t : Txn} {mRead : Manifest}
    (hk : t.op.kind = .delete ∨ t.op.kind = .update) (hm : manifestAt h t.read = some mRead)
    {rb : Rebase} (hc : checkAll (tryNew mRead t) (since h t.read) = .ok rb) :
    ∃ latest rest, h = latest :: rest ∧ FrameDU mRead rb latest.m ∧ RbOk mRead rb ∧ rb.txn = t := by
  have := chain_fold (P := fun rb m => FrameDU mRead rb m ∧ RbOk mRead rb ∧ rb.txn = t) h hinv.chain hinv.wf t.read mRead hm
    (tryNew mRead t) ⟨(frameDU_init mRead t hk).1, (frameDU_init mRead t hk).2, tryNew_txn _ _⟩
    (by
      intro prev next op rb rb' hb hmono _ _ hc ⟨hF, hok, htx⟩
      have hk' : rb.txn.op.kind = .delete ∨ rb.txn.op.kind = .update := by rw [htx]; exact hk
      obtain ⟨a, b⟩ := frameDU_step hk' hok hb hmono hc hF
      exact ⟨a, b, (checkTxn_keep hc).1.trans htx⟩)
    rb hc
  obtain ⟨latest, rest, hl, hF, hok, htx⟩ := this
  exact ⟨latest, rest, hl, hF, hok, htx⟩

end LanceModel.C03
