import LanceModel.C03.HistLemmas
/-
C03 — one committed step = one step of the serial replay, for the kinds whose arm of build_manifest does not look at
what the transaction read: Append, Overwrite, CreateIndex, ReserveFragments.
-/
namespace LanceModel.C03

/-- the committed step is the serial-replay step of the effect computed at the read version -/
def StepOk (h h' : Hist) (t : Txn) : Prop :=
  ∃ latest rest mRead new, h = latest :: rest ∧ h' = new :: h ∧ manifestAt h t.read = some mRead ∧
    (abs new.m).Same (applyEff (eff mRead t) (abs latest.m))

theorem next_absorb (cur : Manifest) (hw : WfM cur) (extra : List Frag) :
    max cur.nextFrag (maxIdNext (cur.frags ++ extra)) = max cur.nextFrag (maxIdNext extra) := by
  rw [maxIdNext_append]
  have := maxIdNext_le cur.frags cur.nextFrag hw.bound
  omega

/-- the transaction that reaches build_manifest, for a kind that is not rebased -/
theorem commit_plain {h h' : Hist} {t : Txn} (hc : commit h t = .ok h')
    (hk : t.op.kind ≠ .delete ∧ t.op.kind ≠ .update) :
    ∃ latest rest mRead m', h = latest :: rest ∧ manifestAt h t.read = some mRead ∧
      buildManifest latest.m t.op = .ok m' ∧ h' = { m := m', op := t.op } :: h := by
  obtain ⟨latest, rest, mRead, rb, t', m', rfl, hm, hrb, hf, hb, rfl⟩ := commit_ok hc
  have hrt : rb.txn = t := (checkAll_keep hrb).1.trans (tryNew_txn _ _)
  have : t' = t := by
    rw [← hrt]; exact finish_other hf (by rw [hrt]; exact hk)
  subst this
  exact ⟨latest, rest, mRead, m', rfl, hm, hb, rfl⟩

theorem step_append {h h' : Hist} {t : Txn} {frs : List NewFrag} (hinv : Inv h) (hc : commit h t = .ok h')
    (hop : t.op = .append frs) : StepOk h h' t := by
  obtain ⟨latest, rest, mRead, m', rfl, hm, hb, rfl⟩ := commit_plain hc (by rw [hop]; simp [Op.kind])
  rw [hop] at hb
  have hm' := build_append hb
  have hw := hinv.wf latest (by simp)
  refine ⟨latest, rest, mRead, _, rfl, rfl, hm, ?_⟩
  subst hm'
  refine ⟨?_, ?_, ?_⟩
  · simp [abs, eff, hop, applyEff, mkManifest]
  · simp only [abs, eff, hop, applyEff, mkManifest]
    exact next_absorb latest.m hw _
  · intro x
    simp only [abs, eff, hop, applyEff, mkManifest, rowsOf_sort, mem_rowsOf_append, List.mem_append]

theorem step_overwrite {h h' : Hist} {t : Txn} {s : List Fld} {frs : List NewFrag} (hc : commit h t = .ok h')
    (hop : t.op = .overwrite s frs) : StepOk h h' t := by
  obtain ⟨latest, rest, mRead, m', rfl, hm, hb, rfl⟩ := commit_plain hc (by rw [hop]; simp [Op.kind])
  rw [hop] at hb
  have hm' := build_overwrite hb
  refine ⟨latest, rest, mRead, _, rfl, rfl, hm, ?_⟩
  subst hm'
  refine ⟨?_, ?_, ?_⟩
  · simp [abs, eff, hop, applyEff, mkManifest]
  · simp [abs, eff, hop, applyEff, mkManifest]
  · intro x
    simp only [abs, eff, hop, applyEff, mkManifest, rowsOf_sort]

theorem step_createIndex {h h' : Hist} {t : Txn} {new rm : List Index} (hinv : Inv h) (hc : commit h t = .ok h')
    (hop : t.op = .createIndex new rm) : StepOk h h' t := by
  obtain ⟨latest, rest, mRead, m', rfl, hm, hb, rfl⟩ := commit_plain hc (by rw [hop]; simp [Op.kind])
  rw [hop] at hb
  obtain ⟨h1, h2, h3, _⟩ := build_createIndex hb
  have hw := hinv.wf latest (by simp)
  refine ⟨latest, rest, mRead, _, rfl, rfl, hm, ?_⟩
  refine ⟨?_, ?_, ?_⟩
  · simp [abs, eff, hop, applyEff, h2]
  · simp only [abs, eff, hop, applyEff, h3]
    have := maxIdNext_le latest.m.frags latest.m.nextFrag hw.bound
    omega
  · intro x
    simp only [abs, eff, hop, applyEff, h1, rowsOf_sort]

theorem step_reserve {h h' : Hist} {t : Txn} {n : Nat} (hinv : Inv h) (hc : commit h t = .ok h')
    (hop : t.op = .reserve n) : StepOk h h' t := by
  obtain ⟨latest, rest, mRead, m', rfl, hm, hb, rfl⟩ := commit_plain hc (by rw [hop]; simp [Op.kind])
  rw [hop] at hb
  obtain ⟨h1, h2, h3, _⟩ := build_reserve hb
  have hw := hinv.wf latest (by simp)
  refine ⟨latest, rest, mRead, _, rfl, rfl, hm, ?_⟩
  refine ⟨?_, ?_, ?_⟩
  · simp [abs, eff, hop, applyEff, h2]
  · simp only [abs, eff, hop, applyEff, h3]
    have := maxIdNext_le latest.m.frags latest.m.nextFrag hw.bound
    rw [Nat.max_eq_left this]
  · intro x
    simp only [abs, eff, hop, applyEff, h1, rowsOf_sort]

end LanceModel.C03
