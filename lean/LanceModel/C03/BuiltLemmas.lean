import LanceModel.C03.Intact
import LanceModel.C03.Build
/-
C03 — the model's writers produce transactions that are `Built` against the version they read (so the hypotheses of
`serial_replay` are what the delete / update / drop-column writers deliver).
-/
namespace LanceModel.C03

theorem mem_matching {m : Manifest} {p : PRow → Bool} {a : Addr} :
    a ∈ matching m p ↔ ∃ r, (a, r) ∈ rowsOf m.frags ∧ p r = true := by
  simp only [matching, List.mem_map, List.mem_filter]
  constructor
  · rintro ⟨x, ⟨hx, hp⟩, rfl⟩; exact ⟨x.2, hx, hp⟩
  · rintro ⟨r, hx, hp⟩; exact ⟨(a, r), ⟨hx, hp⟩, rfl⟩

theorem builtDel_applyDeletions (m : Manifest) (A : List Addr)
    (hlive : ∀ a ∈ A, ∃ f ∈ m.frags, f.id = a.1 ∧ a.2 < f.phys.length ∧ a.2 ∉ f.del) :
    BuiltDel m A (applyDeletions m A).1 (applyDeletions m A).2 := by
  refine ⟨hlive, ?_, ?_, ?_⟩
  · intro u hu
    simp only [applyDeletions, List.mem_filterMap, List.mem_filter] at hu
    obtain ⟨f, ⟨hf, _⟩, he⟩ := hu
    unfold extendDeletions at he
    split at he
    · cases he
    · cases he
      refine ⟨f, hf, rfl, rfl, rfl, ?_⟩
      intro o
      simp only [mem_unionNat, mem_offsetsIn]
  · intro r hr
    simp only [applyDeletions, List.mem_map, List.mem_filter] at hr
    obtain ⟨f, ⟨⟨hf, _⟩, he⟩, rfl⟩ := hr
    refine ⟨f, hf, rfl, ?_⟩
    unfold extendDeletions at he
    split at he
    · rename_i hc
      intro o ho
      have := (covers_iff _ _).1 hc o ho
      simpa only [mem_unionNat, mem_offsetsIn] using this
    · simp at he
  · intro a ha
    obtain ⟨f, hf, hid, _, _⟩ := hlive a ha
    have hne : (offsetsIn A f.id).isEmpty = false := by
      have : a.2 ∈ offsetsIn A f.id := by rw [mem_offsetsIn, hid]; exact ha
      cases h : offsetsIn A f.id with
      | nil => rw [h] at this; cases this
      | cons _ _ => rfl
    cases he : extendDeletions f (offsetsIn A f.id) with
    | none =>
      right
      simp only [applyDeletions, List.mem_map, List.mem_filter]
      exact ⟨f, ⟨⟨hf, by simp [hne]⟩, by simp [he]⟩, hid⟩
    | some u =>
      left
      refine ⟨u, ?_, ?_⟩
      · simp only [applyDeletions, List.mem_filterMap, List.mem_filter]
        exact ⟨f, ⟨hf, by simp [hne]⟩, he⟩
      · unfold extendDeletions at he
        split at he
        · cases he
        · cases he; exact hid

theorem matching_live (m : Manifest) (p : PRow → Bool) :
    ∀ a ∈ matching m p, ∃ f ∈ m.frags, f.id = a.1 ∧ a.2 < f.phys.length ∧ a.2 ∉ f.del := by
  intro a ha
  obtain ⟨r, hx, _⟩ := mem_matching.1 ha
  obtain ⟨f, hf, h1, h2, h3⟩ := (mem_rowsOf _ _).1 hx
  exact ⟨f, hf, h1.symm, lt_of_getElem? h2, h3⟩

/-- DeleteBuilder with a predicate -/
theorem mkDelete_built (m : Manifest) (p : PRow → Bool) : Built m (mkDelete m p) := by
  simp only [Built, mkDelete]
  exact builtDel_applyDeletions m _ (matching_live m p)

/-- UpdateBuilder (RewriteRows) -/
theorem mkUpdate_built (m : Manifest) (p : PRow → Bool) (v : Int) : Built m (mkUpdate m p v) := by
  simp only [Built, mkUpdate]
  exact builtDel_applyDeletions m _ (matching_live m p)

/-- drop_columns -/
theorem mkDropCol_built (m : Manifest) (name : Nat) : Built m (mkDropCol m name) := by
  simp only [Built, mkDropCol]
  exact ⟨fun f => f.name != name, rfl⟩

theorem mkAppend_built (m : Manifest) (rows : List (Int × Cell)) : Built m (mkAppend m rows) := by
  simp [Built, mkAppend]

theorem mkOverwrite_built (m : Manifest) (f : Nat) (rows : List (Int × Cell)) : Built m (mkOverwrite m f rows) := by
  simp [Built, mkOverwrite]

theorem mkIndex_built (m : Manifest) (uuid : Nat) : Built m (mkIndex m uuid) := by
  simp [Built, mkIndex]

theorem foldl_max_ge (l : List Nat) (a : Nat) : a ≤ l.foldl max a ∧ ∀ x ∈ l, x ≤ l.foldl max a := by
  induction l generalizing a with
  | nil => simp
  | cons y t ih =>
    simp only [List.foldl_cons]
    have := ih (max a y)
    refine ⟨by omega, ?_⟩
    intro x hx
    simp at hx
    rcases hx with rfl | hx
    · omega
    · exact this.2 x hx

/-- add_columns -/
theorem mkAddCol_built (m : Manifest) (k : Nat) : Built m (mkAddCol m k) := by
  simp only [Built, mkAddCol]
  refine ⟨?_, [⟨maxFieldId m + 1, 10 + k⟩], rfl, ?_⟩
  · rw [List.map_map]
    apply List.map_congr_left
    intro f _
    simp
  · intro f hf hin
    simp at hf
    subst hf
    have : maxFieldId m + 1 ≤ maxFieldId m := by
      unfold maxFieldId
      apply (foldl_max_ge _ 0).2
      simp only [List.mem_append, schemaIds, List.mem_map]
      left; exact ⟨_, hin, rfl⟩
    omega

theorem binsFrom_mem (ixs : List Index) : ∀ (fs : List Frag) (acc : Option (List Frag × List Nat)) (all : List Frag),
    (∀ f ∈ fs, f ∈ all) → (∀ b, acc = some b → ∀ f ∈ b.1, f ∈ all) →
    ∀ bin ∈ binsFrom ixs acc fs, ∀ f ∈ bin, f ∈ all := by
  intro fs
  induction fs with
  | nil =>
    intro acc all _ hacc bin hbin f hf
    cases acc with
    | none => simp [binsFrom] at hbin
    | some b =>
      simp only [binsFrom, List.mem_singleton] at hbin
      subst hbin
      exact hacc b rfl f hf
  | cons g t ih =>
    intro acc all hfs hacc bin hbin f hf
    cases acc with
    | none =>
      simp only [binsFrom] at hbin
      exact ih _ all (fun x hx => hfs x (by simp [hx]))
        (by intro b hb x hx; cases hb; simp at hx; subst hx; exact hfs _ (by simp)) bin hbin f hf
    | some b =>
      simp only [binsFrom] at hbin
      split at hbin
      · exact ih _ all (fun x hx => hfs x (by simp [hx]))
          (by
            intro b' hb' x hx; cases hb'
            simp only [List.mem_append, List.mem_singleton] at hx
            rcases hx with hx | rfl
            · exact hacc b rfl x hx
            · exact hfs _ (by simp)) bin hbin f hf
      · simp only [List.mem_cons] at hbin
        rcases hbin with rfl | hbin
        · exact hacc b rfl f hf
        · exact ih _ all (fun x hx => hfs x (by simp [hx]))
            (by intro b' hb' x hx; cases hb'; simp at hx; subst hx; exact hfs _ (by simp)) bin hbin f hf

/-- compact_files: the groups of the plan are made of fragments of the manifest -/
theorem mkRewrite_built (m : Manifest) (ids : List Nat) (u : Nat) : Built m (mkRewrite m ids u) := by
  simp only [Built, mkRewrite]
  intro g hg o ho
  simp only [List.mem_map] at hg
  obtain ⟨p, hp, rfl⟩ := hg
  have hbin : p.1 ∈ planGroups m := (List.of_mem_zip hp).1
  simp only [planGroups, List.mem_filter] at hbin
  exact binsFrom_mem m.indices m.frags none m.frags (fun _ h => h) (by intro b hb; cases hb) p.1 hbin.1 o ho

end LanceModel.C03
