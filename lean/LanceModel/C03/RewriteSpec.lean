import LanceModel.C03.InvLemmas
/-
C03 — handle_rewrite_fragments, exactly: with unique fragment ids, reserved (non-zero, unused) ids for the new
fragments, the result holds the fragments outside the groups plus the new fragments, and ids stay unique.
-/
namespace LanceModel.C03

theorem withIds_nonzero (n : Nat) (fs : List Frag) (h : ∀ f ∈ fs, f.id ≠ 0) : withIds n fs = (fs, n) := by
  induction fs generalizing n with
  | nil => rfl
  | cons f t ih =>
    have hf : (f.id == 0) = false := by simpa using h f (by simp)
    simp only [withIds, hf]
    rw [ih n (fun g hg => h g (by simp [hg]))]
    rfl

/-- in the splice case the old fragments sit at positions start, start + 1, … -/
theorem olds_positions {fs : List Frag} {o : Frag} {os : List Frag} {start : Nat}
    (hstart : findPos fs o.id = some start) (hcont : contiguous fs start 1 os = some true) :
    ∀ j, j < (o :: os).length → ∃ f p, fs[start + j]? = some f ∧ (o :: os)[j]? = some p ∧ f.id = p.id := by
  intro j hj
  cases j with
  | zero =>
    unfold findPos at hstart
    split at hstart
    · rename_i k hk
      cases hstart
      obtain ⟨hlt, hp, _⟩ := List.findIdx?_eq_some_iff_getElem.1 hk
      exact ⟨fs[start], o, by simp [hlt], by simp, by simpa using hp⟩
    · cases hstart
  | succ j =>
    obtain ⟨f, hf, p, hp, hid⟩ := contiguous_true os 1 hcont j (by simpa using hj)
    refine ⟨f, p, ?_, by simpa using hp, hid⟩
    rw [← hf]; congr 1; omega

theorem idx_unique {fs : List Frag} (hnd : (fs.map (·.id)).Nodup) {i j : Nat} {a b : Frag}
    (hi : fs[i]? = some a) (hj : fs[j]? = some b) (hid : a.id = b.id) : i = j := by
  have hlt : i < (fs.map (·.id)).length := by
    have := (List.getElem?_eq_some_iff.1 hi).1; simpa using this
  have : (fs.map (·.id))[i]? = (fs.map (·.id))[j]? := by
    rw [List.getElem?_map, List.getElem?_map, hi, hj]; simp [hid]
  exact (List.getElem?_inj hlt hnd).1 this

/-- membership in what the splice keeps -/
theorem splice_mem {fs : List Frag} {olds : List Frag} {start : Nat} (hnd : (fs.map (·.id)).Nodup)
    (hpos : ∀ j, j < olds.length → ∃ f p, fs[start + j]? = some f ∧ olds[j]? = some p ∧ f.id = p.id) (x : Frag) :
    (x ∈ fs.take start ∨ x ∈ fs.drop (start + olds.length)) ↔ (x ∈ fs ∧ ∀ o ∈ olds, o.id ≠ x.id) := by
  constructor
  · intro hx
    have hxfs : x ∈ fs := by
      rcases hx with h | h
      · exact List.mem_of_mem_take h
      · exact List.mem_of_mem_drop h
    refine ⟨hxfs, ?_⟩
    intro o ho hid
    obtain ⟨k, hk⟩ := List.getElem?_of_mem ho
    have hklt : k < olds.length := (List.getElem?_eq_some_iff.1 hk).1
    obtain ⟨f, p, hf, hp, hfp⟩ := hpos k hklt
    rw [hk] at hp; cases hp
    rcases hx with h | h
    · obtain ⟨j, hm, hj⟩ := List.mem_take_iff_getElem.1 h
      have hj' : fs[j]? = some x := by
        have hjl : j < fs.length := by omega
        rw [List.getElem?_eq_getElem hjl]; exact congrArg some hj
      have := idx_unique hnd hj' hf (hid.symm.trans hfp.symm)
      omega
    · obtain ⟨j, hm, hj⟩ := List.mem_drop_iff_getElem.1 h
      have hj' : fs[start + olds.length + j]? = some x := by
        have hm' : start + olds.length + j < fs.length := by omega
        rw [List.getElem?_eq_getElem hm']; exact congrArg some hj
      have := idx_unique hnd hj' hf (hid.symm.trans hfp.symm)
      omega
  · rintro ⟨hx, hno⟩
    obtain ⟨i, hi⟩ := List.getElem?_of_mem hx
    have hlt : i < fs.length := (List.getElem?_eq_some_iff.1 hi).1
    by_cases h1 : i < start
    · left
      refine List.mem_of_getElem? (i := i) ?_
      rw [List.getElem?_take]; simp [h1, hi]
    · by_cases h2 : start + olds.length ≤ i
      · right
        refine List.mem_of_getElem? (i := i - (start + olds.length)) ?_
        rw [List.getElem?_drop, ← hi]; congr 1; omega
      · exfalso
        obtain ⟨f, p, hf, hp, hfp⟩ := hpos (i - start) (by omega)
        have : start + (i - start) = i := by omega
        rw [this, hi] at hf; cases hf
        exact hno p (List.mem_of_getElem? hp) hfp.symm

theorem nodup_splice {fs news : List Frag} {a b : Nat} (hab : a ≤ b) (hnd : (fs.map (·.id)).Nodup)
    (hnn : (news.map (·.id)).Nodup) (hfresh : ∀ f ∈ news, ∀ g ∈ fs, f.id ≠ g.id) :
    ((fs.take a ++ news ++ fs.drop b).map (·.id)).Nodup := by
  have hsub : (fs.take a ++ fs.drop b).Sublist fs := by
    have := List.Sublist.append (List.Sublist.refl (fs.take a)) (List.drop_sublist_drop_left fs hab)
    rwa [List.take_append_drop] at this
  have hkeep : ((fs.take a ++ fs.drop b).map (·.id)).Nodup := List.Nodup.sublist (hsub.map _) hnd
  have hperm : ((fs.take a ++ news ++ fs.drop b).map (·.id)).Perm
      ((fs.take a ++ fs.drop b).map (·.id) ++ news.map (·.id)) := by
    simp only [List.map_append, List.append_assoc]
    exact List.Perm.append_left _ List.perm_append_comm
  rw [hperm.nodup_iff, List.nodup_append]
  refine ⟨hkeep, hnn, ?_⟩
  intro x hx y hy hxy
  obtain ⟨g, hg, rfl⟩ := List.mem_map.1 hx
  obtain ⟨f, hf, rfl⟩ := List.mem_map.1 hy
  exact hfresh f hf g (hsub.subset hg) hxy.symm

/-- one group, exactly -/
theorem rewriteGroup_spec {fs fs' : List Frag} {next next' : Nat} {g : Group}
    (h : rewriteGroup fs next g = .ok (fs', next')) (hnd : (fs.map (·.id)).Nodup)
    (hnz : ∀ f ∈ g.news, f.id ≠ 0) (hnn : (g.news.map (·.id)).Nodup)
    (hfresh : ∀ f ∈ g.news, ∀ x ∈ fs, f.id ≠ x.id) :
    (∀ x, x ∈ fs' ↔ ((x ∈ fs ∧ ∀ o ∈ g.olds, o.id ≠ x.id) ∨ x ∈ g.news)) ∧ (fs'.map (·.id)).Nodup ∧ next' = next := by
  unfold rewriteGroup at h
  split at h
  · cases h
  · rename_i o os holds
    split at h
    · cases h
    · rename_i start hstart
      split at h
      · cases h
      · rename_i hcont
        rw [withIds_nonzero next g.news hnz] at h
        cases h
        have hpos := olds_positions hstart hcont
        rw [← holds] at hpos
        refine ⟨?_, nodup_splice (by omega) hnd hnn hfresh, rfl⟩
        intro x
        simp only [List.mem_append]
        rw [← splice_mem hnd hpos x]
        constructor
        · rintro ((h1 | h1) | h1)
          · exact Or.inl (Or.inl h1)
          · exact Or.inr h1
          · exact Or.inl (Or.inr h1)
        · rintro ((h1 | h1) | h1)
          · exact Or.inl (Or.inl h1)
          · exact Or.inr h1
          · exact Or.inl (Or.inr h1)
      · rw [withIds_nonzero next g.news hnz] at h
        cases h
        refine ⟨?_, ?_, rfl⟩
        · intro x
          simp only [List.mem_append, List.mem_filter, Bool.not_eq_eq_eq_not, Bool.not_true, List.any_eq_false,
            beq_iff_eq]
        · rw [List.map_append, List.nodup_append]
          refine ⟨List.Nodup.sublist (List.Sublist.map _ List.filter_sublist) hnd, hnn, ?_⟩
          intro a ha b hb hab
          obtain ⟨x, hx, rfl⟩ := List.mem_map.1 ha
          obtain ⟨f, hf, rfl⟩ := List.mem_map.1 hb
          exact hfresh f hf x (List.mem_filter.1 hx).1 hab.symm

end LanceModel.C03
