import LanceModel.Util
import LanceModel.Table.Basic
import LanceModel.C03.Build
/-
C03 driver: the op lines of harness/src/bin/c03.rs executed on the model (`commit` = the function the theorems are
about; the builders of Build.lean produce the transactions).  One output line per op line.

  create f=<n> <rows>         rows of width 2 (key, x); table (c0 = key, c1 = x, c2 = 100*key + 2); all handles at v1
  open <h>                    handle h := latest version
  <h> append <rows>           <h> delete <keys>      <h> delx <int>       <h> delall
  <h> upd <keys> <int>        <h> overwrite f=<n> <rows>                  <h> compact
  <h> index                   <h> addcol <k>         <h> dropcol c2|d<k>
-/
namespace LanceModel.C03.Driver
open LanceModel.Table LanceModel.Util LanceModel.C03

def NH : Nat := 4

structure St where
  hist : Hist
  handles : List Nat
  used : List Int
  nextUuid : Nat

def init : St := ⟨[], [0, 0, 0, 0], [], 1⟩

def emptyManifest : Manifest := { version := 0, schema := [], frags := [], indices := [], nextFrag := 0 }

def dedup : List Nat → List Nat
  | [] => []
  | x :: xs => if xs.contains x then dedup xs else x :: dedup xs

def showIds (l : List Nat) : String := showNatList (sortNat (dedup l))

def joinOr (sep : String) (l : List String) : String := if l.isEmpty then "-" else sep.intercalate l

def colName (n : Nat) : String := if n < 10 then "c" ++ toString n else "d" ++ toString (n - 10)

def showCols (s : List Fld) : String := joinOr "," (s.map fun f => colName f.name)

def showIndex (i : Index) : String := "ix/" ++ showIds i.fields ++ "/" ++ showIds i.bitmap

def showGroup (g : Group) : String := showIds (g.olds.map (·.id)) ++ ">" ++ showIds (g.news.map (·.id))

def showOp : Op → String
  | .append frs => "append:" ++ toString frs.length
  | .delete upd rem => "delete:u=" ++ showIds (upd.map (·.id)) ++ ":r=" ++ showIds rem
  | .update rem upd new =>
    "update:r=" ++ showIds rem ++ ":u=" ++ showIds (upd.map (·.id)) ++ ":n=" ++ toString new.length
  | .overwrite _ frs => "overwrite:" ++ toString frs.length
  | .rewrite gs ri => "rewrite:" ++ joinOr "+" (gs.map showGroup) ++ ":ri=" ++ toString ri.length
  | .createIndex new rm => "createindex:new=" ++ joinOr "+" (new.map showIndex) ++ ":rm=" ++ toString rm.length
  | .reserve n => "reserve:" ++ toString n
  | .merge s frs => "merge:" ++ toString frs.length ++ ":" ++ showCols s
  | .project s => "project:" ++ showCols s

def showFrag (f : Frag) : String :=
  toString f.id ++ ":" ++ toString f.phys.length ++ ":" ++ showIds f.del

def showState (txn : String) (m : Manifest) : String :=
  "ok v=" ++ toString m.version ++ " txn=" ++ txn ++ " cols=" ++ showCols m.schema
    ++ " frags=" ++ joinOr "," (m.frags.map showFrag)
    ++ " idx=" ++ joinOr "+" (m.indices.map showIndex)
    ++ " scan=" ++ showRows (scan m)

def showErr : Err → String
  | .conflict .retryable => "conflict_retryable"
  | .conflict .incompatible => "conflict_incompatible"
  | .invalid => "invalid_input"
  | .internal => "other"
  | .panic => "panic"

def latestVersion (h : Hist) : Nat :=
  match h with
  | [] => 0
  | v :: _ => v.m.version

def errLine (h : Hist) (e : Err) : String := "err " ++ showErr e ++ " v=" ++ toString (latestVersion h)

def parseKeys (s : String) : Option (List Int) := (s.splitOn ",").mapM parseI64

def parseNat9 (s : String) : Option Nat :=
  if s.length > 9 then none else parseNatChars s.toList

/-- rows of width 2 with a non-NULL key -/
def parseKx (s : String) : Option (List (Int × Cell)) :=
  match parseRows s with
  | some (r :: rs) =>
    (r :: rs).mapM fun row =>
      match row with
      | [some k, x] => some (k, x)
      | _ => none
  | _ => none

def distinct : List Int → Bool
  | [] => true
  | c :: cs => !cs.contains c && distinct cs

def freshKeys (used : List Int) (rows : List (Int × Cell)) : Bool :=
  rows.all (fun r => !used.contains r.1) && distinct (rows.map (·.1))

def parseCol (s : String) : Option Nat :=
  match s.toList with
  | 'c' :: '2' :: [] => some 2
  | 'd' :: cs =>
    match parseNatChars cs with
    | some k => if cs.length ≤ 3 then some (10 + k) else none
    | none => none
  | _ => none

def parseF (s : String) : Option Nat :=
  match s.toList with
  | 'f' :: '=' :: cs =>
    match parseNatChars cs with
    | some n => if n = 0 ∨ cs.length > 6 then none else some n
    | none => none
  | _ => none

inductive Act where
  | append (rows : List (Int × Cell))
  | delete (keys : List Int)
  | delx (v : Int)
  | delall
  | upd (keys : List Int) (v : Int)
  | overwrite (f : Nat) (rows : List (Int × Cell))
  | compact
  | index
  | addcol (k : Nat)
  | dropcol (name : Nat)

def parseAct : List String → Option Act
  | ["append", rows] => (parseKx rows).map .append
  | ["delete", keys] => (parseKeys keys).map .delete
  | ["delx", v] => (parseI64 v).map .delx
  | ["delall"] => some .delall
  | ["upd", keys, v] => do
    let k ← parseKeys keys
    let v ← parseI64 v
    pure (.upd k v)
  | ["overwrite", f, rows] => do
    let f ← parseF f
    let r ← parseKx rows
    pure (.overwrite f r)
  | ["compact"] => some .compact
  | ["index"] => some .index
  | ["addcol", k] =>
    match parseNat9 k with
    | some k => if k < 100 then some (.addcol k) else none
    | none => none
  | ["dropcol", c] => (parseCol c).map .dropcol
  | _ => none

def keyIn (ks : List Int) (r : PRow) : Bool :=
  match cellOf r 0 with
  | some k => ks.contains k
  | none => false

def xIs (v : Int) (r : PRow) : Bool := cellOf r 1 == some v

/-- commit one transaction; the new state and the output line -/
def commitOne (s : St) (h : Nat) (t : Txn) : St × String :=
  match commit s.hist t with
  | .error e => (s, errLine s.hist e)
  | .ok hist' =>
    match hist' with
    | [] => (s, "err other v=0")
    | v :: _ => ({ s with hist := hist', handles := s.handles.set h v.m.version }, showState (showOp v.op) v.m)

/-- the ReserveFragments commits of the compaction tasks: reserved ids so far, or the first error -/
def reserveAll (hist : Hist) (rv : Nat) : Nat → List Nat → Except Err (Hist × List Nat)
  | 0, ids => .ok (hist, ids)
  | n + 1, ids =>
    match commit hist { read := rv, op := .reserve 1, affected := none } with
    | .error e => .error e
    | .ok hist' =>
      match hist' with
      | [] => .error .internal
      | v :: _ => reserveAll hist' rv n (ids ++ [v.m.nextFrag - 1])

def doAct (s : St) (h : Nat) (m : Manifest) : Act → St × String
  | .append rows =>
    if !freshKeys s.used rows then (s, "err keys")
    else commitOne { s with used := s.used ++ rows.map (·.1) } h (mkAppend m rows)
  | .delete ks => commitOne s h (mkDelete m (keyIn ks))
  | .delx v => commitOne s h (mkDelete m (xIs v))
  | .delall =>
    commitOne s h { read := m.version, op := .delete [] (m.frags.map (·.id)), affected := none }
  | .upd ks v => commitOne s h (mkUpdate m (keyIn ks) v)
  | .overwrite f rows =>
    if !freshKeys s.used rows then (s, "err keys")
    else commitOne { s with used := s.used ++ rows.map (·.1) } h (mkOverwrite m f rows)
  | .index => commitOne { s with nextUuid := s.nextUuid + 1 } h (mkIndex m s.nextUuid)
  | .addcol k =>
    if hasName m (10 + k) then (s, "err exists") else commitOne s h (mkAddCol m k)
  | .dropcol name =>
    if !hasName m name then (s, "err nocol") else commitOne s h (mkDropCol m name)
  | .compact =>
    if (planGroups m).isEmpty then
      match s.hist with
      | [] => (s, "err no_table")
      | v :: _ => (s, showState "none" v.m)
    else
      match reserveAll s.hist m.version (planGroups m).length [] with
      | .error e =>
        -- the reservations made before the failing one stay committed
        (s, errLine s.hist e)
      | .ok (hist', ids) =>
        match commit hist' (mkRewrite m ids s.nextUuid) with
        | .error e => ({ s with hist := hist' }, errLine hist' e)
        | .ok hist'' =>
          match hist'' with
          | [] => (s, "err other v=0")
          | v :: _ =>
            ({ s with hist := hist'', handles := s.handles.set h v.m.version,
                      nextUuid := s.nextUuid + m.indices.length },
             showState (showOp v.op) v.m)

def step (s : St) (line : String) : St × String :=
  match splitTokens line with
  | ["create", f, rows] =>
    match parseF f, parseKx rows with
    | some f, some rows =>
      if !s.hist.isEmpty then (s, "err no_table")
      else if !freshKeys [] rows then (s, "err keys")
      else
        match buildManifest emptyManifest (mkOverwrite emptyManifest f rows).op with
        | .error e => (s, "err " ++ showErr e ++ " v=0")
        | .ok m =>
          ({ s with hist := [{ m := m, op := (mkOverwrite emptyManifest f rows).op }],
                    handles := [1, 1, 1, 1], used := rows.map (·.1) },
           showState "create" m)
    | _, _ => (s, "err parse")
  | ["open", h] =>
    match parseNat9 h with
    | some h =>
      if h ≥ NH then (s, "err parse")
      else if s.hist.isEmpty then (s, "err no_table")
      else ({ s with handles := s.handles.set h (latestVersion s.hist) }, "ok v=" ++ toString (latestVersion s.hist))
    | none => (s, "err parse")
  | h :: rest =>
    match parseNat9 h, parseAct rest with
    | some h, some act =>
      if h ≥ NH then (s, "err parse")
      else
        match manifestAt s.hist (s.handles.getD h 0) with
        | none => (s, "err no_table")
        | some m => doAct s h m act
    | _, _ => (s, "err parse")
  | _ => (s, "err parse")

end LanceModel.C03.Driver
