import LanceModel.C03.FrameDU
/-
C03 — from the read version to the latest version along the chain of committed transactions.
-/
namespace LanceModel.C03

theorem chain_tail {v : Ver} {rest : Hist} (h : Chain (v :: rest)) : Chain rest := by
  cases rest with
  | nil => trivial
  | cons w r => exact h.2.2

theorem chain_versions_lt {v : Ver} {rest : Hist} (h : Chain (v :: rest)) : ∀ w ∈ rest, w.m.version < v.m.version := by
  induction rest generalizing v with
  | nil => intro w hw; cases hw
  | cons u r ih =>
    intro w hw
    have h1 : v.m.version = u.m.version + 1 := build_version h.1
    simp at hw
    rcases hw with rfl | hw
    · omega
    · have := ih h.2.2 w hw
      omega

theorem manifestAt_cons (v : Ver) (rest : Hist) (rv : Nat) :
    manifestAt (v :: rest) rv = if v.m.version = rv then some v.m else manifestAt rest rv := by
  simp only [manifestAt, List.find?_cons]
  by_cases h : v.m.version = rv
  · simp [h]
  · have h' : (v.m.version == rv) = false := by simpa using h
    simp [h', h]

theorem manifestAt_mem {h : Hist} {rv : Nat} {m : Manifest} (hm : manifestAt h rv = some m) :
    ∃ v ∈ h, v.m = m ∧ m.version = rv := by
  simp only [manifestAt, Option.map_eq_some_iff] at hm
  obtain ⟨v, hv, rfl⟩ := hm
  exact ⟨v, List.mem_of_find?_eq_some hv, rfl, by simpa using List.find?_some hv⟩

theorem since_cons (v : Ver) (rest : Hist) (rv : Nat) :
    since (v :: rest) rv = if rv < v.m.version then since rest rv ++ [v.op] else since rest rv := by
  simp only [since, List.filter_cons]
  by_cases h : rv < v.m.version <;> simp [h]

theorem since_nil_of_le {h : Hist} {rv : Nat} (hle : ∀ w ∈ h, w.m.version ≤ rv) : since h rv = [] := by
  simp only [since, List.reverse_eq_nil_iff, List.map_eq_nil_iff, List.filter_eq_nil_iff]
  intro w hw
  have := hle w hw
  simp; omega

/-- induction along the chain: a property of (rebase state, manifest) that holds at the read version and is carried
    over every committed step whose check passed holds at the latest version -/
theorem chain_fold {P : Rebase → Manifest → Prop} :
    ∀ (h : Hist), Chain h → (∀ v ∈ h, WfM v.m) → ∀ (rv : Nat) (mRead : Manifest), manifestAt h rv = some mRead →
    ∀ (rb0 : Rebase), P rb0 mRead →
    (∀ prev next op rb rb', buildManifest prev op = .ok next → (isOverwrite op = false → Mono prev next) →
        WfM prev → WfM next → checkTxn rb op = .ok rb' → P rb prev → P rb' next) →
    ∀ rb, checkAll rb0 (since h rv) = .ok rb → ∃ latest rest, h = latest :: rest ∧ P rb latest.m := by
  intro h
  induction h with
  | nil => intro _ _ rv mRead hm; simp [manifestAt] at hm
  | cons v rest ih =>
    intro hch hwf rv mRead hm rb0 hbase hstep rb hc
    refine ⟨v, rest, rfl, ?_⟩
    rw [manifestAt_cons] at hm
    by_cases hv : v.m.version = rv
    · rw [if_pos hv] at hm
      cases hm
      have hs : since (v :: rest) rv = [] := by
        apply since_nil_of_le
        intro w hw
        simp at hw
        rcases hw with rfl | hw
        · omega
        · have := chain_versions_lt hch w hw; omega
      rw [hs] at hc
      simp only [checkAll] at hc
      cases hc
      exact hbase
    · rw [if_neg hv] at hm
      obtain ⟨x, hx, hxm, hxv⟩ := manifestAt_mem hm
      have hlt : rv < v.m.version := by
        have := chain_versions_lt hch x hx
        rw [hxm] at this
        omega
      rw [since_cons, if_pos hlt, checkAll_append] at hc
      split at hc
      · cases hc
      · rename_i rb1 h1
        cases rest with
        | nil => cases hx
        | cons w r =>
          obtain ⟨l, rs, hl, hP⟩ := ih (chain_tail hch) (fun u hu => hwf u (by simp [hu])) rv mRead hm rb0 hbase hstep rb1 h1
          cases hl
          exact hstep w.m v.m v.op rb1 rb hch.1 hch.2.1 (hwf w (by simp)) (hwf v (by simp)) hc hP

end LanceModel.C03
