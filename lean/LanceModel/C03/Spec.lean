import LanceModel.C03.Model
/-
C03 — the SPECIFICATION side (import-free): row-level effects, the serial replay, what "built against a version"
means, and the invariant of reachable histories.

A table is observed as `abs m` = (schema, next fragment id, the live rows tagged with their row address).  The
effect of a transaction is computed from the transaction and the manifest of ITS READ VERSION (`eff`); the serial
replay applies effects one after the other to the observed table (`applyEff`).  Rows are identified by their address:
the theorems show that a committed delete/update removes exactly the rows at the addresses it computed at its read
version, that these addresses still hold the same physical rows on the version it is committed on, and that nothing
else changes.
-/
namespace LanceModel.C03

/-- the observation of a version -/
structure Tbl where
  schema : List Fld
  next : Nat
  rows : List (Addr × PRow)

def abs (m : Manifest) : Tbl := { schema := m.schema, next := m.nextFrag, rows := rowsOf m.frags }

/-- row-level effect of a transaction -/
inductive Effect where
  /-- rows of new fragments (Append) -/
  | insert (frs : List NewFrag)
  /-- the rows at these addresses disappear (Delete) -/
  | delete (A : List Addr)
  /-- the rows at these addresses are replaced by the rows of new fragments (Update / RewriteRows) -/
  | update (A : List Addr) (frs : List NewFrag)
  /-- the whole table is replaced (Overwrite) -/
  | replaceAll (schema : List Fld) (frs : List NewFrag)
  /-- the rows of fragments `olds` move to the fragments `news` (Rewrite) -/
  | move (olds : List Nat) (news : List Frag)
  /-- `n` fragment ids are taken (ReserveFragments) -/
  | reserve (n : Nat)
  /-- nothing visible in the rows (CreateIndex) -/
  | nothing
  /-- the stored rows at the addresses of `frs` get the images `frs` holds for them, the fields `add` are appended to
      the schema (Merge: add columns) -/
  | setImages (add : List Fld) (frs : List Frag)
  /-- these fields leave the schema (Project: drop columns) -/
  | dropFields (flds : List Fld)

/-- addresses of the live rows of the fragments `ids` -/
def liveAddrsOf (fs : List Frag) (ids : List Nat) : List Addr :=
  (rowsOf (fs.filter (fun f => ids.contains f.id))).map (·.1)

/-- the stored row at an address -/
def imageAt (fs : List Frag) (a : Addr) : Option PRow :=
  match fragAt fs a.1 with
  | some f => f.phys[a.2]?
  | none => none

/-- the effect, computed at the read version `mRead`.  A Delete/Update without `affected_rows` (delete everything:
    whole fragments only) affects the live rows of the fragments it removes. -/
def eff (mRead : Manifest) (t : Txn) : Effect :=
  match t.op with
  | .append frs => .insert frs
  | .delete _ rem =>
    match t.affected with
    | some A => .delete A
    | none => .delete (liveAddrsOf mRead.frags rem)
  | .update rem _ new =>
    match t.affected with
    | some A => .update A new
    | none => .update (liveAddrsOf mRead.frags rem) new
  | .overwrite s frs => .replaceAll s frs
  | .rewrite groups _ => .move (oldIds groups) (groups.flatMap (·.news))
  | .createIndex _ _ => .nothing
  | .reserve n => .reserve n
  | .merge s frs => .setImages (s.filter (fun f => !mRead.schema.contains f)) frs
  | .project s => .dropFields (mRead.schema.filter (fun f => !s.contains f))

/-- one step of the serial replay -/
def applyEff (e : Effect) (t : Tbl) : Tbl :=
  match e with
  | .insert frs =>
    { t with rows := t.rows ++ rowsOf (assignIds t.next frs), next := max t.next (maxIdNext (assignIds t.next frs)) }
  | .delete A => { t with rows := t.rows.filter (fun x => !A.contains x.1) }
  | .update A frs =>
    { t with rows := t.rows.filter (fun x => !A.contains x.1) ++ rowsOf (assignIds t.next frs),
             next := max t.next (maxIdNext (assignIds t.next frs)) }
  | .replaceAll s frs =>
    { schema := s, rows := rowsOf (assignIds 0 frs), next := max t.next (maxIdNext (assignIds 0 frs)) }
  | .move olds news => { t with rows := t.rows.filter (fun x => !olds.contains x.1.1) ++ rowsOf news }
  | .reserve n => { t with next := reserveNext t.next n }
  | .nothing => t
  | .setImages add frs =>
    { t with schema := t.schema ++ add,
             rows := t.rows.map (fun x => (x.1, match imageAt frs x.1 with | some r => r | none => x.2)) }
  | .dropFields flds => { t with schema := t.schema.filter (fun f => !flds.contains f) }

/-- two observations agree: same schema, same next id, the same set of (address, row) pairs -/
def Tbl.Same (a b : Tbl) : Prop :=
  a.schema = b.schema ∧ a.next = b.next ∧ ∀ x, x ∈ a.rows ↔ x ∈ b.rows

/-! ## transactions built against a version -/

/-- `(upd, rem)` is what deleting the live rows `A` of `m` produces (apply_deletions): updated fragments keep their
    data and get the deletions, removed fragments have no live row left -/
structure BuiltDel (m : Manifest) (A : List Addr) (upd : List Frag) (rem : List Nat) : Prop where
  hlive : ∀ a ∈ A, ∃ f ∈ m.frags, f.id = a.1 ∧ a.2 < f.phys.length ∧ a.2 ∉ f.del
  hupd : ∀ u ∈ upd, ∃ f ∈ m.frags, f.id = u.id ∧ u.phys = f.phys ∧ u.files = f.files ∧
          ∀ o, o ∈ u.del ↔ (o ∈ f.del ∨ (u.id, o) ∈ A)
  hrem : ∀ r ∈ rem, ∃ f ∈ m.frags, f.id = r ∧ ∀ o, o < f.phys.length → (o ∈ f.del ∨ (r, o) ∈ A)
  hcover : ∀ a ∈ A, (∃ u ∈ upd, u.id = a.1) ∨ a.1 ∈ rem

/-- the transaction is one a writer produces when it runs against manifest `m` -/
def Built (m : Manifest) (t : Txn) : Prop :=
  match t.op with
  | .append _ => True
  | .delete upd rem =>
    match t.affected with
    | some A => BuiltDel m A upd rem
    | none => upd = [] ∧ ∀ r ∈ rem, ∃ f ∈ m.frags, f.id = r
  | .update rem upd _ =>
    match t.affected with
    | some A => BuiltDel m A upd rem
    | none => upd = [] ∧ ∀ r ∈ rem, ∃ f ∈ m.frags, f.id = r
  | .overwrite _ _ => True
  | .rewrite groups _ =>
    -- the old fragments are fragments of `m`
    ∀ g ∈ groups, ∀ o ∈ g.olds, o ∈ m.frags
  | .createIndex _ _ => True
  | .reserve _ => True
  | .merge s frs =>
    frs.map (fun f => (f.id, f.phys.length, f.del)) = m.frags.map (fun f => (f.id, f.phys.length, f.del)) ∧
    ∃ add, s = m.schema ++ add ∧ ∀ f ∈ add, f ∉ m.schema
  | .project s => ∃ keep : Fld → Bool, s = m.schema.filter keep

/-! ## the invariant of reachable histories -/

/-- fragment ids are unique and below `nextFrag` -/
structure WfM (m : Manifest) : Prop where
  nodup : (m.frags.map (·.id)).Nodup
  bound : ∀ f ∈ m.frags, f.id < m.nextFrag

theorem inj_of_nodup {fs : List Frag} (h : (fs.map (·.id)).Nodup) :
    ∀ f ∈ fs, ∀ g ∈ fs, f.id = g.id → f = g := by
  intro f hf g hg hid
  obtain ⟨i, hi⟩ := List.getElem?_of_mem hf
  obtain ⟨j, hj⟩ := List.getElem?_of_mem hg
  have hlt : i < (fs.map (·.id)).length := by
    have := (List.getElem?_eq_some_iff.1 hi).1; simpa using this
  have : (fs.map (·.id))[i]? = (fs.map (·.id))[j]? := by
    rw [List.getElem?_map, List.getElem?_map, hi, hj]; simp [hid]
  have hij := (List.getElem?_inj hlt h).1 this
  subst hij
  rw [hi] at hj; cases hj; rfl

theorem WfM.inj {m : Manifest} (h : WfM m) : ∀ f ∈ m.frags, ∀ g ∈ m.frags, f.id = g.id → f = g :=
  inj_of_nodup h.nodup

/-- between two consecutive versions deletion vectors of a fragment that keeps its data only grow -/
def Mono (a b : Manifest) : Prop :=
  ∀ f ∈ a.frags, ∀ g ∈ b.frags, f.id = g.id → f.phys = g.phys → ∀ o ∈ f.del, o ∈ g.del

def isOverwrite : Op → Bool
  | .overwrite _ _ => true
  | _ => false

/-- every version is the result of `build_manifest` of its (rebased) transaction on the version before -/
def Chain : Hist → Prop
  | [] => True
  | [_] => True
  | v :: w :: rest =>
    buildManifest w.m v.op = .ok v.m ∧ (isOverwrite v.op = false → Mono w.m v.m) ∧ Chain (w :: rest)

structure Inv (h : Hist) : Prop where
  chain : Chain h
  wf : ∀ v ∈ h, WfM v.m

end LanceModel.C03
