import LanceModel.C03.ReserveLemmas
/-
C03 — runs whose Rewrites carry RESERVED ids: freshness on the version a Rewrite is committed on is derived from the
reserve protocol instead of being assumed.
-/
namespace LanceModel.C03

/-- what the reserve protocol gives the new fragments of a Rewrite: distinct ids, each of which was handed out by a
    ReserveFragments commit at or after the read version (`reserve_gives_fresh`: non-zero, below the counter, unused
    there) and was taken by no Rewrite committed so far (a writer uses only the ids it reserved itself) -/
structure ReservedNews (h : Hist) (t : Txn) (gs : List Group) : Prop where
  nodup : ((allNews gs).map (·.id)).Nodup
  prov : ∀ f ∈ allNews gs, f.id ≠ 0 ∧ ∃ w ∈ h, t.read ≤ w.m.version ∧ FreshId f.id w.m
  excl : ∀ f ∈ allNews gs, ∀ v ∈ h, ∀ gs' ri', v.op = .rewrite gs' ri' → ∀ f' ∈ allNews gs', f'.id ≠ 0 ∧ f'.id ≠ f.id

def ValidR (h : Hist) (t : Txn) : Prop :=
  (∀ mRead, manifestAt h t.read = some mRead → Built mRead t) ∧
  (∀ gs ri, t.op = .rewrite gs ri → ReservedNews h t gs)

def ValidRunR : Hist → List Txn → Prop
  | _, [] => True
  | h, t :: ts => ValidR h t ∧ ValidRunR (step h t) ts

/-- the reserved ids of a Rewrite whose check passed are fresh on the latest version (the hypothesis `FreshNews` of
    `step_rewrite`, now a theorem) -/
theorem reserved_fresh {h h' : Hist} {t : Txn} {gs : List Group} {ri : List (Nat × Nat)} (hinv : Inv h)
    (hop : t.op = .rewrite gs ri) (hv : ValidR h t) (hc : commit h t = .ok h') :
    ∀ latest rest, h = latest :: rest → FreshNews latest.m gs := by
  obtain ⟨latest, rest, mRead, rb, t', m', rfl, hm, hrb, _, _, rfl⟩ := commit_ok hc
  have hR := hv.2 gs ri hop
  have hfresh : ∀ f ∈ allNews gs, FreshId f.id latest.m := by
    intro f hf
    obtain ⟨l, r, hl, hF⟩ := fresh_at_commit hinv hop hm hrb f.id (hR.prov f hf).2 (hR.excl f hf)
    cases hl; exact hF
  obtain ⟨l2, r2, hl2, hFR⟩ := frameRW_latest hinv hop (hv.1 mRead hm) hm hrb
  cases hl2
  intro l r hl; cases hl
  refine ⟨fun f hf => (hR.prov f hf).1, hR.nodup, fun f hf x hx => ((hfresh f hf).2 x hx).symm, ?_, fun f hf => (hfresh f hf).1⟩
  intro f hf hold
  simp only [oldIds, List.mem_flatMap, List.mem_map] at hold
  obtain ⟨g, hg, o, ho, hid⟩ := hold
  obtain ⟨x, hx, hxid, _, _⟩ := hFR o (by simp only [allOlds, List.mem_flatMap]; exact ⟨g, hg, ho⟩)
  exact (hfresh f hf).2 x hx (hxid.trans hid)

theorem step_reserved {h h' : Hist} {t : Txn} (hinv : Inv h) (hv : ValidR h t) (hc : commit h t = .ok h') :
    StepOk h h' t ∧ Inv h' :=
  step_covered hinv ⟨hv.1, fun _ _ hop => reserved_fresh hinv hop hv hc⟩ hc

theorem inv_runR {h : Hist} {ts : List Txn} (hinv : Inv h) (hv : ValidRunR h ts) : Inv (run h ts) := by
  induction ts generalizing h with
  | nil => exact hinv
  | cons t ts ih =>
    apply ih _ hv.2
    unfold step
    split
    · rename_i h' hc; exact (step_reserved hinv hv.1 hc).2
    · exact hinv

end LanceModel.C03
