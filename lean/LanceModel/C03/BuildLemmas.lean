import LanceModel.C03.Lemmas
/-
C03 — what each arm of build_manifest does to the fragment list, the schema and the id counter.
-/
namespace LanceModel.C03

theorem mk_frags (cur : Manifest) (s : List Fld) (fs : List Frag) (ixs : List Index) (g : Frag) :
    g ∈ (mkManifest cur s fs ixs).frags ↔ g ∈ fs := by
  simp [mkManifest, mem_sortFrags]

theorem build_append {cur m' : Manifest} {frs : List NewFrag} (h : buildManifest cur (.append frs) = .ok m') :
    m' = mkManifest cur cur.schema (cur.frags ++ assignIds cur.nextFrag frs) cur.indices := by
  simp only [buildManifest] at h; cases h; rfl

theorem build_delete {cur m' : Manifest} {upd : List Frag} {rem : List Nat}
    (h : buildManifest cur (.delete upd rem) = .ok m') :
    m' = mkManifest cur cur.schema ((cur.frags.filter (fun f => !rem.contains f.id)).map (replaceLast upd))
      (retainIndices cur.schema cur.indices) := by
  simp only [buildManifest] at h; cases h; rfl

theorem build_update {cur m' : Manifest} {upd : List Frag} {rem : List Nat} {new : List NewFrag}
    (h : buildManifest cur (.update rem upd new) = .ok m') :
    m' = mkManifest cur cur.schema
      ((cur.frags.filter (fun f => !rem.contains f.id)).map (replaceFirst upd) ++ assignIds cur.nextFrag new)
      (retainIndices cur.schema cur.indices) := by
  simp only [buildManifest] at h; cases h; rfl

theorem build_overwrite {cur m' : Manifest} {s : List Fld} {frs : List NewFrag}
    (h : buildManifest cur (.overwrite s frs) = .ok m') : m' = mkManifest cur s (assignIds 0 frs) [] := by
  simp only [buildManifest] at h; cases h; rfl

theorem build_createIndex {cur m' : Manifest} {new rm : List Index}
    (h : buildManifest cur (.createIndex new rm) = .ok m') :
    m'.frags = sortFrags cur.frags ∧ m'.schema = cur.schema ∧ m'.nextFrag = max cur.nextFrag (maxIdNext cur.frags)
      ∧ m'.version = cur.version + 1 := by
  simp only [buildManifest] at h; cases h; simp [mkManifest]

theorem build_reserve {cur m' : Manifest} {n : Nat} (h : buildManifest cur (.reserve n) = .ok m') :
    m'.frags = sortFrags cur.frags ∧ m'.schema = cur.schema ∧
      m'.nextFrag = reserveNext (max cur.nextFrag (maxIdNext cur.frags)) n ∧ m'.version = cur.version + 1 := by
  simp only [buildManifest] at h; cases h; simp [mkManifest]

theorem build_merge {cur m' : Manifest} {s : List Fld} {frs : List Frag}
    (h : buildManifest cur (.merge s frs) = .ok m') :
    m' = mkManifest cur s frs (retainIndices s cur.indices) := by
  simp only [buildManifest] at h; cases h; rfl

theorem build_project {cur m' : Manifest} {s : List Fld} (h : buildManifest cur (.project s) = .ok m') :
    m' = mkManifest cur s
      (cur.frags.map (fun f => { f with files := f.files.filter (fun fl => fl.any (fun x => s.any (fun t => t.id == x))) }))
      (retainIndices s cur.indices) := by
  simp only [buildManifest] at h; cases h; rfl

theorem build_rewrite {cur m' : Manifest} {groups : List Group} {ri : List (Nat × Nat)}
    (h : buildManifest cur (.rewrite groups ri) = .ok m') :
    ∃ fs next ixs, rewriteGroups cur.frags cur.nextFrag groups = .ok (fs, next) ∧ m' = mkManifest cur cur.schema fs ixs := by
  simp only [buildManifest] at h
  split at h
  · cases h
  · rename_i fs next hfs
    split at h
    · cases h
    · rename_i ixs _
      cases h
      exact ⟨fs, next, ixs, hfs, rfl⟩

/-- every arm publishes version + 1 -/
theorem build_version {cur m' : Manifest} {op : Op} (h : buildManifest cur op = .ok m') :
    m'.version = cur.version + 1 := by
  cases op with
  | append frs => rw [build_append h]; rfl
  | delete upd rem => rw [build_delete h]; rfl
  | update rem upd new => rw [build_update h]; rfl
  | overwrite s frs => rw [build_overwrite h]; rfl
  | rewrite gs ri => obtain ⟨fs, next, ixs, _, rfl⟩ := build_rewrite h; rfl
  | createIndex new rm => exact (build_createIndex h).2.2.2
  | reserve n => exact (build_reserve h).2.2.2
  | merge s frs => rw [build_merge h]; rfl
  | project s => rw [build_project h]; rfl

theorem maxIdNext_spec (fs : List Frag) : (∀ f ∈ fs, f.id < maxIdNext fs) := by
  unfold maxIdNext
  suffices h : ∀ (acc : Nat), acc ≤ fs.foldl (fun acc f => max acc (f.id + 1)) acc ∧
      ∀ f ∈ fs, f.id < fs.foldl (fun acc f => max acc (f.id + 1)) acc from (h 0).2
  induction fs with
  | nil => intro acc; simp
  | cons a t ih =>
    intro acc
    simp only [List.foldl_cons]
    have h := ih (max acc (a.id + 1))
    refine ⟨by omega, ?_⟩
    intro f hf
    simp at hf
    rcases hf with rfl | hf
    · omega
    · exact h.2 f hf

theorem mk_bound (cur : Manifest) (s : List Fld) (fs : List Frag) (ixs : List Index) :
    ∀ g ∈ (mkManifest cur s fs ixs).frags, g.id < (mkManifest cur s fs ixs).nextFrag := by
  intro g hg
  rw [mk_frags] at hg
  have := maxIdNext_spec fs g hg
  simp only [mkManifest]; omega

end LanceModel.C03
