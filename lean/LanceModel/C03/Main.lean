import LanceModel.C03.Driver
def main : IO Unit := LanceModel.Util.runDriver LanceModel.C03.Driver.step LanceModel.C03.Driver.init
