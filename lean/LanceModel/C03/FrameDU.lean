import LanceModel.C03.RewriteLemmas
/-
C03 — the frame of a Delete / Update transaction: what `check_txn = Ok` over the transactions committed since the read
version guarantees about the fragments the transaction modifies, on the version it is committed on.
-/
namespace LanceModel.C03

/-- `needs_rewrite` is set for the fragment -/
def flagged (rb : Rebase) (id : Nat) : Prop := ∃ p ∈ rb.initial, p.1.id = id ∧ p.2 = true

/-- the rebase state is about the fragments of the read version -/
structure RbOk (mRead : Manifest) (rb : Rebase) : Prop where
  init_mem : ∀ p ∈ rb.initial, p.1 ∈ mRead.frags ∧ p.1.id ∈ rb.modified
  init_all : rb.affected.isSome = true → ∀ f ∈ mRead.frags, f.id ∈ rb.modified → ∃ p ∈ rb.initial, p.1 = f
  flag_aff : ∀ p ∈ rb.initial, p.2 = true → rb.affected.isSome = true

/-- every fragment of the read version that the transaction modifies is still there with the same data; its deletion
    vector has only grown, and has not changed at all unless the fragment is flagged for a rewrite -/
def FrameDU (mRead : Manifest) (rb : Rebase) (m : Manifest) : Prop :=
  ∀ f ∈ mRead.frags, f.id ∈ rb.modified →
    ∃ g ∈ m.frags, g.id = f.id ∧ g.phys = f.phys ∧ (∀ o ∈ f.del, o ∈ g.del) ∧ (¬ flagged rb f.id → g.del = f.del)

/-- the step keeps every fragment's data and deletions -/
def Keeps (prev next : Manifest) : Prop :=
  ∀ g ∈ prev.frags, ∃ g' ∈ next.frags, g'.id = g.id ∧ g'.phys = g.phys ∧ g'.del = g.del

theorem frameDU_of_keeps {mRead prev next : Manifest} {rb : Rebase} (hF : FrameDU mRead rb prev)
    (hk : ∀ g ∈ prev.frags, g.id ∈ rb.modified → ∃ g' ∈ next.frags, g'.id = g.id ∧ g'.phys = g.phys ∧ g'.del = g.del) :
    FrameDU mRead rb next := by
  intro f hf hmod
  obtain ⟨g, hg, h1, h2, h3, h4⟩ := hF f hf hmod
  obtain ⟨g', hg', k1, k2, k3⟩ := hk g hg (by rw [h1]; exact hmod)
  exact ⟨g', hg', k1.trans h1, k2.trans h2, by rw [k3]; exact h3, by rw [k3]; exact h4⟩

theorem keeps_append {prev next : Manifest} {frs : List NewFrag} (h : buildManifest prev (.append frs) = .ok next) :
    Keeps prev next := by
  intro g hg
  rw [build_append h]
  exact ⟨g, by rw [mk_frags]; simp [hg], rfl, rfl, rfl⟩

theorem keeps_createIndex {prev next : Manifest} {a b : List Index}
    (h : buildManifest prev (.createIndex a b) = .ok next) : Keeps prev next := by
  intro g hg
  exact ⟨g, by rw [(build_createIndex h).1, mem_sortFrags]; exact hg, rfl, rfl, rfl⟩

theorem keeps_reserve {prev next : Manifest} {n : Nat} (h : buildManifest prev (.reserve n) = .ok next) :
    Keeps prev next := by
  intro g hg
  exact ⟨g, by rw [(build_reserve h).1, mem_sortFrags]; exact hg, rfl, rfl, rfl⟩

theorem keeps_project {prev next : Manifest} {s : List Fld} (h : buildManifest prev (.project s) = .ok next) :
    Keeps prev next := by
  intro g hg
  rw [build_project h]
  refine ⟨{ g with files := g.files.filter (fun fl => fl.any (fun x => s.any (fun t => t.id == x))) }, ?_, rfl, rfl, rfl⟩
  rw [mk_frags]; exact List.mem_map.2 ⟨g, hg, rfl⟩

theorem keeps_rewrite {prev next : Manifest} {gs : List Group} {ri : List (Nat × Nat)}
    (h : buildManifest prev (.rewrite gs ri) = .ok next) (g : Frag) (hg : g ∈ prev.frags) (hid : g.id ∉ oldIds gs) :
    g ∈ next.frags := by
  obtain ⟨fs, n, ixs, h1, rfl⟩ := build_rewrite h
  rw [mk_frags]
  exact rewriteGroups_keeps h1 g hg hid

/-- Delete and Update arms of build_manifest, seen from one fragment of the previous version -/
theorem delupd_survive {prev next : Manifest} {op : Op} {upd : List Frag} {rem : List Nat}
    (hop : op = .delete upd rem ∨ ∃ new, op = .update rem upd new)
    (h : buildManifest prev op = .ok next) (g : Frag) (hg : g ∈ prev.frags) (hr : g.id ∉ rem) :
    ∃ g' ∈ next.frags, g'.id = g.id ∧ ((g' = g ∧ ∀ u ∈ upd, u.id ≠ g.id) ∨ g' ∈ upd) := by
  rcases hop with rfl | ⟨new, rfl⟩
  · rw [build_delete h]
    refine ⟨replaceLast upd g, ?_, replaceLast_id _ _, ?_⟩
    · rw [mk_frags]
      exact List.mem_map_of_mem (List.mem_filter.2 ⟨hg, by simpa using hr⟩)
    · rcases replaceLast_spec upd g with ⟨h1, h2⟩ | ⟨u, hu, _, h2⟩
      · left; exact ⟨h1, h2⟩
      · right; rw [h2]; exact hu
  · rw [build_update h]
    refine ⟨replaceFirst upd g, ?_, replaceFirst_id _ _, ?_⟩
    · rw [mk_frags]
      exact List.mem_append_left _ (List.mem_map_of_mem (List.mem_filter.2 ⟨hg, by simpa using hr⟩))
    · rcases replaceFirst_spec upd g with ⟨h1, h2⟩ | ⟨u, hu, _, h2⟩
      · left; exact ⟨h1, h2⟩
      · right; rw [h2]; exact hu

theorem flagged_mark {rb : Rebase} {upd : List Frag} {id : Nat} :
    flagged { rb with initial := markRewrites rb.initial upd } id ↔
      (flagged rb id ∨ ∃ p ∈ rb.initial, p.1.id = id ∧ ∃ u ∈ upd, u.id = id ∧ u.del ≠ p.1.del) := by
  simp only [flagged, markRewrites, List.mem_map]
  constructor
  · rintro ⟨_, ⟨p, hp, rfl⟩, h1, h2⟩
    simp only [Bool.or_eq_true, List.any_eq_true, Bool.and_eq_true, beq_iff_eq, bne_iff_ne] at h2
    rcases h2 with h2 | ⟨u, hu, h3, h4⟩
    · left; exact ⟨p, hp, h1, h2⟩
    · right; exact ⟨p, hp, h1, u, hu, h3.trans h1, h4⟩
  · rintro (⟨p, hp, h1, h2⟩ | ⟨p, hp, h1, u, hu, h3, h4⟩)
    · exact ⟨_, ⟨p, hp, rfl⟩, h1, by simp [h2]⟩
    · refine ⟨_, ⟨p, hp, rfl⟩, h1, ?_⟩
      simp only [Bool.or_eq_true, List.any_eq_true, Bool.and_eq_true, beq_iff_eq, bne_iff_ne]
      right; exact ⟨u, hu, h3.trans h1.symm, h4⟩

/-- the Update | Delete arm -/
theorem frameDU_delupd {mRead prev next : Manifest} {rb rb' : Rebase} {op : Op} {upd : List Frag} {rem : List Nat}
    (hop : op = .delete upd rem ∨ ∃ new, op = .update rem upd new)
    (hok : RbOk mRead rb)
    (hb : buildManifest prev op = .ok next) (hmono : Mono prev next)
    (hc : checkDelUpd rb upd rem = .ok rb') (hF : FrameDU mRead rb prev) :
    FrameDU mRead rb' next ∧ RbOk mRead rb' := by
  unfold checkDelUpd at hc
  split at hc
  · -- no fragment in common
    rename_i hno
    cases hc
    refine ⟨?_, hok⟩
    apply frameDU_of_keeps hF
    intro g hg hmod
    simp only [Bool.not_eq_eq_eq_not, Bool.not_true, List.any_eq_false, List.mem_append, List.mem_map,
      List.contains_eq_mem, decide_eq_true_eq] at hno
    have hr : g.id ∉ rem := fun hh => hno g.id (Or.inr hh) hmod
    obtain ⟨g', hg', hid, hcase⟩ := delupd_survive hop hb g hg hr
    rcases hcase with ⟨rfl, _⟩ | hu
    · exact ⟨g', hg', rfl, rfl, rfl⟩
    · exfalso
      exact hno g.id (Or.inl ⟨g', hu, hid⟩) hmod
  · split at hc
    · cases hc
    · rename_i haff
      split at hc
      · cases hc
      · rename_i hfiles
        split at hc
        · cases hc
        · rename_i hrem
          cases hc
          have haff' : rb.affected.isSome = true := by
            cases h : rb.affected <;> simp_all
          refine ⟨?_, ?_⟩
          · intro f hf hmod
            obtain ⟨g, hg, h1, h2, h3, h4⟩ := hF f hf hmod
            obtain ⟨p, hp, hpf⟩ := hok.init_all haff' f hf hmod
            have hr : g.id ∉ rem := by
              intro hh
              apply hrem
              exact List.any_eq_true.2 ⟨g.id, hh, List.any_eq_true.2 ⟨p, hp, by simp [hpf, h1]⟩⟩
            obtain ⟨g', hg', hid, hcase⟩ := delupd_survive hop hb g hg hr
            rcases hcase with ⟨rfl, hnone⟩ | hu
            · refine ⟨g', hg', h1, h2, h3, ?_⟩
              intro hnf
              apply h4
              intro hfl
              exact hnf ((flagged_mark).2 (Or.inl hfl))
            · -- replaced by the other transaction's fragment
              have hfd : filesDiffer p.1 g' = false := by
                simp only [anyFilesDiffer, Bool.not_eq_true, List.any_eq_false, Bool.and_eq_false_imp,
                  beq_iff_eq] at hfiles
                have := hfiles g' hu p hp (by rw [hpf, hid, h1])
                simpa using this
              have hphys : g'.phys = f.phys := by
                simp only [filesDiffer, Bool.or_eq_false_iff, bne_eq_false_iff_eq] at hfd
                rw [← hpf]; exact hfd.2.symm
              refine ⟨g', hg', hid.trans h1, hphys, ?_, ?_⟩
              · intro o ho
                exact hmono g hg g' hg' hid.symm (by rw [h2, hphys]) o (h3 o ho)
              · intro hnf
                by_cases hd : g'.del = f.del
                · exact hd
                · exfalso
                  apply hnf
                  apply (flagged_mark).2
                  right
                  exact ⟨p, hp, by rw [hpf], g', hu, hid.trans h1, by rw [hpf]; exact hd⟩
          · exact ⟨by
              intro p hp
              simp only [markRewrites, List.mem_map] at hp
              obtain ⟨q, hq, rfl⟩ := hp
              exact hok.init_mem q hq,
            by
              intro _ f hf hmod
              obtain ⟨p, hp, hpf⟩ := hok.init_all haff' f hf hmod
              exact ⟨_, List.mem_map_of_mem hp, hpf⟩,
            by
              intro _ _ _; exact haff'⟩

end LanceModel.C03
