import LanceModel.C25.Model
/-
C25 model, part B: inside a mini-block page — chunks, the repetition index, `ChunkInstructions`,
`ChunkDrainInstructions` and `map_range`.

Rust counterparts (all in /repo/rust/lance-encoding/src/encodings/logical/primitive.rs):
* `PrimitiveStructuralEncoder::compress_levels`          the repetition index the writer stores (`buildRepIndex`)
* `MiniBlockRepIndex::decode_from_bytes`                  `decodeRepIndex`
* `ChunkInstructions::schedule_instructions`              `findBlock`, `schedLoop`, `schedRange`, `mergeInstrs`, `scheduleInstructions`
* `ChunkInstructions::drain_from_instruction`             `drainFromInstruction`
* `MiniBlockDecoder::drain`                               `drainLoop`
* `DecodeMiniBlockTask::map_range`                        `posOfStart`, `mapRange`
* `DecodeMiniBlockTask::decode`                           `decodeDrain`

A page is its sequence of rep/def level entries.  Of a level only two facts matter here: does it start a
top-level row (`rep == max_rep`) and is it visible (`def <= max_visible_def`, i.e. it owns a slot in the
values buffer; null and empty lists are invisible).  A page without repetition is the special case "every entry
starts a row and is visible".  A chunk is a consecutive piece of the page's entries.
-/
namespace LanceModel.C25

/-- one rep/def level entry with the value slot it owns (meaningful when visible) -/
structure Ent (α : Type) where
  start : Bool
  vis : Bool
  val : α
deriving Repr, DecidableEq

inductive Pre where
  | absent
  | skip
  | take
deriving Repr, DecidableEq

/-- `MiniBlockRepIndexBlock` -/
structure Block where
  firstRow : Nat
  starts : Nat
  hasPre : Bool
  hasTrail : Bool
deriving Repr, DecidableEq

/-- `ChunkInstructions` -/
structure Instr where
  chunk : Nat
  pre : Pre
  skip : Nat
  take : Nat
  trailer : Bool
deriving Repr, DecidableEq

/-- `ChunkDrainInstructions` -/
structure DrainInstr where
  ci : Instr
  skip : Nat
  take : Nat
  pre : Pre
deriving Repr, DecidableEq

/-! ## the repetition index -/

/-- position from the end of the last row start, plus one (`rep_values.iter().rev().position(..).map(|p| p + 1)
    .unwrap_or(len)`) -/
def leftovers {α : Type} (c : List (Ent α)) : Nat :=
  match c.reverse.findIdx? (·.start) with
  | some p => p + 1
  | none => c.length

/-- "we thought we had leftovers but that was actually a full row": `rep_index[len - 2] += 1; rep_index[len - 1] = 0`
    when the leftovers recorded for the previous chunk are not 0 -/
def settleLast (acc : List (Nat × Nat)) : List (Nat × Nat) :=
  match acc.getLast? with
  | some (r, l) => if l ≠ 0 then acc.dropLast ++ [(r + 1, 0)] else acc
  | none => acc

/-- does the chunk begin with a row start (`rep_values.first() == Some(&max_rep)`) -/
def headStarts {α : Type} (c : List (Ent α)) : Bool := (c.head?.map (·.start)).getD false

/-- rows that start in the given levels (`filter(|v| **v == max_rep).count()`) -/
def startCount {α : Type} (c : List (Ent α)) : Nat := (c.filter (·.start)).length

/-- `compress_levels`, the repetition-index part: one `(rows finished in the chunk, leftover levels)` pair per
    chunk.  `acc` is the index built so far (most recent chunk LAST), `first` = `chunk_idx == 0`.
    A chunk that starts with a new row settles the pair of the previous chunk first. -/
def buildRepIndexAux {α : Type} : List (List (Ent α)) → Bool → List (Nat × Nat) → List (Nat × Nat)
  | [], _, acc => acc
  | c :: rest, first, acc =>
    if rest.isEmpty then
      (if !first && headStarts c then settleLast acc else acc) ++ [(startCount (c.drop 1) + 1, 0)]
    else
      buildRepIndexAux rest false
        ((if !first && headStarts c then settleLast acc else acc) ++ [(startCount (c.drop 1), leftovers c)])

def buildRepIndex {α : Type} (chunks : List (List (Ent α))) : List (Nat × Nat) :=
  buildRepIndexAux chunks true []

/-- `MiniBlockRepIndex::decode_from_bytes` with stride 2: `(ends, partial)` pairs → blocks.
    `hasPre` = `chunk_has_preamble`, `off` = `offset`. -/
def decodeRepIndex : List (Nat × Nat) → Bool → Nat → List Block
  | [], _, _ => []
  | (ends, part) :: t, hasPre, off =>
    ⟨off, ends + (if part > 0 then 1 else 0) - (if hasPre then 1 else 0), hasPre, decide (part > 0)⟩ ::
      decodeRepIndex t (decide (part > 0))
        (off + (ends + (if part > 0 then 1 else 0) - (if hasPre then 1 else 0)))

/-- `MiniBlockRepIndex::default_from_chunks` (pages without repetition): one row per value -/
def defaultRepIndex : List Nat → Nat → List Block
  | [], _ => []
  | n :: t, off => ⟨off, n, false, false⟩ :: defaultRepIndex t (off + n)

/-! ## `schedule_instructions` -/

/-- the insertion point of `start` among the (sorted) `first_row`s: the number of leading blocks with
    `first_row < start` -/
def leadingLt (start : Nat) : List Block → Nat
  | [] => 0
  | b :: t => if b.firstRow < start then leadingLt start t + 1 else 0

/-- `binary_search_by_key(&start, |b| b.first_row)` on the (sorted) blocks, then "walk backwards to the first
    eligible chunk": the first block with `first_row == start` if there is one, else the block before the
    insertion point.  `none` = `idx - 1` with `idx == 0`. -/
def findBlock (blocks : List Block) (start : Nat) : Option Nat :=
  match blocks[leadingLt start blocks]? with
  | some b =>
    if b.firstRow = start then some (leadingLt start blocks)
    else if leadingLt start blocks = 0 then none else some (leadingLt start blocks - 1)
  | none => if leadingLt start blocks = 0 then none else some (leadingLt start blocks - 1)

/-- the loop `while rows_needed > 0 || need_preamble` of `schedule_instructions` for one user range.
    Arguments: `blocks[block_index..]`, `block_index`, `rows_needed`, `need_preamble`, `to_skip`. -/
def schedLoop : List Block → Nat → Nat → Bool → Nat → List Instr
  | [], _, _, _, _ => []
  | b :: bs, idx, need, np, skip =>
    if need = 0 ∧ np = false then []
    else if b.starts - skip = 0 ∧ skip = 0 then
      -- a block that is entirely preamble
      if b.hasPre ∧ np then
        ⟨idx, .take, 0, 0, b.hasTrail⟩ ::
          schedLoop bs (idx + 1) need (if b.starts > 0 ∨ bs.isEmpty then false else np) 0
      else schedLoop bs (idx + 1) need np 0
    else if b.starts - skip = 0 then
      schedLoop bs (idx + 1) need np (skip - b.starts)
    else
      ⟨idx, if b.hasPre then (if np then .take else .skip) else .absent, skip, min (b.starts - skip) need,
          decide (min (b.starts - skip) need = b.starts - skip) && b.hasTrail⟩ ::
        schedLoop bs (idx + 1) (need - min (b.starts - skip) need)
          (decide (min (b.starts - skip) need = b.starts - skip) && b.hasTrail) 0

/-- one iteration of `for user_range in user_ranges`; `none` = a panic (`idx - 1` underflow, index out of bounds) -/
def schedRange (blocks : List Block) (r : Rg) : Option (List Instr) :=
  match findBlock blocks r.s with
  | none => none
  | some bi =>
    match blocks[bi]? with
    | none => none
    | some b => some (schedLoop (blocks.drop bi) bi (r.e - r.s) false (r.s - b.firstRow))

/-- the merge of adjacent instructions for the same chunk; `last` = `merged_instructions.last_mut()` -/
def mergeAux (last : Instr) : List Instr → List Instr
  | [] => [last]
  | i :: t =>
    if last.chunk = i.chunk ∧ last.take + last.skip = i.skip then
      mergeAux { last with take := last.take + i.take, trailer := last.trailer || i.trailer } t
    else last :: mergeAux i t

def mergeInstrs : List Instr → List Instr
  | [] => []
  | i :: t => mergeAux i t

def schedRanges (blocks : List Block) : List Rg → Option (List Instr)
  | [] => some []
  | r :: rs =>
    match schedRange blocks r, schedRanges blocks rs with
    | some a, some b => some (a ++ b)
    | _, _ => none

/-- `ChunkInstructions::schedule_instructions(rep_index, user_ranges)`.  With more than one range the instructions
    are merged; `instructions_iter.next().unwrap()` panics when there is none (`none`). -/
def scheduleInstructions (blocks : List Block) (rs : List Rg) : Option (List Instr) :=
  match schedRanges blocks rs with
  | none => none
  | some l => if rs.length > 1 then (if l.isEmpty then none else some (mergeInstrs l)) else some l

/-! ## draining -/

/-- `ChunkInstructions::drain_from_instruction(&mut rows_desired, &mut need_preamble, &mut skip_in_chunk)`:
    the drain instruction, `consumed_chunk`, and the three updated arguments.
    `none` = `panic!("Need preamble but there isn't one")`. -/
def drainFromInstruction (i : Instr) (desired : Nat) (np : Bool) (skip : Nat) :
    Option (DrainInstr × Bool × Nat × Bool × Nat) :=
  if np ∧ i.pre = .absent then none
  else
    let act : Pre := if np then .take else if i.pre = .absent then .absent else .skip
    if desired ≥ i.take - skip then
      some (⟨i, skip, i.take - skip, act⟩, true, desired - (i.take - skip), i.trailer, 0)
    else
      some (⟨i, skip, desired, act⟩, false, 0, false, skip + desired)

/-- `MiniBlockDecoder::drain(num_rows)`: the loop `while items_desired > 0 || need_preamble`.
    Arguments: `self.instructions`, `items_desired`, `need_preamble`, `skip_in_chunk`; returns the drain
    instructions, the remaining queue and the new `offset_in_current_chunk`.
    An instruction that is not consumed leaves `items_desired = 0`, `need_preamble = false`: the loop ends. -/
def drainLoop : List Instr → Nat → Bool → Nat → Option (List DrainInstr × List Instr × Nat)
  | q, 0, false, skip => some ([], q, skip)
  | [], _, _, _ => none
  | i :: q, desired, np, skip =>
    match drainFromInstruction i desired np skip with
    | none => none
    | some (d, consumed, desired', np', skip') =>
      if consumed then
        match drainLoop q desired' np' skip' with
        | none => none
        | some (ds, q', s') => some (d :: ds, q', s')
      else some ([d], i :: q, skip')

/-! ## `map_range` -/

/-- the scanning loop `map_range` uses four times: walk the levels, count row starts, stop at the start number
    `k + 1`; returns its index (counted from `idx`) and the number of invisible levels walked over before it
    (counted from `inv`) -/
def posOfStart {α : Type} : Nat → List (Ent α) → Nat → Nat → Option (Nat × Nat)
  | _, [], _, _ => none
  | k, e :: t, idx, inv =>
    if e.start then
      if k = 0 then some (idx, inv) else posOfStart (k - 1) t (idx + 1) (inv + if e.vis then 0 else 1)
    else posOfStart k t (idx + 1) (inv + if e.vis then 0 else 1)

def invisCount {α : Type} (l : List (Ent α)) : Nat := (l.filter (fun e => !e.vis)).length

/-- `map_range`, first part: `first_row_start` and `items_in_preamble` (`None` = the chunk is entirely preamble) -/
def firstRowStart {α : Type} (act : Pre) (c : List (Ent α)) : Option (Nat × Nat) :=
  if act = .absent then some (0, 0) else (posOfStart 0 c 0 0).map (fun p => (p.1, p.1 - p.2))

/-- 1 when the first level of `l` is invisible (`def[..] > max_visible_def`) -/
def headInvis {α : Type} (l : List (Ent α)) : Nat := if (l.head?.map (·.vis)).getD true then 0 else 1

/-- `map_range`, the walk to row `range.start` over the levels after the preamble:
    (`new_start`, `new_levels_start`, `lead_invis_seen`) -/
def walkStart {α : Type} (body : List (Ent α)) (s : Nat) : Nat × Nat × Nat :=
  if s > 0 then
    match posOfStart (s - 1) (body.drop 1) 0 (headInvis body) with
    | some (p, inv) => (p + 1 - inv, p + 1, inv)
    | none => (0, 0, headInvis body + invisCount (body.drop 1))
  else (0, 0, 0)

/-- `map_range`, the walk to row `range.end`: (`new_end`, `new_levels_end`).  Without definition levels the walk is
    skipped when `range.end >= total_items`. -/
def walkEnd {α : Type} (hasDef : Bool) (body : List (Ent α)) (totalItems : Nat) (r : Rg) (st : Nat × Nat × Nat) :
    Nat × Nat :=
  if !hasDef && decide (r.e ≥ totalItems) then (body.length, body.length)
  else
    match posOfStart (r.e - r.s - 1) (body.drop (st.2.1 + 1)) 0 (headInvis (body.drop st.2.1)) with
    | some (p, inv) => (p + st.1 + 1 - inv, p + st.2.1 + 1)
    | none =>
      (body.length - (st.2.2 + (headInvis (body.drop st.2.1) + invisCount (body.drop (st.2.1 + 1)))), body.length)

/-- `DecodeMiniBlockTask::map_range(range, rep, def, max_rep, max_visible_def, total_items, preamble_action)` for a
    chunk with repetition levels: (item range, level range).  `c` = the chunk's levels, `totalItems` =
    `chunk.items_in_chunk`, `hasDef` = the page has definition levels (without them every level is visible). -/
def mapRange {α : Type} (hasDef : Bool) (r : Rg) (c : List (Ent α)) (totalItems : Nat) (act : Pre) : Rg × Rg :=
  match firstRowStart act c with
  | none => (⟨0, totalItems⟩, ⟨0, c.length⟩)
  | some (frs, iip) =>
    if r.s = r.e then (⟨0, iip⟩, ⟨0, frs⟩)
    else
      match act with
      | .skip =>
        (⟨(walkStart (c.drop frs) r.s).1 + iip,
          (walkEnd hasDef (c.drop frs) totalItems r (walkStart (c.drop frs) r.s)).1 + iip⟩,
         ⟨(walkStart (c.drop frs) r.s).2.1 + frs,
          (walkEnd hasDef (c.drop frs) totalItems r (walkStart (c.drop frs) r.s)).2 + frs⟩)
      | .take =>
        (⟨(walkStart (c.drop frs) r.s).1,
          (walkEnd hasDef (c.drop frs) totalItems r (walkStart (c.drop frs) r.s)).1 + iip⟩,
         ⟨(walkStart (c.drop frs) r.s).2.1,
          (walkEnd hasDef (c.drop frs) totalItems r (walkStart (c.drop frs) r.s)).2 + frs⟩)
      | .absent =>
        (⟨(walkStart (c.drop frs) r.s).1,
          (walkEnd hasDef (c.drop frs) totalItems r (walkStart (c.drop frs) r.s)).1⟩,
         ⟨(walkStart (c.drop frs) r.s).2.1,
          (walkEnd hasDef (c.drop frs) totalItems r (walkStart (c.drop frs) r.s)).2⟩)

/-- the values buffer of a chunk: one slot per visible level -/
def chunkValues {α : Type} (c : List (Ent α)) : List α := (c.filter (·.vis)).map (·.val)

/-- `DecodeMiniBlockTask::decode`: for every drain instruction map its row range to levels / items of its chunk
    and append them.  Output: the levels and the values of the batch. -/
def decodeDrain {α : Type} (hasDef : Bool) (chunks : List (List (Ent α))) : List DrainInstr → Option (List (Ent α) × List α)
  | [] => some ([], [])
  | d :: ds =>
    match chunks[d.ci.chunk]?, decodeDrain hasDef chunks ds with
    | some c, some (ls, vs) =>
      let m := mapRange hasDef ⟨d.skip + d.ci.skip, d.skip + d.ci.skip + d.take⟩ c (chunkValues c).length d.pre
      some (slice c m.2 ++ ls, slice (chunkValues c) m.1 ++ vs)
    | _, _ => none

end LanceModel.C25
