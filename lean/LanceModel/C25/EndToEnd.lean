import LanceModel.C25.MapRangeLemmas
import LanceModel.C25.SchedLemmas
import LanceModel.C25.RepIndexLemmas
import LanceModel.C25.ReadLemmas
/-!
C25 part B, end to end for pages whose rows do not span chunk boundaries (every chunk is a whole number of rows:
no preamble, no trailer): `schedule_instructions`, one `drain` of everything scheduled, `map_range` and the two
copies of `DecodeMiniBlockTask::decode` return exactly the levels and the values of the requested rows, in order.

`Rs` = the page as chunks of rows of levels.
-/
namespace LanceModel.C25

variable {α : Type}

/-- the blocks of a page without preambles / trailers -/
def mkBlocks : List (List (List (Ent α))) → Nat → List Block
  | [], _ => []
  | R :: t, off => ⟨off, R.length, false, false⟩ :: mkBlocks t (off + R.length)

/-- the rows an instruction selects; chunk indices are relative to `base` -/
def selOf (Rs : List (List (List (Ent α)))) (base : Nat) (i : Instr) : List (List (Ent α)) :=
  ((Rs[i.chunk - base]?.getD []).drop i.skip).take i.take

/-- what every instruction looks like on such a page -/
def GoodI (Rs : List (List (List (Ent α)))) (base : Nat) (i : Instr) : Prop :=
  base ≤ i.chunk ∧ i.pre = .absent ∧ i.trailer = false ∧ 0 < i.take ∧
    ∃ R, Rs[i.chunk - base]? = some R ∧ i.skip + i.take ≤ R.length

theorem take_drop_append_split {β : Type} (R T : List β) (skip need : Nat) (h : skip ≤ R.length) :
    ((R ++ T).drop skip).take need =
      (R.drop skip).take (min (R.length - skip) need) ++ T.take (need - min (R.length - skip) need) := by
  have hd : (R ++ T).drop skip = R.drop skip ++ T := by
    rw [List.drop_append]
    have h0 : skip - R.length = 0 := by omega
    rw [h0, List.drop_zero]
  rw [hd, List.take_append, List.length_drop]
  by_cases hc : R.length - skip ≤ need
  · rw [Nat.min_eq_left hc]
    congr 1
    rw [List.take_of_length_le (by simp only [List.length_drop]; omega),
      List.take_of_length_le (by simp only [List.length_drop]; omega)]
  · rw [Nat.min_eq_right (by omega)]
    have e1 : need - (R.length - skip) = 0 := by omega
    have e2 : need - need = 0 := by omega
    rw [e1, e2]

theorem schedLoop_step (off st : Nat) (bs : List Block) (idx need skip : Nat) (hneed : need ≠ 0) (hlt : skip < st) :
    schedLoop (⟨off, st, false, false⟩ :: bs) idx need false skip =
      ⟨idx, .absent, skip, min (st - skip) need, false⟩ ::
        schedLoop bs (idx + 1) (need - min (st - skip) need) false 0 := by
  have h3 : ¬ (st - skip = 0) := by omega
  rw [schedLoop]
  simp [hneed, h3]

theorem flatMap_congr' {β γ : Type} (l : List β) (f g : β → List γ) (h : ∀ x ∈ l, f x = g x) :
    l.flatMap f = l.flatMap g := by
  induction l with
  | nil => rfl
  | cons a t ih =>
    simp only [List.flatMap_cons]
    rw [h a (by simp), ih (fun x hx => h x (by simp [hx]))]

theorem selOf_shift (R : List (List (Ent α))) (t : List (List (List (Ent α)))) (idx : Nat) (i : Instr)
    (h : idx + 1 ≤ i.chunk) : selOf (R :: t) idx i = selOf t (idx + 1) i := by
  unfold selOf
  have : i.chunk - idx = (i.chunk - (idx + 1)) + 1 := by omega
  rw [this, List.getElem?_cons_succ]

theorem goodI_shift (R : List (List (Ent α))) (t : List (List (List (Ent α)))) (idx : Nat) (i : Instr)
    (h : GoodI t (idx + 1) i) : GoodI (R :: t) idx i := by
  obtain ⟨h1, h2, h3, h4, R', h5, h6⟩ := h
  refine ⟨by omega, h2, h3, h4, R', ?_, h6⟩
  have : i.chunk - idx = (i.chunk - (idx + 1)) + 1 := by omega
  rw [this, List.getElem?_cons_succ]; exact h5

/-- the loop over the blocks selects exactly the next `need` rows after skipping `skip` -/
theorem schedLoop_rows (Rs : List (List (List (Ent α)))) (hne : ∀ R ∈ Rs, R ≠ []) (off idx need skip : Nat)
    (h1 : need + skip ≤ Rs.flatten.length) (h2 : ∀ R, Rs.head? = some R → skip < R.length) :
    (schedLoop (mkBlocks Rs off) idx need false skip).flatMap (selOf Rs idx) = (Rs.flatten.drop skip).take need
    ∧ ∀ i ∈ schedLoop (mkBlocks Rs off) idx need false skip, GoodI Rs idx i := by
  induction Rs generalizing off idx need skip with
  | nil =>
    have : need = 0 := by simp at h1; omega
    subst this
    simp [mkBlocks, schedLoop]
  | cons R t ih =>
    have hsk : skip < R.length := h2 R rfl
    have hlen : (R :: t).flatten.length = R.length + t.flatten.length := by simp
    simp only [mkBlocks]
    by_cases h0 : need = 0
    · subst h0
      simp [schedLoop]
    · rw [schedLoop_step off R.length _ idx need skip h0 hsk]
      have hih := ih (fun x hx => hne x (by simp [hx])) (off + R.length) (idx + 1)
        (need - min (R.length - skip) need) 0 (by omega)
        (fun R' hR' => by
          have : R' ∈ t := List.mem_of_mem_head? hR'
          have := hne R' (by simp [this])
          exact List.length_pos_iff.mpr this)
      obtain ⟨e1, e2⟩ := hih
      constructor
      · simp only [List.flatMap_cons]
        have hsel : selOf (R :: t) idx ⟨idx, .absent, skip, min (R.length - skip) need, false⟩
            = (R.drop skip).take (min (R.length - skip) need) := by
          simp [selOf]
        rw [hsel]
        have hrest : (schedLoop (mkBlocks t (off + R.length)) (idx + 1) (need - min (R.length - skip) need) false 0).flatMap
              (selOf (R :: t) idx)
            = (schedLoop (mkBlocks t (off + R.length)) (idx + 1) (need - min (R.length - skip) need) false 0).flatMap
              (selOf t (idx + 1)) := by
          apply flatMap_congr'
          intro i hi
          exact selOf_shift R t idx i (e2 i hi).1
        rw [hrest, e1, List.flatten_cons, take_drop_append_split R t.flatten skip need (by omega)]
        simp
      · intro i hi
        cases hi with
        | head =>
          exact ⟨Nat.le_refl _, rfl, rfl, (by show 0 < min (R.length - skip) need; omega), R, by simp,
            (by show skip + min (R.length - skip) need ≤ R.length; omega)⟩
        | tail _ hi' => exact goodI_shift R t idx i (e2 i hi')

/-! ### finding the block of a range -/

theorem mkBlocks_offs (Rs : List (List (List (Ent α)))) (off : Nat) : Offs off (mkBlocks Rs off) := by
  induction Rs generalizing off with
  | nil => trivial
  | cons R t ih => exact ⟨rfl, ih _⟩

theorem mkBlocks_get (Rs : List (List (List (Ent α)))) (off i : Nat) :
    (mkBlocks Rs off)[i]? = (Rs[i]?).map (fun R => ⟨off + (Rs.take i).flatten.length, R.length, false, false⟩) := by
  induction Rs generalizing off i with
  | nil => simp [mkBlocks]
  | cons R t ih =>
    cases i with
    | zero => simp [mkBlocks]
    | succ i =>
      simp only [mkBlocks, List.getElem?_cons_succ, ih, List.take_succ_cons, List.flatten_cons, List.length_append]
      cases t[i]? with
      | none => rfl
      | some R' => simp; omega

theorem mkBlocks_drop (Rs : List (List (List (Ent α)))) (off i : Nat) :
    (mkBlocks Rs off).drop i = mkBlocks (Rs.drop i) (off + (Rs.take i).flatten.length) := by
  induction Rs generalizing off i with
  | nil => simp [mkBlocks]
  | cons R t ih =>
    cases i with
    | zero => simp [mkBlocks]
    | succ i =>
      simp only [mkBlocks, List.drop_succ_cons, ih, List.take_succ_cons, List.flatten_cons, List.length_append]
      congr 1; omega

theorem leadingLt_ge (s : Nat) (bs : List Block) (b : Block) (h : bs[leadingLt s bs]? = some b) :
    s ≤ b.firstRow := by
  induction bs with
  | nil => simp at h
  | cons c t ih =>
    unfold leadingLt at h
    by_cases hc : c.firstRow < s
    · rw [if_pos hc] at h
      exact ih (by simpa using h)
    · rw [if_neg hc] at h
      simp at h; subst h; omega

theorem take_succ_flatten_length (Rs : List (List (List (Ent α)))) (i : Nat) (R : List (List (Ent α)))
    (h : Rs[i]? = some R) : (Rs.take (i + 1)).flatten.length = (Rs.take i).flatten.length + R.length := by
  rw [List.take_add_one, h]; simp

/-- `findBlock` lands on the chunk that holds row `s` -/
theorem findBlock_rows (Rs : List (List (List (Ent α)))) (hne : ∀ R ∈ Rs, R ≠ []) (s : Nat)
    (hs : s < Rs.flatten.length) :
    ∃ bi R, findBlock (mkBlocks Rs 0) s = some bi ∧ Rs[bi]? = some R
      ∧ (Rs.take bi).flatten.length ≤ s ∧ s < (Rs.take bi).flatten.length + R.length := by
  have hRs : Rs ≠ [] := by intro h; subst h; simp at hs
  -- facts about an index below the insertion point
  have hbelow : ∀ i, i < leadingLt s (mkBlocks Rs 0) →
      ∃ R, Rs[i]? = some R ∧ (Rs.take i).flatten.length < s := by
    intro i hi
    obtain ⟨b, hb, hlt⟩ := leadingLt_lt s (mkBlocks Rs 0) i hi
    rw [mkBlocks_get] at hb
    cases hR : Rs[i]? with
    | none => rw [hR] at hb; simp at hb
    | some R =>
      rw [hR] at hb
      simp at hb
      subst hb
      exact ⟨R, rfl, by simpa using hlt⟩
  unfold findBlock
  cases hb : (mkBlocks Rs 0)[leadingLt s (mkBlocks Rs 0)]? with
  | some b =>
    simp only []
    have hge := leadingLt_ge s _ b hb
    rw [mkBlocks_get] at hb
    cases hR : Rs[leadingLt s (mkBlocks Rs 0)]? with
    | none => rw [hR] at hb; simp at hb
    | some R =>
      rw [hR] at hb
      have hbf : b.firstRow = (Rs.take (leadingLt s (mkBlocks Rs 0))).flatten.length := by
        simp only [Option.map_some, Option.some.injEq] at hb
        rw [← hb]; exact Nat.zero_add _
      rw [hbf] at hge ⊢
      have hRne : 0 < R.length := List.length_pos_iff.mpr (hne R (List.mem_of_getElem? hR))
      by_cases he : (Rs.take (leadingLt s (mkBlocks Rs 0))).flatten.length = s
      · rw [if_pos he]
        exact ⟨_, R, rfl, hR, by omega, by omega⟩
      · rw [if_neg he]
        by_cases h0 : leadingLt s (mkBlocks Rs 0) = 0
        · rw [h0] at he hge; simp at he hge; omega
        · rw [if_neg h0]
          obtain ⟨R', hR', hlt'⟩ := hbelow (leadingLt s (mkBlocks Rs 0) - 1) (by omega)
          have hsucc := take_succ_flatten_length Rs (leadingLt s (mkBlocks Rs 0) - 1) R' hR'
          have hidx : leadingLt s (mkBlocks Rs 0) - 1 + 1 = leadingLt s (mkBlocks Rs 0) := by omega
          rw [hidx] at hsucc
          exact ⟨_, R', rfl, hR', by omega, by omega⟩
  | none =>
    simp only []
    have hlen : Rs.length ≤ leadingLt s (mkBlocks Rs 0) := by
      rw [mkBlocks_get] at hb
      cases hR : Rs[leadingLt s (mkBlocks Rs 0)]? with
      | none => exact List.getElem?_eq_none_iff.mp hR
      | some R => rw [hR] at hb; simp at hb
    have hpos : 0 < Rs.length := List.length_pos_iff.mpr hRs
    have h0 : ¬ leadingLt s (mkBlocks Rs 0) = 0 := by omega
    rw [if_neg h0]
    obtain ⟨R', hR', hlt'⟩ := hbelow (leadingLt s (mkBlocks Rs 0) - 1) (by omega)
    have hi : leadingLt s (mkBlocks Rs 0) - 1 < Rs.length := by
      have := List.getElem?_eq_some_iff.mp hR'; obtain ⟨h, _⟩ := this; exact h
    have hsucc := take_succ_flatten_length Rs (leadingLt s (mkBlocks Rs 0) - 1) R' hR'
    have hall : Rs.take (leadingLt s (mkBlocks Rs 0) - 1 + 1) = Rs := List.take_of_length_le (by omega)
    rw [hall] at hsucc
    exact ⟨_, R', rfl, hR', by omega, by omega⟩

/-! ### one range, all ranges, merging -/

theorem schedRange_rows (Rs : List (List (List (Ent α)))) (hne : ∀ R ∈ Rs, R ≠ []) (r : Rg)
    (hr : r.s < r.e) (hb : r.e ≤ Rs.flatten.length) :
    ∃ is, schedRange (mkBlocks Rs 0) r = some is ∧ is.flatMap (selOf Rs 0) = slice Rs.flatten r
      ∧ ∀ i ∈ is, GoodI Rs 0 i := by
  obtain ⟨bi, R, e1, e2, e3, e4⟩ := findBlock_rows Rs hne r.s (by omega)
  have hsplit : Rs.flatten = (Rs.take bi).flatten ++ (Rs.drop bi).flatten := by
    rw [← List.flatten_append, List.take_append_drop]
  have hlen : Rs.flatten.length = (Rs.take bi).flatten.length + (Rs.drop bi).flatten.length := by
    rw [hsplit]; simp
  have hhead : (Rs.drop bi).head? = some R := by
    rw [List.head?_drop]; exact e2
  have hblk : (mkBlocks Rs 0)[bi]? = some ⟨(Rs.take bi).flatten.length, R.length, false, false⟩ := by
    rw [mkBlocks_get, e2]; simp
  obtain ⟨l1, l2⟩ := schedLoop_rows (Rs.drop bi) (fun x hx => hne x (List.mem_of_mem_drop hx))
    (0 + (Rs.take bi).flatten.length) bi (r.e - r.s) (r.s - (Rs.take bi).flatten.length) (by omega)
    (fun R' hR' => by rw [hhead] at hR'; injection hR' with h; subst h; omega)
  have hget : ∀ (i : Instr), bi ≤ i.chunk → (Rs.drop bi)[i.chunk - bi]? = Rs[i.chunk - 0]? := by
    intro i hi
    rw [List.getElem?_drop]; congr 1; omega
  refine ⟨schedLoop (mkBlocks (Rs.drop bi) (0 + (Rs.take bi).flatten.length)) bi (r.e - r.s) false
    (r.s - (Rs.take bi).flatten.length), by simp only [schedRange, e1, hblk, mkBlocks_drop], ?_, ?_⟩
  · rw [flatMap_congr' _ (selOf Rs 0) (selOf (Rs.drop bi) bi)
      (fun i hi => by unfold selOf; rw [hget i (l2 i hi).1]), l1]
    unfold slice
    rw [hsplit, List.drop_append]
    rw [List.drop_eq_nil_of_le (by omega : (Rs.take bi).flatten.length ≤ r.s), List.nil_append]
  · intro i hi
    obtain ⟨g1, g2, g3, g4, R', g5, g6⟩ := l2 i hi
    exact ⟨Nat.zero_le _, g2, g3, g4, R', by rw [← hget i g1]; exact g5, g6⟩

theorem schedRanges_rows (Rs : List (List (List (Ent α)))) (hne : ∀ R ∈ Rs, R ≠ []) (rs : List Rg)
    (hr : ∀ r ∈ rs, r.s < r.e ∧ r.e ≤ Rs.flatten.length) :
    ∃ is, schedRanges (mkBlocks Rs 0) rs = some is ∧ is.flatMap (selOf Rs 0) = rs.flatMap (slice Rs.flatten)
      ∧ ∀ i ∈ is, GoodI Rs 0 i := by
  induction rs with
  | nil => exact ⟨[], rfl, rfl, fun i hi => by cases hi⟩
  | cons r t ih =>
    obtain ⟨a, a1, a2, a3⟩ := schedRange_rows Rs hne r (hr r (by simp)).1 (hr r (by simp)).2
    obtain ⟨b, b1, b2, b3⟩ := ih (fun x hx => hr x (by simp [hx]))
    refine ⟨a ++ b, by simp only [schedRanges, a1, b1], by simp [a2, b2], ?_⟩
    intro i hi
    rcases List.mem_append.mp hi with h | h
    · exact a3 i h
    · exact b3 i h

/-- merging two adjacent instructions for the same chunk selects the same rows -/
theorem mergeAux_rows (Rs : List (List (List (Ent α)))) (last : Instr) (is : List Instr)
    (hl : GoodI Rs 0 last) (hi : ∀ i ∈ is, GoodI Rs 0 i) :
    (mergeAux last is).flatMap (selOf Rs 0) = selOf Rs 0 last ++ is.flatMap (selOf Rs 0)
    ∧ ∀ i ∈ mergeAux last is, GoodI Rs 0 i := by
  induction is generalizing last with
  | nil => exact ⟨by simp [mergeAux], fun i h => by simp [mergeAux] at h; subst h; exact hl⟩
  | cons i t ih =>
    have hgi := hi i (by simp)
    unfold mergeAux
    by_cases h : last.chunk = i.chunk ∧ last.take + last.skip = i.skip
    · rw [if_pos h]
      obtain ⟨_, l2, l3, l4, R, l5, l6⟩ := hl
      obtain ⟨_, i2, i3, i4, R', i5, i6⟩ := hgi
      have hRR : R' = R := by rw [← h.1] at i5; rw [l5] at i5; injection i5 with h'; exact h'.symm
      subst hRR
      have hm : GoodI Rs 0 { last with take := last.take + i.take, trailer := last.trailer || i.trailer } :=
        ⟨Nat.zero_le _, l2, by simp [l3, i3], by show 0 < last.take + i.take; omega, R', l5,
          by show last.skip + (last.take + i.take) ≤ R'.length; omega⟩
      obtain ⟨m1, m2⟩ := ih _ hm (fun x hx => hi x (by simp [hx]))
      refine ⟨?_, m2⟩
      rw [m1]
      simp only [List.flatMap_cons, ← List.append_assoc]
      congr 1
      unfold selOf
      simp only [← h.1, l5, Option.getD_some, ← h.2]
      rw [List.take_add, List.drop_drop]
      congr 3; omega
    · rw [if_neg h]
      obtain ⟨m1, m2⟩ := ih i hgi (fun x hx => hi x (by simp [hx]))
      refine ⟨by simp [m1], ?_⟩
      intro x hx
      cases hx with
      | head => exact hl
      | tail _ hx' => exact m2 x hx'

/-- **`schedule_instructions` on a page whose rows do not span chunks**: the instructions select exactly the rows
    of the requested ranges, in order (also after merging), every instruction stays inside its chunk, takes at
    least one row, has no preamble and no trailer -/
theorem scheduleInstructions_rows (Rs : List (List (List (Ent α)))) (hne : ∀ R ∈ Rs, R ≠ []) (rs : List Rg)
    (hr : ∀ r ∈ rs, r.s < r.e ∧ r.e ≤ Rs.flatten.length) :
    ∃ is, scheduleInstructions (mkBlocks Rs 0) rs = some is
      ∧ is.flatMap (selOf Rs 0) = rs.flatMap (slice Rs.flatten) ∧ ∀ i ∈ is, GoodI Rs 0 i := by
  obtain ⟨is, e1, e2, e3⟩ := schedRanges_rows Rs hne rs hr
  by_cases hl : rs.length > 1
  · cases is with
    | nil =>
      -- impossible: more than one non-empty range selects at least one row
      exfalso
      cases rs with
      | nil => simp at hl
      | cons r t =>
        have hr0 := hr r (by simp)
        have : (slice Rs.flatten r).length = r.e - r.s := slice_length _ r hr0.2
        simp only [List.flatMap_nil, List.flatMap_cons] at e2
        have := congrArg List.length e2
        simp at this; omega
    | cons i t =>
      obtain ⟨m1, m2⟩ := mergeAux_rows Rs i t (e3 i (by simp)) (fun x hx => e3 x (by simp [hx]))
      refine ⟨mergeAux i t, by simp [scheduleInstructions, e1, hl, mergeInstrs], ?_, m2⟩
      rw [m1, ← e2]; simp
  · exact ⟨is, by simp only [scheduleInstructions, e1, hl, if_false], e2, e3⟩

/-! ### draining everything that was scheduled, and decoding it -/

/-- the drain instruction that takes all of an instruction -/
def wholeOf (i : Instr) : DrainInstr := ⟨i, 0, i.take, .absent⟩

/-- `MiniBlockDecoder::drain(num_rows)` with everything scheduled: one drain instruction per instruction, no panic,
    nothing left -/
theorem drainLoop_whole (Rs : List (List (List (Ent α)))) (is : List Instr) (hg : ∀ i ∈ is, GoodI Rs 0 i) :
    drainLoop is (takeSum is) false 0 = some (is.map wholeOf, [], 0) := by
  induction is with
  | nil => rfl
  | cons i t ih =>
    obtain ⟨_, g2, g3, g4, _⟩ := hg i (by simp)
    have hts : takeSum (i :: t) = i.take + takeSum t := by simp [takeSum]
    obtain ⟨k, hk⟩ : ∃ k, takeSum (i :: t) = k + 1 := ⟨i.take + takeSum t - 1, by omega⟩
    have hge : k + 1 ≥ i.take - 0 := by omega
    have hsub : k + 1 - (i.take - 0) = takeSum t := by omega
    have hd : drainFromInstruction i (k + 1) false 0 = some (wholeOf i, true, takeSum t, false, 0) := by
      unfold drainFromInstruction wholeOf
      rw [if_neg (by simp), if_pos hge, hsub, g3]
      simp [g2]
    rw [hk, drainLoop]
    · simp only [hd, if_true]
      rw [ih (fun x hx => hg x (by simp [hx]))]
      rfl
    · intro h; omega

theorem decodeDrain_whole (Rs : List (List (List (Ent α)))) (hrow : ∀ R ∈ Rs, ∀ r ∈ R, IsRow r)
    (is : List Instr) (hg : ∀ i ∈ is, GoodI Rs 0 i) :
    decodeDrain true (Rs.map List.flatten) (is.map wholeOf) =
      some ((is.flatMap (selOf Rs 0)).flatten, chunkValues (is.flatMap (selOf Rs 0)).flatten) := by
  induction is with
  | nil => rfl
  | cons i t ih =>
    obtain ⟨_, g2, g3, g4, R, g5, g6⟩ := hg i (by simp)
    have g5' : Rs[i.chunk]? = some R := by simpa using g5
    have hc : (Rs.map List.flatten)[i.chunk]? = some R.flatten := by simp [g5']
    have hsel := mapRange_select ([] : List (Ent α)) R (by intro x hx; cases hx)
      (hrow R (List.mem_of_getElem? g5')) i.skip (i.skip + i.take) (by omega) g6 .absent
      (fun _ => rfl) (fun h => by cases h) (fun _ => by omega)
    simp only [List.nil_append] at hsel
    obtain ⟨s1, s2⟩ := hsel
    simp only [List.map_cons, decodeDrain, wholeOf, hc, ih (fun x hx => hg x (by simp [hx]))]
    have e0 : 0 + i.skip = i.skip := Nat.zero_add _
    simp only [e0]
    rw [s1, s2]
    have hso : selOf Rs 0 i = (R.drop i.skip).take i.take := by simp [selOf, g5']
    simp only [List.flatMap_cons, hso, List.flatten_append, chunkValues_append, selRows]
    have : i.skip + i.take - i.skip = i.take := by omega
    simp [this]
    all_goals rfl

/-- **End to end, pages whose rows do not span chunk boundaries.**  `Rs` = the page as chunks of rows of levels
    (every chunk non-empty, every row begins with its only row start).  For every list of non-empty row ranges
    within the page — in ANY order, overlapping or not — `schedule_instructions` on the page's repetition index
    succeeds, `MiniBlockDecoder::drain` of everything scheduled succeeds, and `DecodeMiniBlockTask::decode`
    (`map_range` + the two copies per drain instruction) returns exactly the levels of the requested rows, in
    order, and exactly their visible value slots. -/
theorem miniblock_select_rows (Rs : List (List (List (Ent α)))) (hne : ∀ R ∈ Rs, R ≠ [])
    (hrow : ∀ R ∈ Rs, ∀ r ∈ R, IsRow r) (rs : List Rg)
    (hr : ∀ r ∈ rs, r.s < r.e ∧ r.e ≤ Rs.flatten.length) :
    ∃ is ds, scheduleInstructions (mkBlocks Rs 0) rs = some is
      ∧ takeSum is = numRows rs
      ∧ drainLoop is (numRows rs) false 0 = some (ds, [], 0)
      ∧ decodeDrain true (Rs.map List.flatten) ds =
          some ((rs.flatMap (slice Rs.flatten)).flatten, chunkValues (rs.flatMap (slice Rs.flatten)).flatten) := by
  obtain ⟨is, e1, e2, e3⟩ := scheduleInstructions_rows Rs hne rs hr
  have hts : takeSum is = numRows rs := by
    have hlen := congrArg List.length e2
    have hl : ∀ (l : List Instr), (∀ i ∈ l, GoodI Rs 0 i) → (l.flatMap (selOf Rs 0)).length = takeSum l := by
      intro l hl
      induction l with
      | nil => rfl
      | cons i t ih =>
        obtain ⟨_, _, _, _, R, g5, g6⟩ := hl i (by simp)
        simp only [List.flatMap_cons, List.length_append, takeSum, List.map_cons, List.sum_cons]
        rw [ih (fun x hx => hl x (by simp [hx]))]
        simp only [takeSum]
        have : (selOf Rs 0 i).length = i.take := by
          simp only [selOf, g5, Option.getD_some, List.length_take, List.length_drop]; omega
        omega
    rw [hl is e3, rows_length _ rs (fun r hr' => (hr r hr').2)] at hlen
    exact hlen
  refine ⟨is, is.map wholeOf, e1, hts, ?_, ?_⟩
  · rw [← hts]; exact drainLoop_whole Rs is e3
  · rw [decodeDrain_whole Rs hrow is e3, e2]

theorem startCount_rows (R : List (List (Ent α))) (hrow : ∀ r ∈ R, IsRow r) : startCount R.flatten = R.length := by
  induction R with
  | nil => rfl
  | cons r t ih =>
    obtain ⟨e, tl, rfl, hs, hn⟩ := hrow r (by simp)
    have htl : (tl.filter (·.start)) = [] := by
      rw [List.filter_eq_nil_iff]; intro x hx; simp [hn x hx]
    have := ih (fun x hx => hrow x (by simp [hx]))
    simp only [startCount, List.flatten_cons, List.cons_append, List.filter_cons, hs, if_true, List.filter_append,
      htl, List.nil_append, List.length_cons] at this ⊢
    omega

theorem headStarts_rows (R : List (List (Ent α))) (hne : R ≠ []) (hrow : ∀ r ∈ R, IsRow r) :
    headStarts R.flatten = true := by
  cases R with
  | nil => exact absurd rfl hne
  | cons r t =>
    obtain ⟨e, tl, rfl, hs, _⟩ := hrow r (by simp)
    simp [headStarts, hs]

theorem blocksSpec_rows (Rs : List (List (List (Ent α)))) (hne : ∀ R ∈ Rs, R ≠ [])
    (hrow : ∀ R ∈ Rs, ∀ r ∈ R, IsRow r) (off : Nat) :
    blocksSpec (Rs.map List.flatten) off = mkBlocks Rs off := by
  induction Rs generalizing off with
  | nil => rfl
  | cons R t ih =>
    have hsc := startCount_rows R (hrow R (by simp))
    have hhs := headStarts_rows R (hne R (by simp)) (hrow R (by simp))
    have ih' := ih (fun x hx => hne x (by simp [hx])) (fun x hx => hrow x (by simp [hx]))
    cases t with
    | nil => simp [blocksSpec, mkBlocks, hsc, hhs]
    | cons R' t' =>
      have hhs' := headStarts_rows R' (hne R' (by simp)) (hrow R' (by simp))
      simp only [List.map_cons, blocksSpec, mkBlocks, hsc, hhs, hhs', Bool.not_true] at ih' ⊢
      rw [ih' (off + R.length)]

/-- the blocks used in `miniblock_select_rows` are what the reader decodes from the index the writer stored -/
theorem mkBlocks_is_stored_index (Rs : List (List (List (Ent α)))) (hne : ∀ R ∈ Rs, R ≠ [])
    (hrow : ∀ R ∈ Rs, ∀ r ∈ R, IsRow r) :
    decodeRepIndex (buildRepIndex (Rs.map List.flatten)) false 0 = mkBlocks Rs 0 := by
  have hne' : ∀ x ∈ Rs.map List.flatten, x ≠ [] := by
    intro x hx
    obtain ⟨R, hR, rfl⟩ := List.mem_map.mp hx
    intro h
    have := headStarts_rows R (hne R hR) (hrow R hR)
    rw [h] at this; simp [headStarts] at this
  have hspec := decode_specIndex (Rs.map List.flatten) hne' 0
  rw [buildRepIndex_spec _ hne', ← blocksSpec_rows Rs hne hrow 0, ← hspec]
  cases Rs with
  | nil => rfl
  | cons R t => simp [headStarts_rows R (hne R (by simp)) (hrow R (by simp))]

end LanceModel.C25
