import LanceModel.C25.MiniBlock
/-!
C25 helper lemmas for part B: row accounting of `schedule_instructions`
(the `debug_assert_eq!(num_rows, Σ rows_to_take)` of `MiniBlockScheduler::schedule_ranges`).
-/
namespace LanceModel.C25

/-- rows that start in the given blocks -/
def startsSum (bs : List Block) : Nat := (bs.map (·.starts)).sum

def takeSum (is : List Instr) : Nat := (is.map (·.take)).sum

/-- the loop over the blocks schedules exactly the rows it was asked for, as long as that many rows start in the
    blocks it may look at (after skipping `skip` of them) -/
theorem schedLoop_takes (bs : List Block) (idx need : Nat) (np : Bool) (skip : Nat)
    (h : need + skip ≤ startsSum bs) : takeSum (schedLoop bs idx need np skip) = need := by
  induction bs generalizing idx need np skip with
  | nil =>
    have : need = 0 := by simp [startsSum] at h; omega
    subst this; rfl
  | cons b t ih =>
    have hs : startsSum (b :: t) = b.starts + startsSum t := by simp [startsSum]
    rw [hs] at h
    unfold schedLoop
    by_cases h0 : need = 0 ∧ np = false
    · rw [if_pos h0]; simp [takeSum, h0.1]
    · rw [if_neg h0]
      by_cases h1 : b.starts - skip = 0 ∧ skip = 0
      · rw [if_pos h1]
        have hb : b.starts = 0 := by omega
        by_cases h2 : b.hasPre = true ∧ np = true
        · rw [if_pos h2]
          have := ih (idx + 1) need (if b.starts > 0 ∨ t.isEmpty = true then false else np) 0 (by omega)
          simp only [takeSum, List.map_cons, List.sum_cons] at this ⊢
          omega
        · rw [if_neg h2]
          exact ih (idx + 1) need np 0 (by omega)
      · rw [if_neg h1]
        by_cases h3 : b.starts - skip = 0
        · rw [if_pos h3]
          exact ih (idx + 1) need np (skip - b.starts) (by omega)
        · rw [if_neg h3]
          have := ih (idx + 1) (need - min (b.starts - skip) need)
            (decide (min (b.starts - skip) need = b.starts - skip) && b.hasTrail) 0 (by omega)
          simp only [takeSum, List.map_cons, List.sum_cons] at this ⊢
          omega

theorem takeSum_append (a b : List Instr) : takeSum (a ++ b) = takeSum a + takeSum b := by
  simp [takeSum]

/-- merging adjacent instructions keeps the number of rows -/
theorem mergeAux_takes (last : Instr) (is : List Instr) :
    takeSum (mergeAux last is) = last.take + takeSum is := by
  induction is generalizing last with
  | nil => simp [mergeAux, takeSum]
  | cons i t ih =>
    unfold mergeAux
    by_cases h : last.chunk = i.chunk ∧ last.take + last.skip = i.skip
    · rw [if_pos h, ih]
      simp only [takeSum, List.map_cons, List.sum_cons]; omega
    · rw [if_neg h]
      simp only [takeSum, List.map_cons, List.sum_cons] at ih ⊢
      rw [ih]

theorem mergeInstrs_takes (is : List Instr) : takeSum (mergeInstrs is) = takeSum is := by
  cases is with
  | nil => rfl
  | cons i t => simp only [mergeInstrs, mergeAux_takes]; simp [takeSum]

/-- the blocks of a repetition index: every block's `first_row` is the number of rows that start before it -/
def Offs : Nat → List Block → Prop
  | _, [] => True
  | off, b :: t => b.firstRow = off ∧ Offs (off + b.starts) t

theorem decodeRepIndex_offs (ri : List (Nat × Nat)) (hp : Bool) (off : Nat) : Offs off (decodeRepIndex ri hp off) := by
  induction ri generalizing hp off with
  | nil => trivial
  | cons p t ih =>
    obtain ⟨e, q⟩ := p
    exact ⟨rfl, ih _ _⟩

theorem defaultRepIndex_offs (ns : List Nat) (off : Nat) : Offs off (defaultRepIndex ns off) := by
  induction ns generalizing off with
  | nil => trivial
  | cons n t ih => exact ⟨rfl, ih _⟩

theorem leadingLt_lt (start : Nat) (bs : List Block) (i : Nat) (hi : i < leadingLt start bs) :
    ∃ b, bs[i]? = some b ∧ b.firstRow < start := by
  induction bs generalizing i with
  | nil => simp [leadingLt] at hi
  | cons b t ih =>
    unfold leadingLt at hi
    by_cases h : b.firstRow < start
    · rw [if_pos h] at hi
      cases i with
      | zero => exact ⟨b, rfl, h⟩
      | succ i => simpa using ih i (by omega)
    · rw [if_neg h] at hi; omega

theorem offs_get (off : Nat) (bs : List Block) (h : Offs off bs) (i : Nat) (b : Block) (hb : bs[i]? = some b) :
    b.firstRow = off + startsSum (bs.take i) ∧ startsSum (bs.drop i) + startsSum (bs.take i) = startsSum bs := by
  induction bs generalizing off i with
  | nil => simp at hb
  | cons c t ih =>
    cases i with
    | zero =>
      simp at hb; subst hb
      exact ⟨by simp [startsSum, h.1], by simp [startsSum]⟩
    | succ i =>
      obtain ⟨i1, i2⟩ := ih (off + c.starts) h.2 i (by simpa using hb)
      refine ⟨by rw [i1]; simp [startsSum]; omega, ?_⟩
      simp only [List.drop_succ_cons, List.take_succ_cons, startsSum, List.map_cons, List.sum_cons] at i2 ⊢
      omega

/-- the block chosen for a range starts no later than the range -/
theorem findBlock_spec (bs : List Block) (h : Offs 0 bs) (hne : bs ≠ []) (start : Nat) :
    ∃ bi b, findBlock bs start = some bi ∧ bs[bi]? = some b ∧ b.firstRow ≤ start := by
  unfold findBlock
  cases hb : bs[leadingLt start bs]? with
  | some b =>
    simp only []
    by_cases he : b.firstRow = start
    · rw [if_pos he]; exact ⟨_, b, rfl, hb, by omega⟩
    · rw [if_neg he]
      by_cases h0 : leadingLt start bs = 0
      · -- the very first block has first_row 0 ≤ start: it cannot be past the insertion point
        exfalso
        rw [h0] at hb
        cases bs with
        | nil => exact hne rfl
        | cons c t =>
          simp at hb; subst hb
          have hc : c.firstRow = 0 := h.1
          unfold leadingLt at h0
          by_cases hlt : c.firstRow < start
          · rw [if_pos hlt] at h0; omega
          · omega
      · rw [if_neg h0]
        obtain ⟨b', hb', hlt⟩ := leadingLt_lt start bs (leadingLt start bs - 1) (by omega)
        exact ⟨_, b', rfl, hb', by omega⟩
  | none =>
    simp only []
    by_cases h0 : leadingLt start bs = 0
    · exfalso
      rw [h0] at hb
      cases bs with
      | nil => exact hne rfl
      | cons c t => simp at hb
    · rw [if_neg h0]
      obtain ⟨b', hb', hlt⟩ := leadingLt_lt start bs (leadingLt start bs - 1) (by omega)
      exact ⟨_, b', rfl, hb', by omega⟩

theorem schedRange_takes (bs : List Block) (h : Offs 0 bs) (hne : bs ≠ []) (r : Rg) (hr : r.s ≤ r.e)
    (hb : r.e ≤ startsSum bs) : ∃ is, schedRange bs r = some is ∧ takeSum is = r.e - r.s := by
  obtain ⟨bi, b, e1, e2, e3⟩ := findBlock_spec bs h hne r.s
  obtain ⟨o1, o2⟩ := offs_get 0 bs h bi b e2
  refine ⟨schedLoop (bs.drop bi) bi (r.e - r.s) false (r.s - b.firstRow), by simp only [schedRange, e1, e2], ?_⟩
  apply schedLoop_takes
  omega

theorem schedRanges_takes (bs : List Block) (h : Offs 0 bs) (hne : bs ≠ []) (rs : List Rg)
    (hr : ∀ r ∈ rs, r.s ≤ r.e ∧ r.e ≤ startsSum bs) :
    ∃ is, schedRanges bs rs = some is ∧ takeSum is = numRows rs := by
  induction rs with
  | nil => exact ⟨[], rfl, rfl⟩
  | cons r t ih =>
    obtain ⟨a, a1, a2⟩ := schedRange_takes bs h hne r (hr r (by simp)).1 (hr r (by simp)).2
    obtain ⟨b, b1, b2⟩ := ih (fun x hx => hr x (by simp [hx]))
    refine ⟨a ++ b, by simp only [schedRanges, a1, b1], ?_⟩
    rw [takeSum_append, a2, b2]
    simp [numRows, Rg.len]

theorem takeSum_nil_of_empty (is : List Instr) (h : is.isEmpty = true) : takeSum is = 0 := by
  cases is with
  | nil => rfl
  | cons a t => simp at h

/-- **`schedule_instructions` accounts for every requested row** (the `debug_assert_eq!` of
    `MiniBlockScheduler::schedule_ranges`, and the `num_rows` the page decoder is created with): for every
    repetition index and all non-empty in-page ranges within the page's rows the call does not panic and
    `Σ rows_to_take = Σ (end - start)` — also after merging adjacent instructions -/
theorem scheduleInstructions_takes (bs : List Block) (h : Offs 0 bs) (hne : bs ≠ []) (rs : List Rg)
    (hr : ∀ r ∈ rs, r.s < r.e ∧ r.e ≤ startsSum bs) :
    ∃ is, scheduleInstructions bs rs = some is ∧ takeSum is = numRows rs := by
  obtain ⟨is, e1, e2⟩ := schedRanges_takes bs h hne rs (fun r hx => ⟨by have := (hr r hx).1; omega, (hr r hx).2⟩)
  by_cases hl : rs.length > 1
  · have hpos : 0 < numRows rs := by
      cases rs with
      | nil => simp at hl
      | cons r t =>
        have := (hr r (by simp)).1
        simp only [numRows, List.map_cons, List.sum_cons, Rg.len]; omega
    have hne' : is.isEmpty = false := by
      cases hb : is.isEmpty with
      | false => rfl
      | true => have := takeSum_nil_of_empty is hb; omega
    refine ⟨mergeInstrs is, by simp only [scheduleInstructions, e1, hl, if_true, hne', Bool.false_eq_true, if_false], ?_⟩
    rw [mergeInstrs_takes, e2]
  · exact ⟨is, by simp only [scheduleInstructions, e1, hl, if_false], e2⟩

end LanceModel.C25
