import LanceModel.Util
import LanceModel.C25.Model
import LanceModel.C25.MiniBlock
/-
C25 driver.  One output line per input line.

  file v=<ver> rows=<N> ncols=<K> …          start a file with K leaf columns of N rows (the rest of the line is
                                              for the harness: schema, data seed, writer options)
  leaf <i> pages=<n1,n2,…> rows=<t;t;…>       leaf column i (in order 0..K-1): rows per page as the real writer cut
                                              them, and the canonical text of every row
  meta                                        row count / column count of the file
  read <req> bs=<n> proj=<i,j,…>              req ::= full | range s e | to e | from s | ranges s-e,s-e | indices i,j
  sched <i> <s-e,s-e,…>                       scan lines of a single-leaf read (`scheduled_so_far` values)
  si ri=<e:p,e:p,…> ranges=<s-e,…>            ChunkInstructions::schedule_instructions on a decoded repetition index
  dfi i=<c:p:s:t:T> d=<n> np=<0|1> sk=<n>     ChunkInstructions::drain_from_instruction
  mr rep=<bits> def=<bits|-> r=<s-e> total=<n> act=<0|1|2>    DecodeMiniBlockTask::map_range
  repidx <leaf> <page> levels=<l0,l1,…> rowlv=<k0,k1,…>       repetition index of a written mini-block page
-/
namespace LanceModel.C25.Driver
open LanceModel.Util LanceModel.C25

structure St where
  file : File String
  ncols : Nat

def init : St := ⟨⟨[], 0⟩, 0⟩

def kv (toks : List String) (k : String) : Option String :=
  (toks.find? (fun t => t.startsWith (k ++ "="))).map (fun t => (t.drop (k.length + 1)).toString)

def parseRows (s : String) : List String := if s = "-" then [] else s.splitOn ";"

def parseRg (s : String) : Option Rg :=
  match s.splitOn "-" with
  | [a, b] => match a.toNat?, b.toNat? with
    | some a, some b => some ⟨a, b⟩
    | _, _ => none
  | _ => none

def parseRgs (s : String) : Option (List Rg) :=
  if s = "-" then some [] else (s.splitOn ",").mapM parseRg

def showCol (c : List String) : String := if c.isEmpty then "-" else ";".intercalate c
def showBatch (b : List (List String)) : String := "/".intercalate (b.map showCol)

def showResult : Except Err (List (List (List String))) → String
  | .error .invalidInput => "err invalid_input"
  | .error .panic => "panic"
  | .ok bs =>
    let n := (bs.map (fun b => (b.head?.getD []).length)).sum
    if bs.isEmpty then "ok n=0" else "ok n=" ++ toString n ++ " " ++ " | ".intercalate (bs.map showBatch)

def parseReq : List String → Option Req
  | ["full"] => some .full
  | ["range", s, e] => match s.toNat?, e.toNat? with
    | some s, some e => some (.range s e)
    | _, _ => none
  | ["to", e] => e.toNat?.map .rangeTo
  | ["from", s] => s.toNat?.map .rangeFrom
  | ["ranges", rs] => (parseRgs rs).map .ranges
  | ["indices", is] => (parseNatList is).map .indices
  | _ => none

def bad : String := "bad-op"

def preCode : Pre → String
  | .absent => "0"
  | .skip => "1"
  | .take => "2"

def parsePre : String → Option Pre
  | "0" => some .absent
  | "1" => some .skip
  | "2" => some .take
  | _ => none

def showInstr (i : Instr) : String :=
  ":".intercalate [toString i.chunk, preCode i.pre, toString i.skip, toString i.take, if i.trailer then "1" else "0"]

def parseInstr (s : String) : Option Instr :=
  match s.splitOn ":" with
  | [c, p, sk, t, tr] =>
    match c.toNat?, parsePre p, sk.toNat?, t.toNat? with
    | some c, some p, some sk, some t => some ⟨c, p, sk, t, tr = "1"⟩
    | _, _, _, _ => none
  | _ => none

def parsePairs (s : String) : Option (List (Nat × Nat)) :=
  if s = "-" then some [] else
  (s.splitOn ",").mapM (fun t =>
    match t.splitOn ":" with
    | [a, b] => match a.toNat?, b.toNat? with
      | some a, some b => some (a, b)
      | _, _ => none
    | _ => none)

def showPairs (l : List (Nat × Nat)) : String :=
  if l.isEmpty then "-" else ",".intercalate (l.map (fun p => toString p.1 ++ ":" ++ toString p.2))

def parseBits (s : String) : List Bool := if s = "-" then [] else s.toList.map (· == '1')

/-- entries of a page whose rows own `rowlv[k]` levels each -/
def entsOfRows (rowlv : List Nat) : List (Ent Unit) :=
  rowlv.flatMap (fun k => ⟨true, true, ()⟩ :: List.replicate (k - 1) ⟨false, true, ()⟩)

def showRg (r : Rg) : String := toString r.s ++ "-" ++ toString r.e

def step (s : St) (line : String) : St × String :=
  match splitTokens line with
  | "file" :: rest =>
    match (kv rest "rows").bind (·.toNat?), (kv rest "ncols").bind (·.toNat?) with
    | some n, some k => (⟨⟨[], n⟩, k⟩, "ok")
    | _, _ => (s, bad)
  | ["leaf", i, pages, rows] =>
    match i.toNat?, (kv [pages] "pages").bind parseNatList, (kv [rows] "rows").map parseRows with
    | some i, some pg, some rw =>
      if i ≠ s.file.cols.length ∨ pg.sum ≠ rw.length ∨ rw.length ≠ s.file.numRows then (s, "bad-layout")
      else ({ s with file := { s.file with cols := s.file.cols ++ [splitBy pg rw] } }, "ok")
    | _, _, _ => (s, bad)
  | ["meta"] => (s, "rows=" ++ toString s.file.numRows ++ " cols=" ++ toString s.file.cols.length)
  | "read" :: rest =>
    let args := rest.filter (fun t => !(t.startsWith "bs=") && !(t.startsWith "proj="))
    match parseReq args, (kv rest "bs").bind (·.toNat?), (kv rest "proj").bind parseNatList with
    | some req, some bs, some proj => (s, showResult (readFile s.file req bs proj))
    | _, _, _ => (s, bad)
  | ["sched", i, rs] =>
    match i.toNat?.bind (s.file.cols[·]?), parseRgs rs with
    | some pages, some rs =>
      match scanLines pages (trimEmpty rs) with
      | none => (s, "panic")
      | some l =>
        let cum := (l.foldl (fun (acc : Nat × List Nat) x => (acc.1 + x, acc.2 ++ [acc.1 + x])) (0, [])).2
        (s, "s=" ++ showNatList cum)
    | _, _ => (s, bad)
  | ["si", ri, rs] =>
    match (kv [ri] "ri").bind parsePairs, (kv [rs] "ranges").bind parseRgs with
    | some ri, some rs =>
      match scheduleInstructions (decodeRepIndex ri false 0) rs with
      | none => (s, "panic")
      | some l => (s, if l.isEmpty then "-" else ",".intercalate (l.map showInstr))
    | _, _ => (s, bad)
  | ["dfi", i, d, np, sk] =>
    match (kv [i] "i").bind parseInstr, (kv [d] "d").bind (·.toNat?), kv [np] "np", (kv [sk] "sk").bind (·.toNat?) with
    | some i, some d, some np, some sk =>
      match drainFromInstruction i d (np = "1") sk with
      | none => (s, "panic")
      | some (di, consumed, d', np', sk') =>
        (s, "sk=" ++ toString di.skip ++ " tk=" ++ toString di.take ++ " pre=" ++ preCode di.pre
          ++ " consumed=" ++ (if consumed then "1" else "0") ++ " d=" ++ toString d'
          ++ " np=" ++ (if np' then "1" else "0") ++ " skc=" ++ toString sk')
    | _, _, _, _ => (s, bad)
  | ["mr", rep, df, r, total, act] =>
    match kv [rep] "rep", kv [df] "def", (kv [r] "r").bind parseRg, (kv [total] "total").bind (·.toNat?),
        (kv [act] "act").bind parsePre with
    | some rep, some df, some r, some total, some act =>
      let starts := parseBits rep
      let vis := if df = "-" then starts.map (fun _ => true) else parseBits df
      let c : List (Ent Unit) := (starts.zip vis).map (fun p => ⟨p.1, p.2, ()⟩)
      let m := mapRange (df ≠ "-") r c total act
      (s, "i=" ++ showRg m.1 ++ " l=" ++ showRg m.2)
    | _, _, _, _, _ => (s, bad)
  | ["repidx", _leaf, _page, lv, rl] =>
    match (kv [lv] "levels").bind parseNatList, (kv [rl] "rowlv").bind parseNatList with
    | some lv, some rl => (s, "ri=" ++ showPairs (buildRepIndex (splitBy lv (entsOfRows rl))))
    | _, _ => (s, bad)
  | _ => (s, bad)

end LanceModel.C25.Driver
