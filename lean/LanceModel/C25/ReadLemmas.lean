import LanceModel.C25.DrainLemmas
/-!
C25 helper lemmas for part A: gluing schedule, decoders and batches (`readRows`), the writer's `splitBy`.
-/
namespace LanceModel.C25

variable {α : Type}

theorem trimEmpty_rows (col : List α) (rs : List Rg) :
    (trimEmpty rs).flatMap (slice col) = rs.flatMap (slice col) := by
  induction rs with
  | nil => rfl
  | cons r t ih =>
    unfold trimEmpty at *
    by_cases h : r.s < r.e
    · simp only [List.filter_cons, h, decide_true, if_true, List.flatMap_cons, ih]
    · have he : slice col r = [] := slice_empty_of_ge col r.s r.e (by omega)
      simp [h, List.flatMap_cons, he]
      simpa using ih

theorem trimEmpty_numRows (rs : List Rg) : numRows (trimEmpty rs) = numRows rs := by
  induction rs with
  | nil => rfl
  | cons r t ih =>
    unfold trimEmpty numRows at *
    by_cases h : r.s < r.e
    · simp only [List.filter_cons, h, decide_true, if_true, List.map_cons, List.sum_cons, ih]
    · have : r.e - r.s = 0 := by omega
      simp [h, List.map_cons, List.sum_cons, Rg.len, this]
      simpa [Rg.len] using ih

theorem trimEmpty_mem {rs : List Rg} {r : Rg} (h : r ∈ trimEmpty rs) : r ∈ rs :=
  (List.mem_filter.mp h).1

theorem trimEmpty_of_chained {rs : List Rg} (h : Chained rs) : trimEmpty rs = rs := by
  unfold trimEmpty
  rw [List.filter_eq_self]
  intro r hr
  simpa using chained_nonempty h r hr

theorem rows_length (col : List α) (rs : List Rg) (hb : ∀ r ∈ rs, r.e ≤ col.length) :
    (rs.flatMap (slice col)).length = numRows rs := by
  induction rs with
  | nil => rfl
  | cons r t ih =>
    simp only [List.flatMap_cons, List.length_append, numRows, List.map_cons, List.sum_cons, Rg.len]
    rw [slice_length col r (hb r (by simp))]
    have := ih (fun x hx => hb x (by simp [hx]))
    simp only [numRows] at this
    omega

/-- the decoders built from a schedule hold the scheduled rows and satisfy the drain invariant -/
theorem sched_decoders (sch : List (List α × List Rg)) (h : ∀ p ∈ sch, ∀ x ∈ p.2, x.e ≤ p.1.length) :
    pending (sch.map mkPageDec) = schedRows sch ∧ WFq (sch.map mkPageDec) 0 := by
  have hlen : ∀ p ∈ sch, (mkPageDec p).rest.length = (mkPageDec p).numRows := by
    intro p hp
    simp only [mkPageDec]
    exact rows_length p.1 p.2 (h p hp)
  refine ⟨?_, ?_⟩
  · simp [pending, schedRows, mkPageDec, List.flatMap_map]
  · cases sch with
    | nil => rfl
    | cons p t =>
      refine ⟨Nat.zero_le _, ?_, ?_⟩
      · have := hlen p (by simp); simpa using this
      · intro x hx
        obtain ⟨y, hy, rfl⟩ := List.mem_map.mp hx
        exact hlen y (by simp [hy])

/-- one projected column: decoders exist, hold the requested rows, are well formed -/
theorem fieldDecOf_spec (pages : List (List α)) (rs : List Rg) (hch : Chained rs)
    (hb : ∀ r ∈ rs, r.e ≤ pages.flatten.length) :
    ∃ f, fieldDecOf pages rs = some f ∧ pending f.q = rs.flatMap (slice pages.flatten)
      ∧ WFq f.q f.drained := by
  obtain ⟨sch, e1, e2, e3⟩ := schedPages_spec pages 0 rs (ok_zero hch) (by simpa using hb)
  obtain ⟨d1, d2⟩ := sched_decoders sch e3
  refine ⟨⟨sch.map mkPageDec, 0⟩, by simp [fieldDecOf, e1], ?_, d2⟩
  rw [d1, e2]
  congr 1
  funext r
  exact sliceG_zero _ r

theorem fieldDecsOf_spec (cols : List (List (List α))) (rs : List Rg) (hch : Chained rs) (n : Nat)
    (hcols : ∀ c ∈ cols, c.flatten.length = n) (hb : ∀ r ∈ rs, r.e ≤ n) :
    ∃ fs, fieldDecsOf cols rs = some fs ∧ fs.length = cols.length
      ∧ (∀ (c : Nat) (h1 : c < fs.length) (h2 : c < cols.length),
            pending fs[c].q = rs.flatMap (slice cols[c].flatten))
      ∧ WFall fs (numRows rs) := by
  induction cols with
  | nil => exact ⟨[], rfl, rfl, (fun c h1 _ => by cases h1), (fun f hf => by cases hf)⟩
  | cons c t ih =>
    have hc := hcols c (by simp)
    obtain ⟨f, e1, e2, e3⟩ := fieldDecOf_spec c rs hch (by rw [hc]; exact hb)
    obtain ⟨fs, i1, i2, i3, i4⟩ := ih (fun x hx => hcols x (by simp [hx]))
    refine ⟨f :: fs, by simp [fieldDecsOf, e1, i1], by simp [i2], ?_, ?_⟩
    · intro k h1 h2
      cases k with
      | zero => exact e2
      | succ k => exact i3 k (by simpa using h1) (by simpa using h2)
    · intro x hx
      cases hx with
      | head =>
        refine ⟨e3, ?_⟩
        rw [e2]; exact rows_length _ rs (by rw [hc]; exact hb)
      | tail _ hx' => exact i4 x hx'

/-- `readRows`: column `k` of the batches = the requested rows of column `k`, cut into pieces of `bs` rows -/
theorem readRows_spec (cols : List (List (List α))) (rs : List Rg) (n bs : Nat) (hbs : 0 < bs)
    (hch : Chained (trimEmpty rs)) (N : Nat) (hcols : ∀ c ∈ cols, c.flatten.length = N)
    (hb : ∀ r ∈ rs, r.e ≤ N) (hn : n = numRows rs) :
    ∃ out, readRows cols rs n bs = .ok out
      ∧ (∀ b ∈ out, b.length = cols.length)
      ∧ ∀ (k : Nat) (hk : k < cols.length),
          out.map (fun b => b[k]?) = (chunksOf bs n (rs.flatMap (slice cols[k].flatten))).map some := by
  unfold readRows
  by_cases h0 : n = 0
  · rw [if_pos h0]
    refine ⟨[], rfl, (fun b hb => by cases hb), ?_⟩
    intro k hk
    subst h0; rfl
  · rw [if_neg h0]
    obtain ⟨fs, e1, e2, e3, e4⟩ := fieldDecsOf_spec cols (trimEmpty rs) hch N hcols
      (fun r hr => hb r (trimEmpty_mem hr))
    rw [trimEmpty_numRows, ← hn] at e4
    obtain ⟨out, o1, ow, o2⟩ := batchLoop_spec bs hbs n n fs e4 (Nat.le_refl _)
    simp only [e1, o1]
    refine ⟨out, rfl, (fun b hb => by rw [ow b hb, e2]), ?_⟩
    intro k hk
    have hk' : k < fs.length := by omega
    rw [o2 k hk', e3 k hk' hk, trimEmpty_rows]

/-! ### the writer's page cuts -/

theorem splitBy_flatten (sizes : List Nat) (l : List α) : (splitBy sizes l).flatten = l := by
  induction sizes generalizing l with
  | nil =>
    unfold splitBy
    by_cases h : l = []
    · simp [h]
    · simp [h]
  | cons n t ih =>
    unfold splitBy
    rw [List.flatten_cons, ih, List.take_append_drop]

end LanceModel.C25
