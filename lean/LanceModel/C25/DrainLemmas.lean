import LanceModel.C25.PageLemmas
/-!
C25 helper lemmas for part A: pages → batches (`drainQ`, `drainAll`, `batchLoop`).
-/
namespace LanceModel.C25

variable {α : Type}

/-- the rows a field decoder still holds -/
def pending (q : List (PageDec α)) : List α := q.flatMap (·.rest)

/-- decoder invariant: every queued page decoder holds `num_rows` rows, the front one `num_rows - drained` -/
def WFq : List (PageDec α) → Nat → Prop
  | [], d => d = 0
  | p :: q, d => d ≤ p.numRows ∧ p.rest.length = p.numRows - d ∧ ∀ x ∈ q, x.rest.length = x.numRows

theorem wfq_tail {p : PageDec α} {q : List (PageDec α)} {d : Nat} (h : WFq (p :: q) d) : WFq q 0 := by
  cases q with
  | nil => rfl
  | cons x t =>
    refine ⟨Nat.zero_le _, ?_, fun y hy => h.2.2 y (by simp [hy])⟩
    have := h.2.2 x (by simp); omega

/-- `drain(n)` returns the next `n` pending rows and keeps the invariant -/
theorem drainQ_spec (q : List (PageDec α)) (d n : Nat) (hwf : WFq q d) (hn : n ≤ (pending q).length) :
    ∃ out f, drainQ q d n = some (out, f) ∧ out = (pending q).take n
      ∧ pending f.q = (pending q).drop n ∧ WFq f.q f.drained := by
  induction q generalizing d n with
  | nil =>
    have : n = 0 := by simpa [pending] using hn
    subst this
    exact ⟨[], ⟨[], d⟩, rfl, rfl, rfl, hwf⟩
  | cons p q ih =>
    cases n with
    | zero => exact ⟨[], ⟨p :: q, d⟩, rfl, rfl, rfl, hwf⟩
    | succ r =>
      obtain ⟨h1, h2, h3⟩ := hwf
      have hpend : pending (p :: q) = p.rest ++ pending q := by simp [pending]
      unfold drainQ
      by_cases hc : min (p.numRows - d) (r + 1) = p.numRows - d
      · rw [if_pos hc]
        have hle : p.numRows - d ≤ r + 1 := by omega
        have hn' : r + 1 ≤ p.rest.length + (pending q).length := by
          rw [hpend, List.length_append] at hn; exact hn
        have hk : r + 1 - min (p.numRows - d) (r + 1) = r + 1 - p.rest.length := by omega
        obtain ⟨out, f, e1, e2, e3, e4⟩ := ih 0 (r + 1 - min (p.numRows - d) (r + 1)) (wfq_tail ⟨h1, h2, h3⟩)
          (by omega)
        rw [e1]
        refine ⟨_, f, rfl, ?_, ?_, e4⟩
        · rw [hpend, List.take_append, e2, hk]
          congr 1
          rw [List.take_of_length_le (by omega), List.take_of_length_le (by omega)]
        · rw [hpend, List.drop_append, e3, hk, List.drop_eq_nil_of_le (by omega : p.rest.length ≤ r + 1)]
          rfl
      · rw [if_neg hc]
        have hlt : r + 1 < p.numRows - d := by omega
        have hm : min (p.numRows - d) (r + 1) = r + 1 := by omega
        refine ⟨_, _, rfl, ?_, ?_, ?_⟩
        · rw [hpend, List.take_append, hm]
          have : r + 1 - p.rest.length = 0 := by omega
          rw [this]; simp
        · simp only [pending, List.flatMap_cons] at *
          rw [List.drop_append, hm]
          have : r + 1 - p.rest.length = 0 := by omega
          rw [this]; simp
        · refine ⟨by simp only []; omega, ?_, h3⟩
          simp only [List.length_drop]; omega

/-- per-column state of the root decoder -/
def WFall (fs : List (FieldDec α)) (rem : Nat) : Prop :=
  ∀ f ∈ fs, WFq f.q f.drained ∧ (pending f.q).length = rem

theorem drainAll_spec (fs : List (FieldDec α)) (rem n : Nat) (hwf : WFall fs rem) (hn : n ≤ rem) :
    ∃ b fs', drainAll fs n = some (b, fs')
      ∧ b = fs.map (fun f => (pending f.q).take n)
      ∧ fs'.length = fs.length
      ∧ fs'.map (fun f => pending f.q) = fs.map (fun f => (pending f.q).drop n)
      ∧ WFall fs' (rem - n) := by
  induction fs with
  | nil => exact ⟨[], [], rfl, rfl, rfl, rfl, fun f hf => by cases hf⟩
  | cons f t ih =>
    obtain ⟨hw, hl⟩ := hwf f (by simp)
    obtain ⟨out, f', e1, e2, e3, e4⟩ := drainQ_spec f.q f.drained n hw (by omega)
    obtain ⟨b, fs', i1, i2, il, i3, i4⟩ := ih (fun x hx => hwf x (by simp [hx]))
    refine ⟨out :: b, f' :: fs', ?_, ?_, ?_, ?_, ?_⟩
    · simp only [drainAll, FieldDec.drain, e1, i1]
    · simp [e2, i2]
    · simp [il]
    · simp [e3, i3]
    · intro x hx
      cases hx with
      | head => exact ⟨e4, by rw [e3]; simp; omega⟩
      | tail _ hx' => exact i4 x hx'

/-- a list cut into consecutive pieces of `bs` elements (the last one shorter, none empty) -/
def chunksOf (bs : Nat) : Nat → List α → List (List α)
  | 0, _ => []
  | fuel + 1, l => if l = [] then [] else l.take bs :: chunksOf bs fuel (l.drop bs)

theorem chunksOf_flatten (bs : Nat) (hbs : 0 < bs) (fuel : Nat) (l : List α) (hf : l.length ≤ fuel) :
    (chunksOf bs fuel l).flatten = l := by
  induction fuel generalizing l with
  | zero =>
    have : l = [] := List.eq_nil_of_length_eq_zero (by omega)
    subst this; rfl
  | succ k ih =>
    unfold chunksOf
    by_cases h : l = []
    · rw [if_pos h, h]; rfl
    · rw [if_neg h, List.flatten_cons, ih (l.drop bs), List.take_append_drop]
      have : 0 < l.length := List.length_pos_iff.mpr h
      simp only [List.length_drop]; omega

/-- `batchLoop` cuts every column's pending rows into pieces of `bs` rows -/
theorem batchLoop_spec (bs : Nat) (hbs : 0 < bs) (fuel rem : Nat) (fs : List (FieldDec α))
    (hwf : WFall fs rem) (hfuel : rem ≤ fuel) :
    ∃ out, batchLoop bs fuel rem fs = some out
      ∧ (∀ b ∈ out, b.length = fs.length)
      ∧ ∀ (c : Nat) (hc : c < fs.length),
          out.map (fun b => b[c]?) = (chunksOf bs fuel (pending fs[c].q)).map some := by
  induction fuel generalizing rem fs with
  | zero =>
    have : rem = 0 := by omega
    subst this
    refine ⟨[], rfl, (fun b hb => by cases hb), ?_⟩
    intro c hc
    simp [chunksOf]
  | succ k ih =>
    unfold batchLoop
    by_cases h0 : rem = 0
    · rw [if_pos h0]
      refine ⟨[], rfl, (fun b hb => by cases hb), ?_⟩
      intro c hc
      have := (hwf fs[c] (List.getElem_mem hc)).2
      have hnil : pending fs[c].q = [] := List.eq_nil_of_length_eq_zero (by omega)
      simp [chunksOf, hnil]
    · rw [if_neg h0]
      have hm : ¬ (min rem bs = 0) := by omega
      rw [if_neg hm]
      obtain ⟨b, fs', e1, e2, hlen, e3, e4⟩ := drainAll_spec fs rem (min rem bs) hwf (Nat.min_le_left _ _)
      obtain ⟨out, o1, ow, o2⟩ := ih (rem - min rem bs) fs' e4 (by omega)
      simp only [e1, o1]
      refine ⟨b :: out, rfl, ?_, ?_⟩
      · intro x hx
        cases hx with
        | head => rw [e2]; simp
        | tail _ hx' => rw [ow x hx', hlen]
      intro c hc
      have hc' : c < fs'.length := by omega
      have hpl := (hwf fs[c] (List.getElem_mem hc)).2
      have hne : pending fs[c].q ≠ [] := by
        intro hnil; rw [hnil] at hpl; simp at hpl; omega
      unfold chunksOf
      rw [if_neg hne]
      simp only [List.map_cons]
      have hb : b[c]? = some ((pending fs[c].q).take bs) := by
        rw [e2]
        simp only [List.getElem?_map, List.getElem?_eq_getElem hc, Option.map_some]
        congr 1
        by_cases hle : rem ≤ bs
        · rw [Nat.min_eq_left hle, List.take_of_length_le (by omega), List.take_of_length_le (by omega)]
        · rw [Nat.min_eq_right (by omega)]
      have hp' : pending fs'[c].q = (pending fs[c].q).drop bs := by
        have := congrArg (fun l => l[c]?) e3
        simp only [List.getElem?_map, List.getElem?_eq_getElem hc, List.getElem?_eq_getElem hc',
          Option.map_some, Option.some.injEq] at this
        rw [this]
        by_cases hle : rem ≤ bs
        · rw [Nat.min_eq_left hle, List.drop_eq_nil_of_le (by omega), List.drop_eq_nil_of_le (by omega)]
        · rw [Nat.min_eq_right (by omega)]
      rw [hb, o2 c hc', hp']

end LanceModel.C25
