import LanceModel.C25.EndToEnd
/-!
C25 part B, rows that span chunk boundaries: the `need_preamble` / `take_trailer` / all-preamble-chunk branches of
`schedule_instructions`' loop, in the flat formulation.

A chunk is `pre ++ rows.flatten` (`PC`).  The level stream of the chunks from the current one on is
`cs.flatMap lv`.  `upTo k l` is the prefix of `l` before its `k`-th row start (counting from 0), `dropCont l` drops the
leading levels that start no row.  The loop's output — every instruction executed on its chunk the way
`map_range_select` says `decode` executes it — is `upTo need` of the stream (after the rows skipped in the first
chunk, and after the leading continuation when no preamble is needed).
-/
namespace LanceModel.C25

variable {α : Type}

/-- a parsed chunk: the tail of a row begun earlier, then the rows that start in the chunk (the last one may continue
    in the next chunk) -/
structure PC (α : Type) where
  pre : List (Ent α)
  rows : List (List (Ent α))

def PC.lv (c : PC α) : List (Ent α) := c.pre ++ c.rows.flatten

def PC.WF (c : PC α) : Prop := NoStart c.pre ∧ ∀ r ∈ c.rows, IsRow r

/-- the blocks of a chunk list: a chunk has a trailer iff the next chunk has a preamble -/
def pcBlocks : List (PC α) → Nat → List Block
  | [], _ => []
  | [c], off => [⟨off, c.rows.length, !c.pre.isEmpty, false⟩]
  | c :: d :: t, off => ⟨off, c.rows.length, !c.pre.isEmpty, !d.pre.isEmpty⟩ :: pcBlocks (d :: t) (off + c.rows.length)

/-- what `decode` copies for an instruction (`map_range_select`); chunk indices relative to `base` -/
def execI (cs : List (PC α)) (base : Nat) (i : Instr) : List (Ent α) :=
  match cs[i.chunk - base]? with
  | some c => selRows c.pre c.rows i.pre i.skip (i.skip + i.take)
  | none => []

/-- the prefix of `l` before its `k`-th row start -/
def upTo : Nat → List (Ent α) → List (Ent α)
  | _, [] => []
  | k, e :: t => if e.start then (if k = 0 then [] else e :: upTo (k - 1) t) else e :: upTo k t

/-- drop the leading levels that start no row -/
def dropCont : List (Ent α) → List (Ent α)
  | [] => []
  | e :: t => if e.start then e :: t else dropCont t

theorem upTo_skip (k : Nat) (pre l : List (Ent α)) (h : NoStart pre) : upTo k (pre ++ l) = pre ++ upTo k l := by
  induction pre with
  | nil => rfl
  | cons e t ih =>
    have he : e.start = false := h e (by simp)
    simp only [List.cons_append, upTo, he, Bool.false_eq_true, if_false]
    rw [ih (fun x hx => h x (by simp [hx]))]

theorem dropCont_skip (pre l : List (Ent α)) (h : NoStart pre) : dropCont (pre ++ l) = dropCont l := by
  induction pre with
  | nil => rfl
  | cons e t ih =>
    have he : e.start = false := h e (by simp)
    simp only [List.cons_append, dropCont, he, Bool.false_eq_true, if_false]
    exact ih (fun x hx => h x (by simp [hx]))

theorem upTo_rows (k : Nat) (rows : List (List (Ent α))) (R : List (Ent α)) (hr : ∀ r ∈ rows, IsRow r) :
    upTo k (rows.flatten ++ R) =
      if k < rows.length then (rows.take k).flatten else rows.flatten ++ upTo (k - rows.length) R := by
  induction rows generalizing k with
  | nil => simp
  | cons r rest ih =>
    obtain ⟨e, tl, rfl, hs, hn⟩ := hr r (by simp)
    simp only [List.flatten_cons, List.cons_append, List.append_assoc, upTo, hs, if_true, List.length_cons]
    cases k with
    | zero => simp
    | succ k =>
      simp only [Nat.add_one_ne_zero, if_false, Nat.add_sub_cancel, Nat.add_lt_add_iff_right, List.take_succ_cons,
        List.flatten_cons, List.cons_append]
      rw [upTo_skip k tl _ hn, ih k (fun x hx => hr x (by simp [hx]))]
      by_cases hk : k < rest.length
      · rw [if_pos hk, if_pos hk]
      · rw [if_neg hk, if_neg hk]
        have : k + 1 - (rest.length + 1) = k - rest.length := by omega
        rw [this]

/-- a list that is empty or begins with a row start -/
def AtStart (l : List (Ent α)) : Prop := ∀ e t, l = e :: t → e.start = true

theorem upTo_zero (l : List (Ent α)) (h : AtStart l) : upTo 0 l = [] := by
  cases l with
  | nil => rfl
  | cons e t => simp [upTo, h e t rfl]

theorem dropCont_atStart (l : List (Ent α)) (h : AtStart l) : dropCont l = l := by
  cases l with
  | nil => rfl
  | cons e t => simp [dropCont, h e t rfl]

theorem atStart_dropCont (l : List (Ent α)) : AtStart (dropCont l) := by
  induction l with
  | nil => intro e t h; cases h
  | cons a t ih =>
    by_cases ha : a.start = true
    · simp only [dropCont, ha, if_true]
      intro e t' h; injection h with h1 _; rw [← h1]; exact ha
    · simp only [dropCont, ha]; exact ih

theorem atStart_rows (rows : List (List (Ent α))) (R : List (Ent α)) (hr : ∀ r ∈ rows, IsRow r) (hne : rows ≠ []) :
    AtStart (rows.flatten ++ R) := by
  obtain ⟨e, tl, rest, rfl, hs, _⟩ := head_flatten_rows rows hr hne
  intro e' t h
  simp at h
  rw [← h.1]; exact hs

/-! ### one step of the loop, branch by branch -/

theorem step_done (b : Block) (bs : List Block) (idx skip : Nat) :
    schedLoop (b :: bs) idx 0 false skip = [] := by
  rw [schedLoop]; simp

theorem step_allpre_take (b : Block) (bs : List Block) (idx need : Nat) (h0 : b.starts = 0) (hp : b.hasPre = true) :
    schedLoop (b :: bs) idx need true 0 =
      ⟨idx, .take, 0, 0, b.hasTrail⟩ :: schedLoop bs (idx + 1) need (if bs.isEmpty then false else true) 0 := by
  rw [schedLoop]; simp [h0, hp]

theorem step_allpre_skip (b : Block) (bs : List Block) (idx need : Nat) (np : Bool) (h0 : b.starts = 0)
    (hn : ¬ (need = 0 ∧ np = false)) (hp : ¬ (b.hasPre = true ∧ np = true)) :
    schedLoop (b :: bs) idx need np 0 = schedLoop bs (idx + 1) need np 0 := by
  rw [schedLoop]; simp [h0, hn, hp]

theorem step_main (b : Block) (bs : List Block) (idx need : Nat) (np : Bool) (skip : Nat)
    (hn : ¬ (need = 0 ∧ np = false)) (ha : b.starts - skip ≠ 0) :
    schedLoop (b :: bs) idx need np skip =
      ⟨idx, if b.hasPre then (if np then .take else .skip) else .absent, skip, min (b.starts - skip) need,
          decide (min (b.starts - skip) need = b.starts - skip) && b.hasTrail⟩ ::
        schedLoop bs (idx + 1) (need - min (b.starts - skip) need)
          (decide (min (b.starts - skip) need = b.starts - skip) && b.hasTrail) 0 := by
  rw [schedLoop]; simp [hn, ha]

def trailOf : List (PC α) → Bool
  | [] => false
  | d :: _ => !d.pre.isEmpty

theorem pcBlocks_cons (c : PC α) (rest : List (PC α)) (off : Nat) :
    pcBlocks (c :: rest) off =
      ⟨off, c.rows.length, !c.pre.isEmpty, trailOf rest⟩ :: pcBlocks rest (off + c.rows.length) := by
  cases rest with
  | nil => rfl
  | cons d t => rfl

theorem pcBlocks_isEmpty (cs : List (PC α)) (off : Nat) : (pcBlocks cs off).isEmpty = cs.isEmpty := by
  cases cs with
  | nil => rfl
  | cons c t => rw [pcBlocks_cons]; rfl

/-- the stream after skipping `skip` rows of the first chunk (its preamble is not part of it) -/
def streamS : List (PC α) → Nat → List (Ent α)
  | [], _ => []
  | c :: rest, skip => (c.rows.drop skip).flatten ++ rest.flatMap PC.lv

theorem execI_shift (c : PC α) (t : List (PC α)) (idx : Nat) (i : Instr) (h : idx + 1 ≤ i.chunk) :
    execI (c :: t) idx i = execI t (idx + 1) i := by
  unfold execI
  have : i.chunk - idx = (i.chunk - (idx + 1)) + 1 := by omega
  rw [this, List.getElem?_cons_succ]

theorem streamS_atStart (cs : List (PC α)) (hwf : ∀ c ∈ cs, c.WF) (skip : Nat)
    (h : ∀ c, cs.head? = some c → skip < c.rows.length) : AtStart (streamS cs skip) := by
  cases cs with
  | nil => intro e t h'; cases h'
  | cons c rest =>
    have hs := h c rfl
    apply atStart_rows _ _ (fun r hr => (hwf c (by simp)).2 r (List.mem_of_mem_drop hr))
    intro hnil
    have := congrArg List.length hnil
    simp at this; omega

/-- **The loop of `schedule_instructions`, all branches** (`need_preamble`, `take_trailer`, chunks that are entirely
    preamble): executing the scheduled instructions on their chunks yields, when a preamble is needed, the level
    stream of the remaining chunks up to its `need`-th row start (the continuation of the row in progress, then
    `need` whole rows — each complete with the parts of it that lie in later chunks); when none is needed, the same
    of the stream that begins `skip` rows into the first chunk, after dropping a leading continuation. -/
theorem schedLoop_flat (cs : List (PC α)) (hwf : ∀ c ∈ cs, c.WF) (hne : ∀ c ∈ cs, c.pre ≠ [] ∨ c.rows ≠ [])
    (off idx need : Nat) (np : Bool) (skip : Nat) (h1 : np = true → skip = 0)
    (h2 : np = false → ∀ c, cs.head? = some c → skip < c.rows.length ∨ skip = 0) :
    (schedLoop (pcBlocks cs off) idx need np skip).flatMap (execI cs idx) =
        (if np then upTo need (cs.flatMap PC.lv) else upTo need (dropCont (streamS cs skip)))
    ∧ ∀ i ∈ schedLoop (pcBlocks cs off) idx need np skip, idx ≤ i.chunk := by
  induction cs generalizing off idx need np skip with
  | nil =>
    cases np <;> simp [pcBlocks, schedLoop, streamS, upTo, dropCont]
  | cons c rest ih =>
    obtain ⟨hpre, hrows⟩ := hwf c (by simp)
    have hwf' : ∀ x ∈ rest, x.WF := fun x hx => hwf x (by simp [hx])
    have hne' : ∀ x ∈ rest, x.pre ≠ [] ∨ x.rows ≠ [] := fun x hx => hne x (by simp [hx])
    have hshift : ∀ (l : List Instr), (∀ i ∈ l, idx + 1 ≤ i.chunk) →
        l.flatMap (execI (c :: rest) idx) = l.flatMap (execI rest (idx + 1)) :=
      fun l hl => flatMap_congr' l _ _ (fun i hi => execI_shift c rest idx i (hl i hi))
    have hlv : (c :: rest).flatMap PC.lv = c.pre ++ (c.rows.flatten ++ rest.flatMap PC.lv) := by
      simp [PC.lv]
    have hlv2 : ∀ (X : List (Ent α)), c.lv ++ X = c.pre ++ (c.rows.flatten ++ X) := by
      intro X; simp [PC.lv]
    rw [pcBlocks_cons]
    by_cases hdone : need = 0 ∧ np = false
    · -- nothing (more) to do
      obtain ⟨rfl, rfl⟩ := hdone
      rw [step_done]
      refine ⟨?_, fun i hi => by cases hi⟩
      simp only [List.flatMap_nil, Bool.false_eq_true, if_false]
      rw [upTo_zero _ (atStart_dropCont _)]
    · by_cases havail : c.rows.length - skip = 0
      · -- no row of this chunk is wanted
        have hskip0 : skip = 0 := by
          cases np with
          | true => exact h1 rfl
          | false =>
            rcases h2 rfl c rfl with h | h
            · omega
            · exact h
        subst hskip0
        have hr0 : c.rows = [] := List.eq_nil_of_length_eq_zero (by omega)
        by_cases htk : (!c.pre.isEmpty) = true ∧ np = true
        · -- the chunk is entirely preamble and the preamble is needed
          obtain ⟨hp, rfl⟩ := htk
          rw [step_allpre_take _ _ _ _ (by simp [hr0]) hp, pcBlocks_isEmpty]
          simp only [if_true]
          have hex : execI (c :: rest) idx ⟨idx, .take, 0, 0, trailOf rest⟩ = c.pre := by
            simp [execI, selRows]
          cases rest with
          | nil =>
            simp only [List.isEmpty_nil, if_true, pcBlocks, schedLoop, List.flatMap_cons, List.flatMap_nil, hex]
            refine ⟨?_, fun i hi => by simp at hi; subst hi; exact Nat.le_refl _⟩
            rw [hlv2, upTo_skip _ _ _ hpre, hr0]; simp [upTo]
          | cons d t =>
            simp only [List.isEmpty_cons, Bool.false_eq_true, if_false]
            obtain ⟨e1, e2⟩ := ih hwf' hne' (off + c.rows.length) (idx + 1) need true 0 (fun _ => rfl)
              (fun h => by cases h)
            simp only [if_true] at e1
            refine ⟨?_, ?_⟩
            · simp only [List.flatMap_cons, hex]
              rw [hshift _ e2, e1, hlv2, upTo_skip _ _ _ hpre, hr0]; simp
            · intro i hi
              cases hi with
              | head => exact Nat.le_refl _
              | tail _ hi' => have := e2 i hi'; omega
        · -- skip the chunk
          rw [step_allpre_skip _ _ _ _ _ (by simp [hr0]) hdone (by simpa using htk)]
          obtain ⟨e1, e2⟩ := ih hwf' hne' (off + c.rows.length) (idx + 1) need np 0 (fun _ => rfl)
            (fun _ _ _ => Or.inr rfl)
          refine ⟨?_, fun i hi => by have := e2 i hi; omega⟩
          rw [hshift _ e2, e1]
          cases np with
          | true =>
            -- the chunk has no preamble either: it is empty
            have hpe : c.pre = [] := by
              cases hcp : c.pre with
              | nil => rfl
              | cons a b => simp [hcp] at htk
            simp only [if_true]
            rw [hlv, hpe, hr0]; simp
          | false =>
            simp only [Bool.false_eq_true, if_false]
            congr 1
            simp only [streamS, hr0, List.drop_nil, List.flatten_nil, List.nil_append]
            cases rest with
            | nil => rfl
            | cons d t =>
              simp only [List.flatMap_cons, streamS, List.drop_zero, PC.lv, List.append_assoc]
              rw [dropCont_skip _ _ (hwf' d (by simp)).1]
      · -- rows of this chunk are wanted
        rw [step_main _ _ _ _ _ _ hdone havail]
        simp only []
        have hsk : skip < c.rows.length := by omega
        have hrd : ∀ r ∈ c.rows.drop skip, IsRow r := fun r hr => hrows r (List.mem_of_mem_drop hr)
        have hdl : (c.rows.drop skip).length = c.rows.length - skip := by simp
        -- what the instruction of this chunk copies
        have hex : execI (c :: rest) idx
            ⟨idx, if (!c.pre.isEmpty) = true then (if np = true then Pre.take else Pre.skip) else Pre.absent, skip,
              min (c.rows.length - skip) need,
              decide (min (c.rows.length - skip) need = c.rows.length - skip) && trailOf rest⟩
            = (if np then c.pre else []) ++ ((c.rows.drop skip).take (min (c.rows.length - skip) need)).flatten := by
          simp only [execI, Nat.sub_self, List.getElem?_cons_zero, selRows, Nat.add_sub_cancel_left]
          cases np with
          | false => cases hpi : c.pre.isEmpty <;> simp
          | true =>
            cases hcp : c.pre with
            | nil => simp
            | cons a b => simp
        obtain ⟨e1, e2⟩ := ih hwf' hne' (off + c.rows.length) (idx + 1) (need - min (c.rows.length - skip) need)
          (decide (min (c.rows.length - skip) need = c.rows.length - skip) && trailOf rest) 0 (fun _ => rfl)
          (fun _ _ _ => Or.inr rfl)
        refine ⟨?_, ?_⟩
        · simp only [List.flatMap_cons, hex]
          rw [hshift _ e2, e1]
          -- the specification side
          have hspec : ∀ (R : List (Ent α)),
              upTo need ((c.rows.drop skip).flatten ++ R) =
                if need < c.rows.length - skip then ((c.rows.drop skip).take need).flatten
                else (c.rows.drop skip).flatten ++ upTo (need - (c.rows.length - skip)) R := by
            intro R; rw [upTo_rows need _ R hrd, hdl]
          have hlhs : (if np then upTo need ((c :: rest).flatMap PC.lv)
                else upTo need (dropCont (streamS (c :: rest) skip)))
              = (if np then c.pre else []) ++ upTo need ((c.rows.drop skip).flatten ++ rest.flatMap PC.lv) := by
            cases np with
            | true =>
              have := h1 rfl; subst this
              simp only [if_true]
              rw [hlv, upTo_skip _ _ _ hpre]; simp
            | false =>
              simp only [Bool.false_eq_true, if_false, List.nil_append, streamS]
              rw [dropCont_atStart _ (atStart_rows _ _ hrd (by
                intro hnil; have := congrArg List.length hnil; simp at this; omega))]
          simp only [List.flatMap_cons] at hlhs
          rw [hlhs, hspec, List.append_assoc]
          congr 1
          by_cases hlt : need < c.rows.length - skip
          · -- the range ends inside this chunk
            have hm : min (c.rows.length - skip) need = need := by omega
            rw [if_pos hlt, hm]
            have hd : (decide (need = c.rows.length - skip) && trailOf rest) = false := by
              have : ¬ (need = c.rows.length - skip) := by omega
              simp [this]
            rw [hd, Nat.sub_self]
            simp only [Bool.false_eq_true, if_false]
            rw [upTo_zero _ (atStart_dropCont _)]; simp
          · -- all remaining rows of the chunk, the last one with its trailer
            have hm : min (c.rows.length - skip) need = c.rows.length - skip := by omega
            rw [if_neg hlt, hm]
            have htake : (c.rows.drop skip).take (c.rows.length - skip) = c.rows.drop skip :=
              List.take_of_length_le (by omega)
            rw [htake]
            congr 1
            simp only [decide_true, Bool.true_and]
            cases rest with
            | nil => cases hnp : trailOf ([] : List (PC α)) <;> simp [streamS, upTo, dropCont]
            | cons d t =>
              cases htr : trailOf (d :: t) with
              | true => simp
              | false =>
                simp only [Bool.false_eq_true, if_false]
                have hdp : d.pre = [] := by
                  cases hcp : d.pre with
                  | nil => rfl
                  | cons a b => simp [trailOf, hcp] at htr
                have hdr : d.rows ≠ [] := by
                  rcases hne' d (by simp) with h | h
                  · exact absurd hdp h
                  · exact h
                have hst : streamS (d :: t) 0 = (d :: t).flatMap PC.lv := by
                  simp [streamS, PC.lv, hdp]
                rw [hst, dropCont_atStart]
                rw [← hst]
                exact streamS_atStart (d :: t) hwf' 0 (fun c' hc' => by
                  simp at hc'; subst hc'; exact List.length_pos_iff.mpr hdr)
        · intro i hi
          cases hi with
          | head => exact Nat.le_refl _
          | tail _ hi' => have := e2 i hi'; omega

/-! ### the hand-over of the preamble in `drain_from_instruction`, and what `decode` copies for an instruction -/

/-- draining all of an instruction: when `need_preamble` is exactly "this instruction takes its preamble" (which is how
    `schedule_instructions` links consecutive instructions: `Take` iff the previous one took a trailer), the drain
    instruction carries the instruction's own preamble action, consumes it, and hands `take_trailer` on as the next
    `need_preamble`; there is no panic -/
theorem drainFromInstruction_handover (i : Instr) (desired : Nat) (np : Bool)
    (hlink : i.pre = .take ↔ np = true) (hd : i.take ≤ desired) :
    drainFromInstruction i desired np 0 = some (⟨i, 0, i.take, i.pre⟩, true, desired - i.take, i.trailer, 0) := by
  unfold drainFromInstruction
  cases np with
  | true =>
    have hp : i.pre = .take := hlink.mpr rfl
    simp [hp, hd]
  | false =>
    have hp : i.pre ≠ .take := fun h => by have := hlink.mp h; cases this
    cases hpre : i.pre with
    | take => exact absurd hpre hp
    | absent => simp [hd]
    | skip => simp [hd]

/-- a partial drain of an instruction never takes a trailer: it copies `desired` rows after the `skip` already
    drained, keeps the instruction, and the next drain of it skips the preamble -/
theorem drainFromInstruction_partial (i : Instr) (desired skip : Nat) (hp : i.pre ≠ .take ∨ True)
    (hd : desired < i.take - skip) :
    ∃ act, drainFromInstruction i desired false skip = some (⟨i, skip, desired, act⟩, false, 0, false, skip + desired)
      ∧ act ≠ .take := by
  unfold drainFromInstruction
  have hge : ¬ (desired ≥ i.take - skip) := by omega
  cases hpre : i.pre <;> simp [hge]

/-- what `decode` copies for a drained instruction is `execI` (by `map_range_select`): for an instruction that stays
    inside its chunk, has `Absent` only without preamble, `Take` only from row 0 and otherwise takes at least one
    row -/
theorem decode_instr (c : PC α) (hwf : c.WF) (i : Instr) (hin : i.skip + i.take ≤ c.rows.length)
    (ha1 : i.pre = .absent → c.pre = []) (ha2 : i.pre = .take → i.skip = 0) (ha3 : i.pre ≠ .take → 0 < i.take) :
    slice c.lv (mapRange true ⟨i.skip, i.skip + i.take⟩ c.lv (chunkValues c.lv).length i.pre).2
        = execI [c] i.chunk i
    ∧ slice (chunkValues c.lv) (mapRange true ⟨i.skip, i.skip + i.take⟩ c.lv (chunkValues c.lv).length i.pre).1
        = chunkValues (execI [c] i.chunk i) := by
  have h := mapRange_select c.pre c.rows hwf.1 hwf.2 i.skip (i.skip + i.take) (by omega) hin i.pre ha1 ha2
    (fun h => by have := ha3 h; omega)
  simpa [execI, PC.lv] using h

end LanceModel.C25
