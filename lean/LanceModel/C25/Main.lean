import LanceModel.C25.Driver
def main : IO Unit := LanceModel.Util.runDriver LanceModel.C25.Driver.step LanceModel.C25.Driver.init
