import LanceModel.C25.MiniBlock
import LanceModel.C25.PageLemmas
/-!
C25 helper lemmas for part B: `posOfStart` and `mapRange` on a well-formed chunk
(`pre ++ rows.flatten`: a preamble without row starts, then rows that each begin with their only start).
-/
namespace LanceModel.C25

variable {α : Type}

/-- no entry starts a row (a preamble, or the tail of a row) -/
def NoStart (l : List (Ent α)) : Prop := ∀ x ∈ l, x.start = false

/-- a row as it lies in a chunk: its first level starts it, no other level does -/
def IsRow (r : List (Ent α)) : Prop := ∃ e tl, r = e :: tl ∧ e.start = true ∧ NoStart tl

def visCount (l : List (Ent α)) : Nat := (l.filter (·.vis)).length

theorem invisCount_nil : invisCount ([] : List (Ent α)) = 0 := rfl
theorem invisCount_cons (e : Ent α) (l : List (Ent α)) :
    invisCount (e :: l) = (if e.vis then 0 else 1) + invisCount l := by
  unfold invisCount
  cases h : e.vis <;> simp [h] <;> omega
theorem invisCount_append (a b : List (Ent α)) : invisCount (a ++ b) = invisCount a + invisCount b := by
  simp [invisCount, List.filter_append]
theorem visCount_append (a b : List (Ent α)) : visCount (a ++ b) = visCount a + visCount b := by
  simp [visCount, List.filter_append]
theorem vis_add_invis (l : List (Ent α)) : visCount l + invisCount l = l.length := by
  induction l with
  | nil => rfl
  | cons e t ih =>
    rw [invisCount_cons]
    unfold visCount at *
    cases h : e.vis <;> simp [h] <;> omega
theorem chunkValues_length (l : List (Ent α)) : (chunkValues l).length = visCount l := by
  simp [chunkValues, visCount]
theorem chunkValues_append (a b : List (Ent α)) : chunkValues (a ++ b) = chunkValues a ++ chunkValues b := by
  simp [chunkValues, List.filter_append]

/-- walking over levels that start no row -/
theorem posOfStart_skip (k : Nat) (pre l : List (Ent α)) (idx inv : Nat) (h : NoStart pre) :
    posOfStart k (pre ++ l) idx inv = posOfStart k l (idx + pre.length) (inv + invisCount pre) := by
  induction pre generalizing idx inv with
  | nil => simp [invisCount]
  | cons e t ih =>
    have he : e.start = false := h e (by simp)
    simp only [List.cons_append, posOfStart, he, Bool.false_eq_true, if_false]
    rw [ih (idx + 1) _ (fun x hx => h x (by simp [hx])), invisCount_cons]
    congr 1
    · simp only [List.length_cons]; omega
    · omega

/-- the scanning loop finds the start of row `k` of the rows that follow, or runs off the end -/
theorem posOfStart_rows (k : Nat) (rows : List (List (Ent α))) (idx inv : Nat) (hr : ∀ r ∈ rows, IsRow r) :
    posOfStart k rows.flatten idx inv =
      if k < rows.length then
        some (idx + (rows.take k).flatten.length, inv + invisCount (rows.take k).flatten)
      else none := by
  induction rows generalizing k idx inv with
  | nil => simp [posOfStart]
  | cons r rest ih =>
    obtain ⟨e, tl, rfl, hs, hn⟩ := hr r (by simp)
    simp only [List.flatten_cons, List.cons_append, posOfStart, hs, if_true]
    cases k with
    | zero => simp [invisCount]
    | succ k =>
      simp only [Nat.add_one_ne_zero, if_false, Nat.add_sub_cancel]
      rw [posOfStart_skip k tl rest.flatten _ _ hn, ih k _ _ (fun x hx => hr x (by simp [hx]))]
      simp only [List.length_cons, Nat.add_lt_add_iff_right, List.take_succ_cons, List.flatten_cons,
        List.cons_append, List.length_append]
      by_cases hk : k < rest.length
      · rw [if_pos hk, if_pos hk, invisCount_cons, invisCount_append]
        congr 2 <;> omega
      · rw [if_neg hk, if_neg hk]

theorem flatten_take_drop (rows : List (List (Ent α))) (s : Nat) :
    rows.flatten = (rows.take s).flatten ++ (rows.drop s).flatten := by
  rw [← List.flatten_append, List.take_append_drop]

/-- `slice` of `a ++ b ++ c` at `b` -/
theorem slice_mid {β : Type} (a b c : List β) : slice (a ++ b ++ c) ⟨a.length, a.length + b.length⟩ = b := by
  simp [slice, List.append_assoc]

theorem slice_mid' {β : Type} (a b c : List β) (x y : Nat) (hx : x = a.length) (hy : y = a.length + b.length) :
    slice (a ++ b ++ c) ⟨x, y⟩ = b := by
  subst hx; subst hy; exact slice_mid a b c

/-- the head of a non-empty list of rows, flattened, is the head of the first row -/
theorem head_flatten_rows (rows : List (List (Ent α))) (hr : ∀ r ∈ rows, IsRow r) (h : rows ≠ []) :
    ∃ e tl rest, rows = (e :: tl) :: rest ∧ e.start = true ∧ NoStart tl := by
  cases rows with
  | nil => exact absurd rfl h
  | cons r rest =>
    obtain ⟨e, tl, rfl, hs, hn⟩ := hr r (by simp)
    exact ⟨e, tl, rest, rfl, hs, hn⟩

theorem headInvis_cons (e : Ent α) (l : List (Ent α)) : headInvis (e :: l) = if e.vis then 0 else 1 := by
  cases h : e.vis <;> simp [headInvis, h]

/-- the walk to row `s`: the levels / items / invisible levels of the rows before it -/
theorem walkStart_spec (rows : List (List (Ent α))) (hr : ∀ r ∈ rows, IsRow r) (s : Nat) (hs : s < rows.length) :
    walkStart rows.flatten s =
      (visCount (rows.take s).flatten, (rows.take s).flatten.length, invisCount (rows.take s).flatten) := by
  unfold walkStart
  by_cases h0 : s > 0
  · rw [if_pos h0]
    obtain ⟨e0, tl0, rest0, hrows, hs0, hn0⟩ :=
      head_flatten_rows rows hr (by intro h; rw [h] at hs; simp at hs)
    subst hrows
    obtain ⟨k, rfl⟩ : ∃ k, s = k + 1 := ⟨s - 1, by omega⟩
    have hk : k < rest0.length := by simpa using hs
    simp only [List.flatten_cons, List.cons_append, List.drop_succ_cons, List.drop_zero, headInvis_cons,
      Nat.add_sub_cancel]
    rw [posOfStart_skip k tl0 _ _ _ hn0, posOfStart_rows k rest0 _ _ (fun x hx => hr x (by simp [hx])), if_pos hk]
    simp only [List.take_succ_cons, List.flatten_cons, List.cons_append, List.length_cons, List.length_append]
    have hv := vis_add_invis ((e0 :: tl0) ++ (rest0.take k).flatten)
    rw [List.cons_append] at hv
    rw [invisCount_cons, invisCount_append] at hv ⊢
    simp only [List.length_cons, List.length_append] at hv
    refine Prod.ext ?_ (Prod.ext ?_ ?_) <;> simp only [] <;> omega
  · rw [if_neg h0]
    have : s = 0 := by omega
    subst this
    simp [visCount, invisCount]

/-- the walk to row `e` (definition levels present) -/
theorem walkEnd_spec (rows : List (List (Ent α))) (hr : ∀ r ∈ rows, IsRow r) (s e : Nat) (hse : s < e)
    (he : e ≤ rows.length) (total : Nat) :
    walkEnd true rows.flatten total ⟨s, e⟩
        (visCount (rows.take s).flatten, (rows.take s).flatten.length, invisCount (rows.take s).flatten) =
      (visCount (rows.take s).flatten + visCount ((rows.drop s).take (e - s)).flatten,
       (rows.take s).flatten.length + ((rows.drop s).take (e - s)).flatten.length) := by
  unfold walkEnd
  simp only [Bool.not_true, Bool.false_and, Bool.false_eq_true, if_false]
  obtain ⟨es, tls, rests, hdrop, hss, hns⟩ :=
    head_flatten_rows (rows.drop s) (fun r h => hr r (List.mem_of_mem_drop h))
      (by intro h; have := congrArg List.length h; simp at this; omega)
  have hrest : ∀ x ∈ rests, IsRow x := by
    intro x hx
    apply hr x
    apply List.mem_of_mem_drop (i := s)
    rw [hdrop]; simp [hx]
  have hbody : rows.flatten = (rows.take s).flatten ++ ((es :: tls) ++ rests.flatten) := by
    rw [flatten_take_drop rows s, hdrop]; simp
  have hd0 : (rows.flatten).drop (rows.take s).flatten.length = (es :: tls) ++ rests.flatten := by
    rw [hbody, List.drop_left]
  have hd1 : (rows.flatten).drop ((rows.take s).flatten.length + 1) = tls ++ rests.flatten := by
    rw [← List.drop_drop, hd0]; rfl
  obtain ⟨k, hk⟩ : ∃ k, e - s = k + 1 := ⟨e - s - 1, by omega⟩
  have hrl : rests.length + 1 + s = rows.length := by
    have := congrArg List.length hdrop
    simp at this; omega
  simp only [hd0, hd1, List.cons_append, headInvis_cons, hk, Nat.add_sub_cancel]
  rw [posOfStart_skip k tls _ _ _ hns, posOfStart_rows k rests _ _ hrest]
  have hB : ((rows.drop s).take (k + 1)).flatten = (es :: tls) ++ (rests.take k).flatten := by
    rw [hdrop]; simp
  rw [hB]
  have hvA := vis_add_invis (rows.take s).flatten
  by_cases hkl : k < rests.length
  · rw [if_pos hkl]
    have hv := vis_add_invis ((es :: tls) ++ (rests.take k).flatten)
    rw [List.cons_append] at hv ⊢
    rw [invisCount_cons, invisCount_append] at hv
    simp only [List.length_cons, List.length_append] at hv ⊢
    refine Prod.ext ?_ ?_ <;> simp only [] <;> omega
  · rw [if_neg hkl]
    have htk : rests.take k = rests := List.take_of_length_le (by omega)
    rw [htk]
    have hv := vis_add_invis ((es :: tls) ++ rests.flatten)
    rw [List.cons_append] at hv ⊢
    rw [invisCount_cons, invisCount_append] at hv
    rw [hbody, invisCount_append]
    simp only [List.length_cons, List.length_append, List.cons_append] at hv ⊢
    refine Prod.ext ?_ ?_ <;> simp only [] <;> omega

theorem firstRowStart_spec (pre : List (Ent α)) (rows : List (List (Ent α))) (hp : NoStart pre)
    (hr : ∀ r ∈ rows, IsRow r) (act : Pre) (ha : act = .absent → pre = []) :
    firstRowStart act (pre ++ rows.flatten) =
      if act = .absent ∨ 0 < rows.length then some (pre.length, visCount pre) else none := by
  unfold firstRowStart
  by_cases h : act = .absent
  · rw [if_pos h, if_pos (Or.inl h), ha h]; rfl
  · rw [if_neg h, posOfStart_skip 0 pre _ 0 0 hp, posOfStart_rows 0 rows _ _ hr]
    have hvp : pre.length - invisCount pre = visCount pre := by have := vis_add_invis pre; omega
    by_cases hl : 0 < rows.length
    · rw [if_pos hl, if_pos (Or.inr hl)]
      simp [invisCount_nil]
      omega
    · rw [if_neg hl, if_neg (by intro hh; cases hh with | inl a => exact h a | inr b => exact hl b)]
      rfl

/-- **`map_range` is correct on every well-formed chunk.**  `c = pre ++ rows.flatten` (a preamble without row
    starts — empty when the action is `Absent` — then rows that each begin with their only start).  For a row
    range `s..e` of the chunk's own rows the level range is exactly the levels of those rows, the item range
    exactly their visible slots; with `PreambleAction::Take` (then `s = 0`, and `e = 0` is allowed) both ranges
    start at 0 and include the preamble; with `Skip` they are shifted past it. -/
theorem mapRange_spec (pre : List (Ent α)) (rows : List (List (Ent α))) (hp : NoStart pre)
    (hr : ∀ r ∈ rows, IsRow r) (s e : Nat) (hse : s ≤ e) (he : e ≤ rows.length) (act : Pre)
    (ha1 : act = .absent → pre = []) (ha2 : act = .take → s = 0) (ha3 : act ≠ .take → s < e) :
    mapRange true ⟨s, e⟩ (pre ++ rows.flatten) (chunkValues (pre ++ rows.flatten)).length act =
      if act = .take then
        (⟨0, visCount pre + visCount ((rows.drop s).take (e - s)).flatten⟩,
         ⟨0, pre.length + ((rows.drop s).take (e - s)).flatten.length⟩)
      else
        (⟨visCount pre + visCount (rows.take s).flatten,
          visCount pre + visCount (rows.take s).flatten + visCount ((rows.drop s).take (e - s)).flatten⟩,
         ⟨pre.length + (rows.take s).flatten.length,
          pre.length + (rows.take s).flatten.length + ((rows.drop s).take (e - s)).flatten.length⟩) := by
  unfold mapRange
  rw [firstRowStart_spec pre rows hp hr act ha1]
  by_cases hrows : 0 < rows.length
  · rw [if_pos (Or.inr hrows)]
    simp only []
    by_cases hsee : s = e
    · have hact : act = .take := by
        cases act with
        | take => rfl
        | absent => exact absurd (ha3 (by simp)) (by omega)
        | skip => exact absurd (ha3 (by simp)) (by omega)
      subst hact
      have hs0 : s = 0 := ha2 rfl
      subst hs0; subst hsee
      simp [visCount]
    · rw [if_neg hsee]
      have hlt : s < e := by omega
      have hd : (pre ++ rows.flatten).drop pre.length = rows.flatten := by simp
      rw [hd, walkStart_spec rows hr s (by omega), walkEnd_spec rows hr s e hlt he]
      cases act with
      | take =>
        have hs0 : s = 0 := ha2 rfl
        subst hs0
        simp [visCount, Nat.add_comm]
      | skip => simp; omega
      | absent =>
        have := ha1 rfl
        subst this
        simp [visCount]
  · have hnil : rows = [] := List.eq_nil_of_length_eq_zero (by omega)
    subst hnil
    have he0 : e = 0 := by simpa using he
    have hs0 : s = 0 := by omega
    subst he0; subst hs0
    cases act with
    | absent => exact absurd (ha3 (by simp)) (by omega)
    | skip => exact absurd (ha3 (by simp)) (by omega)
    | take =>
      simp [chunkValues_length, visCount]

/-- what a drain instruction copies out of a chunk: the preamble when it is taken, then the rows `s..e` -/
def selRows (pre : List (Ent α)) (rows : List (List (Ent α))) (act : Pre) (s e : Nat) : List (Ent α) :=
  (if act = .take then pre else []) ++ ((rows.drop s).take (e - s)).flatten

/-- `map_range` + the two `slice`s of `DecodeMiniBlockTask::decode`: the levels appended are exactly the selected
    levels and the values appended are exactly their visible slots -/
theorem mapRange_select (pre : List (Ent α)) (rows : List (List (Ent α))) (hp : NoStart pre)
    (hr : ∀ r ∈ rows, IsRow r) (s e : Nat) (hse : s ≤ e) (he : e ≤ rows.length) (act : Pre)
    (ha1 : act = .absent → pre = []) (ha2 : act = .take → s = 0) (ha3 : act ≠ .take → s < e) :
    let c := pre ++ rows.flatten
    let m := mapRange true ⟨s, e⟩ c (chunkValues c).length act
    slice c m.2 = selRows pre rows act s e ∧ slice (chunkValues c) m.1 = chunkValues (selRows pre rows act s e) := by
  intro c m
  have hm : m = _ := mapRange_spec pre rows hp hr s e hse he act ha1 ha2 ha3
  have hsplit : rows.flatten = (rows.take s).flatten ++ ((rows.drop s).take (e - s)).flatten
      ++ ((rows.drop s).drop (e - s)).flatten := by
    rw [List.append_assoc, ← List.flatten_append, List.take_append_drop, ← flatten_take_drop]
  by_cases hact : act = .take
  · have hs0 : s = 0 := ha2 hact
    subst hs0
    rw [if_pos hact] at hm
    simp only [selRows, hact, if_true]
    rw [hm]
    simp only [List.take_zero, List.flatten_nil, List.nil_append, List.drop_zero, Nat.sub_zero] at hsplit ⊢
    constructor
    · show slice (pre ++ rows.flatten) _ = _
      rw [hsplit, ← List.append_assoc]
      have := slice_mid' [] (pre ++ (rows.take e).flatten) (rows.drop e).flatten 0
        (pre.length + (rows.take e).flatten.length) rfl (by simp)
      simpa using this
    · show slice (chunkValues (pre ++ rows.flatten)) _ = _
      rw [hsplit, ← List.append_assoc, chunkValues_append]
      have := slice_mid' [] (chunkValues (pre ++ (rows.take e).flatten)) (chunkValues (rows.drop e).flatten) 0
        (visCount pre + visCount (rows.take e).flatten) rfl
        (by simp [chunkValues_length, visCount_append])
      simpa using this
  · rw [if_neg hact] at hm
    simp only [selRows, hact, if_false, List.nil_append]
    rw [hm]
    constructor
    · show slice (pre ++ rows.flatten) _ = _
      rw [hsplit, ← List.append_assoc, ← List.append_assoc]
      exact slice_mid' (pre ++ (rows.take s).flatten) _ _ _ _ (by simp) (by simp)
    · show slice (chunkValues (pre ++ rows.flatten)) _ = _
      rw [hsplit, ← List.append_assoc, ← List.append_assoc, chunkValues_append, chunkValues_append]
      exact slice_mid' (chunkValues (pre ++ (rows.take s).flatten)) _ _ _ _
        (by simp [chunkValues_length, visCount_append]) (by simp [chunkValues_length, visCount_append])

end LanceModel.C25
