import LanceModel.C25.ReadLemmas
import LanceModel.C25.MapRangeLemmas
import LanceModel.C25.SchedLemmas
import LanceModel.C25.RepIndexLemmas
import LanceModel.C25.EndToEnd
import LanceModel.C25.Spanning
/-!
# C25 — property theorems

"Any Arrow data the file writer accepts, written with any supported file version, page size, compression
setting and structural-encoding choice, reads back equal (values, validity, list/struct structure …) for a full
read, any sub-range, any set of ranges, any sorted row-index list, any projection and any batch size, and the
file's row count and schema match what was written."

What is proved here is the layer between the codecs (C26), the rep/def levels (C27) and the I/O scheduler
(C30): rows → pages → (mini-block chunks, `MiniBlockProps`) → batches, for every page layout, request,
projection and batch size.  A row of a leaf column is an opaque value: what a page stores for one top-level
row.  Everything is about the model in `Model.lean` / `MiniBlock.lean`; the tie to
`lance-file/src/reader.rs`, `lance-encoding/src/decoder.rs` and `…/logical/primitive.rs` is the
correspondence run of `./check C25`, the property oracle of the harness compares the real reader's output with
the written data directly.
-/
namespace LanceModel.C25

variable {α : Type}

/-- the file stores the logical columns `logical`: every column's pages, concatenated, are that column
    (ANY cut into pages), and the footer's row count is the common column length -/
def File.Stores (f : File α) (logical : List (List α)) : Prop :=
  f.cols.map List.flatten = logical ∧ ∀ c ∈ logical, c.length = f.numRows

/-- the documented preconditions of a read request on a file with `n` rows: bounds (`read_tasks` rejects
    anything else, see `read_rejects`), ranges sorted and non-overlapping after dropping empty ones
    (`Chained` is weaker: a range may start on the last row of its predecessor), indices sorted (repeats
    allowed) -/
def Req.Valid (n : Nat) : Req → Prop
  | .range s e => s ≤ e ∧ e ≤ n
  | .ranges rs => Chained (trimEmpty rs) ∧ ∀ r ∈ rs, r.e ≤ n
  | .indices is => List.Pairwise (· ≤ ·) is ∧ ∀ i ∈ is, i < n
  | .full => True
  | .rangeTo e => e ≤ n
  | .rangeFrom s => s < n

/-- the rows a request denotes on a logical column: the specification -/
def Req.rows (col : List α) : Req → List α
  | .range s e => slice col ⟨s, e⟩
  | .ranges rs => rs.flatMap (slice col)
  | .indices is => is.filterMap (fun i => col[i]?)
  | .full => col
  | .rangeTo e => col.take e
  | .rangeFrom s => col.drop s

/-- a list cut into batches of `bs` rows (the last one shorter, none empty) -/
def chunks (bs : Nat) (l : List α) : List (List α) := chunksOf bs l.length l

theorem sorted_disjoint_chained (rs : List Rg) (hne : ∀ r ∈ rs, r.s < r.e)
    (hs : List.Pairwise (fun a b => a.e ≤ b.s) rs) : Chained rs := by
  induction rs with
  | nil => trivial
  | cons r t ih =>
    have iht := ih (fun x hx => hne x (by simp [hx])) (List.pairwise_cons.mp hs).2
    cases t with
    | nil => exact hne r (by simp)
    | cons b t' =>
      exact ⟨hne r (by simp), by have := (List.pairwise_cons.mp hs).1 b (by simp); omega, iht⟩

private theorem projCols_get (cols : List (List (List α))) (proj : List Nat)
    (h : ∀ i ∈ proj, i < cols.length) :
    (projCols cols proj).length = proj.length ∧
    ∀ (k : Nat) (hk : k < proj.length) (hk' : k < (projCols cols proj).length),
      cols[proj[k]]? = some (projCols cols proj)[k] := by
  induction proj with
  | nil => exact ⟨rfl, fun k hk => by cases hk⟩
  | cons i t ih =>
    have hi := h i (by simp)
    obtain ⟨l1, l2⟩ := ih (fun x hx => h x (by simp [hx]))
    have e : projCols cols (i :: t) = cols[i] :: projCols cols t := by
      simp [projCols, List.getElem?_eq_getElem hi]
    refine ⟨by rw [e]; simp [l1], ?_⟩
    intro k hk hk'
    cases k with
    | zero => simp [e, List.getElem?_eq_getElem hi]
    | succ k =>
      simp only [e, List.getElem_cons_succ]
      exact l2 k (by simpa using hk) (by rw [e] at hk'; simpa using hk')

private theorem validProj_bounds {n : Nat} {proj : List Nat} (h : validProj n proj = true) :
    (∀ i ∈ proj, i < n) ∧ proj ≠ [] := by
  simp only [validProj, Bool.and_eq_true, List.all_eq_true, decide_eq_true_eq, Bool.not_eq_true',
    List.isEmpty_eq_false_iff] at h
  exact ⟨h.1.2, h.1.1⟩

/-- what `requested` hands to the scheduler denotes the request's rows -/
private theorem requested_spec (N : Nat) (req : Req) (hv : req.Valid N) (col : List α) (hc : col.length = N) :
    ∃ rs n, requested N req = .ok (rs, n) ∧ Chained (trimEmpty rs) ∧ (∀ r ∈ rs, r.e ≤ N)
      ∧ n = numRows rs ∧ rs.flatMap (slice col) = req.rows col := by
  cases req with
  | range s e =>
    obtain ⟨h1, h2⟩ := hv
    refine ⟨[⟨s, e⟩], e - s, by simp [requested]; omega, ?_, by simp; omega, by simp [numRows, Rg.len], by simp [Req.rows]⟩
    by_cases h : s < e
    · simp [trimEmpty, h, Chained]
    · simp [trimEmpty, h, Chained]
  | ranges rs =>
    obtain ⟨h1, h2⟩ := hv
    refine ⟨rs, numRows rs, ?_, h1, h2, rfl, rfl⟩
    simp only [requested]
    rw [if_neg]
    simp only [List.any_eq_true, decide_eq_true_eq, not_exists, not_and]
    intro r hr; have := h2 r hr; omega
  | indices is =>
    obtain ⟨h1, h2⟩ := hv
    have hch := indicesToRanges_chained is h1
    refine ⟨indicesToRanges is, is.length, ?_, by rw [trimEmpty_of_chained hch]; exact hch,
      indicesToRanges_bound N is h2, (indicesToRanges_numRows is).symm, ?_⟩
    · simp only [requested]
      rw [if_neg]
      simp only [List.any_eq_true, decide_eq_true_eq, not_exists, not_and]
      intro i hi; have := h2 i hi; omega
    · exact indicesToRanges_rows col is (by rw [hc]; exact h2)
  | full =>
    refine ⟨[⟨0, N⟩], N, rfl, ?_, by simp, by simp [numRows, Rg.len], ?_⟩
    · by_cases h : 0 < N
      · simp [trimEmpty, h, Chained]
      · simp [trimEmpty, h, Chained]
    · simp [Req.rows, slice, ← hc]
  | rangeTo e =>
    have h : e ≤ N := hv
    refine ⟨[⟨0, e⟩], e, by simp [requested]; omega, ?_, by simp; omega, by simp [numRows, Rg.len], ?_⟩
    · by_cases h' : 0 < e
      · simp [trimEmpty, h', Chained]
      · simp [trimEmpty, h', Chained]
    · simp [Req.rows, slice]
  | rangeFrom s =>
    have h : s < N := hv
    refine ⟨[⟨s, N⟩], N - s, by simp [requested]; omega, ?_, by simp, by simp [numRows, Rg.len], ?_⟩
    · simp [trimEmpty, h, Chained]
    · simp only [Req.rows, slice, List.flatMap_cons, List.flatMap_nil, List.append_nil]
      rw [List.take_of_length_le (by simp; omega)]

/-- **Main theorem (`read_ranges`, `read_indices`, full / prefix / suffix reads, every batch size, every
    projection, every page layout).**  If the file stores `logical` — whatever the cut into pages — then every
    valid request with batch size `bs ≥ 1` and projection `proj` succeeds, every batch has one array per
    projected column, and column `k` of the batches is exactly the requested rows of logical column `proj[k]`
    cut into batches of `bs` rows. -/
theorem read_request (f : File α) (logical : List (List α)) (hst : f.Stores logical)
    (req : Req) (hv : req.Valid f.numRows) (bs : Nat) (hbs : 0 < bs)
    (proj : List Nat) (hp : validProj f.cols.length proj = true) :
    ∃ batches, readFile f req bs proj = .ok batches
      ∧ (∀ b ∈ batches, b.length = proj.length)
      ∧ ∀ (k : Nat) (hk : k < proj.length), ∃ col, logical[proj[k]]? = some col
          ∧ batches.map (fun b => b[k]?) = (chunks bs (req.rows col)).map some := by
  obtain ⟨hst1, hst2⟩ := hst
  obtain ⟨hpb, hpne⟩ := validProj_bounds hp
  obtain ⟨pl, pg⟩ := projCols_get f.cols proj hpb
  have hcols : ∀ c ∈ projCols f.cols proj, c.flatten.length = f.numRows := by
    intro c hc
    simp only [projCols, List.mem_filterMap] at hc
    obtain ⟨i, _, hi⟩ := hc
    have hm : c ∈ f.cols := List.mem_of_getElem? hi
    apply hst2
    rw [← hst1]
    exact List.mem_map_of_mem hm
  -- a column to instantiate `requested_spec` with: the first projected one
  have hk0 : 0 < proj.length := List.length_pos_iff.mpr hpne
  have hk0' : 0 < (projCols f.cols proj).length := by omega
  obtain ⟨rs, n, e1, e2, e3, e4, _⟩ := requested_spec f.numRows req hv (projCols f.cols proj)[0].flatten
    (hcols _ (List.getElem_mem hk0'))
  obtain ⟨out, o1, ow, o2⟩ := readRows_spec (projCols f.cols proj) rs n bs hbs e2 f.numRows hcols e3 e4
  refine ⟨out, ?_, (fun b hb => by rw [ow b hb, pl]), ?_⟩
  · simp only [readFile, hp, Bool.not_true, Bool.false_eq_true, if_false, e1, o1]
  · intro k hk
    have hk' : k < (projCols f.cols proj).length := by omega
    have hg := pg k hk hk'
    refine ⟨(projCols f.cols proj)[k].flatten, ?_, ?_⟩
    · rw [← hst1, List.getElem?_map, hg]; rfl
    · obtain ⟨rs', n', e1', _, _, e4', e5'⟩ := requested_spec f.numRows req hv (projCols f.cols proj)[k].flatten
        (hcols _ (List.getElem_mem hk'))
      rw [e1] at e1'
      injection e1' with e1'
      injection e1' with h1 h2
      subst h1; subst h2
      rw [o2 k hk', e5']
      unfold chunks
      rw [← e5', rows_length _ rs (by rw [hcols _ (List.getElem_mem hk')]; exact e3), ← e4]

theorem colOf_eq (batches : List (List (List α))) (k : Nat) (pieces : List (List α))
    (h : batches.map (fun b => b[k]?) = pieces.map some) : colOf batches k = pieces.flatten := by
  induction batches generalizing pieces with
  | nil =>
    cases pieces with
    | nil => rfl
    | cons a t => simp at h
  | cons b t ih =>
    cases pieces with
    | nil => simp at h
    | cons a t' =>
      simp only [List.map_cons, List.cons.injEq] at h
      simp only [colOf, List.flatMap_cons, List.flatten_cons, h.1, Option.getD_some]
      congr 1
      exact ih t' h.2

theorem chunks_flatten (bs : Nat) (hbs : 0 < bs) (l : List α) : (chunks bs l).flatten = l :=
  chunksOf_flatten bs hbs l.length l (Nat.le_refl _)

/-- `batches_concat`: for every batch size `bs ≥ 1` the batches of a read, concatenated, are the requested
    rows — for every valid request, page layout and projection -/
theorem batches_concat (f : File α) (logical : List (List α)) (hst : f.Stores logical)
    (req : Req) (hv : req.Valid f.numRows) (bs : Nat) (hbs : 0 < bs)
    (proj : List Nat) (hp : validProj f.cols.length proj = true) :
    ∃ batches, readFile f req bs proj = .ok batches
      ∧ ∀ (k : Nat) (hk : k < proj.length), ∃ col, logical[proj[k]]? = some col
          ∧ colOf batches k = req.rows col := by
  obtain ⟨batches, e1, _, e3⟩ := read_request f logical hst req hv bs hbs proj hp
  refine ⟨batches, e1, ?_⟩
  intro k hk
  obtain ⟨col, c1, c2⟩ := e3 k hk
  exact ⟨col, c1, by rw [colOf_eq batches k _ c2, chunks_flatten bs hbs]⟩

/-- `read_ranges`: for every page layout and every list of row ranges (sorted, non-overlapping once the empty
    ones are dropped, within the file): `readRanges file rs = rs.flatMap (slice logical)` -/
theorem read_ranges (f : File α) (logical : List (List α)) (hst : f.Stores logical)
    (rs : List Rg) (hch : Chained (trimEmpty rs)) (hb : ∀ r ∈ rs, r.e ≤ f.numRows)
    (bs : Nat) (hbs : 0 < bs) (proj : List Nat) (hp : validProj f.cols.length proj = true) :
    ∃ batches, readFile f (.ranges rs) bs proj = .ok batches
      ∧ ∀ (k : Nat) (hk : k < proj.length), ∃ col, logical[proj[k]]? = some col
          ∧ colOf batches k = rs.flatMap (slice col) :=
  batches_concat f logical hst (.ranges rs) ⟨hch, hb⟩ bs hbs proj hp

/-- `read_indices`: a sorted index list (repeats allowed) returns exactly those rows, in that order -/
theorem read_indices (f : File α) (logical : List (List α)) (hst : f.Stores logical)
    (is : List Nat) (hs : List.Pairwise (· ≤ ·) is) (hb : ∀ i ∈ is, i < f.numRows)
    (bs : Nat) (hbs : 0 < bs) (proj : List Nat) (hp : validProj f.cols.length proj = true) :
    ∃ batches, readFile f (.indices is) bs proj = .ok batches
      ∧ ∀ (k : Nat) (hk : k < proj.length), ∃ col, logical[proj[k]]? = some col
          ∧ colOf batches k = is.filterMap (fun i => col[i]?)
          ∧ (colOf batches k).length = is.length := by
  obtain ⟨batches, e1, e2⟩ := batches_concat f logical hst (.indices is) ⟨hs, hb⟩ bs hbs proj hp
  refine ⟨batches, e1, ?_⟩
  intro k hk
  obtain ⟨col, c1, c2⟩ := e2 k hk
  refine ⟨col, c1, c2, ?_⟩
  rw [c2]
  have hcl : col.length = f.numRows := hst.2 col (List.mem_of_getElem? c1)
  simp only [Req.rows]
  have : ∀ (l : List Nat), (∀ i ∈ l, i < col.length) → (l.filterMap (fun i => col[i]?)).length = l.length := by
    intro l hl
    induction l with
    | nil => rfl
    | cons a t ih =>
      have ha := hl a (by simp)
      simp [List.getElem?_eq_getElem ha, ih (fun x hx => hl x (by simp [hx]))]
  exact this is (by rw [hcl]; exact hb)

/-- batch shape: every batch is non-empty and has at most `bs` rows; only the last may have fewer -/
theorem chunksOf_sizes (bs : Nat) (hbs : 0 < bs) (fuel : Nat) (l : List α) (hf : l.length ≤ fuel) :
    (∀ x ∈ chunksOf bs fuel l, 0 < x.length ∧ x.length ≤ bs)
    ∧ (∀ x ∈ (chunksOf bs fuel l).dropLast, x.length = bs) := by
  induction fuel generalizing l with
  | zero => exact ⟨(fun x hx => by cases hx), (fun x hx => by cases hx)⟩
  | succ k ih =>
    unfold chunksOf
    by_cases h : l = []
    · rw [if_pos h]; exact ⟨(fun x hx => by cases hx), (fun x hx => by cases hx)⟩
    · rw [if_neg h]
      have hpos : 0 < l.length := List.length_pos_iff.mpr h
      obtain ⟨i1, i2⟩ := ih (l.drop bs) (by simp only [List.length_drop]; omega)
      refine ⟨?_, ?_⟩
      · intro x hx
        cases hx with
        | head => simp only [List.length_take]; omega
        | tail _ hx' => exact i1 x hx'
      · intro x hx
        cases hrest : chunksOf bs k (l.drop bs) with
        | nil => rw [hrest] at hx; simp at hx
        | cons y t =>
          rw [hrest, List.dropLast_cons_cons] at hx
          cases hx with
          | head =>
            -- a further batch exists, so more than `bs` rows were pending
            have hy : y ∈ chunksOf bs k (l.drop bs) := by rw [hrest]; simp
            have hne : l.drop bs ≠ [] := by
              intro hnil
              rw [hnil] at hy
              cases k with
              | zero => cases hy
              | succ k' => simp [chunksOf] at hy
            have : 0 < (l.drop bs).length := List.length_pos_iff.mpr hne
            simp only [List.length_drop] at this
            simp only [List.length_take]; omega
          | tail _ hx' =>
            apply i2; rw [hrest]; exact hx'

theorem batch_sizes (bs : Nat) (hbs : 0 < bs) (l : List α) :
    (∀ x ∈ chunks bs l, 0 < x.length ∧ x.length ≤ bs) ∧ (∀ x ∈ (chunks bs l).dropLast, x.length = bs) :=
  chunksOf_sizes bs hbs l.length l (Nat.le_refl _)

/-- `projection`: reading a sub-schema (any selection / reordering `proj` of the leaf columns) = projecting the
    read of the whole schema -/
theorem projection (f : File α) (logical : List (List α)) (hst : f.Stores logical)
    (req : Req) (hv : req.Valid f.numRows) (bs : Nat) (hbs : 0 < bs)
    (proj : List Nat) (hp : validProj f.cols.length proj = true) :
    ∃ sub whole, readFile f req bs proj = .ok sub
      ∧ readFile f req bs (List.range f.cols.length) = .ok whole
      ∧ ∀ (k : Nat) (hk : k < proj.length),
          sub.map (fun b => b[k]?) = whole.map (fun b => b[proj[k]]?) := by
  obtain ⟨hpb, hpne⟩ := validProj_bounds hp
  have hn : 0 < f.cols.length := by
    cases proj with
    | nil => exact absurd rfl hpne
    | cons a t => have := hpb a (by simp); omega
  have hw : validProj f.cols.length (List.range f.cols.length) = true := by
    have hne : List.range f.cols.length ≠ [] := by
      intro h; rw [List.range_eq_nil] at h; omega
    simp [validProj, List.nodup_range, hne]
  obtain ⟨sub, s1, _, s3⟩ := read_request f logical hst req hv bs hbs proj hp
  obtain ⟨whole, w1, _, w3⟩ := read_request f logical hst req hv bs hbs _ hw
  refine ⟨sub, whole, s1, w1, ?_⟩
  intro k hk
  have hpk : proj[k] < f.cols.length := hpb _ (List.getElem_mem hk)
  obtain ⟨col, c1, c2⟩ := s3 k hk
  obtain ⟨col', c1', c2'⟩ := w3 proj[k] (by simpa using hpk)
  simp only [List.getElem_range] at c1'
  rw [c1] at c1'
  injection c1' with hcc
  subst hcc
  rw [c2, c2']

private theorem batches_ext (w : Nat) (hw : 0 < w) (a b : List (List (List α)))
    (ha : ∀ x ∈ a, x.length = w) (hb : ∀ x ∈ b, x.length = w)
    (h : ∀ k, k < w → a.map (fun x => x[k]?) = b.map (fun x => x[k]?)) : a = b := by
  induction a generalizing b with
  | nil =>
    have := h 0 hw
    cases b with
    | nil => rfl
    | cons y t => simp at this
  | cons x t ih =>
    cases b with
    | nil => have := h 0 hw; simp at this
    | cons y t' =>
      have hx := ha x (by simp)
      have hy := hb y (by simp)
      have hxy : x = y := by
        apply List.ext_getElem?
        intro k
        by_cases hk : k < w
        · have := h k hk
          simp only [List.map_cons, List.cons.injEq] at this
          exact this.1
        · rw [List.getElem?_eq_none (by omega), List.getElem?_eq_none (by omega)]
      rw [hxy, ih t' (fun z hz => ha z (by simp [hz])) (fun z hz => hb z (by simp [hz]))]
      intro k hk
      have := h k hk
      simp only [List.map_cons, List.cons.injEq] at this
      exact this.2

/-- `page_split_irrelevant`: two files that store the same logical columns — with different page boundaries —
    answer every valid request identically -/
theorem page_split_irrelevant (f g : File α) (logical : List (List α))
    (hf : f.Stores logical) (hg : g.Stores logical) (hn : f.numRows = g.numRows)
    (req : Req) (hv : req.Valid f.numRows) (bs : Nat) (hbs : 0 < bs)
    (proj : List Nat) (hp : validProj f.cols.length proj = true) :
    ∃ batches, readFile f req bs proj = .ok batches ∧ readFile g req bs proj = .ok batches := by
  have hlen : f.cols.length = g.cols.length := by
    have := congrArg List.length (hf.1.trans hg.1.symm); simpa using this
  obtain ⟨hpb, hpne⟩ := validProj_bounds hp
  obtain ⟨a, a1, a2, a3⟩ := read_request f logical hf req hv bs hbs proj hp
  obtain ⟨b, b1, b2, b3⟩ := read_request g logical hg req (hn ▸ hv) bs hbs proj (hlen ▸ hp)
  refine ⟨a, a1, ?_⟩
  rw [b1]
  congr 1
  apply batches_ext proj.length (List.length_pos_iff.mpr hpne) b a b2 a2
  intro k hk
  obtain ⟨c, c1, c2⟩ := a3 k hk
  obtain ⟨c', c1', c2'⟩ := b3 k hk
  rw [c1] at c1'
  injection c1' with hcc
  subst hcc
  rw [c2, c2']

/-- requests outside the file are rejected by `read_tasks` (`verify_bound`), empty or repeating projections by
    `validate_projection` -/
theorem read_rejects (f : File α) (bs : Nat) (proj : List Nat) :
    (validProj f.cols.length proj = false → ∀ req, readFile f req bs proj = .error .invalidInput)
    ∧ (validProj f.cols.length proj = true →
        (∀ s e, e > f.numRows → readFile f (.range s e) bs proj = .error .invalidInput)
      ∧ (∀ rs, (∃ r ∈ rs, r.e > f.numRows) → readFile f (.ranges rs) bs proj = .error .invalidInput)
      ∧ (∀ is, (∃ i ∈ is, i ≥ f.numRows) → readFile f (.indices is) bs proj = .error .invalidInput)
      ∧ (∀ e, e > f.numRows → readFile f (.rangeTo e) bs proj = .error .invalidInput)
      ∧ (∀ s, s ≥ f.numRows → readFile f (.rangeFrom s) bs proj = .error .invalidInput)) := by
  refine ⟨fun h req => by simp [readFile, h], fun h => ⟨?_, ?_, ?_, ?_, ?_⟩⟩
  · intro s e he; simp [readFile, h, requested, he]
  · intro rs ⟨r, hr, he⟩
    have : rs.any (fun r => decide (r.e > f.numRows)) = true := by
      simp only [List.any_eq_true, decide_eq_true_eq]; exact ⟨r, hr, he⟩
    simp [readFile, h, requested, this]
  · intro is ⟨i, hi, he⟩
    have : is.any (fun i => decide (i ≥ f.numRows)) = true := by
      simp only [List.any_eq_true, decide_eq_true_eq]; exact ⟨i, hi, he⟩
    simp [readFile, h, requested, this]
  · intro e he; simp [readFile, h, requested, he]
  · intro s hs; simp [readFile, h, requested, hs]

/-! ## the writer: row count, and "any cut into pages" is what a written file looks like -/

/-- the logical columns of a sequence of written batches -/
def logicalOf (ncols : Nat) (batches : List (List (List α))) : List (List α) :=
  (List.range ncols).map (fun c => batches.flatMap (fun b => b[c]?.getD []))

/-- every batch has `ncols` arrays of one common length (`RecordBatch` invariant) -/
def Rect (ncols : Nat) (batches : List (List (List α))) : Prop :=
  ∀ b ∈ batches, b.length = ncols ∧ ∀ c ∈ b, c.length = (b.head?.getD []).length

/-- `row_count`: whatever page sizes the column writers choose, the written file stores the concatenation of
    the batches column by column and its footer row count is the number of rows written -/
theorem row_count (ncols : Nat) (batches : List (List (List α))) (hr : Rect ncols batches)
    (cuts : List (List Nat)) :
    (writeFile ncols batches cuts).Stores (logicalOf ncols batches)
    ∧ (writeFile ncols batches cuts).numRows = (batches.map (fun b => (b.head?.getD []).length)).sum := by
  refine ⟨⟨?_, ?_⟩, rfl⟩
  · simp only [writeFile, logicalOf, List.map_map]
    apply List.map_congr_left
    intro c _
    simp [splitBy_flatten]
  · intro col hcol
    simp only [logicalOf, List.mem_map, List.mem_range] at hcol
    obtain ⟨c, hc, rfl⟩ := hcol
    simp only [writeFile]
    induction batches with
    | nil => rfl
    | cons b t ih =>
      obtain ⟨hb1, hb2⟩ := hr b (by simp)
      have hcb : c < b.length := by omega
      simp only [List.flatMap_cons, List.length_append, List.map_cons, List.sum_cons]
      rw [ih (fun x hx => hr x (by simp [hx]))]
      congr 1
      rw [List.getElem?_eq_getElem hcb]
      exact hb2 _ (List.getElem_mem hcb)

/-! ## non-vacuity: concrete inputs satisfy the hypotheses, and the model really computes the answers -/

/-- two columns of 7 rows, cut into pages 3+4 and 2+2+3 -/
def exFile : File Nat := ⟨[[[10, 11, 12], [13, 14, 15, 16]], [[20, 21], [22, 23], [24, 25, 26]]], 7⟩
def exLogical : List (List Nat) := [[10, 11, 12, 13, 14, 15, 16], [20, 21, 22, 23, 24, 25, 26]]

example : exFile.Stores exLogical := by unfold File.Stores; decide
example : (Req.ranges [⟨1, 4⟩, ⟨4, 4⟩, ⟨5, 7⟩]).Valid exFile.numRows := by
  refine ⟨by simp [trimEmpty, Chained], by decide⟩
example : (Req.indices [0, 2, 2, 3, 6]).Valid exFile.numRows := by
  refine ⟨by decide, by decide⟩
example : validProj exFile.cols.length [1, 0] = true := by decide
example : readFile exFile (.ranges [⟨1, 4⟩, ⟨4, 4⟩, ⟨5, 7⟩]) 2 [1, 0]
    = .ok [[[21, 22], [11, 12]], [[23, 25], [13, 15]], [[26], [16]]] := by rfl
example : readFile exFile (.indices [0, 2, 2, 3, 6]) 3 [0]
    = .ok [[[10, 12, 12]], [[13, 16]]] := by rfl
example : readFile exFile (.range 0 8) 3 [0] = .error .invalidInput := by rfl
example : readFile exFile .full 3 [] = .error .invalidInput := by rfl
example : Rect 2 [[[1, 2], [3, 4]], [[5], [6]]] := by unfold Rect; decide
example : (writeFile 2 [[[1, 2], [3, 4]], [[5], [6]]] [[1], [2, 1]]) = ⟨[[[1], [2, 5]], [[3, 4], [6]]], 3⟩ := by rfl
/-- the hypothesis `Chained` is needed: with overlapping ranges the page scheduler serves the wrong rows (a second
    range that starts before the page in progress is clamped to it: only row 13 is scheduled for `1..4`), and the
    decoder then runs out of rows -/
example : readFile exFile (.ranges [⟨0, 5⟩, ⟨1, 4⟩]) 8 [0] = .error .panic := by rfl
example : scanLines [[10, 11, 12], [13, 14, 15, 16]] [⟨0, 5⟩, ⟨1, 4⟩] = some [3, 3] := by rfl

/-! ## "any set of ranges", read literally

`DecodeBatchScheduler::schedule_ranges` documents "Ranges must be non-overlapping and in sorted order"; the
property's "any set of ranges" is proved above under exactly that precondition (`read_ranges`, hypothesis
`Chained (trimEmpty rs)`).  Without it the statement is false for the code as it is: -/

/-- the round-trip statement for EVERY list of in-bounds ranges, in any order, overlapping or not -/
def RangesAnyOrder_full : Prop :=
  ∀ (f : File Nat) (logical : List (List Nat)), f.Stores logical →
  ∀ (rs : List Rg), (∀ r ∈ rs, r.s ≤ r.e ∧ r.e ≤ f.numRows) →
  ∀ (bs : Nat), 0 < bs → ∀ (proj : List Nat), validProj f.cols.length proj = true →
    ∃ batches, readFile f (.ranges rs) bs proj = .ok batches
      ∧ ∀ (k : Nat) (_ : k < proj.length), ∃ col, logical[proj[k]]? = some col
          ∧ colOf batches k = rs.flatMap (slice col)

/-- `read_ranges` is `RangesAnyOrder_full` restricted to the documented precondition -/
theorem ranges_any_order_partial (f : File Nat) (logical : List (List Nat)) (hst : f.Stores logical)
    (rs : List Rg) (hch : Chained (trimEmpty rs)) (hb : ∀ r ∈ rs, r.s ≤ r.e ∧ r.e ≤ f.numRows)
    (bs : Nat) (hbs : 0 < bs) (proj : List Nat) (hp : validProj f.cols.length proj = true) :
    ∃ batches, readFile f (.ranges rs) bs proj = .ok batches
      ∧ ∀ (k : Nat) (_ : k < proj.length), ∃ col, logical[proj[k]]? = some col
          ∧ colOf batches k = rs.flatMap (slice col) :=
  read_ranges f logical hst rs hch (fun r hr => (hb r hr).2) bs hbs proj hp

/-- overlapping ranges `0..5, 1..4` on pages of 3 + 4 rows: the second range is clamped to the page in progress,
    too few rows are scheduled and the decoder runs dry (outside the documented precondition: not a defect) -/
theorem ranges_any_order_counterexample : ¬ RangesAnyOrder_full := by
  intro h
  obtain ⟨b, hb, _⟩ := h exFile exLogical (by unfold File.Stores; decide) [⟨0, 5⟩, ⟨1, 4⟩] (by decide) 8 (by decide) [0]
    (by decide)
  have : readFile exFile (.ranges [⟨0, 5⟩, ⟨1, 4⟩]) 8 [0] = .error .panic := by rfl
  rw [this] at hb
  cases hb

/-! ## inside a mini-block page: `map_range` (part B)

A chunk is `pre ++ rows.flatten`: the tail of a row begun in an earlier chunk (no level of it starts a row), then
rows that each begin with their only row start; a level may be invisible (null / empty list: no value slot).
`DecodeMiniBlockTask::decode` copies `levels[level_range]` and `values[item_range]` of the chunk for the row
range `rows_to_skip .. rows_to_skip + rows_to_take` of a drain instruction. -/

/-- `map_range_select`: for every well-formed chunk, every row range inside it and every preamble action that fits
    (`Absent` only without preamble; `Take` only from row 0 — taking nothing but the preamble is allowed; otherwise
    a non-empty range) the copied levels are exactly the selected rows' levels (plus the preamble when taken) and
    the copied values are exactly their visible slots. -/
theorem map_range_select (pre : List (Ent α)) (rows : List (List (Ent α))) (hp : NoStart pre)
    (hr : ∀ r ∈ rows, IsRow r) (s e : Nat) (hse : s ≤ e) (he : e ≤ rows.length) (act : Pre)
    (ha1 : act = .absent → pre = []) (ha2 : act = .take → s = 0) (ha3 : act ≠ .take → s < e) :
    slice (pre ++ rows.flatten)
        (mapRange true ⟨s, e⟩ (pre ++ rows.flatten) (chunkValues (pre ++ rows.flatten)).length act).2
      = selRows pre rows act s e
    ∧ slice (chunkValues (pre ++ rows.flatten))
        (mapRange true ⟨s, e⟩ (pre ++ rows.flatten) (chunkValues (pre ++ rows.flatten)).length act).1
      = chunkValues (selRows pre rows act s e) :=
  mapRange_select pre rows hp hr s e hse he act ha1 ha2 ha3

/-- `schedule_accounts`: for every stored repetition index (and for the default index of a page without
    repetition) and every list of non-empty in-page ranges within the page's rows (the page scheduler never passes
    an empty one), `schedule_instructions` does not panic
    and the instructions take exactly `Σ (end - start)` rows — the `num_rows` the page decoder announces, on which
    the field decoder's `drain` relies -/
theorem schedule_accounts (ri : List (Nat × Nat)) (hne : ri ≠ []) (rs : List Rg)
    (hr : ∀ r ∈ rs, r.s < r.e ∧ r.e ≤ startsSum (decodeRepIndex ri false 0)) :
    ∃ is, scheduleInstructions (decodeRepIndex ri false 0) rs = some is ∧ takeSum is = numRows rs := by
  apply scheduleInstructions_takes _ (decodeRepIndex_offs ri false 0) _ rs hr
  cases ri with
  | nil => exact absurd rfl hne
  | cons p t => obtain ⟨a, b⟩ := p; simp [decodeRepIndex]

theorem schedule_accounts_norep (ns : List Nat) (hne : ns ≠ []) (rs : List Rg)
    (hr : ∀ r ∈ rs, r.s < r.e ∧ r.e ≤ startsSum (defaultRepIndex ns 0)) :
    ∃ is, scheduleInstructions (defaultRepIndex ns 0) rs = some is ∧ takeSum is = numRows rs := by
  apply scheduleInstructions_takes _ (defaultRepIndex_offs ns 0) _ rs hr
  cases ns with
  | nil => exact absurd rfl hne
  | cons p t => simp [defaultRepIndex]

example : startsSum (decodeRepIndex [(1, 2), (3, 0)] false 0) = 4 := by rfl

/-- `rep_index_describes_chunks`: for every cut of a page's levels into non-empty chunks (the page begins with a
    row), the repetition index the writer stores (`compress_levels`), read back by
    `MiniBlockRepIndex::decode_from_bytes`, tells for every chunk exactly: how many rows start before it, how many
    start in it, whether it begins in the middle of a row (preamble) and whether its last row continues in the
    next chunk (trailer) -/
theorem rep_index_describes_chunks (chunks : List (List (Ent α))) (hne : ∀ x ∈ chunks, x ≠ [])
    (hfirst : (chunks.head?.map headStarts).getD true = true) :
    decodeRepIndex (buildRepIndex chunks) false 0 = blocksSpec chunks 0 := by
  rw [buildRepIndex_spec chunks hne]
  have := decode_specIndex chunks hne 0
  rw [hfirst] at this
  exact this

/-- `norep_special_case`: a page without repetition levels (every level starts a row) needs no stored index —
    `MiniBlockRepIndex::default_from_chunks` is what decoding the stored index would give -/
theorem norep_special_case (chunks : List (List (Ent α))) (hne : ∀ x ∈ chunks, x ≠ [])
    (hall : ∀ x ∈ chunks, ∀ e ∈ x, e.start = true) :
    decodeRepIndex (buildRepIndex chunks) false 0 = defaultRepIndex (chunks.map List.length) 0 := by
  rw [rep_index_describes_chunks chunks hne, blocksSpec_allStart chunks hne hall]
  cases chunks with
  | nil => rfl
  | cons c t =>
    cases hc : c with
    | nil => exact absurd hc (hne c (by simp))
    | cons e u =>
      have := hall c (by simp) e (by simp [hc])
      simp [headStarts, this]

/-- the chunk `.. 7 | [1, _] [] [2, 3]` (a one-level preamble, then three rows; `_` and `[]` are invisible levels) -/
def exPre : List (Ent Nat) := [⟨false, true, 7⟩]
def exRows : List (List (Ent Nat)) :=
  [[⟨true, true, 1⟩, ⟨false, false, 0⟩], [⟨true, false, 0⟩], [⟨true, true, 2⟩, ⟨false, true, 3⟩]]

example : NoStart exPre := by unfold NoStart; decide
example : ∀ r ∈ exRows, IsRow r := by
  intro r hr
  simp only [exRows, List.mem_cons, List.not_mem_nil, or_false] at hr
  rcases hr with rfl | rfl | rfl
  · exact ⟨_, _, rfl, rfl, by unfold NoStart; decide⟩
  · exact ⟨_, _, rfl, rfl, by unfold NoStart; decide⟩
  · exact ⟨_, _, rfl, rfl, by unfold NoStart; decide⟩
example : mapRange true ⟨1, 3⟩ (exPre ++ exRows.flatten) 4 .skip = (⟨2, 4⟩, ⟨3, 6⟩) := by rfl
example : mapRange true ⟨0, 1⟩ (exPre ++ exRows.flatten) 4 .take = (⟨0, 2⟩, ⟨0, 3⟩) := by rfl
example : mapRange true ⟨0, 0⟩ (exPre ++ exRows.flatten) 4 .take = (⟨0, 1⟩, ⟨0, 1⟩) := by rfl
example : scheduleInstructions (decodeRepIndex [(1, 2), (3, 0)] false 0) [⟨0, 2⟩, ⟨3, 4⟩]
    = some [⟨0, .absent, 0, 2, true⟩, ⟨1, .take, 0, 0, false⟩, ⟨1, .skip, 1, 1, false⟩] := by rfl
example : buildRepIndex [[(⟨true, true, 1⟩ : Ent Nat), ⟨false, true, 2⟩, ⟨true, true, 3⟩], exPre ++ exRows.flatten]
    = [(1, 1), (4, 0)] := by rfl

/-! ## rows that span chunk boundaries (`Spanning.lean`)

`schedLoop_flat`: the loop of `schedule_instructions` with all its branches (`need_preamble`, `take_trailer`, chunks
that are entirely preamble), for any number of chunks a row may span: the scheduled instructions, executed on their
chunks the way `decode` executes them (`decode_instr`, from `map_range_select`), copy exactly the level stream up to
its `need`-th row start.  `drainFromInstruction_handover`: draining a whole instruction reproduces its own preamble
action and hands `take_trailer` on as `need_preamble`. -/

/-- two chunks `[1 2 | 2' 3]`: row `2` spans the boundary -/
def exSpan : List (PC Nat) :=
  [⟨[], [[⟨true, true, 1⟩], [⟨true, true, 2⟩]]⟩, ⟨[⟨false, true, 20⟩], [[⟨true, true, 3⟩]]⟩]

example : ∀ c ∈ exSpan, c.WF := by
  intro c hc
  simp only [exSpan, List.mem_cons, List.not_mem_nil, or_false] at hc
  rcases hc with rfl | rfl
  · exact ⟨by unfold NoStart; decide, fun r hr => by
      simp at hr; rcases hr with rfl | rfl <;> exact ⟨_, _, rfl, rfl, by unfold NoStart; decide⟩⟩
  · exact ⟨by unfold NoStart; decide, fun r hr => by
      simp at hr; subst hr; exact ⟨_, _, rfl, rfl, by unfold NoStart; decide⟩⟩
example : schedLoop (pcBlocks exSpan 0) 0 1 false 1 = [⟨0, .absent, 1, 1, true⟩, ⟨1, .take, 0, 0, false⟩] := by rfl
example : (schedLoop (pcBlocks exSpan 0) 0 1 false 1).flatMap (execI exSpan 0)
    = [⟨true, true, 2⟩, ⟨false, true, 20⟩] := by rfl

/-! ## end to end inside a mini-block page (`EndToEnd.lean`)

`miniblock_select_rows`: for pages whose rows do not span chunk boundaries (no preamble, no trailer), for every list of
non-empty in-page ranges (any order), `schedule_instructions` on the stored repetition index
(`mkBlocks_is_stored_index`), one `drain` of everything scheduled and `decode` (`map_range` + the copies) return
exactly the levels and the visible value slots of the requested rows, in order. -/

example : scheduleInstructions (mkBlocks ([exRows, exRows] : List (List (List (Ent Nat)))) 0) [⟨1, 2⟩, ⟨2, 5⟩]
    = some [⟨0, .absent, 1, 2, false⟩, ⟨1, .absent, 0, 2, false⟩] := by rfl

end LanceModel.C25
