import LanceModel.C25.MiniBlock
/-!
C25 helper lemmas for part B: the repetition index the writer stores (`compress_levels`) read back by
`MiniBlockRepIndex::decode_from_bytes` describes the chunks.
-/
namespace LanceModel.C25

variable {α : Type}

/-- the pair a chunk must get: rows that END in it, and the levels of a row left unfinished.  `nextStarts` =
    the following chunk begins a row (true for the last chunk of the page). -/
def pairOf (c : List (Ent α)) (nextStarts : Bool) : Nat × Nat :=
  (startCount (c.drop 1) + (if nextStarts then 1 else 0), if nextStarts then 0 else leftovers c)

def specIndex : List (List (Ent α)) → List (Nat × Nat)
  | [] => []
  | [c] => [pairOf c true]
  | c :: d :: t => pairOf c (headStarts d) :: specIndex (d :: t)

theorem leftovers_pos (c : List (Ent α)) (h : c ≠ []) : leftovers c ≠ 0 := by
  unfold leftovers
  cases hf : c.reverse.findIdx? (·.start) with
  | some p => simp
  | none =>
    simp only []
    intro h0
    exact h (List.eq_nil_of_length_eq_zero h0)

theorem settleLast_snoc (pre : List (Nat × Nat)) (r l : Nat) (hl : l ≠ 0) :
    settleLast (pre ++ [(r, l)]) = pre ++ [(r + 1, 0)] := by
  simp [settleLast, hl]

/-- the accumulator's last pair is provisional: it is settled by the first level of the next chunk -/
theorem buildRepIndexAux_spec (c : List (Ent α)) (rest : List (List (Ent α))) (pre : List (Nat × Nat))
    (r l : Nat) (hl : l ≠ 0) (hne : ∀ x ∈ c :: rest, x ≠ []) :
    buildRepIndexAux (c :: rest) false (pre ++ [(r, l)]) =
      pre ++ [if headStarts c then (r + 1, 0) else (r, l)] ++ specIndex (c :: rest) := by
  induction rest generalizing c pre r l with
  | nil =>
    unfold buildRepIndexAux
    simp only [List.isEmpty_nil, if_true, Bool.not_false, Bool.true_and, specIndex, pairOf]
    by_cases hs : headStarts c = true
    · rw [if_pos hs, if_pos hs, settleLast_snoc pre r l hl]
    · rw [if_neg hs, if_neg hs]
  | cons d t ih =>
    have hc : c ≠ [] := hne c (by simp)
    unfold buildRepIndexAux
    simp only [List.isEmpty_cons, Bool.false_eq_true, if_false, Bool.not_false, Bool.true_and]
    have hne' : ∀ x ∈ d :: t, x ≠ [] := fun x hx => hne x (by simp [hx])
    by_cases hs : headStarts c = true
    · rw [if_pos hs, if_pos hs, settleLast_snoc pre r l hl, ih d (pre ++ [(r + 1, 0)]) _ _ (leftovers_pos c hc) hne']
      simp only [specIndex, pairOf, List.append_assoc, List.cons_append, List.nil_append]
      by_cases hd : headStarts d = true
      · simp [hd]
      · simp [hd]
    · rw [if_neg hs, if_neg hs, ih d (pre ++ [(r, l)]) _ _ (leftovers_pos c hc) hne']
      simp only [specIndex, pairOf, List.append_assoc, List.cons_append, List.nil_append]
      by_cases hd : headStarts d = true
      · simp [hd]
      · simp [hd]

/-- the stored repetition index, chunk by chunk: rows ending in the chunk (+1 for the last chunk and for a chunk
    followed by a chunk that begins a row) and the leftover levels otherwise -/
theorem buildRepIndex_spec (chunks : List (List (Ent α))) (hne : ∀ x ∈ chunks, x ≠ []) :
    buildRepIndex chunks = specIndex chunks := by
  cases chunks with
  | nil => rfl
  | cons c rest =>
    unfold buildRepIndex buildRepIndexAux
    cases rest with
    | nil => simp [specIndex, pairOf]
    | cons d t =>
      simp only [List.isEmpty_cons, Bool.false_eq_true, if_false, Bool.not_true, Bool.false_and]
      have := buildRepIndexAux_spec d t [] (startCount (c.drop 1)) (leftovers c)
        (leftovers_pos c (hne c (by simp))) (fun x hx => hne x (by simp [hx]))
      simp only [List.nil_append] at this ⊢
      rw [this]
      simp only [specIndex, pairOf]
      by_cases hd : headStarts d = true
      · simp [hd]
      · simp [hd]

/-- what the reader must know about each chunk -/
def blocksSpec : List (List (Ent α)) → Nat → List Block
  | [], _ => []
  | [c], off => [⟨off, startCount c, !headStarts c, false⟩]
  | c :: d :: t, off => ⟨off, startCount c, !headStarts c, !headStarts d⟩ :: blocksSpec (d :: t) (off + startCount c)

theorem startCount_split (c : List (Ent α)) (h : c ≠ []) :
    startCount c = (if headStarts c then 1 else 0) + startCount (c.drop 1) := by
  cases c with
  | nil => exact absurd rfl h
  | cons e t =>
    cases hs : e.start <;> simp [startCount, headStarts, hs] <;> omega

theorem decode_step (c : List (Ent α)) (hc : c ≠ []) (ns : Bool) (rest : List (Nat × Nat)) (off : Nat) :
    decodeRepIndex (pairOf c ns :: rest) (!headStarts c) off =
      ⟨off, startCount c, !headStarts c, !ns⟩ :: decodeRepIndex rest (!ns) (off + startCount c) := by
  have hsc := startCount_split c hc
  have hlp : 0 < leftovers c := Nat.pos_of_ne_zero (leftovers_pos c hc)
  cases ns <;> cases hh : headStarts c <;>
    simp only [pairOf, decodeRepIndex, Bool.not_true, Bool.not_false, if_true, if_false, Bool.false_eq_true,
      hlp, gt_iff_lt, Nat.lt_irrefl, decide_true, decide_false] <;>
    simp only [hh, if_true, if_false, Bool.false_eq_true] at hsc <;>
    (have e : startCount c = _ := hsc
     congr 2 <;> omega)

/-- `decode_from_bytes` of the stored index recovers, for every chunk: how many rows start before it, how many
    start in it, whether it begins in the middle of a row and whether its last row continues -/
theorem decode_specIndex (chunks : List (List (Ent α))) (hne : ∀ x ∈ chunks, x ≠ []) (off : Nat) :
    decodeRepIndex (specIndex chunks) (!(chunks.head?.map headStarts).getD true) off = blocksSpec chunks off := by
  induction chunks generalizing off with
  | nil => rfl
  | cons c rest ih =>
    have hc := hne c (by simp)
    cases rest with
    | nil =>
      simp only [specIndex, blocksSpec, List.head?_cons, Option.map_some, Option.getD_some]
      rw [decode_step c hc true [] off]
      simp [decodeRepIndex]
    | cons d t =>
      have ih' := ih (fun x hx => hne x (by simp [hx])) (off + startCount c)
      simp only [List.head?_cons, Option.map_some, Option.getD_some] at ih'
      simp only [specIndex, blocksSpec, List.head?_cons, Option.map_some, Option.getD_some]
      rw [decode_step c hc (headStarts d) _ off, ih']

/-- a page without repetition is the special case "every level starts a row": the index decoded from what
    `compress_levels` would store is `MiniBlockRepIndex::default_from_chunks` -/
theorem blocksSpec_allStart (chunks : List (List (Ent α))) (hne : ∀ x ∈ chunks, x ≠ [])
    (hall : ∀ x ∈ chunks, ∀ e ∈ x, e.start = true) (off : Nat) :
    blocksSpec chunks off = defaultRepIndex (chunks.map List.length) off := by
  have hsc : ∀ x ∈ chunks, startCount x = x.length := by
    intro x hx
    unfold startCount
    rw [List.filter_eq_self.mpr (fun e he => hall x hx e he)]
  have hhs : ∀ x ∈ chunks, headStarts x = true := by
    intro x hx
    cases hxe : x with
    | nil => exact absurd hxe (hne x hx)
    | cons e t => simp [headStarts, hall x hx e (by simp [hxe])]
  induction chunks generalizing off with
  | nil => rfl
  | cons c rest ih =>
    have ih' := fun o => ih (fun x hx => hne x (by simp [hx])) (fun x hx => hall x (by simp [hx])) o
      (fun x hx => hsc x (by simp [hx])) (fun x hx => hhs x (by simp [hx]))
    cases rest with
    | nil => simp [blocksSpec, defaultRepIndex, hsc c (by simp), hhs c (by simp)]
    | cons d t =>
      simp only [blocksSpec, List.map_cons, defaultRepIndex, hsc c (by simp), hhs c (by simp), hhs d (by simp),
        Bool.not_true]
      rw [ih' (off + c.length)]
      simp [defaultRepIndex]

end LanceModel.C25
