/-
C25 model, part A: the structural / scheduling layer of the 2.1+ file reader.

Rust counterparts (all under /repo/rust):
* `lance-file/src/reader.rs`            `FileReader::{read_tasks, validate_projection, read_range, read_ranges, take_rows}`
* `lance-encoding/src/decoder.rs`       `schedule_and_decode`, `RequestedRows::{num_rows, trim_empty_ranges}`,
                                        `DecodeBatchScheduler::{schedule_take, indices_to_ranges}`,
                                        `StructuralBatchDecodeStream::next_batch_task`
* `lance-encoding/src/encodings/logical/primitive.rs`
                                        `StructuralPrimitiveFieldSchedulingJob::schedule_next` (rows → pages),
                                        `StructuralPrimitiveFieldDecoder::{accept_page, drain}` (pages → batches)
* `lance-encoding/src/encodings/logical/struct.rs`
                                        `StructuralStructDecoder::drain` (every child drains the same row count)

Import-free (core only) so that the driver links natively.

Modelling choices
* A leaf column is a list of pages, a page is the list of its top-level rows; a row is an opaque value `α`
  (for the harness: the canonical text of everything that leaf stores for that row — values, validity, list
  structure).  How a page turns a list of in-page row ranges into rows is the page's contract
  (`mkPageDec`); for mini-block pages that contract is the subject of part B (`MiniBlock.lean`), for the
  byte-level codecs it is C26 / C27.
* u64 arithmetic is `Nat`; the theorems carry the bounds under which no Rust subtraction underflows.  A Rust
  panic (index out of bounds, `unwrap` on an empty queue) is `none`.
* The scheduler thread and the decoder are connected by a channel; the decoder waits until enough rows have
  been scheduled.  The model delivers the whole schedule first (same messages, same order).
-/
namespace LanceModel.C25

/-- a half-open row range `s..e` (`std::ops::Range<u64>`) -/
structure Rg where
  s : Nat
  e : Nat
deriving Repr, DecidableEq, Inhabited

/-- `r.end - r.start` -/
def Rg.len (r : Rg) : Nat := r.e - r.s

/-- the rows of a range: the specification every read is compared with -/
def slice {α : Type} (l : List α) (r : Rg) : List α := (l.drop r.s).take (r.e - r.s)

/-- decoder.rs `RequestedRows::num_rows` for `Ranges` (and the `num_rows` sums of the page schedulers) -/
def numRows (rs : List Rg) : Nat := (rs.map Rg.len).sum

/-- decoder.rs `RequestedRows::trim_empty_ranges` (`Range::is_empty` is `!(start < end)`) -/
def trimEmpty (rs : List Rg) : List Rg := rs.filter (fun r => decide (r.s < r.e))

/-- decoder.rs `DecodeBatchScheduler::indices_to_ranges`, the loop over `indices.windows(2)`;
    `start` is the local of that name, `prev` is `window[0]` of the next window -/
def idxRangesAux (start prev : Nat) : List Nat → List Rg
  | [] => [⟨start, prev + 1⟩]
  | x :: xs =>
    if x ≠ prev + 1 then ⟨start, prev + 1⟩ :: idxRangesAux x x xs
    else idxRangesAux start x xs

/-- decoder.rs `DecodeBatchScheduler::schedule_take`: nothing for an empty list, else `indices_to_ranges` -/
def indicesToRanges : List Nat → List Rg
  | [] => []
  | x :: xs => idxRangesAux x x xs

/-! ## rows → pages: `StructuralPrimitiveFieldSchedulingJob::schedule_next` -/

/-- the inner loop `while cur_page.num_rows + self.global_row_offset > range.start` of `schedule_next`.
    `n` = `cur_page.num_rows`, `gro` = `global_row_offset`; the argument is `ranges[range_idx..]`.
    Returns `ranges_in_page` and the ranges still to serve (`ranges[range_idx..]` afterwards: a range that
    continues on the next page stays at the front). -/
def inPage (n gro : Nat) : List Rg → List Rg × List Rg
  | [] => ([], [])
  | r :: rs =>
    if n + gro > r.s then
      -- range.start = range.start.max(global_row_offset)
      if (min (max r.s gro - gro + (r.e - max r.s gro)) n) + gro ≥ r.e then
        -- last_in_range: range_idx += 1 and look at the next range
        ((⟨max r.s gro - gro, min (max r.s gro - gro + (r.e - max r.s gro)) n⟩ :: (inPage n gro rs).1),
          (inPage n gro rs).2)
      else
        ([⟨max r.s gro - gro, min (max r.s gro - gro + (r.e - max r.s gro)) n⟩], r :: rs)
    else ([], r :: rs)

/-- all `schedule_next` calls of one leaf column, until `range_idx >= ranges.len()`.
    `pages` = `page_schedulers[page_idx..]` (only their lengths are used for scheduling), `gro` =
    `global_row_offset`, the list argument = `ranges[range_idx..]`.  One output element per call: the page it
    scheduled and the `ranges_in_page` it passed to that page's scheduler.  The first branch is one iteration
    of the "skip entire pages" loop; `none` = `page_schedulers[page_idx]` out of bounds (panic). -/
def schedPages {α : Type} : List (List α) → Nat → List Rg → Option (List (List α × List Rg))
  | _, _, [] => some []
  | [], _, _ :: _ => none
  | p :: ps, gro, r :: rs =>
    if p.length + gro ≤ r.s then schedPages ps (gro + p.length) (r :: rs)
    else
      match schedPages ps (gro + p.length) (inPage p.length gro (r :: rs)).2 with
      | none => none
      | some t => some ((p, (inPage p.length gro (r :: rs)).1) :: t)

/-! ## page decoders and the field decoder -/

/-- a `StructuralPageDecoder` after loading: `num_rows()` and the rows it still holds -/
structure PageDec (α : Type) where
  numRows : Nat
  rest : List α
deriving Repr

/-- the page's contract: `StructuralPageScheduler::schedule_ranges(ranges_in_page)` yields a decoder over
    exactly the rows of those ranges, with `num_rows = Σ (end - start)` -/
def mkPageDec {α : Type} (p : List α × List Rg) : PageDec α :=
  ⟨numRows p.2, p.2.flatMap (slice p.1)⟩

/-- `StructuralPrimitiveFieldDecoder`: `page_decoders` and `rows_drained_in_current` -/
structure FieldDec (α : Type) where
  q : List (PageDec α)
  drained : Nat
deriving Repr

/-- `StructuralPrimitiveFieldDecoder::drain(num_rows)`: the `while remaining > 0` loop.
    `none` = `page_decoders.front_mut().unwrap()` on an empty queue. -/
def drainQ {α : Type} : List (PageDec α) → Nat → Nat → Option (List α × FieldDec α)
  | q, d, 0 => some ([], ⟨q, d⟩)
  | [], _, _ + 1 => none
  | p :: q, d, r + 1 =>
    -- num_in_page = cur_page.num_rows() - rows_drained_in_current; to_take = num_in_page.min(remaining)
    if min (p.numRows - d) (r + 1) = p.numRows - d then
      match drainQ q 0 (r + 1 - min (p.numRows - d) (r + 1)) with
      | none => none
      | some (out, f) => some (p.rest.take (min (p.numRows - d) (r + 1)) ++ out, f)
    else
      some (p.rest.take (min (p.numRows - d) (r + 1)),
        ⟨⟨p.numRows, p.rest.drop (min (p.numRows - d) (r + 1))⟩ :: q, d + min (p.numRows - d) (r + 1)⟩)

def FieldDec.drain {α : Type} (f : FieldDec α) (n : Nat) : Option (List α × FieldDec α) :=
  drainQ f.q f.drained n

/-- `StructuralStructDecoder::drain` for the root: every projected leaf drains `num_rows` rows;
    the batch is the list of the column arrays -/
def drainAll {α : Type} : List (FieldDec α) → Nat → Option (List (List α) × List (FieldDec α))
  | [], _ => some ([], [])
  | f :: fs, n =>
    match f.drain n, drainAll fs n with
    | some (c, f'), some (cs, fs') => some (c :: cs, f' :: fs')
    | _, _ => none

/-- `StructuralBatchDecodeStream::next_batch_task`, iterated by `into_stream`: `rem` = `rows_remaining`,
    `bs` = `rows_per_batch`.  The stream ends when `rows_remaining == 0` or `to_take == 0`.
    `fuel` bounds the number of batches (`rem` suffices: every batch takes at least one row). -/
def batchLoop {α : Type} (bs : Nat) : Nat → Nat → List (FieldDec α) → Option (List (List (List α)))
  | 0, _, _ => some []
  | fuel + 1, rem, fs =>
    if rem = 0 then some []
    else if min rem bs = 0 then some []
    else
      match drainAll fs (min rem bs) with
      | none => none
      | some (b, fs') =>
        match batchLoop bs fuel (rem - min rem bs) fs' with
        | none => none
        | some t => some (b :: t)

/-! ## the file and `read_tasks` -/

/-- what `FileReader` knows after `read_all_metadata`: per leaf column its pages, and the footer's row count -/
structure File (α : Type) where
  cols : List (List (List α))
  numRows : Nat
deriving Repr

/-- `lance_io::ReadBatchParams` -/
inductive Req where
  | range (s e : Nat)
  | ranges (rs : List Rg)
  | indices (is : List Nat)
  | full
  | rangeTo (e : Nat)
  | rangeFrom (s : Nat)
deriving Repr

inductive Err where
  | invalidInput
  | panic
deriving Repr, DecidableEq

/-- reader.rs `validate_projection` (2.1+: one column index per projected leaf): at least one column, no index
    twice, every index below the number of columns -/
def validProj (ncols : Nat) (l : List Nat) : Bool :=
  !l.isEmpty && l.all (fun i => decide (i < ncols)) && decide l.Nodup

/-- reader.rs `read_tasks`: `verify_bound` per request kind, then the ranges handed to `schedule_and_decode`
    together with the number of rows the decode stream is created for -/
def requested (numRowsFile : Nat) : Req → Except Err (List Rg × Nat)
  | .range s e => if e > numRowsFile then .error .invalidInput else .ok ([⟨s, e⟩], e - s)
  | .ranges rs =>
    if rs.any (fun r => decide (r.e > numRowsFile)) then .error .invalidInput else .ok (rs, numRows rs)
  | .indices is =>
    if is.any (fun i => decide (i ≥ numRowsFile)) then .error .invalidInput
    else .ok (indicesToRanges is, is.length)
  | .full => .ok ([⟨0, numRowsFile⟩], numRowsFile)
  | .rangeTo e => if e > numRowsFile then .error .invalidInput else .ok ([⟨0, e⟩], e)
  | .rangeFrom s => if s ≥ numRowsFile then .error .invalidInput else .ok ([⟨s, numRowsFile⟩], numRowsFile - s)

/-- the decoders of one projected column: its schedule, page by page, in the order the scan lines arrive -/
def fieldDecOf {α : Type} (pages : List (List α)) (rs : List Rg) : Option (FieldDec α) :=
  match schedPages pages 0 rs with
  | none => none
  | some sch => some ⟨sch.map mkPageDec, 0⟩

def fieldDecsOf {α : Type} : List (List (List α)) → List Rg → Option (List (FieldDec α))
  | [], _ => some []
  | c :: cs, rs =>
    match fieldDecOf c rs, fieldDecsOf cs rs with
    | some f, some fs => some (f :: fs)
    | _, _ => none

/-- the projected columns, in projection order (`ColumnInfoIter` jumps to `column_indices[k]` for the k-th leaf) -/
def projCols {α : Type} (cols : List (List (List α))) (proj : List Nat) : List (List (List α)) :=
  proj.filterMap (fun i => cols[i]?)

/-- decoder.rs `schedule_and_decode` + `create_scheduler_decoder` on the projected columns: zero requested rows →
    empty stream; else empty ranges are dropped, every projected leaf is scheduled, the decode stream is created
    for `n` rows -/
def readRows {α : Type} (cols : List (List (List α))) (rs : List Rg) (n bs : Nat) :
    Except Err (List (List (List α))) :=
  if n = 0 then .ok []
  else
    match fieldDecsOf cols (trimEmpty rs) with
    | none => .error .panic
    | some fs =>
      match batchLoop bs n n fs with
      | none => .error .panic
      | some bsl => .ok bsl

/-- `FileReader::read_stream_projected(params, batch_size, _, projection, no filter)` collected:
    the batches, each a list of column arrays (projection order). -/
def readFile {α : Type} (f : File α) (req : Req) (bs : Nat) (proj : List Nat) :
    Except Err (List (List (List α))) :=
  if !validProj f.cols.length proj then .error .invalidInput
  else
    match requested f.numRows req with
    | .error e => .error e
    | .ok (rs, n) => readRows (projCols f.cols proj) rs n bs

/-! ## the writer (`FileWriter::write_batch` … `finish`), as far as the reader depends on it -/

/-- a column writer cuts its accumulated rows into pages wherever its buffering policy says (`sizes`);
    whatever is left goes into the final page written by `finish` -/
def splitBy {α : Type} : List Nat → List α → List (List α)
  | [], l => if l = [] then [] else [l]
  | n :: t, l => l.take n :: splitBy t (l.drop n)

/-- writer.rs: `write_batch` for every batch (`rows_written += batch.num_rows()`, every column writer gets
    its array), then `finish` (footer `num_rows = rows_written`).  `cuts[c]` = page sizes chosen for column `c`. -/
def writeFile {α : Type} (ncols : Nat) (batches : List (List (List α))) (cuts : List (List Nat)) : File α :=
  { cols := (List.range ncols).map (fun c =>
      splitBy (cuts[c]?.getD []) (batches.flatMap (fun b => b[c]?.getD [])))
    numRows := (batches.map (fun b => (b.head?.getD []).length)).sum }

/-- column `c` of the whole read = concatenation over the batches -/
def colOf {α : Type} (batches : List (List (List α))) (c : Nat) : List α :=
  batches.flatMap (fun b => b[c]?.getD [])

/-- `scheduled_so_far` of the scan lines of a single-leaf read (`DecodeBatchScheduler::schedule_ranges_to_vec`):
    the running sum of the rows each `schedule_next` call scheduled -/
def scanLines {α : Type} (pages : List (List α)) (rs : List Rg) : Option (List Nat) :=
  match schedPages pages 0 rs with
  | none => none
  | some sch => some (sch.map (fun p => numRows p.2))

end LanceModel.C25
