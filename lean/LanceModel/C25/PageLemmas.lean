import LanceModel.C25.Model
/-!
C25 helper lemmas for part A: rows → pages (`inPage`, `schedPages`), `indices_to_ranges`.
-/
namespace LanceModel.C25

variable {α : Type}

/-- rows of `r` that lie at or after global row `gro`, in a column whose first row is global row `gro` -/
def sliceG (col : List α) (gro : Nat) (r : Rg) : List α :=
  slice col ⟨max r.s gro - gro, r.e - gro⟩

/-- the precondition on the request: every range non-empty (after `trim_empty_ranges`) and each range starts
    no earlier than the last row of its predecessor.  Sorted, non-overlapping ranges satisfy it
    (`a.e ≤ b.s`); so do the ranges `indices_to_ranges` builds from a sorted index list with repeats. -/
def Chained : List Rg → Prop
  | [] => True
  | [r] => r.s < r.e
  | r :: b :: t => r.s < r.e ∧ r.e ≤ b.s + 1 ∧ Chained (b :: t)

/-- scheduler invariant: chained, and the first range still has rows at or after `gro` -/
def Ok (gro : Nat) : List Rg → Prop
  | [] => True
  | r :: t => gro < r.e ∧ Chained (r :: t)

theorem slice_nil (r : Rg) : slice ([] : List α) r = [] := by simp [slice]

theorem slice_length (l : List α) (r : Rg) (h : r.e ≤ l.length) : (slice l r).length = r.e - r.s := by
  simp [slice]; omega

theorem slice_length_le (l : List α) (r : Rg) : (slice l r).length ≤ r.e - r.s := by
  simp [slice]; omega

/-- splitting a slice at a page boundary -/
theorem slice_append (p q : List α) (a b : Nat) :
    slice (p ++ q) ⟨a, b⟩ = slice p ⟨a, min b p.length⟩ ++ slice q ⟨a - p.length, b - p.length⟩ := by
  simp only [slice, List.drop_append, List.take_append, List.length_drop]
  congr 1
  · by_cases h : b ≤ p.length
    · rw [Nat.min_eq_left h]
    · rw [Nat.min_eq_right (by omega)]
      rw [List.take_of_length_le (by simp; omega), List.take_of_length_le (by simp)]
  · congr 1; omega

theorem slice_empty_of_le (l : List α) (a b : Nat) (h : l.length ≤ a) : slice l ⟨a, b⟩ = [] := by
  simp [slice, List.drop_eq_nil_of_le h]

theorem slice_empty_of_ge (l : List α) (a b : Nat) (h : b ≤ a) : slice l ⟨a, b⟩ = [] := by
  simp [slice]; omega

/-- per range: the part on this page (as `schedule_next` computes it) and the part on later pages -/
theorem sliceG_append (p q : List α) (gro : Nat) (r : Rg) (h1 : r.s < r.e) (h2 : gro < r.e) :
    sliceG (p ++ q) gro r =
      slice p ⟨max r.s gro - gro, min (max r.s gro - gro + (r.e - max r.s gro)) p.length⟩
        ++ sliceG q (gro + p.length) r := by
  unfold sliceG
  rw [slice_append]
  have e1 : max r.s gro - gro + (r.e - max r.s gro) = r.e - gro := by omega
  have e2 : max r.s gro - gro - p.length = max r.s (gro + p.length) - (gro + p.length) := by omega
  have e3 : r.e - gro - p.length = r.e - (gro + p.length) := by omega
  rw [e1, e2, e3]

theorem sliceG_later (p q : List α) (gro : Nat) (r : Rg) (h : gro + p.length ≤ r.s) :
    sliceG (p ++ q) gro r = sliceG q (gro + p.length) r := by
  unfold sliceG
  rw [slice_append, slice_empty_of_le p _ _ (by omega)]
  have e2 : max r.s gro - gro - p.length = max r.s (gro + p.length) - (gro + p.length) := by omega
  have e3 : r.e - gro - p.length = r.e - (gro + p.length) := by omega
  rw [e2, e3]; rfl

theorem flatMap_sliceG_later (p q : List α) (gro : Nat) (rs : List Rg)
    (h : ∀ r ∈ rs, gro + p.length ≤ r.s) :
    rs.flatMap (sliceG (p ++ q) gro) = rs.flatMap (sliceG q (gro + p.length)) := by
  induction rs with
  | nil => rfl
  | cons r t ih =>
    simp only [List.flatMap_cons]
    rw [sliceG_later p q gro r (h r (by simp)), ih (fun x hx => h x (by simp [hx]))]

theorem chained_tail {r : Rg} {t : List Rg} (h : Chained (r :: t)) : Chained t := by
  cases t with
  | nil => trivial
  | cons b t => exact h.2.2

theorem chained_head {r : Rg} {t : List Rg} (h : Chained (r :: t)) : r.s < r.e := by
  cases t with
  | nil => exact h
  | cons b t => exact h.1

theorem chained_all {r : Rg} {t : List Rg} (h : Chained (r :: t)) : ∀ b ∈ t, r.e ≤ b.s + 1 := by
  induction t generalizing r with
  | nil => intro b hb; cases hb
  | cons c t ih =>
    intro b hb
    have hc := h.2.1
    have hcs := chained_head h.2.2
    cases hb with
    | head => exact hc
    | tail _ hb' => have := ih h.2.2 b hb'; omega

theorem chained_nonempty {rs : List Rg} (h : Chained rs) : ∀ r ∈ rs, r.s < r.e := by
  induction rs with
  | nil => intro r hr; cases hr
  | cons a t ih =>
    intro r hr
    cases hr with
    | head => exact chained_head h
    | tail _ h' => exact ih (chained_tail h) r h'

/-- `inPage`: what the page gets plus what is left is what was asked; the invariant moves to the next page -/
theorem inPage_spec (p q : List α) (gro : Nat) (rs : List Rg) (hok : Ok gro rs) :
    (inPage p.length gro rs).1.flatMap (slice p)
        ++ (inPage p.length gro rs).2.flatMap (sliceG q (gro + p.length))
      = rs.flatMap (sliceG (p ++ q) gro)
    ∧ Ok (gro + p.length) (inPage p.length gro rs).2
    ∧ (∀ x ∈ (inPage p.length gro rs).1, x.e ≤ p.length)
    ∧ (∀ x ∈ (inPage p.length gro rs).2, x ∈ rs) := by
  induction rs with
  | nil => simp [inPage, Ok]
  | cons r t ih =>
    obtain ⟨hg, hch⟩ := hok
    have hrs := chained_head hch
    have hall := chained_all hch
    unfold inPage
    by_cases hc : p.length + gro > r.s
    · rw [if_pos hc]
      by_cases hl : (min (max r.s gro - gro + (r.e - max r.s gro)) p.length) + gro ≥ r.e
      · rw [if_pos hl]
        have hokt : Ok gro t := by
          cases t with
          | nil => trivial
          | cons b t' =>
            have hb := hall b (by simp)
            have hbs := chained_head (chained_tail hch)
            exact ⟨by omega, chained_tail hch⟩
        obtain ⟨i1, i2, i3, i4⟩ := ih hokt
        refine ⟨?_, i2, ?_, ?_⟩
        · simp only [List.flatMap_cons]
          rw [sliceG_append p q gro r hrs hg]
          have : sliceG q (gro + p.length) r = [] := by
            unfold sliceG; apply slice_empty_of_ge; omega
          rw [this, List.append_nil, List.append_assoc, i1]
        · intro x hx
          cases hx with
          | head => exact Nat.min_le_right _ _
          | tail _ hx' => exact i3 x hx'
        · intro x hx; exact List.mem_cons_of_mem _ (i4 x hx)
      · rw [if_neg hl]
        refine ⟨?_, ⟨by omega, hch⟩, ?_, fun x hx => hx⟩
        · simp only [List.flatMap_cons, List.flatMap_nil, List.append_nil]
          rw [sliceG_append p q gro r hrs hg, List.append_assoc]
          rw [flatMap_sliceG_later p q gro t (fun b hb => by have := hall b hb; omega)]
        · intro x hx
          simp only [List.mem_singleton] at hx
          subst hx; exact Nat.min_le_right _ _
    · rw [if_neg hc]
      refine ⟨?_, ⟨by omega, hch⟩, (fun x hx => by cases hx), fun x hx => hx⟩
      simp only [List.flatMap_nil, List.nil_append]
      rw [flatMap_sliceG_later p q gro (r :: t)]
      intro b hb
      cases hb with
      | head => omega
      | tail _ hb' => have := hall b hb'; omega

/-- the decoded rows of a schedule, page after page -/
def schedRows (sch : List (List α × List Rg)) : List α :=
  sch.flatMap (fun p => p.2.flatMap (slice p.1))

/-- `schedPages` serves exactly the requested rows and never indexes past the last page -/
theorem schedPages_spec (pages : List (List α)) (gro : Nat) (rs : List Rg) (hok : Ok gro rs)
    (hb : ∀ r ∈ rs, r.e ≤ gro + pages.flatten.length) :
    ∃ sch, schedPages pages gro rs = some sch
      ∧ schedRows sch = rs.flatMap (sliceG pages.flatten gro)
      ∧ (∀ p ∈ sch, ∀ x ∈ p.2, x.e ≤ p.1.length) := by
  induction pages generalizing gro rs with
  | nil =>
    cases rs with
    | nil => exact ⟨[], rfl, rfl, fun p hp => by cases hp⟩
    | cons r t =>
      have := hb r (by simp)
      have := hok.1
      simp at *; omega
  | cons p ps ih =>
    cases rs with
    | nil => exact ⟨[], by simp [schedPages], rfl, fun p hp => by cases hp⟩
    | cons r t =>
      have hlen : (p :: ps).flatten.length = p.length + ps.flatten.length := by simp
      unfold schedPages
      by_cases hs : p.length + gro ≤ r.s
      · rw [if_pos hs]
        have hch := hok.2
        have hrs := chained_head hch
        have hall := chained_all hch
        obtain ⟨sch, e1, e2, e3⟩ := ih (gro + p.length) (r :: t) ⟨by omega, hch⟩
          (fun x hx => by have := hb x hx; omega)
        refine ⟨sch, e1, ?_, e3⟩
        rw [e2, List.flatten_cons, flatMap_sliceG_later p ps.flatten gro (r :: t)]
        intro b hb'
        cases hb' with
        | head => omega
        | tail _ hb'' => have := hall b hb''; omega
      · rw [if_neg hs]
        obtain ⟨i1, i2, i3, i4⟩ := inPage_spec p ps.flatten gro (r :: t) hok
        obtain ⟨sch, e1, e2, e3⟩ := ih (gro + p.length) (inPage p.length gro (r :: t)).2 i2
          (fun x hx => by have := hb x (i4 x hx); omega)
        rw [e1]
        refine ⟨_, rfl, ?_, ?_⟩
        · simp only [schedRows, List.flatMap_cons] at *
          rw [e2, List.flatten_cons, i1]
        · intro y hy
          cases hy with
          | head => exact i3
          | tail _ hy' => exact e3 y hy'

theorem sliceG_zero (col : List α) (r : Rg) : sliceG col 0 r = slice col r := by
  simp [sliceG]

theorem ok_zero {rs : List Rg} (h : Chained rs) : Ok 0 rs := by
  cases rs with
  | nil => trivial
  | cons r t => exact ⟨by have := chained_head h; omega, h⟩

/-! ### `indices_to_ranges` -/

theorem slice_succ (col : List α) (a b : Nat) (hab : a ≤ b) (hb : b < col.length) :
    slice col ⟨a, b + 1⟩ = slice col ⟨a, b⟩ ++ [col[b]] := by
  simp only [slice]
  have : b + 1 - a = (b - a) + 1 := by omega
  rw [this, List.take_add]
  congr 1
  rw [List.drop_drop]
  have : a + (b - a) = b := by omega
  rw [this]
  rw [List.drop_eq_getElem_cons hb]; rfl

theorem slice_one (col : List α) (b : Nat) (hb : b < col.length) : slice col ⟨b, b + 1⟩ = [col[b]] := by
  have := slice_succ col b b (Nat.le_refl _) hb
  rw [this, slice_empty_of_ge _ _ _ (Nat.le_refl _)]; rfl

theorem idxRangesAux_rows (col : List α) (start prev : Nat) (xs : List Nat) (h : start ≤ prev)
    (hp : prev < col.length) (hx : ∀ x ∈ xs, x < col.length) :
    (idxRangesAux start prev xs).flatMap (slice col)
      = slice col ⟨start, prev + 1⟩ ++ xs.filterMap (fun i => col[i]?) := by
  induction xs generalizing start prev with
  | nil => simp [idxRangesAux]
  | cons x t ih =>
    have hxl := hx x (by simp)
    unfold idxRangesAux
    by_cases hc : x ≠ prev + 1
    · rw [if_pos hc]
      simp only [List.flatMap_cons]
      rw [ih x x (Nat.le_refl _) hxl (fun y hy => hx y (by simp [hy])), slice_one col x hxl]
      simp [List.getElem?_eq_getElem hxl]
    · rw [if_neg hc]
      have hx' : x = prev + 1 := by omega
      subst hx'
      rw [ih start (prev + 1) (by omega) hxl (fun y hy => hx y (by simp [hy]))]
      rw [slice_succ col start (prev + 1) (by omega) hxl]
      simp [List.getElem?_eq_getElem hxl]

theorem indicesToRanges_rows (col : List α) (is : List Nat) (h : ∀ i ∈ is, i < col.length) :
    (indicesToRanges is).flatMap (slice col) = is.filterMap (fun i => col[i]?) := by
  cases is with
  | nil => rfl
  | cons x t =>
    have hx := h x (by simp)
    unfold indicesToRanges
    rw [idxRangesAux_rows col x x t (Nat.le_refl _) hx (fun y hy => h y (by simp [hy])), slice_one col x hx]
    simp [List.getElem?_eq_getElem hx]

/-- the first range of `idxRangesAux start prev xs` starts at `start` -/
theorem idxRangesAux_cons (start prev : Nat) (xs : List Nat) :
    ∃ e t, idxRangesAux start prev xs = ⟨start, e⟩ :: t := by
  induction xs generalizing prev with
  | nil => exact ⟨_, _, rfl⟩
  | cons x t ih =>
    unfold idxRangesAux
    by_cases hc : x ≠ prev + 1
    · rw [if_pos hc]; exact ⟨_, _, rfl⟩
    · rw [if_neg hc]; exact ih x

/-- sorted (repeats allowed) indices give chained ranges -/
theorem idxRangesAux_chained (start prev : Nat) (xs : List Nat) (h : start ≤ prev)
    (hs : List.Pairwise (· ≤ ·) (prev :: xs)) : Chained (idxRangesAux start prev xs) := by
  induction xs generalizing start prev with
  | nil => simp [idxRangesAux, Chained]; omega
  | cons x t ih =>
    have hpx : prev ≤ x := (List.pairwise_cons.mp hs).1 x (by simp)
    have hs' : List.Pairwise (· ≤ ·) (x :: t) := (List.pairwise_cons.mp hs).2
    unfold idxRangesAux
    by_cases hc : x ≠ prev + 1
    · rw [if_pos hc]
      obtain ⟨e, t', he⟩ := idxRangesAux_cons x x t
      have := ih x x (Nat.le_refl _) hs'
      rw [he] at this ⊢
      exact ⟨by show start < prev + 1; omega, by show prev + 1 ≤ x + 1; omega, this⟩
    · rw [if_neg hc]
      exact ih start x (by omega) hs'

theorem indicesToRanges_chained (is : List Nat) (hs : List.Pairwise (· ≤ ·) is) :
    Chained (indicesToRanges is) := by
  cases is with
  | nil => trivial
  | cons x t => exact idxRangesAux_chained x x t (Nat.le_refl _) hs

theorem idxRangesAux_bound (n start prev : Nat) (xs : List Nat) (hp : prev < n) (hx : ∀ x ∈ xs, x < n) :
    ∀ r ∈ idxRangesAux start prev xs, r.e ≤ n := by
  induction xs generalizing start prev with
  | nil => intro r hr; simp [idxRangesAux] at hr; subst hr; exact hp
  | cons x t ih =>
    have hxl := hx x (by simp)
    unfold idxRangesAux
    by_cases hc : x ≠ prev + 1
    · rw [if_pos hc]
      intro r hr
      cases hr with
      | head => exact hp
      | tail _ hr' => exact ih x x hxl (fun y hy => hx y (by simp [hy])) r hr'
    · rw [if_neg hc]
      exact ih start x hxl (fun y hy => hx y (by simp [hy]))

theorem indicesToRanges_bound (n : Nat) (is : List Nat) (h : ∀ i ∈ is, i < n) :
    ∀ r ∈ indicesToRanges is, r.e ≤ n := by
  cases is with
  | nil => intro r hr; cases hr
  | cons x t => exact idxRangesAux_bound n x x t (h x (by simp)) (fun y hy => h y (by simp [hy]))

/-- `Σ (end - start)` of the ranges built from an index list = number of indices -/
theorem idxRangesAux_numRows (start prev : Nat) (xs : List Nat) (h : start ≤ prev) :
    numRows (idxRangesAux start prev xs) = prev + 1 - start + xs.length := by
  induction xs generalizing start prev with
  | nil => simp [idxRangesAux, numRows, Rg.len]
  | cons x t ih =>
    unfold idxRangesAux
    by_cases hc : x ≠ prev + 1
    · rw [if_pos hc]
      have := ih x x (Nat.le_refl _)
      simp only [numRows, List.map_cons, List.sum_cons, Rg.len, List.length_cons] at *
      omega
    · rw [if_neg hc]
      have := ih start x (by omega)
      simp only [List.length_cons]; omega

theorem indicesToRanges_numRows (is : List Nat) : numRows (indicesToRanges is) = is.length := by
  cases is with
  | nil => rfl
  | cons x t =>
    have := idxRangesAux_numRows x x t (Nat.le_refl _)
    simp only [indicesToRanges, List.length_cons]; omega

end LanceModel.C25
