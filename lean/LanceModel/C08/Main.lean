import LanceModel.C08.Driver
def main : IO Unit := LanceModel.Util.runDriver LanceModel.C08.Driver.step {}
