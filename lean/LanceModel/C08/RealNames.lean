import LanceModel.C08.Lemmas
import LanceModel.C33.DecLemmas
/-
C08: the real manifest file names (`ManifestNamingScheme::manifest_path`, modelled in C33) satisfy the naming clause of
`WF`: `path_if_not_referenced` answers "keep" on them.
-/
namespace LanceModel.C08
open LanceModel.C33 (manifestName manifestExt Scheme isDetached dec pad20 u64Max digitChar)

theorem afterLastDot_append (a b e : List Char) (h : afterLastDot b = some e) : afterLastDot (a ++ b) = some e := by
  induction a with
  | nil => exact h
  | cons c t ih => simp [afterLastDot, ih]

theorem startsWith_common_prefix (a s p : List Char) (c d : Char) (h : d ≠ c) :
    startsWith (a ++ c :: s) (a ++ d :: p) = false := by
  induction a with
  | nil => exact startsWith_first_ne c d s p h
  | cons x t ih => simpa [startsWith, List.isPrefixOf] using ih

/-- `_versions/<digits>.manifest` is a manifest path, whatever the (non-empty) digit string -/
theorem digits_manifest_path (ds : List Char) (hne : ds ≠ []) (hd : ∀ c ∈ ds, c ≠ '.') :
    isManifestPath ["_versions".toList, ds ++ manifestExt] = true := by
  obtain ⟨c, t, rfl⟩ := List.exists_cons_of_ne_nil hne
  have hc : c ≠ '.' := hd c (by simp)
  have hv : "_versions".toList = ['_', 'v', 'e', 'r', 's', 'i', 'o', 'n', 's'] := by decide
  have hj : joined ["_versions".toList, (c :: t) ++ manifestExt] =
      ['_', 'v', 'e', 'r', 's', 'i', 'o', 'n', 's', '/'] ++ c :: (t ++ manifestExt) := by
    simp [joined_two, hv]
  have h1 : startsWith (joined ["_versions".toList, (c :: t) ++ manifestExt]) VERSIONS_TMP = false := by
    rw [hj, VERSIONS_TMP_eq]
    exact startsWith_common_prefix ['_', 'v', 'e', 'r', 's', 'i', 'o', 'n', 's', '/'] _ ['t', 'm', 'p'] c '.' (Ne.symm hc)
  have h2 : startsWith (joined ["_versions".toList, (c :: t) ++ manifestExt]) INDICES = false := by
    rw [hj, INDICES_eq]
    exact startsWith_second_ne _ _ _ _ _ (by decide)
  have h3 : extension ["_versions".toList, (c :: t) ++ manifestExt] = some "manifest".toList := by
    have hal : afterLastDot ((c :: t) ++ manifestExt) = some "manifest".toList :=
      afterLastDot_append _ _ _ (by decide)
    have hg : ["_versions".toList, (c :: t) ++ manifestExt].getLast? = some ((c :: t) ++ manifestExt) := rfl
    unfold extension
    rw [hg]
    simp only [hal]
    rfl
  unfold isManifestPath
  rw [h1, h2, h3]
  decide

/-- every attached manifest name the real naming schemes produce is a manifest path -/
theorem real_manifest_names_ok (sch : Scheme) (v : Nat) (hv : v ≤ u64Max) (hdet : isDetached v = false) :
    isManifestPath ["_versions".toList, manifestName sch v] = true := by
  unfold manifestName
  rw [hdet]
  simp only [Bool.false_eq_true, if_false]
  cases sch with
  | V1 =>
    apply digits_manifest_path _ (C33.Dec.dec_ne_nil v)
    intro c hc
    obtain ⟨d, hd, rfl⟩ := C33.Dec.mem_dec hc
    exact C33.Dec.digitChar_ne_dot d hd
  | V2 =>
    have hlt : u64Max - v < 10 ^ 20 := by
      have : u64Max < 10 ^ 20 := by decide
      omega
    apply digits_manifest_path
    · intro h
      have := C33.Dec.pad20_length _ hlt
      rw [h] at this
      cases this
    · intro c hc
      obtain ⟨d, hd, rfl⟩ := C33.Dec.mem_pad20 hlt hc
      exact C33.Dec.digitChar_ne_dot d hd

end LanceModel.C08
