import LanceModel.C33.Model
/-
C08 model: cleanup never removes anything a retained version needs.

Counterpart of rust/lance/src/dataset/cleanup.rs (`CleanupTask::{run, process_manifests, process_manifest_file,
process_manifest, delete_unreferenced_files, path_if_not_referenced}`, `CleanupPolicy::should_clean`,
`CleanupPolicyBuilder::retain_n_versions`, `cleanup_old_versions`, `auto_cleanup_hook`), of
`Dataset::cleanup_old_versions` (rust/lance/src/dataset.rs), of `ObjectStoreExt::read_dir_all(unmodified_since)`
(rust/lance-io/src/object_store.rs) and of the call of `auto_cleanup_hook` in `commit_transaction`
(rust/lance/src/io/commit.rs), at /repo HEAD.

The table is an object store below the dataset base: the ATTACHED manifest files (`_versions/<n>.manifest`, the ones
`list_manifest_locations` yields, each with the parsed manifest) and every other object (data files, deletion files, index
files, transaction files, `.tmp` manifests, detached manifests, tag files, anything else) with its `last_modified` time
and size.  Paths are `object_store::path::Path`s relative to the base: lists of segments, a segment is a `List Char`.
Time is in seconds (Int); `now` is what `utc_now()` returns.

Import-free apart from the (import-free) C33 model (`parseU64` = `<u64 as FromStr>::from_str`), so the driver links natively.
-/
namespace LanceModel.C08

abbrev Seg := List Char
abbrev Path := List Seg

/-! ### `object_store::path::Path` -/

/-- `Path::as_ref()`: the segments joined with `/` -/
def joined : Path → List Char
  | [] => []
  | s :: [] => s
  | s :: u :: t => s ++ '/' :: joined (u :: t)

/-- `str::starts_with` -/
def startsWith (s pre : List Char) : Bool := pre.isPrefixOf s

/-- `str::rsplit_once('.')`, second component: the text after the LAST `.`; `none` when there is no `.` -/
def afterLastDot : List Char → Option (List Char)
  | [] => none
  | c :: t =>
    match afterLastDot t with
    | some e => some e
    | none => if c = '.' then some t else none

/-- `Path::extension()`: of the last segment; an empty extension is `None` -/
def extension (p : Path) : Option (List Char) :=
  match p.getLast? with
  | none => none
  | some f =>
    match afterLastDot f with
    | none => none
    | some e => if e.isEmpty then none else some e

/-! ### manifests -/

/-- format/manifest.rs `Manifest`: what cleanup reads of it -/
structure Manifest where
  version : Nat
  /-- `timestamp()` in seconds -/
  ts : Int
  /-- `DataFile::path` of every data file of every fragment -/
  data : List Seg
  /-- file name (`<fragment id>-<read version>-<id>.<arrow|bin>`) of the deletion file of every fragment that has one -/
  dels : List Seg
  /-- `transaction_file` -/
  txn : Option Seg
  /-- uuid of every index of the index section (`read_manifest_indexes`) -/
  idx : List Seg
  /-- config values of `lance.auto_cleanup.interval` / `.older_than` / `.retain_versions` -/
  cfgInterval : Option (List Char) := none
  cfgOlder : Option (List Char) := none
  cfgRetain : Option (List Char) := none
  deriving DecidableEq, Repr

def DATA : Seg := "data".toList
def DELETIONS : Seg := "_deletions".toList
def TRANSACTIONS : Seg := "_transactions".toList
def INDICES : Seg := "_indices".toList
def VERSIONS_TMP : List Char := "_versions/.tmp".toList

/-- `remove_prefix(data_dir().child(file.path), base)` -/
def dataPath (n : Seg) : Path := [DATA, n]
/-- `remove_prefix(deletion_file_path(base, fragment.id, delfile), base)` -/
def delPath (n : Seg) : Path := [DELETIONS, n]
/-- `Path::parse("_transactions")?.child(relative_tx_path)` -/
def txnPath (n : Seg) : Path := [TRANSACTIONS, n]

def Manifest.dataPaths (m : Manifest) : List Path := m.data.map dataPath
def Manifest.delPaths (m : Manifest) : List Path := m.dels.map delPath
def Manifest.txnPaths (m : Manifest) : List Path :=
  match m.txn with
  | some n => [txnPath n]
  | none => []

/-! ### the object store -/

/-- an attached manifest file: what `list_manifest_locations` + `read_manifest` yield, plus the object's metadata -/
structure MFile where
  path : Path
  mtime : Int
  size : Nat
  m : Manifest
  deriving DecidableEq, Repr

/-- any other object below the base -/
structure File where
  path : Path
  mtime : Int
  size : Nat
  deriving DecidableEq, Repr

structure Store where
  mans : List MFile
  files : List File
  deriving DecidableEq, Repr

def MFile.toFile (mf : MFile) : File := { path := mf.path, mtime := mf.mtime, size := mf.size }

/-- `object_store.read_dir_all(base, None)`: every object below the base -/
def Store.listing (s : Store) : List File := s.mans.map MFile.toFile ++ s.files

/-! ### policy -/

/-- cleanup.rs `CleanupPolicy` -/
structure Policy where
  beforeTs : Option Int
  beforeVer : Option Nat
  deleteUnverified : Bool
  errorIfTagged : Bool
  deriving DecidableEq, Repr

/-- `CleanupPolicy::default()` -/
def Policy.default : Policy :=
  { beforeTs := none, beforeVer := none, deleteUnverified := false, errorIfTagged := true }

/-- `CleanupPolicy::should_clean` -/
def Policy.shouldClean (p : Policy) (m : Manifest) : Bool :=
  (match p.beforeTs with
   | some t => decide (m.ts < t)
   | none => true) &&
  (match p.beforeVer with
   | some v => decide (m.version < v)
   | none => true)

/-- `process_manifest_file`: `is_latest || !should_clean(manifest) || is_tagged`, with `is_latest = dataset_version <=
    manifest.version` (`dsv` is the version of the HANDLE cleanup runs through) -/
def inWorkingSet (p : Policy) (dsv : Nat) (tags : List Nat) (m : Manifest) : Bool :=
  decide (dsv ≤ m.version) || !p.shouldClean m || tags.contains m.version

/-- `process_manifest_file`: `is_tagged && !is_latest && should_clean(manifest)` -/
def taggedOld (p : Policy) (dsv : Nat) (tags : List Nat) (m : Manifest) : Bool :=
  tags.contains m.version && !decide (dsv ≤ m.version) && p.shouldClean m

/-- cleanup.rs `ReferencedFiles` (hash sets; here lists with membership semantics) -/
structure Refs where
  data : List Path
  dels : List Path
  txn : List Path
  idx : List Seg
  deriving Repr

/-- `process_manifest` over a set of manifests -/
def refsOf (ms : List MFile) : Refs :=
  { data := ms.flatMap (fun mf => mf.m.dataPaths)
    dels := ms.flatMap (fun mf => mf.m.delPaths)
    txn := ms.flatMap (fun mf => mf.m.txnPaths)
    idx := ms.flatMap (fun mf => mf.m.idx) }

/-- minimum of the commit timestamps (`earliest_retained_manifest_time`) -/
def minTs : List Int → Option Int
  | [] => none
  | t :: r =>
    match minTs r with
    | some u => some (if t < u then t else u)
    | none => some t

/-- cleanup.rs `CleanupInspection` -/
structure Inspection where
  old : List MFile
  referenced : Refs
  verified : Refs
  taggedOld : List Nat
  earliest : Option Int

/-- `process_manifests`: the manifests are processed concurrently in arbitrary order and accumulated into sets, a list of
    old manifest paths and a minimum; the result as a function of the listing -/
def inspect (p : Policy) (dsv : Nat) (tags : List Nat) (ms : List MFile) : Inspection :=
  { old := ms.filter (fun mf => !inWorkingSet p dsv tags mf.m)
    referenced := refsOf (ms.filter (fun mf => inWorkingSet p dsv tags mf.m))
    verified := refsOf (ms.filter (fun mf => !inWorkingSet p dsv tags mf.m))
    taggedOld := (ms.filter (fun mf => taggedOld p dsv tags mf.m)).map (fun mf => mf.m.version)
    earliest := minTs ((ms.filter (fun mf => inWorkingSet p dsv tags mf.m)).map (fun mf => mf.m.ts)) }

/-! ### the per-path decision -/

/-- the three-way rule shared by data / deletion / index files: referenced by the working set → keep; otherwise delete when
    not possibly in progress, or when verified (referenced by an old manifest) -/
def decide3 (referenced verified maybeInProgress : Bool) : Bool :=
  if referenced then false else if !maybeInProgress then true else verified

/-- `path_if_not_referenced`, the `_indices` block: `some b` = the function returns there (`b` = delete), `none` = falls
    through to the extension match -/
def indexDecision (p : Path) (mip : Bool) (i : Inspection) : Option Bool :=
  match p[1]? with
  | some uuid =>
    if i.referenced.idx.contains uuid then some false
    else if !mip then some true
    else if i.verified.idx.contains uuid then some true
    else none
  | none => some false

/-- `path_if_not_referenced`, the `match path.extension()` block -/
def extDecision (p : Path) (mip : Bool) (i : Inspection) : Bool :=
  match extension p with
  | some e =>
    if e = "lance".toList then
      if startsWith (joined p) DATA then decide3 (i.referenced.data.contains p) (i.verified.data.contains p) mip
      else false
    else if e = "manifest".toList then false
    else if e = "arrow".toList ∨ e = "bin".toList then
      if startsWith (joined p) DELETIONS then decide3 (i.referenced.dels.contains p) (i.verified.dels.contains p) mip
      else false
    else if e = "txn".toList then
      if startsWith (joined p) TRANSACTIONS then
        (if i.referenced.txn.contains p then false else (!mip || i.verified.txn.contains p))
      else false
    else false
  | none => false

/-- `CleanupTask::path_if_not_referenced`: `true` = `Ok(Some(path))` (delete), `false` = `Ok(None)` (keep).  `p` is the
    path relative to the base; `mip` = `maybe_in_progress` -/
def pathIfNotReferenced (p : Path) (mip : Bool) (i : Inspection) : Bool :=
  if startsWith (joined p) VERSIONS_TMP then !mip
  else if startsWith (joined p) INDICES then
    match indexDecision p mip i with
    | some b => b
    | none => extDecision p mip i
  else extDecision p mip i

/-! ### the task -/

def DAY : Int := 86400
/-- cleanup.rs `UNVERIFIED_THRESHOLD_DAYS` -/
def UNVERIFIED_THRESHOLD_DAYS : Int := 7

/-- `delete_unreferenced_files`: `maybe_in_progress = !delete_unverified && last_modified >= verification_threshold` -/
def maybeInProgress (p : Policy) (now : Int) (f : File) : Bool :=
  !p.deleteUnverified && decide (f.mtime ≥ now - UNVERIFIED_THRESHOLD_DAYS * DAY)

/-- `read_dir_all(base, unmodified_since)`: `last_modified <= unmodified_since` when given -/
def unmodifiedSince (e : Option Int) (f : File) : Bool :=
  match e with
  | some t => decide (f.mtime ≤ t)
  | none => true

/-- the objects `delete_unreferenced_files` selects from the listing (the `unreferenced_paths` stream) -/
def candidates (p : Policy) (now : Int) (i : Inspection) (s : Store) : List File :=
  (s.listing.filter (unmodifiedSince i.earliest)).filter
    (fun f => pathIfNotReferenced f.path (maybeInProgress p now f) i)

/-- cleanup.rs `RemovalStats` -/
structure Stats where
  bytesRemoved : Nat
  oldVersions : Nat
  deriving DecidableEq, Repr

def removePaths (s : Store) (rm : List Path) : Store :=
  { mans := s.mans.filter (fun mf => !rm.contains mf.path)
    files := s.files.filter (fun f => !rm.contains f.path) }

inductive Outcome where
  /-- `Ok(stats)`: the store afterwards, the paths passed to `remove_stream` -/
  | ok (s : Store) (removed : List Path) (stats : Stats)
  /-- `Err(Error::Cleanup)` from `tagged_old_versions_cleanup_error`; nothing was deleted -/
  | errTagged (versions : List Nat)
  deriving Repr

/-- everything `delete_unreferenced_files` passes to `remove_stream` -/
def removedPaths (p : Policy) (now : Int) (i : Inspection) (s : Store) : List Path :=
  (candidates p now i s).map (fun f => f.path) ++ i.old.map (fun mf => mf.path)

/-- `CleanupTask::run` (= `cleanup_old_versions(dataset, policy)`) through a handle at version `dsv`, with the versions
    `tags` tagged, at time `now` -/
def cleanup (p : Policy) (now : Int) (dsv : Nat) (tags : List Nat) (s : Store) : Outcome :=
  if p.errorIfTagged && !(inspect p dsv tags s.mans).taggedOld.isEmpty then
    .errTagged (inspect p dsv tags s.mans).taggedOld
  else
    .ok (removePaths s (removedPaths p now (inspect p dsv tags s.mans) s))
      (removedPaths p now (inspect p dsv tags s.mans) s)
      { bytesRemoved := ((candidates p now (inspect p dsv tags s.mans) s).map (fun f => f.size)).sum +
          ((inspect p dsv tags s.mans).old.map (fun mf => mf.size)).sum
        oldVersions := (inspect p dsv tags s.mans).old.length }

/-- the store after a cleanup call (unchanged on error) -/
def Outcome.store (o : Outcome) (s : Store) : Store :=
  match o with
  | .ok s' _ _ => s'
  | .errTagged _ => s

/-! ### policy builders -/

/-- `Dataset::cleanup_old_versions(older_than, delete_unverified, error_if_tagged_old_versions)`:
    `before_timestamp = utc_now() - older_than`, the two options override the defaults when given -/
def policyOlderThan (now older : Int) (unv errTag : Option Bool) : Policy :=
  { beforeTs := some (now - older), beforeVer := none
    deleteUnverified := unv.getD Policy.default.deleteUnverified
    errorIfTagged := errTag.getD Policy.default.errorIfTagged }

def insertAsc (x : Nat) : List Nat → List Nat
  | [] => [x]
  | y :: t => if x ≤ y then x :: y :: t else y :: insertAsc x t

/-- `Dataset::versions()`: the versions of the attached manifests, ascending -/
def Store.versions (s : Store) : List Nat := (s.mans.map (fun mf => mf.m.version)).foldr insertAsc []

/-- `CleanupPolicyBuilder::retain_n_versions`: `before_version = versions[0]` when there are at most `n` versions, else
    `versions[len - n]`.  `none` = the index is out of bounds (the real code panics): `n = 0`, or no manifest at all -/
def retainBefore (versions : List Nat) (n : Nat) : Option Nat :=
  if versions.length ≤ n then versions[0]? else versions[versions.length - n]?

/-! ### auto cleanup -/

/-- humantime `Unit::from_str`, the units of whole seconds (`Second` … `Year`); the sub-second units are not modelled -/
def unitSeconds (u : List Char) : Option Nat :=
  if u ∈ ["seconds".toList, "second".toList, "secs".toList, "sec".toList, "s".toList] then some 1
  else if u ∈ ["minutes".toList, "minute".toList, "min".toList, "mins".toList, "m".toList] then some 60
  else if u ∈ ["hours".toList, "hour".toList, "hr".toList, "hrs".toList, "h".toList] then some 3600
  else if u ∈ ["days".toList, "day".toList, "d".toList] then some 86400
  else if u ∈ ["weeks".toList, "week".toList, "wk".toList, "wks".toList, "w".toList] then some 604800
  else if u ∈ ["months".toList, "month".toList, "M".toList] then some 2630016
  else if u ∈ ["years".toList, "year".toList, "yr".toList, "yrs".toList, "y".toList] then some 31557600
  else none

/-- the part of `humantime::parse_duration` (2.3.0) the model covers: `"0"`, or ONE component `<digits*><unit>` with a unit
    of whole seconds (the first character must be a digit: `parse_first_char`; `n * unit` must fit u64).  Everything else is `none`; the real
    parser also accepts several components, whitespace, fractions and sub-second units — the correspondence run does not
    generate those, and a value so large that `utc_now() - older_than` overflows makes the real hook panic. -/
def parseDuration (s : List Char) : Option Int :=
  if s = ['0'] then some 0
  else
    match unitSeconds (s.dropWhile Char.isDigit) with
    | none => none
    | some k =>
      match C33.parseBody (s.takeWhile Char.isDigit) with
      | none => none
      | some n => if n * k ≤ C33.u64Max then some ((n * k : Nat) : Int) else none

inductive Auto where
  /-- no `lance.auto_cleanup.interval`, or the version is not a multiple of it -/
  | skipped
  /-- `Err(Error::Cleanup)` while parsing a config value (logged and ignored by the commit) -/
  | errConfig
  /-- the hook panics: `version % 0`, or `versions[len - 0]` in `retain_n_versions` -/
  | panic
  | ran (o : Outcome)
  deriving Repr

/-- `auto_cleanup_hook(dataset, manifest)` as `commit_transaction` calls it after the new manifest is in the store:
    `dataset` is the handle from BEFORE the commit (version `dsv`), `manifest` the new one, `s` the store with it -/
def autoCleanupHook (now : Int) (dsv : Nat) (tags : List Nat) (m : Manifest) (s : Store) : Auto :=
  match m.cfgInterval with
  | none => .skipped
  | some iv =>
    match C33.parseU64 iv with
    | none => .errConfig
    | some interval =>
      if interval = 0 then .panic
      else if m.version % interval ≠ 0 then .skipped
      else
        match (match m.cfgOlder with
               | none => some (none : Option Int)
               | some o => (parseDuration o).map (fun d => some (now - d))) with
        | none => .errConfig
        | some bts =>
          match m.cfgRetain with
          | none =>
            .ran (cleanup { Policy.default with beforeTs := bts } now dsv tags s)
          | some r =>
            match C33.parseU64 r with
            | none => .errConfig
            | some n =>
              match retainBefore s.versions n with
              | none => .panic
              | some bv => .ran (cleanup { Policy.default with beforeTs := bts, beforeVer := some bv } now dsv tags s)

/-! ### what a reader needs of a version -/

/-- is `p` a file of the index directory of one of the uuids? (`_indices/<uuid>/…`) -/
def isIndexFileOf (uuids : List Seg) (p : Path) : Bool :=
  match p with
  | d :: u :: _ :: _ => decide (d = INDICES) && uuids.contains u
  | _ => false

/-- every object of the store a manifest names: its data files, deletion files, transaction file and all files below the
    directories of its indices -/
def needed (m : Manifest) (p : Path) : Bool :=
  m.dataPaths.contains p || m.delPaths.contains p || m.txnPaths.contains p || isIndexFileOf m.idx p

/-- `checkout_version(v)` + dereference: the manifest object of version `v` and the objects it names that exist, with
    their metadata (an object's content is immutable, its identity stands for it); `none` when there is no manifest -/
def read (s : Store) (v : Nat) : Option (MFile × List File) :=
  match s.mans.find? (fun mf => mf.m.version = v) with
  | none => none
  | some mf => some (mf, s.files.filter (fun f => needed mf.m f.path))

/-- every path a manifest names exactly (index directories are named by uuid, not by path) -/
def Manifest.paths (m : Manifest) : List Path := m.dataPaths ++ m.delPaths ++ m.txnPaths

/-- the version is complete: every data / deletion / transaction file its manifest names exists -/
def complete (s : Store) (m : Manifest) : Bool :=
  m.paths.all (fun p => s.files.any (fun f => f.path = p))

end LanceModel.C08
