import LanceModel.C08.Lemmas
/-
C08: the removed set of one cleanup call — what can and what cannot be in it.
-/
namespace LanceModel.C08

theorem cleanup_ok {pol : Policy} {now : Int} {dsv : Nat} {tags : List Nat} {s s' : Store} {rm : List Path} {st : Stats}
    (h : cleanup pol now dsv tags s = .ok s' rm st) :
    rm = removedPaths pol now (inspect pol dsv tags s.mans) s ∧ s' = removePaths s rm ∧
      st.oldVersions = (inspect pol dsv tags s.mans).old.length ∧
      st.bytesRemoved = ((candidates pol now (inspect pol dsv tags s.mans) s).map (fun f => f.size)).sum +
        ((inspect pol dsv tags s.mans).old.map (fun mf => mf.size)).sum := by
  unfold cleanup at h
  split at h
  · cases h
  · injection h with h1 h2 h3
    subst h2
    subst h1
    subst h3
    exact ⟨rfl, rfl, rfl, rfl⟩

theorem mem_removePaths_files {s : Store} {rm : List Path} {f : File} :
    f ∈ (removePaths s rm).files ↔ f ∈ s.files ∧ f.path ∉ rm := by
  simp [removePaths, List.mem_filter]

theorem mem_removePaths_mans {s : Store} {rm : List Path} {mf : MFile} :
    mf ∈ (removePaths s rm).mans ↔ mf ∈ s.mans ∧ mf.path ∉ rm := by
  simp [removePaths, List.mem_filter]

/-- a path on which the decision is "keep" whatever `maybe_in_progress` is, is not among the selected objects -/
theorem not_candidate {pol : Policy} {now : Int} {i : Inspection} {s : Store} {p : Path}
    (h : ∀ mip, pathIfNotReferenced p mip i = false) :
    p ∉ (candidates pol now i s).map (fun f => f.path) := by
  intro hm
  obtain ⟨c, hc, rfl⟩ := List.mem_map.mp hm
  simp only [candidates, List.mem_filter] at hc
  rw [h] at hc
  exact absurd hc.2 (by simp)

theorem mem_old {pol : Policy} {dsv : Nat} {tags : List Nat} {ms : List MFile} {mf : MFile} :
    mf ∈ (inspect pol dsv tags ms).old ↔ mf ∈ ms ∧ inWorkingSet pol dsv tags mf.m = false := by
  simp [inspect, List.mem_filter]

/-- an attached manifest's path is in the removed set exactly when the manifest is old -/
theorem man_removed_iff {pol : Policy} {now : Int} {dsv : Nat} {tags : List Nat} {s : Store} (hwf : WF s)
    {mf : MFile} (hm : mf ∈ s.mans) :
    mf.path ∈ removedPaths pol now (inspect pol dsv tags s.mans) s ↔ inWorkingSet pol dsv tags mf.m = false := by
  unfold removedPaths
  rw [List.mem_append]
  constructor
  · rintro (h | h)
    · exact absurd h (not_candidate (fun mip => pinr_manifest _ mip _ (hwf.man_paths mf hm)))
    · obtain ⟨o, ho, he⟩ := List.mem_map.mp h
      have ho' := mem_old.mp ho
      have : o = mf := hwf.man_path_inj ho'.1 hm he
      subst this
      exact ho'.2
  · intro h
    exact Or.inr (List.mem_map.mpr ⟨mf, mem_old.mpr ⟨hm, h⟩, rfl⟩)

/-- on a path that a working-set manifest of the inspected listing names, the per-path decision is "keep" -/
theorem needed_keep {pol : Policy} {dsv : Nat} {tags : List Nat} {ms : List MFile}
    {mf : MFile} (hm : mf ∈ ms) (hws : inWorkingSet pol dsv tags mf.m = true)
    {p : Path} (hn : needed mf.m p = true) (mip : Bool) :
    pathIfNotReferenced p mip (inspect pol dsv tags ms) = false := by
  have hin : mf ∈ ms.filter (fun x => inWorkingSet pol dsv tags x.m) := List.mem_filter.mpr ⟨hm, hws⟩
  simp only [needed, Bool.or_eq_true] at hn
  rcases hn with ((hd | hd) | hd) | hd
  · have hd' : p ∈ mf.m.dataPaths := by simpa using hd
    obtain ⟨n, _, hn⟩ := List.mem_map.mp hd'
    rw [← hn]
    apply pinr_data
    rw [hn]
    exact (mem_refs_data _ _).mpr ⟨mf, hin, hd'⟩
  · have hd' : p ∈ mf.m.delPaths := by simpa using hd
    obtain ⟨n, _, hn⟩ := List.mem_map.mp hd'
    rw [← hn]
    apply pinr_del
    rw [hn]
    exact (mem_refs_dels _ _).mpr ⟨mf, hin, hd'⟩
  · have hd' : p ∈ mf.m.txnPaths := by simpa using hd
    have : ∃ n, p = txnPath n := by
      unfold Manifest.txnPaths at hd'
      split at hd'
      · rename_i n _
        exact ⟨n, by simpa using hd'⟩
      · cases hd'
    obtain ⟨n, hn⟩ := this
    rw [hn]
    apply pinr_txn
    rw [← hn]
    exact (mem_refs_txn _ _).mpr ⟨mf, hin, hd'⟩
  · rcases p with _ | ⟨d, _ | ⟨u, _ | ⟨x, rest⟩⟩⟩
    · simp [isIndexFileOf] at hd
    · simp [isIndexFileOf] at hd
    · simp [isIndexFileOf] at hd
    · simp only [isIndexFileOf, Bool.and_eq_true, decide_eq_true_eq] at hd
      rw [hd.1]
      apply pinr_idx
      exact (mem_refs_idx _ _).mpr ⟨mf, hin, by simpa using hd.2⟩

/-- every object a working-set manifest names stays out of the removed set -/
theorem needed_not_removed {pol : Policy} {now : Int} {dsv : Nat} {tags : List Nat} {s : Store} (hwf : WF s)
    {mf : MFile} (hm : mf ∈ s.mans) (hws : inWorkingSet pol dsv tags mf.m = true)
    {f : File} (hf : f ∈ s.files) (hn : needed mf.m f.path = true) :
    f.path ∉ removedPaths pol now (inspect pol dsv tags s.mans) s := by
  unfold removedPaths
  rw [List.mem_append]
  rintro (h | h)
  · exact absurd h (not_candidate (fun mip => needed_keep hm hws hn mip))
  · obtain ⟨o, ho, he⟩ := List.mem_map.mp h
    exact hwf.man_file_disjoint (mem_old.mp ho).1 hf he

/-- when a possibly-in-progress path is selected, some OLD manifest of the inspected listing mentions it -/
theorem selected_mip_mentioned {pol : Policy} {dsv : Nat} {tags : List Nat} {ms : List MFile} {p : Path}
    (h : pathIfNotReferenced p true (inspect pol dsv tags ms) = true) :
    ∃ mf ∈ ms, inWorkingSet pol dsv tags mf.m = false ∧ mentions mf.m p = true := by
  have hv := pinr_mip _ _ h
  simp only [inspect] at hv
  rcases hv with hv | hv | hv | ⟨u, hu, hv⟩
  · obtain ⟨mf, hmf, hp⟩ := (mem_refs_data _ _).mp (by simpa using hv)
    have := List.mem_filter.mp hmf
    exact ⟨mf, this.1, by simpa using this.2, by simp [mentions, hp]⟩
  · obtain ⟨mf, hmf, hp⟩ := (mem_refs_dels _ _).mp (by simpa using hv)
    have := List.mem_filter.mp hmf
    exact ⟨mf, this.1, by simpa using this.2, by simp [mentions, hp]⟩
  · obtain ⟨mf, hmf, hp⟩ := (mem_refs_txn _ _).mp (by simpa using hv)
    have := List.mem_filter.mp hmf
    exact ⟨mf, this.1, by simpa using this.2, by simp [mentions, hp]⟩
  · obtain ⟨mf, hmf, hp⟩ := (mem_refs_idx _ _).mp (by simpa using hv)
    have := List.mem_filter.mp hmf
    exact ⟨mf, this.1, by simpa using this.2, by simp [mentions, hu, hp]⟩

end LanceModel.C08
