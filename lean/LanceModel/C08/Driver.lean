import LanceModel.Util
import LanceModel.C08.Model
/-
C08 driver.  One output line per op line (grammar: harness/src/bin/c08.rs).

History lines carry the structure the real run produced after ` => `: the driver echoes status / `M=` / `F=`, ingests the
new manifests and objects into the model store (manifest timestamp and every new object's mtime = the line's `t`), and
PREDICTS `R=` (objects that disappear during the op: auto cleanup after each new manifest, `untag`) and a panic of the
auto-cleanup hook.  Cleanup lines are answered by the model alone.
-/
namespace LanceModel.C08.Driver
open LanceModel.Util LanceModel.C08

structure St where
  store : Store := { mans := [], files := [] }
  tags : List (String × Nat) := []
  tableExists : Bool := false
  held : Option Nat := none

def arg (toks : List String) (key : String) : Option String :=
  toks.findSome? (fun t => if t.startsWith (key ++ "=") then some ((t.drop (key.length + 1)).toString) else none)

def strictNat (s : String) : Option Nat :=
  if s.length = 0 ∨ s.length > 15 ∨ !(s.toList.all Char.isDigit) then none else s.toNat?

def strictInt (s : String) : Option Int :=
  if s.startsWith "-" then (strictNat (s.drop 1).toString).map (fun n => - (n : Int))
  else (strictNat s).map (fun n => (n : Int))

def argNat (toks : List String) (key : String) : Option Nat := (arg toks key).bind strictNat
def argInt (toks : List String) (key : String) : Option Int := (arg toks key).bind strictInt

def argOptBool (toks : List String) (key : String) : Option (Option Bool) :=
  match arg toks key with
  | some "-" => some none
  | some "0" => some (some false)
  | some "1" => some (some true)
  | _ => none

def argBool (toks : List String) (key : String) : Option Bool :=
  match argOptBool toks key with
  | some (some b) => some b
  | _ => none

def optInt (toks : List String) (key : String) : Option (Option Int) :=
  match arg toks key with
  | some "-" => some none
  | some _ => (argInt toks key).map some
  | none => none

def optNat (toks : List String) (key : String) : Option (Option Nat) :=
  match arg toks key with
  | some "-" => some none
  | some _ => (argNat toks key).map some
  | none => none

/-- `h=l` (latest) or `h=<N>` -/
def handleArg (toks : List String) : Option (Option Nat) :=
  match arg toks "h" with
  | some "l" => some none
  | some _ => (argNat toks "h").map some
  | none => none

def parsePath (s : String) : Path := (s.splitOn "/").map String.toList
def showPath (p : Path) : String := "/".intercalate (p.map String.ofList)

def insertStr (x : String) : List String → List String
  | [] => [x]
  | y :: t => if x ≤ y then x :: y :: t else y :: insertStr x t

def showPaths (ps : List Path) : String :=
  let l := ((ps.map showPath).eraseDups).foldr insertStr []
  if l.isEmpty then "-" else ",".intercalate l

def parseNames (s : String) : List Seg := if s = "-" then [] else (s.splitOn ",").map String.toList

def parseCfgVal (s : String) : Option (List Char) :=
  if s.startsWith "=" then some (s.drop 1).toString.toList else none

inductive Head where
  | attached (v : Nat)
  | detached

/-- `v<N>|D<k> : data : dels : txn : idx : interval/older/retain` -/
def parseDesc (t : Int) (d : String) : Option (Head × Manifest) :=
  match d.splitOn ":" with
  | [h, data, dels, txn, idx, cfg] =>
    let head : Option Head :=
      if h.startsWith "v" then (strictNat (h.drop 1).toString).map Head.attached
      else if h.startsWith "D" then some Head.detached else none
    match head, cfg.splitOn "/" with
    | some hd, [ci, co, cr] =>
      some (hd,
        { version := (match hd with | .attached v => v | .detached => 0)
          ts := t
          data := parseNames data
          dels := parseNames dels
          txn := if txn = "-" then none else some txn.toList
          idx := parseNames idx
          cfgInterval := parseCfgVal ci
          cfgOlder := parseCfgVal co
          cfgRetain := parseCfgVal cr })
    | _, _ => none
  | _ => none

def manPath (v : Nat) : Path := ["_versions".toList, ("v" ++ toString v ++ ".manifest").toList]

def latestVersion (s : Store) : Nat := (s.mans.map (fun mf => mf.m.version)).foldl max 0

def tagVersions (st : St) : List Nat := st.tags.map (·.2)

structure Exp where
  status : String
  m : String
  f : String
  r : String

def parseExp (e : String) : Option Exp :=
  match splitTokens e with
  | [status, m, f, r] =>
    if m.startsWith "M=" ∧ f.startsWith "F=" ∧ r.startsWith "R=" then
      some { status := status, m := (m.drop 2).toString, f := (f.drop 2).toString, r := (r.drop 2).toString }
    else none
  | _ => none

/-- run the auto-cleanup hook for each new attached manifest, in version order; returns the store, the removed paths and
    whether the hook panicked.  `commit_transaction` hands the hook the dataset it committed on top of — the read version,
    checked out if the caller's handle is at another version (a restore through an old handle), or the latest one after a
    rebase — so the hook's handle is at the new version minus one -/
def runAutos (t : Int) (tags : List Nat) : List Manifest → Store → List Path → Store × List Path × Bool
  | [], s, rm => (s, rm, false)
  | m :: rest, s, rm =>
    match autoCleanupHook t (m.version - 1) tags m s with
    | .panic => (s, rm, true)
    | .ran (.ok s' removed _) => runAutos t tags rest s' (rm ++ removed)
    | _ => runAutos t tags rest s rm

def history (st : St) (op : String) (toks : List String) (t : Int) (e : Exp) : St × String :=
  let descs : List (Head × Manifest) :=
    if e.m = "-" then [] else (e.m.splitOn ";").filterMap (parseDesc t)
  let newMans : List MFile := descs.filterMap (fun d =>
    match d.1 with
    | .attached v => some { path := manPath v, mtime := t, size := 0, m := d.2 }
    | .detached => none)
  let newFiles : List File :=
    if e.f = "-" then [] else
      ((e.f.splitOn ",").map parsePath).filterMap (fun p =>
        if newMans.any (fun mf => mf.path = p) then none else some { path := p, mtime := t, size := 0 })
  let s1 : Store := { mans := st.store.mans ++ newMans, files := st.store.files ++ newFiles }
  let ok := e.status = "ok"
  -- tags / held handle
  let tags1 :=
    if ok ∧ op = "tag" then
      match arg toks "name", argNat toks "v" with
      | some n, some v => (n, v) :: st.tags.filter (·.1 ≠ n)
      | _, _ => st.tags
    else if ok ∧ op = "untag" then
      match arg toks "name" with
      | some n => st.tags.filter (·.1 ≠ n)
      | none => st.tags
    else st.tags
  let held1 :=
    if op = "hold" then (if ok then argNat toks "v" else st.held)
    else if op = "restore" then none else st.held
  -- objects that disappear
  let (s2, rm0) : Store × List Path :=
    if ok ∧ op = "untag" then
      match arg toks "name" with
      | some n =>
        let p : Path := ["_refs".toList, "tags".toList, (n ++ ".json").toList]
        (removePaths s1 [p], if s1.files.any (fun f => f.path = p) then [p] else [])
      | none => (s1, [])
    else (s1, [])
  let (s3, rm, panicked) := runAutos t (tags1.map (·.2)) (newMans.map (·.m)) s2 rm0
  -- a write that published a version reports ok whatever the auto-cleanup hook did (its error is only logged)
  let status :=
    if panicked then "panic"
    else if e.status = "panic" then "panic_unexpected"
    else if !newMans.isEmpty && e.status.startsWith "err_" then "ok" else e.status
  ({ store := s3, tags := tags1, tableExists := st.tableExists || op = "create", held := held1 },
    status ++ " M=" ++ e.m ++ " F=" ++ e.f ++ " R=" ++ showPaths rm)

def showOutcome (st : St) (o : Outcome) : St × String :=
  match o with
  | .ok s' removed stats =>
    ({ st with store := s' }, "ok old=" ++ toString stats.oldVersions ++ " R=" ++ showPaths removed)
  | .errTagged vs =>
    (st, "err tagged n=" ++ toString (st.tags.filter (fun tg => vs.contains tg.2)).length)

def knownOps : List String :=
  ["create", "append", "overwrite", "delete", "compact", "index", "tag", "untag", "config", "dappend", "orphan", "begin",
   "commit", "hold", "restore", "cleanup", "cleanp", "cleanr", "race"]

def okOrphanPath (p : String) : Bool :=
  !p.isEmpty && !p.startsWith "/" && !p.endsWith "/" && (p.splitOn "//").length = 1 && (p.splitOn "..").length = 1

def argsOk (op : String) (toks : List String) : Bool :=
  if op = "create" then
    (match argNat toks "n" with | some n => n ≤ 64 | none => false) && (argBool toks "v2").isSome
  else if op = "append" ∨ op = "overwrite" ∨ op = "dappend" ∨ op = "begin" then
    (match argNat toks "n" with | some n => n ≤ 64 | none => false)
  else if op = "delete" then (argInt toks "lt").isSome
  else if op = "tag" then (arg toks "name").isSome && (argNat toks "v").isSome
  else if op = "untag" then (arg toks "name").isSome
  else if op = "config" then (arg toks "i").isSome && (arg toks "o").isSome && (arg toks "r").isSome
  else if op = "orphan" then (match arg toks "p" with | some p => okOrphanPath p | none => false)
  else if op = "hold" then (argNat toks "v").isSome
  else if op = "race" then
    (match arg toks "kind" with
     | some k => k = "append" || k = "overwrite" || k = "delete" || k = "restore"
     | none => false) && (argBool toks "unv").isSome && (argBool toks "late").isSome && (argNat toks "seed").isSome
  else if op = "cleanup" then
    (handleArg toks).isSome && (argInt toks "older").isSome && (argOptBool toks "unv").isSome && (argOptBool toks "err").isSome
  else if op = "cleanp" then
    (handleArg toks).isSome && (optInt toks "bts").isSome && (optNat toks "bv").isSome && (argBool toks "unv").isSome
      && (argBool toks "err").isSome
  else if op = "cleanr" then
    (handleArg toks).isSome && (optInt toks "bts").isSome && (argNat toks "n").isSome && (argBool toks "unv").isSome
      && (argBool toks "err").isSome
  else true

def cleanupOp (st : St) (op : String) (toks : List String) (t : Int) : St × String :=
  let dsv? : Option Nat :=
    match handleArg toks with
    | some none => if st.store.mans.isEmpty then none else some (latestVersion st.store)
    | some (some v) => if st.store.mans.any (fun mf => mf.m.version = v) then some v else none
    | none => none
  match dsv? with
  | none => (st, "err no_handle")
  | some dsv =>
    let tags := tagVersions st
    if op = "cleanup" then
      match argInt toks "older", argOptBool toks "unv", argOptBool toks "err" with
      | some older, some unv, some err =>
        showOutcome st (cleanup (policyOlderThan t older unv err) t dsv tags st.store)
      | _, _, _ => (st, "err parse")
    else if op = "cleanp" then
      match optInt toks "bts", optNat toks "bv", argBool toks "unv", argBool toks "err" with
      | some bts, some bv, some unv, some err =>
        showOutcome st (cleanup { beforeTs := bts, beforeVer := bv, deleteUnverified := unv, errorIfTagged := err } t dsv tags st.store)
      | _, _, _, _ => (st, "err parse")
    else
      match optInt toks "bts", argNat toks "n", argBool toks "unv", argBool toks "err" with
      | some bts, some n, some unv, some err =>
        match retainBefore st.store.versions n with
        | none => (st, "panic")
        | some bv =>
          showOutcome st (cleanup { beforeTs := bts, beforeVer := some bv, deleteUnverified := unv, errorIfTagged := err } t dsv tags st.store)
      | _, _, _, _ => (st, "err parse")

def step (st : St) (line : String) : St × String :=
  let parts := line.splitOn " => "
  let left := parts.headD ""
  let toks := splitTokens left
  match toks.head? with
  | none => (st, "err parse")
  | some op =>
    match argInt toks "t" with
    | none => (st, "err parse")
    | some t =>
      if t < 0 ∨ t > 100000 * 86400 then (st, "err parse")
      else if !knownOps.contains op then (st, "err parse")
      else if !argsOk op toks then (st, "err parse")
      else if op = "race" then
        -- cleanup ∥ one writer on a table of its own: in the region of `race_safe` (an appending / rewriting writer with
        -- new, young files, `delete_unverified` off) the outcome is determined: the writer fails or its version is complete
        (st, if arg toks "kind" ≠ some "restore" ∧ argBool toks "unv" = some false ∧ argBool toks "late" = some false
             then "race safe" else "race unconstrained")
      else if op ≠ "create" ∧ !st.tableExists then (st, "err no_table")
      else if op = "create" ∧ st.tableExists then (st, "err exists")
      else if op = "cleanup" ∨ op = "cleanp" ∨ op = "cleanr" then cleanupOp st op toks t
      else
        match parts with
        | [_, e] =>
          match parseExp e with
          | some ex => history st op toks t ex
          | none => (st, "err exp")
        | _ => (st, "err exp")

end LanceModel.C08.Driver
