import LanceModel.C08.SafeLemmas
import LanceModel.C08.Race
import LanceModel.C08.RealNames
/-
C08 — cleanup never removes anything a retained version needs.

"Removing old versions deletes only manifests selected by the policy and files referenced by no retained version; the
latest version, tagged versions and every version the policy keeps remain fully readable afterwards.  Unless unverified
deletion was explicitly requested, files of writes still in progress and younger than the safety window are never deleted,
so a commit racing with cleanup either fails or publishes a version whose files all exist."

All theorems are about `cleanup pol now dsv tags s` (= `CleanupTask::run`) for ARBITRARY stores, policies, clocks, handle
versions and tag sets; `WF s` is what the object store and the manifest naming scheme guarantee (one object per path, one
manifest per version, attached manifests named `….manifest`).
-/
namespace LanceModel.C08

/-! ### a concrete store for the non-vacuity examples -/

def exM1 : Manifest :=
  { version := 1, ts := 100, data := ["a.lance".toList], dels := [], txn := some "0-t1.txn".toList, idx := [] }
def exM2 : Manifest :=
  { version := 2, ts := 200, data := ["a.lance".toList, "b.lance".toList], dels := ["0-1-7.arrow".toList],
    txn := some "1-t2.txn".toList, idx := ["u1".toList] }
def exM3 : Manifest :=
  { version := 3, ts := 300, data := ["c.lance".toList], dels := [], txn := some "2-t3.txn".toList, idx := ["u1".toList] }
def exStore : Store :=
  { mans := [ { path := ["_versions".toList, "1.manifest".toList], mtime := 100, size := 11, m := exM1 },
              { path := ["_versions".toList, "2.manifest".toList], mtime := 200, size := 12, m := exM2 },
              { path := ["_versions".toList, "3.manifest".toList], mtime := 300, size := 13, m := exM3 } ]
    files := [ { path := dataPath "a.lance".toList, mtime := 99, size := 5 },
               { path := dataPath "b.lance".toList, mtime := 199, size := 6 },
               { path := dataPath "c.lance".toList, mtime := 299, size := 7 },
               { path := delPath "0-1-7.arrow".toList, mtime := 199, size := 1 },
               { path := txnPath "0-t1.txn".toList, mtime := 99, size := 2 },
               { path := txnPath "1-t2.txn".toList, mtime := 199, size := 2 },
               { path := txnPath "2-t3.txn".toList, mtime := 299, size := 2 },
               { path := [INDICES, "u1".toList, "index.idx".toList], mtime := 150, size := 9 },
               { path := dataPath "orphan.lance".toList, mtime := 250, size := 4 },
               { path := ["_versions".toList, ".tmp_x".toList], mtime := 50, size := 3 } ] }

/-- everything is old except what the latest version (3) needs: handle at 3, no tags, cut-off far in the future -/
def exPol : Policy := { beforeTs := some 1000, beforeVer := none, deleteUnverified := false, errorIfTagged := true }

theorem exStore_wf : WF exStore := ⟨by decide, by decide, by decide⟩

/-! ### cleanup_safe -/

/-- **cleanup_safe.**  After a successful cleanup every manifest of the working set (latest for the handle, tagged, or not
    selected by the policy) is still there, every object it names (data files, deletion files, transaction file, files of
    its index directories) is still there, and `read` of its version is unchanged. -/
theorem cleanup_safe {pol : Policy} {now : Int} {dsv : Nat} {tags : List Nat} {s s' : Store} {rm : List Path} {st : Stats}
    (hwf : WF s) (h : cleanup pol now dsv tags s = .ok s' rm st)
    {mf : MFile} (hm : mf ∈ s.mans) (hws : inWorkingSet pol dsv tags mf.m = true) :
    mf ∈ s'.mans ∧ (∀ f ∈ s.files, needed mf.m f.path = true → f ∈ s'.files) ∧
      read s' mf.m.version = read s mf.m.version := by
  obtain ⟨hrm, hs', _, _⟩ := cleanup_ok h
  have hkeep : mf ∈ s'.mans := by
    rw [hs', mem_removePaths_mans]
    refine ⟨hm, ?_⟩
    rw [hrm, man_removed_iff hwf hm, hws]
    simp
  have hfiles : ∀ f ∈ s.files, needed mf.m f.path = true → f ∈ s'.files := by
    intro f hf hn
    rw [hs', mem_removePaths_files]
    exact ⟨hf, by rw [hrm]; exact needed_not_removed hwf hm hws hf hn⟩
  refine ⟨hkeep, hfiles, ?_⟩
  have hn' : (s'.mans.map (fun x => x.m.version)).Nodup := by
    rw [hs']
    exact List.Nodup.sublist (List.Sublist.map _ List.filter_sublist) hwf.versions_nodup
  unfold read
  rw [find_version hwf.versions_nodup hm, find_version hn' hkeep]
  simp only [Option.some.injEq, Prod.mk.injEq, true_and]
  rw [hs']
  simp only [removePaths, List.filter_filter]
  apply List.filter_congr
  intro f hf
  by_cases hn : needed mf.m f.path = true
  · have := hfiles f hf hn
    rw [hs', mem_removePaths_files] at this
    simp [hn, this.2]
  · simp [hn]

example : ∃ s' rm st, cleanup exPol 1000 3 [] exStore = .ok s' rm st ∧
    inWorkingSet exPol 3 [] exM3 = true ∧ rm.length = 7 := ⟨_, _, _, rfl, by decide, by decide⟩

/-- the latest version of the handle cleanup runs through — and every newer one — is always in the working set -/
theorem latest_survives {pol : Policy} {now : Int} {dsv : Nat} {tags : List Nat} {s s' : Store} {rm : List Path} {st : Stats}
    (hwf : WF s) (h : cleanup pol now dsv tags s = .ok s' rm st) {mf : MFile} (hm : mf ∈ s.mans)
    (hv : dsv ≤ mf.m.version) :
    mf ∈ s'.mans ∧ read s' mf.m.version = read s mf.m.version := by
  have hws : inWorkingSet pol dsv tags mf.m = true := by simp [inWorkingSet, hv]
  exact ⟨(cleanup_safe hwf h hm hws).1, (cleanup_safe hwf h hm hws).2.2⟩

/-- tagged versions are kept whatever the policy says -/
theorem tagged_survive {pol : Policy} {now : Int} {dsv : Nat} {tags : List Nat} {s s' : Store} {rm : List Path} {st : Stats}
    (hwf : WF s) (h : cleanup pol now dsv tags s = .ok s' rm st) {mf : MFile} (hm : mf ∈ s.mans)
    (ht : mf.m.version ∈ tags) :
    mf ∈ s'.mans ∧ read s' mf.m.version = read s mf.m.version := by
  have hws : inWorkingSet pol dsv tags mf.m = true := by simp [inWorkingSet, ht]
  exact ⟨(cleanup_safe hwf h hm hws).1, (cleanup_safe hwf h hm hws).2.2⟩

/-- versions the policy does not select (too new by time or by version number) are kept -/
theorem policy_kept_survive {pol : Policy} {now : Int} {dsv : Nat} {tags : List Nat} {s s' : Store} {rm : List Path}
    {st : Stats} (hwf : WF s) (h : cleanup pol now dsv tags s = .ok s' rm st) {mf : MFile} (hm : mf ∈ s.mans)
    (hp : pol.shouldClean mf.m = false) :
    mf ∈ s'.mans ∧ read s' mf.m.version = read s mf.m.version := by
  have hws : inWorkingSet pol dsv tags mf.m = true := by simp [inWorkingSet, hp]
  exact ⟨(cleanup_safe hwf h hm hws).1, (cleanup_safe hwf h hm hws).2.2⟩

example : exPol.shouldClean exM3 = true ∧ inWorkingSet exPol 3 [] exM3 = true := by decide
example : inWorkingSet exPol 3 [2] exM2 = true ∧ inWorkingSet exPol 3 [] exM2 = false := by decide

/-! ### cleanup_only_policy -/

/-- **cleanup_only_policy.**  A manifest disappears exactly when it is old: selected by the policy (`should_clean`), older
    than the handle's version, and not tagged.  (Under `WF`: the removed manifests are exactly `{old ∧ ¬latest ∧ ¬tagged}`.) -/
theorem cleanup_only_policy {pol : Policy} {now : Int} {dsv : Nat} {tags : List Nat} {s s' : Store} {rm : List Path}
    {st : Stats} (hwf : WF s) (h : cleanup pol now dsv tags s = .ok s' rm st) {mf : MFile} (hm : mf ∈ s.mans) :
    mf ∉ s'.mans ↔ (pol.shouldClean mf.m = true ∧ mf.m.version < dsv ∧ mf.m.version ∉ tags) := by
  obtain ⟨hrm, hs', _, _⟩ := cleanup_ok h
  rw [hs', mem_removePaths_mans]
  simp only [hm, true_and, Classical.not_not]
  rw [hrm, man_removed_iff hwf hm]
  simp only [inWorkingSet, Bool.or_eq_false_iff, decide_eq_false_iff_not, Nat.not_le, Bool.not_eq_false',
    List.contains_eq_mem, decide_eq_false_iff_not]
  constructor
  · rintro ⟨⟨a, b⟩, c⟩; exact ⟨b, a, c⟩
  · rintro ⟨b, a, c⟩; exact ⟨⟨a, b⟩, c⟩

/-- `RemovalStats::old_versions` counts exactly the manifests that disappeared -/
theorem old_versions_exact {pol : Policy} {now : Int} {dsv : Nat} {tags : List Nat} {s s' : Store} {rm : List Path}
    {st : Stats} (hwf : WF s) (h : cleanup pol now dsv tags s = .ok s' rm st) :
    st.oldVersions = (s.mans.filter (fun mf => !s'.mans.contains mf)).length := by
  obtain ⟨hrm, hs', ho, _⟩ := cleanup_ok h
  rw [ho]
  simp only [inspect]
  congr 1
  apply List.filter_congr
  intro mf hm
  have h1 : mf ∈ s'.mans ↔ inWorkingSet pol dsv tags mf.m = true := by
    rw [hs', mem_removePaths_mans, hrm, man_removed_iff hwf hm]
    simp [hm]
  by_cases hw : inWorkingSet pol dsv tags mf.m = true
  · simp [hw, h1.mpr hw]
  · have : mf ∉ s'.mans := fun hc => hw (h1.mp hc)
    simp [hw, this]

/-- nothing but manifests selected that way and objects selected by the per-path decision is removed; in particular only
    objects of the recognised classes: any other object (tag files, detached manifests, `.lance` files outside `data…`, …)
    survives -/
theorem removed_file_selected {pol : Policy} {now : Int} {dsv : Nat} {tags : List Nat} {s s' : Store} {rm : List Path}
    {st : Stats} (hwf : WF s) (h : cleanup pol now dsv tags s = .ok s' rm st) {f : File} (hf : f ∈ s.files)
    (hgone : f ∉ s'.files) :
    pathIfNotReferenced f.path (maybeInProgress pol now f) (inspect pol dsv tags s.mans) = true ∧
      unmodifiedSince (inspect pol dsv tags s.mans).earliest f = true := by
  obtain ⟨hrm, hs', _, _⟩ := cleanup_ok h
  rw [hs', mem_removePaths_files] at hgone
  simp only [hf, true_and, Classical.not_not] at hgone
  rw [hrm, removedPaths, List.mem_append] at hgone
  rcases hgone with hg | hg
  · obtain ⟨c, hc, he⟩ := List.mem_map.mp hg
    simp only [candidates, List.mem_filter, Store.listing, List.mem_append, List.mem_map] at hc
    obtain ⟨⟨hl, hu⟩, hp⟩ := hc
    have : c = f := by
      rcases hl with ⟨mf, hmf, rfl⟩ | hcf
      · exact absurd (by simpa [MFile.toFile] using he) (hwf.man_file_disjoint hmf hf)
      · exact hwf.file_path_inj hcf hf he
    subst this
    exact ⟨hp, hu⟩
  · obtain ⟨o, ho, he⟩ := List.mem_map.mp hg
    exact absurd he (hwf.man_file_disjoint (mem_old.mp ho).1 hf)

/-! ### unverified_guard -/

/-- **unverified_guard.**  With `delete_unverified = false`, an object that no manifest of the table mentions (neither a
    retained nor an old one) and that is younger than the 7-day threshold survives.  This is what protects the files of a
    write in progress. -/
theorem unverified_guard {pol : Policy} {now : Int} {dsv : Nat} {tags : List Nat} {s s' : Store} {rm : List Path}
    {st : Stats} (hwf : WF s) (h : cleanup pol now dsv tags s = .ok s' rm st) (hunv : pol.deleteUnverified = false)
    {f : File} (hf : f ∈ s.files) (hyoung : f.mtime ≥ now - UNVERIFIED_THRESHOLD_DAYS * DAY)
    (hno : ∀ mf ∈ s.mans, mentions mf.m f.path = false) :
    f ∈ s'.files := by
  refine Classical.byContradiction (fun hgone => ?_)
  have hsel := (removed_file_selected hwf h hf hgone).1
  have hmip : maybeInProgress pol now f = true := by simp [maybeInProgress, hunv, hyoung]
  rw [hmip] at hsel
  have hv := pinr_mip _ _ hsel
  simp only [inspect] at hv
  rcases hv with hv | hv | hv | ⟨u, hu, hv⟩
  · obtain ⟨mf, hmf, hp⟩ := (mem_refs_data _ _).mp (by simpa using hv)
    have := hno mf (List.mem_filter.mp hmf).1
    simp [mentions, hp] at this
  · obtain ⟨mf, hmf, hp⟩ := (mem_refs_dels _ _).mp (by simpa using hv)
    have := hno mf (List.mem_filter.mp hmf).1
    simp [mentions, hp] at this
  · obtain ⟨mf, hmf, hp⟩ := (mem_refs_txn _ _).mp (by simpa using hv)
    have := hno mf (List.mem_filter.mp hmf).1
    simp [mentions, hp] at this
  · obtain ⟨mf, hmf, hp⟩ := (mem_refs_idx _ _).mp (by simpa using hv)
    have := hno mf (List.mem_filter.mp hmf).1
    simp [mentions, hu, hp] at this

/-- the orphan `data/orphan.lance` (mtime 250) with the clock at 300: younger than 7 days, mentioned by no manifest -/
example : (250 : Int) ≥ 300 - UNVERIFIED_THRESHOLD_DAYS * DAY ∧
    (∀ mf ∈ exStore.mans, mentions mf.m (dataPath "orphan.lance".toList) = false) := by decide

/-- and the guard is needed: the same orphan is removed once the clock is 8 days later (or with `delete_unverified`) -/
example : ((cleanup exPol (250 + 8 * 86400) 3 [] exStore).store exStore).files.any
    (fun f => f.path = dataPath "orphan.lance".toList) = false := by decide
example : ((cleanup exPol 300 3 [] exStore).store exStore).files.any
    (fun f => f.path = dataPath "orphan.lance".toList) = true := by decide

/-! ### errors leave the store alone -/

/-- `error_if_tagged_old_versions`: the call fails exactly when the flag is set and some tagged version is old; nothing is
    deleted then (`run` returns before `delete_unreferenced_files`) -/
theorem tagged_error_iff (pol : Policy) (now : Int) (dsv : Nat) (tags : List Nat) (s : Store) :
    (∃ vs, cleanup pol now dsv tags s = .errTagged vs) ↔
      (pol.errorIfTagged = true ∧ ∃ mf ∈ s.mans, taggedOld pol dsv tags mf.m = true) := by
  unfold cleanup
  constructor
  · rintro ⟨vs, h⟩
    split at h
    · rename_i hc
      simp only [Bool.and_eq_true, Bool.not_eq_true', List.isEmpty_eq_false_iff] at hc
      refine ⟨hc.1, ?_⟩
      have hne := hc.2
      simp only [inspect] at hne
      obtain ⟨v, hv⟩ := List.exists_mem_of_ne_nil _ hne
      obtain ⟨mf, hmf, _⟩ := List.mem_map.mp hv
      exact ⟨mf, (List.mem_filter.mp hmf).1, (List.mem_filter.mp hmf).2⟩
    · cases h
  · rintro ⟨he, mf, hm, ht⟩
    have : (inspect pol dsv tags s.mans).taggedOld ≠ [] := by
      simp only [inspect]
      intro hnil
      have : mf.m.version ∈ ((s.mans.filter (fun x => taggedOld pol dsv tags x.m)).map (fun x => x.m.version)) :=
        List.mem_map.mpr ⟨mf, List.mem_filter.mpr ⟨hm, ht⟩, rfl⟩
      rw [hnil] at this
      cases this
    refine ⟨(inspect pol dsv tags s.mans).taggedOld, ?_⟩
    rw [if_pos]
    simp [he, this]

theorem error_unchanged (pol : Policy) (now : Int) (dsv : Nat) (tags : List Nat) (s : Store) (vs : List Nat)
    (h : cleanup pol now dsv tags s = .errTagged vs) : (cleanup pol now dsv tags s).store s = s := by
  rw [h]; rfl

example : ∃ vs, cleanup exPol 1000 3 [2] exStore = .errTagged vs := ⟨_, rfl⟩

/-! ### retain-n -/

/-- `retain_n_versions(0)` indexes `versions[len]`: the real code panics (also reachable from the table config
    `lance.auto_cleanup.retain_versions = 0`, inside the commit that just succeeded) -/
theorem retain_zero_panics (versions : List Nat) : retainBefore versions 0 = none := by
  unfold retainBefore
  split
  · rename_i h
    have : versions = [] := List.eq_nil_of_length_eq_zero (Nat.le_zero.mp h)
    simp [this]
  · simp

/-- for `n ≥ 1` on an ascending version list the cut-off keeps exactly the `n` newest: an entry at index `i` is selected
    by the version bound iff `i + n < len` -/
theorem retain_keeps_newest {versions : List Nat} (hs : versions.Pairwise (· < ·)) {n bv : Nat} (hn : 0 < n)
    (h : retainBefore versions n = some bv) (i : Nat) (hi : i < versions.length) :
    versions[i] < bv ↔ i + n < versions.length := by
  unfold retainBefore at h
  split at h
  · rename_i hle
    have h0 : 0 < versions.length := by omega
    rw [List.getElem?_eq_getElem h0] at h
    injection h with h
    subst h
    constructor
    · intro hlt
      rcases Nat.eq_zero_or_pos i with hi0 | hi0
      · subst hi0; exact absurd hlt (Nat.lt_irrefl _)
      · exact absurd (List.pairwise_iff_getElem.mp hs 0 i h0 hi hi0) (Nat.lt_asymm hlt)
    · intro; omega
  · rename_i hgt
    have hk : versions.length - n < versions.length := by omega
    rw [List.getElem?_eq_getElem hk] at h
    injection h with h
    subst h
    constructor
    · intro hlt
      apply Classical.byContradiction
      intro hge
      rcases Nat.lt_or_ge (versions.length - n) i with hlt' | hge'
      · exact Nat.lt_asymm hlt (List.pairwise_iff_getElem.mp hs _ _ hk hi hlt')
      · have : i = versions.length - n := by omega
        subst this
        exact Nat.lt_irrefl _ hlt
    · intro hlt
      exact List.pairwise_iff_getElem.mp hs _ _ hi hk (by omega)

example : retainBefore [1, 2, 5, 7] 2 = some 5 ∧ retainBefore [1, 2] 5 = some 1 := by decide

/-- `Dataset::versions()` of the model is ascending -/
theorem versions_sorted (s : Store) : s.versions.Pairwise (· ≤ ·) := by
  unfold Store.versions
  generalize s.mans.map (fun mf => mf.m.version) = l
  induction l with
  | nil => simp
  | cons x t ih =>
    simp only [List.foldr_cons]
    generalize List.foldr insertAsc [] t = r at ih
    induction r with
    | nil => simp [insertAsc]
    | cons y u ihu =>
      simp only [insertAsc]
      have hmem : ∀ z, z ∈ insertAsc x u → z = x ∨ z ∈ u := by
        intro z
        clear ihu ih
        induction u with
        | nil => simp [insertAsc]
        | cons w v ihv =>
          simp only [insertAsc]
          split
          · simp
          · simp only [List.mem_cons]
            rintro (h | h)
            · exact Or.inr (Or.inl h)
            · rcases ihv h with h | h
              · exact Or.inl h
              · exact Or.inr (Or.inr h)
      split
      · rename_i hxy
        rw [List.pairwise_cons] at ih ⊢
        refine ⟨?_, List.pairwise_cons.mpr ih⟩
        intro z hz
        rcases List.mem_cons.mp hz with h | h
        · subst h; exact hxy
        · exact Nat.le_trans hxy (ih.1 z h)
      · rename_i hxy
        rw [List.pairwise_cons] at ih ⊢
        refine ⟨?_, ihu ih.2⟩
        intro z hz
        rcases hmem z hz with h | h
        · subst h; omega
        · exact ih.1 z h

/-! ### auto cleanup -/

/-- whenever the hook runs a cleanup it is `cleanup` with a policy that never deletes unverified objects, through the
    handle from before the commit: all theorems above apply to it -/
theorem auto_ran_is_cleanup {now : Int} {dsv : Nat} {tags : List Nat} {m : Manifest} {s : Store} {o : Outcome}
    (h : autoCleanupHook now dsv tags m s = .ran o) :
    ∃ pol, pol.deleteUnverified = false ∧ o = cleanup pol now dsv tags s := by
  unfold autoCleanupHook at h
  repeat' split at h
  all_goals first
    | (cases h; done)
    | (cases h; exact ⟨_, rfl, rfl⟩)

/-- the version a commit has just published survives the auto cleanup that commit triggers (the hook runs through the
    handle from before the commit, so the new version counts as "latest") -/
theorem auto_new_version_survives {now : Int} {dsv : Nat} {tags : List Nat} {m : Manifest} {s s' : Store}
    {rm : List Path} {st : Stats} (hwf : WF s) (h : autoCleanupHook now dsv tags m s = .ran (.ok s' rm st))
    {mf : MFile} (hm : mf ∈ s.mans) (hv : dsv ≤ mf.m.version) :
    mf ∈ s'.mans ∧ read s' mf.m.version = read s mf.m.version := by
  obtain ⟨pol, _, ho⟩ := auto_ran_is_cleanup h
  exact latest_survives hwf ho.symm hm hv

/-- `lance.auto_cleanup.interval = 0` makes the hook divide by zero -/
theorem auto_interval_zero_panics (now : Int) (dsv : Nat) (tags : List Nat) (m : Manifest) (s : Store)
    (h : m.cfgInterval = some ['0']) : ∃ r, autoCleanupHook now dsv tags m s = r ∧ (match r with | .panic => True | _ => False) := by
  refine ⟨_, rfl, ?_⟩
  unfold autoCleanupHook
  rw [h]
  have : C33.parseU64 ['0'] = some 0 := by decide
  simp [this]


/-! ### race_safe -/

/-- **race_safe.**  Cleanup ∥ one appending writer, every schedule: if the writer's objects are new, younger than the
    threshold when cleanup looks at them, and `delete_unverified` is off (`Setup`), then whenever the writer's commit has
    been published, the new manifest is in the store, every file it names exists (the files of the version it was built
    on and the writer's own), and so does everything the previous latest version needs. -/
theorem race_safe {pol : Policy} {now : Int} {dsv : Nat} {tags : List Nat} {w : Writer} {s0 : Store} {L : MFile}
    (hs : Setup pol now dsv w s0 L) (hcomplete : ∀ p ∈ L.m.paths, ∃ f ∈ s0.files, f.path = p) (sched : List Bool)
    (hc : (runSched pol now dsv tags w L sched { store := s0, cpc := .start, wpc := .idle }).wpc = .committed) :
    w.mfile L.m ∈ (runSched pol now dsv tags w L sched { store := s0, cpc := .start, wpc := .idle }).store.mans ∧
    (∀ p ∈ (w.manifest L.m).paths,
      ∃ f ∈ (runSched pol now dsv tags w L sched { store := s0, cpc := .start, wpc := .idle }).store.files, f.path = p) ∧
    (∀ f ∈ s0.files, needed L.m f.path = true →
      f ∈ (runSched pol now dsv tags w L sched { store := s0, cpc := .start, wpc := .idle }).store.files) := by
  have hinv := inv_run (tags := tags) hs sched (inv_init hs)
  refine ⟨hinv.wman hc, ?_, hinv.lfiles⟩
  have hold : ∀ p ∈ L.m.paths,
      ∃ f ∈ (runSched pol now dsv tags w L sched { store := s0, cpc := .start, wpc := .idle }).store.files, f.path = p := by
    intro p hp
    obtain ⟨f, hf, he⟩ := hcomplete p hp
    refine ⟨f, hinv.lfiles f hf ?_, he⟩
    rw [he]
    simp only [Manifest.paths, List.mem_append] at hp
    simp only [needed, Bool.or_eq_true, List.contains_eq_mem, decide_eq_true_eq]
    rcases hp with (h | h) | h
    · exact Or.inl (Or.inl (Or.inl h))
    · exact Or.inl (Or.inl (Or.inr h))
    · exact Or.inl (Or.inr h)
  intro p hp
  simp only [Manifest.paths, Manifest.dataPaths, Manifest.delPaths, Manifest.txnPaths, Writer.manifest, List.mem_append,
    List.map_append, List.mem_map, List.mem_singleton] at hp
  rcases hp with ((⟨n, hn, rfl⟩ | ⟨n, hn, rfl⟩) | ⟨n, hn, rfl⟩) | rfl
  · exact hold _ (List.mem_append_left _ (List.mem_append_left _ (List.mem_map.mpr ⟨n, hn, rfl⟩)))
  · exact ⟨_, hinv.wdata (Or.inr (Or.inr hc)) _ (List.mem_map.mpr ⟨n, hn, rfl⟩), rfl⟩
  · exact hold _ (List.mem_append_left _ (List.mem_append_right _ (List.mem_map.mpr ⟨n, hn, rfl⟩)))
  · exact ⟨_, hinv.wtxn (Or.inr hc), rfl⟩

/-- and the writer is never blocked by cleanup: its commit guard (`L` still the latest) holds in every reachable state -/
theorem race_writer_commits {pol : Policy} {now : Int} {dsv : Nat} {tags : List Nat} {w : Writer} {s0 : Store} {L : MFile}
    (hs : Setup pol now dsv w s0 L) (sched : List Bool)
    (hw : (runSched pol now dsv tags w L sched { store := s0, cpc := .start, wpc := .idle }).wpc = .wroteTxn) :
    (stepW w L (runSched pol now dsv tags w L sched { store := s0, cpc := .start, wpc := .idle })).wpc = .committed :=
  writer_commits hs (inv_run (tags := tags) hs sched (inv_init hs)) hw

def exWriter : Writer :=
  { dataNames := ["w.lance".toList], txnName := "3-w.txn".toList, mtime := 1000,
    manPath := ["_versions".toList, "4.manifest".toList], ts := 1001 }
def exL : MFile := { path := ["_versions".toList, "3.manifest".toList], mtime := 300, size := 13, m := exM3 }

theorem exSetup : Setup exPol 1000 3 exWriter exStore exL :=
  { wf := exStore_wf, unv := rfl, young := by decide, hL := by decide, hmax := by decide, hdsv := by decide,
    fresh_data := by decide, fresh_txn := by decide, man_fresh := by decide }

/-- cleanup inspects, the writer puts its files, cleanup selects and deletes six paths, the writer commits in between -/
example : (runSched exPol 1000 3 [] exWriter exL [true, false, false, true, true, false, true, true, true, true, true, true]
    { store := exStore, cpc := .start, wpc := .idle }).wpc = .committed := by decide
example : ∀ p ∈ exL.m.paths, ∃ f ∈ exStore.files, f.path = p := by decide

/-- the premise "the writer is an append with new, young files" is needed: a RESTORE of version 1 that commits between
    cleanup's manifest inspection and its deletions publishes version 4 = the content of version 1, whose data file
    `data/a.lance` (verified through the old manifests, referenced by no manifest cleanup saw) is then deleted.  Model-level
    witness; on the real code the window is between `restore`'s read of the old manifest and cleanup's listing. -/
theorem race_restore_counterexample :
    let st := iterC exPol 1000 3 [] 9
      (stepRestore exM1 ["_versions".toList, "4.manifest".toList] 4 1000
        (stepC exPol 1000 3 [] { store := exStore, cpc := .start, wpc := .idle }))
    st.store.mans.any (fun mf => mf.m.version = 4 && mf.m.data = exM1.data) = true ∧
      st.store.files.any (fun f => f.path = dataPath "a.lance".toList) = false ∧
      exStore.files.any (fun f => f.path = dataPath "a.lance".toList) = true := by decide

/-! ### the property at full strength, the defective region, the counterexample -/

/-- a detached manifest object (`_versions/d<n>.manifest`, written by `commit_detached`): `list_manifest_locations` does
    not yield it (its name does not parse as a version) and its extension protects the object itself -/
structure Detached where
  file : File
  m : Manifest

/-- C08 at full strength: after a successful cleanup without `delete_unverified`, every manifest that is still in the
    store — attached or detached — still has every object it names. -/
def C08_full : Prop :=
  ∀ (pol : Policy) (now : Int) (dsv : Nat) (tags : List Nat) (s s' : Store) (rm : List Path) (st : Stats)
    (ds : List Detached),
    WF s → (∀ d ∈ ds, d.file ∈ s.files ∧ isManifestPath d.file.path = true) → pol.deleteUnverified = false →
    cleanup pol now dsv tags s = .ok s' rm st →
    (∀ mf ∈ s'.mans, ∀ f ∈ s.files, needed mf.m f.path = true → f ∈ s'.files) ∧
    (∀ d ∈ ds, d.file ∈ s'.files ∧ ∀ f ∈ s.files, needed d.m f.path = true → f ∈ s'.files)

/-- the decidable region the code covers: every object a detached manifest names is younger than the threshold and
    mentioned by no attached manifest, or is also needed by a working-set manifest -/
def detachedCovered (pol : Policy) (now : Int) (dsv : Nat) (tags : List Nat) (s : Store) (d : Detached) : Prop :=
  ∀ f ∈ s.files, needed d.m f.path = true →
    (f.mtime ≥ now - UNVERIFIED_THRESHOLD_DAYS * DAY ∧ ∀ mf ∈ s.mans, mentions mf.m f.path = false) ∨
    (∃ mf ∈ s.mans, inWorkingSet pol dsv tags mf.m = true ∧ needed mf.m f.path = true)

theorem C08_partial (pol : Policy) (now : Int) (dsv : Nat) (tags : List Nat) (s s' : Store) (rm : List Path) (st : Stats)
    (ds : List Detached) (hwf : WF s) (hds : ∀ d ∈ ds, d.file ∈ s.files ∧ isManifestPath d.file.path = true)
    (hunv : pol.deleteUnverified = false) (hcov : ∀ d ∈ ds, detachedCovered pol now dsv tags s d)
    (h : cleanup pol now dsv tags s = .ok s' rm st) :
    (∀ mf ∈ s'.mans, ∀ f ∈ s.files, needed mf.m f.path = true → f ∈ s'.files) ∧
    (∀ d ∈ ds, d.file ∈ s'.files ∧ ∀ f ∈ s.files, needed d.m f.path = true → f ∈ s'.files) := by
  obtain ⟨hrm, hs', _, _⟩ := cleanup_ok h
  constructor
  · intro mf hmf f hf hn
    have hm : mf ∈ s.mans := by rw [hs', mem_removePaths_mans] at hmf; exact hmf.1
    have hws : inWorkingSet pol dsv tags mf.m = true := by
      rw [hs', mem_removePaths_mans, hrm, man_removed_iff hwf hm] at hmf
      simpa using hmf.2
    exact (cleanup_safe hwf h hm hws).2.1 f hf hn
  · intro d hd
    constructor
    · refine Classical.byContradiction (fun hgone => ?_)
      have := (removed_file_selected hwf h (hds d hd).1 hgone).1
      rw [pinr_manifest _ _ _ (hds d hd).2] at this
      cases this
    · intro f hf hn
      rcases hcov d hd f hf hn with ⟨hy, hno⟩ | ⟨mf, hm, hws, hn'⟩
      · exact unverified_guard hwf h hunv hf hy hno
      · exact (cleanup_safe hwf h hm hws).2.1 f hf hn'

/-- the witness: version 1 attached, a detached manifest naming `data/det.lance` written at time 0; 8 days later a cleanup
    with the default policy flags removes the data file and keeps the detached manifest -/
def cexStore : Store :=
  { mans := [ { path := ["_versions".toList, "1.manifest".toList], mtime := 0, size := 1, m :=
      { version := 1, ts := 0, data := ["a.lance".toList], dels := [], txn := none, idx := [] } } ]
    files := [ { path := dataPath "a.lance".toList, mtime := 0, size := 1 },
               { path := dataPath "det.lance".toList, mtime := 0, size := 1 },
               { path := ["_versions".toList, "d9.manifest".toList], mtime := 0, size := 1 } ] }
def cexDetached : Detached :=
  { file := { path := ["_versions".toList, "d9.manifest".toList], mtime := 0, size := 1 }
    m := { version := 9, ts := 0, data := ["a.lance".toList, "det.lance".toList], dels := [], txn := none, idx := [] } }

theorem C08_counterexample : ¬ C08_full := by
  intro hfull
  have h := hfull { beforeTs := some 0, beforeVer := none, deleteUnverified := false, errorIfTagged := true }
    (8 * 86400) 1 [] cexStore _ _ _ [cexDetached] ⟨by decide, by decide, by decide⟩ (by decide) rfl rfl
  have := (h.2 cexDetached (by simp)).2 { path := dataPath "det.lance".toList, mtime := 0, size := 1 } (by decide) (by decide)
  revert this
  decide

end LanceModel.C08
