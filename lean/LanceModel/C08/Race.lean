import LanceModel.C08.SafeLemmas
/-
C08: cleanup ∥ one writer, as a labelled transition system over the object store.

Cleanup (`CleanupTask::run`): `process_manifests` (one step: the inspection of the manifests present at that moment),
then `delete_unreferenced_files`: the listing + per-path decision (one step: the set of paths handed to `remove_stream`,
computed from the objects present at that moment with the EARLIER inspection), then one step per removed path.
Writer (an append on top of the latest version `L`): put the data files; put the transaction file; commit the manifest
`L + new files` (`Transaction::build_manifest` of `Operation::Append`; it commits only if `L` is still the latest — there
is no other writer).  A schedule is a list of booleans (`true` = cleanup moves).
-/
namespace LanceModel.C08

structure Writer where
  dataNames : List Seg
  txnName : Seg
  /-- `last_modified` of everything the writer puts -/
  mtime : Int
  /-- where the commit puts the manifest (`_versions/<L+1>.manifest`) -/
  manPath : Path
  /-- commit timestamp -/
  ts : Int

def Writer.dataFiles (w : Writer) : List File :=
  w.dataNames.map (fun n => { path := dataPath n, mtime := w.mtime, size := 0 })
def Writer.txnFile (w : Writer) : File := { path := txnPath w.txnName, mtime := w.mtime, size := 0 }
/-- `Transaction::build_manifest` for an append on top of `L` -/
def Writer.manifest (w : Writer) (L : Manifest) : Manifest :=
  { L with version := L.version + 1, ts := w.ts, data := L.data ++ w.dataNames, txn := some w.txnName }
def Writer.mfile (w : Writer) (L : Manifest) : MFile :=
  { path := w.manPath, mtime := w.mtime, size := 0, m := w.manifest L }

inductive CPc where
  | start
  | inspected (i : Inspection)
  | deleting (rm : List Path)
  | done
  | failed

inductive WPc where
  | idle
  | wroteData
  | wroteTxn
  | committed
  | failed
  deriving DecidableEq

structure RState where
  store : Store
  cpc : CPc
  wpc : WPc

def stepC (pol : Policy) (now : Int) (dsv : Nat) (tags : List Nat) (st : RState) : RState :=
  match st.cpc with
  | .start =>
    if pol.errorIfTagged && !(inspect pol dsv tags st.store.mans).taggedOld.isEmpty then { st with cpc := .failed }
    else { st with cpc := .inspected (inspect pol dsv tags st.store.mans) }
  | .inspected i => { st with cpc := .deleting (removedPaths pol now i st.store) }
  | .deleting [] => { st with cpc := .done }
  | .deleting (p :: rest) => { st with store := removePaths st.store [p], cpc := .deleting rest }
  | .done => st
  | .failed => st

def stepW (w : Writer) (L : MFile) (st : RState) : RState :=
  match st.wpc with
  | .idle => { st with store := { st.store with files := st.store.files ++ w.dataFiles }, wpc := .wroteData }
  | .wroteData => { st with store := { st.store with files := st.store.files ++ [w.txnFile] }, wpc := .wroteTxn }
  | .wroteTxn =>
    if L ∈ st.store.mans ∧ ∀ mf ∈ st.store.mans, mf.m.version ≤ L.m.version then
      { st with store := { st.store with mans := st.store.mans ++ [w.mfile L.m] }, wpc := .committed }
    else { st with wpc := .failed }
  | .committed => st
  | .failed => st

def runSched (pol : Policy) (now : Int) (dsv : Nat) (tags : List Nat) (w : Writer) (L : MFile) :
    List Bool → RState → RState
  | [], st => st
  | true :: r, st => runSched pol now dsv tags w L r (stepC pol now dsv tags st)
  | false :: r, st => runSched pol now dsv tags w L r (stepW w L st)

/-- a RESTORE writer: its single storage step publishes the content of an old manifest `O` as the next version
    (`Dataset::restore`: `Operation::Restore` builds the new manifest from the old one; no new data files) -/
def stepRestore (O : Manifest) (path : Path) (v : Nat) (ts : Int) (st : RState) : RState :=
  { st with
    store := { st.store with
      mans := st.store.mans ++ [{ path := path, mtime := ts, size := 0, m := { O with version := v, ts := ts } }] }
    wpc := .committed }

def iterC (pol : Policy) (now : Int) (dsv : Nat) (tags : List Nat) : Nat → RState → RState
  | 0, st => st
  | n + 1, st => iterC pol now dsv tags n (stepC pol now dsv tags st)

/-- the premises of the race theorem: the writer's objects are new (paths not in use, mentioned by no manifest), younger
    than the threshold when cleanup looks, `delete_unverified` is off; `L` is the latest version, at least the handle's -/
structure Setup (pol : Policy) (now : Int) (dsv : Nat) (w : Writer) (s0 : Store) (L : MFile) : Prop where
  wf : WF s0
  unv : pol.deleteUnverified = false
  young : w.mtime ≥ now - UNVERIFIED_THRESHOLD_DAYS * DAY
  hL : L ∈ s0.mans
  hmax : ∀ mf ∈ s0.mans, mf.m.version ≤ L.m.version
  hdsv : dsv ≤ L.m.version
  fresh_data : ∀ n ∈ w.dataNames, (∀ mf ∈ s0.mans, mentions mf.m (dataPath n) = false) ∧
    (∀ f ∈ s0.listing, f.path ≠ dataPath n) ∧ w.manPath ≠ dataPath n
  fresh_txn : (∀ mf ∈ s0.mans, mentions mf.m (txnPath w.txnName) = false) ∧
    (∀ f ∈ s0.listing, f.path ≠ txnPath w.txnName) ∧ w.manPath ≠ txnPath w.txnName
  man_fresh : isManifestPath w.manPath = true ∧ ∀ f ∈ s0.listing, f.path ≠ w.manPath

/-- paths cleanup must not touch -/
def Protected (w : Writer) (s0 : Store) (L : MFile) (p : Path) : Prop :=
  (∃ f ∈ s0.files, needed L.m f.path = true ∧ f.path = p) ∨ (∃ n ∈ w.dataNames, p = dataPath n) ∨
    p = txnPath w.txnName ∨ p = L.path ∨ p = w.manPath

structure Good (w : Writer) (s0 : Store) (L : MFile) (i : Inspection) : Prop where
  keep : ∀ p, (∃ f ∈ s0.files, needed L.m f.path = true ∧ f.path = p) → ∀ mip, pathIfNotReferenced p mip i = false
  mentioned : ∀ p, pathIfNotReferenced p true i = true → ∃ mf ∈ s0.mans, mentions mf.m p = true
  old : ∀ o ∈ i.old, o ∈ s0.mans ∧ o ≠ L

structure Inv (w : Writer) (s0 : Store) (L : MFile) (st : RState) : Prop where
  mans : ∀ mf ∈ st.store.mans, mf ∈ s0.mans ∨ (st.wpc = .committed ∧ mf = w.mfile L.m)
  hasL : L ∈ st.store.mans
  lfiles : ∀ f ∈ s0.files, needed L.m f.path = true → f ∈ st.store.files
  wdata : st.wpc = .wroteData ∨ st.wpc = .wroteTxn ∨ st.wpc = .committed → ∀ f ∈ w.dataFiles, f ∈ st.store.files
  wtxn : st.wpc = .wroteTxn ∨ st.wpc = .committed → w.txnFile ∈ st.store.files
  wman : st.wpc = .committed → w.mfile L.m ∈ st.store.mans
  prov : ∀ f ∈ st.store.files, f ∈ s0.files ∨ f ∈ w.dataFiles ∨ f = w.txnFile
  insp : ∀ i, st.cpc = .inspected i → Good w s0 L i
  del : ∀ rm, st.cpc = .deleting rm → ∀ p ∈ rm, ¬ Protected w s0 L p

variable {pol : Policy} {now : Int} {dsv : Nat} {tags : List Nat} {w : Writer} {s0 : Store} {L : MFile}

theorem dataPath_ne_txnPath (a b : Seg) : dataPath a ≠ txnPath b := by
  intro h
  have : DATA = TRANSACTIONS := by
    simp only [dataPath, txnPath] at h
    exact (List.cons.inj h).1
  revert this
  decide

theorem newman_inWs (hs : Setup pol now dsv w s0 L) : inWorkingSet pol dsv tags (w.mfile L.m).m = true := by
  have h1 : dsv ≤ L.m.version + 1 := Nat.le_succ_of_le hs.hdsv
  simp [inWorkingSet, Writer.mfile, Writer.manifest, h1]

theorem L_inWs (hs : Setup pol now dsv w s0 L) : inWorkingSet pol dsv tags L.m = true := by
  simp [inWorkingSet, hs.hdsv]

/-- the inspection of any manifest listing that arises during the race is good -/
theorem good_inspect (hs : Setup pol now dsv w s0 L) {ms : List MFile}
    (hms : ∀ mf ∈ ms, mf ∈ s0.mans ∨ mf = w.mfile L.m) (hL : L ∈ ms) :
    Good w s0 L (inspect pol dsv tags ms) := by
  refine ⟨?_, ?_, ?_⟩
  · rintro p ⟨f, _, hn, rfl⟩ mip
    exact needed_keep hL (L_inWs hs) hn mip
  · intro p hp
    obtain ⟨mf, hmf, hold, hment⟩ := selected_mip_mentioned hp
    rcases hms mf hmf with h | h
    · exact ⟨mf, h, hment⟩
    · rw [h, newman_inWs hs] at hold
      cases hold
  · intro o ho
    have ho' := mem_old.mp ho
    rcases hms o ho'.1 with h | h
    · refine ⟨h, ?_⟩
      intro he
      rw [he, L_inWs hs] at ho'
      cases ho'.2
    · rw [h, newman_inWs hs] at ho'
      cases ho'.2

/-- what the listing step selects never contains a protected path -/
theorem selected_not_protected (hs : Setup pol now dsv w s0 L) {st : RState} (hinv : Inv w s0 L st)
    {i : Inspection} (hg : Good w s0 L i) :
    ∀ p ∈ removedPaths pol now i st.store, ¬ Protected w s0 L p := by
  intro p hp hprot
  unfold removedPaths at hp
  rcases List.mem_append.mp hp with hc | ho
  · -- selected by the per-path decision
    obtain ⟨c, hcand, hcp⟩ := List.mem_map.mp hc
    subst hcp
    unfold candidates at hcand
    obtain ⟨hcand1, hsel⟩ := List.mem_filter.mp hcand
    have hl0 := (List.mem_filter.mp hcand1).1
    have hl : (∃ mf ∈ st.store.mans, mf.toFile = c) ∨ c ∈ st.store.files := by
      simpa [Store.listing] using hl0
    -- a selected object with a writer's path is one of the writer's objects: young, hence `maybe_in_progress`
    have hwriter : (∃ n ∈ w.dataNames, c.path = dataPath n) ∨ c.path = txnPath w.txnName →
        maybeInProgress pol now c = true := by
      intro hw
      have hm : c.mtime = w.mtime := by
        rcases hl with ⟨mf, hmf, rfl⟩ | hcf
        · exfalso
          rcases hinv.mans mf hmf with h0 | ⟨_, h1⟩
          · have hin : mf.toFile ∈ s0.listing := by
              simp only [Store.listing, List.mem_append, List.mem_map]; exact Or.inl ⟨mf, h0, rfl⟩
            rcases hw with ⟨n, hn, he⟩ | he
            · exact (hs.fresh_data n hn).2.1 _ hin he
            · exact hs.fresh_txn.2.1 _ hin he
          · rcases hw with ⟨n, hn, he⟩ | he
            · exact (hs.fresh_data n hn).2.2 (by rw [← he, h1]; rfl)
            · exact hs.fresh_txn.2.2 (by rw [← he, h1]; rfl)
        · rcases hinv.prov c hcf with h0 | h1 | h2
          · exfalso
            have hin : c ∈ s0.listing := by
              simp only [Store.listing, List.mem_append]; exact Or.inr h0
            rcases hw with ⟨n, hn, he⟩ | he
            · exact (hs.fresh_data n hn).2.1 _ hin he
            · exact hs.fresh_txn.2.1 _ hin he
          · obtain ⟨n, _, rfl⟩ := List.mem_map.mp h1; rfl
          · rw [h2]; rfl
      simp [maybeInProgress, hs.unv, hm, hs.young]
    rcases hprot with hp1 | hp2 | hp3 | hp4 | hp5
    · rw [hg.keep _ hp1] at hsel; cases hsel
    · rw [hwriter (Or.inl hp2)] at hsel
      obtain ⟨mf, hmf, hment⟩ := hg.mentioned _ hsel
      obtain ⟨n, hn, he⟩ := hp2
      rw [he, (hs.fresh_data n hn).1 mf hmf] at hment
      cases hment
    · rw [hwriter (Or.inr hp3)] at hsel
      obtain ⟨mf, hmf, hment⟩ := hg.mentioned _ hsel
      rw [hp3, hs.fresh_txn.1 mf hmf] at hment
      cases hment
    · rw [hp4, pinr_manifest _ _ _ (hs.wf.man_paths L hs.hL)] at hsel; cases hsel
    · rw [hp5, pinr_manifest _ _ _ hs.man_fresh.1] at hsel; cases hsel
  · -- an old manifest
    obtain ⟨o, hoo, hop⟩ := List.mem_map.mp ho
    subst hop
    obtain ⟨ho0, hne⟩ := hg.old o hoo
    have hin : o.toFile ∈ s0.listing := by
      simp only [Store.listing, List.mem_append, List.mem_map]; exact Or.inl ⟨o, ho0, rfl⟩
    rcases hprot with ⟨f, hf, _, he⟩ | ⟨n, hn, he⟩ | he | he | he
    · exact hs.wf.man_file_disjoint ho0 hf he.symm
    · exact (hs.fresh_data n hn).2.1 _ hin he
    · exact hs.fresh_txn.2.1 _ hin he
    · exact hne (hs.wf.man_path_inj ho0 hs.hL he)
    · exact hs.man_fresh.2 _ hin he

theorem inv_init (hs : Setup pol now dsv w s0 L) : Inv w s0 L { store := s0, cpc := .start, wpc := .idle } := by
  refine ⟨fun mf h => Or.inl h, hs.hL, fun f hf _ => hf, ?_, ?_, ?_, fun f hf => Or.inl hf, ?_, ?_⟩
  · rintro (h | h | h) <;> cases h
  · rintro (h | h) <;> cases h
  · intro h; cases h
  · intro i h; cases h
  · intro rm h; cases h

theorem inv_stepC (hs : Setup pol now dsv w s0 L) {st : RState} (hinv : Inv w s0 L st) :
    Inv w s0 L (stepC pol now dsv tags st) := by
  unfold stepC
  split
  · -- start
    split
    · exact ⟨hinv.mans, hinv.hasL, hinv.lfiles, hinv.wdata, hinv.wtxn, hinv.wman, hinv.prov,
        (fun i h => by cases h), (fun rm h => by cases h)⟩
    · refine ⟨hinv.mans, hinv.hasL, hinv.lfiles, hinv.wdata, hinv.wtxn, hinv.wman, hinv.prov, ?_, (fun rm h => by cases h)⟩
      intro i h
      injection h with h
      subst h
      exact good_inspect hs (fun mf hmf => (hinv.mans mf hmf).imp id (fun x => x.2)) hinv.hasL
  · -- inspected i
    rename_i i hc
    refine ⟨hinv.mans, hinv.hasL, hinv.lfiles, hinv.wdata, hinv.wtxn, hinv.wman, hinv.prov, (fun i h => by cases h), ?_⟩
    intro rm h
    injection h with h
    subst h
    exact selected_not_protected hs hinv (hinv.insp i hc)
  · -- deleting []
    exact ⟨hinv.mans, hinv.hasL, hinv.lfiles, hinv.wdata, hinv.wtxn, hinv.wman, hinv.prov,
      (fun i h => by cases h), (fun rm h => by cases h)⟩
  · -- deleting (p :: rest)
    rename_i p rest hc
    have hnp : ¬ Protected w s0 L p := hinv.del _ hc p (by simp)
    refine ⟨?_, ?_, ?_, ?_, ?_, ?_, ?_, (fun i h => by cases h), ?_⟩
    · intro mf hmf
      exact hinv.mans mf (mem_removePaths_mans.mp hmf).1
    · refine mem_removePaths_mans.mpr ⟨hinv.hasL, ?_⟩
      simp only [List.mem_singleton]
      intro he
      exact hnp (Or.inr (Or.inr (Or.inr (Or.inl he.symm))))
    · intro f hf hn
      refine mem_removePaths_files.mpr ⟨hinv.lfiles f hf hn, ?_⟩
      simp only [List.mem_singleton]
      intro he
      exact hnp (Or.inl ⟨f, hf, hn, he⟩)
    · intro hw f hf
      refine mem_removePaths_files.mpr ⟨hinv.wdata hw f hf, ?_⟩
      simp only [List.mem_singleton]
      intro he
      obtain ⟨n, hn, rfl⟩ := List.mem_map.mp hf
      exact hnp (Or.inr (Or.inl ⟨n, hn, he.symm⟩))
    · intro hw
      refine mem_removePaths_files.mpr ⟨hinv.wtxn hw, ?_⟩
      simp only [List.mem_singleton]
      intro he
      exact hnp (Or.inr (Or.inr (Or.inl he.symm)))
    · intro hw
      refine mem_removePaths_mans.mpr ⟨hinv.wman hw, ?_⟩
      simp only [List.mem_singleton]
      intro he
      exact hnp (Or.inr (Or.inr (Or.inr (Or.inr he.symm))))
    · intro f hf
      exact hinv.prov f (mem_removePaths_files.mp hf).1
    · intro rm h
      injection h with h
      subst h
      intro q hq
      exact hinv.del _ hc q (List.mem_cons_of_mem _ hq)
  · exact hinv
  · exact hinv

theorem inv_stepW (hs : Setup pol now dsv w s0 L) {st : RState} (hinv : Inv w s0 L st) :
    Inv w s0 L (stepW w L st) := by
  unfold stepW
  split
  · -- idle: put the data files
    rename_i hw
    refine ⟨?_, hinv.hasL, ?_, ?_, ?_, ?_, ?_, hinv.insp, hinv.del⟩
    · intro mf hmf
      rcases hinv.mans mf hmf with h | ⟨h, _⟩
      · exact Or.inl h
      · rw [hw] at h; cases h
    · intro f hf hn; exact List.mem_append_left _ (hinv.lfiles f hf hn)
    · intro _ f hf; exact List.mem_append_right _ hf
    · rintro (h | h) <;> cases h
    · intro h; cases h
    · intro f hf
      rcases List.mem_append.mp hf with h | h
      · exact hinv.prov f h
      · exact Or.inr (Or.inl h)
  · -- wroteData: put the transaction file
    rename_i hw
    refine ⟨?_, hinv.hasL, ?_, ?_, ?_, ?_, ?_, hinv.insp, hinv.del⟩
    · intro mf hmf
      rcases hinv.mans mf hmf with h | ⟨h, _⟩
      · exact Or.inl h
      · rw [hw] at h; cases h
    · intro f hf hn; exact List.mem_append_left _ (hinv.lfiles f hf hn)
    · intro _ f hf; exact List.mem_append_left _ (hinv.wdata (Or.inl hw) f hf)
    · intro _; exact List.mem_append_right _ (by simp)
    · intro h; cases h
    · intro f hf
      rcases List.mem_append.mp hf with h | h
      · exact hinv.prov f h
      · exact Or.inr (Or.inr (by simpa using h))
  · -- wroteTxn: commit
    rename_i hw
    split
    · refine ⟨?_, List.mem_append_left _ hinv.hasL, hinv.lfiles, ?_, ?_, ?_, hinv.prov, hinv.insp, hinv.del⟩
      · intro mf hmf
        rcases List.mem_append.mp hmf with h | h
        · rcases hinv.mans mf h with h | ⟨h, _⟩
          · exact Or.inl h
          · rw [hw] at h; cases h
        · exact Or.inr ⟨rfl, by simpa using h⟩
      · intro _ f hf; exact hinv.wdata (Or.inr (Or.inl hw)) f hf
      · intro _; exact hinv.wtxn (Or.inl hw)
      · intro _; exact List.mem_append_right _ (by simp)
    · refine ⟨?_, hinv.hasL, hinv.lfiles, ?_, ?_, ?_, hinv.prov, hinv.insp, hinv.del⟩
      · intro mf hmf
        rcases hinv.mans mf hmf with h | ⟨h, _⟩
        · exact Or.inl h
        · rw [hw] at h; cases h
      · rintro (h | h | h) <;> cases h
      · rintro (h | h) <;> cases h
      · intro h; cases h
  · exact hinv
  · exact hinv

theorem inv_run (hs : Setup pol now dsv w s0 L) (sched : List Bool) {st : RState} (hinv : Inv w s0 L st) :
    Inv w s0 L (runSched pol now dsv tags w L sched st) := by
  induction sched generalizing st with
  | nil => exact hinv
  | cons b r ih =>
    cases b
    · exact ih (inv_stepW hs hinv)
    · exact ih (inv_stepC (tags := tags) hs hinv)

/-- the writer never gives up: with `L` protected its commit guard always holds -/
theorem writer_commits (hs : Setup pol now dsv w s0 L) {st : RState} (hinv : Inv w s0 L st) (hw : st.wpc = .wroteTxn) :
    (stepW w L st).wpc = .committed := by
  unfold stepW
  rw [hw]
  simp only
  rw [if_pos]
  refine ⟨hinv.hasL, ?_⟩
  intro mf hmf
  rcases hinv.mans mf hmf with h | ⟨h, _⟩
  · exact hs.hmax mf h
  · rw [hw] at h; cases h

end LanceModel.C08
