import LanceModel.C08.Model
/-
C08 helper lemmas: string-prefix facts of the reserved directory names, the per-path decision on paths a manifest names,
membership in the referenced sets, well-formed stores.
-/
namespace LanceModel.C08

/-! ### constants as character lists -/

theorem DATA_eq : DATA = ['d', 'a', 't', 'a'] := by decide
theorem DELETIONS_eq : DELETIONS = ['_', 'd', 'e', 'l', 'e', 't', 'i', 'o', 'n', 's'] := by decide
theorem TRANSACTIONS_eq : TRANSACTIONS = ['_', 't', 'r', 'a', 'n', 's', 'a', 'c', 't', 'i', 'o', 'n', 's'] := by decide
theorem INDICES_eq : INDICES = ['_', 'i', 'n', 'd', 'i', 'c', 'e', 's'] := by decide
theorem VERSIONS_TMP_eq : VERSIONS_TMP = ['_', 'v', 'e', 'r', 's', 'i', 'o', 'n', 's', '/', '.', 't', 'm', 'p'] := by decide

theorem joined_two (a b : Seg) : joined [a, b] = a ++ '/' :: b := by simp [joined]

theorem joined_cons_cons (a b : Seg) (t : Path) : joined (a :: b :: t) = a ++ '/' :: joined (b :: t) := by simp [joined]

theorem startsWith_self_append (a b : List Char) : startsWith (a ++ b) a = true := by
  simp [startsWith, List.isPrefixOf_iff_prefix]

/-- the first two characters decide: `s` begins with `c₁ c₂`, `pre` with `c₁ d₂`, `c₂ ≠ d₂` -/
theorem startsWith_second_ne (c1 c2 d2 : Char) (s pre : List Char) (h : d2 ≠ c2) :
    startsWith (c1 :: c2 :: s) (c1 :: d2 :: pre) = false := by
  simp [startsWith, List.isPrefixOf, h]

theorem startsWith_first_ne (c d : Char) (s pre : List Char) (h : d ≠ c) :
    startsWith (c :: s) (d :: pre) = false := by
  simp [startsWith, List.isPrefixOf, h]

/-! ### the decision on the paths a manifest names -/

theorem decide3_ref (v m : Bool) : decide3 true v m = false := by simp [decide3]

/-- a data path (`data/<name>`) in the referenced set is never selected, whatever its extension -/
theorem pinr_data (n : Seg) (mip : Bool) (i : Inspection) (h : dataPath n ∈ i.referenced.data) :
    pathIfNotReferenced (dataPath n) mip i = false := by
  have hj : joined (dataPath n) = 'd' :: 'a' :: 't' :: 'a' :: '/' :: n := by
    simp [dataPath, joined_two, DATA_eq]
  have h1 : startsWith (joined (dataPath n)) VERSIONS_TMP = false := by
    rw [hj, VERSIONS_TMP_eq]; exact startsWith_first_ne _ _ _ _ (by decide)
  have h2 : startsWith (joined (dataPath n)) INDICES = false := by
    rw [hj, INDICES_eq]; exact startsWith_first_ne _ _ _ _ (by decide)
  have h3 : startsWith (joined (dataPath n)) DELETIONS = false := by
    rw [hj, DELETIONS_eq]; exact startsWith_first_ne _ _ _ _ (by decide)
  have h4 : startsWith (joined (dataPath n)) TRANSACTIONS = false := by
    rw [hj, TRANSACTIONS_eq]; exact startsWith_first_ne _ _ _ _ (by decide)
  have hc : i.referenced.data.contains (dataPath n) = true := by simpa using h
  unfold pathIfNotReferenced
  simp only [h1, h2, Bool.false_eq_true, if_false]
  unfold extDecision
  split
  · simp only [h3, h4, hc, decide3_ref, Bool.false_eq_true, if_false]
    split <;> (try split) <;> (try split) <;> (try split) <;> rfl
  · rfl

theorem pinr_del (n : Seg) (mip : Bool) (i : Inspection) (h : delPath n ∈ i.referenced.dels) :
    pathIfNotReferenced (delPath n) mip i = false := by
  have hj : joined (delPath n) = '_' :: 'd' :: 'e' :: 'l' :: 'e' :: 't' :: 'i' :: 'o' :: 'n' :: 's' :: '/' :: n := by
    simp [delPath, joined_two, DELETIONS_eq]
  have h1 : startsWith (joined (delPath n)) VERSIONS_TMP = false := by
    rw [hj, VERSIONS_TMP_eq]; exact startsWith_second_ne _ _ _ _ _ (by decide)
  have h2 : startsWith (joined (delPath n)) INDICES = false := by
    rw [hj, INDICES_eq]; exact startsWith_second_ne _ _ _ _ _ (by decide)
  have h3 : startsWith (joined (delPath n)) DATA = false := by
    rw [hj, DATA_eq]; exact startsWith_first_ne _ _ _ _ (by decide)
  have h4 : startsWith (joined (delPath n)) TRANSACTIONS = false := by
    rw [hj, TRANSACTIONS_eq]; exact startsWith_second_ne _ _ _ _ _ (by decide)
  have hc : i.referenced.dels.contains (delPath n) = true := by simpa using h
  unfold pathIfNotReferenced
  simp only [h1, h2, Bool.false_eq_true, if_false]
  unfold extDecision
  split
  · simp only [h3, h4, hc, decide3_ref, Bool.false_eq_true, if_false]
    split <;> (try split) <;> (try split) <;> (try split) <;> rfl
  · rfl

theorem pinr_txn (n : Seg) (mip : Bool) (i : Inspection) (h : txnPath n ∈ i.referenced.txn) :
    pathIfNotReferenced (txnPath n) mip i = false := by
  have hj : joined (txnPath n) =
      '_' :: 't' :: 'r' :: 'a' :: 'n' :: 's' :: 'a' :: 'c' :: 't' :: 'i' :: 'o' :: 'n' :: 's' :: '/' :: n := by
    simp [txnPath, joined_two, TRANSACTIONS_eq]
  have h1 : startsWith (joined (txnPath n)) VERSIONS_TMP = false := by
    rw [hj, VERSIONS_TMP_eq]; exact startsWith_second_ne _ _ _ _ _ (by decide)
  have h2 : startsWith (joined (txnPath n)) INDICES = false := by
    rw [hj, INDICES_eq]; exact startsWith_second_ne _ _ _ _ _ (by decide)
  have h3 : startsWith (joined (txnPath n)) DATA = false := by
    rw [hj, DATA_eq]; exact startsWith_first_ne _ _ _ _ (by decide)
  have h4 : startsWith (joined (txnPath n)) DELETIONS = false := by
    rw [hj, DELETIONS_eq]; exact startsWith_second_ne _ _ _ _ _ (by decide)
  have hc : i.referenced.txn.contains (txnPath n) = true := by simpa using h
  unfold pathIfNotReferenced
  simp only [h1, h2, Bool.false_eq_true, if_false]
  unfold extDecision
  split
  · simp only [h3, h4, hc, Bool.false_eq_true, if_false, if_true]
    split <;> (try split) <;> (try split) <;> (try split) <;> rfl
  · rfl

/-- a file below the directory of a referenced index (`_indices/<uuid>/…`) is never selected -/
theorem pinr_idx (u : Seg) (rest : Path) (mip : Bool) (i : Inspection) (h : u ∈ i.referenced.idx) :
    pathIfNotReferenced (INDICES :: u :: rest) mip i = false := by
  have hj : joined (INDICES :: u :: rest) = INDICES ++ '/' :: joined (u :: rest) := joined_cons_cons _ _ _
  have h1 : startsWith (joined (INDICES :: u :: rest)) VERSIONS_TMP = false := by
    rw [hj, INDICES_eq, VERSIONS_TMP_eq]; exact startsWith_second_ne _ _ _ _ _ (by decide)
  have h2 : startsWith (joined (INDICES :: u :: rest)) INDICES = true := by
    rw [hj]; exact startsWith_self_append _ _
  have hc : i.referenced.idx.contains u = true := by simpa using h
  unfold pathIfNotReferenced
  simp only [h1, h2, Bool.false_eq_true, if_false, if_true]
  simp [indexDecision, h]

/-! ### manifest file names -/

/-- the shape of an attached manifest's path that makes `path_if_not_referenced` answer "We already scanned the manifest
    files": not `_versions/.tmp…`, not below `_indices`, extension `manifest` -/
def isManifestPath (p : Path) : Bool :=
  !startsWith (joined p) VERSIONS_TMP && !startsWith (joined p) INDICES && extension p == some "manifest".toList

theorem pinr_manifest (p : Path) (mip : Bool) (i : Inspection) (h : isManifestPath p = true) :
    pathIfNotReferenced p mip i = false := by
  simp only [isManifestPath, Bool.and_eq_true, Bool.not_eq_true', beq_iff_eq] at h
  obtain ⟨⟨h1, h2⟩, h3⟩ := h
  unfold pathIfNotReferenced
  simp only [h1, h2, Bool.false_eq_true, if_false]
  unfold extDecision
  rw [h3]
  have : ("manifest".toList = "lance".toList) = False := by decide
  simp only [this, if_false, if_true]

/-! ### when a possibly-in-progress path is selected it is verified -/

/-- is `p` named by manifest `m`: as a data / deletion / transaction path, or as a path whose second segment is the uuid
    of one of its indices -/
def mentions (m : Manifest) (p : Path) : Bool :=
  m.dataPaths.contains p || m.delPaths.contains p || m.txnPaths.contains p ||
    (match p[1]? with
     | some u => m.idx.contains u
     | none => false)

theorem decide3_mip (r v : Bool) (h : decide3 r v true = true) : v = true := by
  cases r <;> simp_all [decide3]

theorem pinr_mip (p : Path) (i : Inspection) (h : pathIfNotReferenced p true i = true) :
    i.verified.data.contains p = true ∨ i.verified.dels.contains p = true ∨ i.verified.txn.contains p = true ∨
      (∃ u, p[1]? = some u ∧ i.verified.idx.contains u = true) := by
  have hext : extDecision p true i = true →
      i.verified.data.contains p = true ∨ i.verified.dels.contains p = true ∨ i.verified.txn.contains p = true := by
    intro he
    unfold extDecision at he
    split at he
    · split at he
      · split at he
        · exact Or.inl (decide3_mip _ _ he)
        · cases he
      · split at he
        · cases he
        · split at he
          · split at he
            · exact Or.inr (Or.inl (decide3_mip _ _ he))
            · cases he
          · split at he
            · split at he
              · split at he
                · cases he
                · exact Or.inr (Or.inr (by simpa using he))
              · cases he
            · cases he
    · cases he
  unfold pathIfNotReferenced at h
  split at h
  · simp at h
  · split at h
    · split at h
      · rename_i b hb
        subst h
        unfold indexDecision at hb
        split at hb
        · rename_i u hu
          split at hb
          · cases hb
          · split at hb
            · simp at *
            · split at hb
              · rename_i hv
                exact Or.inr (Or.inr (Or.inr ⟨u, hu, hv⟩))
              · cases hb
        · cases hb
      · rcases hext h with h | h | h
        · exact Or.inl h
        · exact Or.inr (Or.inl h)
        · exact Or.inr (Or.inr (Or.inl h))
    · rcases hext h with h | h | h
      · exact Or.inl h
      · exact Or.inr (Or.inl h)
      · exact Or.inr (Or.inr (Or.inl h))

/-! ### referenced sets -/

theorem mem_refs_data (ms : List MFile) (p : Path) :
    p ∈ (refsOf ms).data ↔ ∃ mf ∈ ms, p ∈ mf.m.dataPaths := by simp [refsOf, List.mem_flatMap]
theorem mem_refs_dels (ms : List MFile) (p : Path) :
    p ∈ (refsOf ms).dels ↔ ∃ mf ∈ ms, p ∈ mf.m.delPaths := by simp [refsOf, List.mem_flatMap]
theorem mem_refs_txn (ms : List MFile) (p : Path) :
    p ∈ (refsOf ms).txn ↔ ∃ mf ∈ ms, p ∈ mf.m.txnPaths := by simp [refsOf, List.mem_flatMap]
theorem mem_refs_idx (ms : List MFile) (u : Seg) :
    u ∈ (refsOf ms).idx ↔ ∃ mf ∈ ms, u ∈ mf.m.idx := by simp [refsOf, List.mem_flatMap]

/-! ### well-formed stores -/

theorem inj_of_nodup_map {α β : Type} (f : α → β) : ∀ {l : List α}, (l.map f).Nodup →
    ∀ {a b : α}, a ∈ l → b ∈ l → f a = f b → a = b := by
  intro l
  induction l with
  | nil => intro _ a b ha; cases ha
  | cons x t ih =>
    intro hn a b ha hb he
    simp only [List.map_cons, List.nodup_cons] at hn
    rcases List.mem_cons.mp ha with ha' | ha' <;> rcases List.mem_cons.mp hb with hb' | hb'
    · rw [ha', hb']
    · subst ha'; exact absurd (he ▸ List.mem_map.mpr ⟨b, hb', rfl⟩) hn.1
    · subst hb'; exact absurd (he ▸ List.mem_map.mpr ⟨a, ha', rfl⟩) hn.1
    · exact ih hn.2 ha' hb' he

/-- what an object store guarantees (one object per path, one manifest per version) and what the naming scheme guarantees
    (attached manifests are named `….manifest` below `_versions`) -/
structure WF (s : Store) : Prop where
  paths_nodup : (s.listing.map (fun f => f.path)).Nodup
  versions_nodup : (s.mans.map (fun mf => mf.m.version)).Nodup
  man_paths : ∀ mf ∈ s.mans, isManifestPath mf.path = true

theorem WF.man_file_disjoint {s : Store} (h : WF s) {mf : MFile} {f : File} (hm : mf ∈ s.mans) (hf : f ∈ s.files) :
    mf.path ≠ f.path := by
  have := h.paths_nodup
  simp only [Store.listing, List.map_append, List.map_map] at this
  have hd := (List.nodup_append.mp this).2.2
  intro he
  exact hd mf.path (List.mem_map.mpr ⟨mf, hm, rfl⟩) f.path (List.mem_map.mpr ⟨f, hf, rfl⟩) he

theorem WF.man_path_inj {s : Store} (h : WF s) {a b : MFile} (ha : a ∈ s.mans) (hb : b ∈ s.mans)
    (he : a.path = b.path) : a = b := by
  have := h.paths_nodup
  simp only [Store.listing, List.map_append, List.map_map] at this
  have hn := (List.nodup_append.mp this).1
  exact inj_of_nodup_map _ hn ha hb (by simpa [MFile.toFile] using he)

theorem WF.file_path_inj {s : Store} (h : WF s) {a b : File} (ha : a ∈ s.files) (hb : b ∈ s.files)
    (he : a.path = b.path) : a = b := by
  have := h.paths_nodup
  simp only [Store.listing, List.map_append, List.map_map] at this
  have hn := (List.nodup_append.mp this).2.1
  exact inj_of_nodup_map _ hn ha hb he

theorem find_version {l : List MFile} (hn : (l.map (fun mf => mf.m.version)).Nodup) {x : MFile} (hx : x ∈ l) :
    l.find? (fun mf => mf.m.version = x.m.version) = some x := by
  induction l with
  | nil => cases hx
  | cons a t ih =>
    simp only [List.map_cons, List.nodup_cons] at hn
    by_cases hax : a = x
    · subst hax; simp
    · have hxt : x ∈ t := by
        rcases List.mem_cons.mp hx with h | h
        · exact absurd h.symm hax
        · exact h
      have hne : a.m.version ≠ x.m.version := by
        intro he
        exact hn.1 (he ▸ List.mem_map.mpr ⟨x, hxt, rfl⟩)
      simp [List.find?, hne, ih hn.2 hxt]

end LanceModel.C08
