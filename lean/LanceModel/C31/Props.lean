import LanceModel.C31.WriterInv
import LanceModel.C31.FrameLemmas
import LanceModel.C31.AckLemmas
/-
C31 — "Whatever sequence and sizes of writes are issued to an object writer (below, at and above multipart
thresholds), the object that appears after a successful shutdown has exactly the concatenated bytes, nothing
appears at the destination before shutdown completes, and an aborted or failed write leaves no object behind."

Quantification: every configuration `c` (initial part size, growth step, upload concurrency, retry budget, constant
part sizes), every list of ops = every sequence of `poll_write` input sizes, every interleaving of polls with store
answers, every order in which the part uploads are answered, every fault decision per store call.
-/
namespace LanceModel.C31

/-- the bytes a list of segments stands for, given the input slice `data j` of the j-th accepting write call -/
def denote {α : Type} (data : Nat → List α) (l : List Seg) : List α :=
  l.flatMap (fun g => ((data g.src).drop g.off).take g.len)

/-- what a reader of the destination gets -/
def destination {α : Type} (data : Nat → List α) (s : St) : Option (List α) := s.object.map (denote data)

/-- the client follows the AsyncWrite protocol: no poll_write after the first poll_shutdown -/
def ClientOk (ops : List Op) : Prop := noLateWrite false ops = true

/-- the writer was shut down successfully (`poll_shutdown` returned `Ready(Ok)`: state `Done`, not by abort) -/
def ShutDown (s : St) : Prop := s.phase = .done ∧ s.aborted = false

instance (ops : List Op) : Decidable (ClientOk ops) := by unfold ClientOk; infer_instance
instance (s : St) : Decidable (ShutDown s) := by unfold ShutDown; infer_instance

/-- configuration of the examples: parts of 3 bytes, two uploads in flight, two retries -/
def exCfg : Cfg := { init := 3, step := 3, maxPar := 2, maxRetry := 2 }

/-- 7 bytes in chunks of 3, 3, 1: three parts, answered out of order, then `complete` -/
def exOps : List Op := [.write 3, .rel .create .ok, .write 3, .write 1, .shutdown, .rel (.part 1) .ok,
  .rel (.part 0) .ok, .shutdown, .rel (.part 2) .ok, .shutdown, .rel .complete .ok, .shutdown]

/-! ### shutdown_content -/

/-- After a successful shutdown the object is the concatenation of all accepted writes in order (for every content
of the input slices), `tell()` is the number of bytes accepted, and `WriteResult.size` equals it — for every chunk
sequence, interleaving, completion order and fault pattern, provided at least one upload may be in flight. -/
theorem shutdown_content {α : Type} (data : Nat → List α) (c : Cfg) (ops : List Op)
    (hpar : 1 ≤ c.maxPar) (hclient : ClientOk ops) (hdone : ShutDown (run (init c) ops)) :
    destination data (run (init c) ops) = some (denote data (run (init c) ops).log) ∧
    (run (init c) ops).object = some (run (init c) ops).log ∧
    (run (init c) ops).cursor = total (run (init c) ops).log ∧
    (run (init c) ops).size = (run (init c) ops).cursor := by
  have hinv := inv_run c ops
  have hcfg : (run (init c) ops).cfg = c :=
    closed_run (P := fun s => s.cfg = c) (by
      refine { popOk := ?_, popRetry := ?_, popBad := ?_, toInProgress := ?_, poison := ?_, finish := ?_,
               accept := ?_, startNext := ?_, shutdownArm := ?_, relPart := ?_, relCreate := ?_, abort := ?_,
               noteWrite := ?_, noteSd := ?_, noteRel := ?_, relSingle := ?_, relComplete := ?_ }
      all_goals intros
      all_goals first
        | assumption
        | (rename_i h _ _; frame_core h)
        | (rename_i h _; frame_core h)
        | (rename_i h; frame_core h)) ops (init c) rfl
  have hlate : (run (init c) ops).lateWrite = false := lateWrite_run ops (init c) hclient rfl
  obtain ⟨_, hB, _, hD⟩ := hinv
  have hobj := hD.2.2.1 (by rw [hcfg]; exact hpar) hlate hdone.2 (Or.inl hdone.1)
  refine ⟨by simp [destination, hobj], hobj, hB.1, hD.2.2.2.1 hlate hdone.2 hdone.1⟩

/-- non-vacuity: `exOps` satisfies the hypotheses and ends with the 7 bytes in place -/
example : 1 ≤ exCfg.maxPar ∧ ClientOk exOps ∧ ShutDown (run (init exCfg) exOps) ∧
    (run (init exCfg) exOps).object = some [⟨0, 0, 3⟩, ⟨1, 0, 3⟩, ⟨2, 0, 1⟩] ∧
    (run (init exCfg) exOps).size = 7 := by
  decide

/-! ### invisible_before -/

/-- Only the store's (executing) answer to the single `put` or to `complete` changes what a reader of the
destination sees: no poll, no part upload, no `put_multipart`, no abort does. -/
theorem invisible_step (s : St) (op : Op) (h : (step s op).1.object ≠ s.object) :
    ∃ f, (op = .rel .single f ∨ op = .rel .complete f) ∧ (f = .ok ∨ f = .lr) := by
  cases op with
  | rel c f =>
    cases c with
    | single =>
      refine ⟨f, Or.inl rfl, ?_⟩
      cases f with
      | ok => exact Or.inl rfl
      | lr => exact Or.inr rfl
      | fb => exact absurd (object_final_fault s .single .fb (Or.inl rfl)) h
      | reset => exact absurd (object_final_fault s .single .reset (Or.inr rfl)) h
    | complete =>
      refine ⟨f, Or.inr rfl, ?_⟩
      cases f with
      | ok => exact Or.inl rfl
      | lr => exact Or.inr rfl
      | fb => exact absurd (object_final_fault s .complete .fb (Or.inl rfl)) h
      | reset => exact absurd (object_final_fault s .complete .reset (Or.inr rfl)) h
    | create => exact absurd (object_step s (.rel .create f) trivial) h
    | part i => exact absurd (object_step s (.rel (.part i) f) trivial) h
  | write n => exact absurd (object_step s (.write n) trivial) h
  | flush => exact absurd (object_step s .flush trivial) h
  | shutdown => exact absurd (object_step s .shutdown trivial) h
  | abort => exact absurd (object_step s .abort trivial) h
  | drop => exact absurd (object_step s .drop trivial) h

/-- Nothing is at the destination until `poll_shutdown` has been called: the `put` / `complete` call is only ever
made by shutdown, and (`invisible_step`) only its answer publishes the object. -/
theorem invisible_before (c : Cfg) (ops : List Op) (h : (run (init c) ops).object ≠ none) :
    ops.any Op.isShutdown = true := by
  have hinv := inv_run c ops
  obtain ⟨_, _, ⟨_, _, _, _, _, _, _, _, c9⟩, _⟩ := hinv
  have := c9 h
  rw [sdSeen_run] at this
  simpa [init] using this

/-- non-vacuity: the object of `exOps` is absent up to, and present from, the answer to `complete` -/
example : (run (init exCfg) (exOps.take 10)).object = none ∧ (run (init exCfg) (exOps.take 11)).object ≠ none := by
  decide

/-! ### abort_clean -/

/-- `abort()` (or dropping the writer) before the object was published leaves no object, whatever happens
afterwards (late answers of the store, further polls). -/
theorem abort_clean (c : Cfg) (ops later : List Op) (h : (run (init c) ops).object = none) :
    (run (abort (run (init c) ops)) later).object = none :=
  (closed_run done_closed later (abort (run (init c) ops)) ⟨rfl, h⟩).2

/-- A write that reported a failure (a poll returned an error: a part upload failed beyond the retry budget or with
another error, `put_multipart` / `put` / `complete` failed) leaves no object, now or later — for fail-stop faults
(no lost response on the publishing call, which no client can tell from a failure). -/
theorem failure_clean (c : Cfg) (ops : List Op) (e : Err) (hnolr : ops.any Op.isLr = false)
    (herr : .err e ∈ trace (init c) ops) : (run (init c) ops).object = none := by
  have hinv := inv_run c ops
  have hE := trace_err e ops (init c) herr
  have hL : (run (init c) ops).lrSeen = false := by rw [lrSeen_run]; simpa [init] using hnolr
  obtain ⟨_, _, _, _, _, _, _, d5, _⟩ := hinv
  exact (d5 hL hE).1

/-- non-vacuity of `abort_clean` (two parts uploaded, nothing published) and of `failure_clean` (part 1 fails) -/
example : (run (init exCfg) (exOps.take 7)).object = none ∧
    ([Op.write 3, .rel .create .ok, .write 3, .write 1, .rel (.part 0) .ok, .rel (.part 1) .fb, .shutdown] : List Op).any
      Op.isLr = false ∧
    Res.err .other ∈ trace (init exCfg)
      [.write 3, .rel .create .ok, .write 3, .write 1, .rel (.part 0) .ok, .rel (.part 1) .fb, .shutdown] := by
  decide

/-! ### parts_in_order -/

/-- part number `i` of the upload (as numbered by the store: the i-th `put_part` call) carries the stream bytes that
follow the parts with smaller numbers -/
def PartsInOrder (s : St) : Prop :=
  ∀ x ∈ s.recorded, ((s.issued.take x.1).flatten ++ x.2).isPrefixOf s.log = true

instance (s : St) : Decidable (PartsInOrder s) := by unfold PartsInOrder; infer_instance

/-- the property at full strength: for every run -/
def parts_in_order_full : Prop := ∀ (c : Cfg) (ops : List Op), PartsInOrder (run (init c) ops)

/-- Holds whenever no connection reset is injected: regardless of sizes, interleaving, completion order, other faults. -/
theorem parts_in_order_partial (c : Cfg) (ops : List Op) (hnr : ops.any Op.isReset = false) :
    PartsInOrder (run (init c) ops) := by
  have hinv := inv_run c ops
  have hR : (run (init c) ops).resetSeen = false := by rw [resetSeen_run]; simpa [init] using hnr
  obtain ⟨hA, hB, _, hD⟩ := hinv
  have hnr0 := (hD.2.2.2.2.2.2.2.2 hR).1
  have hlay := hB.2 hnr0
  intro x hx
  have hi := hA.1.1 x hx
  obtain ⟨hlt, hget⟩ := List.getElem?_eq_some_iff.1 hi
  rw [List.isPrefixOf_iff_prefix]
  have hsplit : (run (init c) ops).issued =
      (run (init c) ops).issued.take x.1 ++ x.2 :: (run (init c) ops).issued.drop (x.1 + 1) := by
    rw [← hget]
    exact (List.take_append_drop x.1 _).symm.trans (by rw [List.drop_eq_getElem_cons hlt])
  refine ⟨((run (init c) ops).issued.drop (x.1 + 1)).flatten ++ (run (init c) ops).single ++
    (run (init c) ops).buf, ?_⟩
  rw [← hlay]
  conv => rhs; rw [hsplit]
  simp [List.flatten_append, List.append_assoc]

/-- The code does not meet it: a part whose upload failed with a connection reset is re-submitted with a NEW
`put_part` call, which the store numbers after every part submitted so far (here the bytes 0..3 become part number 2,
after part 1 = bytes 3..6). -/
theorem parts_in_order_counterexample : ¬ parts_in_order_full := by
  intro h
  have := h exCfg
    [.write 3, .rel .create .ok, .write 3, .write 1, .rel (.part 0) .reset, .flush, .rel (.part 2) .ok]
  revert this
  decide

example : ([Op.write 3, .rel .create .ok, .write 3, .write 1, .rel (.part 1) .ok, .rel (.part 0) .fb] : List Op).any
    Op.isReset = false ∧
    (run (init exCfg)
      [.write 3, .rel .create .ok, .write 3, .write 1, .rel (.part 1) .ok, .rel (.part 0) .fb]).recorded ≠ [] := by
  decide

/-! ### retries -/

/-- connection resets within the retry budget (and no other fault) never make a poll report an error -/
def retry_effective_full : Prop :=
  ∀ (c : Cfg) (ops : List Op), (∀ op ∈ ops, Op.isFault op = true → Op.isReset op = true) →
    (ops.filter Op.isReset).length ≤ c.maxRetry → ∀ e, Res.err e ∉ trace (init c) ops

/-- With the part numbering of `object_store`'s multipart uploads the retry cannot work: the failed call's part
number is never recorded, `complete` answers "Missing part", shutdown fails (one reset, budget 2). -/
theorem retry_effective_counterexample : ¬ retry_effective_full := by
  intro h
  have := h exCfg
    [.write 3, .rel .create .ok, .write 3, .write 1, .rel (.part 0) .reset, .shutdown, .rel (.part 1) .ok,
     .rel (.part 2) .ok, .shutdown, .rel (.part 3) .ok, .shutdown, .rel .complete .ok, .shutdown]
    (by decide) (by decide) .other
  revert this
  decide

/-- what does hold: without injected faults no poll ever reports an error (in particular `complete` never misses a
part and shutdown cannot fail) -/
theorem retry_effective_partial (c : Cfg) (ops : List Op) (hnf : ops.any Op.isFault = false) :
    ∀ e, Res.err e ∉ trace (init c) ops := by
  intro e he
  have hinv := inv_run c ops
  have hE := trace_err e ops (init c) he
  have hF : (run (init c) ops).faultSeen = false := by rw [faultSeen_run]; simpa [init] using hnf
  obtain ⟨_, _, _, _, _, _, _, _, _, _, d8, _⟩ := hinv
  have := (d8 hF).1
  rw [hE] at this
  cases this

/-! ### cursor -/

/-- `tell()` is always the number of bytes accepted so far -/
theorem cursor_total (c : Cfg) (ops : List Op) : (run (init c) ops).cursor = total (run (init c) ops).log :=
  (inv_run c ops).2.1.1

/-- The accepted writes of `shutdown_content` are what the caller was told: as long as no poll reports an error, the
lengths of the accepted writes are exactly the `Ready(Ok(k))` answers of `poll_write`, in order (each from the
beginning of that call's input slice). -/
theorem log_is_acked (c : Cfg) (ops : List Op) (h : ∀ e, Res.err e ∉ trace (init c) ops) :
    (run (init c) ops).log.map (·.len) = acked (trace (init c) ops) := by
  have := run_log ops (init c) h
  simpa [init] using this

example : (Res.err .other ∉ trace (init exCfg) exOps ∧ Res.err .connReset ∉ trace (init exCfg) exOps) ∧
    acked (trace (init exCfg) exOps) = [3, 3, 1] := by
  decide

/-- every `put_part` call in flight or recorded carries the payload it was called with, part numbers are never reused,
and every call is in flight, recorded or failed (the store bookkeeping the other theorems rest on) -/
theorem store_bookkeeping (c : Cfg) (ops : List Op) : InvA (run (init c) ops) := (inv_run c ops).1

end LanceModel.C31
