import LanceModel.C31.Model
/-
C31 — list facts used by the invariants: byte counts, sorting the recorded parts, and the pigeonhole step
"as many distinct part numbers below n as n ⇒ they are 0 … n-1".
-/
namespace LanceModel.C31

theorem total_append (a b : List Seg) : total (a ++ b) = total a + total b := by
  induction a with
  | nil => simp [total]
  | cons x t ih => simp [total, ih]; omega

theorem total_nil : total [] = 0 := rfl

/-! ### removing one task from the JoinSet -/

theorem filter_sidx_length (l : List Part) (p : Part)
    (hd : l.Pairwise (fun a b => a.sidx ≠ b.sidx)) (hp : p ∈ l) :
    (l.filter (fun q => q.sidx ≠ p.sidx)).length + 1 = l.length := by
  induction l with
  | nil => cases hp
  | cons x t ih =>
    rw [List.pairwise_cons] at hd
    by_cases hx : x.sidx = p.sidx
    · have hall : ∀ q ∈ t, q.sidx ≠ p.sidx := fun q hq => by
        have := hd.1 q hq; omega
      have h1 : t.filter (fun q => q.sidx ≠ p.sidx) = t := by
        apply List.filter_eq_self.2
        intro q hq; simpa using hall q hq
      have h2 : (x :: t).filter (fun q => q.sidx ≠ p.sidx) = t.filter (fun q => q.sidx ≠ p.sidx) := by
        apply List.filter_cons_of_neg; simpa using hx
      rw [h2, h1]; rfl
    · have hpt : p ∈ t := by
        rcases List.mem_cons.1 hp with h | h
        · subst h; exact absurd rfl hx
        · exact h
      have h1 := ih hd.2 hpt
      have h2 : (x :: t).filter (fun q => q.sidx ≠ p.sidx) = x :: t.filter (fun q => q.sidx ≠ p.sidx) := by
        apply List.filter_cons_of_pos; simpa using hx
      rw [h2]; simp only [List.length_cons]; omega

/-! ### sorting the recorded parts -/

theorem insertPart_perm (x : Nat × List Seg) (l : List (Nat × List Seg)) :
    (insertPart x l).Perm (x :: l) := by
  induction l with
  | nil => simp [insertPart]
  | cons y t ih =>
    unfold insertPart
    split
    · exact List.Perm.refl _
    · exact (List.Perm.cons y ih).trans (List.Perm.swap x y t)

theorem sortParts_perm (l : List (Nat × List Seg)) : (sortParts l).Perm l := by
  induction l with
  | nil => simp [sortParts]
  | cons x t ih =>
    have : sortParts (x :: t) = insertPart x (sortParts t) := rfl
    rw [this]
    exact (insertPart_perm x _).trans (List.Perm.cons x ih)

theorem insertPart_sorted (x : Nat × List Seg) (l : List (Nat × List Seg))
    (h : l.Pairwise (fun a b => a.1 ≤ b.1)) : (insertPart x l).Pairwise (fun a b => a.1 ≤ b.1) := by
  induction l with
  | nil => simp [insertPart]
  | cons y t ih =>
    rw [List.pairwise_cons] at h
    unfold insertPart
    split
    · rename_i hxy
      rw [List.pairwise_cons]
      refine ⟨?_, List.pairwise_cons.2 h⟩
      intro z hz
      rcases List.mem_cons.1 hz with rfl | hz
      · exact hxy
      · have := h.1 z hz; omega
    · rename_i hxy
      rw [List.pairwise_cons]
      refine ⟨?_, ih h.2⟩
      intro z hz
      rcases List.mem_cons.1 ((insertPart_perm x t).mem_iff.1 hz) with rfl | hz
      · omega
      · exact h.1 z hz

theorem sortParts_sorted (l : List (Nat × List Seg)) :
    (sortParts l).Pairwise (fun a b => a.1 ≤ b.1) := by
  induction l with
  | nil => simp [sortParts]
  | cons x t ih =>
    have : sortParts (x :: t) = insertPart x (sortParts t) := rfl
    rw [this]; exact insertPart_sorted x _ ih

/-! ### pigeonhole on strictly increasing lists -/

theorem strict_length_le (l : List Nat) : ∀ (a k : Nat), l.Pairwise (· < ·) →
    (∀ x ∈ l, a ≤ x ∧ x < a + k) → l.length ≤ k := by
  induction l with
  | nil => intros; simp
  | cons x t ih =>
    intro a k hp hb
    rw [List.pairwise_cons] at hp
    have hx := hb x (List.mem_cons_self)
    have := ih (x + 1) (a + k - (x + 1)) hp.2 (fun y hy => by
      have h1 := hp.1 y hy
      have h2 := hb y (List.mem_cons_of_mem _ hy)
      omega)
    simp only [List.length_cons]; omega

theorem strict_eq_range (l : List Nat) : ∀ (a : Nat), l.Pairwise (· < ·) →
    (∀ x ∈ l, a ≤ x ∧ x < a + l.length) → l = List.range' a l.length := by
  induction l with
  | nil => intros; simp
  | cons x t ih =>
    intro a hp hb
    rw [List.pairwise_cons] at hp
    have hx := hb x (List.mem_cons_self)
    simp only [List.length_cons] at hx hb ⊢
    have hxa : x = a := by
      by_cases h : x = a
      · exact h
      · exfalso
        have := strict_length_le t (x + 1) (a + (t.length + 1) - (x + 1)) hp.2 (fun y hy => by
          have h1 := hp.1 y hy
          have h2 := hb y (List.mem_cons_of_mem _ hy)
          omega)
        omega
    subst hxa
    have := ih (x + 1) hp.2 (fun y hy => by
      have h1 := hp.1 y hy
      have h2 := hb y (List.mem_cons_of_mem _ hy)
      omega)
    rw [List.range'_succ, ← this]

/-- `Parts::finish` on a complete set of parts returns the payloads in call order. -/
theorem assemble_complete (recorded : List (Nat × List Seg)) (issued : List (List Seg))
    (hrec : ∀ x ∈ recorded, issued[x.1]? = some x.2)
    (hnd : (recorded.map (·.1)).Nodup)
    (hlen : recorded.length = issued.length) :
    assemble recorded = issued.flatten := by
  have hperm := sortParts_perm recorded
  have hsorted := sortParts_sorted recorded
  have hnd' : ((sortParts recorded).map (·.1)).Nodup := (hperm.map (·.1)).nodup_iff.2 hnd
  have hstrict : ((sortParts recorded).map (·.1)).Pairwise (· < ·) := by
    have h1 : ((sortParts recorded).map (·.1)).Pairwise (· ≤ ·) := List.pairwise_map.2 hsorted
    exact (h1.and hnd').imp (fun h => by omega)
  have hlen' : (sortParts recorded).length = issued.length := hperm.length_eq.trans hlen
  have hrec' : ∀ x ∈ sortParts recorded, issued[x.1]? = some x.2 :=
    fun x hx => hrec x (hperm.mem_iff.1 hx)
  have hkeys : (sortParts recorded).map (·.1) = List.range' 0 ((sortParts recorded).map (·.1)).length := by
    apply strict_eq_range _ 0 hstrict
    intro k hk
    obtain ⟨x, hx, rfl⟩ := List.mem_map.1 hk
    have := hrec' x hx
    obtain ⟨h, _⟩ := List.getElem?_eq_some_iff.1 this
    simp only [List.length_map]; omega
  have hsnd : (sortParts recorded).map (·.2) = issued := by
    apply List.ext_getElem (by simpa using hlen')
    intro i h1 h2
    simp only [List.length_map] at h1
    have hk : ((sortParts recorded).map (·.1))[i]'(by simpa using h1) = i := by
      have := congrArg (fun l => l[i]?) hkeys
      simp only [List.length_map] at this
      rw [List.getElem?_eq_getElem (by simpa using h1)] at this
      rw [List.getElem?_range' (by simpa using h1)] at this
      simpa using this
    have hmem : (sortParts recorded)[i] ∈ sortParts recorded := List.getElem_mem h1
    have := hrec' _ hmem
    simp only [List.getElem_map] at hk
    rw [hk] at this
    obtain ⟨_, h3⟩ := List.getElem?_eq_some_iff.1 this
    simp only [List.getElem_map]; exact h3.symm
  unfold assemble
  rw [List.flatMap_def, hsnd]

end LanceModel.C31
