import LanceModel.C31.FrameLemmas
/-
C31 — the ghost `log` is what the caller was told: as long as no poll reports an error, the accepted writes are
exactly the `Ready(Ok(k))` answers of `poll_write`, in order.
-/
namespace LanceModel.C31

/-- log and write counter -/
def LW (s : St) : List Seg × Nat := (s.log, s.nWrites)

theorem drain_lw : ∀ (q : List (Part × Fault)) (s : St), LW (drain s q).1 = LW s := by
  intro q
  induction q with
  | nil => intro s; rfl
  | cons x q ih =>
    intro s
    obtain ⟨p, f⟩ := x
    cases f with
    | ok => simp only [drain]; rw [ih]; rfl
    | reset =>
      simp only [drain]
      split
      · rw [ih]; rfl
      · rfl
    | fb => rfl
    | lr => rfl

theorem pollTasks_lw (s : St) : LW (pollTasks s).1 = LW s := by
  unfold pollTasks
  cases s.phase <;> simp only
  · cases s.pend with
    | got f => cases f <;> simp only <;> first | rfl | (rw [drain_lw]; rfl)
    | _ => rfl
  · rw [drain_lw]
  · cases s.pend with
    | got f => cases f <;> rfl
    | _ => rfl
  · cases s.pend with
    | got f => cases f <;> rfl
    | _ => rfl

theorem startNext_lw (s : St) : LW (startNext s) = LW s := by
  unfold startNext
  split
  · cases s.phase <;> simp only <;> (try split) <;> rfl
  · rfl

theorem shutdownArm_lw (s : St) : LW (shutdownArm s).1 = LW s := by
  unfold shutdownArm
  cases s.phase <;> simp only <;> (try split) <;> (try split) <;> rfl

theorem relCall_lw (s : St) (c : Call) (f : Fault) : LW (relCall s c f).1 = LW s := by
  cases c <;> simp only [relCall, relCreate, relSingle, relComplete, relPart] <;>
    (repeat' split) <;> rfl

theorem markErr_lw (r : St × Res) : LW (markErr r).1 = LW r.1 := by
  unfold markErr; split <;> rfl

/-- the segment a result acknowledges -/
def ack (nw : Nat) : Res → List Seg
  | .ready k => [⟨nw, 0, k⟩]
  | _ => []

theorem pollWrite_lw (s : St) (n : Nat) (h : ∀ e, (pollWrite s n).2 ≠ .err e) :
    LW (pollWrite s n).1 = (s.log ++ ack s.nWrites (pollWrite s n).2,
      s.nWrites + (ack s.nWrites (pollWrite s n).2).length) := by
  unfold pollWrite at h ⊢
  have h1 := pollTasks_lw s
  rcases hpt : pollTasks s with ⟨s1, _ | e⟩
  · rw [hpt] at h1 h
    simp only at h1 h ⊢
    have h2 := pollTasks_lw (startNext (accept s1 n))
    rcases hpt2 : pollTasks (startNext (accept s1 n)) with ⟨s2, _ | e⟩
    · rw [hpt2] at h2
      simp only at h2 ⊢
      rw [h2, startNext_lw]
      have hl : s1.log = s.log := congrArg Prod.fst h1
      have hn : s1.nWrites = s.nWrites := congrArg Prod.snd h1
      unfold accept
      split
      · rename_i hz; simp [LW, ack, hz, hl, hn]
      · rename_i hz; simp [LW, ack, hz, hl, hn]
    · rw [hpt2] at h; exact absurd rfl (h e)
  · rw [hpt] at h; exact absurd rfl (h e)

theorem ack_nil (nw : Nat) (r : Res) (h : ∀ k, r ≠ .ready k) : ack nw r = [] := by
  cases r <;> simp_all [ack]

theorem markErr_snd (r : St × Res) : (markErr r).2 = r.2 := by
  unfold markErr; split <;> rfl

theorem pollFlush_lw (s : St) : LW (pollFlush s).1 = LW s := by
  unfold pollFlush
  have h1 := pollTasks_lw s
  rcases hpt : pollTasks s with ⟨s1, _ | e⟩
  · rw [hpt] at h1
    simp only at h1 ⊢
    cases s1.phase <;> exact h1
  · rw [hpt] at h1; exact h1

theorem pollFlush_noready (s : St) : ∀ k, (pollFlush s).2 ≠ .ready k := by
  intro k
  unfold pollFlush
  rcases pollTasks s with ⟨s1, _ | e⟩
  · simp only
    cases s1.phase <;> simp only <;> (try split) <;> simp
  · simp

theorem shutdownArm_noready (s : St) : ∀ k, (shutdownArm s).2 ≠ .ready k := by
  intro k; unfold shutdownArm
  cases s.phase <;> simp only <;> (try split) <;> (try split) <;> simp

theorem pollShutdown_lw (s : St) : LW (pollShutdown s).1 = LW s := by
  unfold pollShutdown
  have h1 := pollTasks_lw s
  rcases hpt : pollTasks s with ⟨s1, _ | e⟩
  · rw [hpt] at h1
    simp only at h1 ⊢
    rw [shutdownArm_lw]; exact h1
  · rw [hpt] at h1; exact h1

theorem pollShutdown_noready (s : St) : ∀ k, (pollShutdown s).2 ≠ .ready k := by
  intro k
  unfold pollShutdown
  rcases pollTasks s with ⟨s1, _ | e⟩
  · exact shutdownArm_noready s1 k
  · simp

theorem step_lw (s : St) (op : Op) (h : ∀ e, (step s op).2 ≠ .err e) :
    LW (step s op).1 = (s.log ++ ack s.nWrites (step s op).2, s.nWrites + (ack s.nWrites (step s op).2).length) := by
  cases op with
  | write n =>
    simp only [step] at h ⊢
    split
    · simp [LW, note, ack]
    · rename_i hnp
      simp only [hnp, if_false] at h
      have hm : ∀ e, (pollWrite (note s (.write n)) n).2 ≠ .err e := by
        intro e he
        have : (markErr (pollWrite (note s (.write n)) n)).2 = .err e := by
          unfold markErr; rw [he]
        exact h e this
      rw [markErr_lw, pollWrite_lw _ n hm]
      have : (markErr (pollWrite (note s (.write n)) n)).2 = (pollWrite (note s (.write n)) n).2 := by
        unfold markErr; split <;> rfl
      rw [this]; rfl
  | flush =>
    simp only [step]
    split
    · simp [LW, ack]
    · rw [markErr_lw, ack_nil _ _ (by rw [markErr_snd]; exact pollFlush_noready s), pollFlush_lw]
      simp [LW]
  | shutdown =>
    simp only [step]
    split
    · simp [LW, note, ack]
    · rw [markErr_lw, ack_nil _ _ (by rw [markErr_snd]; exact pollShutdown_noready _), pollShutdown_lw]
      simp [LW, note]
  | rel c f =>
    simp only [step]
    rw [relCall_lw]
    have : ∀ k, (relCall (note s (.rel c f)) c f).2 ≠ .ready k := by
      intro k
      cases c <;> simp only [relCall, relCreate, relSingle, relComplete, relPart] <;>
        (repeat' split) <;> simp
    cases hres : (relCall (note s (.rel c f)) c f).2 <;> simp_all [ack, LW, note]
  | abort => simp [step, LW, abort, ack]
  | drop => simp [step, LW, abort, ack]

/-- the accepted counts a caller was told: the `Ready(Ok(k))` answers of `poll_write` -/
def acked : List Res → List Nat
  | [] => []
  | .ready k :: t => k :: acked t
  | _ :: t => acked t

theorem run_log : ∀ (ops : List Op) (s : St), (∀ e, Res.err e ∉ trace s ops) →
    (run s ops).log.map (·.len) = s.log.map (·.len) ++ acked (trace s ops) := by
  intro ops
  induction ops with
  | nil => intro s _; simp [run, trace, acked]
  | cons op t ih =>
    intro s h
    simp only [run, trace]
    have h1 : ∀ e, (step s op).2 ≠ .err e := fun e he => h e (by simp [trace, he])
    have h2 : ∀ e, Res.err e ∉ trace (step s op).1 t := fun e he => h e (by simp [trace, he])
    rw [ih _ h2]
    have := congrArg Prod.fst (step_lw s op h1)
    simp only [LW] at this
    rw [this]
    cases hres : (step s op).2 <;> simp [ack, acked]

end LanceModel.C31
