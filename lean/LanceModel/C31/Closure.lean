import LanceModel.C31.Model
/-
C31 — an induction principle for the writer/store machine: a predicate that is preserved by every elementary
update of the model (`Closed`) holds after every op (`closed_step`) and in every reachable state (`closed_run`).
All invariants of the property are proved through it, so the case analysis over `step` is done once.
-/
namespace LanceModel.C31

/-- the ghost flags of a store answer have been noted -/
def Noted (s : St) (f : Fault) : Prop :=
  (f = Fault.lr → s.lrSeen = true) ∧ (f = Fault.reset → s.resetSeen = true) ∧ (f ≠ Fault.ok → s.faultSeen = true)

/-- the updates of the writer and the store, without the ghost notes and without the two store answers that can
publish the object -/
structure ClosedCore (P : St → Prop) : Prop where
  popOk : ∀ (s : St) p q, P s → s.phase = .inProgress → s.doneQ = (p, .ok) :: q → P { s with doneQ := q }
  popRetry : ∀ (s : St) p q, P s → s.phase = .inProgress → s.doneQ = (p, .reset) :: q → s.resets < s.cfg.maxRetry →
    P { (submit s p.data) with doneQ := q, resets := s.resets + 1, nRetried := s.nRetried + 1 }
  popBad : ∀ (s : St) p f q, P s → s.phase = .inProgress → s.doneQ = (p, f) :: q → f ≠ .ok →
    P { s with doneQ := q, errSeen := true }
  toInProgress : ∀ (s : St), P s → s.phase = .creating → s.pend = .got .ok → P (toInProgress s)
  poison : ∀ (s : St) f, P s → (s.phase = .creating ∨ s.phase = .puttingSingle ∨ s.phase = .completing) →
    s.pend = .got f → f ≠ .ok → P { s with phase := .poisoned, pend := .idle, errSeen := true }
  finish : ∀ (s : St), P s → (s.phase = .puttingSingle ∨ s.phase = .completing) → s.pend = .got .ok →
    P { s with phase := .done, size := s.cursor, pend := .idle }
  accept : ∀ (s : St) n, P s → s.phase ≠ .poisoned → (s.sdSeen = true → s.lateWrite = true) → P (accept s n)
  startNext : ∀ (s : St), P s → s.phase ≠ .poisoned → P (startNext s)
  shutdownArm : ∀ (s : St), P s → s.sdSeen = true → P (shutdownArm s).1
  relPart : ∀ (s : St) i f, P s → Noted s f → P (relPart s i f).1
  relCreate : ∀ (s : St) f, P s → Noted s f → P (relCreate s f).1
  abort : ∀ (s : St), P s → P (abort s)

/-- … plus the ghost notes: everything except the two store answers that can publish the object -/
structure ClosedPoll (P : St → Prop) : Prop extends ClosedCore P where
  noteWrite : ∀ (s : St), P s → P { s with lateWrite := s.lateWrite || s.sdSeen }
  noteSd : ∀ (s : St), P s → P { s with sdSeen := true }
  noteRel : ∀ (s : St) (f : Fault), P s →
    P { s with lrSeen := s.lrSeen || decide (f = .lr), resetSeen := s.resetSeen || decide (f = .reset),
               faultSeen := s.faultSeen || decide (f ≠ .ok) }

structure Closed (P : St → Prop) : Prop extends ClosedPoll P where
  relSingle : ∀ (s : St) f, P s → Noted s f → P (relSingle s f).1
  relComplete : ∀ (s : St) f, P s → Noted s f → P (relComplete s f).1

variable {P : St → Prop}

theorem drain_closed (hc : ClosedCore P) : ∀ (q : List (Part × Fault)) (s : St), P s → s.phase = .inProgress →
    s.doneQ = q →
    (∀ s', drain s q = (s', none) →
      P s' ∧ s'.phase = .inProgress ∧ s'.sdSeen = s.sdSeen ∧ s'.lateWrite = s.lateWrite) ∧
    (∀ s' e, drain s q = (s', some e) → P { s' with errSeen := true }) := by
  intro q
  induction q with
  | nil =>
    intro s hP hph _
    simp only [drain]
    refine ⟨?_, ?_⟩
    · intro s' h; cases h; exact ⟨hP, hph, rfl, rfl⟩
    · intro s' e h; cases h
  | cons x q ih =>
    intro s hP hph hq
    obtain ⟨p, f⟩ := x
    cases f with
    | ok =>
      simp only [drain]
      exact ih _ (hc.popOk s p q hP hph hq) hph rfl
    | reset =>
      simp only [drain]
      split
      · rename_i hlt
        exact ih _ (hc.popRetry s p q hP hph hq hlt) hph rfl
      · refine ⟨?_, ?_⟩
        · intro s' h; cases h
        · intro s' e h; cases h
          exact hc.popBad s p .reset q hP hph hq (by decide)
    | fb =>
      simp only [drain]
      refine ⟨?_, ?_⟩
      · intro s' h; cases h
      · intro s' e h; cases h
        exact hc.popBad s p .fb q hP hph hq (by decide)
    | lr =>
      simp only [drain]
      refine ⟨?_, ?_⟩
      · intro s' h; cases h
      · intro s' e h; cases h
        exact hc.popBad s p .lr q hP hph hq (by decide)

theorem toInProgress_fields (s : St) : (toInProgress s).phase = .inProgress ∧
    (toInProgress s).sdSeen = s.sdSeen ∧ (toInProgress s).lateWrite = s.lateWrite ∧
    (toInProgress s).doneQ = s.doneQ := ⟨rfl, rfl, rfl, rfl⟩

theorem pollTasks_closed (hc : ClosedCore P) (s : St) (hP : P s) (hnp : s.phase ≠ .poisoned) :
    (∀ s', pollTasks s = (s', none) →
      P s' ∧ s'.phase ≠ .poisoned ∧ s'.sdSeen = s.sdSeen ∧ s'.lateWrite = s.lateWrite) ∧
    (∀ s' e, pollTasks s = (s', some e) → P { s' with errSeen := true }) := by
  unfold pollTasks
  cases hph : s.phase with
  | started => simp only; exact ⟨fun s' h => (by cases h; exact ⟨hP, hnp, rfl, rfl⟩), fun s' e h => (by cases h)⟩
  | done => simp only; exact ⟨fun s' h => (by cases h; exact ⟨hP, hnp, rfl, rfl⟩), fun s' e h => (by cases h)⟩
  | poisoned => exact absurd hph hnp
  | inProgress =>
    simp only
    have := drain_closed hc s.doneQ s hP hph rfl
    refine ⟨fun s' h => ?_, this.2⟩
    obtain ⟨h1, h2, h3, h4⟩ := this.1 s' h
    exact ⟨h1, by rw [h2]; decide, h3, h4⟩
  | creating =>
    simp only
    cases hpe : s.pend with
    | idle => simp only; exact ⟨fun s' h => (by cases h; exact ⟨hP, hnp, rfl, rfl⟩), fun s' e h => (by cases h)⟩
    | parked => simp only; exact ⟨fun s' h => (by cases h; exact ⟨hP, hnp, rfl, rfl⟩), fun s' e h => (by cases h)⟩
    | got f =>
      cases f with
      | ok =>
        simp only
        have hT := hc.toInProgress s hP hph hpe
        have := drain_closed hc (toInProgress s).doneQ (toInProgress s) hT rfl rfl
        refine ⟨fun s' h => ?_, this.2⟩
        obtain ⟨h1, h2, h3, h4⟩ := this.1 s' h
        exact ⟨h1, by rw [h2]; decide, h3, h4⟩
      | fb => simp only; exact ⟨fun s' h => (by cases h), fun s' e h => (by cases h; exact hc.poison s .fb hP (Or.inl hph) hpe (by decide))⟩
      | reset => simp only; exact ⟨fun s' h => (by cases h), fun s' e h => (by cases h; exact hc.poison s .reset hP (Or.inl hph) hpe (by decide))⟩
      | lr => simp only; exact ⟨fun s' h => (by cases h), fun s' e h => (by cases h; exact hc.poison s .lr hP (Or.inl hph) hpe (by decide))⟩
  | puttingSingle =>
    simp only
    cases hpe : s.pend with
    | idle => simp only; exact ⟨fun s' h => (by cases h; exact ⟨hP, hnp, rfl, rfl⟩), fun s' e h => (by cases h)⟩
    | parked => simp only; exact ⟨fun s' h => (by cases h; exact ⟨hP, hnp, rfl, rfl⟩), fun s' e h => (by cases h)⟩
    | got f =>
      cases f with
      | ok => simp only; exact ⟨fun s' h => (by cases h; exact ⟨hc.finish s hP (Or.inl hph) hpe, by simp, rfl, rfl⟩), fun s' e h => (by cases h)⟩
      | fb => simp only; exact ⟨fun s' h => (by cases h), fun s' e h => (by cases h; exact hc.poison s .fb hP (Or.inr (Or.inl hph)) hpe (by decide))⟩
      | reset => simp only; exact ⟨fun s' h => (by cases h), fun s' e h => (by cases h; exact hc.poison s .reset hP (Or.inr (Or.inl hph)) hpe (by decide))⟩
      | lr => simp only; exact ⟨fun s' h => (by cases h), fun s' e h => (by cases h; exact hc.poison s .lr hP (Or.inr (Or.inl hph)) hpe (by decide))⟩
  | completing =>
    simp only
    cases hpe : s.pend with
    | idle => simp only; exact ⟨fun s' h => (by cases h; exact ⟨hP, hnp, rfl, rfl⟩), fun s' e h => (by cases h)⟩
    | parked => simp only; exact ⟨fun s' h => (by cases h; exact ⟨hP, hnp, rfl, rfl⟩), fun s' e h => (by cases h)⟩
    | got f =>
      cases f with
      | ok => simp only; exact ⟨fun s' h => (by cases h; exact ⟨hc.finish s hP (Or.inr hph) hpe, by simp, rfl, rfl⟩), fun s' e h => (by cases h)⟩
      | fb => simp only; exact ⟨fun s' h => (by cases h), fun s' e h => (by cases h; exact hc.poison s .fb hP (Or.inr (Or.inr hph)) hpe (by decide))⟩
      | reset => simp only; exact ⟨fun s' h => (by cases h), fun s' e h => (by cases h; exact hc.poison s .reset hP (Or.inr (Or.inr hph)) hpe (by decide))⟩
      | lr => simp only; exact ⟨fun s' h => (by cases h), fun s' e h => (by cases h; exact hc.poison s .lr hP (Or.inr (Or.inr hph)) hpe (by decide))⟩

theorem accept_fields (s : St) (n : Nat) : (accept s n).phase = s.phase ∧ (accept s n).sdSeen = s.sdSeen := by
  unfold accept; split <;> exact ⟨rfl, rfl⟩

theorem startNext_phase (s : St) (h : s.phase ≠ .poisoned) : (startNext s).phase ≠ .poisoned := by
  unfold startNext
  split
  · split
    · simp
    · split
      · exact h
      · exact h
    · exact h
  · exact h

theorem markErr_fst_err (s : St) (e : Err) : (markErr (s, .err e)).1 = { s with errSeen := true } := rfl

theorem pollWrite_closed (hc : ClosedCore P) (s : St) (n : Nat) (hP : P s) (hnp : s.phase ≠ .poisoned)
    (hlate : s.sdSeen = true → s.lateWrite = true) : P (markErr (pollWrite s n)).1 := by
  unfold pollWrite
  have h1 := pollTasks_closed hc s hP hnp
  rcases hpt : pollTasks s with ⟨s1, _ | e⟩
  · obtain ⟨hP1, hnp1, hsd1, hlw1⟩ := h1.1 s1 hpt
    simp only
    have hP2 := hc.accept s1 n hP1 hnp1 (by rw [hsd1, hlw1]; exact hlate)
    have hnp2 : (accept s1 n).phase ≠ .poisoned := by rw [(accept_fields s1 n).1]; exact hnp1
    have hP3 := hc.startNext _ hP2 hnp2
    have hnp3 := startNext_phase _ hnp2
    have h2 := pollTasks_closed hc _ hP3 hnp3
    rcases hpt2 : pollTasks (startNext (accept s1 n)) with ⟨s2, _ | e⟩
    · simp only
      have := (h2.1 s2 hpt2).1
      split <;> exact this
    · simp only
      exact h2.2 s2 e hpt2
  · simp only
    exact h1.2 s1 e hpt

theorem markErr_fst (r : St × Res) (h : ∀ e, r.2 ≠ .err e) : (markErr r).1 = r.1 := by
  unfold markErr
  split
  · rename_i e he; exact absurd he (h e)
  · rfl

theorem pollFlush_closed (hc : ClosedCore P) (s : St) (hP : P s) (hnp : s.phase ≠ .poisoned) :
    P (markErr (pollFlush s)).1 := by
  unfold pollFlush
  have h1 := pollTasks_closed hc s hP hnp
  rcases hpt : pollTasks s with ⟨s1, _ | e⟩
  · have hP1 := (h1.1 s1 hpt).1
    simp only
    have key : ∀ r : St × Res, r.1 = s1 → (∀ e, r.2 ≠ .err e) → P (markErr r).1 :=
      fun r h1 h2 => by rw [markErr_fst r h2, h1]; exact hP1
    apply key
    · cases s1.phase <;> rfl
    · intro e; cases s1.phase <;> simp only <;> (try split) <;> simp
  · simp only
    exact h1.2 s1 e hpt

theorem shutdownArm_noerr (s : St) : ∀ e, (shutdownArm s).2 ≠ .err e := by
  intro e
  unfold shutdownArm
  cases s.phase <;> simp only <;> (try split) <;> (try split) <;> simp

theorem pollShutdown_closed (hc : ClosedCore P) (s : St) (hP : P s) (hnp : s.phase ≠ .poisoned)
    (hsd : s.sdSeen = true) : P (markErr (pollShutdown s)).1 := by
  unfold pollShutdown
  have h1 := pollTasks_closed hc s hP hnp
  rcases hpt : pollTasks s with ⟨s1, _ | e⟩
  · obtain ⟨hP1, _, hsd1, _⟩ := h1.1 s1 hpt
    simp only
    have := hc.shutdownArm s1 hP1 (by rw [hsd1]; exact hsd)
    have hne := shutdownArm_noerr s1
    unfold markErr
    split
    · rename_i e he; exact absurd he (hne e)
    · exact this
  · simp only
    exact h1.2 s1 e hpt

theorem noted_note (s : St) (c : Call) (f : Fault) : Noted (note s (.rel c f)) f := by
  unfold Noted note
  cases f <;> simp

/-- an op that is not the answer to the single `put` or to `complete` -/
def Op.notFinal : Op → Prop
  | .rel .single _ => False
  | .rel .complete _ => False
  | _ => True

theorem closedPoll_step (hc : ClosedPoll P) (s : St) (op : Op) (hop : op.notFinal) (hP : P s) :
    P (step s op).1 := by
  cases op with
  | write n =>
    simp only [step]
    split
    · exact hc.noteWrite s hP
    · rename_i hnp
      apply pollWrite_closed hc.toClosedCore _ n (hc.noteWrite s hP) hnp
      intro h
      simp only at h ⊢
      simp [h]
  | flush =>
    simp only [step]
    split
    · exact hP
    · rename_i hnp; exact pollFlush_closed hc.toClosedCore s hP hnp
  | shutdown =>
    simp only [step]
    split
    · exact hc.noteSd s hP
    · rename_i hnp; exact pollShutdown_closed hc.toClosedCore _ (hc.noteSd s hP) hnp rfl
  | rel c f =>
    simp only [step]
    have hN := noted_note s c f
    have hP' : P (note s (.rel c f)) := hc.noteRel s f hP
    cases c with
    | create => exact hc.relCreate _ f hP' hN
    | single => exact absurd hop (by simp [Op.notFinal])
    | complete => exact absurd hop (by simp [Op.notFinal])
    | part i => exact hc.relPart _ i f hP' hN
  | abort => exact hc.abort s hP
  | drop => exact hc.abort s hP

theorem closed_step (hc : Closed P) (s : St) (op : Op) (hP : P s) : P (step s op).1 := by
  by_cases hop : op.notFinal
  · exact closedPoll_step hc.toClosedPoll s op hop hP
  · cases op with
    | rel c f =>
      simp only [step]
      have hN := noted_note s c f
      have hP' : P (note s (.rel c f)) := hc.noteRel s f hP
      cases c with
      | single => exact hc.relSingle _ f hP' hN
      | complete => exact hc.relComplete _ f hP' hN
      | create => exact absurd trivial hop
      | part i => exact absurd trivial hop
    | write n => exact absurd trivial hop
    | flush => exact absurd trivial hop
    | shutdown => exact absurd trivial hop
    | abort => exact absurd trivial hop
    | drop => exact absurd trivial hop

/-- all updates except the ghost notes -/
structure ClosedNoNote (P : St → Prop) : Prop extends ClosedCore P where
  relSingle : ∀ (s : St) f, P s → Noted s f → P (relSingle s f).1
  relComplete : ∀ (s : St) f, P s → Noted s f → P (relComplete s f).1

/-- a predicate that only the ghost notes can change: it holds after the op if it holds after the op's note -/
theorem noNote_step (hc : ClosedNoNote P) (s : St) (op : Op) (hP : P (note s op)) : P (step s op).1 := by
  cases op with
  | write n =>
    simp only [step]
    split
    · exact hP
    · rename_i hnp
      apply pollWrite_closed hc.toClosedCore _ n hP hnp
      intro h
      simp only [note] at h ⊢
      simp [h]
  | flush =>
    simp only [step]
    split
    · exact hP
    · rename_i hnp; exact pollFlush_closed hc.toClosedCore s hP hnp
  | shutdown =>
    simp only [step]
    split
    · exact hP
    · rename_i hnp; exact pollShutdown_closed hc.toClosedCore _ hP hnp rfl
  | rel c f =>
    simp only [step]
    have hN := noted_note s c f
    cases c with
    | create => exact hc.relCreate _ f hP hN
    | single => exact hc.relSingle _ f hP hN
    | complete => exact hc.relComplete _ f hP hN
    | part i => exact hc.relPart _ i f hP hN
  | abort => exact hc.abort s hP
  | drop => exact hc.abort s hP

theorem closed_run (hc : Closed P) : ∀ (ops : List Op) (s : St), P s → P (run s ops) := by
  intro ops
  induction ops with
  | nil => intro s h; exact h
  | cons op ops ih => intro s h; exact ih _ (closed_step hc s op h)

end LanceModel.C31
