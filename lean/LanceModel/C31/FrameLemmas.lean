import LanceModel.C31.Closure
/-
C31 — frame facts: which ops can change the ghost flags, the destination object, and a finished writer.
-/
namespace LanceModel.C31

macro "frame_core" h:ident : tactic =>
  `(tactic| first
    | exact $h
    | (unfold accept; split <;> exact $h)
    | (unfold startNext; split <;> (try split) <;> (try split) <;> exact $h)
    | (unfold shutdownArm; split <;> (try split) <;> (try split) <;> exact $h)
    | (unfold relPart; split <;> exact $h)
    | (unfold relCreate; split <;> exact $h)
    | (unfold relSingle; split <;> exact $h)
    | (unfold relComplete; split <;> (try split) <;> (try split) <;> exact $h))

/-- the ghost flags are only changed by `note` -/
theorem flags_noNote (a b c d e : Bool) : ClosedNoNote (fun s =>
    s.sdSeen = a ∧ s.lateWrite = b ∧ s.lrSeen = c ∧ s.resetSeen = d ∧ s.faultSeen = e) where
  popOk := fun s p q h _ _ => h
  popRetry := fun s p q h _ _ _ => h
  popBad := fun s p f q h _ _ _ => h
  toInProgress := fun s h _ _ => h
  poison := fun s f h _ _ _ => h
  finish := fun s h _ _ => h
  accept := fun s n h _ _ => by frame_core h
  startNext := fun s h _ => by frame_core h
  shutdownArm := fun s h _ => by frame_core h
  relPart := fun s i f h _ => by frame_core h
  relCreate := fun s f h _ => by frame_core h
  abort := fun s h => h
  relSingle := fun s f h _ => by frame_core h
  relComplete := fun s f h _ => by frame_core h

theorem step_flags (s : St) (op : Op) :
    (step s op).1.sdSeen = (note s op).sdSeen ∧ (step s op).1.lateWrite = (note s op).lateWrite ∧
    (step s op).1.lrSeen = (note s op).lrSeen ∧ (step s op).1.resetSeen = (note s op).resetSeen ∧
    (step s op).1.faultSeen = (note s op).faultSeen :=
  noNote_step (flags_noNote _ _ _ _ _) s op ⟨rfl, rfl, rfl, rfl, rfl⟩

def Op.isShutdown : Op → Bool
  | .shutdown => true
  | _ => false

/-- a lost-response answer -/
def Op.isLr : Op → Bool
  | .rel _ .lr => true
  | _ => false

/-- a connection-reset answer -/
def Op.isReset : Op → Bool
  | .rel _ .reset => true
  | _ => false

/-- an answer with any fault -/
def Op.isFault : Op → Bool
  | .rel _ .ok => false
  | .rel _ _ => true
  | _ => false

/-- the client never calls poll_write after it called poll_shutdown (`sd`: shutdown already called) -/
def noLateWrite (sd : Bool) : List Op → Bool
  | [] => true
  | .write _ :: t => !sd && noLateWrite sd t
  | .shutdown :: t => noLateWrite true t
  | _ :: t => noLateWrite sd t

theorem lrSeen_run : ∀ (ops : List Op) (s : St), (run s ops).lrSeen = (s.lrSeen || ops.any Op.isLr) := by
  intro ops
  induction ops with
  | nil => intro s; simp [run]
  | cons op t ih =>
    intro s
    simp only [run, ih, (step_flags s op).2.2.1, List.any_cons]
    cases op with
    | rel c f => cases f <;> simp [note, Op.isLr, Bool.or_assoc]
    | _ => simp [note, Op.isLr]

theorem resetSeen_run : ∀ (ops : List Op) (s : St),
    (run s ops).resetSeen = (s.resetSeen || ops.any Op.isReset) := by
  intro ops
  induction ops with
  | nil => intro s; simp [run]
  | cons op t ih =>
    intro s
    simp only [run, ih, (step_flags s op).2.2.2.1, List.any_cons]
    cases op with
    | rel c f => cases f <;> simp [note, Op.isReset, Bool.or_assoc]
    | _ => simp [note, Op.isReset]

theorem faultSeen_run : ∀ (ops : List Op) (s : St),
    (run s ops).faultSeen = (s.faultSeen || ops.any Op.isFault) := by
  intro ops
  induction ops with
  | nil => intro s; simp [run]
  | cons op t ih =>
    intro s
    simp only [run, ih, (step_flags s op).2.2.2.2, List.any_cons]
    cases op with
    | rel c f => cases f <;> simp [note, Op.isFault, Bool.or_assoc]
    | _ => simp [note, Op.isFault]

theorem sdSeen_run : ∀ (ops : List Op) (s : St),
    (run s ops).sdSeen = (s.sdSeen || ops.any Op.isShutdown) := by
  intro ops
  induction ops with
  | nil => intro s; simp [run]
  | cons op t ih =>
    intro s
    simp only [run, ih, (step_flags s op).1, List.any_cons]
    cases op <;> simp [note, Op.isShutdown, Bool.or_assoc]

theorem lateWrite_run : ∀ (ops : List Op) (s : St), noLateWrite s.sdSeen ops = true → s.lateWrite = false →
    (run s ops).lateWrite = false := by
  intro ops
  induction ops with
  | nil => intro s _ h; exact h
  | cons op t ih =>
    intro s hn hl
    simp only [run]
    have hf := step_flags s op
    apply ih
    · rw [hf.1]
      cases op with
      | write n =>
        simp only [noLateWrite, Bool.and_eq_true, Bool.not_eq_true'] at hn
        simp only [note]; exact hn.2
      | shutdown => simpa [note, noLateWrite] using hn
      | flush => simpa [note, noLateWrite] using hn
      | rel c f => simpa [note, noLateWrite] using hn
      | abort => simpa [note, noLateWrite] using hn
      | drop => simpa [note, noLateWrite] using hn
    · rw [hf.2.1]
      cases op with
      | write n =>
        simp only [noLateWrite, Bool.and_eq_true, Bool.not_eq_true'] at hn
        simp [note, hl, hn.1]
      | shutdown => simpa [note] using hl
      | flush => simpa [note] using hl
      | rel c f => simpa [note] using hl
      | abort => simpa [note] using hl
      | drop => simpa [note] using hl

/-! ### the destination object -/

theorem object_closedPoll (o : Option (List Seg)) : ClosedPoll (fun s => s.object = o) where
  popOk := fun s p q h _ _ => h
  popRetry := fun s p q h _ _ _ => h
  popBad := fun s p f q h _ _ _ => h
  toInProgress := fun s h _ _ => h
  poison := fun s f h _ _ _ => h
  finish := fun s h _ _ => h
  accept := fun s n h _ _ => by frame_core h
  startNext := fun s h _ => by frame_core h
  shutdownArm := fun s h _ => by frame_core h
  relPart := fun s i f h _ => by frame_core h
  relCreate := fun s f h _ => by frame_core h
  abort := fun s h => h
  noteWrite := fun s h => h
  noteSd := fun s h => h
  noteRel := fun s f h => h

/-- only the answer to the single `put` or to `complete` can change what a reader sees -/
theorem object_step (s : St) (op : Op) (h : op.notFinal) : (step s op).1.object = s.object :=
  closedPoll_step (object_closedPoll s.object) s op h rfl

theorem object_final_fault (s : St) (c : Call) (f : Fault) (hf : f = .fb ∨ f = .reset) :
    (step s (.rel c f)).1.object = s.object := by
  cases c with
  | create => exact object_step s _ trivial
  | part i => exact object_step s _ trivial
  | single =>
    simp only [step, relCall, relSingle]
    split
    · rcases hf with rfl | rfl <;> simp [note]
    · rfl
  | complete =>
    simp only [step, relCall, relComplete]
    split
    · rcases hf with rfl | rfl <;> simp [note]
    · rfl

/-! ### a finished / aborted writer -/

theorem done_closed : Closed (fun s => s.phase = .done ∧ s.object = none) where
  popOk := fun s p q h hp _ => by simp [h.1] at hp
  popRetry := fun s p q h hp _ _ => by simp [h.1] at hp
  popBad := fun s p f q h hp _ _ => by simp [h.1] at hp
  toInProgress := fun s h hp _ => by simp [h.1] at hp
  poison := fun s f h hp _ _ => by simp [h.1] at hp
  finish := fun s h hp _ => by simp [h.1] at hp
  accept := fun s n h _ _ => by frame_core h
  startNext := fun s h _ => by
    have hp := h.1
    unfold startNext
    split
    · split <;> first | exact h | (rename_i hh; simp [hp] at hh)
    · exact h
  shutdownArm := fun s h _ => by
    have hp := h.1
    unfold shutdownArm
    split <;> first | exact h | (rename_i hh; simp [hp] at hh)
  relPart := fun s i f h _ => by frame_core h
  relCreate := fun s f h _ => by frame_core h
  abort := fun s h => ⟨rfl, h.2⟩
  noteWrite := fun s h => h
  noteSd := fun s h => h
  noteRel := fun s f h => h
  relSingle := fun s f h _ => by
    unfold relSingle
    split
    · rename_i hg; simp [h.1] at hg
    · exact h
  relComplete := fun s f h _ => by
    unfold relComplete
    split
    · rename_i hg; simp [h.1] at hg
    · exact h

/-! ### reported errors -/

theorem errSeen_closed : Closed (fun s => s.errSeen = true) where
  popOk := fun s p q h _ _ => h
  popRetry := fun s p q h _ _ _ => h
  popBad := fun s p f q h _ _ _ => rfl
  toInProgress := fun s h _ _ => h
  poison := fun s f h _ _ _ => rfl
  finish := fun s h _ _ => h
  accept := fun s n h _ _ => by frame_core h
  startNext := fun s h _ => by frame_core h
  shutdownArm := fun s h _ => by frame_core h
  relPart := fun s i f h _ => by frame_core h
  relCreate := fun s f h _ => by frame_core h
  abort := fun s h => h
  noteWrite := fun s h => h
  noteSd := fun s h => h
  noteRel := fun s f h => h
  relSingle := fun s f h _ => by frame_core h
  relComplete := fun s f h _ => by frame_core h

theorem markErr_err (r : St × Res) (e : Err) (h : (markErr r).2 = .err e) : (markErr r).1.errSeen = true := by
  unfold markErr at h ⊢
  split
  · rfl
  · rename_i hne
    simp only at h
    exact absurd h (hne e)

theorem step_err (s : St) (op : Op) (e : Err) (h : (step s op).2 = .err e) : (step s op).1.errSeen = true := by
  cases op with
  | write n =>
    simp only [step] at h ⊢
    split at h
    · cases h
    · rename_i hnp; simp only [hnp, if_false]; exact markErr_err _ e h
  | flush =>
    simp only [step] at h ⊢
    split at h
    · cases h
    · rename_i hnp; simp only [hnp, if_false]; exact markErr_err _ e h
  | shutdown =>
    simp only [step] at h ⊢
    split at h
    · cases h
    · rename_i hnp; simp only [hnp, if_false]; exact markErr_err _ e h
  | rel c f =>
    exfalso
    simp only [step] at h
    cases c <;> simp only [relCall, relCreate, relSingle, relComplete, relPart] at h <;>
      (repeat' split at h) <;> simp at h
  | abort => simp [step] at h
  | drop => simp [step] at h

theorem trace_err (e : Err) : ∀ (ops : List Op) (s : St), .err e ∈ trace s ops → (run s ops).errSeen = true := by
  intro ops
  induction ops with
  | nil => intro s h; cases h
  | cons op t ih =>
    intro s h
    simp only [trace, List.mem_cons] at h
    simp only [run]
    rcases h with h | h
    · exact closed_run errSeen_closed t _ (step_err s op e h.symm)
    · exact ih _ h

end LanceModel.C31
