import LanceModel.C31.StoreInv
/-
C31 — the writer invariants B (stream layout), C (what each `UploadState` implies) and D (outcomes), and the
proof that `Inv = A ∧ B ∧ C ∧ D` is preserved by every elementary update (`inv_closed`), hence holds in every
reachable state (`inv_run`).
-/
namespace LanceModel.C31

def InvB (s : St) : Prop :=
  s.cursor = total s.log ∧ (s.nRetried = 0 → s.issued.flatten ++ s.single ++ s.buf = s.log)

def InvC (s : St) : Prop :=
  (s.phase = .started → s.issued = [] ∧ s.futs = [] ∧ s.doneQ = [] ∧ s.single = [] ∧ s.recorded = [] ∧
    s.nFailed = 0 ∧ s.object = none ∧ s.aborted = false ∧ s.pend = .idle) ∧
  (s.phase = .creating → s.issued = [] ∧ s.futs = [] ∧ s.doneQ = [] ∧ s.single = [] ∧ s.recorded = [] ∧
    s.nFailed = 0 ∧ s.object = none ∧ s.aborted = false ∧ s.pend ≠ .idle) ∧
  (s.phase = .inProgress → s.single = [] ∧ s.object = none ∧ s.aborted = false ∧ s.pend = .idle) ∧
  (s.phase = .puttingSingle → s.issued = [] ∧ s.futs = [] ∧ s.doneQ = [] ∧ s.nFailed = 0 ∧ s.aborted = false ∧
    s.pend ≠ .idle ∧ s.sdSeen = true) ∧
  (s.phase = .completing → s.futs = [] ∧ s.doneQ = [] ∧ s.single = [] ∧ s.aborted = false ∧ s.pend ≠ .idle ∧
    s.sdSeen = true) ∧
  (s.phase = .done → s.pend = .idle ∧ s.futs = [] ∧ s.doneQ = [] ∧ (s.aborted = false → s.sdSeen = true)) ∧
  (s.phase = .poisoned → s.pend = .idle ∧ s.aborted = false) ∧
  (s.aborted = true → s.phase = .done) ∧
  (s.object ≠ none → s.sdSeen = true)

def Succeeded (s : St) : Prop :=
  s.phase = .done ∨ ((s.phase = .puttingSingle ∨ s.phase = .completing) ∧ s.pend = .got .ok)

def InvD (s : St) : Prop :=
  (1 ≤ s.cfg.maxPar → s.lateWrite = false → s.phase = .completing → s.buf = []) ∧
  (s.lateWrite = false → s.phase = .puttingSingle → s.buf = []) ∧
  (1 ≤ s.cfg.maxPar → s.lateWrite = false → s.aborted = false → Succeeded s → s.object = some s.log) ∧
  (s.lateWrite = false → s.aborted = false → s.phase = .done → s.size = s.cursor) ∧
  (s.lrSeen = false → s.errSeen = true →
    s.object = none ∧ (s.phase = .poisoned ∨ s.aborted = true ∨ 0 < s.nFailed)) ∧
  (s.lrSeen = false → s.object ≠ none → Succeeded s) ∧
  ((s.phase = .completing ∨ s.phase = .puttingSingle) → s.pend = .got .ok → s.object ≠ none) ∧
  (s.faultSeen = false → s.errSeen = false ∧ s.nFailed = 0 ∧ s.phase ≠ .poisoned ∧
    (∀ e ∈ s.doneQ, e.2 = Fault.ok) ∧ (∀ f, s.pend = .got f → f = Fault.ok)) ∧
  (s.resetSeen = false → s.nRetried = 0 ∧ (∀ e ∈ s.doneQ, e.2 ≠ Fault.reset))

def Inv (s : St) : Prop := InvA s ∧ InvB s ∧ InvC s ∧ InvD s


theorem inv_init (c : Cfg) : Inv (init c) := by
  refine ⟨invA_init c, ?_, ?_, ?_⟩
  · simp [InvB, init, total]
  · simp [InvC, init]
  · simp [InvD, init, Succeeded]

/-- facts of A used by the propositional parts -/
theorem invA_facts (s : St) (h : InvA s) :
    s.nRetried + countBad s.doneQ ≤ s.nFailed ∧
    (s.aborted = false → s.recorded.length + s.futs.length + s.nFailed = s.issued.length) :=
  ⟨h.2, h.1.2.2.2.2.2⟩

macro "inv_cd" : tactic =>
  `(tactic| (simp only [InvC, InvD, Succeeded] at *; (refine ⟨?_, ?_⟩ <;> grind)))

theorem inv_popOk (s : St) (p : Part) (q : List (Part × Fault)) (h : Inv s) (hph : s.phase = .inProgress)
    (hq : s.doneQ = (p, .ok) :: q) : Inv { s with doneQ := q } := by
  have hA' := invA_closed.popOk s p q h.1 hph hq
  obtain ⟨hA, hB, hC, hD⟩ := h
  refine ⟨hA', hB, ?_⟩
  inv_cd

theorem inv_popRetry (s : St) (p : Part) (q : List (Part × Fault)) (h : Inv s) (hph : s.phase = .inProgress)
    (hq : s.doneQ = (p, .reset) :: q) (hlt : s.resets < s.cfg.maxRetry) :
    Inv { (submit s p.data) with doneQ := q, resets := s.resets + 1, nRetried := s.nRetried + 1 } := by
  have hA' := invA_closed.popRetry s p q h.1 hph hq hlt
  obtain ⟨hA, hB, hC, hD⟩ := h
  have hmem : (p, Fault.reset) ∈ s.doneQ := by rw [hq]; simp
  have hsub : ∀ e, e ∈ q → e ∈ s.doneQ := fun e he => by rw [hq]; exact List.mem_cons_of_mem _ he
  refine ⟨hA', ⟨hB.1, fun h0 => by simp at h0⟩, ?_⟩
  clear hA'
  simp only [submit]
  inv_cd

theorem inv_popBad (s : St) (p : Part) (f : Fault) (q : List (Part × Fault)) (h : Inv s)
    (hph : s.phase = .inProgress) (hq : s.doneQ = (p, f) :: q) (hf : f ≠ .ok) :
    Inv { s with doneQ := q, errSeen := true } := by
  have hA' := invA_closed.popBad s p f q h.1 hph hq hf
  obtain ⟨hA, hB, hC, hD⟩ := h
  have hbad : 0 < s.nFailed := by
    have : s.nRetried + countBad s.doneQ ≤ s.nFailed := hA.2
    rw [hq, countBad_bad p f q hf] at this; omega
  refine ⟨hA', hB, ?_⟩
  inv_cd

theorem inv_toInProgress (s : St) (h : Inv s) (hph : s.phase = .creating) (hpe : s.pend = .got .ok) :
    Inv (toInProgress s) := by
  have hA' := invA_closed.toInProgress s h.1 hph hpe
  obtain ⟨hA, hB, hC, hD⟩ := h
  have hc := hC.2.1 hph
  refine ⟨hA', ?_, ?_⟩
  · refine ⟨hB.1, fun h0 => ?_⟩
    have := hB.2 h0
    simp only [toInProgress, submit] at *
    simp only [hc.1, hc.2.2.2.1] at this ⊢
    simpa using this
  · simp only [toInProgress, submit]
    inv_cd

theorem inv_poison (s : St) (f : Fault) (h : Inv s)
    (hph : s.phase = .creating ∨ s.phase = .puttingSingle ∨ s.phase = .completing)
    (hpe : s.pend = .got f) (hf : f ≠ .ok) :
    Inv { s with phase := .poisoned, pend := .idle, errSeen := true } := by
  obtain ⟨hA, hB, hC, hD⟩ := h
  refine ⟨hA, hB, ?_⟩
  inv_cd

theorem inv_finish (s : St) (h : Inv s) (hph : s.phase = .puttingSingle ∨ s.phase = .completing)
    (hpe : s.pend = .got .ok) : Inv { s with phase := .done, size := s.cursor, pend := .idle } := by
  obtain ⟨hA, hB, hC, hD⟩ := h
  refine ⟨hA, hB, ?_⟩
  inv_cd

theorem inv_accept (s : St) (n : Nat) (h : Inv s) (hnp : s.phase ≠ .poisoned)
    (hl : s.sdSeen = true → s.lateWrite = true) : Inv (accept s n) := by
  unfold accept
  split
  · exact h
  · obtain ⟨hA, hB, hC, hD⟩ := h
    refine ⟨hA, ?_, ?_⟩
    · refine ⟨?_, fun h0 => ?_⟩
      · show s.cursor + min (room s) n = total (s.log ++ [⟨s.nWrites, 0, min (room s) n⟩])
        rw [total_append, hB.1]; simp [total]
      · have := hB.2 h0
        show s.issued.flatten ++ s.single ++ (s.buf ++ [⟨s.nWrites, 0, min (room s) n⟩]) = s.log ++ [⟨s.nWrites, 0, min (room s) n⟩]
        rw [← this]; simp
    · inv_cd

theorem inv_startNext (s : St) (h : Inv s) (hnp : s.phase ≠ .poisoned) : Inv (startNext s) := by
  obtain ⟨hA, hB, hC, hD⟩ := h
  unfold startNext
  split
  · cases hph : s.phase <;> simp only
    · refine ⟨hA, hB, ?_⟩; inv_cd
    · exact ⟨hA, hB, hC, hD⟩
    · split
      · rename_i hlt
        have hc := hC.2.2.1 hph
        refine ⟨⟨invA1_submit s s.buf hA.1, hA.2⟩, ?_, ?_⟩
        · refine ⟨hB.1, fun h0 => ?_⟩
          have := hB.2 h0
          simp only [submit] at *
          rw [hc.1] at this
          rw [hc.1]
          simpa using this
        · simp only [submit]
          inv_cd
      · exact ⟨hA, hB, hC, hD⟩
    · exact ⟨hA, hB, hC, hD⟩
    · exact ⟨hA, hB, hC, hD⟩
    · exact ⟨hA, hB, hC, hD⟩
    · exact ⟨hA, hB, hC, hD⟩
  · exact ⟨hA, hB, hC, hD⟩

theorem inv_shutdownArm (s : St) (h : Inv s) (hsd : s.sdSeen = true) : Inv (shutdownArm s).1 := by
  obtain ⟨hA, hB, hC, hD⟩ := h
  unfold shutdownArm
  cases hph : s.phase <;> simp only
  · -- started → puttingSingle
    have hc := hC.1 hph
    refine ⟨hA, ?_, ?_⟩
    · refine ⟨hB.1, fun h0 => ?_⟩
      have := hB.2 h0
      rw [hc.2.2.2.1] at this
      simpa using this
    · inv_cd
  · exact ⟨hA, hB, hC, hD⟩
  · -- inProgress
    have hc := hC.2.2.1 hph
    split
    · rename_i hfin
      refine ⟨⟨invA1_submit s s.buf hA.1, hA.2⟩, ?_, ?_⟩
      · refine ⟨hB.1, fun h0 => ?_⟩
        have := hB.2 h0
        simp only [submit] at *
        rw [hc.1] at this
        rw [hc.1]
        simpa using this
      · simp only [submit]
        inv_cd
    · rename_i hfin
      split
      · rename_i hz
        have hf : s.futs = [] := by
          unfold inflight at hz
          exact List.eq_nil_of_length_eq_zero (by omega)
        have hq : s.doneQ = [] := by
          unfold inflight at hz
          exact List.eq_nil_of_length_eq_zero (by omega)
        have hb : 1 ≤ s.cfg.maxPar → s.buf = [] := by
          intro h1
          by_cases hb : s.buf = []
          · exact hb
          · exact absurd ⟨hb, by omega⟩ hfin
        refine ⟨hA, hB, ?_⟩
        inv_cd
      · exact ⟨hA, hB, hC, hD⟩
  · exact ⟨hA, hB, hC, hD⟩
  · exact ⟨hA, hB, hC, hD⟩
  · exact ⟨hA, hB, hC, hD⟩
  · exact ⟨hA, hB, hC, hD⟩

theorem inv_noteWrite (s : St) (h : Inv s) : Inv { s with lateWrite := s.lateWrite || s.sdSeen } := by
  obtain ⟨hA, hB, hC, hD⟩ := h
  refine ⟨hA, hB, ?_⟩
  inv_cd

theorem inv_noteSd (s : St) (h : Inv s) : Inv { s with sdSeen := true } := by
  obtain ⟨hA, hB, hC, hD⟩ := h
  refine ⟨hA, hB, ?_⟩
  inv_cd

theorem inv_noteRel (s : St) (f : Fault) (h : Inv s) :
    Inv { s with lrSeen := s.lrSeen || decide (f = .lr), resetSeen := s.resetSeen || decide (f = .reset),
                 faultSeen := s.faultSeen || decide (f ≠ .ok) } := by
  obtain ⟨hA, hB, hC, hD⟩ := h
  refine ⟨hA, hB, ?_⟩
  inv_cd

theorem inv_relPart (s : St) (i : Nat) (f : Fault) (h : Inv s) (hn : Noted s f) : Inv (relPart s i f).1 := by
  have hA' := invA_closed.relPart s i f h.1 hn
  obtain ⟨hA, hB, hC, hD⟩ := h
  unfold relPart at hA' ⊢
  split
  · exact ⟨hA, hB, hC, hD⟩
  · rename_i p hfind
    simp only [hfind] at hA'
    have hp : p ∈ s.futs := List.mem_of_find?_eq_some hfind
    have hne : s.futs ≠ [] := List.ne_nil_of_mem hp
    refine ⟨hA', hB, ?_⟩
    simp only [Noted] at hn
    have hfil : s.futs = [] → s.futs.filter (fun q => q.sidx ≠ i) = [] := fun h => absurd h hne
    simp only [InvC, InvD, Succeeded] at *
    refine ⟨?_, ?_⟩
    · grind
    · refine ⟨by grind, by grind, by grind, by grind, by grind, by grind, by grind, ?_, ?_⟩
      · intro hfs
        have := hD.2.2.2.2.2.2.2.1 hfs
        have hf : f = .ok := by
          by_cases hf : f = .ok
          · exact hf
          · exact absurd (hn.2.2 hf) (by simp [hfs])
        refine ⟨this.1, by simp [hf, this.2.1], this.2.2.1, ?_, this.2.2.2.2⟩
        intro e he
        rcases List.mem_append.1 he with he | he
        · exact this.2.2.2.1 e he
        · simp only [List.mem_singleton] at he; subst he; exact hf
      · intro hrs
        have := hD.2.2.2.2.2.2.2.2 hrs
        refine ⟨this.1, ?_⟩
        intro e he
        rcases List.mem_append.1 he with he | he
        · exact this.2 e he
        · simp only [List.mem_singleton] at he; subst he
          intro hf
          exact absurd (hn.2.1 hf) (by simp [hrs])

theorem inv_relCreate (s : St) (f : Fault) (h : Inv s) (hn : Noted s f) : Inv (relCreate s f).1 := by
  obtain ⟨hA, hB, hC, hD⟩ := h
  unfold relCreate
  split
  · refine ⟨hA, hB, ?_⟩
    simp only [Noted] at hn
    inv_cd
  · exact ⟨hA, hB, hC, hD⟩

theorem inv_abort (s : St) (h : Inv s) : Inv (abort s) := by
  have hA' := invA_closed.abort s h.1
  obtain ⟨hA, hB, hC, hD⟩ := h
  refine ⟨hA', hB, ?_⟩
  simp only [abort]
  inv_cd

theorem inv_relSingle (s : St) (f : Fault) (h : Inv s) (hn : Noted s f) : Inv (relSingle s f).1 := by
  obtain ⟨hA, hB, hC, hD⟩ := h
  unfold relSingle
  split
  · rename_i hg
    have hc := hC.2.2.2.1 hg.1
    have hnr : s.nRetried = 0 := by
      have : s.nRetried + countBad s.doneQ ≤ s.nFailed := hA.2
      omega
    have hlog : s.lateWrite = false → s.single = s.log := by
      intro hl
      have h1 := hB.2 hnr
      have h2 := hD.2.1 hl hg.1
      rw [hc.1, h2] at h1
      simpa using h1
    refine ⟨hA, hB, ?_⟩
    simp only [Noted] at hn
    inv_cd
  · exact ⟨hA, hB, hC, hD⟩

theorem inv_relComplete (s : St) (f : Fault) (h : Inv s) (hn : Noted s f) : Inv (relComplete s f).1 := by
  obtain ⟨hA, hB, hC, hD⟩ := h
  unfold relComplete
  split
  · rename_i hg
    have hc := hC.2.2.2.2.1 hg.1
    have hcount := hA.1.2.2.2.2.2 hc.2.2.2.1
    rw [hc.1] at hcount
    simp only [List.length_nil, Nat.add_zero] at hcount
    split
    · split
      · rename_i hlen
        have hnf : s.nFailed = 0 := by omega
        have hnr : s.nRetried = 0 := by
          have : s.nRetried + countBad s.doneQ ≤ s.nFailed := hA.2
          omega
        have hasm : assemble s.recorded = s.issued.flatten :=
          assemble_complete s.recorded s.issued hA.1.1 hA.1.2.1 hlen
        have hlog : 1 ≤ s.cfg.maxPar → s.lateWrite = false → assemble s.recorded = s.log := by
          intro h1 hl
          have h2 := hB.2 hnr
          have h3 := hD.1 h1 hl hg.1
          rw [hc.2.2.1, h3] at h2
          rw [hasm]; simpa using h2
        refine ⟨hA, hB, ?_⟩
        simp only [Noted] at hn
        inv_cd
      · rename_i hlen
        have hnf : 0 < s.nFailed := by omega
        refine ⟨hA, hB, ?_⟩
        simp only [Noted] at hn
        inv_cd
    · refine ⟨hA, hB, ?_⟩
      simp only [Noted] at hn
      inv_cd
  · exact ⟨hA, hB, hC, hD⟩

theorem inv_closed : Closed Inv where
  popOk := fun s p q h hph hq => inv_popOk s p q h hph hq
  popRetry := fun s p q h hph hq hlt => inv_popRetry s p q h hph hq hlt
  popBad := fun s p f q h hph hq hf => inv_popBad s p f q h hph hq hf
  toInProgress := fun s h hph hpe => inv_toInProgress s h hph hpe
  poison := fun s f h hph hpe hf => inv_poison s f h hph hpe hf
  finish := fun s h hph hpe => inv_finish s h hph hpe
  accept := fun s n h hnp hl => inv_accept s n h hnp hl
  startNext := fun s h hnp => inv_startNext s h hnp
  shutdownArm := fun s h hsd => inv_shutdownArm s h hsd
  noteWrite := fun s h => inv_noteWrite s h
  noteSd := fun s h => inv_noteSd s h
  noteRel := fun s f h => inv_noteRel s f h
  relPart := fun s i f h hn => inv_relPart s i f h hn
  relCreate := fun s f h hn => inv_relCreate s f h hn
  abort := fun s h => inv_abort s h
  relSingle := fun s f h hn => inv_relSingle s f h hn
  relComplete := fun s f h hn => inv_relComplete s f h hn

theorem inv_run (c : Cfg) (ops : List Op) : Inv (run (init c) ops) :=
  closed_run inv_closed ops (init c) (inv_init c)

end LanceModel.C31
