/-
C31 — model of `ObjectWriter` (rust/lance-io/src/object_writer.rs) against a multipart object store.

The writer is modelled as the state machine the Rust code is: `UploadState`
(Started → CreatingUpload → InProgress{part_idx, upload, futures} → PuttingSingle | Completing → Done),
the buffer (`Vec::with_capacity`: length and capacity as byte COUNTS), `cursor`, `connection_resets`, and the
three `poll_*` functions of the `AsyncWrite` impl plus `abort` and `Drop`.  One model step is one `poll_*`
call, one `abort`/drop, or one *store event* (`rel`: the store answers one call that is in flight, with a
fault decision).  Any interleaving of polls and store answers is a list of `Op`s.

Bytes are not materialised: a `Seg` names `len` bytes starting at `off` of the input slice handed to the
`src`-th accepting `poll_write` call.  The writer only ever copies a prefix of its input and moves whole
buffers, so buffers, parts and objects are lists of `Seg`s and content equality is list equality; `denote`
(Props.lean) expands a `Seg` list over arbitrary input data.

The store (a parameter of the property; the harness implements exactly this) follows the contract of
`object_store::MultipartUpload` and of `object_store::client::parts::Parts` (used by the S3, GCS and Azure
clients of object_store 0.12): every `put_part` CALL is "the next part" and is numbered by call order;
a part is recorded only when its upload succeeds; `complete` fails with "Missing part" unless every numbered
part was recorded, otherwise sorts by part number, concatenates, and makes the object visible atomically;
parts are invisible; `abort` discards; a single `put` is atomic.
-/
namespace LanceModel.C31

/-- `len` bytes from offset `off` of the input slice of accepting write call number `src`. -/
structure Seg where
  src : Nat
  off : Nat
  len : Nat
deriving DecidableEq, Repr

/-- number of bytes of a buffer -/
def total : List Seg → Nat
  | [] => 0
  | s :: t => s.len + total t

/-- process-wide configuration of object_writer.rs: `initial_upload_size()` (LANCE_INITIAL_UPLOAD_SIZE),
`INITIAL_UPLOAD_STEP`, `max_upload_parallelism()` (LANCE_UPLOAD_CONCURRENCY), `max_conn_reset_retries()`
(LANCE_CONN_RESET_RETRIES), and the store's `use_constant_size_upload_parts`. -/
structure Cfg where
  init : Nat := 5242880
  step : Nat := 5242880
  maxPar : Nat := 10
  maxRetry : Nat := 20
  constSize : Bool := false
deriving DecidableEq, Repr

/-- object_writer.rs `UploadState`; `poisoned` = a state whose boxed future has already returned an error
(`CreatingUpload` / `PuttingSingle` / `Completing` after `Poll::Ready(Err)`): polling it again panics. -/
inductive Phase where
  | started | creating | inProgress | puttingSingle | completing | done | poisoned
deriving DecidableEq, Repr

/-- decision for one store call: execute and answer; fail before executing (any error that is not a connection
reset); fail with an error whose text contains "connection reset by peer"; execute, then answer with an error. -/
inductive Fault where
  | ok | fb | reset | lr
deriving DecidableEq, Repr

inductive Err where
  | other | connReset
deriving DecidableEq, Repr

/-- one task of the `JoinSet` (`ObjectWriter::put_part`): the store call it made (`sidx` = the part number the
store gave that call) and the payload it keeps for a retry (`UploadPutError.buffer`).  The `part_idx` the task
also carries is only copied into the retry and never read; it is not modelled. -/
structure Part where
  sidx : Nat
  data : List Seg
deriving DecidableEq, Repr

/-- the boxed future of `CreatingUpload` / `PuttingSingle` / `Completing`: no call, call parked at the store,
call answered (not yet polled). -/
inductive Pend where
  | idle | parked | got (f : Fault)
deriving DecidableEq, Repr

structure St where
  cfg : Cfg := {}
  -- ObjectWriter ------------------------------------------------------------------------------
  phase : Phase := .started
  buf : List Seg := []          -- `buffer` contents
  cap : Nat := 0                -- `buffer.capacity()`
  cursor : Nat := 0
  resets : Nat := 0             -- `connection_resets`
  partIdx : Nat := 0            -- `InProgress.part_idx` (u16 in Rust; 65536 parts are out of reach of any store)
  futs : List Part := []        -- `InProgress.futures`: tasks whose store call has not been answered
  doneQ : List (Part × Fault) := []   -- … tasks that finished and were not yet joined, in completion order
  pend : Pend := .idle
  single : List Seg := []       -- payload of the single `put`
  size : Nat := 0               -- `WriteResult.size`
  aborted : Bool := false       -- `abort()` / drop replaced the state
  -- store --------------------------------------------------------------------------------------
  issued : List (List Seg) := []          -- payload of every `put_part` call, by part number (= call order)
  recorded : List (Nat × List Seg) := []  -- `Parts`: (part number, payload) of the uploads that succeeded
  object : Option (List Seg) := none      -- what a reader of the destination sees
  -- ghost (never read by the transitions) --------------------------------------------------------
  log : List Seg := []          -- every accepted write, in order
  nWrites : Nat := 0
  nFailed : Nat := 0            -- part uploads answered with an error
  nRetried : Nat := 0           -- part uploads re-submitted
  sdSeen : Bool := false        -- poll_shutdown was called
  lateWrite : Bool := false     -- poll_write was called after poll_shutdown
  errSeen : Bool := false       -- some poll returned an error
  lrSeen : Bool := false        -- a lost-response fault was injected
  resetSeen : Bool := false     -- a connection-reset fault was injected
  faultSeen : Bool := false     -- any fault was injected
deriving Repr

/-- `ObjectWriter::new`: `Started`, `Vec::with_capacity(initial_upload_size())` -/
def init (c : Cfg) : St := { cfg := c, cap := c.init }

/-- `ObjectWriter::next_part_buffer`: capacity of the buffer that replaces the one submitted as part `partIdx` -/
def nextCap (c : Cfg) (partIdx : Nat) : Nat :=
  if c.constSize then c.init else max c.init ((partIdx / 100 + 1) * c.step)

/-- `upload.put_part(data)` (the store numbers the call) + `futures.spawn(Self::put_part(..))` -/
def submit (s : St) (data : List Seg) : St :=
  { s with futs := s.futs ++ [⟨s.issued.length, data⟩], issued := s.issued ++ [data] }

/-- `futures.len()` of the JoinSet -/
def inflight (s : St) : Nat := s.futs.length + s.doneQ.length

/-- `poll_tasks`, `InProgress` arm: `while let Poll::Ready(Some(res)) = futures.poll_join_next(cx)`.
`q` is the queue of finished tasks (`s.doneQ = q` at every call). -/
def drain (s : St) : List (Part × Fault) → St × Option Err
  | [] => (s, none)
  | (_, .ok) :: q => drain { s with doneQ := q } q
  | (p, .reset) :: q =>
      if s.resets < s.cfg.maxRetry then
        drain { (submit s p.data) with doneQ := q, resets := s.resets + 1, nRetried := s.nRetried + 1 } q
      else ({ s with doneQ := q }, some .connReset)
  | (_, .fb) :: q => ({ s with doneQ := q }, some .other)
  | (_, .lr) :: q => ({ s with doneQ := q }, some .other)

/-- `poll_tasks`, `CreatingUpload` arm after `Poll::Ready(Ok(upload))`: the full buffer becomes part 0 -/
def toInProgress (s : St) : St :=
  submit { s with buf := [], cap := nextCap s.cfg 0, phase := .inProgress, partIdx := 1, pend := .idle } s.buf

/-- `ObjectWriter::poll_tasks` (not called in `poisoned`, see `step`) -/
def pollTasks (s : St) : St × Option Err :=
  match s.phase with
  | .started => (s, none)
  | .done => (s, none)
  | .poisoned => (s, none)
  | .creating =>
      match s.pend with
      | .got .ok => drain (toInProgress s) (toInProgress s).doneQ
      | .got _ => ({ s with phase := .poisoned, pend := .idle }, some .other)
      | _ => (s, none)
  | .inProgress => drain s s.doneQ
  | .puttingSingle =>
      match s.pend with
      | .got .ok => ({ s with phase := .done, size := s.cursor, pend := .idle }, none)
      | .got _ => ({ s with phase := .poisoned, pend := .idle }, some .other)
      | _ => (s, none)
  | .completing =>
      match s.pend with
      | .got .ok => ({ s with phase := .done, size := s.cursor, pend := .idle }, none)
      | .got _ => ({ s with phase := .poisoned, pend := .idle }, some .other)
      | _ => (s, none)

/-- `buffer.capacity() - buffer.len()` -/
def room (s : St) : Nat := s.cap - total s.buf

/-- poll_write: "Fill buffer up to remaining capacity" with an input of `n` bytes -/
def accept (s : St) (n : Nat) : St :=
  if min (room s) n = 0 then s
  else
    { s with buf := s.buf ++ [⟨s.nWrites, 0, min (room s) n⟩],
             log := s.log ++ [⟨s.nWrites, 0, min (room s) n⟩],
             cursor := s.cursor + min (room s) n,
             nWrites := s.nWrites + 1 }

/-- poll_write: "Instantiate next request, if available" -/
def startNext (s : St) : St :=
  if s.cap = total s.buf then
    match s.phase with
    | .started => { s with phase := .creating, pend := .parked }
    | .inProgress =>
        if inflight s < s.cfg.maxPar then
          { (submit s s.buf) with buf := [], cap := nextCap s.cfg s.partIdx, partIdx := s.partIdx + 1 }
        else s
    | _ => s
  else s

/-- result of one op -/
inductive Res where
  | ready (k : Nat)      -- poll_write: Poll::Ready(Ok(k))
  | readyU               -- poll_flush / poll_shutdown: Poll::Ready(Ok(()))
  | pending
  | err (e : Err)
  | panic
  | released | norel
  | aborted | dropped
deriving DecidableEq, Repr

/-- `AsyncWrite::poll_write` with an input slice of `n` bytes -/
def pollWrite (s : St) (n : Nat) : St × Res :=
  match pollTasks s with
  | (s1, some e) => (s1, .err e)
  | (s1, none) =>
      match pollTasks (startNext (accept s1 n)) with
      | (s2, some e) => (s2, .err e)
      | (s2, none) => (s2, if min (room s1) n = 0 then .pending else .ready (min (room s1) n))

/-- `AsyncWrite::poll_flush` -/
def pollFlush (s : St) : St × Res :=
  match pollTasks s with
  | (s1, some e) => (s1, .err e)
  | (s1, none) =>
      match s1.phase with
      | .started => (s1, .readyU)
      | .done => (s1, .readyU)
      | .inProgress => (s1, if inflight s1 = 0 then .readyU else .pending)
      | _ => (s1, .pending)

/-- `AsyncWrite::poll_shutdown` after its `poll_tasks` succeeded.  The Rust `loop` is unrolled: every `continue`
is followed by a `poll_tasks` that finds nothing new (the future / task just created is pending) and a
`return Poll::Pending`. -/
def shutdownArm (s : St) : St × Res :=
  match s.phase with
  | .done => (s, .readyU)
  | .creating => (s, .pending)
  | .puttingSingle => (s, .pending)
  | .completing => (s, .pending)
  | .poisoned => (s, .panic)
  | .started =>
      -- `std::mem::take(&mut buffer)`; `started_to_putting_single`
      ({ s with phase := .puttingSingle, single := s.buf, buf := [], cap := 0, pend := .parked }, .pending)
  | .inProgress =>
      if s.buf ≠ [] ∧ inflight s < s.cfg.maxPar then
        -- "Flush final batch": `Bytes::from(std::mem::take(&mut buffer))`, part_idx is not advanced
        ({ (submit s s.buf) with buf := [], cap := 0 }, .pending)
      else if inflight s = 0 then
        -- `in_progress_to_completing`
        ({ s with phase := .completing, pend := .parked }, .pending)
      else (s, .pending)

def pollShutdown (s : St) : St × Res :=
  match pollTasks s with
  | (s1, some e) => (s1, .err e)
  | (s1, none) => shutdownArm s1

/-- `ObjectWriter::abort` and `Drop for ObjectWriter`: the state becomes `Done(WriteResult::default())`; an
`InProgress` upload is aborted (the store discards its parts); the JoinSet and any boxed future are dropped,
which cancels their calls. -/
def abort (s : St) : St :=
  { s with phase := .done, size := 0, aborted := true, futs := [], doneQ := [], pend := .idle,
           recorded := if s.phase = .inProgress then [] else s.recorded }

-- the store answers -------------------------------------------------------------------------------

/-- stable insertion by part number (`parts.sort_unstable_by_key(|(idx, _)| *idx)`; part numbers are distinct) -/
def insertPart (x : Nat × List Seg) : List (Nat × List Seg) → List (Nat × List Seg)
  | [] => [x]
  | y :: t => if x.1 ≤ y.1 then x :: y :: t else y :: insertPart x t

def sortParts (l : List (Nat × List Seg)) : List (Nat × List Seg) := l.foldr insertPart []

/-- the object a successful `complete` publishes -/
def assemble (l : List (Nat × List Seg)) : List Seg := (sortParts l).flatMap (·.2)

/-- the store answers the `put_part` call numbered `i` -/
def relPart (s : St) (i : Nat) (f : Fault) : St × Res :=
  match s.futs.find? (·.sidx = i) with
  | none => (s, .norel)
  | some p =>
      ({ s with futs := s.futs.filter (·.sidx ≠ i), doneQ := s.doneQ ++ [(p, f)],
                recorded := if f = .ok then s.recorded ++ [(i, p.data)] else s.recorded,
                nFailed := if f = .ok then s.nFailed else s.nFailed + 1 }, .released)

/-- the store answers `put_multipart` -/
def relCreate (s : St) (f : Fault) : St × Res :=
  if s.phase = .creating ∧ s.pend = .parked then ({ s with pend := .got f }, .released) else (s, .norel)

/-- the store answers the single `put`: with `ok` / `lr` the object appears -/
def relSingle (s : St) (f : Fault) : St × Res :=
  if s.phase = .puttingSingle ∧ s.pend = .parked then
    ({ s with pend := .got f, object := if f = .ok ∨ f = .lr then some s.single else s.object }, .released)
  else (s, .norel)

/-- the store answers `complete`: `Parts::finish(expected = number of put_part calls)` -/
def relComplete (s : St) (f : Fault) : St × Res :=
  if s.phase = .completing ∧ s.pend = .parked then
    if f = .ok ∨ f = .lr then
      if s.recorded.length = s.issued.length then
        ({ s with pend := .got f, object := some (assemble s.recorded) }, .released)
      else ({ s with pend := .got .fb }, .released)       -- "Missing part"
    else ({ s with pend := .got f }, .released)
  else (s, .norel)

inductive Call where
  | create | single | complete | part (i : Nat)
deriving DecidableEq, Repr

inductive Op where
  | write (n : Nat) | flush | shutdown | rel (c : Call) (f : Fault) | abort | drop
deriving DecidableEq, Repr

def relCall (s : St) (c : Call) (f : Fault) : St × Res :=
  match c with
  | .create => relCreate s f
  | .single => relSingle s f
  | .complete => relComplete s f
  | .part i => relPart s i f

/-- ghost bookkeeping of one op (never changes a field the transitions read) -/
def note (s : St) (op : Op) : St :=
  match op with
  | .write _ => { s with lateWrite := s.lateWrite || s.sdSeen }
  | .shutdown => { s with sdSeen := true }
  | .rel _ f =>
      { s with lrSeen := s.lrSeen || decide (f = .lr), resetSeen := s.resetSeen || decide (f = .reset),
               faultSeen := s.faultSeen || decide (f ≠ .ok) }
  | _ => s

def markErr (r : St × Res) : St × Res :=
  match r.2 with
  | .err _ => ({ r.1 with errSeen := true }, r.2)
  | _ => r

/-- one op.  A poll of a `poisoned` writer panics (the boxed future is polled after completion). -/
def step (s : St) (op : Op) : St × Res :=
  match op with
  | .write n => if s.phase = .poisoned then (note s op, .panic) else markErr (pollWrite (note s op) n)
  | .flush => if s.phase = .poisoned then (s, .panic) else markErr (pollFlush s)
  | .shutdown => if s.phase = .poisoned then (note s op, .panic) else markErr (pollShutdown (note s op))
  | .rel c f => relCall (note s op) c f
  | .abort => (abort s, .aborted)
  | .drop => (abort s, .dropped)

def run (s : St) : List Op → St
  | [] => s
  | op :: ops => run (step s op).1 ops

/-- results of a run, in order -/
def trace (s : St) : List Op → List Res
  | [] => []
  | op :: ops => (step s op).2 :: trace (step s op).1 ops

/-- a poll answered `Pending` although no store call is in flight: nothing will ever wake the task -/
def stuck (s : St) (r : Res) : Bool :=
  decide (r = .pending) && s.futs.isEmpty && s.doneQ.isEmpty && decide (s.pend ≠ .parked)

end LanceModel.C31
