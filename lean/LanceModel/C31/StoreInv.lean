import LanceModel.C31.ListLemmas
import LanceModel.C31.Closure
/-
C31 — invariant A: the store's bookkeeping of part uploads.
Every `put_part` call (`issued`, numbered by position) is in exactly one of three states: in flight (`futs`),
recorded, or answered with an error (`nFailed` counts them); part numbers in flight / recorded are distinct and
carry the payload of their call; a retry is always paid for by a failed call.
-/
namespace LanceModel.C31

/-- finished tasks whose upload failed -/
def countBad : List (Part × Fault) → Nat
  | [] => 0
  | (_, .ok) :: q => countBad q
  | (_, .fb) :: q => countBad q + 1
  | (_, .reset) :: q => countBad q + 1
  | (_, .lr) :: q => countBad q + 1

theorem countBad_bad (p : Part) (f : Fault) (q : List (Part × Fault)) (h : f ≠ .ok) :
    countBad ((p, f) :: q) = countBad q + 1 := by
  cases f <;> simp_all [countBad]

theorem countBad_append (q : List (Part × Fault)) (p : Part) (f : Fault) :
    countBad (q ++ [(p, f)]) = countBad q + (if f = .ok then 0 else 1) := by
  induction q with
  | nil => cases f <;> simp [countBad]
  | cons x t ih =>
    obtain ⟨p', f'⟩ := x
    cases f' <;> simp [countBad, ih] <;> omega

def InvA1 (s : St) : Prop :=
  (∀ x ∈ s.recorded, s.issued[x.1]? = some x.2) ∧
  (s.recorded.map (·.1)).Nodup ∧
  (∀ p ∈ s.futs, s.issued[p.sidx]? = some p.data) ∧
  s.futs.Pairwise (fun a b => a.sidx ≠ b.sidx) ∧
  (∀ p ∈ s.futs, ∀ x ∈ s.recorded, x.1 ≠ p.sidx) ∧
  (s.aborted = false → s.recorded.length + s.futs.length + s.nFailed = s.issued.length)

def InvA2 (s : St) : Prop := s.nRetried + countBad s.doneQ ≤ s.nFailed

def InvA (s : St) : Prop := InvA1 s ∧ InvA2 s

theorem getElem?_lt {α} {l : List α} {i : Nat} {a : α} (h : l[i]? = some a) : i < l.length := by
  obtain ⟨h, _⟩ := List.getElem?_eq_some_iff.1 h; exact h

theorem invA1_submit (s : St) (d : List Seg) (h : InvA1 s) : InvA1 (submit s d) := by
  obtain ⟨h1, h2, h3, h4, h5, h6⟩ := h
  refine ⟨?_, h2, ?_, ?_, ?_, ?_⟩
  · intro x hx
    show (s.issued ++ [d])[x.1]? = some x.2
    rw [List.getElem?_append_left (getElem?_lt (h1 x hx))]; exact h1 x hx
  · intro p hp
    show (s.issued ++ [d])[p.sidx]? = some p.data
    rcases List.mem_append.1 hp with hp | hp
    · rw [List.getElem?_append_left (getElem?_lt (h3 p hp))]; exact h3 p hp
    · simp only [List.mem_singleton] at hp; subst hp; simp
  · show (s.futs ++ [(⟨s.issued.length, d⟩ : Part)]).Pairwise _
    rw [List.pairwise_append]
    refine ⟨h4, by simp, ?_⟩
    intro a ha b hb
    simp only [List.mem_singleton] at hb; subst hb
    have := getElem?_lt (h3 a ha)
    show a.sidx ≠ s.issued.length
    omega
  · intro p hp x hx
    rcases List.mem_append.1 hp with hp | hp
    · exact h5 p hp x hx
    · simp only [List.mem_singleton] at hp; subst hp
      have := getElem?_lt (h1 x hx)
      show x.1 ≠ s.issued.length
      omega
  · intro ha
    have := h6 ha
    show s.recorded.length + (s.futs ++ [(⟨s.issued.length, d⟩ : Part)]).length + s.nFailed = (s.issued ++ [d]).length
    simp only [List.length_append, List.length_singleton]; omega

theorem invA_relPart (s : St) (i : Nat) (f : Fault) (h : InvA s) : InvA (relPart s i f).1 := by
  unfold relPart
  split
  · exact h
  · rename_i p hfind
    have hp : p ∈ s.futs := List.mem_of_find?_eq_some hfind
    have hpi : p.sidx = i := by simpa using List.find?_some hfind
    obtain ⟨⟨h1, h2, h3, h4, h5, h6⟩, h7⟩ := h
    have hfl := filter_sidx_length s.futs p h4 hp
    rw [hpi] at hfl
    have hsub : ∀ q ∈ s.futs.filter (fun q => q.sidx ≠ i), q ∈ s.futs ∧ q.sidx ≠ i := by
      intro q hq
      have := List.mem_filter.1 hq
      exact ⟨this.1, by simpa using this.2⟩
    refine ⟨⟨?_, ?_, ?_, ?_, ?_, ?_⟩, ?_⟩
    · intro x hx
      show s.issued[x.1]? = some x.2
      by_cases hf : f = .ok
      · simp only [hf, if_true] at hx
        rcases List.mem_append.1 hx with hx | hx
        · exact h1 x hx
        · simp only [List.mem_singleton] at hx; subst hx
          rw [← hpi]; exact h3 p hp
      · simp only [hf, if_false] at hx; exact h1 x hx
    · show ((if f = .ok then s.recorded ++ [(i, p.data)] else s.recorded).map (·.1)).Nodup
      by_cases hf : f = .ok
      · simp only [hf, if_true, List.map_append, List.map_cons, List.map_nil]
        rw [List.nodup_append]
        refine ⟨h2, by simp, ?_⟩
        intro a ha b hb
        simp only [List.mem_singleton] at hb; subst hb
        obtain ⟨x, hx, rfl⟩ := List.mem_map.1 ha
        rw [← hpi]; exact h5 p hp x hx
      · simp only [hf, if_false]; exact h2
    · intro q hq
      exact h3 q (hsub q hq).1
    · exact h4.filter _
    · intro q hq x hx
      show x.1 ≠ q.sidx
      have hq' := hsub q hq
      by_cases hf : f = .ok
      · simp only [hf, if_true] at hx
        rcases List.mem_append.1 hx with hx | hx
        · exact h5 q hq'.1 x hx
        · simp only [List.mem_singleton] at hx; subst hx
          exact fun h => hq'.2 h.symm
      · simp only [hf, if_false] at hx; exact h5 q hq'.1 x hx
    · intro ha
      have := h6 ha
      show (if f = .ok then s.recorded ++ [(i, p.data)] else s.recorded).length +
        (s.futs.filter (fun q => q.sidx ≠ i)).length + (if f = .ok then s.nFailed else s.nFailed + 1) = s.issued.length
      by_cases hf : f = .ok
      · simp only [hf, if_true, List.length_append, List.length_singleton]; omega
      · simp only [hf, if_false]; omega
    · show s.nRetried + countBad (s.doneQ ++ [(p, f)]) ≤ (if f = .ok then s.nFailed else s.nFailed + 1)
      have : s.nRetried + countBad s.doneQ ≤ s.nFailed := h7
      rw [countBad_append]
      by_cases hf : f = .ok
      · simp only [hf, if_true]; omega
      · simp only [hf, if_false]; omega

theorem invA_abort (s : St) (h : InvA s) : InvA (abort s) := by
  obtain ⟨⟨h1, h2, h3, h4, h5, h6⟩, h7⟩ := h
  refine ⟨⟨?_, ?_, ?_, ?_, ?_, ?_⟩, ?_⟩
  · intro x hx
    show s.issued[x.1]? = some x.2
    have : x ∈ s.recorded := by
      have hx' : x ∈ (if s.phase = .inProgress then [] else s.recorded) := hx
      split at hx'
      · cases hx'
      · exact hx'
    exact h1 x this
  · show ((if s.phase = .inProgress then [] else s.recorded).map (·.1)).Nodup
    split
    · simp
    · exact h2
  · intro p hp; cases hp
  · exact List.Pairwise.nil
  · intro p hp; cases hp
  · intro ha; cases ha
  · show s.nRetried + countBad [] ≤ s.nFailed
    have : s.nRetried + countBad s.doneQ ≤ s.nFailed := h7
    simp only [countBad]; omega

theorem invA_shutdownArm (s : St) (h : InvA s) : InvA (shutdownArm s).1 := by
  unfold shutdownArm
  cases s.phase <;> simp only
  · exact h
  · exact h
  · split
    · exact ⟨invA1_submit s s.buf h.1, h.2⟩
    · split
      · exact h
      · exact h
  · exact h
  · exact h
  · exact h
  · exact h

theorem invA_startNext (s : St) (h : InvA s) : InvA (startNext s) := by
  unfold startNext
  split
  · cases s.phase <;> simp only
    · exact h
    · exact h
    · split
      · exact ⟨invA1_submit s s.buf h.1, h.2⟩
      · exact h
    · exact h
    · exact h
    · exact h
    · exact h
  · exact h

theorem invA_closed : Closed InvA where
  popOk := fun s p q h _ hq => ⟨h.1, by
    have : s.nRetried + countBad s.doneQ ≤ s.nFailed := h.2
    rw [hq] at this
    show s.nRetried + countBad q ≤ s.nFailed
    simpa [countBad] using this⟩
  popRetry := fun s p q h _ hq _ => ⟨invA1_submit s p.data h.1, by
    have : s.nRetried + countBad s.doneQ ≤ s.nFailed := h.2
    rw [hq] at this
    show s.nRetried + 1 + countBad q ≤ s.nFailed
    simp only [countBad] at this; omega⟩
  popBad := fun s p f q h _ hq hf => ⟨h.1, by
    have : s.nRetried + countBad s.doneQ ≤ s.nFailed := h.2
    rw [hq, countBad_bad p f q hf] at this
    show s.nRetried + countBad q ≤ s.nFailed
    omega⟩
  toInProgress := fun s h _ _ => ⟨invA1_submit _ s.buf h.1, h.2⟩
  poison := fun s f h _ _ _ => h
  finish := fun s h _ _ => h
  accept := fun s n h _ _ => by unfold accept; split <;> exact h
  startNext := fun s h _ => invA_startNext s h
  shutdownArm := fun s h _ => invA_shutdownArm s h
  noteWrite := fun s h => h
  noteSd := fun s h => h
  noteRel := fun s f h => h
  relPart := fun s i f h _ => invA_relPart s i f h
  relCreate := fun s f h _ => by unfold relCreate; split <;> exact h
  abort := fun s h => invA_abort s h
  relSingle := fun s f h _ => by unfold relSingle; split <;> exact h
  relComplete := fun s f h _ => by
    unfold relComplete
    split
    · split
      · split <;> exact h
      · exact h
    · exact h

theorem invA_init (c : Cfg) : InvA (init c) := by
  refine ⟨⟨?_, ?_, ?_, ?_, ?_, ?_⟩, ?_⟩ <;> simp [init, InvA2, countBad]

end LanceModel.C31
