import LanceModel.Util
import LanceModel.C31.Model
/-
C31 driver.  Op lines (one output line each):
  cfg <init> <step> <maxpar> <maxretry> <const 0|1>    a fresh writer
  w <n> | fl | sd                                     one poll_write (input of n bytes) / poll_flush / poll_shutdown
  rel c|s|f|p<i> ok|fb|reset|lr                       the store answers put_multipart / put / complete / put_part number i
  abort | drop
Output: `<result> cur=<cursor> calls=<new store calls> dest=<absent | len:ok|bad>`
  calls: c, s:<len>, f, a, p<i>:<len>@<stream offset of its first byte>
-/
namespace LanceModel.C31.Driver
open LanceModel.Util LanceModel.C31

structure DS where
  cfgd : Bool := false
  dropped : Bool := false
  s : St := {}

def initDS : DS := {}

def parseFault : String → Option Fault
  | "ok" => some .ok
  | "fb" => some .fb
  | "reset" => some .reset
  | "lr" => some .lr
  | _ => none

def parseCall (t : String) : Option Call :=
  match t with
  | "c" => some .create
  | "s" => some .single
  | "f" => some .complete
  | _ => if t.startsWith "p" then (t.drop 1).toNat?.map Call.part else none

/-- stream offset of the first byte of the input of accepting write `src` -/
def absStart (log : List Seg) (src : Nat) : Nat :=
  total (log.takeWhile (fun g => g.src != src))

/-- are the segments the stream bytes `[from, from + total)` in order? -/
def contiguous (log : List Seg) : Nat → List Seg → Bool
  | _, [] => true
  | pos, g :: t => (g.len == 0 || absStart log g.src + g.off == pos) && contiguous log (pos + g.len) t

/-- the harness reads the start offset off the payload's content; fewer than 8 bytes carry too little (`~`) -/
def showStart (log : List Seg) (d : List Seg) : String :=
  if total d < 8 then (if total d = 0 then "-" else "~") else
  match d.find? (fun g => g.len != 0) with
  | none => "-"
  | some g => if contiguous log (absStart log g.src + g.off) d then toString (absStart log g.src + g.off) else "?"

def showDest (s : St) : String :=
  match s.object with
  | none => "absent"
  | some o => toString (total o) ++ ":" ++ (if contiguous s.log 0 o then "ok" else "bad")

def showRes (s : St) : Res → String
  | .ready k => "ready " ++ toString k
  | .readyU => "ready"
  | .pending => if stuck s .pending then "stuck" else "pending"
  | .err .other => "err other"
  | .err .connReset => "err reset"
  | .panic => "panic"
  | .released => "released"
  | .norel => "norel"
  | .aborted => "aborted"
  | .dropped => "dropped"

/-- store calls made by the transition `a → b` -/
def newCalls (a b : St) (op : Op) : List String :=
  let parts := (List.range (b.issued.length - a.issued.length)).map (fun k =>
    let i := a.issued.length + k
    let d := (b.issued[i]?).getD []
    "p" ++ toString i ++ ":" ++ toString (total d) ++ "@" ++ showStart b.log d)
  let pendCall :=
    if b.pend = .parked ∧ a.pend ≠ .parked then
      match b.phase with
      | .creating => ["c"]
      | .puttingSingle => ["s:" ++ toString (total b.single)]
      | .completing => ["f"]
      | _ => []
    else []
  let ab := match op with
    | .abort => if a.phase = .inProgress then ["a"] else []
    | .drop => if a.phase = .inProgress then ["a"] else []
    | _ => []
  -- the create call precedes part 0; a final part precedes nothing else
  pendCall ++ parts ++ ab

def render (a : St) (op : Op) (sd : Bool) : St × String :=
  let (b, r) := step a op
  let calls := newCalls a b op
  let line := showRes b r ++ " cur=" ++ toString b.cursor ++
    " calls=" ++ (if calls.isEmpty then "-" else ",".intercalate calls) ++ " dest=" ++ showDest b ++
    (if sd && r = .readyU then " size=" ++ toString b.size else "")
  (b, line)

def step (d : DS) (line : String) : DS × String :=
  match splitTokens line with
  | ["cfg", a, b, c, e, f] =>
      match a.toNat?, b.toNat?, c.toNat?, e.toNat? with
      | some i, some st, some mp, some mr =>
          let cfg : Cfg := { init := i, step := st, maxPar := mp, maxRetry := mr, constSize := f = "1" }
          ({ cfgd := true, dropped := false, s := init cfg }, "cfg ok")
      | _, _, _, _ => (d, "badline")
  | toks =>
      if !d.cfgd then (d, "nocfg") else
      let pollOp : Option Op := match toks with
        | ["w", n] => n.toNat?.map Op.write
        | ["fl"] => some .flush
        | ["sd"] => some .shutdown
        | ["abort"] => some .abort
        | ["drop"] => some .drop
        | _ => none
      match pollOp with
      | some op =>
          if d.dropped then (d, "nowriter") else
          let (b, l) := render d.s op (op == .shutdown)
          ({ d with s := b, dropped := d.dropped || op == .drop }, l)
      | none =>
          match toks with
          | ["rel", c, f] =>
              match parseCall c, parseFault f with
              | some c, some f =>
                  let (b, l) := render d.s (.rel c f) false
                  ({ d with s := b }, l)
              | _, _ => (d, "badline")
          | _ => (d, "badline")

end LanceModel.C31.Driver
