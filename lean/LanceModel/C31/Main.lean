import LanceModel.C31.Driver
def main : IO Unit := LanceModel.Util.runDriver LanceModel.C31.Driver.step LanceModel.C31.Driver.initDS
