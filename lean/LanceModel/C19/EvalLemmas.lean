import LanceModel.C19.PlanLemmas
import LanceModel.C21.MaskLemmas
/-!
C19 helper lemmas, part 2: `visit_node` preserves meaning; `ScalarIndexExpr::evaluate` over exact leaves computes the
two-valued selection `sel2` on the live rows of the covered fragments (through C21's mask algebra); the per-row form of
the scan theorems.
-/
namespace LanceModel.C19
open LanceModel.Query

/-! ### the planner -/

/-- the `(low, high)` table of maybe_range is the conjunction of the two comparisons -/
def RangeTableOk : Prop :=
  ∀ o1 o2 a b lo hi x, rangeBounds o1 o2 a b = some (lo, hi) →
    (lo.loOk x && hi.hiOk x) = (o1.holds x a && o2.holds x b)

theorem maybeRange_meaning (hT : RangeTableOk) (ix : Nat → Bool) (a b : Expr) (x : Indexed) (r : Row)
    (h : maybeRange ix a b = some x) : x.meaning r = and3 (eval3 a r) (eval3 b r) := by
  unfold maybeRange at h
  split at h
  · rename_i o1 c1 v1 o2 c2 v2
    split at h
    · rename_i hc
      simp only [Bool.and_eq_true, beq_iff_eq] at hc
      obtain ⟨_, rfl⟩ := hc
      split at h
      · rename_i lo hi hb
        simp only [Option.some.injEq] at h
        subst h
        simp only [Indexed.meaning, IExpr.eval3, optEval3, and3_true, eval3, Operand.value]
        cases hcell : cellAt r c1 with
        | none => simp [SQ.eval3, cmp3, and3]
        | some v =>
          simp only [SQ.eval3, cmp3]
          rw [hT o1 o2 v1 v2 lo hi v hb]
          cases o1.holds v v1 <;> cases o2.holds v v2 <;> rfl
      · simp at h
    · simp at h
  · simp at h

theorem range_table_ok : RangeTableOk := by
  intro o1 o2 a b lo hi x h
  cases o1 <;> cases o2 <;> simp only [rangeBounds, Option.some.injEq, Prod.mk.injEq, reduceCtorEq] at h <;>
    (obtain ⟨rfl, rfl⟩ := h; simp only [Bd.loOk, Bd.hiOk, Cmp.holds] <;> exact Bool.and_comm _ _)

/-- **the planner keeps the three-valued meaning**: whatever `visit_node` turns into (index query, refine), the
    conjunction of the two means the same as the filter, on every row, NULLs included -/
theorem visitNode_meaning (hT : RangeTableOk) (ix : Nat → Bool) (e : Expr) (x : Indexed) (r : Row)
    (h : visitNode ix e = some x) : x.meaning r = eval3 e r := by
  induction e generalizing x with
  | tt => simp [visitNode] at h
  | ff => simp [visitNode] at h
  | cmp op c rhs =>
    cases rhs with
    | col d => simp [visitNode] at h
    | lit v =>
      simp only [visitNode] at h
      split at h
      · split at h
        · rename_i hop
          subst hop
          simp only [Indexed.maybeNot, Option.some.injEq] at h
          subst h
          simp only [Indexed.meaning, IExpr.eval3, optEval3, and3_true, eval3, Operand.value]
          exact cmp_ne_eval3 v _
        · rename_i hop
          simp only [Option.some.injEq] at h
          subst h
          simp only [Indexed.meaning, IExpr.eval3, optEval3, and3_true, eval3, Operand.value]
          exact cmpQuery_eval3 op v _ hop
      · simp at h
  | isNull c =>
    simp only [visitNode] at h
    split at h
    · simp only [Option.some.injEq] at h
      subst h
      simp [Indexed.meaning, IExpr.eval3, optEval3, eval3, SQ.eval3]
    · simp at h
  | notNull c =>
    simp only [visitNode] at h
    split at h
    · simp only [Indexed.maybeNot, Option.some.injEq] at h
      subst h
      simp only [Indexed.meaning, IExpr.eval3, optEval3, and3_true, eval3, SQ.eval3, not3]
      cases cellAt r c <;> rfl
    · simp at h
  | inList c vs =>
    simp only [visitNode] at h
    split at h
    · split at h
      · simp at h
      · rename_i hn
        simp only [Option.some.injEq] at h
        subst h
        simp only [Indexed.meaning, IExpr.eval3, optEval3, and3_true, eval3, SQ.eval3]
        rw [map_some_filterMap_id vs (by simpa using hn)]
    · simp at h
  | between c lo hi =>
    simp only [visitNode] at h
    split at h
    · simp only [Option.some.injEq] at h
      subst h
      simp only [Indexed.meaning, IExpr.eval3, optEval3, and3_true, eval3]
      exact between_eval3 lo hi _
    · simp at h
  | not e ih =>
    simp only [visitNode] at h
    split at h
    · rename_i y hy
      rw [maybeNot_meaning y x r h, ih y hy]
      rfl
    · simp at h
  | and a b iha ihb =>
    simp only [visitNode] at h
    split at h
    · rename_i y hy
      simp only [Option.some.injEq] at h
      subst h
      rw [maybeRange_meaning hT ix a b y r hy]
      rfl
    · split at h
      · rename_i y z hy hz
        simp only [Option.some.injEq] at h
        subst h
        rw [and_meaning, iha y hy, ihb z hz]; rfl
      · rename_i y hy hz
        simp only [Option.some.injEq] at h
        subst h
        rw [refineWith_meaning, iha y hy]; rfl
      · rename_i z hy hz
        simp only [Option.some.injEq] at h
        subst h
        rw [refineWith_meaning, ihb z hz]
        simp only [eval3]
        exact and3_comm _ _
      · simp at h
  | or a b iha ihb =>
    simp only [visitNode] at h
    split at h
    · rename_i y z hy hz
      rw [maybeOr_meaning y z x r h, iha y hy, ihb z hz]; rfl
    · simp at h

/-- every leaf of the index query `visit_node` builds is on an indexed column -/
def IExpr.leavesIn (ix : Nat → Bool) : IExpr → Bool
  | .query c _ => ix c
  | .not e => e.leavesIn ix
  | .and a b => a.leavesIn ix && b.leavesIn ix
  | .or a b => a.leavesIn ix && b.leavesIn ix

theorem visitNode_leaves (ix : Nat → Bool) (e : Expr) (x : Indexed) (h : visitNode ix e = some x) :
    x.sq.leavesIn ix = true := by
  induction e generalizing x with
  | tt => simp [visitNode] at h
  | ff => simp [visitNode] at h
  | cmp op c rhs =>
    cases rhs with
    | col d => simp [visitNode] at h
    | lit v =>
      simp only [visitNode] at h
      split at h
      · rename_i hc
        split at h
        · simp only [Indexed.maybeNot, Option.some.injEq] at h
          subst h; simpa [IExpr.leavesIn] using hc
        · simp only [Option.some.injEq] at h
          subst h; simpa [IExpr.leavesIn] using hc
      · simp at h
  | isNull c =>
    simp only [visitNode] at h
    split at h
    · rename_i hc
      simp only [Option.some.injEq] at h
      subst h; simpa [IExpr.leavesIn] using hc
    · simp at h
  | notNull c =>
    simp only [visitNode] at h
    split at h
    · rename_i hc
      simp only [Indexed.maybeNot, Option.some.injEq] at h
      subst h; simpa [IExpr.leavesIn] using hc
    · simp at h
  | inList c vs =>
    simp only [visitNode] at h
    split at h
    · rename_i hc
      split at h
      · simp at h
      · simp only [Option.some.injEq] at h
        subst h; simpa [IExpr.leavesIn] using hc
    · simp at h
  | between c lo hi =>
    simp only [visitNode] at h
    split at h
    · rename_i hc
      simp only [Option.some.injEq] at h
      subst h; simpa [IExpr.leavesIn] using hc
    · simp at h
  | not e ih =>
    simp only [visitNode] at h
    split at h
    · rename_i y hy
      unfold Indexed.maybeNot at h
      split at h
      · simp at h
      · simp only [Option.some.injEq] at h
        subst h
        simpa [IExpr.leavesIn] using ih y hy
    · simp at h
  | and a b iha ihb =>
    simp only [visitNode] at h
    split at h
    · rename_i y hy
      simp only [Option.some.injEq] at h
      subst h
      unfold maybeRange at hy
      split at hy
      · split at hy
        · rename_i hc
          split at hy
          · simp only [Option.some.injEq] at hy
            subst hy
            simp only [Bool.and_eq_true] at hc
            simpa [IExpr.leavesIn] using hc.1
          · simp at hy
        · simp at hy
      · simp at hy
    · split at h
      · rename_i y z hy hz
        simp only [Option.some.injEq] at h
        subst h
        simp [Indexed.and, IExpr.leavesIn, iha y hy, ihb z hz]
      · rename_i y hy hz
        simp only [Option.some.injEq] at h
        subst h
        simpa [Indexed.refineWith] using iha y hy
      · rename_i z hy hz
        simp only [Option.some.injEq] at h
        subst h
        simpa [Indexed.refineWith] using ihb z hz
      · simp at h
  | or a b iha ihb =>
    simp only [visitNode] at h
    split at h
    · rename_i y z hy hz
      unfold Indexed.maybeOr at h
      split at h
      · simp only [Option.some.injEq] at h
        subst h
        simp [IExpr.leavesIn, iha y hy, ihb z hz]
      · simp at h
    · simp at h

/-! ### evaluation -/

/-- does the leaf search / the combination of leaf searches contain the address? -/
def memTruth (s : St) : IExpr → Nat → Bool
  | .query c q, a =>
    match s.index c with
    | some i => (i.search q).contains a
    | none => false
  | .not e, a => !memTruth s e a
  | .and x y, a => memTruth s x a && memTruth s y a
  | .or x y, a => memTruth s x a || memTruth s y a

theorem sorted_extendIds (m : C21.TreeMap) (vs : List Nat) (h : C21.Sorted m) : C21.Sorted (m.extendIds vs) := by
  unfold C21.TreeMap.extendIds
  induction vs generalizing m with
  | nil => simpa using h
  | cons v t ih =>
    simp only [List.foldl_cons]
    exact ih _ (C21.sorted_insert m v h)

theorem leafRes_spec (addrs : List Nat) :
    ∃ m, leafRes addrs = .exact m ∧ C21.WFMask m ∧ ∀ a, m.selected a = addrs.contains a := by
  refine ⟨_, rfl, C21.wf_fromAllowed _ (sorted_extendIds [] addrs C21.sorted_nil), ?_⟩
  intro a
  simp only [C21.Mask.fromAllowed, C21.Mask.selected]
  rw [C21.contains_extendIds, C21.contains_nil]
  simp

/-- what `toC21` produces evaluates to an Exact answer whose mask selects exactly `memTruth` -/
theorem toC21_exact (s : St) (e : IExpr) (x : C21.Expr) (h : toC21 s e = .ok x) :
    ∃ m, x.eval = .exact m ∧ C21.WFMask m ∧ ∀ a, m.selected a = memTruth s e a := by
  induction e generalizing x with
  | query c q =>
    simp only [toC21] at h
    split at h
    · simp at h
    · rename_i i hi
      simp only [Except.ok.injEq] at h
      subst h
      obtain ⟨m, hm, hw, hs⟩ := leafRes_spec (i.search q)
      exact ⟨m, by simp [C21.Expr.eval, hm], hw, by intro a; simp [memTruth, hi, hs]⟩
  | not e ih =>
    simp only [toC21] at h
    split at h
    · rename_i y hy
      simp only [Except.ok.injEq] at h
      subst h
      obtain ⟨m, hm, hw, hs⟩ := ih y hy
      refine ⟨m.not, by simp [C21.Expr.eval, hm, C21.Res.not], C21.wf_not m hw, ?_⟩
      intro a
      rw [C21.selected_not m hw, hs]; rfl
    · simp at h
  | and a b iha ihb =>
    simp only [toC21] at h
    split at h
    · rename_i y z hy hz
      simp only [Except.ok.injEq] at h
      subst h
      obtain ⟨m1, hm1, hw1, hs1⟩ := iha y hy
      obtain ⟨m2, hm2, hw2, hs2⟩ := ihb z hz
      refine ⟨m1.and m2, by simp [C21.Expr.eval, hm1, hm2, C21.Res.and], C21.wf_and m1 m2 hw1 hw2, ?_⟩
      intro x
      rw [C21.selected_and m1 m2 hw1 hw2, hs1, hs2]; rfl
    · simp at h
    · simp at h
  | or a b iha ihb =>
    simp only [toC21] at h
    split at h
    · rename_i y z hy hz
      simp only [Except.ok.injEq] at h
      subst h
      obtain ⟨m1, hm1, hw1, hs1⟩ := iha y hy
      obtain ⟨m2, hm2, hw2, hs2⟩ := ihb z hz
      refine ⟨m1.or m2, by simp [C21.Expr.eval, hm1, hm2, C21.Res.or], C21.wf_or m1 m2 hw1 hw2, ?_⟩
      intro x
      rw [C21.selected_or m1 m2 hw1 hw2, hs1, hs2]; rfl
    · simp at h
    · simp at h

theorem evaluate_exact (s : St) (e : IExpr) (res : C21.Res) (h : evaluate s e = .ok res) :
    ∃ m, res = .exact m ∧ ∀ a, m.selected a = memTruth s e a := by
  unfold evaluate at h
  split at h
  · rename_i x hx
    simp only [Except.ok.injEq] at h
    subst h
    obtain ⟨m, hm, _, hs⟩ := toC21_exact s e x hx
    exact ⟨m, hm, hs⟩
  · simp at h

/-! ### the index invariant -/

/-- an index is faithful to the table: it has the entry of every live row of the fragments it covers, an entry for
    the address of such a row carries that row's key, and it has no entry outside the fragments it covers -/
def IdxOK (rows : List (Nat × Row)) (i : Idx) : Prop :=
  (∀ p ∈ rows, fragOf p.1 ∈ i.frags → (cellAt p.2 i.col, p.1) ∈ i.entries) ∧
  (∀ e ∈ i.entries, ∀ p ∈ rows, p.1 = e.2 → fragOf p.1 ∈ i.frags → e.1 = cellAt p.2 i.col) ∧
  (∀ e ∈ i.entries, fragOf e.2 ∈ i.frags)

/-- the state invariant: addresses are unique and every index is faithful -/
def Inv (s : St) : Prop := (s.rows.map (·.1)).Nodup ∧ ∀ i ∈ s.idxs, IdxOK s.rows i

theorem index_mem (s : St) (c : Nat) (i : Idx) (h : s.index c = some i) : i ∈ s.idxs ∧ i.col = c := by
  unfold St.index at h
  have h1 := List.mem_of_find?_eq_some h
  have h2 := List.find?_some h
  simp only [Bool.and_eq_true, beq_iff_eq] at h2
  exact ⟨h1, h2.1⟩

/-- on a live row of a fragment every leaf's index covers, leaf membership is `sel2` -/
theorem memTruth_eq_sel2 (s : St) (hinv : Inv s) (q : IExpr) (p : Nat × Row) (hp : p ∈ s.rows)
    (hl : q.leavesIn s.ix = true) (hc : fragOf p.1 ∈ covered s q) : memTruth s q p.1 = q.sel2 p.2 := by
  induction q with
  | query c sq =>
    simp only [IExpr.leavesIn, St.ix] at hl
    cases hi : s.index c with
    | none => simp [hi] at hl
    | some i =>
      obtain ⟨him, hcol⟩ := index_mem s c i hi
      obtain ⟨hcomp, hsound, _⟩ := hinv.2 i him
      simp only [covered, hi] at hc
      simp only [memTruth, hi, IExpr.sel2, Idx.search]
      apply Bool.eq_iff_iff.mpr
      simp only [List.contains_iff_mem, List.mem_map, List.mem_filter]
      constructor
      · rintro ⟨e, ⟨he, hh⟩, hea⟩
        have := hsound e he p hp hea.symm hc
        rw [← hcol, ← this]; exact hh
      · intro hh
        refine ⟨(cellAt p.2 i.col, p.1), ⟨hcomp p hp hc, ?_⟩, rfl⟩
        rw [hcol]; exact hh
  | not e ih =>
    simp only [IExpr.leavesIn] at hl
    simp only [covered] at hc
    simp [memTruth, IExpr.sel2, ih hl hc]
  | and a b iha ihb =>
    simp only [IExpr.leavesIn, Bool.and_eq_true] at hl
    simp only [covered, List.mem_filter, List.contains_iff_mem] at hc
    simp [memTruth, IExpr.sel2, iha hl.1 hc.1, ihb hl.2 hc.2]
  | or a b iha ihb =>
    simp only [IExpr.leavesIn, Bool.and_eq_true] at hl
    simp only [covered, List.mem_filter, List.contains_iff_mem] at hc
    simp [memTruth, IExpr.sel2, iha hl.1 hc.1, ihb hl.2 hc.2]

/-- what the indexed scan decides for one live row -/
theorem readRow_spec (s : St) (hinv : Inv s) (e : Expr) (x : Indexed) (res : C21.Res)
    (hv : visitNode s.ix e = some x) (hr : evaluate s x.sq = .ok res) (p : Nat × Row) (hp : p ∈ s.rows) :
    readRow res (covered s x.sq) x.refine e p =
      if (covered s x.sq).contains (fragOf p.1) then x.sq.sel2 p.2 && optTrue x.refine p.2 else isTrue e p.2 := by
  obtain ⟨m, rfl, hs⟩ := evaluate_exact s x.sq res hr
  unfold readRow
  split
  · rename_i hc
    simp only [hs]
    rw [memTruth_eq_sel2 s hinv x.sq p hp (visitNode_leaves s.ix e x hv) (by simpa using hc)]
  · rfl

end LanceModel.C19
