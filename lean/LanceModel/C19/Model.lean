import LanceModel.Query.Eval
import LanceModel.C21.Model
/-
C19 model: exact scalar indices (BTree, Bitmap) answer filters like a full scan.

Mirrors (pinned commit of /repo):
  rust/lance-index/src/scalar/expression.rs   SargableQueryParser::{visit_between, visit_in_list, visit_is_null,
                                              visit_comparison}, IndexedExpression::{maybe_not, and, maybe_or, refine},
                                              visit_node and its helpers (visit_comparison, visit_between, visit_in_list,
                                              visit_is_null, visit_not, maybe_range, visit_and, visit_or),
                                              apply_scalar_indices, ScalarIndexExpr::evaluate (through C21's tables)
  rust/lance-index/src/scalar/flat.rs         FlatIndex::search (the BTree's pages) — `SQ.hits`
  rust/lance-index/src/scalar/btree.rs        BTreeIndex::search = union over the candidate pages of the page search (the page
                                              pruning of BTreeLookup is not modelled: a leaf search is the set of matching entries)
  rust/lance-index/src/scalar/bitmap.rs       BitmapIndex::search (per-key bitmaps, null_map; an inverted / empty range selects no key) — `SQ.hits`
  rust/lance/src/io/exec/scalar_index.rs      ScalarIndexExec::fragments_covered_by_index_query — `covered`
  rust/lance/src/io/exec/filtered_read.rs     FilteredReadExec::{plan_scan, apply_index_to_fragment}: per fragment, an
                                              applicable fragment reads the rows the mask selects and applies the refine
                                              filter (Exact) / the full filter (AtMost) / reads everything with the full
                                              filter (AtLeast); any other fragment is scanned with the full filter — `scanIndexed`
  rust/lance/src/index.rs                     scalar_index_info (a column is indexed iff an index on it covers a fragment
                                              the table still has), load_scalar_index, optimize_indices / create_index
                                              (as "entries of every live row of the newly covered fragments")
  rust/lance-index/src/scalar/flat.rs         remap_batch (compaction remap of the index entries) — `Idx.remap`

Import-free apart from the query kit (`LanceModel.Query.Eval`: predicate grammar + three-valued `eval3`) and C21's model
(`RowIdTreeMap`, `RowIdMask`, the NOT / AND / OR tables of `ScalarIndexExpr::evaluate`).

Modelling choices
* A table state is the list of its live rows with their row addresses (scan order) — what a scan with `_rowaddr`
  returns.  Row ids are addresses (no stable row ids).  An index is its entry list (key, address) and its fragment bitmap.
* DataFusion's expression simplifier (`Planner::optimize_expr`) is NOT modelled: the planner functions below work on
  the expression they are given (the harness hands the model the simplified expression the real planner produced, and
  drives `apply_scalar_indices` directly with un-simplified trees as well).
* The physical layout (which fragment id / offsets an append, update or compaction produces) is not part of this model:
  the operations take the new addresses as arguments and check the side conditions they need (`step` returns `none`
  when one fails); the driver computes the addresses with C13's rules and the differential run compares the layout.
-/
namespace LanceModel.C19
open LanceModel.Query

/-! ## 1. sargable queries and index expressions -/

/-- `std::ops::Bound<ScalarValue>` over non-NULL Int64 literals -/
inductive Bd where
  | incl (v : Int)
  | excl (v : Int)
  | unb
  deriving DecidableEq, Repr

/-- `SargableQuery` (without FullTextSearch); literals are non-NULL: the parser refuses NULL literals -/
inductive SQ where
  | equals (v : Int)
  | range (lo hi : Bd)
  | isIn (vs : List Int)
  | isNull
  deriving DecidableEq, Repr

/-- `ScalarIndexExpr`; the index is named by its column (one index per column) -/
inductive IExpr where
  | query (col : Nat) (q : SQ)
  | not (e : IExpr)
  | and (a b : IExpr)
  | or (a b : IExpr)
  deriving DecidableEq, Repr

def Bd.loOk : Bd → Int → Bool
  | .incl v, x => decide (v ≤ x)
  | .excl v, x => decide (v < x)
  | .unb, _ => true

def Bd.hiOk : Bd → Int → Bool
  | .incl v, x => decide (x ≤ v)
  | .excl v, x => decide (x < v)
  | .unb, _ => true

/-- SQL meaning of a query on the indexed cell (`AnyQuery::to_expr` evaluated with three-valued logic) -/
def SQ.eval3 : SQ → Cell → Option Bool
  | .equals v, c => cmp3 .eq c (some v)
  | .range _ _, none => none
  | .range lo hi, some x => some (lo.loOk x && hi.hiOk x)
  | .isIn vs, c => in3 (vs.map some) c
  | .isNull, c => some c.isNone

/-- which index entries a leaf search returns.  FlatIndex::search: `eq` / `in_list` give NULL on a NULL key and the
    filter kernel drops NULL; range predicates are and-ed with `is_not_null`; IsNull is `is_null`.  BitmapIndex::search:
    NULL keys live in `null_map`, which only `IsNull` (and a NULL literal, which the parser never passes) reads. -/
def SQ.hits : SQ → Cell → Bool
  | .equals v, c => c == some v
  | .range _ _, none => false
  | .range lo hi, some x => lo.loOk x && hi.hiOk x
  | .isIn _, none => false
  | .isIn vs, some x => vs.contains x
  | .isNull, c => c.isNone

/-- SQL meaning of an index expression on a row -/
def IExpr.eval3 : IExpr → Row → Option Bool
  | .query c q, r => q.eval3 (cellAt r c)
  | .not e, r => not3 (e.eval3 r)
  | .and a b, r => and3 (a.eval3 r) (b.eval3 r)
  | .or a b, r => or3 (a.eval3 r) (b.eval3 r)

/-- what the index evaluation computes per row: leaves are two-valued ("is the row in the answer set"), NOT / AND / OR
    are complement / intersection / union of row sets -/
def IExpr.sel2 : IExpr → Row → Bool
  | .query c q, r => q.hits (cellAt r c)
  | .not e, r => !e.sel2 r
  | .and a b, r => a.sel2 r && b.sel2 r
  | .or a b, r => a.sel2 r || b.sel2 r

/-! ## 2. the planner: which part of a filter becomes an index query -/

/-- `IndexedExpression` as `visit_node` builds it: every node it returns carries an index query (`refine_only` is
    only built by `apply_scalar_indices`), so the `(None, _)` arms of maybe_not / and / maybe_or are unreachable -/
structure Indexed where
  sq : IExpr
  refine : Option Expr
  deriving DecidableEq, Repr

/-- SargableQueryParser::visit_comparison (`!=` builds the Equals query; the caller negates it) -/
def cmpQuery : Cmp → Int → SQ
  | .lt, v => .range .unb (.excl v)
  | .le, v => .range .unb (.incl v)
  | .gt, v => .range (.excl v) .unb
  | .ge, v => .range (.incl v) .unb
  | .eq, v => .equals v
  | .ne, v => .equals v

/-- IndexedExpression::maybe_not (exact indices: `needs_recheck` is false) -/
def Indexed.maybeNot (x : Indexed) : Option Indexed :=
  match x.refine with
  | some _ => none
  | none => some ⟨.not x.sq, none⟩

/-- IndexedExpression::and -/
def Indexed.and (x y : Indexed) : Indexed :=
  ⟨.and x.sq y.sq,
   match x.refine, y.refine with
   | some a, some b => some (.and a b)
   | some a, none => some a
   | none, some b => some b
   | none, none => none⟩

/-- IndexedExpression::maybe_or -/
def Indexed.maybeOr (x y : Indexed) : Option Indexed :=
  match x.refine, y.refine with
  | none, none => some ⟨.or x.sq y.sq, none⟩
  | _, _ => none

/-- IndexedExpression::refine -/
def Indexed.refineWith (x : Indexed) (e : Expr) : Indexed :=
  ⟨x.sq, match x.refine with
         | some r => some (.and r e)
         | none => some e⟩

/-- the `match (left_expr.op, right_expr.op)` table of maybe_range: `x op1 a AND x op2 b` as (low, high) -/
def rangeBounds : Cmp → Cmp → Int → Int → Option (Bd × Bd)
  | .ge, .le, a, b => some (.incl a, .incl b)
  | .ge, .lt, a, b => some (.incl a, .excl b)
  | .gt, .le, a, b => some (.excl a, .incl b)
  | .gt, .lt, a, b => some (.excl a, .excl b)
  | .le, .ge, a, b => some (.incl b, .incl a)
  | .le, .gt, a, b => some (.excl b, .incl a)
  | .lt, .ge, a, b => some (.incl b, .excl a)
  | .lt, .gt, a, b => some (.excl b, .excl a)
  | _, _, _, _ => none

/-- maybe_range: both sides comparisons of the same indexed column with literals -/
def maybeRange (ix : Nat → Bool) : Expr → Expr → Option Indexed
  | .cmp o1 c1 (.lit v1), .cmp o2 c2 (.lit v2) =>
    if ix c1 && c1 == c2 then
      match rangeBounds o1 o2 v1 v2 with
      | some (lo, hi) => some ⟨.query c1 (.range lo hi), none⟩
      | none => none
    else none
  | _, _ => none

/-- visit_node (`ix c` = column `c` has a usable index).  MAX_DEPTH (500) is not modelled. -/
def visitNode (ix : Nat → Bool) : Expr → Option Indexed
  | .tt => none
  | .ff => none
  | .cmp op c (.lit v) =>
    if ix c then
      (if op = .ne then (Indexed.mk (.query c (cmpQuery op v)) none).maybeNot
       else some ⟨.query c (cmpQuery op v), none⟩)
    else none
  | .cmp _ _ (.col _) => none
  | .isNull c => if ix c then some ⟨.query c .isNull, none⟩ else none
  | .notNull c => if ix c then (Indexed.mk (.query c .isNull) none).maybeNot else none
  | .inList c vs =>
    if ix c then (if vs.contains none then none else some ⟨.query c (.isIn (vs.filterMap id)), none⟩) else none
  | .between c lo hi => if ix c then some ⟨.query c (.range (.incl lo) (.incl hi)), none⟩ else none
  | .not e =>
    match visitNode ix e with
    | some x => x.maybeNot
    | none => none
  | .and a b =>
    match maybeRange ix a b with
    | some x => some x
    | none =>
      match visitNode ix a, visitNode ix b with
      | some x, some y => some (x.and y)
      | some x, none => some (x.refineWith b)
      | none, some y => some (y.refineWith a)
      | none, none => none
  | .or a b =>
    match visitNode ix a, visitNode ix b with
    | some x, some y => x.maybeOr y
    | _, _ => none

/-- `FilterPlan` (index_query, refine_expr); the full filter is the planner's input -/
structure Plan where
  sq : Option IExpr
  refine : Option Expr
  deriving DecidableEq, Repr

/-- apply_scalar_indices -/
def applyScalarIndices (ix : Nat → Bool) (e : Expr) : Plan :=
  match visitNode ix e with
  | some x => ⟨some x.sq, x.refine⟩
  | none => ⟨none, some e⟩

/-! ## 3. tables, indices, leaf search, evaluation -/

inductive Kind where
  | btree
  | bitmap
  deriving DecidableEq, Repr

/-- a scalar index on one column: (key, row address) entries and the fragment bitmap of the index metadata -/
structure Idx where
  col : Nat
  kind : Kind
  entries : List (Cell × Nat)
  frags : List Nat
  deriving DecidableEq, Repr

/-- table state: live rows with their addresses (scan order) and the indices (at most one per column) -/
structure St where
  rows : List (Nat × Row)
  idxs : List Idx
  deriving Repr

def fragOf (a : Nat) : Nat := C21.frag a

/-- the table still has fragment `f` (a fragment without live rows is dropped from the manifest) -/
def St.hasFrag (s : St) (f : Nat) : Bool := s.rows.any (fun p => fragOf p.1 == f)

/-- load_scalar_index / scalar_index_info: the index on `c`, provided its bitmap meets a fragment of the table -/
def St.index (s : St) (c : Nat) : Option Idx :=
  s.idxs.find? (fun i => i.col == c && i.frags.any s.hasFrag)

def St.ix (s : St) (c : Nat) : Bool := (s.index c).isSome

/-- `ScalarIndex::search`: the addresses of the entries whose key the query hits -/
def Idx.search (i : Idx) (q : SQ) : List Nat :=
  (i.entries.filter (fun e => q.hits e.1)).map (·.2)

/-- the `SearchResult::Exact(RowIdTreeMap)` of a leaf as the evaluation's leaf value -/
def leafRes (addrs : List Nat) : C21.Res :=
  .exact (C21.Mask.fromAllowed (C21.TreeMap.extendIds [] addrs))

inductive EvalErr where
  | noIndex
  deriving DecidableEq, Repr

/-- ScalarIndexExpr with the leaf searches done: C21's expression type -/
def toC21 (s : St) : IExpr → Except EvalErr C21.Expr
  | .query c q =>
    match s.index c with
    | none => .error .noIndex
    | some i => .ok (.leaf (leafRes (i.search q)))
  | .not e =>
    match toC21 s e with
    | .ok x => .ok (.not x)
    | .error e => .error e
  | .and a b =>
    match toC21 s a, toC21 s b with
    | .ok x, .ok y => .ok (.and x y)
    | .error e, _ => .error e
    | _, .error e => .error e
  | .or a b =>
    match toC21 s a, toC21 s b with
    | .ok x, .ok y => .ok (.or x y)
    | .error e, _ => .error e
    | _, .error e => .error e

/-- ScalarIndexExpr::evaluate -/
def evaluate (s : St) (e : IExpr) : Except EvalErr C21.Res :=
  match toC21 s e with
  | .ok x => .ok x.eval
  | .error e => .error e

/-- ScalarIndexExec::fragments_covered_by_index_query: AND and OR both intersect; `none` = every fragment
    (never returned for an expression with a leaf) -/
def covered (s : St) : IExpr → List Nat
  | .query c _ =>
    match s.index c with
    | some i => i.frags
    | none => []
  | .not e => covered s e
  | .and a b => (covered s a).filter (covered s b).contains
  | .or a b => (covered s a).filter (covered s b).contains

def optTrue : Option Expr → Row → Bool
  | none, _ => true
  | some e, r => isTrue e r

/-- FilteredReadExec: which live rows a scan with this plan returns.  `full` is the whole (simplified) filter. -/
def readRow (res : C21.Res) (cov : List Nat) (refine : Option Expr) (full : Expr) (p : Nat × Row) : Bool :=
  if cov.contains (fragOf p.1) then
    match res with
    | .exact m => m.selected p.1 && optTrue refine p.2
    | .atMost m => m.selected p.1 && isTrue full p.2
    | .atLeast _ => isTrue full p.2
  else isTrue full p.2

/-- scan with `use_scalar_index(true)` -/
def scanIndexed (s : St) (full : Expr) : Except EvalErr (List (Nat × Row)) :=
  match (applyScalarIndices s.ix full).sq with
  | none => .ok (s.rows.filter (fun p => isTrue full p.2))
  | some q =>
    match evaluate s q with
    | .ok res => .ok (s.rows.filter (readRow res (covered s q) (applyScalarIndices s.ix full).refine full))
    | .error e => .error e

/-- scan with `use_scalar_index(false)` -/
def scanPlain (s : St) (full : Expr) : List (Nat × Row) := s.rows.filter (fun p => isTrue full p.2)

/-! ## 4. histories -/

/-- flat.rs remap_batch: `mapping.get(old).copied().unwrap_or(Some(old))`, entries mapped to `None` are dropped -/
def remapAddr (m : List (Nat × Option Nat)) (a : Nat) : Option Nat :=
  match m.lookup a with
  | some x => x
  | none => some a

def Idx.remap (i : Idx) (m : List (Nat × Option Nat)) (olds news : List Nat) : Idx :=
  { i with
    entries := i.entries.filterMap (fun e => (remapAddr m e.2).map (fun a => (e.1, a))),
    -- recalculate_fragment_bitmap: a rewritten group the index covers is replaced by the new fragments
    frags := if olds.all i.frags.contains then i.frags.filter (fun f => !olds.contains f) ++ news
             else i.frags.filter (fun f => !olds.contains f) }

/-- entries of the live rows of the fragments `fs` for an index on column `c` (training / update input) -/
def entriesOf (rows : List (Nat × Row)) (c : Nat) (fs : List Nat) : List (Cell × Nat) :=
  (rows.filter (fun p => fs.contains (fragOf p.1))).map (fun p => (cellAt p.2 c, p.1))

def dedupNat : List Nat → List Nat
  | [] => []
  | a :: t => if (dedupNat t).contains a then dedupNat t else a :: dedupNat t

/-- ids of the fragments of the table -/
def fragsOf (rows : List (Nat × Row)) : List Nat := dedupNat (rows.map (fun p => fragOf p.1))

inductive Op where
  /-- Dataset::write(Append): the new rows with their (fresh) addresses -/
  | append (new : List (Nat × Row))
  /-- Dataset::delete(filter): the rows the filter scan returned (`hit` = their addresses) are deleted.  The scan of a
      delete / update uses the scalar indices like any other scan, so `hit` is what `scanIndexed` returns. -/
  | delete (hit : List Nat)
  /-- UpdateBuilder: the rows the filter scan returned are deleted and re-inserted with column `c` set, at the given
      addresses (one per row, in scan order) -/
  | update (c : Nat) (v : Cell) (hit : List Nat) (addrs : List Nat)
  /-- compact_files, one rewrite group: the live rows of the fragments `olds` move to the fragments `news`;
      `m` is the row address map handed to the index remapper (deleted physical rows map to `none`) -/
  | compact (olds news : List Nat) (m : List (Nat × Option Nat))
  /-- create_index(replace = true) -/
  | index (c : Nat) (k : Kind)
  /-- optimize_indices: every index is updated with the rows of the fragments it does not cover -/
  | optimize

def setCell (r : Row) (c : Nat) (v : Cell) : Row := r.set c v

/-- no address twice -/
def nodupB : List Nat → Bool
  | [] => true
  | a :: t => !t.contains a && nodupB t

/-- the side conditions under which `append` is what the real operation does: fresh fragments -/
def freshFrags (s : St) (new : List (Nat × Row)) : Bool :=
  new.all (fun p => !s.hasFrag (fragOf p.1) &&
    s.idxs.all (fun i => !i.frags.contains (fragOf p.1) && i.entries.all (fun e => fragOf e.2 != fragOf p.1)))
  && nodupB (new.map (·.1))

def St.appendRows (s : St) (new : List (Nat × Row)) : St := { s with rows := s.rows ++ new }

def St.deleteRows (s : St) (hit : List Nat) : St := { s with rows := s.rows.filter (fun q => !hit.contains q.1) }

/-- every live row of an old fragment is moved into a new fragment -/
def ckMoved (s : St) (olds news : List Nat) (m : List (Nat × Option Nat)) : Bool :=
  s.rows.all (fun p => !olds.contains (fragOf p.1) ||
    (match m.lookup p.1 with
     | some (some a) => news.contains (fragOf a)
     | _ => false))

/-- the map only talks about the old fragments and only targets the new ones -/
def ckKeys (olds news : List Nat) (m : List (Nat × Option Nat)) : Bool :=
  m.all (fun e => olds.contains (fragOf e.1) &&
    (match e.2 with
     | some a => news.contains (fragOf a)
     | none => true))

/-- the new fragments are fresh -/
def ckFresh (s : St) (olds news : List Nat) : Bool :=
  news.all (fun f => !olds.contains f && !s.hasFrag f &&
    s.idxs.all (fun i => !i.frags.contains f && i.entries.all (fun e => fragOf e.2 != f)))

/-- plan_compaction never bins fragments with different index coverage together -/
def ckBins (s : St) (olds : List Nat) : Bool :=
  s.idxs.all (fun i => olds.all i.frags.contains || olds.all (fun f => !i.frags.contains f))

/-- the map covers every physical row of the old fragments the indices know -/
def ckKnown (s : St) (olds : List Nat) (m : List (Nat × Option Nat)) : Bool :=
  s.idxs.all (fun i => i.entries.all (fun e => !olds.contains (fragOf e.2) || (m.lookup e.2).isSome))

def compactOk (s : St) (olds news : List Nat) (m : List (Nat × Option Nat)) : Bool :=
  ckMoved s olds news m && ckKeys olds news m && nodupB (m.filterMap (·.2)) && ckFresh s olds news
    && ckBins s olds && ckKnown s olds m

def insertRow (x : Nat × Row) : List (Nat × Row) → List (Nat × Row)
  | [] => [x]
  | y :: t => if x.1 ≤ y.1 then x :: y :: t else y :: insertRow x t

def sortRows (l : List (Nat × Row)) : List (Nat × Row) := l.foldr insertRow []

/-- the new manifest lists the fragments by id (`final_fragments.sort_by_key(id)`): scan order is address order -/
def St.compact (s : St) (olds news : List Nat) (m : List (Nat × Option Nat)) : St :=
  { rows := sortRows (s.rows.filterMap (fun p => (remapAddr m p.1).map (fun a => (a, p.2)))),
    idxs := s.idxs.map (fun i => i.remap m olds news) }

def St.createIndex (s : St) (c : Nat) (k : Kind) : St :=
  { s with idxs := s.idxs.filter (fun i => i.col != c) ++
      [{ col := c, kind := k, entries := entriesOf s.rows c (fragsOf s.rows), frags := fragsOf s.rows }] }

def Idx.optimize (rows : List (Nat × Row)) (i : Idx) : Idx :=
  { i with
    entries := i.entries ++ entriesOf rows i.col ((fragsOf rows).filter (fun f => !i.frags.contains f)),
    frags := i.frags ++ (fragsOf rows).filter (fun f => !i.frags.contains f) }

def St.optimize (s : St) : St := { s with idxs := s.idxs.map (Idx.optimize s.rows) }

/-- one operation; `none` when a side condition on the supplied addresses fails -/
def step (s : St) : Op → Option St
  | .append new => if freshFrags s new then some (s.appendRows new) else none
  | .delete hit => some (s.deleteRows hit)
  | .update c v hit addrs =>
    let old := s.rows.filter (fun q => hit.contains q.1)
    let new := List.zipWith (fun a q => (a, setCell q.2 c v)) addrs old
    if addrs.length == old.length && freshFrags (s.deleteRows hit) new then some ((s.deleteRows hit).appendRows new)
    else none
  | .compact olds news m => if compactOk s olds news m then some (s.compact olds news m) else none
  | .index c k => some (s.createIndex c k)
  | .optimize => some s.optimize

def run (s : St) : List Op → Option St
  | [] => some s
  | o :: os =>
    match step s o with
    | some s' => run s' os
    | none => none

/-- Dataset::write(Create) -/
def create (rows : List (Nat × Row)) : St := { rows := rows, idxs := [] }

end LanceModel.C19
