import LanceModel.C19.Driver
def main : IO Unit := LanceModel.Util.runDriver LanceModel.C19.Driver.step LanceModel.C19.Driver.init
