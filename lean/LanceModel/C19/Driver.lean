import LanceModel.Util
import LanceModel.Table.Basic
import LanceModel.C19.Model
/-
C19 driver: one output line per op line (grammar and output forms in harness/src/bin/c19.rs).

The model's operations take row addresses as arguments; this file keeps the physical layout (fragments with their
tombstoned rows, the next fragment id) and derives the addresses the real operations produce:
  create / append   one new fragment with the next id, offsets 0..n
  delete            tombstones; a fragment without live rows leaves the manifest
  update            the matching rows (scan order) move to one new fragment
  compact           compact_files(target = 2^20, materialize_deletions, threshold 0): every fragment is a candidate, bins
                    are the maximal runs of consecutive fragments with the same index coverage, a bin of one fragment
                    without deletions is skipped, every other bin is rewritten into ONE new fragment (LanceModel.C13's
                    `plan` for these options); the address map sends the live rows to the new offsets in order and the
                    deleted physical rows to `none`
Every mutation goes through `C19.step`, so a failed side condition shows up as `!precondition` in the output.
-/
namespace LanceModel.C19.Driver
open LanceModel.Util LanceModel.Query LanceModel.C19

structure DSt where
  started : Bool
  st : St
  /-- fragment id, physical rows (`none` = deleted), ascending ids -/
  phys : List (Nat × List (Option Row))
  next : Nat

def init : DSt := { started := false, st := { rows := [], idxs := [] }, phys := [], next := 0 }

def width : Nat := 3

def addr (f off : Nat) : Nat := f * 4294967296 + off

def zipIdxFrom {α : Type} : List α → Nat → List (Nat × α)
  | [], _ => []
  | a :: t, i => (i, a) :: zipIdxFrom t (i + 1)

/-! ### text -/

def showAddrs (l : List Nat) : String := showNatList (sortNat l)

def showBd : Bd → String
  | .incl v => "i" ++ toString v
  | .excl v => "e" ++ toString v
  | .unb => "u"

def showIE : IExpr → String
  | .query c (.equals v) => "q c" ++ toString c ++ " eq " ++ toString v
  | .query c (.range lo hi) => "q c" ++ toString c ++ " rg " ++ showBd lo ++ " " ++ showBd hi
  | .query c (.isIn vs) =>
    "q c" ++ toString c ++ " in " ++ (if vs.isEmpty then "-" else ",".intercalate (vs.map toString))
  | .query c .isNull => "q c" ++ toString c ++ " null"
  | .not e => "not " ++ showIE e
  | .and a b => "and " ++ showIE a ++ " " ++ showIE b
  | .or a b => "or " ++ showIE a ++ " " ++ showIE b

def parseBd (s : String) : Option Bd :=
  match s.toList with
  | ['u'] => some .unb
  | 'i' :: cs => (parseLit (String.ofList cs)).map .incl
  | 'e' :: cs => (parseLit (String.ofList cs)).map .excl
  | _ => none

def parseIE : Nat → List String → Option (IExpr × List String)
  | 0, _ => none
  | fuel + 1, toks =>
    match toks with
    | "q" :: c :: "eq" :: v :: rest =>
      match parseCol c, parseLit v with
      | some c, some v => some (.query c (.equals v), rest)
      | _, _ => none
    | "q" :: c :: "rg" :: lo :: hi :: rest =>
      match parseCol c, parseBd lo, parseBd hi with
      | some c, some lo, some hi => some (.query c (.range lo hi), rest)
      | _, _, _ => none
    | "q" :: c :: "in" :: vs :: rest =>
      match parseCol c, (if vs = "-" then some [] else (vs.splitOn ",").mapM parseLit) with
      | some c, some vs => some (.query c (.isIn vs), rest)
      | _, _ => none
    | "q" :: c :: "null" :: rest => (parseCol c).map fun c => (.query c .isNull, rest)
    | "not" :: rest =>
      match parseIE fuel rest with
      | some (e, rest) => some (.not e, rest)
      | none => none
    | "and" :: rest =>
      match parseIE fuel rest with
      | some (a, rest) =>
        match parseIE fuel rest with
        | some (b, rest) => some (.and a b, rest)
        | none => none
      | none => none
    | "or" :: rest =>
      match parseIE fuel rest with
      | some (a, rest) =>
        match parseIE fuel rest with
        | some (b, rest) => some (.or a b, rest)
        | none => none
      | none => none
    | _ => none

def showOptIE : Option IExpr → String
  | none => "-"
  | some e => showIE e

def showOptExpr : Option Expr → String
  | none => "-"
  | some e => showExpr e

def showKind : Kind → String
  | .btree => "btree"
  | .bitmap => "bitmap"

def insertIdx (x : Idx) : List Idx → List Idx
  | [] => [x]
  | y :: t => if x.col ≤ y.col then x :: y :: t else y :: insertIdx x t

def showIdxs (l : List Idx) : String :=
  if l.isEmpty then "-" else
  "|".intercalate ((l.foldr insertIdx []).map fun i =>
    toString i.col ++ ":" ++ showKind i.kind ++ ":" ++ showNatList (sortNat i.frags))

def dump (d : DSt) : String :=
  "ok rows=" ++ Table.showRows ((sortRows d.st.rows).map fun p => some (Int.ofNat p.1) :: p.2) ++ " idx=" ++ showIdxs d.st.idxs

def splitArrow : List String → List String → Option (List String × List String)
  | _, [] => none
  | acc, "=>" :: rest => some (acc.reverse, rest)
  | acc, t :: rest => splitArrow (t :: acc) rest

def colsOk (e : Expr) : Bool := e.colsBelow width

/-! ### layout -/

def liveOf (phys : List (Nat × List (Option Row))) : List (Nat × Row) :=
  phys.flatMap fun f => (zipIdxFrom f.2 0).filterMap fun (o, r) => r.map fun r => (addr f.1 o, r)

/-- the model state and the layout agree on the live rows -/
def inSync (d : DSt) : Bool := sortRows d.st.rows == liveOf d.phys

def tombstone (hit : List Nat) (phys : List (Nat × List (Option Row))) : List (Nat × List (Option Row)) :=
  (phys.map fun f => (f.1, (zipIdxFrom f.2 0).map fun (o, r) =>
    match r with
    | some r => if hit.contains (addr f.1 o) then none else some r
    | none => none)).filter fun f => f.2.any Option.isSome

/-- the rows the filter scan of a delete / update selects: the scan uses the scalar indices (on the simplified filter
    when the op line carries one) -/
def selectHit (d : DSt) (e : Expr) (opt : Option Expr) : List Nat :=
  match opt with
  | none => (scanPlain d.st e).map (·.1)
  | some o =>
    match scanIndexed d.st o with
    | .ok rows => rows.map (·.1)
    | .error _ => []

def parsePredOpt (toks : List String) : Option (Expr × Option Expr) :=
  match splitArrow [] toks with
  | some (a, b) =>
    match parseExprAll a, (if b = ["?"] then some none else (parseExprAll b).map some) with
    | some e, some o => if colsOk e && (match o with | some o => colsOk o | none => true) then some (e, o) else none
    | _, _ => none
  | none => none

def coverage (idxs : List Idx) (f : Nat) : List Nat :=
  (idxs.filter fun i => i.frags.contains f).map (·.col)

/-- maximal runs of consecutive fragments with the same index coverage -/
def binsFrom (idxs : List Idx) : Option (List (Nat × List (Option Row))) → List (Nat × List (Option Row)) →
    List (List (Nat × List (Option Row)))
  | none, [] => []
  | some b, [] => [b]
  | none, f :: fs => binsFrom idxs (some [f]) fs
  | some b, f :: fs =>
    match b with
    | [] => binsFrom idxs (some [f]) fs
    | g :: _ =>
      if coverage idxs g.1 = coverage idxs f.1 then binsFrom idxs (some (b ++ [f])) fs
      else b :: binsFrom idxs (some [f]) fs

def binIsNoop (b : List (Nat × List (Option Row))) : Bool :=
  match b with
  | [f] => f.2.all Option.isSome
  | [] => true
  | _ => false

/-- the row address map of one rewrite group: live rows to the new offsets in order, deleted rows to `none` -/
def groupMap (b : List (Nat × List (Option Row))) (new : Nat) : List (Nat × Option Nat) :=
  let all := b.flatMap fun f => (zipIdxFrom f.2 0).map fun (o, r) => (addr f.1 o, r.isSome)
  (all.foldl (fun (acc : List (Nat × Option Nat) × Nat) e =>
    if e.2 then (acc.1 ++ [(e.1, some (addr new acc.2))], acc.2 + 1) else (acc.1 ++ [(e.1, none)], acc.2)) ([], 0)).1

def insertFrag (x : Nat × List (Option Row)) : List (Nat × List (Option Row)) → List (Nat × List (Option Row))
  | [] => [x]
  | y :: t => if x.1 ≤ y.1 then x :: y :: t else y :: insertFrag x t

/-- apply the bins one after the other; `none` = a side condition of the model failed -/
def compactBins : List (List (Nat × List (Option Row))) → DSt → Option DSt
  | [], d => some d
  | b :: bs, d =>
    if binIsNoop b then compactBins bs d else
    let olds := b.map (·.1)
    let new := d.next
    match step d.st (.compact olds [new] (groupMap b new)) with
    | none => none
    | some st' =>
      let live : List (Option Row) := (b.flatMap fun f => f.2.filter Option.isSome)
      compactBins bs { d with st := st', next := new + 1,
                              phys := insertFrag (new, live) (d.phys.filter fun f => !olds.contains f.1) }

/-! ### one op line -/

def rowsOk (rs : List Table.Row) : Bool := !rs.isEmpty && rs.all (fun r => r.length == width)

def finish (d : DSt) (r : Option DSt) : DSt × String :=
  match r with
  | none => (d, "!precondition")
  | some d' => if inSync d' then (d', dump d') else (d', "!desync " ++ dump d')

def scanLine (d : DSt) (e : Expr) (opt : Option Expr) : String :=
  let plain := (scanPlain d.st e).map (·.1)
  match opt with
  | none => "ok opt=? plain=" ++ showAddrs plain
  | some o =>
    let plan := applyScalarIndices d.st.ix o
    match scanIndexed d.st o with
    | .ok rows =>
      "ok opt=" ++ showExpr o ++ " sq=[" ++ showOptIE plan.sq ++ "] refine=[" ++ showOptExpr plan.refine ++ "] idx=" ++
        showAddrs (rows.map (·.1)) ++ " plain=" ++ showAddrs plain
    | .error _ => "err other"

def ievalLine (d : DSt) (q : IExpr) : String :=
  match evaluate d.st q with
  | .error _ => "err"
  | .ok res =>
    let kind := match res with
      | .exact _ => "exact"
      | .atMost _ => "atmost"
      | .atLeast _ => "atleast"
    "ok " ++ kind ++ " sel=" ++ showAddrs ((d.st.rows.filter fun p => res.mask.selected p.1).map (·.1))

def indexLine (d : DSt) (c k : String) : DSt × String :=
  match parseCol c, (if k = "btree" then some Kind.btree else if k = "bitmap" then some Kind.bitmap else none) with
  | some c, some k =>
    if !decide (c < width) then (d, "err parse")
    else if !d.started then (d, "err not_found")
    else finish d ((C19.step d.st (.index c k)).map fun st' => { d with st := st' })
  | _, _ => (d, "err parse")

def step (d : DSt) (line : String) : DSt × String :=
  let toks := (line.dropRightWhile (· == '\n')).splitOn " "
  if toks.any (· == "") then (d, "err parse") else
  match toks with
  | ["create", rs] =>
    match Table.parseRows rs with
    | some rows =>
      if !rowsOk rows then (d, "err parse")
      else if d.started then (d, "err already_exists")
      else
        let d' : DSt := { started := true, phys := [(0, rows.map some)], next := 1,
                          st := create ((zipIdxFrom rows 0).map fun (o, r) => (addr 0 o, r)) }
        finish d (some d')
    | none => (d, "err parse")
  | ["append", rs] =>
    match Table.parseRows rs with
    | some rows =>
      if !rowsOk rows then (d, "err parse")
      else if !d.started then (d, "err not_found")
      else
        let new := (zipIdxFrom rows 0).map fun (o, r) => (addr d.next o, r)
        finish d ((C19.step d.st (.append new)).map fun st' =>
          { d with st := st', phys := d.phys ++ [(d.next, rows.map some)], next := d.next + 1 })
    | none => (d, "err parse")
  | "delete" :: rest =>
    match parsePredOpt rest with
    | some (e, o) =>
      if !d.started then (d, "err not_found")
      else
        let hit := selectHit d e o
        finish d ((C19.step d.st (.delete hit)).map fun st' => { d with st := st', phys := tombstone hit d.phys })
    | none => (d, "err parse")
  | "update" :: c :: v :: rest =>
    match parseCol c, Table.parseCell v, parsePredOpt rest with
    | some c, some v, some (e, o) =>
      if !decide (c < width) then (d, "err parse")
      else if !d.started then (d, "err not_found")
      else
        let hitA := selectHit d e o
        let hit := (liveOf d.phys).filter fun p => hitA.contains p.1
        if hit.isEmpty then finish d (some d) else
        let addrs := (zipIdxFrom hit 0).map fun (o, _) => addr d.next o
        finish d ((C19.step d.st (.update c v hitA addrs)).map fun st' =>
          { d with st := st', next := d.next + 1,
                   phys := tombstone hitA d.phys ++ [(d.next, hit.map fun p => some (setCell p.2 c v))] })
    | _, _, _ => (d, "err parse")
  | ["compact"] =>
    if !d.started then (d, "err not_found")
    else finish d (compactBins (binsFrom d.st.idxs none d.phys) d)
  | ["optimize"] =>
    if !d.started then (d, "err not_found")
    else finish d ((C19.step d.st .optimize).map fun st' => { d with st := st' })
  | ["index", c, k] => indexLine d c k
  | ["index", c, "btree", z] =>
    -- `z<n>`: zone size of the BTree (pages of n rows); the model's leaf search does not depend on it
    match z.toList with
    | 'z' :: ds =>
      match (if ds.length > 4 then none else Table.parseNatChars ds) with
      | some n => if n ≥ 1 then indexLine d c "btree" else (d, "err parse")
      | none => (d, "err parse")
    | _ => (d, "err parse")
  | "plan" :: cols :: rest =>
    match parseNatList cols, parseExprAll rest with
    | some cols, some e =>
      if !(colsOk e && cols.all (fun c => decide (c < width))) || rest.isEmpty then (d, "err parse")
      else
        let plan := applyScalarIndices (fun c => cols.contains c) e
        (d, "ok sq=[" ++ showOptIE plan.sq ++ "] refine=[" ++ showOptExpr plan.refine ++ "]")
    | _, _ => (d, "err parse")
  | "scan" :: rest =>
    match parsePredOpt rest with
    | some (e, o) => if !d.started then (d, "err not_found") else (d, scanLine d e o)
    | none => (d, "err parse")
  | "ieval" :: rest =>
    match parseIE (rest.length + 1) rest with
    | some (q, []) => if !d.started then (d, "err not_found") else (d, ievalLine d q)
    | _ => (d, "err parse")
  | _ => (d, "err parse")

end LanceModel.C19.Driver
