import LanceModel.C19.EvalLemmas
/-!
C19 helper lemmas, part 3: every history operation keeps the index invariant `Inv`.
-/
namespace LanceModel.C19
open LanceModel.Query

theorem nodupB_nodup (l : List Nat) (h : nodupB l = true) : l.Nodup := by
  induction l with
  | nil => exact List.nodup_nil
  | cons a t ih =>
    simp only [nodupB, Bool.and_eq_true, Bool.not_eq_true', List.contains_eq_mem, decide_eq_false_iff_not] at h
    exact List.nodup_cons.mpr ⟨h.1, ih h.2⟩

theorem mem_dedupNat (l : List Nat) : ∀ x, x ∈ dedupNat l ↔ x ∈ l := by
  induction l with
  | nil => intro x; simp [dedupNat]
  | cons a t ih =>
    intro x
    simp only [dedupNat]
    split
    · rename_i h
      simp only [List.contains_iff_mem] at h
      have ha : a ∈ t := (ih a).mp h
      simp only [ih, List.mem_cons]
      constructor
      · exact Or.inr
      · rintro (rfl | h')
        · exact ha
        · exact h'
    · simp [ih]

theorem mem_fragsOf (rows : List (Nat × Row)) (f : Nat) : f ∈ fragsOf rows ↔ ∃ p ∈ rows, fragOf p.1 = f := by
  simp [fragsOf, mem_dedupNat]

theorem hasFrag_iff (s : St) (f : Nat) : s.hasFrag f = true ↔ ∃ p ∈ s.rows, fragOf p.1 = f := by
  simp [St.hasFrag]

/-- unique addresses: a live row is determined by its address -/
theorem row_unique (rows : List (Nat × Row)) (h : (rows.map (·.1)).Nodup) (p q : Nat × Row)
    (hp : p ∈ rows) (hq : q ∈ rows) (he : p.1 = q.1) : p = q := by
  induction rows with
  | nil => cases hp
  | cons x t ih =>
    simp only [List.map_cons, List.nodup_cons, List.mem_map, not_exists, not_and] at h
    rcases List.mem_cons.mp hp with rfl | hp' <;> rcases List.mem_cons.mp hq with rfl | hq'
    · rfl
    · exact absurd he.symm (h.1 q hq')
    · exact absurd he (h.1 p hp')
    · exact ih h.2 hp' hq'

/-! ### create, append, delete, update -/

theorem create_inv (rows : List (Nat × Row)) (h : nodupB (rows.map (·.1)) = true) : Inv (create rows) :=
  ⟨nodupB_nodup _ h, by intro i hi; cases hi⟩

theorem freshFrags_spec (s : St) (new : List (Nat × Row)) (h : freshFrags s new = true) :
    (∀ p ∈ new, s.hasFrag (fragOf p.1) = false ∧
      ∀ i ∈ s.idxs, fragOf p.1 ∉ i.frags ∧ ∀ e ∈ i.entries, fragOf e.2 ≠ fragOf p.1) ∧
    (new.map (·.1)).Nodup := by
  simp only [freshFrags, Bool.and_eq_true, List.all_eq_true, Bool.not_eq_true', List.contains_eq_mem,
    decide_eq_false_iff_not, bne_iff_ne, ne_eq] at h
  exact ⟨fun p hp => ⟨(h.1 p hp).1, fun i hi => (h.1 p hp).2 i hi⟩, nodupB_nodup _ h.2⟩

theorem append_inv (s : St) (new : List (Nat × Row)) (hinv : Inv s) (h : freshFrags s new = true) :
    Inv (s.appendRows new) := by
  obtain ⟨hf, hn⟩ := freshFrags_spec s new h
  refine ⟨?_, ?_⟩
  · simp only [St.appendRows, List.map_append]
    refine List.nodup_append.mpr ⟨hinv.1, hn, ?_⟩
    intro a ha b hb hab
    subst hab
    obtain ⟨p, hp, rfl⟩ := List.mem_map.mp ha
    obtain ⟨q, hq, hqa⟩ := List.mem_map.mp hb
    have := (hf q hq).1
    have h2 : s.hasFrag (fragOf q.1) = true := (hasFrag_iff s _).mpr ⟨p, hp, by rw [hqa]⟩
    simp [h2] at this
  · intro i hi
    obtain ⟨hc, hs, hcov⟩ := hinv.2 i hi
    refine ⟨?_, ?_, hcov⟩
    · intro p hp hfr
      simp only [St.appendRows, List.mem_append] at hp
      rcases hp with hp | hp
      · exact hc p hp hfr
      · exact absurd hfr ((hf p hp).2 i hi).1
    · intro e he p hp hpe hfr
      simp only [St.appendRows, List.mem_append] at hp
      rcases hp with hp | hp
      · exact hs e he p hp hpe hfr
      · exact absurd hfr ((hf p hp).2 i hi).1

theorem delete_inv (s : St) (hit : List Nat) (hinv : Inv s) : Inv (s.deleteRows hit) := by
  refine ⟨?_, ?_⟩
  · exact List.Nodup.sublist (List.Sublist.map _ List.filter_sublist) hinv.1
  · intro i hi
    obtain ⟨hc, hs, hcov⟩ := hinv.2 i hi
    refine ⟨?_, ?_, hcov⟩
    · intro q hq hfr
      exact hc q (List.mem_filter.mp hq).1 hfr
    · intro e he q hq hqe hfr
      exact hs e he q (List.mem_filter.mp hq).1 hqe hfr

/-! ### create_index, optimize_indices -/

theorem mem_entriesOf (rows : List (Nat × Row)) (c : Nat) (fs : List Nat) (e : Cell × Nat) :
    e ∈ entriesOf rows c fs ↔ ∃ p ∈ rows, fragOf p.1 ∈ fs ∧ e = (cellAt p.2 c, p.1) := by
  simp only [entriesOf, List.mem_map, List.mem_filter, List.contains_iff_mem]
  constructor
  · rintro ⟨p, ⟨hp, hf⟩, rfl⟩; exact ⟨p, hp, hf, rfl⟩
  · rintro ⟨p, hp, hf, rfl⟩; exact ⟨p, ⟨hp, hf⟩, rfl⟩

theorem createIndex_inv (s : St) (c : Nat) (k : Kind) (hinv : Inv s) : Inv (s.createIndex c k) := by
  refine ⟨hinv.1, ?_⟩
  intro i hi
  simp only [St.createIndex, List.mem_append, List.mem_filter, List.mem_singleton] at hi
  rcases hi with hi | rfl
  · exact hinv.2 i hi.1
  · refine ⟨?_, ?_, ?_⟩
    · intro p hp hfr
      exact (mem_entriesOf _ _ _ _).mpr ⟨p, hp, hfr, rfl⟩
    · intro e he p hp hpe _
      obtain ⟨q, hq, _, rfl⟩ := (mem_entriesOf _ _ _ _).mp he
      have := row_unique s.rows hinv.1 p q hp hq hpe
      subst this; rfl
    · intro e he
      obtain ⟨q, hq, hf, rfl⟩ := (mem_entriesOf _ _ _ _).mp he
      exact hf

theorem optimize_inv (s : St) (hinv : Inv s) : Inv s.optimize := by
  refine ⟨hinv.1, ?_⟩
  intro i' hi'
  simp only [St.optimize, List.mem_map] at hi'
  obtain ⟨i, hi, rfl⟩ := hi'
  obtain ⟨hc, hs, hcov⟩ := hinv.2 i hi
  refine ⟨?_, ?_, ?_⟩
  · intro p hp hfr
    simp only [Idx.optimize, List.mem_append] at hfr ⊢
    rcases hfr with hfr | hfr
    · exact Or.inl (hc p hp hfr)
    · exact Or.inr ((mem_entriesOf _ _ _ _).mpr ⟨p, hp, hfr, rfl⟩)
  · intro e he p hp hpe _
    simp only [Idx.optimize, List.mem_append] at he
    rcases he with he | he
    · have := hcov e he
      exact hs e he p hp hpe (by rw [hpe]; exact this)
    · obtain ⟨q, hq, _, rfl⟩ := (mem_entriesOf _ _ _ _).mp he
      have := row_unique s.rows hinv.1 p q hp hq hpe
      subst this; rfl
  · intro e he
    simp only [Idx.optimize, List.mem_append] at he ⊢
    rcases he with he | he
    · exact Or.inl (hcov e he)
    · obtain ⟨q, hq, hf, rfl⟩ := (mem_entriesOf _ _ _ _).mp he
      exact Or.inr hf

/-! ### compaction -/

theorem lookup_mem (m : List (Nat × Option Nat)) (a : Nat) (v : Option Nat) (h : m.lookup a = some v) :
    (a, v) ∈ m := by
  induction m with
  | nil => simp at h
  | cons x t ih =>
    obtain ⟨k, w⟩ := x
    simp only [List.lookup_cons] at h
    split at h
    · rename_i hk
      simp only [beq_iff_eq] at hk
      simp only [Option.some.injEq] at h
      subst hk; subst h
      exact List.mem_cons_self
    · exact List.mem_cons_of_mem _ (ih h)

/-- two entries of the address map with the same target are the same entry -/
theorem target_unique (m : List (Nat × Option Nat)) (h : (m.filterMap (·.2)).Nodup) (a b x : Nat)
    (ha : (a, some x) ∈ m) (hb : (b, some x) ∈ m) : a = b := by
  induction m with
  | nil => cases ha
  | cons e t ih =>
    obtain ⟨k, w⟩ := e
    cases w with
    | none =>
      simp only [List.filterMap_cons] at h
      rcases List.mem_cons.mp ha with ha | ha
      · cases ha
      · rcases List.mem_cons.mp hb with hb | hb
        · cases hb
        · exact ih h ha hb
    | some y =>
      simp only [List.filterMap_cons, List.nodup_cons, List.mem_filterMap, not_exists, not_and] at h
      have ha' := List.mem_cons.mp ha
      have hb' := List.mem_cons.mp hb
      rcases ha' with ha1 | ha1
      · rcases hb' with hb1 | hb1
        · cases ha1; cases hb1; rfl
        · cases ha1
          exact absurd rfl (h.1 (b, some x) hb1)
      · rcases hb' with hb1 | hb1
        · cases hb1
          exact absurd rfl (h.1 (a, some x) ha1)
        · exact ih h.2 ha1 hb1

structure CompactFacts (s : St) (olds news : List Nat) (m : List (Nat × Option Nat)) : Prop where
  moved : ∀ p ∈ s.rows, fragOf p.1 ∈ olds → ∃ a, m.lookup p.1 = some (some a) ∧ fragOf a ∈ news
  keys : ∀ e ∈ m, fragOf e.1 ∈ olds ∧ ∀ a, e.2 = some a → fragOf a ∈ news
  targets : (m.filterMap (·.2)).Nodup
  fresh : ∀ f ∈ news, f ∉ olds ∧ s.hasFrag f = false ∧
    ∀ i ∈ s.idxs, f ∉ i.frags ∧ ∀ e ∈ i.entries, fragOf e.2 ≠ f
  bins : ∀ i ∈ s.idxs, (∀ f ∈ olds, f ∈ i.frags) ∨ (∀ f ∈ olds, f ∉ i.frags)
  known : ∀ i ∈ s.idxs, ∀ e ∈ i.entries, fragOf e.2 ∈ olds → (m.lookup e.2).isSome = true

theorem compactOk_spec (s : St) (olds news : List Nat) (m : List (Nat × Option Nat))
    (h : compactOk s olds news m = true) : CompactFacts s olds news m := by
  simp only [compactOk, Bool.and_eq_true] at h
  obtain ⟨⟨⟨⟨⟨h1, h2⟩, h3⟩, h4⟩, h5⟩, h6⟩ := h
  refine ⟨?_, ?_, nodupB_nodup _ h3, ?_, ?_, ?_⟩
  · intro p hp hf
    simp only [ckMoved, List.all_eq_true] at h1
    have := h1 p hp
    simp only [Bool.or_eq_true, Bool.not_eq_true', List.contains_eq_mem, decide_eq_false_iff_not] at this
    rcases this with hn | hl
    · exact absurd hf hn
    · split at hl
      · rename_i a hla
        exact ⟨a, hla, by simpa using hl⟩
      · simp at hl
  · intro e he
    simp only [ckKeys, List.all_eq_true] at h2
    have := h2 e he
    simp only [Bool.and_eq_true, List.contains_eq_mem, decide_eq_true_eq] at this
    refine ⟨this.1, ?_⟩
    intro a ha
    have h2' := this.2
    rw [ha] at h2'
    simpa using h2'
  · intro f hf
    simp only [ckFresh, List.all_eq_true] at h4
    have := h4 f hf
    simp only [Bool.and_eq_true, Bool.not_eq_true', List.contains_eq_mem, decide_eq_false_iff_not,
      List.all_eq_true, bne_iff_ne, ne_eq] at this
    exact ⟨this.1.1, this.1.2, fun i hi => this.2 i hi⟩
  · intro i hi
    simp only [ckBins, List.all_eq_true] at h5
    have := h5 i hi
    simp only [Bool.or_eq_true, List.all_eq_true, List.contains_eq_mem, decide_eq_true_eq, Bool.not_eq_true',
      decide_eq_false_iff_not] at this
    exact this
  · intro i hi e he hf
    simp only [ckKnown, List.all_eq_true] at h6
    have := h6 i hi e he
    simp only [Bool.or_eq_true, Bool.not_eq_true', List.contains_eq_mem, decide_eq_false_iff_not] at this
    rcases this with hn | hs
    · exact absurd hf hn
    · exact hs

/-- an address the remap may see: not in a new fragment, and known to the map when it is in an old fragment -/
def Admissible (olds news : List Nat) (m : List (Nat × Option Nat)) (a : Nat) : Prop :=
  fragOf a ∉ news ∧ (fragOf a ∈ olds → (m.lookup a).isSome = true)

theorem remap_inj {s : St} {olds news : List Nat} {m : List (Nat × Option Nat)} (F : CompactFacts s olds news m)
    (a b x : Nat) (ha : Admissible olds news m a) (hb : Admissible olds news m b)
    (h1 : remapAddr m a = some x) (h2 : remapAddr m b = some x) : a = b := by
  unfold remapAddr at h1 h2
  cases la : m.lookup a with
  | none =>
    simp only [la, Option.some.injEq] at h1
    subst h1
    cases lb : m.lookup b with
    | none =>
      simp only [lb, Option.some.injEq] at h2
      exact h2.symm
    | some w =>
      simp only [lb] at h2
      subst h2
      have := (F.keys _ (lookup_mem m b _ lb)).2 a rfl
      exact absurd this ha.1
  | some v =>
    simp only [la] at h1
    subst h1
    have hax := lookup_mem m a _ la
    cases lb : m.lookup b with
    | none =>
      simp only [lb, Option.some.injEq] at h2
      subst h2
      have := (F.keys _ hax).2 b rfl
      exact absurd this hb.1
    | some w =>
      simp only [lb] at h2
      subst h2
      exact target_unique m F.targets a b x hax (lookup_mem m b _ lb)

theorem row_admissible {s : St} {olds news : List Nat} {m : List (Nat × Option Nat)} (F : CompactFacts s olds news m)
    (p : Nat × Row) (hp : p ∈ s.rows) : Admissible olds news m p.1 := by
  refine ⟨?_, ?_⟩
  · intro hn
    have := (F.fresh _ hn).2.1
    have h2 : s.hasFrag (fragOf p.1) = true := (hasFrag_iff s _).mpr ⟨p, hp, rfl⟩
    simp [h2] at this
  · intro ho
    obtain ⟨a, ha, _⟩ := F.moved p hp ho
    simp [ha]

theorem entry_admissible {s : St} {olds news : List Nat} {m : List (Nat × Option Nat)} (F : CompactFacts s olds news m)
    (i : Idx) (hi : i ∈ s.idxs) (e : Cell × Nat) (he : e ∈ i.entries) : Admissible olds news m e.2 := by
  refine ⟨?_, ?_⟩
  · intro hn
    exact ((F.fresh _ hn).2.2 i hi).2 e he rfl
  · intro ho
    exact F.known i hi e he ho

theorem insertRow_perm (x : Nat × Row) (l : List (Nat × Row)) : (insertRow x l).Perm (x :: l) := by
  induction l with
  | nil => exact List.Perm.refl _
  | cons y t ih =>
    simp only [insertRow]
    split
    · exact List.Perm.refl _
    · exact (List.Perm.cons y ih).trans (List.Perm.swap x y t)

theorem sortRows_perm (l : List (Nat × Row)) : (sortRows l).Perm l := by
  induction l with
  | nil => exact List.Perm.refl _
  | cons a t ih =>
    simp only [sortRows, List.foldr_cons]
    exact (insertRow_perm a _).trans (List.Perm.cons a ih)

theorem mem_compact_rows (s : St) (olds news : List Nat) (m : List (Nat × Option Nat)) (q : Nat × Row) :
    q ∈ (s.compact olds news m).rows ↔ ∃ p ∈ s.rows, remapAddr m p.1 = some q.1 ∧ q.2 = p.2 := by
  simp only [St.compact, (sortRows_perm _).mem_iff, List.mem_filterMap, Option.map_eq_some_iff]
  constructor
  · rintro ⟨p, hp, a, ha, rfl⟩; exact ⟨p, hp, ha, rfl⟩
  · rintro ⟨p, hp, ha, hq⟩
    exact ⟨p, hp, q.1, ha, by rw [← hq]⟩

theorem compact_nodup {s : St} {olds news : List Nat} {m : List (Nat × Option Nat)} (F : CompactFacts s olds news m)
    (hn : (s.rows.map (·.1)).Nodup) : ((s.compact olds news m).rows.map (·.1)).Nodup := by
  have key : ∀ (l : List (Nat × Row)), (∀ p ∈ l, p ∈ s.rows) → (l.map (·.1)).Nodup →
      ((l.filterMap (fun p => (remapAddr m p.1).map (fun a => (a, p.2)))).map (·.1)).Nodup := by
    intro l
    induction l with
    | nil => intro _ _; exact List.nodup_nil
    | cons x t ih =>
      intro hsub hnd
      simp only [List.map_cons, List.nodup_cons] at hnd
      have iht := ih (fun p hp => hsub p (List.mem_cons_of_mem _ hp)) hnd.2
      simp only [List.filterMap_cons]
      cases hx : remapAddr m x.1 with
      | none => simpa [hx] using iht
      | some a =>
        simp only [hx, Option.map_some, List.map_cons, List.nodup_cons]
        refine ⟨?_, iht⟩
        intro hmem
        obtain ⟨q, hq, hqa⟩ := List.mem_map.mp hmem
        obtain ⟨p, hp, hpa⟩ := List.mem_filterMap.mp hq
        obtain ⟨a', ha', rfl⟩ := Option.map_eq_some_iff.mp hpa
        simp only at hqa
        subst hqa
        have := remap_inj F x.1 p.1 a' (row_admissible F x (hsub x List.mem_cons_self))
          (row_admissible F p (hsub p (List.mem_cons_of_mem _ hp))) hx ha'
        exact hnd.1 (List.mem_map.mpr ⟨p, hp, this.symm⟩)
  have hp := (sortRows_perm (s.rows.filterMap (fun p => (remapAddr m p.1).map (fun a => (a, p.2))))).map (·.1)
  exact hp.nodup_iff.mpr (key s.rows (fun _ h => h) hn)

theorem mem_remap_frags (i : Idx) (m : List (Nat × Option Nat)) (olds news : List Nat) (f : Nat) :
    f ∈ (i.remap m olds news).frags ↔
      (f ∈ i.frags ∧ f ∉ olds) ∨ ((∀ o ∈ olds, o ∈ i.frags) ∧ f ∈ news) := by
  simp only [Idx.remap]
  split
  · rename_i hall
    simp only [List.all_eq_true, List.contains_iff_mem] at hall
    simp only [List.mem_append, List.mem_filter, Bool.not_eq_true', List.contains_eq_mem, decide_eq_false_iff_not]
    constructor
    · rintro (h | h)
      · exact Or.inl h
      · exact Or.inr ⟨hall, h⟩
    · rintro (h | h)
      · exact Or.inl h
      · exact Or.inr h.2
  · rename_i hall
    simp only [List.all_eq_true, List.contains_iff_mem] at hall
    simp only [List.mem_filter, Bool.not_eq_true', List.contains_eq_mem, decide_eq_false_iff_not]
    constructor
    · intro h; exact Or.inl h
    · rintro (h | h)
      · exact h
      · exact absurd h.1 hall

theorem mem_remap_entries (i : Idx) (m : List (Nat × Option Nat)) (olds news : List Nat) (e' : Cell × Nat) :
    e' ∈ (i.remap m olds news).entries ↔ ∃ e ∈ i.entries, remapAddr m e.2 = some e'.2 ∧ e'.1 = e.1 := by
  simp only [Idx.remap, List.mem_filterMap, Option.map_eq_some_iff]
  constructor
  · rintro ⟨e, he, a, ha, rfl⟩; exact ⟨e, he, ha, rfl⟩
  · rintro ⟨e, he, ha, hk⟩
    exact ⟨e, he, e'.2, ha, by rw [← hk]⟩

theorem compact_inv (s : St) (olds news : List Nat) (m : List (Nat × Option Nat)) (hinv : Inv s)
    (h : compactOk s olds news m = true) : Inv (s.compact olds news m) := by
  have F := compactOk_spec s olds news m h
  refine ⟨compact_nodup F hinv.1, ?_⟩
  intro i' hi'
  have : ∃ i ∈ s.idxs, i' = i.remap m olds news := by
    simp only [St.compact, List.mem_map] at hi'
    obtain ⟨i, hi, rfl⟩ := hi'
    exact ⟨i, hi, rfl⟩
  obtain ⟨i, hi, rfl⟩ := this
  obtain ⟨hc, hs, hcov⟩ := hinv.2 i hi
  have hcol : (i.remap m olds news).col = i.col := rfl
  refine ⟨?_, ?_, ?_⟩
  · -- complete
    intro q hq hfr
    obtain ⟨p, hp, hpa, hq2⟩ := (mem_compact_rows s olds news m q).mp hq
    rw [mem_remap_frags] at hfr
    rw [mem_remap_entries, hcol, hq2]
    have hadm := row_admissible F p hp
    cases lp : m.lookup p.1 with
    | none =>
      have hqp : q.1 = p.1 := by simp [remapAddr, lp] at hpa; exact hpa.symm
      have hfrag : fragOf p.1 ∈ i.frags := by
        rcases hfr with hfr | hfr
        · rw [hqp] at hfr; exact hfr.1
        · rw [hqp] at hfr; exact absurd hfr.2 hadm.1
      exact ⟨(cellAt p.2 i.col, p.1), hc p hp hfrag, by simpa using hpa, rfl⟩
    | some w =>
      have hkey := F.keys _ (lookup_mem m p.1 _ lp)
      have hw : w = some q.1 := by simp [remapAddr, lp] at hpa; exact hpa
      subst hw
      have hnew := hkey.2 q.1 rfl
      have hfrag : fragOf p.1 ∈ i.frags := by
        rcases hfr with hfr | hfr
        · exact absurd hfr.1 ((F.fresh _ hnew).2.2 i hi).1
        · exact hfr.1 _ hkey.1
      exact ⟨(cellAt p.2 i.col, p.1), hc p hp hfrag, hpa, rfl⟩
  · -- sound
    intro e' he' q hq hqe _
    obtain ⟨e, he, hea, hek⟩ := (mem_remap_entries i m olds news e').mp he'
    obtain ⟨p, hp, hpa, hq2⟩ := (mem_compact_rows s olds news m q).mp hq
    rw [hqe] at hpa
    have := remap_inj F e.2 p.1 e'.2 (entry_admissible F i hi e he) (row_admissible F p hp) hea hpa
    rw [hek, hcol, hq2]
    exact hs e he p hp this.symm (by rw [← this]; exact hcov e he)
  · -- entries stay inside the covered fragments
    intro e' he'
    obtain ⟨e, he, hea, _⟩ := (mem_remap_entries i m olds news e').mp he'
    rw [mem_remap_frags]
    have hadm := entry_admissible F i hi e he
    cases le : m.lookup e.2 with
    | none =>
      have hx : e'.2 = e.2 := by simp [remapAddr, le] at hea; exact hea.symm
      left
      rw [hx]
      refine ⟨hcov e he, ?_⟩
      intro ho
      have := hadm.2 ho
      simp [le] at this
    | some w =>
      have hkey := F.keys _ (lookup_mem m e.2 _ le)
      have hw : w = some e'.2 := by simp [remapAddr, le] at hea; exact hea
      subst hw
      right
      refine ⟨?_, hkey.2 _ rfl⟩
      rcases F.bins i hi with hall | hnone
      · exact hall
      · exact absurd (hcov e he) (hnone _ hkey.1)

/-! ### every history -/

theorem step_inv (s s' : St) (o : Op) (hinv : Inv s) (h : step s o = some s') : Inv s' := by
  cases o with
  | append new =>
    simp only [step] at h
    split at h
    · rename_i hf
      cases h
      exact append_inv s new hinv hf
    · simp at h
  | delete hit =>
    simp only [step, Option.some.injEq] at h
    subst h
    exact delete_inv s hit hinv
  | update c v hit addrs =>
    simp only [step] at h
    split at h
    · rename_i hf
      cases h
      simp only [Bool.and_eq_true] at hf
      exact append_inv _ _ (delete_inv s hit hinv) hf.2
    · simp at h
  | compact olds news m =>
    simp only [step] at h
    split at h
    · rename_i hf
      cases h
      exact compact_inv s olds news m hinv hf
    · simp at h
  | index c k =>
    simp only [step, Option.some.injEq] at h
    subst h
    exact createIndex_inv s c k hinv
  | optimize =>
    simp only [step, Option.some.injEq] at h
    subst h
    exact optimize_inv s hinv

theorem run_inv (ops : List Op) (s s' : St) (hinv : Inv s) (h : run s ops = some s') : Inv s' := by
  induction ops generalizing s with
  | nil =>
    simp only [run, Option.some.injEq] at h
    subst h; exact hinv
  | cons o os ih =>
    simp only [run] at h
    split at h
    · rename_i s1 h1
      exact ih s1 (step_inv s s1 o hinv h1) h
    · simp at h

end LanceModel.C19
