import LanceModel.C19.HistLemmas
/-!
C19 helper lemmas, part 4: the indexed scan as a per-row decision.
-/
namespace LanceModel.C19
open LanceModel.Query

theorem toC21_ok (s : St) (q : IExpr) (h : q.leavesIn s.ix = true) : ∃ x, toC21 s q = .ok x := by
  induction q with
  | query c sq =>
    simp only [IExpr.leavesIn, St.ix] at h
    cases hi : s.index c with
    | none => simp [hi] at h
    | some i => exact ⟨.leaf (leafRes (i.search sq)), by simp [toC21, hi]⟩
  | not e ih =>
    obtain ⟨x, hx⟩ := ih h
    exact ⟨.not x, by simp [toC21, hx]⟩
  | and a b iha ihb =>
    simp only [IExpr.leavesIn, Bool.and_eq_true] at h
    obtain ⟨x, hx⟩ := iha h.1
    obtain ⟨y, hy⟩ := ihb h.2
    exact ⟨.and x y, by simp [toC21, hx, hy]⟩
  | or a b iha ihb =>
    simp only [IExpr.leavesIn, Bool.and_eq_true] at h
    obtain ⟨x, hx⟩ := iha h.1
    obtain ⟨y, hy⟩ := ihb h.2
    exact ⟨.or x y, by simp [toC21, hx, hy]⟩

theorem evaluate_ok (s : St) (q : IExpr) (h : q.leavesIn s.ix = true) : ∃ res, evaluate s q = .ok res := by
  obtain ⟨x, hx⟩ := toC21_ok s q h
  exact ⟨x.eval, by simp [evaluate, hx]⟩

/-- what the indexed scan decides for one live row -/
def rowDecision (s : St) (e : Expr) (p : Nat × Row) : Bool :=
  match visitNode s.ix e with
  | none => isTrue e p.2
  | some x =>
    if (covered s x.sq).contains (fragOf p.1) then x.sq.sel2 p.2 && optTrue x.refine p.2 else isTrue e p.2

/-- the indexed scan never fails and is the filter of the live rows by `rowDecision` -/
theorem scanIndexed_spec (s : St) (hinv : Inv s) (e : Expr) :
    scanIndexed s e = .ok (s.rows.filter (rowDecision s e)) := by
  unfold scanIndexed applyScalarIndices
  cases hv : visitNode s.ix e with
  | none =>
    simp only []
    congr 1
    apply List.filter_congr
    intro p _
    simp [rowDecision, hv]
  | some x =>
    simp only []
    obtain ⟨res, hres⟩ := evaluate_ok s x.sq (visitNode_leaves s.ix e x hv)
    simp only [hres]
    congr 1
    apply List.filter_congr
    intro p hp
    rw [readRow_spec s hinv e x res hv hres p hp]
    simp [rowDecision, hv]

theorem and3_isTrue (a b : Option Bool) : (and3 a b == some true) = ((a == some true) && (b == some true)) := by
  rcases a with _ | _ | _ <;> rcases b with _ | _ | _ <;> rfl

theorem isTrue_plan (s : St) (e : Expr) (x : Indexed) (hv : visitNode s.ix e = some x) (r : Row) :
    isTrue e r = ((x.sq.eval3 r == some true) && optTrue x.refine r) := by
  have := visitNode_meaning range_table_ok s.ix e x r hv
  unfold Indexed.meaning at this
  rw [Query.isTrue, ← this, and3_isTrue, optTrue_eq]

/-- the row decision is the WHERE clause on a row where nothing negated is NULL -/
theorem rowDecision_safe (s : St) (e : Expr) (p : Nat × Row)
    (h : ∀ x, visitNode s.ix e = some x → (covered s x.sq).contains (fragOf p.1) = true → Safe true x.sq p.2 = true) :
    rowDecision s e p = isTrue e p.2 := by
  unfold rowDecision
  cases hv : visitNode s.ix e with
  | none => rfl
  | some x =>
    simp only []
    split
    · rename_i hc
      rw [isTrue_plan s e x hv, (safe_spec x.sq p.2).1 (h x hv hc)]
    · rfl

/-- in general the row decision is bracketed by TRUE and not-FALSE -/
theorem rowDecision_bracket (s : St) (e : Expr) (p : Nat × Row) :
    (isTrue e p.2 = true → rowDecision s e p = true) ∧ (rowDecision s e p = true → eval3 e p.2 ≠ some false) := by
  unfold rowDecision
  cases hv : visitNode s.ix e with
  | none =>
    simp only [Query.isTrue, beq_iff_eq]
    exact ⟨id, fun h hf => by rw [h] at hf; cases hf⟩
  | some x =>
    simp only []
    split
    · rw [isTrue_plan s e x hv]
      have hm := visitNode_meaning range_table_ok s.ix e x p.2 hv
      unfold Indexed.meaning at hm
      simp only [Bool.and_eq_true, beq_iff_eq]
      constructor
      · intro h
        exact ⟨(sel2_bracket x.sq p.2).1 h.1, h.2⟩
      · intro h hf
        rw [← hm, and3_eq_false] at hf
        rcases hf with hf | hf
        · exact (sel2_bracket x.sq p.2).2 h.1 hf
        · have := h.2
          rw [optTrue_eq, beq_iff_eq] at this
          rw [this] at hf
          cases hf
    · simp only [Query.isTrue, beq_iff_eq]
      exact ⟨id, fun h hf => by rw [h] at hf; cases hf⟩

end LanceModel.C19
