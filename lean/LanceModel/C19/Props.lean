import LanceModel.C19.ScanLemmas
import LanceModel.C19.Pages
/-!
# C19 — property theorems

"For every filter an exact scalar index (B-tree, bitmap, label-list) accelerates, the scan with index use returns
exactly the rows the same scan without any index returns, including NULL handling, boundary and out-of-range literals,
negations and combinations.  This holds after appends not yet indexed, deletes, updates, compaction remaps and index
optimisation or merging."

Everything below is about the model in `Model.lean` (BTree and Bitmap indices on nullable Int64 columns; the tie to
the Rust code is the correspondence run of `./check C19`).  `Inv s` (EvalLemmas.lean) says the indices are faithful to
the table: every live row of a covered fragment has its entry, entries of such rows carry the row's key, no entry lies
outside the covered fragments, addresses are unique.

The code does NOT meet the property: index answers are two-valued, so `NOT` turns "not TRUE" (FALSE or NULL) into
"selected".  Hence `C19_full` + `indexed_eq_scan_counterexample`, the partial theorem under the decidable hypothesis
`SafeOn` (no negated sub-query evaluates to NULL on a row that is read through the index), and the hypothesis-free
bracket theorem `indexed_scan_bracket` (no TRUE row is ever dropped, no FALSE row is ever returned).
-/
namespace LanceModel.C19
open LanceModel.Query

/-! ## Part 1: the planner -/

def optIEval3 : Option IExpr → Row → Option Bool
  | none, _ => some true
  | some q, r => q.eval3 r

/-- **apply_scalar_indices splits the filter without changing its meaning**: (index query) AND (refine) has the
    same three-valued value as the filter on every row — for every expression tree, every set of indexed columns,
    NULL cells included.  (`maybe_range`'s bound table is part of it: `range_table_ok`.) -/
theorem plan_preserves_meaning (ix : Nat → Bool) (e : Expr) (r : Row) :
    and3 (optIEval3 (applyScalarIndices ix e).sq r) (optEval3 (applyScalarIndices ix e).refine r) = eval3 e r := by
  unfold applyScalarIndices
  cases hv : visitNode ix e with
  | none => simp [optIEval3, optEval3]
  | some x => exact visitNode_meaning range_table_ok ix e x r hv

/-- every (low, high) pair `maybe_range` builds from `x op1 a AND x op2 b` is the conjunction of the comparisons -/
theorem range_bounds_exact : RangeTableOk := range_table_ok

/-! ## Part 2: leaf search and evaluation -/

/-- **a leaf search is exact, NULL keys included**: for a live row of a fragment the index covers, the row's address
    is in the answer of `Equals / Range / IsIn / IsNull` iff the query is TRUE (not NULL) on the row's key -/
theorem leaf_search_exact (s : St) (hinv : Inv s) (c : Nat) (i : Idx) (q : SQ) (p : Nat × Row)
    (hi : s.index c = some i) (hp : p ∈ s.rows) (hc : fragOf p.1 ∈ i.frags) :
    (i.search q).contains p.1 = (q.eval3 (cellAt p.2 c) == some true) := by
  have h := memTruth_eq_sel2 s hinv (.query c q) p hp (by simp [IExpr.leavesIn, St.ix, hi]) (by simpa [covered, hi] using hc)
  simpa [memTruth, hi, IExpr.sel2, hits_eq] using h

/-- **ScalarIndexExpr::evaluate is two-valued**: the answer is Exact and its mask selects a live row of the covered
    fragments iff the boolean combination `sel2` of the leaf answers holds on the row (C21's mask algebra) -/
theorem evaluate_two_valued (s : St) (hinv : Inv s) (q : IExpr) (res : C21.Res) (h : evaluate s q = .ok res)
    (hl : q.leavesIn s.ix = true) :
    ∃ m, res = .exact m ∧ ∀ p ∈ s.rows, fragOf p.1 ∈ covered s q → m.selected p.1 = q.sel2 p.2 := by
  obtain ⟨m, rfl, hs⟩ := evaluate_exact s q res h
  exact ⟨m, rfl, fun p hp hc => by rw [hs, memTruth_eq_sel2 s hinv q p hp hl hc]⟩

/-- two-valued evaluation never loses a TRUE row and never selects a FALSE row, whatever the tree -/
theorem two_valued_bracket (q : IExpr) (r : Row) :
    (q.eval3 r = some true → q.sel2 r = true) ∧ (q.sel2 r = true → q.eval3 r ≠ some false) :=
  sel2_bracket q r

/-! ## Part 2b: the paged BTree -/

/-- **no page with a matching key is pruned** (`BTreeLookup::{pages_eq, pages_in, pages_between, pages_null}` over the
    (min, max, null_count) statistics): for every sargable query, every sorted layout of page statistics, every page
    whose statistics bound a key the query hits -/
theorem btree_page_selection_complete (ps : List PageStat) (hs : SortedLayout ps) (p : PageStat) (hp : p ∈ ps)
    (k : Cell) (hk : Holds p k) (q : SQ) (hq : q.hits k = true) : p.no ∈ pagesFor ps q :=
  pagesFor_complete ps hs p hp k hk q hq

/-- **the paged BTree search is the flat search** (`btree_pages_complete`, Pages.lean): for every split of the sorted
    entry list into non-empty consecutive pages — any page size, any page numbering — searching only the selected pages
    returns exactly the addresses of the entries the query hits.  This is what makes `leaf_search_exact` (stated on the
    entry set `Idx.search`) hold for the real paged BTree. -/
theorem btree_paged_search_exact (pages : List (Nat × List (Cell × Nat))) (h : ChunksSorted pages) (q : SQ) (a : Nat) :
    a ∈ pagedSearch pages q ↔ a ∈ ((pages.flatMap (·.2)).filter (fun e => q.hits e.1)).map (·.2) :=
  btree_pages_complete pages h q a

/-- pages of two entries over keys NULL NULL 1 2 2 2 3 4 (duplicates straddle page boundaries, one all-NULL page) -/
def exPages : List (Nat × List (Cell × Nat)) :=
  [(0, [(none, 10), (none, 11)]), (1, [(some 1, 12), (some 2, 13)]), (2, [(some 2, 14), (some 2, 15)]),
   (3, [(some 3, 16), (some 4, 17)])]

example : ChunksSorted exPages := by
  unfold ChunksSorted exPages KeyLe
  decide

example : pagedSearch exPages (.equals 2) = [13, 14, 15] ∧ pagedSearch exPages .isNull = [10, 11] ∧
    pagedSearch exPages (.range (.excl 2) (.excl 4)) = [16] ∧
    pagesFor (exPages.map (fun p => pageStat p.1 p.2)) (.equals 2) = [1, 2] ∧
    pagesFor (exPages.map (fun p => pageStat p.1 p.2)) (.range (.excl 4) .unb) = [3] := by decide

/-! ## Part 3: indexed scan versus plain scan -/

/-- the full statement: for every table state with faithful indices and every filter, the indexed scan succeeds and
    returns exactly the rows of the plain scan (same rows, same order) -/
def C19_full : Prop :=
  ∀ (s : St) (e : Expr), Inv s → scanIndexed s e = .ok (scanPlain s e)

/-- the decidable hypothesis, polarity-aware (`Safe`, PlanLemmas.lean): on every live row that the scan reads through
    the index, no leaf of the index query that sits under an ODD number of NOTs is NULL on the row — unless a FALSE
    conjunct / TRUE disjunct next to it decides the sub-expression anyway.  NOT NOT over NULL, `IS NOT NULL`, and
    positive leaves over NULL cells are all inside the hypothesis; it is weaker than "nothing negated is NULL"
    (`nullSafe_imp_safe`). -/
def SafeOn (s : St) (e : Expr) : Bool :=
  match visitNode s.ix e with
  | none => true
  | some x => s.rows.all (fun p => !(covered s x.sq).contains (fragOf p.1) || Safe true x.sq p.2)

theorem indexed_eq_scan_partial (s : St) (e : Expr) (hinv : Inv s) (hsafe : SafeOn s e = true) :
    scanIndexed s e = .ok (scanPlain s e) := by
  rw [scanIndexed_spec s hinv e]
  congr 1
  apply List.filter_congr
  intro p hp
  apply rowDecision_safe
  intro x hv hc
  simp only [SafeOn, hv, List.all_eq_true, Bool.or_eq_true, Bool.not_eq_true'] at hsafe
  rcases hsafe p hp with h | h
  · rw [hc] at h; cases h
  · exact h

/-- the column-level form of the hypothesis: no live row has a NULL in a column that sits under a NOT of the index
    query (`!=`, `NOT IN`, `IS NOT NULL` are NOTs of their positive query; `IS NOT NULL` is always safe, see the
    example below) -/
theorem indexed_eq_scan_cols_partial (s : St) (e : Expr) (hinv : Inv s)
    (h : ∀ x, visitNode s.ix e = some x → ∀ c ∈ colsUnderNot x.sq false, ∀ p ∈ s.rows, (cellAt p.2 c).isSome = true) :
    scanIndexed s e = .ok (scanPlain s e) := by
  apply indexed_eq_scan_partial s e hinv
  unfold SafeOn
  cases hv : visitNode s.ix e with
  | none => rfl
  | some x =>
    simp only [List.all_eq_true, Bool.or_eq_true, Bool.not_eq_true']
    intro p hp
    right
    exact (nullSafe_imp_safe x.sq p.2 (nullSafe_of_cols x.sq false p.2 (fun c hc => h x hv c hc p hp))).1

/-- **without any hypothesis**: the indexed scan never fails, returns only live rows, returns every row on which the
    filter is TRUE, and never returns a row on which the filter is FALSE (the only possible difference with the plain
    scan are rows on which the filter is NULL) -/
theorem indexed_scan_bracket (s : St) (e : Expr) (hinv : Inv s) :
    ∃ out, scanIndexed s e = .ok out ∧ out.Sublist s.rows ∧
      (∀ p ∈ scanPlain s e, p ∈ out) ∧ (∀ p ∈ out, eval3 e p.2 ≠ some false) := by
  refine ⟨_, scanIndexed_spec s hinv e, List.filter_sublist, ?_, ?_⟩
  · intro p hp
    simp only [scanPlain, List.mem_filter] at hp ⊢
    exact ⟨hp.1, (rowDecision_bracket s e p).1 hp.2⟩
  · intro p hp
    simp only [List.mem_filter] at hp
    exact (rowDecision_bracket s e p).2 hp.2

/-- the 5-row witness of the design spike: BTree indices on c0 and c1, row 3 has c0 = NULL, row 4 has c1 = NULL -/
def witness : St :=
  ((create [(0, [some 1, some 1, some 0]), (1, [some 2, some 2, some 0]), (2, [some 5, some 3, some 0]),
            (3, [none, some 4, some 0]), (4, [some 3, none, some 0])]).createIndex 0 .btree).createIndex 1 .btree

theorem witness_inv : Inv witness :=
  createIndex_inv _ _ _ (createIndex_inv _ _ _ (create_inv _ (by decide)))

/-- `c0 != 5`: the indexed scan also returns the row whose c0 is NULL -/
theorem indexed_eq_scan_counterexample : ¬ C19_full := by
  intro h
  have h1 := h witness (.cmp .ne 0 (.lit 5)) witness_inv
  rw [scanIndexed_spec witness witness_inv] at h1
  simp only [Except.ok.injEq] at h1
  have h2 : (witness.rows.filter (rowDecision witness (.cmp .ne 0 (.lit 5)))).length = 4 := by decide
  have h3 : (scanPlain witness (.cmp .ne 0 (.lit 5))).length = 3 := by decide
  rw [h1, h3] at h2
  cases h2

/-- the other three filters of the spike fail on the same table -/
theorem indexed_eq_scan_counterexamples :
    (witness.rows.filter (rowDecision witness (.not (.cmp .eq 0 (.lit 1))))).map (·.1) = [1, 2, 3, 4] ∧
    (scanPlain witness (.not (.cmp .eq 0 (.lit 1)))).map (·.1) = [1, 2, 4] ∧
    (witness.rows.filter (rowDecision witness (.not (.inList 0 [some 1])))).map (·.1) = [1, 2, 3, 4] ∧
    (scanPlain witness (.not (.inList 0 [some 1]))).map (·.1) = [1, 2, 4] ∧
    (witness.rows.filter (rowDecision witness (.and (.cmp .ne 0 (.lit 1)) (.cmp .ne 1 (.lit 2))))).map (·.1) = [2, 3, 4] ∧
    (scanPlain witness (.and (.cmp .ne 0 (.lit 1)) (.cmp .ne 1 (.lit 2)))).map (·.1) = [2] := by
  decide

/-! ## Part 4: histories -/

/-- **every history keeps the indices faithful**: starting from a freshly written table, any sequence of append,
    delete, update, compaction (with index remap), create_index and optimize_indices — whose address arguments pass the
    side conditions `step` checks — ends in a state satisfying `Inv` -/
theorem history_preserves_inv (rows : List (Nat × Row)) (ops : List Op) (s : St)
    (h0 : nodupB (rows.map (·.1)) = true) (h : run (create rows) ops = some s) : Inv s :=
  run_inv ops (create rows) s (create_inv rows h0) h

/-- the property after any history: partial form -/
theorem indexed_eq_scan_histories_partial (rows : List (Nat × Row)) (ops : List Op) (s : St) (e : Expr)
    (h0 : nodupB (rows.map (·.1)) = true) (h : run (create rows) ops = some s) (hsafe : SafeOn s e = true) :
    scanIndexed s e = .ok (scanPlain s e) :=
  indexed_eq_scan_partial s e (history_preserves_inv rows ops s h0 h) hsafe

/-- the property after any history: the bracket -/
theorem indexed_scan_histories_bracket (rows : List (Nat × Row)) (ops : List Op) (s : St) (e : Expr)
    (h0 : nodupB (rows.map (·.1)) = true) (h : run (create rows) ops = some s) :
    ∃ out, scanIndexed s e = .ok out ∧ out.Sublist s.rows ∧
      (∀ p ∈ scanPlain s e, p ∈ out) ∧ (∀ p ∈ out, eval3 e p.2 ≠ some false) :=
  indexed_scan_bracket s e (history_preserves_inv rows ops s h0 h)

/-! ## Non-vacuity -/

/-- a history with every kind of operation runs (all side conditions hold): append of an un-indexed fragment, delete,
    update into a new fragment, optimize, compaction of fragments 0 and 1 into fragment 3 with the remap -/
def exHistory : List Op :=
  [.index 0 .btree,
   .append [(4294967296, [some 7, some 7, some 7]), (4294967297, [none, none, none])],
   .delete [1],
   .update 1 (some 9) [0] [8589934592],
   .optimize,
   .index 1 .bitmap,
   .compact [0, 1, 2] [3]
     [(0, none), (1, none), (2, some 12884901888), (3, some 12884901889), (4, some 12884901890),
      (4294967296, some 12884901891), (4294967297, some 12884901892), (8589934592, some 12884901893)]]

def exRows : List (Nat × Row) :=
  [(0, [some 1, some 1, some 0]), (1, [some 2, some 2, some 0]), (2, [some 5, some 3, some 0]),
   (3, [none, some 4, some 0]), (4, [some 3, none, some 0])]

example : (run (create exRows) exHistory).isSome = true := by decide

example : ((run (create exRows) exHistory).map (fun s => s.rows.map (·.1))) =
    some [12884901888, 12884901889, 12884901890, 12884901891, 12884901892, 12884901893] := by decide

/-- `SafeOn` holds on the witness for a range AND an IS NOT NULL (a NOT over a query that is never NULL), and the
    plan uses both indices -/
example : SafeOn witness (.and (.between 0 2 5) (.notNull 1)) = true ∧
    (applyScalarIndices witness.ix (.and (.between 0 2 5) (.notNull 1))).sq =
      some (.and (.query 0 (.range (.incl 2) (.incl 5))) (.not (.query 1 .isNull))) := by decide

/-- NOT NOT over a NULL-valued leaf is inside the hypothesis (even number of NOTs), and so is a negated leaf next to a
    FALSE conjunct: `NOT (c0 = 1 AND c1 = 9)` is decided by `c1 = 9` being FALSE on every row although c0 is NULL on row 3 -/
example : SafeOn witness (.not (.not (.cmp .eq 0 (.lit 1)))) = true ∧
    SafeOn witness (.not (.and (.cmp .eq 0 (.lit 1)) (.cmp .eq 1 (.lit 9)))) = true ∧
    (witness.rows.filter (fun p => (cellAt p.2 0).isNone)).length = 1 := by decide

/-- … and fails exactly on the witness filter -/
example : SafeOn witness (.cmp .ne 0 (.lit 5)) = false := by decide

/-- the planner example with a refine part: c2 is not indexed -/
example : applyScalarIndices witness.ix (.and (.cmp .lt 0 (.lit 3)) (.cmp .eq 2 (.lit 0))) =
    ⟨some (.query 0 (.range .unb (.excl 3))), some (.cmp .eq 2 (.lit 0))⟩ := by decide

end LanceModel.C19
