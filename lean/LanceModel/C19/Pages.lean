import LanceModel.C19.Model
/-!
C19, BTree page lookup: model of `BTreeLookup::{pages_eq, pages_in, pages_between, pages_null}`
(rust/lance-index/src/scalar/btree.rs) over the per-page statistics (min, max, null_count, page_number) that
`analyze_batch` / `train_btree_index` record (min = first key of the page, max = last key, keys sorted NULLs first), and
the completeness lemmas: a page holding a key the sargable query hits is never pruned.

`BTreeIndex::search` = union over the selected pages of the page's FlatIndex search, so completeness of the page
selection is what makes the paged search equal to the flat entry-set search `Idx.search` of Model.lean.
-/
namespace LanceModel.C19
open LanceModel.Query

/-- `OrderableScalarValue::cmp` on a nullable Int64: NULL sorts before every value -/
def cellLt : Cell → Cell → Bool
  | none, some _ => true
  | some a, some b => decide (a < b)
  | _, none => false

structure PageStat where
  min : Cell
  max : Cell
  nulls : Nat
  no : Nat
  deriving Repr, DecidableEq

/-- the keys of `BTreeLookup::tree`: the min of every page that is not entirely NULL, plus the max of the last page
    (`map.entry(last_max).or_default()`) -/
def treeKeys (ps : List PageStat) : List Cell :=
  (ps.filter (fun p => p.max.isSome)).map (·.min) ++
    (match ps.getLast? with
     | some p => [p.max]
     | none => [])

/-- `BTreeMapExt::largest_node_less`: the largest key strictly below `l` -/
def largestLess : List Cell → Cell → Option Cell
  | [], _ => none
  | k :: t, l =>
    match largestLess t l with
    | none => if cellLt k l then some k else none
    | some a => if cellLt k l && cellLt a k then some k else some a

/-- the moved lower bound of `pages_between`: "inclusive from the largest key strictly below the bound" or unbounded -/
def lowerOf (ps : List PageStat) : Bd → Option Cell
  | .unb => none
  | .incl l => largestLess (treeKeys ps) (some l)
  | .excl l => largestLess (treeKeys ps) (some l)

/-- the upper bound of `pages_between`: inclusive whatever it was -/
def upperOf : Bd → Option Cell
  | .unb => none
  | .incl u => some (some u)
  | .excl u => some (some u)

/-- the candidates of `pages_between` for the two computed bounds: an inverted pair gives no page; otherwise the records
    whose min lies between the two and whose max is not below the (moved) lower bound -/
def pagesIn (ps : List PageStat) (lb ub : Option Cell) : List Nat :=
  if (match lb, ub with
      | some a, some b => cellLt b a
      | _, _ => false) then []
  else
    (ps.filter (fun p => p.max.isSome &&
      (match lb with
       | none => true
       | some a => !cellLt p.min a && !cellLt p.max a) &&
      (match ub with
       | none => true
       | some b => !cellLt b p.min))).map (·.no)

/-- `BTreeLookup::pages_between` -/
def pagesBetween (ps : List PageStat) (lo hi : Bd) : List Nat := pagesIn ps (lowerOf ps lo) (upperOf hi)

/-- `pages_eq` (non-NULL literal) -/
def pagesEq (ps : List PageStat) (v : Int) : List Nat := pagesBetween ps (.incl v) (.excl v)

/-- the page selection of `BTreeIndex::search` -/
def pagesFor (ps : List PageStat) : SQ → List Nat
  | .equals v => pagesEq ps v
  | .range lo hi => pagesBetween ps lo hi
  | .isIn vs => vs.flatMap (pagesEq ps)
  | .isNull => (ps.filter (fun p => decide (0 < p.nulls))).map (·.no)

/-- `analyze_batch`: statistics of one page of (sorted) entries -/
def pageStat (no : Nat) (es : List (Cell × Nat)) : PageStat :=
  { min := match es with
      | [] => none
      | e :: _ => e.1,
    max := match es.getLast? with
      | some e => e.1
      | none => none,
    nulls := (es.filter (fun e => e.1.isNone)).length,
    no := no }

/-- `BTreeIndex::search`: the selected pages are searched with the flat page search -/
def pagedSearch (pages : List (Nat × List (Cell × Nat))) (q : SQ) : List Nat :=
  (pages.filter (fun p => (pagesFor (pages.map (fun p => pageStat p.1 p.2)) q).contains p.1)).flatMap
    (fun p => (p.2.filter (fun e => q.hits e.1)).map (·.2))

/-! ## order lemmas -/

theorem cellLt_irrefl (a : Cell) : cellLt a a = false := by
  cases a <;> simp [cellLt]

theorem cell_le_trans (a b c : Cell) (h1 : cellLt b a = false) (h2 : cellLt c b = false) : cellLt c a = false := by
  cases a <;> cases b <;> cases c <;> simp_all [cellLt] <;> omega

theorem cell_lt_of_lt_le (a b c : Cell) (h1 : cellLt a b = true) (h2 : cellLt c b = false) : cellLt a c = true := by
  cases a <;> cases b <;> cases c <;> simp_all [cellLt] <;> omega

theorem largestLess_spec (keys : List Cell) (l a : Cell) (h : largestLess keys l = some a) :
    cellLt a l = true ∧ a ∈ keys := by
  induction keys generalizing a with
  | nil => simp [largestLess] at h
  | cons k t ih =>
    simp only [largestLess] at h
    cases hr : largestLess t l with
    | none =>
      simp only [hr] at h
      split at h
      · rename_i hk; cases h; exact ⟨hk, List.mem_cons_self⟩
      · simp at h
    | some b =>
      simp only [hr] at h
      split at h
      · rename_i hk
        cases h
        simp only [Bool.and_eq_true] at hk
        exact ⟨hk.1, List.mem_cons_self⟩
      · cases h
        exact ⟨(ih _ hr).1, List.mem_cons_of_mem _ (ih _ hr).2⟩

/-! ## completeness of the page selection -/

/-- the statistics bound the key: `min ≤ k ≤ max`, and a NULL key is counted -/
def Holds (p : PageStat) (k : Cell) : Prop :=
  cellLt k p.min = false ∧ cellLt p.max k = false ∧ (k = none → 0 < p.nulls)

/-- the pages are consecutive chunks of one sorted key list: a page that starts below another one ends at or below the
    other's start, and no page ends above the last page -/
def SortedLayout (ps : List PageStat) : Prop :=
  (∀ p ∈ ps, ∀ p' ∈ ps, cellLt p.min p'.min = true → cellLt p'.min p.max = false) ∧
  (∀ p ∈ ps, ∀ last, ps.getLast? = some last → cellLt last.max p.max = false)

theorem mem_treeKeys (ps : List PageStat) (a : Cell) (h : a ∈ treeKeys ps) :
    (∃ p' ∈ ps, p'.min = a) ∨ (∃ last, ps.getLast? = some last ∧ last.max = a) := by
  simp only [treeKeys, List.mem_append, List.mem_map, List.mem_filter] at h
  rcases h with ⟨p', ⟨hp', _⟩, rfl⟩ | h
  · exact Or.inl ⟨p', hp', rfl⟩
  · cases hl : ps.getLast? with
    | none => simp [hl] at h
    | some last =>
      simp only [hl, List.mem_singleton] at h
      exact Or.inr ⟨last, rfl, h.symm⟩

/-- `pages_between` keeps every page that holds a key `x` with `lo ≤ x` (as the bound says) and `x ≤` the upper
    bound's value — inclusive or not -/
theorem pagesBetween_complete (ps : List PageStat) (hs : SortedLayout ps) (p : PageStat) (hp : p ∈ ps) (x : Int)
    (hx : Holds p (some x)) (lo hi : Bd) (hlo : lo.loOk x = true)
    (hhi : ∀ b, upperOf hi = some b → cellLt b (some x) = false) :
    p.no ∈ pagesBetween ps lo hi := by
  obtain ⟨hmin, hmax, _⟩ := hx
  have hsome : p.max.isSome = true := by
    cases hm : p.max with
    | none => simp [hm, cellLt] at hmax
    | some _ => rfl
  have hLBf : ∀ a, lowerOf ps lo = some a →
      cellLt p.min a = false ∧ cellLt p.max a = false ∧ cellLt (some x) a = false := by
    intro a ha
    have key : ∀ l : Int, l ≤ x → largestLess (treeKeys ps) (some l) = some a →
        cellLt p.min a = false ∧ cellLt p.max a = false ∧ cellLt (some x) a = false := by
      intro l hl ha
      obtain ⟨hal, hamem⟩ := largestLess_spec _ _ _ ha
      have hax : cellLt a (some x) = true := by
        cases a <;> simp_all [cellLt] <;> omega
      have h3 : cellLt (some x) a = false := by
        cases a <;> simp_all [cellLt] <;> omega
      have h2 : cellLt p.max a = false := cell_le_trans a (some x) p.max h3 hmax
      have hamax : cellLt a p.max = true := cell_lt_of_lt_le a (some x) p.max hax hmax
      refine ⟨?_, h2, h3⟩
      cases hpa : cellLt p.min a with
      | false => rfl
      | true =>
        exfalso
        rcases mem_treeKeys ps a hamem with ⟨p', hp', rfl⟩ | ⟨last, hlast, rfl⟩
        · have := hs.1 p hp p' hp' hpa
          rw [this] at hamax; cases hamax
        · have := hs.2 p hp last hlast
          rw [this] at hamax; cases hamax
    cases lo with
    | unb => simp [lowerOf] at ha
    | incl l => exact key l (by simpa [Bd.loOk] using hlo) ha
    | excl l =>
      refine key l ?_ ha
      have : l < x := by simpa [Bd.loOk] using hlo
      omega
  unfold pagesBetween pagesIn
  have hnotEmpty : (match lowerOf ps lo, upperOf hi with
      | some a, some b => cellLt b a
      | _, _ => false) = false := by
    cases hl : lowerOf ps lo with
    | none => rfl
    | some a =>
      cases hu : upperOf hi with
      | none => rfl
      | some b =>
        simp only []
        exact cell_le_trans a (some x) b (hLBf a hl).2.2 (hhi b hu)
  rw [hnotEmpty]
  simp only [Bool.false_eq_true, if_false, List.mem_map, List.mem_filter, Bool.and_eq_true]
  refine ⟨p, ⟨hp, ⟨hsome, ?_⟩, ?_⟩, rfl⟩
  · cases hl : lowerOf ps lo with
    | none => rfl
    | some a => simp [(hLBf a hl).1, (hLBf a hl).2.1]
  · cases hu : upperOf hi with
    | none => rfl
    | some b =>
      simp only [Bool.not_eq_true']
      exact cell_le_trans p.min (some x) b hmin (hhi b hu)

theorem upper_incl (u x : Int) (h : x ≤ u) (hi : Bd) (hh : hi = .incl u ∨ hi = .excl u) :
    ∀ b, upperOf hi = some b → cellLt b (some x) = false := by
  intro b hb
  rcases hh with rfl | rfl <;> (simp only [upperOf, Option.some.injEq] at hb; subst hb; simp [cellLt]; omega)

/-- **no page that holds a key the query hits is pruned** — for every sargable query and every sorted page layout -/
theorem pagesFor_complete (ps : List PageStat) (hs : SortedLayout ps) (p : PageStat) (hp : p ∈ ps) (k : Cell)
    (hk : Holds p k) (q : SQ) (hq : q.hits k = true) : p.no ∈ pagesFor ps q := by
  cases q with
  | equals v =>
    simp only [SQ.hits, beq_iff_eq] at hq
    subst hq
    exact pagesBetween_complete ps hs p hp v hk (.incl v) (.excl v) (by simp [Bd.loOk])
      (upper_incl v v (Int.le_refl v) _ (Or.inr rfl))
  | range lo hi =>
    cases k with
    | none => simp [SQ.hits] at hq
    | some x =>
      simp only [SQ.hits, Bool.and_eq_true] at hq
      refine pagesBetween_complete ps hs p hp x hk lo hi hq.1 ?_
      cases hi with
      | unb => intro b hb; simp [upperOf] at hb
      | incl u => exact upper_incl u x (by simpa [Bd.hiOk] using hq.2) _ (Or.inl rfl)
      | excl u =>
        have : x < u := by simpa [Bd.hiOk] using hq.2
        exact upper_incl u x (by omega) _ (Or.inr rfl)
  | isIn vs =>
    cases k with
    | none => simp [SQ.hits] at hq
    | some x =>
      simp only [SQ.hits, List.contains_iff_mem] at hq
      simp only [pagesFor, List.mem_flatMap]
      exact ⟨x, hq, pagesBetween_complete ps hs p hp x hk (.incl x) (.excl x) (by simp [Bd.loOk])
        (upper_incl x x (Int.le_refl x) _ (Or.inr rfl))⟩
  | isNull =>
    cases k with
    | some x => simp [SQ.hits] at hq
    | none =>
      simp only [pagesFor, List.mem_map, List.mem_filter, decide_eq_true_eq]
      exact ⟨p, ⟨hp, hk.2.2 rfl⟩, rfl⟩

/-! ## pages built from sorted entries -/

/-- `a ≤ b` on keys -/
def KeyLe (e e' : Cell × Nat) : Prop := cellLt e'.1 e.1 = false

/-- the pages are consecutive non-empty chunks of one entry list sorted by key (NULLs first) — what
    `train_btree_index` writes: `chunk_concat_stream` over the sorted training stream -/
def ChunksSorted (pages : List (Nat × List (Cell × Nat))) : Prop :=
  pages.Pairwise (fun p p' => ∀ e ∈ p.2, ∀ e' ∈ p'.2, KeyLe e e') ∧
  ∀ p ∈ pages, p.2 ≠ [] ∧ p.2.Pairwise KeyLe

theorem getLast?_mem {α : Type} (l : List α) (z : α) (h : l.getLast? = some z) : z ∈ l := by
  induction l with
  | nil => simp at h
  | cons x t ih =>
    cases t with
    | nil => simp at h; subst h; exact List.mem_cons_self
    | cons y t' =>
      rw [List.getLast?_cons_cons] at h
      exact List.mem_cons_of_mem _ (ih h)

theorem pairwise_last {α : Type} (R : α → α → Prop) (l : List α) (z a : α) (hp : l.Pairwise R)
    (h : l.getLast? = some z) (ha : a ∈ l) : a = z ∨ R a z := by
  induction l with
  | nil => cases ha
  | cons x t ih =>
    cases t with
    | nil =>
      simp at h ha
      subst h; subst ha; exact Or.inl rfl
    | cons y t' =>
      rw [List.getLast?_cons_cons] at h
      rw [List.pairwise_cons] at hp
      rcases List.mem_cons.mp ha with rfl | ha'
      · exact Or.inr (hp.1 z (getLast?_mem _ _ h))
      · exact ih hp.2 h ha'

theorem pairwise_mem {α : Type} (R : α → α → Prop) (l : List α) (a b : α) (hp : l.Pairwise R)
    (ha : a ∈ l) (hb : b ∈ l) : a = b ∨ R a b ∨ R b a := by
  induction l with
  | nil => cases ha
  | cons x t ih =>
    rw [List.pairwise_cons] at hp
    rcases List.mem_cons.mp ha with rfl | ha' <;> rcases List.mem_cons.mp hb with rfl | hb'
    · exact Or.inl rfl
    · exact Or.inr (Or.inl (hp.1 b hb'))
    · exact Or.inr (Or.inr (hp.1 a ha'))
    · exact ih hp.2 ha' hb'

/-- the head and the last entry of a sorted non-empty page bound every key of the page, and NULL keys are counted -/
theorem holds_of_sorted (no : Nat) (es : List (Cell × Nat)) (hs : es.Pairwise KeyLe) (e : Cell × Nat) (he : e ∈ es) :
    Holds (pageStat no es) e.1 := by
  refine ⟨?_, ?_, ?_⟩
  · cases es with
    | nil => cases he
    | cons x t =>
      simp only [pageStat]
      rw [List.pairwise_cons] at hs
      rcases List.mem_cons.mp he with rfl | he'
      · exact cellLt_irrefl _
      · exact hs.1 e he'
  · cases hl : es.getLast? with
    | none =>
      cases es with
      | nil => cases he
      | cons x t => simp at hl
    | some z =>
      simp only [pageStat, hl]
      rcases pairwise_last KeyLe es z e hs hl he with rfl | h
      · exact cellLt_irrefl _
      · exact h
  · intro hn
    simp only [pageStat]
    apply List.length_pos_of_mem (a := e)
    simp [List.mem_filter, he, hn]

theorem stat_min_mem (no : Nat) (es : List (Cell × Nat)) (h : es ≠ []) : ∃ e ∈ es, (pageStat no es).min = e.1 := by
  cases es with
  | nil => exact absurd rfl h
  | cons x t => exact ⟨x, List.mem_cons_self, rfl⟩

theorem stat_max_mem (no : Nat) (es : List (Cell × Nat)) (h : es ≠ []) : ∃ e ∈ es, (pageStat no es).max = e.1 := by
  cases hl : es.getLast? with
  | none =>
    cases es with
    | nil => exact absurd rfl h
    | cons x t => simp at hl
  | some z => exact ⟨z, getLast?_mem _ _ hl, by simp [pageStat, hl]⟩

/-- consecutive chunks of a sorted entry list have a sorted layout of statistics -/
theorem layout_of_chunks (pages : List (Nat × List (Cell × Nat))) (h : ChunksSorted pages) :
    SortedLayout (pages.map (fun p => pageStat p.1 p.2)) := by
  obtain ⟨hpw, hpg⟩ := h
  constructor
  · intro s hs s' hs' hlt
    obtain ⟨p, hp, rfl⟩ := List.mem_map.mp hs
    obtain ⟨p', hp', rfl⟩ := List.mem_map.mp hs'
    obtain ⟨emin, hemin, hmin⟩ := stat_min_mem p.1 p.2 (hpg p hp).1
    obtain ⟨emax, hemax, hmax⟩ := stat_max_mem p.1 p.2 (hpg p hp).1
    obtain ⟨emin', hemin', hmin'⟩ := stat_min_mem p'.1 p'.2 (hpg p' hp').1
    rcases pairwise_mem _ pages p p' hpw hp hp' with rfl | hr | hr
    · rw [cellLt_irrefl] at hlt; cases hlt
    · rw [hmax, hmin']
      exact hr emax hemax emin' hemin'
    · have := hr emin' hemin' emin hemin
      unfold KeyLe at this
      rw [hmin, hmin', this] at hlt; cases hlt
  · intro s hs last hlast
    obtain ⟨p, hp, rfl⟩ := List.mem_map.mp hs
    rw [List.getLast?_map] at hlast
    cases hl : pages.getLast? with
    | none => simp [hl] at hlast
    | some z =>
      simp only [hl, Option.map_some, Option.some.injEq] at hlast
      subst hlast
      have hz := getLast?_mem _ _ hl
      obtain ⟨emax, hemax, hmax⟩ := stat_max_mem p.1 p.2 (hpg p hp).1
      obtain ⟨zmax, hzmax, hzm⟩ := stat_max_mem z.1 z.2 (hpg z hz).1
      rcases pairwise_last _ pages z p hpw hl hp with rfl | hr
      · exact cellLt_irrefl _
      · rw [hmax, hzm]
        exact hr emax hemax zmax hzmax

/-- **the paged BTree search is the flat search**: for pages that are consecutive chunks of the sorted entry list,
    searching only the pages `pages_eq / pages_in / pages_between / pages_null` select returns exactly the addresses of
    the entries the query hits — no page with a matching key is pruned, for every query, page size and page numbering -/
theorem btree_pages_complete (pages : List (Nat × List (Cell × Nat))) (h : ChunksSorted pages) (q : SQ) (a : Nat) :
    a ∈ pagedSearch pages q ↔ a ∈ ((pages.flatMap (·.2)).filter (fun e => q.hits e.1)).map (·.2) := by
  simp only [pagedSearch, List.mem_flatMap, List.mem_map, List.mem_filter, List.contains_iff_mem]
  constructor
  · rintro ⟨p, ⟨hp, _⟩, e, ⟨he, hh⟩, rfl⟩
    exact ⟨e, ⟨⟨p, hp, he⟩, hh⟩, rfl⟩
  · rintro ⟨e, ⟨⟨p, hp, he⟩, hh⟩, rfl⟩
    refine ⟨p, ⟨hp, ?_⟩, e, ⟨he, hh⟩, rfl⟩
    have := pagesFor_complete (pages.map (fun p => pageStat p.1 p.2)) (layout_of_chunks pages h)
      (pageStat p.1 p.2) (List.mem_map.mpr ⟨p, hp, rfl⟩) e.1 (holds_of_sorted p.1 p.2 (h.2 p hp).2 e he) q hh
    simpa [pageStat] using this

end LanceModel.C19
