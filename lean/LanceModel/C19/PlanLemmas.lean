import LanceModel.C19.Model
import LanceModel.Query.Lemmas
/-!
C19 helper lemmas, part 1: the planner (`visit_node`) preserves the three-valued meaning of the filter, and the
relation between the two-valued index evaluation `sel2` and the three-valued meaning `eval3`.
-/
namespace LanceModel.C19
open LanceModel.Query

/-- meaning of an optional refine expression (`None` = no further condition) -/
def optEval3 : Option Expr → Row → Option Bool
  | none, _ => some true
  | some e, r => eval3 e r

theorem optTrue_eq (o : Option Expr) (r : Row) : optTrue o r = (optEval3 o r == some true) := by
  cases o <;> simp [optTrue, optEval3, Query.isTrue]

/-! ### leaves -/

theorem map_some_filterMap_id (vs : List (Option Int)) (h : vs.contains none = false) :
    (vs.filterMap id).map some = vs := by
  induction vs with
  | nil => rfl
  | cons v t ih =>
    cases v with
    | none => simp at h
    | some x =>
      have : t.contains none = false := by
        simp only [List.contains_cons] at h
        simpa using h
      simp [ih this]

/-- a leaf search returns exactly the entries on which the query is TRUE (not NULL, not FALSE) -/
theorem hits_eq (q : SQ) (c : Cell) : q.hits c = (q.eval3 c == some true) := by
  cases q with
  | equals v =>
    cases c with
    | none => simp [SQ.hits, SQ.eval3, cmp3]
    | some x => simp [SQ.hits, SQ.eval3, cmp3, Cmp.holds]
  | range lo hi =>
    cases c with
    | none => simp [SQ.hits, SQ.eval3]
    | some x => simp [SQ.hits, SQ.eval3]
  | isIn vs =>
    cases c with
    | none => simp [SQ.hits, SQ.eval3, in3]
    | some x =>
      simp only [SQ.hits, SQ.eval3, in3]
      by_cases h : x ∈ vs
      · simp [h]
      · have : ¬ (some x ∈ vs.map some) := by simpa using h
        simp [h]
  | isNull => cases c <;> simp [SQ.hits, SQ.eval3]

theorem cmpQuery_eval3 (op : Cmp) (v : Int) (c : Cell) (h : op ≠ .ne) :
    (cmpQuery op v).eval3 c = cmp3 op c (some v) := by
  cases op <;> cases c <;> simp_all [cmpQuery, SQ.eval3, cmp3, Cmp.holds, Bd.loOk, Bd.hiOk]

theorem cmp_ne_eval3 (v : Int) (c : Cell) : not3 ((cmpQuery .ne v).eval3 c) = cmp3 .ne c (some v) := by
  cases c <;> simp [cmpQuery, SQ.eval3, cmp3, Cmp.holds, not3, bne]

theorem between_eval3 (lo hi : Int) (c : Cell) : (SQ.range (.incl lo) (.incl hi)).eval3 c = between3 lo hi c := by
  cases c <;> simp [SQ.eval3, between3, Bd.loOk, Bd.hiOk]

/-! ### the boolean skeleton: regrouping conjunctions -/

theorem and3_regroup (a b c d : Option Bool) : and3 (and3 a b) (and3 c d) = and3 (and3 a c) (and3 b d) := by
  rcases a with _ | _ | _ <;> rcases b with _ | _ | _ <;> rcases c with _ | _ | _ <;> rcases d with _ | _ | _ <;> rfl

theorem and3_swap_right (a b c : Option Bool) : and3 c (and3 a b) = and3 a (and3 b c) := by
  rcases a with _ | _ | _ <;> rcases b with _ | _ | _ <;> rcases c with _ | _ | _ <;> rfl

/-- what a node of `visit_node` stands for: index query AND refine -/
def Indexed.meaning (x : Indexed) (r : Row) : Option Bool := and3 (x.sq.eval3 r) (optEval3 x.refine r)

theorem maybeNot_meaning (x y : Indexed) (r : Row) (h : x.maybeNot = some y) :
    y.meaning r = not3 (x.meaning r) := by
  unfold Indexed.maybeNot at h
  cases hr : x.refine with
  | some _ => simp [hr] at h
  | none =>
    simp only [hr, Option.some.injEq] at h
    subst h
    simp [Indexed.meaning, IExpr.eval3, optEval3, hr]

theorem and_meaning (x y : Indexed) (r : Row) : (x.and y).meaning r = and3 (x.meaning r) (y.meaning r) := by
  unfold Indexed.and Indexed.meaning
  cases hx : x.refine <;> cases hy : y.refine <;> simp only [IExpr.eval3, optEval3, eval3]
  · generalize x.sq.eval3 r = a; generalize y.sq.eval3 r = b
    rcases a with _ | _ | _ <;> rcases b with _ | _ | _ <;> rfl
  · rename_i e
    generalize x.sq.eval3 r = a; generalize y.sq.eval3 r = b; generalize eval3 e r = c
    rcases a with _ | _ | _ <;> rcases b with _ | _ | _ <;> rcases c with _ | _ | _ <;> rfl
  · rename_i e
    generalize x.sq.eval3 r = a; generalize y.sq.eval3 r = b; generalize eval3 e r = c
    rcases a with _ | _ | _ <;> rcases b with _ | _ | _ <;> rcases c with _ | _ | _ <;> rfl
  · rename_i e f
    exact (and3_regroup _ _ _ _).symm

theorem maybeOr_meaning (x y z : Indexed) (r : Row) (h : x.maybeOr y = some z) :
    z.meaning r = or3 (x.meaning r) (y.meaning r) := by
  unfold Indexed.maybeOr at h
  cases hx : x.refine <;> cases hy : y.refine <;> simp [hx, hy] at h
  subst h
  simp [Indexed.meaning, IExpr.eval3, optEval3, hx, hy]

theorem refineWith_meaning (x : Indexed) (e : Expr) (r : Row) :
    (x.refineWith e).meaning r = and3 (x.meaning r) (eval3 e r) := by
  unfold Indexed.refineWith Indexed.meaning
  cases hx : x.refine <;> simp only [optEval3, eval3]
  · generalize x.sq.eval3 r = a; generalize eval3 e r = c
    rcases a with _ | _ | _ <;> rcases c with _ | _ | _ <;> rfl
  · exact (and3_assoc _ _ _).symm

/-! ### two-valued evaluation versus three-valued meaning -/

/-- the index evaluation never drops a TRUE row and never selects a FALSE row: only NULL rows can go wrong -/
theorem sel2_bracket (q : IExpr) (r : Row) :
    (q.eval3 r = some true → q.sel2 r = true) ∧ (q.sel2 r = true → q.eval3 r ≠ some false) := by
  induction q with
  | query c s =>
    simp only [IExpr.eval3, IExpr.sel2, hits_eq]
    constructor
    · intro h; simp [h]
    · intro h; simp only [beq_iff_eq] at h; simp [h]
  | not e ih =>
    simp only [IExpr.eval3, IExpr.sel2]
    constructor
    · intro h
      rw [not3_eq_true] at h
      cases hs : e.sel2 r
      · rfl
      · exact absurd h (ih.2 hs)
    · intro h hf
      rw [not3_eq_false] at hf
      have := ih.1 hf
      simp [this] at h
  | and a b iha ihb =>
    simp only [IExpr.eval3, IExpr.sel2, Bool.and_eq_true]
    constructor
    · intro h
      rw [and3_eq_true] at h
      exact ⟨iha.1 h.1, ihb.1 h.2⟩
    · intro h hf
      rw [and3_eq_false] at hf
      rcases hf with hf | hf
      · exact iha.2 h.1 hf
      · exact ihb.2 h.2 hf
  | or a b iha ihb =>
    simp only [IExpr.eval3, IExpr.sel2, Bool.or_eq_true]
    constructor
    · intro h
      rw [or3_eq_true] at h
      rcases h with h | h
      · exact Or.inl (iha.1 h)
      · exact Or.inr (ihb.1 h)
    · intro h hf
      rw [or3_eq_false] at hf
      rcases h with h | h
      · exact iha.2 h hf.1
      · exact ihb.2 h hf.2

/-- the decidable hypothesis of the partial theorem, per row: nothing that is negated evaluates to NULL on the row -/
def NullSafe : IExpr → Row → Bool
  | .query _ _, _ => true
  | .not e, r => NullSafe e r && (e.eval3 r).isSome
  | .and a b, r => NullSafe a r && NullSafe b r
  | .or a b, r => NullSafe a r && NullSafe b r

theorem sel2_eq_of_safe (q : IExpr) (r : Row) (h : NullSafe q r = true) : q.sel2 r = (q.eval3 r == some true) := by
  induction q with
  | query c s => simp [IExpr.eval3, IExpr.sel2, hits_eq]
  | not e ih =>
    simp only [NullSafe, Bool.and_eq_true] at h
    simp only [IExpr.eval3, IExpr.sel2, ih h.1]
    rcases hv : e.eval3 r with _ | _ | _
    · simp [hv] at h
    · rfl
    · rfl
  | and a b iha ihb =>
    simp only [NullSafe, Bool.and_eq_true] at h
    simp only [IExpr.eval3, IExpr.sel2, iha h.1, ihb h.2]
    rcases a.eval3 r with _ | _ | _ <;> rcases b.eval3 r with _ | _ | _ <;> rfl
  | or a b iha ihb =>
    simp only [NullSafe, Bool.and_eq_true] at h
    simp only [IExpr.eval3, IExpr.sel2, iha h.1, ihb h.2]
    rcases a.eval3 r with _ | _ | _ <;> rcases b.eval3 r with _ | _ | _ <;> rfl

/-- the polarity-aware hypothesis.  `Safe true q r` is enough for "selected ↔ TRUE", `Safe false q r` for
    "not selected ↔ FALSE".  A leaf is always fine in positive position and must not be NULL in negative position; NOT
    flips the polarity (so NOT NOT over a NULL leaf is fine: only an odd number of NOTs above a NULL-valued leaf is
    excluded); a conjunction with a FALSE side and a disjunction with a TRUE side are decided by that side alone. -/
def Safe : Bool → IExpr → Row → Bool
  | true, .query _ _, _ => true
  | false, .query c q, r => (q.eval3 (cellAt r c)).isSome
  | p, .not e, r => Safe (!p) e r
  | p, .and a b, r => a.eval3 r == some false || b.eval3 r == some false || (Safe p a r && Safe p b r)
  | p, .or a b, r => a.eval3 r == some true || b.eval3 r == some true || (Safe p a r && Safe p b r)

theorem safe_and_case (ea eb : Option Bool) (sa sb ta tb fa fb : Bool)
    (ba : (ea = some true → sa = true) ∧ (sa = true → ea ≠ some false))
    (bb : (eb = some true → sb = true) ∧ (sb = true → eb ≠ some false))
    (iha : (ta = true → sa = (ea == some true)) ∧ (fa = true → (!sa) = (ea == some false)))
    (ihb : (tb = true → sb = (eb == some true)) ∧ (fb = true → (!sb) = (eb == some false))) :
    ((ea == some false || eb == some false || (ta && tb)) = true → (sa && sb) = (and3 ea eb == some true)) ∧
    ((ea == some false || eb == some false || (fa && fb)) = true → (!(sa && sb)) = (and3 ea eb == some false)) := by
  revert ba bb iha ihb
  rcases ea with _ | _ | _ <;> rcases eb with _ | _ | _ <;> cases sa <;> cases sb <;> cases ta <;> cases tb <;>
    cases fa <;> cases fb <;> decide

theorem safe_or_case (ea eb : Option Bool) (sa sb ta tb fa fb : Bool)
    (ba : (ea = some true → sa = true) ∧ (sa = true → ea ≠ some false))
    (bb : (eb = some true → sb = true) ∧ (sb = true → eb ≠ some false))
    (iha : (ta = true → sa = (ea == some true)) ∧ (fa = true → (!sa) = (ea == some false)))
    (ihb : (tb = true → sb = (eb == some true)) ∧ (fb = true → (!sb) = (eb == some false))) :
    ((ea == some true || eb == some true || (ta && tb)) = true → (sa || sb) = (or3 ea eb == some true)) ∧
    ((ea == some true || eb == some true || (fa && fb)) = true → (!(sa || sb)) = (or3 ea eb == some false)) := by
  revert ba bb iha ihb
  rcases ea with _ | _ | _ <;> rcases eb with _ | _ | _ <;> cases sa <;> cases sb <;> cases ta <;> cases tb <;>
    cases fa <;> cases fb <;> decide

theorem safe_spec (q : IExpr) (r : Row) :
    (Safe true q r = true → q.sel2 r = (q.eval3 r == some true)) ∧
    (Safe false q r = true → (!q.sel2 r) = (q.eval3 r == some false)) := by
  induction q with
  | query c s =>
    simp only [Safe, IExpr.sel2, IExpr.eval3, hits_eq]
    refine ⟨by simp, ?_⟩
    intro h
    rcases hv : s.eval3 (cellAt r c) with _ | _ | _
    · simp [hv] at h
    · rfl
    · rfl
  | not e ih =>
    simp only [Safe, IExpr.sel2, IExpr.eval3, Bool.not_true, Bool.not_false, Bool.not_not]
    constructor
    · intro h
      rw [ih.2 h]
      rcases e.eval3 r with _ | _ | _ <;> rfl
    · intro h
      rw [ih.1 h]
      rcases e.eval3 r with _ | _ | _ <;> rfl
  | and a b iha ihb =>
    simp only [Safe, IExpr.sel2, IExpr.eval3]
    exact safe_and_case _ _ _ _ _ _ _ _ (sel2_bracket a r) (sel2_bracket b r) iha ihb
  | or a b iha ihb =>
    simp only [Safe, IExpr.sel2, IExpr.eval3]
    exact safe_or_case _ _ _ _ _ _ _ _ (sel2_bracket a r) (sel2_bracket b r) iha ihb

/-- the polarity-aware hypothesis is weaker than "nothing negated is NULL" -/
theorem nullSafe_imp_safe (q : IExpr) (r : Row) (h : NullSafe q r = true) :
    Safe true q r = true ∧ ((q.eval3 r).isSome = true → Safe false q r = true) := by
  induction q with
  | query c s => exact ⟨rfl, fun h => h⟩
  | not e ih =>
    simp only [NullSafe, Bool.and_eq_true] at h
    simp only [Safe, Bool.not_true, Bool.not_false]
    exact ⟨(ih h.1).2 h.2, fun _ => (ih h.1).1⟩
  | and a b iha ihb =>
    simp only [NullSafe, Bool.and_eq_true] at h
    have ha := iha h.1
    have hb := ihb h.2
    simp only [Safe, IExpr.eval3, ha.1, hb.1, Bool.and_self, Bool.or_true, true_and]
    intro hs
    generalize a.eval3 r = ea at *
    generalize b.eval3 r = eb at *
    rcases ea with _ | _ | _ <;> rcases eb with _ | _ | _ <;> simp_all [and3]
  | or a b iha ihb =>
    simp only [NullSafe, Bool.and_eq_true] at h
    have ha := iha h.1
    have hb := ihb h.2
    simp only [Safe, IExpr.eval3, ha.1, hb.1, Bool.and_self, Bool.or_true, true_and]
    intro hs
    generalize a.eval3 r = ea at *
    generalize b.eval3 r = eb at *
    rcases ea with _ | _ | _ <;> rcases eb with _ | _ | _ <;> simp_all [or3]

/-- columns of the leaves that sit under a NOT -/
def colsUnderNot : IExpr → Bool → List Nat
  | .query c _, u => if u then [c] else []
  | .not e, _ => colsUnderNot e true
  | .and a b, u => colsUnderNot a u ++ colsUnderNot b u
  | .or a b, u => colsUnderNot a u ++ colsUnderNot b u

/-- a query other than IS NULL is NULL only on a NULL cell -/
theorem sq_eval3_isSome (q : SQ) (c : Cell) (h : c.isSome = true) : (q.eval3 c).isSome = true := by
  cases c with
  | none => simp at h
  | some x =>
    cases q <;> simp [SQ.eval3, cmp3, in3]
    rename_i vs
    split <;> simp

theorem not3_isSome (a : Option Bool) (h : a.isSome = true) : (not3 a).isSome = true := by
  rcases a with _ | _ | _ <;> simp_all [not3]

theorem and3_isSome (a b : Option Bool) (ha : a.isSome = true) (hb : b.isSome = true) : (and3 a b).isSome = true := by
  rcases a with _ | _ | _ <;> rcases b with _ | _ | _ <;> simp_all [and3]

theorem or3_isSome (a b : Option Bool) (ha : a.isSome = true) (hb : b.isSome = true) : (or3 a b).isSome = true := by
  rcases a with _ | _ | _ <;> rcases b with _ | _ | _ <;> simp_all [or3]

theorem iexpr_eval3_isSome (q : IExpr) (r : Row) (h : ∀ c ∈ colsUnderNot q true, (cellAt r c).isSome = true) :
    (q.eval3 r).isSome = true := by
  induction q with
  | query c s => exact sq_eval3_isSome s _ (h c (by simp [colsUnderNot]))
  | not e ih => exact not3_isSome _ (ih (by simpa [colsUnderNot] using h))
  | and a b iha ihb =>
    simp only [colsUnderNot, List.mem_append] at h
    exact and3_isSome _ _ (iha (fun c hc => h c (Or.inl hc))) (ihb (fun c hc => h c (Or.inr hc)))
  | or a b iha ihb =>
    simp only [colsUnderNot, List.mem_append] at h
    exact or3_isSome _ _ (iha (fun c hc => h c (Or.inl hc))) (ihb (fun c hc => h c (Or.inr hc)))

/-- the column-level hypothesis (no NULL in a column that sits under a NOT) implies the row-level one -/
theorem nullSafe_of_cols (q : IExpr) (u : Bool) (r : Row)
    (h : ∀ c ∈ colsUnderNot q u, (cellAt r c).isSome = true) : NullSafe q r = true := by
  induction q generalizing u with
  | query c s => rfl
  | not e ih =>
    simp only [colsUnderNot] at h
    simp only [NullSafe, Bool.and_eq_true]
    exact ⟨ih true h, iexpr_eval3_isSome e r h⟩
  | and a b iha ihb =>
    simp only [colsUnderNot, List.mem_append] at h
    simp only [NullSafe, Bool.and_eq_true]
    exact ⟨iha u (fun c hc => h c (Or.inl hc)), ihb u (fun c hc => h c (Or.inr hc))⟩
  | or a b iha ihb =>
    simp only [colsUnderNot, List.mem_append] at h
    simp only [NullSafe, Bool.and_eq_true]
    exact ⟨iha u (fun c hc => h c (Or.inl hc)), ihb u (fun c hc => h c (Or.inr hc))⟩

end LanceModel.C19
