import LanceModel.C43.OpsLemmas
/-
C43: intersection with a sub-schema returns the sub-schema (J ⊆ I → I ∩ J = J).
-/
namespace LanceModel.C43

mutual
/-- well-formed field: non-negative ids, sibling names unique, primitive fields have no children, and `data_type()` is
    defined at every node -/
def Field.wf : Field → Bool
  | .mk n i k b m cs =>
    decide (0 ≤ i) && nodupB (cs.map Field.name) && (k.isNested || cs.isEmpty) && (Field.mk n i k b m cs).dtOk && wfL cs
def wfL : List Field → Bool
  | [] => true
  | f :: fs => f.wf && wfL fs
end

/-- `Schema::validate`-like well-formedness used as hypothesis of the algebraic laws -/
def Schema.wf (s : Schema) : Bool := nodupB (s.map Field.name) && wfL s

mutual
/-- `data_type()` is defined at every node -/
def Field.dtAll : Field → Bool
  | .mk n i k b m cs => (Field.mk n i k b m cs).dtOk && dtAllL cs
def dtAllL : List Field → Bool
  | [] => true
  | f :: fs => f.dtAll && dtAllL fs
end

theorem findByName_cons_ne (n : List Char) (c : Field) (l : List Field) (h : c.name ≠ n) :
    findByName n (c :: l) = findByName n l := by simp [findByName, h]

theorem findByName_cons_eq (c : Field) (l : List Field) : findByName c.name (c :: l) = some c := by
  simp [findByName]

theorem findByName_none_of_not_mem (n : List Char) : ∀ (l : List Field), n ∉ l.map Field.name → findByName n l = none
  | [], _ => rfl
  | c :: l, h => by
    simp only [List.map_cons, List.mem_cons, not_or] at h
    rw [findByName_cons_ne n c l (fun e => h.1 e.symm)]
    exact findByName_none_of_not_mem n l h.2

theorem Sub.name_eq {a b : Field} (h : Sub a b) : a.name = b.name := by cases h; rfl

theorem SubL.names_subset : ∀ {l r : List Field}, SubL l r → ∀ n, n ∈ l.map Field.name → n ∈ r.map Field.name
  | _, _, .nil, n, h => h
  | _, _, .skip h', n, h => by simp only [List.map_cons, List.mem_cons]; exact Or.inr (SubL.names_subset h' n h)
  | _, _, .cons hs h', n, h => by
    simp only [List.map_cons, List.mem_cons] at h ⊢
    rcases h with h | h
    · exact Or.inl (by rw [h, hs.name_eq])
    · exact Or.inr (SubL.names_subset h' n h)

theorem SubL.nil_right {l : List Field} (h : SubL l []) : l = [] := by cases h; rfl

theorem nodupB_cons {α : Type} [DecidableEq α] (x : α) (xs : List α) :
    nodupB (x :: xs) = true ↔ x ∉ xs ∧ nodupB xs = true := by
  simp [nodupB]

/-- `interL` only looks at `others` through name lookups of the fields of `cs` -/
theorem interL_congr (o1 o2 : List Field) : ∀ (cs : List Field),
    (∀ c ∈ cs, findByName c.name o1 = findByName c.name o2) → interL o1 cs = interL o2 cs
  | [], _ => by simp [interL]
  | c :: cs, h => by
    have h1 := h c (by simp)
    have h2 := interL_congr o1 o2 cs (fun d hd => h d (by simp [hd]))
    simp only [interL, h1, h2]

mutual
theorem Field.inter_sub (ig : Bool) :
    ∀ (f o : Field), Sub o f → f.wf = true → o.dtAll = true → f.inter ig o = .ok o
  | .mk n i k b m cs, o, hsub, hwf, hdo => by
    cases hsub with
    | mk hcs =>
      rename_i cs'
      simp only [Field.wf, Bool.and_eq_true, decide_eq_true_eq] at hwf
      obtain ⟨⟨⟨⟨hi, hnd⟩, hleaf⟩, hdt⟩, hwfl⟩ := hwf
      simp only [Field.dtAll, Bool.and_eq_true] at hdo
      simp only [Field.inter, Field.name_mk, ne_eq, not_true_eq_false, if_false, hdt, hdo.1, Bool.not_true,
        Bool.or_self, Bool.false_eq_true, Field.kind_mk, Field.children_mk, Field.id_mk]
      cases k with
      | leaf t =>
        simp only [Kind.isNested, Bool.false_or, List.isEmpty_iff] at hleaf
        subst hleaf
        have := hcs.nil_right; subst this
        simp [bothNested, hi]
      | struct =>
        have := interL_sub cs cs' hcs hnd hwfl hdo.2
        simp [bothNested, this, hi]
      | list =>
        have := interL_sub cs cs' hcs hnd hwfl hdo.2
        simp [bothNested, this, hi]
theorem interL_sub :
    ∀ (cs cs' : List Field), SubL cs' cs → nodupB (cs.map Field.name) = true → wfL cs = true →
      dtAllL cs' = true → interL cs' cs = .ok cs'
  | [], cs', h, _, _, _ => by have := h.nil_right; subst this; simp [interL]
  | c :: r, cs', h, hnd, hwf, hdo => by
    simp only [List.map_cons, nodupB_cons] at hnd
    simp only [wfL, Bool.and_eq_true] at hwf
    cases h with
    | skip h' =>
      have hnone : findByName c.name cs' = none :=
        findByName_none_of_not_mem _ _ (fun hm => hnd.1 (h'.names_subset _ hm))
      simp only [interL, hnone]
      exact interL_sub r cs' h' hnd.2 hwf.2 hdo
    | cons hs h' =>
      rename_i c' l
      simp only [dtAllL, Bool.and_eq_true] at hdo
      have hfind : findByName c.name (c' :: l) = some c' := by
        rw [← hs.name_eq]; exact findByName_cons_eq c' l
      have hc := Field.inter_sub false c c' hs hwf.1 hdo.1
      have hrest : interL (c' :: l) r = interL l r := by
        apply interL_congr
        intro d hd
        apply findByName_cons_ne
        intro e
        apply hnd.1
        rw [← hs.name_eq, e]
        exact List.mem_map.mpr ⟨d, hd, rfl⟩
      simp only [interL, hfind, hc, hrest, interL_sub r l h' hnd.2 hwf.2 hdo.2]
end

theorem SubL.find_original : ∀ {l r : List Field}, SubL l r → nodupB (r.map Field.name) = true →
    ∀ x ∈ l, ∃ f, findByName x.name r = some f ∧ Sub x f
  | _, _, .nil, _, x, hx => by simp at hx
  | _, _, .skip (f := f) h', hnd, x, hx => by
    simp only [List.map_cons, nodupB_cons] at hnd
    obtain ⟨g, hg, hs⟩ := SubL.find_original h' hnd.2 x hx
    refine ⟨g, ?_, hs⟩
    rw [findByName_cons_ne _ _ _ ?_]; exact hg
    intro e
    apply hnd.1
    rw [e]
    exact h'.names_subset _ (List.mem_map.mpr ⟨x, hx, rfl⟩)
  | _, _, .cons (f' := f') (f := f) hs h', hnd, x, hx => by
    simp only [List.map_cons, nodupB_cons] at hnd
    simp only [List.mem_cons] at hx
    rcases hx with rfl | hx
    · exact ⟨f, by rw [hs.name_eq]; exact findByName_cons_eq f _, hs⟩
    · obtain ⟨g, hg, hs'⟩ := SubL.find_original h' hnd.2 x hx
      refine ⟨g, ?_, hs'⟩
      rw [findByName_cons_ne _ _ _ ?_]; exact hg
      intro e
      apply hnd.1
      rw [e]
      exact h'.names_subset _ (List.mem_map.mpr ⟨x, hx, rfl⟩)

theorem wfL_mem : ∀ (l : List Field), wfL l = true → ∀ f ∈ l, f.wf = true
  | [], _, f, hf => by simp at hf
  | a :: l, h, f, hf => by
    simp only [wfL, Bool.and_eq_true] at h
    simp only [List.mem_cons] at hf
    rcases hf with rfl | hf
    · exact h.1
    · exact wfL_mem l h.2 f hf

theorem Schema.inter_sub_go (s : Schema) (ig : Bool) (hnd : nodupB (s.map Field.name) = true) (hwf : wfL s = true) :
    ∀ (o : Schema), (∀ x ∈ o, ∃ f, findByName x.name s = some f ∧ Sub x f) → dtAllL o = true →
      Schema.inter s ig o = .ok o
  | [], _, _ => by simp [Schema.inter]
  | x :: xs, h, hdo => by
    simp only [dtAllL, Bool.and_eq_true] at hdo
    obtain ⟨f, hf, hs⟩ := h x (by simp)
    have hfwf := wfL_mem s hwf f (findByName_some hf).2
    have h1 := Field.inter_sub ig f x hs hfwf hdo.1
    have h2 := Schema.inter_sub_go s ig hnd hwf xs (fun y hy => h y (by simp [hy])) hdo.2
    simp only [Schema.inter, hf, h1, h2]

end LanceModel.C43
