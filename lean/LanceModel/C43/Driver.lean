import LanceModel.Util
import LanceModel.C43.Model
/-
C43 driver: register machine over schemas and projections.  One output line per input line.
Protocol: see harness/src/bin/c43.rs.
-/
namespace LanceModel.C43.Driver
open LanceModel.Util LanceModel.C43

inductive Val where
  | s (x : Schema)
  | p (x : Projection)

abbrev St := List (String × Val)

def getS (st : St) (r : String) : Option Schema :=
  match st.lookup r with
  | some (.s x) => some x
  | _ => none

def getP (st : St) (r : String) : Option Projection :=
  match st.lookup r with
  | some (.p x) => some x
  | _ => none

def put (st : St) (r : String) (v : Val) : St := (r, v) :: st.filter (·.1 ≠ r)

/-- comma separated decimal code points, `-` = empty; surrogates / out of range are rejected like `char::from_u32` -/
def decStr (tok : String) : Option (List Char) :=
  if tok = "-" then some []
  else (tok.splitOn ",").mapM (fun x =>
    match x.toNat? with
    | some n => if h : n.isValidChar then some (Char.ofNatAux n h) else none
    | none => none)

def encStr (s : List Char) : String :=
  if s.isEmpty then "-" else ",".intercalate (s.map (fun c => toString c.toNat))

def isI32 (i : Int) : Bool := decide (-2147483648 ≤ i) && decide (i ≤ 2147483647)

def parseI32 (s : String) : Option Int :=
  match s.toInt? with
  | some i => if isI32 i && !s.startsWith "+" then some i else none
  | none => none

def parseIds (tok : String) : Option (List Int) :=
  if tok = "-" then some [] else (tok.splitOn ",").mapM parseI32

def showIds (l : List Int) : String :=
  if l.isEmpty then "-" else ",".intercalate (l.map toString)

def parseU32 (s : String) : Option Nat :=
  match s.toNat? with
  | some n => if n < 4294967296 && !s.startsWith "+" then some n else none
  | none => none

def showKind : Kind → String
  | .struct => "s"
  | .list => "l"
  | .leaf t => "t" ++ toString t

def parseKind : String → Option Kind
  | "s" => some .struct
  | "l" => some .list
  | "t0" => some (.leaf 0)
  | "t1" => some (.leaf 1)
  | "t2" => some (.leaf 2)
  | "t3" => some (.leaf 3)
  | _ => none

mutual
def dumpField : Field → String
  | .mk n i k b m cs =>
    encStr n ++ ":" ++ toString i ++ ":" ++ showKind k ++ ":" ++ (if b then "1" else "0") ++ ":" ++ toString m
      ++ (match cs with
          | [] => ""
          | _ => "{" ++ dumpFields cs ++ "}")
def dumpFields : List Field → String
  | [] => ""
  | [f] => dumpField f
  | f :: fs => dumpField f ++ " " ++ dumpFields fs
end

def dumpSchema (s : Schema) : String := "[" ++ dumpFields s ++ "]"

def insertSortedI (x : Int) : List Int → List Int
  | [] => [x]
  | y :: t => if x < y then x :: y :: t else if x = y then y :: t else y :: insertSortedI x t

def sortDedup (l : List Int) : List Int := l.foldr insertSortedI []

def b01 (b : Bool) : String := if b then "1" else "0"

def dumpProj (p : Projection) : String :=
  "ids=" ++ showIds (sortDedup p.ids) ++ " rid=" ++ b01 p.rid ++ " raddr=" ++ b01 p.raddr
    ++ " upd=" ++ b01 p.upd ++ " crt=" ++ b01 p.crt

def showErr : Err → String
  | .schema => "err:schema"
  | .arrow => "err:arrow"
  | .invalid => "err:invalid"
  | .index => "err:index"
  | .panic => "panic"

/-- one field in prefix form; fuel bounds the nesting depth like the harness (depth ≤ 16) -/
def parseField : Nat → List String → Option (Field × List String)
  | 0, _ => none
  | fuel + 1, n :: i :: k :: b :: m :: c :: rest =>
    match decStr n, parseI32 i, parseKind k, (if b = "0" then some false else if b = "1" then some true else none),
          parseU32 m, c.toNat? with
    | some n, some i, some k, some b, some m, some c =>
      let rec kids : Nat → List String → Option (List Field × List String)
        | 0, r => some ([], r)
        | j + 1, r =>
          match parseField fuel r with
          | some (f, r') =>
            match kids j r' with
            | some (fs, r'') => some (f :: fs, r'')
            | none => none
          | none => none
      match kids c rest with
      | some (cs, r) => some (.mk n i k b m cs, r)
      | none => none
    | _, _, _, _, _, _ => none
  | _, _ => none

def parseFields : Nat → List String → Option (List Field × List String)
  | 0, r => some ([], r)
  | j + 1, r =>
    match parseField 17 r with
    | some (f, r') =>
      match parseFields j r' with
      | some (fs, r'') => some (f :: fs, r'')
      | none => none
    | none => none

def parseSchema (toks : List String) : Option Schema :=
  match toks with
  | n :: rest =>
    match n.toNat? with
    | some n =>
      -- a count larger than the token list cannot succeed; cap it so that the recursion stays small
      if n > rest.length then none
      else
        match parseFields n rest with
        | some (fs, []) => some fs
        | _ => none
    | none => none
  | [] => none

def bad : String := "bad-op"

def parse01 (s : String) : Option Bool := if s = "0" then some false else if s = "1" then some true else none

def schemaResult (st : St) (r : String) : Except Err Schema → St × String
  | .ok s => (put st r (.s s), dumpSchema s)
  | .error e => (st, showErr e)

def step (st : St) (line : String) : St × String :=
  match splitTokens line with
  | "def" :: r :: toks =>
    match parseSchema toks with
    | some s => (put st r (.s s), dumpSchema s)
    | none => (st, bad)
  | ["pids", r, a, ids, b] =>
    match getS st a, parseIds ids, parse01 b with
    | some a, some ids, some b => let x := a.projectByIds ids b; (put st r (.s x), dumpSchema x)
    | _, _, _ => (st, bad)
  | ["excl", r, a, b] =>
    match getS st a, getS st b with
    | some a, some b => schemaResult st r (a.exclude b)
    | _, _ => (st, bad)
  | ["isect", r, a, b, ig] =>
    match getS st a, getS st b, parse01 ig with
    | some a, some b, some ig => schemaResult st r (Schema.inter a ig b)
    | _, _, _ => (st, bad)
  | ["merge", r, a, b] =>
    match getS st a, getS st b with
    | some a, some b => schemaResult st r (a.merge b)
    | _, _ => (st, bad)
  | "proj" :: r :: a :: k :: cols =>
    match getS st a, k.toNat?, cols.mapM decStr with
    | some a, some k, some cs => if k = cols.length then schemaResult st r (a.project cs true) else (st, bad)
    | _, _, _ => (st, bad)
  | "projd" :: r :: a :: k :: cols =>
    match getS st a, k.toNat?, cols.mapM decStr with
    | some a, some k, some cs => if k = cols.length then schemaResult st r (a.project cs false) else (st, bad)
    | _, _, _ => (st, bad)
  | ["resolve", a, p] =>
    match getS st a, decStr p with
    | some a, some p =>
      match a.resolve p with
      | some fs => (st, showIds (fs.map Field.id))
      | none => (st, "none")
    | _, _ => (st, bad)
  | ["byid", a, i] =>
    match getS st a, parseI32 i with
    | some a, some i =>
      match byIdL i a with
      | some f => (st, dumpField f)
      | none => (st, "none")
    | _, _ => (st, bad)
  | ["fpath", a, i] =>
    match getS st a, parseI32 i with
    | some a, some i =>
      match a.fieldPath i with
      | some p => (st, encStr p)
      | none => (st, "err:index")
    | _, _ => (st, bad)
  | ["setid", r, a, m] =>
    match getS st a, (if m = "none" then some none else (parseI32 m).map some) with
    | some a, some m => let x := a.setFieldId m; (put st r (.s x), dumpSchema x)
    | _, _ => (st, bad)
  | ["maxid", a] =>
    match getS st a with
    | some a => (st, match a.maxFieldId with | some m => toString m | none => "none")
    | none => (st, bad)
  | ["ids", a] =>
    match getS st a with
    | some a => (st, showIds (idsL a))
    | none => (st, bad)
  | ["validate", a] =>
    match getS st a with
    | some a => (st, if a.validate then "ok" else "err:schema")
    | none => (st, bad)
  | ["parse", p] =>
    match decStr p with
    | some p =>
      match parsePath p with
      | some segs => (st, "ok " ++ toString segs.length ++ " " ++ " ".intercalate (segs.map encStr))
      | none => (st, "err:schema")
    | none => (st, bad)
  | "fmt" :: k :: segs =>
    match k.toNat?, segs.mapM decStr with
    | some k, some ss => if k = segs.length then (st, encStr (formatPath ss)) else (st, bad)
    | _, _ => (st, bad)
  | ["esc", p] =>
    match decStr p with
    | some p => (st, encStr (escapePath p))
    | none => (st, bad)
  | ["pempty", r, a] =>
    match getS st a with
    | some a => let x := Projection.empty a; (put st r (.p x), dumpProj x)
    | none => (st, bad)
  | ["pfull", r, a] =>
    match getS st a with
    | some a => let x := Projection.full a; (put st r (.p x), dumpProj x)
    | none => (st, bad)
  | ["pcol", r, q, col, om] =>
    match getP st q, decStr col, (if om = "e" then some true else if om = "i" then some false else none) with
    | some q, some col, some om =>
      match q.unionColumn col om with
      | .ok x => (put st r (.p x), dumpProj x)
      | .error e => (st, showErr e)
    | _, _, _ => (st, bad)
  | ["pusch", r, q, s] =>
    match getP st q, getS st s with
    | some q, some s => let x := q.unionSchema s; (put st r (.p x), dumpProj x)
    | _, _ => (st, bad)
  | ["pssch", r, q, s] =>
    match getP st q, getS st s with
    | some q, some s => let x := q.subtractSchema s; (put st r (.p x), dumpProj x)
    | _, _ => (st, bad)
  | ["puni", r, q1, q2] =>
    match getP st q1, getP st q2 with
    | some a, some b => let x := a.union b; (put st r (.p x), dumpProj x)
    | _, _ => (st, bad)
  | ["psub", r, q1, q2] =>
    match getP st q1, getP st q2 with
    | some a, some b => let x := a.subtract b; (put st r (.p x), dumpProj x)
    | _, _ => (st, bad)
  | ["pint", r, q1, q2] =>
    match getP st q1, getP st q2 with
    | some a, some b => let x := a.intersect b; (put st r (.p x), dumpProj x)
    | _, _ => (st, bad)
  | ["pflag", r, q, k] =>
    match getP st q with
    | some q =>
      match k with
      | "rid" => let x := { q with rid := true }; (put st r (.p x), dumpProj x)
      | "raddr" => let x := { q with raddr := true }; (put st r (.p x), dumpProj x)
      | "upd" => let x := { q with upd := true }; (put st r (.p x), dumpProj x)
      | "crt" => let x := { q with crt := true }; (put st r (.p x), dumpProj x)
      | _ => (st, bad)
    | none => (st, bad)
  | ["pbare", r, q] =>
    match getP st q with
    | some q => schemaResult st r q.toBareSchema
    | none => (st, bad)
  | _ => (st, bad)

end LanceModel.C43.Driver
