import LanceModel.C43.TreeLemmas
/-
C43: `merge` only adds fields: the left schema is a sub-schema of the result.
-/
namespace LanceModel.C43

mutual
theorem Sub.trans : ∀ (c a b : Field), Sub a b → Sub b c → Sub a c
  | .mk _ _ _ _ _ cs, _, _, h1, h2 => by
    cases h2 with
    | mk h2' =>
      cases h1 with
      | mk h1' => exact Sub.mk (SubL.trans cs _ _ h1' h2')
theorem SubL.trans : ∀ (r l m : List Field), SubL l m → SubL m r → SubL l r
  | [], l, m, h1, h2 => by
    cases h2; cases h1; exact SubL.nil
  | f :: r, l, m, h1, h2 => by
    cases h2 with
    | skip h2' => exact SubL.skip (SubL.trans r l m h1 h2')
    | cons hs h2' =>
      cases h1 with
      | skip h1' => exact SubL.skip (SubL.trans r l _ h1' h2')
      | cons hs1 h1' => exact SubL.cons (Sub.trans f _ _ hs1 hs) (SubL.trans r _ _ h1' h2')
end

theorem SubL.append_right : ∀ (cs extra : List Field), SubL cs (cs ++ extra)
  | [], extra => SubL.nil_left _
  | c :: cs, extra => SubL.cons (Sub.refl c) (SubL.append_right cs extra)

theorem updFirst_sub (n : List Char) (g : Field → Except Err Field)
    (hg : ∀ c c', g c = .ok c' → Sub c c') :
    ∀ (cs cs' : List Field), updFirst n g cs = .ok (some cs') → SubL cs cs'
  | [], cs', h => by simp [updFirst] at h
  | c :: cs, cs', h => by
    simp only [updFirst] at h
    split at h
    · split at h
      · cases h
      · rename_i c' hc
        cases h
        exact SubL.cons (hg c c' hc) (SubL.refl cs)
    · split at h
      · cases h
      · cases h
      · rename_i cs1 h1
        cases h
        exact SubL.cons (Sub.refl c) (updFirst_sub n g hg cs cs1 h1)

mutual
theorem Field.mergeWith_sub : ∀ (o self r : Field), self.mergeWith o = .ok r → Sub self r
  | .mk on oi ok ob om ocs, self, r, h => by
    cases self with
    | mk n i k b m cs =>
      unfold Field.mergeWith at h
      split at h
      · cases h
      · simp only [Field.kind_mk, Field.children_mk, Field.withChildren] at h
        split at h
        · split at h
          · cases h
          · rename_i cs' hcs
            cases h
            exact Sub.mk (mergeChildren_sub ocs cs cs' hcs)
        · split at h
          · rename_i c cs1 oc _ _
            split at h
            · cases h
            · rename_i c' hc
              cases h
              exact Sub.mk (SubL.cons (Field.mergeWith_sub oc c c' hc) (SubL.refl _))
          · cases h
        · split at h
          · cases h
          · cases h; exact Sub.refl _
theorem mergeChildren_sub : ∀ (ocs cs r : List Field), mergeChildren cs ocs = .ok r → SubL cs r
  | [], cs, r, h => by simp [mergeChildren] at h; cases h; exact SubL.refl _
  | oc :: ocs, cs, r, h => by
    unfold mergeChildren at h
    split at h
    · cases h
    · rename_i cs1 h1
      have s1 := updFirst_sub oc.name (fun c => c.mergeWith oc)
        (fun c c' hc => Field.mergeWith_sub oc c c' hc) cs cs1 h1
      exact SubL.trans r _ _ s1 (mergeChildren_sub ocs cs1 r h)
    · exact SubL.trans r _ _ (SubL.append_right cs [oc]) (mergeChildren_sub ocs _ r h)
end

theorem mergeTop_sub (other : Schema) : ∀ (s r : Schema), mergeTop other s = .ok r → SubL s r
  | [], r, h => by simp [mergeTop] at h; cases h; exact SubL.nil
  | f :: fs, r, h => by
    simp only [mergeTop] at h
    split at h
    · cases h
    · rename_i f' hf
      split at h
      · cases h
      · rename_i rest hrest
        cases h
        refine SubL.cons ?_ (mergeTop_sub other fs rest hrest)
        split at hf
        · rename_i o _; exact Field.mergeWith_sub o f f' hf
        · cases hf; exact Sub.refl _

theorem mergeNew_sub : ∀ (os acc : Schema), SubL acc (mergeNew acc os)
  | [], acc => SubL.refl _
  | o :: os, acc => by
    simp only [mergeNew]
    split
    · exact mergeNew_sub os acc
    · exact SubL.trans _ _ _ (SubL.append_right acc [o]) (mergeNew_sub os _)

theorem Schema.merge_sub (s o r : Schema) (h : Schema.merge s o = .ok r) : SubL s r := by
  simp only [Schema.merge] at h
  split at h
  · cases h
  · rename_i merged hm
    cases h
    exact SubL.trans _ _ _ (mergeTop_sub _ s merged hm) (mergeNew_sub _ merged)

end LanceModel.C43
