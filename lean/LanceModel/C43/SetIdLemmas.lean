import LanceModel.C43.TreeLemmas
/-
C43: `set_field_id` relabels exactly the negative ids, in pre-order, with consecutive fresh ids.
-/
namespace LanceModel.C43

/-- specification on the pre-order id list: a negative id is replaced by the next fresh id -/
def relabel : List Int → Int → List Int
  | [], _ => []
  | i :: t, seed => if i < 0 then seed :: relabel t (seed + 1) else i :: relabel t seed

/-- the seed after relabelling -/
def relabelSeed : List Int → Int → Int
  | [], seed => seed
  | i :: t, seed => if i < 0 then relabelSeed t (seed + 1) else relabelSeed t seed

theorem relabel_append (a b : List Int) : ∀ seed,
    relabel (a ++ b) seed = relabel a seed ++ relabel b (relabelSeed a seed) := by
  induction a with
  | nil => intro seed; simp [relabel, relabelSeed]
  | cons i t ih =>
    intro seed
    simp only [List.cons_append, relabel, relabelSeed]
    split <;> simp [ih]

theorem relabelSeed_append (a b : List Int) : ∀ seed,
    relabelSeed (a ++ b) seed = relabelSeed b (relabelSeed a seed) := by
  induction a with
  | nil => intro seed; simp [relabelSeed]
  | cons i t ih =>
    intro seed
    simp only [List.cons_append, relabelSeed]
    split <;> simp [ih]

mutual
theorem Field.setId_ids : ∀ (f : Field) (seed : Int),
    (f.setId seed).1.ids = relabel f.ids seed ∧ (f.setId seed).2 = relabelSeed f.ids seed
  | .mk n i k b m cs, seed => by
    simp only [Field.setId, Field.ids, relabel, relabelSeed]
    by_cases hi : i < 0
    · have := setIdL_ids cs (seed + 1)
      simp only [hi, if_true, this.1, this.2, and_self]
    · have := setIdL_ids cs seed
      simp only [hi, if_false, this.1, this.2, and_self]
theorem setIdL_ids : ∀ (cs : List Field) (seed : Int),
    idsL (setIdL cs seed).1 = relabel (idsL cs) seed ∧ (setIdL cs seed).2 = relabelSeed (idsL cs) seed
  | [], seed => by simp [setIdL, idsL, relabel, relabelSeed]
  | f :: fs, seed => by
    have h1 := Field.setId_ids f seed
    have h2 := setIdL_ids fs (f.setId seed).2
    rw [h1.2] at h2
    simp only [setIdL, idsL, relabel_append, relabelSeed_append, h1.1, h1.2, h2.1, h2.2, and_self]
end

mutual
/-- nothing but ids changes -/
theorem Field.setId_shape : ∀ (f : Field) (seed : Int), (f.setId seed).1.resetId = f.resetId
  | .mk n i k b m cs, seed => by
    simp only [Field.setId, Field.resetId]
    rw [setIdL_shape]
theorem setIdL_shape : ∀ (cs : List Field) (seed : Int), resetIdL (setIdL cs seed).1 = resetIdL cs
  | [], _ => by simp [setIdL, resetIdL]
  | f :: fs, seed => by
    simp only [setIdL, resetIdL]
    rw [Field.setId_shape f seed, setIdL_shape fs]
end

theorem maxInt_ge_left (a b : Int) : a ≤ maxInt a b := by unfold maxInt; split <;> omega
theorem maxInt_ge_right (a b : Int) : b ≤ maxInt a b := by unfold maxInt; split <;> omega

mutual
theorem Field.ids_le_maxId : ∀ (f : Field), ∀ i ∈ f.ids, i ≤ f.maxId
  | .mk n j k b m cs, i, hi => by
    simp only [Field.ids, List.mem_cons] at hi
    simp only [Field.maxId]
    rcases hi with rfl | hi
    · exact maxInt_ge_left _ _
    · have := idsL_le_maxIdL cs i hi
      obtain ⟨mx, hmx, hle⟩ := this
      rw [hmx]
      exact Int.le_trans hle (maxInt_ge_right _ _)
theorem idsL_le_maxIdL : ∀ (cs : List Field), ∀ i ∈ idsL cs, ∃ mx, maxIdL cs = some mx ∧ i ≤ mx
  | [], i, hi => by simp [idsL] at hi
  | f :: fs, i, hi => by
    simp only [idsL, List.mem_append] at hi
    simp only [maxIdL]
    rcases hi with hi | hi
    · have := Field.ids_le_maxId f i hi
      cases maxIdL fs with
      | none => exact ⟨_, rfl, this⟩
      | some mx => exact ⟨_, rfl, Int.le_trans this (maxInt_ge_left _ _)⟩
    · obtain ⟨mx, hmx, hle⟩ := idsL_le_maxIdL fs i hi
      rw [hmx]
      exact ⟨_, rfl, Int.le_trans hle (maxInt_ge_right _ _)⟩
end

mutual
theorem Field.maxId_ge : ∀ (f : Field), -1 ≤ f.maxId
  | .mk n i k b m cs => by
    simp only [Field.maxId]
    cases h : maxIdL cs with
    | none => exact maxInt_ge_right _ _
    | some c => exact Int.le_trans (maxIdL_ge cs c h) (maxInt_ge_right _ _)
theorem maxIdL_ge : ∀ (cs : List Field) (mx : Int), maxIdL cs = some mx → -1 ≤ mx
  | [], mx, h => by simp [maxIdL] at h
  | f :: fs, mx, h => by
    simp only [maxIdL] at h
    have hf := Field.maxId_ge f
    cases hm : maxIdL fs with
    | none => rw [hm] at h; simp at h; omega
    | some c =>
      rw [hm] at h; simp at h
      have := maxInt_ge_left f.maxId c
      omega
end

/-- facts about the specification: kept ids are the old non-negative ones; new ids are ≥ seed and strictly increasing -/
theorem relabel_mem (l : List Int) : ∀ seed j, j ∈ relabel l seed →
    (j ∈ l ∧ 0 ≤ j) ∨ (seed ≤ j ∧ j < relabelSeed l seed) := by
  induction l with
  | nil => intro seed j h; simp [relabel] at h
  | cons i t ih =>
    intro seed j h
    have hmono : ∀ (l : List Int) (s : Int), s ≤ relabelSeed l s := by
      intro l; induction l with
      | nil => intro s; simp [relabelSeed]
      | cons a t iht => intro s; simp only [relabelSeed]; split
                        · have := iht (s + 1); omega
                        · exact iht s
    simp only [relabel] at h
    simp only [relabelSeed]
    split at h
    · rename_i hneg
      simp only [hneg, if_true]
      simp only [List.mem_cons] at h
      rcases h with rfl | h
      · right; have := hmono t (j + 1); omega
      · rcases ih (seed + 1) j h with h1 | h1
        · left; exact ⟨by simp [h1.1], h1.2⟩
        · right; omega
    · rename_i hneg
      simp only [hneg, if_false]
      simp only [List.mem_cons] at h
      rcases h with rfl | h
      · left; exact ⟨by simp, by omega⟩
      · rcases ih seed j h with h1 | h1
        · left; exact ⟨by simp [h1.1], h1.2⟩
        · right; exact h1

end LanceModel.C43
