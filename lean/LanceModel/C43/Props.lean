import LanceModel.C43.PathLemmas
import LanceModel.C43.InterLemmas
import LanceModel.C43.ExcludeLemmas
import LanceModel.C43.SetIdLemmas
import LanceModel.C43.MergeLemmas
import LanceModel.C43.InterLeftLemmas
import LanceModel.C43.ExcludePathsLemmas
import LanceModel.C43.MergePathsLemmas
/-
C43 property theorems.  Statement (properties.jsonl): schema projection by names or ids, exclusion, intersection and
merging, and the union/subtract/intersect operations on projections, behave as the corresponding set operations on field
ids (keeping ancestors of selected nested fields), preserve each kept field's name, type, nullability, metadata and id, and
resolving a (possibly quoted, dotted) column path finds exactly the field it names.
-/
namespace LanceModel.C43

/-! ## Field paths -/

/-- `parse_field_path(format_field_path(segs)) = segs` for EVERY list of segments (any characters: dots, backticks,
    unicode …) provided the list and each segment are non-empty. -/
theorem parse_format_roundtrip (segs : List (List Char)) (h0 : segs ≠ []) (hall : ∀ s ∈ segs, s ≠ []) :
    parsePath (formatPath segs) = some segs :=
  parsePath_join formatSeg parseGo_formatSeg formatSeg_ne_nil segs h0 hall

example : parsePath (formatPath ["a.b".toList, "`".toList, " é\\".toList]) = some ["a.b".toList, "`".toList, " é\\".toList] := by
  decide

/-- the side condition is exactly what the code rejects: a successful parse never yields an empty list or an empty
    segment, so no path denotes a segment list that violates it. -/
theorem parse_ok_nonempty (p : List Char) (segs : List (List Char)) (h : parsePath p = some segs) :
    segs ≠ [] ∧ ∀ s ∈ segs, s ≠ [] := by
  unfold parsePath at h
  split at h
  · simp at h
  · split at h
    · simp at h
    · rename_i res cur inQ hgo
      split at h
      · simp at h
      · split at h
        · rename_i hcur
          simp only [Option.some.injEq] at h
          subst h
          refine ⟨by simp, ?_⟩
          intro s hs
          rcases List.mem_append.mp hs with h1 | h1
          · exact parseGo_nonempty p [] [] false res cur inQ hgo (by simp) s h1
          · simp at h1; subst h1; exact hcur
        · simp at h

/-- … and conversely formatting a list with an empty segment (or the empty list) is not parsed back -/
theorem parse_format_needs_nonempty (segs : List (List Char)) (h : segs = [] ∨ [] ∈ segs) :
    parsePath (formatPath segs) ≠ some segs := by
  intro hp
  have := parse_ok_nonempty _ _ hp
  rcases h with h | h
  · exact this.1 h
  · exact this.2 [] h rfl

example : parsePath (formatPath ["a".toList, []]) = none := by decide

/-- `escape_field_path_for_project` denotes the same segments as its input whenever the input parses -/
theorem parse_escape (p : List Char) (segs : List (List Char)) (h : parsePath p = some segs) :
    parsePath (escapePath p) = some segs := by
  unfold escapePath
  split
  · exact h
  · have hne := parse_ok_nonempty p segs h
    simp only [h]
    exact parsePath_join quoteSeg parseGo_quoteSeg (fun s _ => quoteSeg_ne_nil s) segs hne.1 hne.2

example : parsePath (escapePath ['a', '.', '`', 'b', '.', 'c', '`']) = some [['a'], ['b', '.', 'c']] := by rfl

/-- formatting is injective on admissible segment lists: distinct field paths get distinct strings -/
theorem format_injective (a b : List (List Char)) (ha0 : a ≠ []) (ha : ∀ s ∈ a, s ≠ [])
    (hb0 : b ≠ []) (hb : ∀ s ∈ b, s ≠ []) (h : formatPath a = formatPath b) : a = b := by
  have h1 := parse_format_roundtrip a ha0 ha
  have h2 := parse_format_roundtrip b hb0 hb
  rw [h] at h1
  rw [h1] at h2
  exact Option.some.inj h2

/-! ## resolve: a column path finds exactly the field it names -/

/-- whatever `Schema::resolve` returns is a root-to-field chain (first field top-level, each next one a child of the
    previous, each the first of its siblings with its name) whose names are exactly the parsed segments of the column -/
theorem resolve_sound (s : Schema) (col : List Char) (fs : List Field) (h : s.resolve col = some fs) :
    RootChain s fs ∧ parsePath col = some (fs.map Field.name) := by
  unfold Schema.resolve at h
  split at h
  · simp at h
  · rename_i split hsplit
    cases split with
    | nil => simp [resolveSegs] at h
    | cons first rest =>
      simp only [resolveSegs] at h
      split at h
      · rename_i f hf
        have hn := findByName_some hf
        have := Field.resolve_chain rest s f fs (by rw [hn.1]; exact hf) h
        exact ⟨this.1, by rw [hsplit, this.2, hn.1]⟩
      · simp at h

/-- … and every such chain with non-empty names is found by resolving its formatted path (quoted where needed): in a
    schema with unique sibling names every field is reachable, and only by its own path. -/
theorem resolve_complete (s : Schema) (chain : List Field) (hc : RootChain s chain)
    (hne : ∀ f ∈ chain, f.name ≠ []) :
    s.resolve (formatPath (chain.map Field.name)) = some chain := by
  have hchain0 : chain ≠ [] := by cases hc <;> simp
  have hp := parse_format_roundtrip (chain.map Field.name) (by simpa using hchain0)
    (by intro n hn; obtain ⟨f, hf, rfl⟩ := List.mem_map.mp hn; exact hne f hf)
  unfold Schema.resolve
  rw [hp]
  cases hc with
  | one hf => simp [resolveSegs, hf, Field.resolve]
  | cons hf hrest =>
    simp only [List.map_cons, resolveSegs, hf]
    exact Field.resolve_of_chain _ _ hrest

private def exS : Schema :=
  [.mk ['a'] 0 .struct true 0 [.mk ['b', '.', 'c'] 1 (.leaf 0) true 0 [], .mk ['`'] 2 (.leaf 1) false 1 []],
   .mk ['l'] 3 .list true 0 [.mk ['i'] 4 .struct true 0 [.mk ['x'] 5 (.leaf 0) true 0 [], .mk ['y'] 6 (.leaf 0) true 2 []]]]

example : (exS.resolve (formatPath [['a'], ['b', '.', 'c']])).map (·.map Field.id) = some [0, 1] := by rfl
example : (exS.resolve ['a', '.', 'b', '.', 'c']) = none := by rfl

/-! ## project_by_ids -/

/-- the result is the input with sub-trees removed: every kept field keeps its name, id, type, nullability and metadata,
    and kept fields keep their relative order -/
theorem projectByIds_sub (s : Schema) (I : List Int) (all : Bool) : SubL (s.projectByIds I all) s :=
  projIdsL_sub I all s

/-- exact id semantics, order included: the pre-order ids of the result are the pre-order ids of the schema filtered
    by `keep`: a field is kept iff its subtree contains a selected id (= it is in the ancestor closure of the selection)
    or it lies below a selected field that is taken as a whole (`include_all_children`, or no selected strict descendant). -/
theorem projectByIds_ids (s : Schema) (I : List Int) (all : Bool) :
    idsL (s.projectByIds I all) = ((pathsL [] s).filter (keep I all)).map (fun p => p.2.id) :=
  projIdsL_ids I all s [] (by simp)

/-- top-level fields (and, recursively, any field) survive iff something in their subtree is selected -/
theorem projectByIds_survives (I : List Int) (all : Bool) (f : Field) :
    (f.projIds I all).isSome = hits I f := Field.projIds_isSome I all f

example : idsL (exS.projectByIds [6] false) = [3, 4, 6] := by rfl
-- a selected parent without selected descendants brings all its children (documented in field.rs) …
example : idsL (exS.projectByIds [3] false) = [3, 4, 5, 6] := by rfl
-- … but not when a descendant is selected as well, unless include_all_children
example : idsL (exS.projectByIds [4, 6] false) = [3, 4, 6] := by rfl
example : idsL (exS.projectByIds [4, 6] true) = [3, 4, 5, 6] := by rfl

/-! ## Projection → schema (`to_bare_schema`): exact ancestor closure -/

theorem toBareSchema_sub (p : Projection) (r : Schema) (h : p.toBareSchema = .ok r) : SubL r p.base :=
  applyProjL_sub p.ids p.base r h

/-- `ids (to_bare_schema p) = ancestorClosure (p.ids ∩ ids base)`, in schema order -/
theorem toBareSchema_closure (p : Projection) (r : Schema) (h : p.toBareSchema = .ok r) :
    idsL r = ((pathsL [] p.base).filter (fun q => hits p.ids q.2)).map (fun q => q.2.id) :=
  applyProjL_ids p.ids p.base [] r h

/-- the `assert!` in `Field::apply_projection` does not fire if every selected field with children has a selected
    descendant -/
theorem toBareSchema_ok (p : Projection)
    (h : ∀ g ∈ nodesL p.base, p.ids.contains g.id = true → g.children = [] ∨ hitsL p.ids g.children = true) :
    ∃ r, p.toBareSchema = .ok r := applyProjL_ok p.ids p.base h

example : (match (Projection.mk exS [6, 1] false false false false).toBareSchema with
    | .ok r => idsL r | .error _ => []) = [0, 1, 3, 4, 6] := by rfl
-- the assert fires when a struct is selected without any of its descendants
example : (match (Projection.mk exS [4] false false false false).toBareSchema with
    | .ok _ => false | .error e => e == .panic) = true := by rfl

/-! ## Projection set operations -/

theorem projection_union (p q : Projection) (i : Int) :
    (i ∈ (p.union q).ids ↔ i ∈ p.ids ∨ i ∈ q.ids) ∧ (p.union q).rid = (p.rid || q.rid)
      ∧ (p.union q).raddr = (p.raddr || q.raddr) ∧ (p.union q).upd = (p.upd || q.upd)
      ∧ (p.union q).crt = (p.crt || q.crt) ∧ (p.union q).base = p.base := by
  simp [Projection.union]

theorem projection_subtract (p q : Projection) (i : Int) :
    (i ∈ (p.subtract q).ids ↔ i ∈ p.ids ∧ i ∉ q.ids) ∧ (p.subtract q).rid = (p.rid && !q.rid)
      ∧ (p.subtract q).raddr = (p.raddr && !q.raddr) ∧ (p.subtract q).upd = (p.upd && !q.upd)
      ∧ (p.subtract q).crt = (p.crt && !q.crt) ∧ (p.subtract q).base = p.base := by
  simp [Projection.subtract]

theorem projection_intersect (p q : Projection) (i : Int) :
    (i ∈ (p.intersect q).ids ↔ i ∈ p.ids ∧ i ∈ q.ids) ∧ (p.intersect q).rid = (p.rid && q.rid)
      ∧ (p.intersect q).raddr = (p.raddr && q.raddr) ∧ (p.intersect q).upd = (p.upd && q.upd)
      ∧ (p.intersect q).crt = (p.crt && q.crt) ∧ (p.intersect q).base = p.base := by
  simp [Projection.intersect]

/-- `union_column`: a resolvable, non-special column adds exactly the ids on its path and all ids below its last field
    (so the `to_bare_schema` assert cannot fire because of it) -/
theorem projection_union_column (p : Projection) (col : List Char) (e : Bool) (fs : List Field)
    (hsp : col ≠ rowId ∧ col ≠ rowAddr ∧ col ≠ rowUpd ∧ col ≠ rowCrt) (hr : p.base.resolve col = some fs) :
    ∃ p', p.unionColumn col e = .ok p' ∧ p'.base = p.base ∧
      ∀ i, i ∈ p'.ids ↔ i ∈ p.ids ∨ i ∈ fs.map Field.id ∨
        i ∈ (match fs.getLast? with | some l => idsL l.children | none => []) := by
  refine ⟨{ p with ids := p.ids ++ fs.map Field.id ++ (match fs.getLast? with
      | some l => idsL l.children
      | none => []) }, ?_, rfl, ?_⟩
  · simp only [Projection.unionColumn, hsp.1, hsp.2.1, hsp.2.2.1, hsp.2.2.2, if_false, hr]
    rfl
  · intro i
    simp only [List.mem_append, or_assoc]

example : (match (Projection.empty exS).unionColumn ['l', '.', 'i'] true with
    | .ok p => p.ids | .error _ => []) = [3, 4, 5, 6] := by rfl

/-! ## exclude -/

/-- `Schema::exclude` only removes sub-trees: every kept field keeps name, id, type, nullability, metadata and order -/
theorem exclude_sub (s o r : Schema) (h : Schema.exclude s o = .ok r) : SubL r s := Schema.exclude_sub s o r h

example : (match Schema.exclude exS (exS.projectByIds [5] false) with
    | .ok r => idsL r | .error _ => []) = [0, 1, 2, 3, 4, 6] := by rfl
example : (match Schema.exclude exS exS with | .ok r => idsL r | .error _ => [0]) = [] := by rfl

/-- I \ J on leaves: excluding a sub-schema `o` (same names, ids, attributes; e.g. a projection) from a well-formed
    schema succeeds and keeps exactly the primitive fields (identified by their name paths, which are unique in a
    well-formed schema) that are not primitive fields of `o`, in schema order; by `exclude_sub` the nested fields that
    remain are the ancestors of those leaves (or untouched sub-trees). -/
theorem exclude_sub_schema (s o : Schema) (hsub : SubL o s) (hwf : s.wf = true) :
    ∃ r, Schema.exclude s o = .ok r ∧ SubL r s ∧
      leafPathsL r = (leafPathsL s).filter (fun p => !(leafPathsL o).contains p) := by
  simp only [Schema.wf, Bool.and_eq_true] at hwf
  obtain ⟨r, hr, hp⟩ := excludeL_leafPaths s o hsub hwf.1 hwf.2
  rw [← Schema.exclude_eq_excludeL] at hr
  exact ⟨r, hr, Schema.exclude_sub s o r hr, hp⟩

/-- instance: removing a by-id projection of the same schema -/
theorem exclude_projection (s : Schema) (I : List Int) (all : Bool) (hwf : s.wf = true) :
    ∃ r, Schema.exclude s (s.projectByIds I all) = .ok r ∧ SubL r s ∧
      leafPathsL r = (leafPathsL s).filter (fun p => !(leafPathsL (s.projectByIds I all)).contains p) :=
  exclude_sub_schema s _ (projectByIds_sub s I all) hwf

example : (match Schema.exclude exS (exS.projectByIds [5, 1] false) with
    | .ok r => leafPathsL r | .error _ => []) = [[['a'], ['`']], [['l'], ['i'], ['y']]] := by rfl

/-! ## intersection -/

/-- J ⊆ I → I ∩ J = J: intersecting a well-formed schema with any of its sub-schemas (same names, ids, attributes;
    e.g. a projection of it) returns exactly that sub-schema, with or without `ignore_types` -/
theorem intersection_sub_schema (s o : Schema) (ig : Bool) (hsub : SubL o s) (hwf : s.wf = true)
    (hdt : dtAllL o = true) : Schema.inter s ig o = .ok o := by
  simp only [Schema.wf, Bool.and_eq_true] at hwf
  exact Schema.inter_sub_go s ig hwf.1 hwf.2 o (hsub.find_original hwf.1) hdt

/-- instance: intersecting with a by-id projection of the same schema -/
theorem intersection_projection (s : Schema) (I : List Int) (all ig : Bool) (hwf : s.wf = true)
    (hdt : dtAllL (s.projectByIds I all) = true) :
    Schema.inter s ig (s.projectByIds I all) = .ok (s.projectByIds I all) :=
  intersection_sub_schema s _ ig (projectByIds_sub s I all) hwf hdt

example : exS.wf = true := by rfl
example : dtAllL (exS.projectByIds [6, 1] false) = true := by rfl
example : (match Schema.inter exS false (exS.projectByIds [6, 1] false) with
    | .ok r => idsL r | .error _ => []) = [0, 1, 3, 4, 6] := by rfl

/-- general half of the intersection law, for ANY two schemas (no relation between their ids, names or types assumed)
    and both `intersection` / `intersection_ignore_types`: if every id of the left operand `a` is assigned, each top-level
    field of the result is a sub-tree-pruned copy (`Sub`) of the same-named top-level field of `a`; hence every field of
    the intersection, at any depth, carries the id, name, type, nullability and metadata of the corresponding field of
    `a`; the right operand's ids never show up. -/
theorem intersection_keeps_left_ids (a b r : Schema) (ig : Bool) (hnn : nonnegL a = true)
    (h : Schema.inter a ig b = .ok r) :
    ∀ x ∈ r, ∃ f, findByName x.name a = some f ∧ Sub x f :=
  Schema.inter_keeps_left a ig hnn b r h

/-- field-level version, used for nested fields: the result of `Field::intersection` is a pruned copy of `self` -/
theorem field_intersection_keeps_left (f o r : Field) (ig : Bool) (hnn : f.nonneg = true)
    (h : f.inter ig o = .ok r) : Sub r f := Field.inter_keeps_left ig f o r hnn h

private def exA : Schema :=
  [.mk ['a'] 1 .struct true 0 [.mk ['x'] 2 (.leaf 0) true 0 [], .mk ['y'] 4 (.leaf 0) true 0 []], .mk ['b'] 5 (.leaf 1) true 0 []]
private def exB : Schema :=
  [.mk ['b'] 0 (.leaf 1) false 3 [], .mk ['a'] 17 .struct true 0 [.mk ['y'] 9 (.leaf 0) true 0 [], .mk ['x'] 8 (.leaf 0) true 0 []]]
-- same names, different assigned ids on both sides (larger and smaller): the left ids win in both directions
example : nonnegL exA = true := by rfl
example : (match Schema.inter exA false exB with | .ok r => idsL r | .error _ => []) = [5, 1, 2, 4] := by rfl
example : (match Schema.inter exB false exA with | .ok r => idsL r | .error _ => []) = [17, 9, 8, 0] := by rfl

/-- the set half of the intersection law for two ARBITRARY schemas: if same-named fields have the same kind all the way
    down (`compat`; otherwise the real code reports a type error or silently drops the child) and sibling names are
    unique, the name paths of `intersection(a, b)` are exactly the name paths present in both `a` and `b`. Together
    with `intersection_keeps_left_ids` (each kept field is `a`'s field with `a`'s id and attributes) this is the full
    set-operation statement. -/
theorem intersection_paths (a b r : Schema) (ig : Bool)
    (hnda : nodupB (a.map Field.name) = true) (hub : uniqL b = true)
    (hc : ∀ o ∈ b, ∀ f, findByName o.name a = some f → f.compat o = true)
    (h : Schema.inter a ig b = .ok r) :
    ∀ p, p ∈ namePathsL r ↔ p ∈ namePathsL a ∧ p ∈ namePathsL b :=
  Schema.inter_paths a ig hnda b r hc hub h

example : nodupB (exA.map Field.name) = true ∧ uniqL exB = true := by decide
example : (match Schema.inter exA false exB with | .ok r => namePathsL r | .error _ => [])
    = [[['b']], [['a']], [['a'], ['x']], [['a'], ['y']]] := by rfl

/-- exclusion for two ARBITRARY schemas (no sub-schema relation, ids unrelated): for type-compatible operands with
    unique sibling names on the right, the result is a pruned copy of `a` (ids, attributes, order of `a` kept) whose
    primitive fields are exactly those of `a` whose name path is not a primitive field of `b`. -/
theorem exclude_paths (a b r : Schema) (hc : compatL b a = true)
    (hnd : nodupB (b.map Field.name) = true) (hu : uniqL b = true) (h : Schema.exclude a b = .ok r) :
    SubL r a ∧ leafPathsL r = (leafPathsL a).filter (fun p => !(leafPathsL b).contains p) := by
  refine ⟨Schema.exclude_sub a b r h, ?_⟩
  rw [Schema.exclude_eq_excludeL] at h
  exact excludeL_paths a b r hc hnd hu h

private def exC : Schema := [.mk ['a'] 40 .struct false 1 [.mk ['y'] 41 (.leaf 0) true 0 []], .mk ['z'] 42 (.leaf 0) true 0 []]
example : compatL exC exA = true ∧ nodupB (exC.map Field.name) = true ∧ uniqL exC = true := by decide
example : (match Schema.exclude exA exC with | .ok r => (idsL r, leafPathsL r) | .error _ => ([], []))
    = ([1, 2, 5], [[['a'], ['x']], [['b']]]) := by rfl

/-! ## merge -/

/-- `Schema::merge` only adds fields: the left schema is a sub-schema of the result, i.e. each of its fields is still
    there with its name, id, type, nullability and metadata, in the same relative order (new fields carry id -1 until
    `set_field_id` numbers them, see `setFieldId_spec`). -/
theorem merge_extends (s o r : Schema) (h : Schema.merge s o = .ok r) : SubL s r := Schema.merge_sub s o r h

example : (match Schema.merge (exS.projectByIds [1] false) (exS.projectByIds [2, 6] false) with
    | .ok r => idsL r | .error _ => []) = [0, 1, -1, -1, -1, -1] := by rfl

/-- `Field::merge` (the recursive core of `Schema::merge`, applied to each pair of same-named top-level fields) adds
    exactly the name paths of the other field: for well-shaped operands (primitive fields childless, every list has
    one element field with the same fixed name) a successful merge yields a well-shaped field with the name of `self`
    whose name paths are those of `self` or of `other`. By `merge_extends` the fields of `self` keep ids/attributes. -/
theorem merge_field_paths (itemN : List Char) (self o r : Field) (hs : self.shapeOk itemN = true)
    (ho : o.shapeOk itemN = true) (hn : self.name = o.name) (h : self.mergeWith o = .ok r) :
    r.shapeOk itemN = true ∧ r.name = self.name ∧
      ∀ p, p ∈ r.namePaths ↔ p ∈ self.namePaths ∨ p ∈ o.namePaths :=
  Field.mergeWith_paths itemN o self r hs ho hn h

/-- the struct-children loop of `Field::merge`: union of the name paths of both child lists -/
theorem merge_children_paths (itemN : List Char) (cs ocs r : List Field) (hs : shapeOkL itemN cs = true)
    (ho : shapeOkL itemN ocs = true) (h : mergeChildren cs ocs = .ok r) :
    shapeOkL itemN r = true ∧ ∀ p, p ∈ namePathsL r ↔ p ∈ namePathsL cs ∨ p ∈ namePathsL ocs :=
  mergeChildren_paths itemN ocs cs r hs ho h

example : shapeOkL ['i'] exS = true := by decide
example : (match mergeChildren (exS.projectByIds [1] false) (resetIdL (exS.projectByIds [2, 6] false)) with
    | .ok r => namePathsL r | .error _ => [])
    = [[['a']], [['a'], ['b', '.', 'c']], [['a'], ['`']], [['l']], [['l'], ['i']], [['l'], ['i'], ['y']]] := by rfl

/-! ## set_field_id -/

def optD (o : Option Int) : Int := match o with | some m => m | none => -1

/-- the seed `Schema::set_field_id` starts from -/
def seedOf (s : Schema) (maxExisting : Option Int) : Int := maxInt (optD s.maxFieldId) (optD maxExisting) + 1

theorem setFieldId_eq (s : Schema) (m : Option Int) : s.setFieldId m = (setIdL s (seedOf s m)).1 := rfl

/-- `set_field_id` changes nothing but ids; the pre-order id list is the old one with every negative id replaced by
    the next unused number, starting above every id of the schema and above `max_existing_id`; hence non-negative ids
    are kept, every new id is ≥ 0, larger than all old ids and than `max_existing_id`, and new ids are pairwise
    distinct (`relabel` hands out consecutive numbers). -/
theorem setFieldId_spec (s : Schema) (m : Option Int) :
    resetIdL (s.setFieldId m) = resetIdL s
    ∧ idsL (s.setFieldId m) = relabel (idsL s) (seedOf s m)
    ∧ (∀ i ∈ idsL s, i < seedOf s m) ∧ 0 ≤ seedOf s m ∧ (∀ x, m = some x → x < seedOf s m)
    ∧ ∀ j ∈ idsL (s.setFieldId m), (j ∈ idsL s ∧ 0 ≤ j) ∨ seedOf s m ≤ j := by
  have hids : idsL (s.setFieldId m) = relabel (idsL s) (seedOf s m) := by
    rw [setFieldId_eq]; exact (setIdL_ids s _).1
  have h1 := maxInt_ge_left (optD s.maxFieldId) (optD m)
  have h2 := maxInt_ge_right (optD s.maxFieldId) (optD m)
  refine ⟨by rw [setFieldId_eq]; exact setIdL_shape s _, hids, ?_, ?_, ?_, ?_⟩
  · intro i hi
    obtain ⟨mx, hmx, hle⟩ := idsL_le_maxIdL s i hi
    have : optD s.maxFieldId = mx := by simp [optD, Schema.maxFieldId, hmx]
    simp only [seedOf]
    omega
  · have ha : (-1 : Int) ≤ optD s.maxFieldId := by
      cases hm : s.maxFieldId with
      | none => simp [optD]
      | some mx => simp only [optD]; exact maxIdL_ge s mx hm
    simp only [seedOf]
    omega
  · intro x hx; subst hx
    simp only [seedOf, optD] at h2 ⊢
    omega
  · intro j hj
    rw [hids] at hj
    rcases relabel_mem _ _ _ hj with h | h
    · exact Or.inl h
    · exact Or.inr h.1

example : idsL (Schema.setFieldId [.mk ['a'] (-1) .struct true 0 [.mk ['b'] 7 (.leaf 0) true 0 [], .mk ['c'] (-1) (.leaf 0) true 0 []]]
    (some 9)) = [10, 7, 11] := by rfl

end LanceModel.C43
