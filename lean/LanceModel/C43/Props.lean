import LanceModel.C43.PathLemmas
/-
C43 property theorems.  Statement (properties.jsonl): schema projection by names or ids, exclusion, intersection and
merging, and the union/subtract/intersect operations on projections, behave as the corresponding set operations on field
ids (keeping ancestors of selected nested fields), preserve each kept field's name, type, nullability, metadata and id, and
resolving a (possibly quoted, dotted) column path finds exactly the field it names.
-/
namespace LanceModel.C43

/-! ## Field paths -/

/-- `parse_field_path(format_field_path(segs)) = segs` for EVERY list of segments (any characters: dots, backticks,
    unicode …) provided the list and each segment are non-empty. -/
theorem parse_format_roundtrip (segs : List (List Char)) (h0 : segs ≠ []) (hall : ∀ s ∈ segs, s ≠ []) :
    parsePath (formatPath segs) = some segs :=
  parsePath_join formatSeg parseGo_formatSeg formatSeg_ne_nil segs h0 hall

example : parsePath (formatPath ["a.b".toList, "`".toList, " é\\".toList]) = some ["a.b".toList, "`".toList, " é\\".toList] := by
  decide

/-- the side condition is exactly what the code rejects: a successful parse never yields an empty list or an empty
    segment, so no path denotes a segment list that violates it. -/
theorem parse_ok_nonempty (p : List Char) (segs : List (List Char)) (h : parsePath p = some segs) :
    segs ≠ [] ∧ ∀ s ∈ segs, s ≠ [] := by
  unfold parsePath at h
  split at h
  · simp at h
  · split at h
    · simp at h
    · rename_i res cur inQ hgo
      split at h
      · simp at h
      · split at h
        · rename_i hcur
          simp only [Option.some.injEq] at h
          subst h
          refine ⟨by simp, ?_⟩
          intro s hs
          rcases List.mem_append.mp hs with h1 | h1
          · exact parseGo_nonempty p [] [] false res cur inQ hgo (by simp) s h1
          · simp at h1; subst h1; exact hcur
        · simp at h

/-- … and conversely formatting a list with an empty segment (or the empty list) is not parsed back -/
theorem parse_format_needs_nonempty (segs : List (List Char)) (h : segs = [] ∨ [] ∈ segs) :
    parsePath (formatPath segs) ≠ some segs := by
  intro hp
  have := parse_ok_nonempty _ _ hp
  rcases h with h | h
  · exact this.1 h
  · exact this.2 [] h rfl

example : parsePath (formatPath ["a".toList, []]) = none := by decide

/-- `escape_field_path_for_project` denotes the same segments as its input whenever the input parses -/
theorem parse_escape (p : List Char) (segs : List (List Char)) (h : parsePath p = some segs) :
    parsePath (escapePath p) = some segs := by
  unfold escapePath
  split
  · exact h
  · have hne := parse_ok_nonempty p segs h
    simp only [h]
    exact parsePath_join quoteSeg parseGo_quoteSeg (fun s _ => quoteSeg_ne_nil s) segs hne.1 hne.2

example : parsePath (escapePath ['a', '.', '`', 'b', '.', 'c', '`']) = some [['a'], ['b', '.', 'c']] := by rfl

/-- formatting is injective on admissible segment lists: distinct field paths get distinct strings -/
theorem format_injective (a b : List (List Char)) (ha0 : a ≠ []) (ha : ∀ s ∈ a, s ≠ [])
    (hb0 : b ≠ []) (hb : ∀ s ∈ b, s ≠ []) (h : formatPath a = formatPath b) : a = b := by
  have h1 := parse_format_roundtrip a ha0 ha
  have h2 := parse_format_roundtrip b hb0 hb
  rw [h] at h1
  rw [h1] at h2
  exact Option.some.inj h2

end LanceModel.C43
