import LanceModel.C43.ExcludeLemmas
import LanceModel.C43.InterPathsLemmas
/-
C43: `exclude` for two ARBITRARY (type-compatible) schemas is set difference on leaf name paths.
-/
namespace LanceModel.C43

theorem leafPathsL_mem : ∀ (cs : List Field) (p : List (List Char)),
    p ∈ leafPathsL cs ↔ ∃ c ∈ cs, p ∈ c.leafPaths
  | [], p => by simp [leafPathsL]
  | c :: cs, p => by
    simp only [leafPathsL, List.mem_append, leafPathsL_mem cs p, List.mem_cons]
    constructor
    · rintro (h | ⟨d, hd, hp⟩)
      · exact ⟨c, Or.inl rfl, h⟩
      · exact ⟨d, Or.inr hd, hp⟩
    · rintro ⟨d, rfl | hd, hp⟩
      · exact Or.inl hp
      · exact Or.inr ⟨d, hd, hp⟩

theorem leafPathsL_lookup (others : List Field) (hnd : nodupB (others.map Field.name) = true)
    (c : Field) (p : List (List Char)) (hp : p ∈ c.leafPaths) :
    p ∈ leafPathsL others ↔ ∃ oc, findByName c.name others = some oc ∧ p ∈ oc.leafPaths := by
  obtain ⟨rest, hrest⟩ := c.leafPaths_head p hp
  constructor
  · intro h
    obtain ⟨o, ho, hpo⟩ := (leafPathsL_mem others p).mp h
    obtain ⟨r2, hr2⟩ := o.leafPaths_head p hpo
    have hn : o.name = c.name := by rw [hrest] at hr2; injection hr2 with h1 _; exact h1.symm
    refine ⟨o, ?_, hpo⟩
    rw [← hn]; exact findByName_of_mem_nodup others hnd o ho
  · rintro ⟨oc, hoc, hpo⟩
    exact (leafPathsL_mem others p).mpr ⟨oc, (findByName_some hoc).2, hpo⟩

theorem uniqL_mem : ∀ (l : List Field), uniqL l = true → ∀ x ∈ l, x.uniq = true
  | [], _, x, hx => by simp at hx
  | a :: t, hl, x, hx => by
    simp only [uniqL, Bool.and_eq_true] at hl
    simp only [List.mem_cons] at hx
    rcases hx with rfl | hx
    · exact hl.1
    · exact uniqL_mem t hl.2 x hx

mutual
theorem Field.exclude_paths :
    ∀ (f o : Field) (r : Option Field), f.name = o.name → f.compat o = true → o.uniq = true →
      f.exclude o = .ok r →
      (match r with | some f' => f'.leafPaths | none => [])
        = f.leafPaths.filter (fun p => !o.leafPaths.contains p)
  | .mk n i k b m cs, o, r, hn, hc, hu, h => by
    cases o with
    | mk on oi ok ob om ocs =>
      simp only [Field.name_mk] at hn
      subst hn
      simp only [Field.compat, Bool.and_eq_true, Field.kind_mk, Field.children_mk] at hc
      obtain ⟨⟨hk, _⟩, hcl⟩ := hc
      have hk := of_decide_eq_true hk
      subst hk
      simp only [Field.uniq, Bool.and_eq_true] at hu
      unfold Field.exclude at h
      split at h
      · cases h
      · cases hkn : k.isNested with
        | false =>
          simp only [hkn, Bool.not_false, if_true, Except.ok.injEq] at h
          subst h
          simp [Field.leafPaths, hkn]
        | true =>
          simp only [hkn, Bool.not_true, Bool.false_eq_true, if_false, Field.children_mk] at h
          split at h
          · cases h
          · rename_i cs' hcs
            have ih := excludeL_paths cs ocs cs' hcl hu.1 hu.2 hcs
            split at h
            · cases h
              rename_i he
              have : cs' = [] := by simpa using he
              subst this
              simp only [Field.leafPaths, hkn, if_true, filter_map_cons, ← ih]
              simp [leafPathsL]
            · cases h
              simp only [Field.leafPaths, hkn, if_true, filter_map_cons, ← ih]
theorem excludeL_paths :
    ∀ (cs others r : List Field), compatL others cs = true → nodupB (others.map Field.name) = true →
      uniqL others = true → excludeL others cs = .ok r →
      leafPathsL r = (leafPathsL cs).filter (fun p => !(leafPathsL others).contains p)
  | [], others, r, _, _, _, h => by simp [excludeL] at h; cases h; simp [leafPathsL]
  | c :: cs, others, r, hc, hnd, hu, h => by
    simp only [compatL, Bool.and_eq_true] at hc
    unfold excludeL at h
    cases hf : findByName c.name others with
    | none =>
      simp only [hf] at h
      split at h
      · cases h
      · rename_i rest hrest
        cases h
        have ih := excludeL_paths cs others rest hc.2 hnd hu hrest
        simp only [leafPathsL, List.filter_append, ← ih]
        congr 1
        symm
        apply filter_all
        intro p hp1 hp2
        obtain ⟨oc, hoc, _⟩ := (leafPathsL_lookup others hnd c p hp1).mp hp2
        rw [hf] at hoc; cases hoc
    | some oc =>
      simp only [hf] at h hc
      have hocn := findByName_some hf
      split at h
      · cases h
      · rename_i x hx
        split at h
        · cases h
        · rename_i rest hrest
          cases h
          have ih1 := Field.exclude_paths c oc x hocn.1.symm hc.1 (uniqL_mem others hu oc hocn.2) hx
          have ih2 := excludeL_paths cs others rest hc.2 hnd hu hrest
          have hcongr : c.leafPaths.filter (fun p => !(leafPathsL others).contains p)
              = c.leafPaths.filter (fun p => !oc.leafPaths.contains p) := by
            apply List.filter_congr
            intro p hp
            have := leafPathsL_lookup others hnd c p hp
            simp only [hf, Option.some.injEq, exists_eq_left'] at this
            by_cases hm : p ∈ oc.leafPaths
            · simp [hm, this.mpr hm]
            · have hm' : p ∉ leafPathsL others := fun hx' => hm (this.mp hx')
              simp [hm, hm']
          simp only [leafPathsL, List.filter_append, hcongr, ← ih1, ← ih2]
          cases x <;> simp [leafPathsL]
end

end LanceModel.C43
