import LanceModel.C43.MergeLemmas
import LanceModel.C43.InterPathsLemmas
/-
C43: `Field::merge` adds exactly the name paths of the other field (well-shaped operands).
-/
namespace LanceModel.C43

mutual
/-- well-shaped: primitive fields are childless, a list has exactly one child and it is named `itemN` -/
def Field.shapeOk (itemN : List Char) : Field → Bool
  | .mk _ _ k _ _ cs =>
    (match k with
      | .leaf _ => cs.isEmpty
      | .list => (match cs with
        | [c] => decide (c.name = itemN)
        | _ => false)
      | .struct => true) && shapeOkL itemN cs
def shapeOkL (itemN : List Char) : List Field → Bool
  | [] => true
  | f :: fs => f.shapeOk itemN && shapeOkL itemN fs
end

theorem shapeOkL_append (itemN : List Char) : ∀ (a b : List Field),
    shapeOkL itemN (a ++ b) = (shapeOkL itemN a && shapeOkL itemN b)
  | [], b => by simp [shapeOkL]
  | x :: a, b => by simp [shapeOkL, shapeOkL_append itemN a b, Bool.and_assoc]

theorem namePathsL_append : ∀ (a b : List Field), namePathsL (a ++ b) = namePathsL a ++ namePathsL b
  | [], b => by simp [namePathsL]
  | x :: a, b => by simp [namePathsL, namePathsL_append a b]

theorem updFirst_paths (itemN n : List Char) (g : Field → Except Err Field) (X : List (List (List Char)))
    (hg : ∀ c c', c.shapeOk itemN = true → c.name = n → g c = .ok c' →
      c'.shapeOk itemN = true ∧ ∀ p, p ∈ c'.namePaths ↔ p ∈ c.namePaths ∨ p ∈ X) :
    ∀ (cs cs' : List Field), shapeOkL itemN cs = true → updFirst n g cs = .ok (some cs') →
      shapeOkL itemN cs' = true ∧ ∀ p, p ∈ namePathsL cs' ↔ p ∈ namePathsL cs ∨ p ∈ X
  | [], cs', _, h => by simp [updFirst] at h
  | c :: cs, cs', hs, h => by
    simp only [shapeOkL, Bool.and_eq_true] at hs
    simp only [updFirst] at h
    split at h
    · rename_i hn
      split at h
      · cases h
      · rename_i c' hc
        cases h
        have := hg c c' hs.1 hn hc
        refine ⟨by simp [shapeOkL, this.1, hs.2], ?_⟩
        intro p
        simp only [namePathsL, List.mem_append, this.2 p]
        constructor
        · rintro ((h1 | h1) | h1)
          · exact Or.inl (Or.inl h1)
          · exact Or.inr h1
          · exact Or.inl (Or.inr h1)
        · rintro ((h1 | h1) | h1)
          · exact Or.inl (Or.inl h1)
          · exact Or.inr h1
          · exact Or.inl (Or.inr h1)
    · split at h
      · cases h
      · cases h
      · rename_i cs1 h1
        cases h
        have := updFirst_paths itemN n g X hg cs cs1 hs.2 h1
        refine ⟨by simp [shapeOkL, this.1, hs.1], ?_⟩
        intro p
        simp only [namePathsL, List.mem_append, this.2 p]
        constructor
        · rintro (h1 | h1 | h1)
          · exact Or.inl (Or.inl h1)
          · exact Or.inl (Or.inr h1)
          · exact Or.inr h1
        · rintro ((h1 | h1) | h1)
          · exact Or.inl h1
          · exact Or.inr (Or.inl h1)
          · exact Or.inr (Or.inr h1)

theorem paths_union_cons (n : List Char) (L L1 L2 : List (List (List Char)))
    (h : ∀ q, q ∈ L ↔ q ∈ L1 ∨ q ∈ L2) (p : List (List Char)) :
    p ∈ ([n] :: L.map (n :: ·)) ↔ p ∈ ([n] :: L1.map (n :: ·)) ∨ p ∈ ([n] :: L2.map (n :: ·)) := by
  simp only [mem_paths_cons]
  constructor
  · rintro (h1 | ⟨q, hq, rfl⟩)
    · exact Or.inl (Or.inl h1)
    · rcases (h q).mp hq with h2 | h2
      · exact Or.inl (Or.inr ⟨q, h2, rfl⟩)
      · exact Or.inr (Or.inr ⟨q, h2, rfl⟩)
  · rintro ((h1 | ⟨q, hq, rfl⟩) | (h1 | ⟨q, hq, rfl⟩))
    · exact Or.inl h1
    · exact Or.inr ⟨q, (h q).mpr (Or.inl hq), rfl⟩
    · exact Or.inl h1
    · exact Or.inr ⟨q, (h q).mpr (Or.inr hq), rfl⟩

mutual
theorem Field.mergeWith_paths (itemN : List Char) :
    ∀ (o self r : Field), self.shapeOk itemN = true → o.shapeOk itemN = true → self.name = o.name →
      self.mergeWith o = .ok r →
      r.shapeOk itemN = true ∧ r.name = self.name ∧
        ∀ p, p ∈ r.namePaths ↔ p ∈ self.namePaths ∨ p ∈ o.namePaths
  | .mk on oi ok ob om ocs, self, r, hs, ho, hn, h => by
    cases self with
    | mk n i k b m cs =>
      simp only [Field.name_mk] at hn
      subst hn
      unfold Field.mergeWith at h
      split at h
      · cases h
      · simp only [Field.kind_mk, Field.children_mk, Field.withChildren] at h
        simp only [Field.shapeOk, Bool.and_eq_true] at hs ho
        cases k with
        | struct =>
          cases ok with
          | struct =>
            simp only at h
            split at h
            · cases h
            · rename_i cs' hcs
              cases h
              have ih := mergeChildren_paths itemN ocs cs cs' hs.2 ho.2 hcs
              refine ⟨by simp [Field.shapeOk, ih.1], rfl, ?_⟩
              intro p
              simp only [Field.namePaths]
              exact paths_union_cons n _ _ _ ih.2 p
          | list => simp at h
          | leaf t => simp at h
        | list =>
          cases ok with
          | list =>
            simp only at h
            obtain ⟨hs1, hs2⟩ := hs
            obtain ⟨ho1, ho2⟩ := ho
            match cs, ocs, hs1, ho1, hs2, ho2, h with
            | [c], [oc], hs1, ho1, hs2, ho2, h =>
              simp only [decide_eq_true_eq] at hs1 ho1
              simp only [shapeOkL, Bool.and_true] at hs2 ho2
              cases hc : c.mergeWith oc with
              | error e => simp [hc] at h
              | ok c' =>
                simp only [hc, Except.ok.injEq] at h
                subst h
                have ih := Field.mergeWith_paths itemN oc c c' hs2 ho2 (by rw [hs1, ho1]) hc
                refine ⟨by simp [Field.shapeOk, shapeOkL, ih.1, ih.2.1, hs1], rfl, ?_⟩
                intro p
                simp only [Field.namePaths, namePathsL, List.append_nil]
                exact paths_union_cons n _ _ _ ih.2.2 p
          | struct => simp at h
          | leaf t => simp at h
        | leaf t =>
          cases ok with
          | leaf t' =>
            simp only at h
            split at h
            · cases h
            · cases h
              have h1 : cs = [] := by simpa using hs.1
              have h2 : ocs = [] := by simpa using ho.1
              subst h1; subst h2
              refine ⟨by simp [Field.shapeOk, shapeOkL], rfl, ?_⟩
              intro p; simp [Field.namePaths, namePathsL]
          | struct => simp at h
          | list => simp at h
theorem mergeChildren_paths (itemN : List Char) :
    ∀ (ocs cs r : List Field), shapeOkL itemN cs = true → shapeOkL itemN ocs = true →
      mergeChildren cs ocs = .ok r →
      shapeOkL itemN r = true ∧ ∀ p, p ∈ namePathsL r ↔ p ∈ namePathsL cs ∨ p ∈ namePathsL ocs
  | [], cs, r, hs, _, h => by
    simp [mergeChildren] at h; cases h
    exact ⟨hs, by intro p; simp [namePathsL]⟩
  | oc :: ocs, cs, r, hs, ho, h => by
    simp only [shapeOkL, Bool.and_eq_true] at ho
    unfold mergeChildren at h
    split at h
    · cases h
    · rename_i cs1 h1
      have s1 := updFirst_paths itemN oc.name (fun c => c.mergeWith oc) oc.namePaths
        (fun c c' hc hcn hm => by
          have := Field.mergeWith_paths itemN oc c c' hc ho.1 hcn hm
          exact ⟨this.1, this.2.2⟩) cs cs1 hs h1
      have ih := mergeChildren_paths itemN ocs cs1 r s1.1 ho.2 h
      refine ⟨ih.1, ?_⟩
      intro p
      simp only [ih.2 p, s1.2 p, namePathsL, List.mem_append, or_assoc]
    · have hs' : shapeOkL itemN (cs ++ [oc]) = true := by
        simp [shapeOkL_append, shapeOkL, hs, ho.1]
      have ih := mergeChildren_paths itemN ocs (cs ++ [oc]) r hs' ho.2 h
      refine ⟨ih.1, ?_⟩
      intro p
      simp only [ih.2 p, namePathsL_append, namePathsL, List.mem_append, List.append_nil, or_assoc]
end

end LanceModel.C43
