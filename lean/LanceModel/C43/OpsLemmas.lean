import LanceModel.C43.TreeLemmas
import LanceModel.C43.PathLemmas
/-
C43: lemmas about resolve, to_bare_schema (apply_projection), exclude, intersection.
-/
namespace LanceModel.C43

/-! ## resolve -/

theorem findByName_some {n : List Char} {l : List Field} {f : Field} (h : findByName n l = some f) :
    f.name = n ∧ f ∈ l := by
  induction l with
  | nil => simp [findByName] at h
  | cons a t ih =>
    simp only [findByName] at h
    split at h
    · cases h; rename_i hn; exact ⟨hn, by simp⟩
    · have := ih h; exact ⟨this.1, by simp [this.2]⟩

/-- `chain` starts at a field of `sib`, every next field is a child of the previous one, and every field is the FIRST
    of its siblings carrying its name (what a name lookup finds). -/
inductive RootChain : List Field → List Field → Prop
  | one {sib f} : findByName f.name sib = some f → RootChain sib [f]
  | cons {sib f rest} : findByName f.name sib = some f → RootChain f.children rest → RootChain sib (f :: rest)

theorem Field.resolve_chain : ∀ (segs : List (List Char)) (sib : List Field) (f : Field) (fs : List Field),
    findByName f.name sib = some f → f.resolve segs = some fs →
      RootChain sib fs ∧ fs.map Field.name = f.name :: segs
  | [], sib, f, fs, hf, h => by
    simp only [Field.resolve, Option.some.injEq] at h; subst h
    exact ⟨RootChain.one hf, rfl⟩
  | s :: rest, sib, f, fs, hf, h => by
    simp only [Field.resolve] at h
    split at h
    · rename_i c hc
      cases hr : c.resolve rest with
      | none => simp [hr] at h
      | some cs =>
        simp only [hr, Option.map_some, Option.some.injEq] at h; subst h
        have hcn := findByName_some hc
        have := Field.resolve_chain rest f.children c cs (by rw [hcn.1]; exact hc) hr
        exact ⟨RootChain.cons hf this.1, by simp [this.2, hcn.1]⟩
    · simp at h

theorem Field.resolve_of_chain : ∀ (rest : List Field) (f : Field),
    RootChain f.children rest → f.resolve (rest.map Field.name) = some (f :: rest)
  | [], _, h => by cases h
  | [c], f, h => by
    cases h with
    | one hc => simp [Field.resolve, hc]
    | cons _ h2 => cases h2
  | c :: d :: rest, f, h => by
    cases h with
    | cons hc h2 =>
      have := Field.resolve_of_chain (d :: rest) c h2
      show f.resolve (c.name :: (d :: rest).map Field.name) = _
      rw [Field.resolve]
      simp only [hc, this, Option.map_some]

/-! ## apply_projection / to_bare_schema -/

mutual
theorem Field.applyProj_sub (I : List Int) :
    ∀ (f : Field) (r : Option Field), f.applyProj I = .ok r → ∀ f', r = some f' → Sub f' f
  | .mk n i k b m cs, r, h, f', hr => by
    simp only [Field.applyProj] at h
    split at h
    · cases h
    · rename_i cs' hcs
      split at h
      · cases h
      · split at h
        · cases h; cases hr
        · cases h; cases hr; exact Sub.mk (applyProjL_sub I cs cs' hcs)
theorem applyProjL_sub (I : List Int) :
    ∀ (cs r : List Field), applyProjL I cs = .ok r → SubL r cs
  | [], r, h => by simp [applyProjL] at h; cases h; exact SubL.nil
  | f :: fs, r, h => by
    simp only [applyProjL] at h
    split at h
    · cases h
    · rename_i x hx
      split at h
      · cases h
      · rename_i rest hrest
        cases h
        have ih := applyProjL_sub I fs rest hrest
        cases x with
        | none => exact SubL.skip ih
        | some f' => exact SubL.cons (Field.applyProj_sub I f _ hx f' rfl) ih
end

mutual
theorem Field.applyProj_isSome (I : List Int) :
    ∀ (f : Field) (r : Option Field), f.applyProj I = .ok r → r.isSome = hits I f
  | .mk n i k b m cs, r, h => by
    simp only [Field.applyProj] at h
    split at h
    · cases h
    · rename_i cs' hcs
      have ih := applyProjL_isEmpty I cs cs' hcs
      rw [hits_mk]
      split at h
      · cases h
      · split at h
        · rename_i h1; cases h; simp only [Bool.and_eq_true] at h1; simp_all
        · rename_i h1; cases h
          cases hc : I.contains i <;> cases hh : hitsL I cs <;> simp_all
theorem applyProjL_isEmpty (I : List Int) :
    ∀ (cs r : List Field), applyProjL I cs = .ok r → r.isEmpty = !hitsL I cs
  | [], r, h => by simp [applyProjL] at h; cases h; simp [hitsL, idsL]
  | f :: fs, r, h => by
    simp only [applyProjL] at h
    split at h
    · cases h
    · rename_i x hx
      split at h
      · cases h
      · rename_i rest hrest
        cases h
        have h1 := Field.applyProj_isSome I f x hx
        have h2 := applyProjL_isEmpty I fs rest hrest
        rw [hitsL_cons]
        cases x <;> simp_all
end

mutual
/-- the ids kept by `apply_projection` are exactly the ancestor closure of the selected ids -/
theorem Field.applyProj_ids (I : List Int) :
    ∀ (f : Field) (pre : List Field) (r : Option Field), f.applyProj I = .ok r →
      (match r with | some f' => f'.ids | none => [])
        = ((f.paths pre).filter (fun p => hits I p.2)).map (fun p => p.2.id)
  | .mk n i k b m cs, pre, r, h => by
    have hsome := Field.applyProj_isSome I _ r h
    simp only [Field.applyProj] at h
    split at h
    · cases h
    · rename_i cs' hcs
      have ih := applyProjL_ids I cs (pre ++ [.mk n i k b m cs]) cs' hcs
      have hemp := applyProjL_isEmpty I cs cs' hcs
      simp only [Field.paths, List.filter_cons]
      split at h
      · cases h
      · split at h
        · cases h
          simp only [Option.isSome_none] at hsome
          rw [← hsome]
          have : cs' = [] := by rename_i h1; simp only [Bool.and_eq_true] at h1; simpa using h1.1
          subst this
          simp only [idsL] at ih
          simp [← ih]
        · cases h
          simp only [Option.isSome_some] at hsome
          rw [← hsome]
          simp [Field.ids, ih]
theorem applyProjL_ids (I : List Int) :
    ∀ (cs pre r : List Field), applyProjL I cs = .ok r →
      idsL r = ((pathsL pre cs).filter (fun p => hits I p.2)).map (fun p => p.2.id)
  | [], _, r, h => by simp [applyProjL] at h; cases h; simp [pathsL, idsL]
  | f :: fs, pre, r, h => by
    simp only [applyProjL] at h
    split at h
    · cases h
    · rename_i x hx
      split at h
      · cases h
      · rename_i rest hrest
        cases h
        have h1 := Field.applyProj_ids I f pre x hx
        have h2 := applyProjL_ids I fs pre rest hrest
        simp only [pathsL, List.filter_append, List.map_append]
        rw [← h1, ← h2]
        cases x <;> simp [idsL]
end

mutual
/-- the `assert!` of `apply_projection` cannot fire when every selected field that has children also has a selected
    descendant (e.g. ids produced by `union_column` / `union_schema` of whole fields) -/
theorem Field.applyProj_ok (I : List Int) :
    ∀ (f : Field), (∀ g ∈ f.nodes, I.contains g.id = true → g.children = [] ∨ hitsL I g.children = true) →
      ∃ r, f.applyProj I = .ok r
  | .mk n i k b m cs, hI => by
    have hcs := applyProjL_ok I cs (by
      intro g hg; exact hI g (by simp [Field.nodes, hg]))
    obtain ⟨cs', hcs'⟩ := hcs
    have hemp := applyProjL_isEmpty I cs cs' hcs'
    have hme := hI (.mk n i k b m cs) (by simp [Field.nodes])
    simp only [Field.id_mk, Field.children_mk] at hme
    simp only [Field.applyProj, hcs']
    split
    · rename_i hp
      exfalso
      simp only [Bool.not_eq_true', Bool.or_eq_false_iff, Bool.not_eq_false', List.isEmpty_iff] at hp
      rcases hme (by simpa using hp.1.2) with h | h
      · exact absurd h (by simpa using hp.2)
      · rw [h] at hemp; simp [hp.1.1] at hemp
    · split <;> exact ⟨_, rfl⟩
theorem applyProjL_ok (I : List Int) :
    ∀ (cs : List Field), (∀ g ∈ nodesL cs, I.contains g.id = true → g.children = [] ∨ hitsL I g.children = true) →
      ∃ r, applyProjL I cs = .ok r
  | [], _ => ⟨[], by simp [applyProjL]⟩
  | f :: fs, hI => by
    obtain ⟨x, hx⟩ := Field.applyProj_ok I f (fun g hg => hI g (by simp [nodesL, hg]))
    obtain ⟨rest, hrest⟩ := applyProjL_ok I fs (fun g hg => hI g (by simp [nodesL, hg]))
    simp only [applyProjL, hx, hrest]
    exact ⟨_, rfl⟩
end

/-! ## exclude -/

mutual
theorem Field.exclude_sub :
    ∀ (f o : Field) (r : Option Field), f.exclude o = .ok r → ∀ f', r = some f' → Sub f' f
  | .mk n i k b m cs, o, r, h, f', hr => by
    simp only [Field.exclude] at h
    split at h
    · cases h
    · split at h
      · cases h; cases hr
      · split at h
        · cases h
        · rename_i cs' hcs
          split at h
          · cases h; cases hr
          · cases h; cases hr; exact Sub.mk (excludeL_sub o.children cs cs' hcs)
theorem excludeL_sub (others : List Field) :
    ∀ (cs r : List Field), excludeL others cs = .ok r → SubL r cs
  | [], r, h => by simp [excludeL] at h; cases h; exact SubL.nil
  | c :: cs, r, h => by
    simp only [excludeL] at h
    split at h
    · rename_i oc hoc
      split at h
      · cases h
      · rename_i x hx
        split at h
        · cases h
        · rename_i rest hrest
          cases h
          have ih := excludeL_sub others cs rest hrest
          cases x with
          | none => exact SubL.skip ih
          | some c' => exact SubL.cons (Field.exclude_sub c oc _ hx c' rfl) ih
    · split at h
      · cases h
      · rename_i rest hrest
        cases h
        exact SubL.cons (Sub.refl c) (excludeL_sub others cs rest hrest)
end

theorem Schema.exclude_sub : ∀ (s o r : Schema), Schema.exclude s o = .ok r → SubL r s
  | [], o, r, h => by simp [Schema.exclude] at h; cases h; exact SubL.nil
  | f :: fs, o, r, h => by
    simp only [Schema.exclude] at h
    split at h
    · rename_i of hof
      split at h
      · cases h
      · split at h
        · split at h
          · cases h
          · rename_i x hx
            split at h
            · cases h
            · rename_i rest hrest
              cases h
              have ih := Schema.exclude_sub fs o rest hrest
              cases x with
              | none => exact SubL.skip ih
              | some f' => exact SubL.cons (Field.exclude_sub f of _ hx f' rfl) ih
        · exact SubL.skip (Schema.exclude_sub fs o r h)
    · split at h
      · cases h
      · rename_i rest hrest
        cases h
        exact SubL.cons (Sub.refl f) (Schema.exclude_sub fs o rest hrest)

end LanceModel.C43
