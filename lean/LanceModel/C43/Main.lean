import LanceModel.C43.Driver
def main : IO Unit := LanceModel.Util.runDriver LanceModel.C43.Driver.step []
