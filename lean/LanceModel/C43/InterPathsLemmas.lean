import LanceModel.C43.InterLeftLemmas
/-
C43: name paths kept by the intersection of two ARBITRARY (type-compatible) schemas = those present in both.
-/
namespace LanceModel.C43

mutual
/-- name paths (from this field down) of every field in the subtree -/
def Field.namePaths : Field → List (List (List Char))
  | .mk n _ _ _ _ cs => [n] :: (namePathsL cs).map (n :: ·)
def namePathsL : List Field → List (List (List Char))
  | [] => []
  | f :: fs => f.namePaths ++ namePathsL fs
end

mutual
/-- same-named fields have the same kind, all the way down along matching names; primitive fields are childless -/
def Field.compat : Field → Field → Bool
  | .mk _ _ k _ _ cs, o =>
    decide (k = o.kind) && (k.isNested || (cs.isEmpty && o.children.isEmpty)) && compatL o.children cs
def compatL (others : List Field) : List Field → Bool
  | [] => true
  | c :: cs =>
    (match findByName c.name others with
      | some oc => c.compat oc
      | none => true) && compatL others cs
end

mutual
/-- sibling names are unique at every level -/
def Field.uniq : Field → Bool
  | .mk _ _ _ _ _ cs => nodupB (cs.map Field.name) && uniqL cs
def uniqL : List Field → Bool
  | [] => true
  | f :: fs => f.uniq && uniqL fs
end

theorem Field.namePaths_head (f : Field) : ∀ p ∈ f.namePaths, ∃ rest, p = f.name :: rest := by
  cases f with
  | mk n i k b m cs =>
    intro p hp
    simp only [Field.namePaths, List.mem_cons, List.mem_map] at hp
    rcases hp with rfl | ⟨q, _, rfl⟩
    · exact ⟨[], rfl⟩
    · exact ⟨q, rfl⟩

theorem namePathsL_mem : ∀ (cs : List Field) (p : List (List Char)),
    p ∈ namePathsL cs ↔ ∃ c ∈ cs, p ∈ c.namePaths
  | [], p => by simp [namePathsL]
  | c :: cs, p => by
    simp only [namePathsL, List.mem_append, namePathsL_mem cs p, List.mem_cons]
    constructor
    · rintro (h | ⟨d, hd, hp⟩)
      · exact ⟨c, Or.inl rfl, h⟩
      · exact ⟨d, Or.inr hd, hp⟩
    · rintro ⟨d, rfl | hd, hp⟩
      · exact Or.inl hp
      · exact Or.inr ⟨d, hd, hp⟩

theorem namePathsL_ne_nil (cs : List Field) : [] ∉ namePathsL cs := by
  intro h
  obtain ⟨c, _, hc⟩ := (namePathsL_mem cs []).mp h
  obtain ⟨r, hr⟩ := c.namePaths_head [] hc
  cases hr

theorem findByName_of_mem_nodup : ∀ (l : List Field), nodupB (l.map Field.name) = true →
    ∀ f ∈ l, findByName f.name l = some f
  | [], _, f, hf => by simp at hf
  | a :: l, hnd, f, hf => by
    simp only [List.map_cons, nodupB_cons] at hnd
    simp only [List.mem_cons] at hf
    rcases hf with rfl | hf
    · exact findByName_cons_eq _ _
    · rw [findByName_cons_ne]
      · exact findByName_of_mem_nodup l hnd.2 f hf
      · intro e; apply hnd.1; rw [e]; exact List.mem_map.mpr ⟨f, hf, rfl⟩

theorem findByName_none_names {n : List Char} : ∀ {l : List Field}, findByName n l = none → ∀ f ∈ l, f.name ≠ n
  | [], _, f, hf => by simp at hf
  | a :: l, h, f, hf => by
    simp only [findByName] at h
    split at h
    · cases h
    · rename_i hne
      simp only [List.mem_cons] at hf
      rcases hf with rfl | hf
      · exact hne
      · exact findByName_none_names h f hf

/-- paths of `others` that start with the name of `c` come from the field a lookup of that name finds -/
theorem namePathsL_lookup (others : List Field) (hnd : nodupB (others.map Field.name) = true)
    (c : Field) (p : List (List Char)) (hp : p ∈ c.namePaths) :
    p ∈ namePathsL others ↔ ∃ oc, findByName c.name others = some oc ∧ p ∈ oc.namePaths := by
  obtain ⟨rest, hrest⟩ := c.namePaths_head p hp
  constructor
  · intro h
    obtain ⟨o, ho, hpo⟩ := (namePathsL_mem others p).mp h
    obtain ⟨r2, hr2⟩ := o.namePaths_head p hpo
    have hn : o.name = c.name := by rw [hrest] at hr2; injection hr2 with h1 _; exact h1.symm
    refine ⟨o, ?_, hpo⟩
    rw [← hn]; exact findByName_of_mem_nodup others hnd o ho
  · rintro ⟨oc, hoc, hpo⟩
    exact (namePathsL_mem others p).mpr ⟨oc, (findByName_some hoc).2, hpo⟩

theorem interL_error_panic (others : List Field) : ∀ (cs : List Field) (e : Err),
    interL others cs = .error e → e = .panic
  | [], e, h => by simp [interL] at h
  | c :: cs, e, h => by
    unfold interL at h
    split at h
    · split at h
      · cases h; rfl
      · exact interL_error_panic others cs e h
      · split at h
        · rename_i e' he'; cases h; exact interL_error_panic others cs _ he'
        · cases h
    · exact interL_error_panic others cs e h

/-- under type compatibility `Field::intersection` never reports a type mismatch -/
theorem Field.inter_error_panic (ig : Bool) (f o : Field) (hn : f.name = o.name) (hc : f.compat o = true)
    (e : Err) (h : f.inter ig o = .error e) : e = .panic := by
  cases f with
  | mk n i k b m cs =>
    simp only [Field.name_mk] at hn
    simp only [Field.compat, Bool.and_eq_true, decide_eq_true_eq] at hc
    unfold Field.inter at h
    split at h
    · rename_i hne; exact absurd hn hne
    · split at h
      · cases h; rfl
      · split at h
        · split at h
          · rename_i e' he'; cases h; exact interL_error_panic _ _ _ he'
          · cases h
        · split at h
          · rename_i hk; simp [hc.1.1] at hk
          · cases h

theorem mem_paths_cons (n : List Char) (L : List (List (List Char))) (p : List (List Char)) :
    p ∈ ([n] :: L.map (n :: ·)) ↔ p = [n] ∨ ∃ q ∈ L, p = n :: q := by
  simp only [List.mem_cons, List.mem_map]
  constructor
  · rintro (h | ⟨q, hq, rfl⟩)
    · exact Or.inl h
    · exact Or.inr ⟨q, hq, rfl⟩
  · rintro (h | ⟨q, hq, rfl⟩)
    · exact Or.inl h
    · exact Or.inr ⟨q, hq, rfl⟩

mutual
theorem Field.inter_paths (ig : Bool) :
    ∀ (f o r : Field), f.name = o.name → f.compat o = true → o.uniq = true → f.inter ig o = .ok r →
      ∀ p, p ∈ r.namePaths ↔ p ∈ f.namePaths ∧ p ∈ o.namePaths
  | .mk n i k b m cs, o, r, hn, hc, hu, h, p => by
    cases o with
    | mk on oi ok ob om ocs =>
      simp only [Field.name_mk] at hn
      subst hn
      simp only [Field.compat, Bool.and_eq_true, decide_eq_true_eq, Field.kind_mk, Field.children_mk] at hc
      obtain ⟨⟨hk, hleaf⟩, hcl⟩ := hc
      have hk := of_decide_eq_true hk
      subst hk
      simp only [Field.uniq, Bool.and_eq_true] at hu
      unfold Field.inter at h
      split at h
      · cases h
      · split at h
        · cases h
        · simp only [Field.kind_mk, Field.children_mk, Field.id_mk] at h
          by_cases hbn : bothNested k k = true
          · simp only [hbn, if_true] at h
            split at h
            · cases h
            · rename_i cs' hcs
              cases h
              have ih := interL_paths cs ocs cs' hcl hu.1 hu.2 hcs
              simp only [Field.namePaths, mem_paths_cons]
              constructor
              · rintro (h1 | ⟨q, hq, rfl⟩)
                · exact ⟨Or.inl h1, Or.inl h1⟩
                · have := (ih q).mp hq
                  exact ⟨Or.inr ⟨q, this.1, rfl⟩, Or.inr ⟨q, this.2, rfl⟩⟩
              · rintro ⟨h1 | ⟨q1, hq1, rfl⟩, h2⟩
                · exact Or.inl h1
                · rcases h2 with h2 | ⟨q2, hq2, h2⟩
                  · injection h2 with _ h3; subst h3
                    exact absurd hq1 (namePathsL_ne_nil cs)
                  · injection h2 with _ h3; subst h3
                    exact Or.inr ⟨q1, (ih q1).mpr ⟨hq1, hq2⟩, rfl⟩
          · have hbn' : bothNested k k = false := by simpa using hbn
            simp only [hbn', Bool.false_eq_true, if_false] at h
            -- not both nested with equal kinds: a primitive field, childless on both sides
            have hkl : k.isNested = false := by
              cases k <;> simp [bothNested, Kind.isNested] at hbn ⊢
            simp only [hkl, Bool.false_or, Bool.and_eq_true, List.isEmpty_iff] at hleaf
            obtain ⟨rfl, rfl⟩ := hleaf
            simp at h
            subst h
            split <;> simp [Field.namePaths, namePathsL]
theorem interL_paths :
    ∀ (cs others r : List Field), compatL others cs = true → nodupB (others.map Field.name) = true →
      uniqL others = true → interL others cs = .ok r →
      ∀ p, p ∈ namePathsL r ↔ p ∈ namePathsL cs ∧ p ∈ namePathsL others
  | [], others, r, _, _, _, h, p => by simp [interL] at h; cases h; simp [namePathsL]
  | c :: cs, others, r, hc, hnd, hu, h, p => by
    simp only [compatL, Bool.and_eq_true] at hc
    unfold interL at h
    cases hf : findByName c.name others with
    | none =>
      simp only [hf] at h
      have ih := interL_paths cs others r hc.2 hnd hu h p
      simp only [namePathsL, List.mem_append, ih]
      constructor
      · rintro ⟨h1, h2⟩; exact ⟨Or.inr h1, h2⟩
      · rintro ⟨h1 | h1, h2⟩
        · exfalso
          obtain ⟨oc, hoc, _⟩ := (namePathsL_lookup others hnd c p h1).mp h2
          rw [hf] at hoc; cases hoc
        · exact ⟨h1, h2⟩
    | some oc =>
      simp only [hf] at h hc
      have hocn := findByName_some hf
      have hocu : oc.uniq = true := by
        have : ∀ (l : List Field), uniqL l = true → ∀ x ∈ l, x.uniq = true := by
          intro l; induction l with
          | nil => intro _ x hx; simp at hx
          | cons a t iht =>
            intro hl x hx
            simp only [uniqL, Bool.and_eq_true] at hl
            simp only [List.mem_cons] at hx
            rcases hx with rfl | hx
            · exact hl.1
            · exact iht hl.2 x hx
        exact this others hu oc hocn.2
      cases hx : c.inter false oc with
      | error e =>
        have := Field.inter_error_panic false c oc hocn.1.symm hc.1 e hx
        subst this
        simp only [hx] at h
        cases h
      | ok x =>
        simp only [hx] at h
        split at h
        · cases h
        · rename_i rest hrest
          cases h
          have ih1 := Field.inter_paths false c oc x hocn.1.symm hc.1 hocu hx p
          have ih2 := interL_paths cs others rest hc.2 hnd hu hrest p
          simp only [namePathsL, List.mem_append, ih1, ih2]
          constructor
          · rintro (⟨h1, h2⟩ | ⟨h1, h2⟩)
            · exact ⟨Or.inl h1, (namePathsL_mem others p).mpr ⟨oc, hocn.2, h2⟩⟩
            · exact ⟨Or.inr h1, h2⟩
          · rintro ⟨h1 | h1, h2⟩
            · obtain ⟨oc', hoc', hp'⟩ := (namePathsL_lookup others hnd c p h1).mp h2
              rw [hf] at hoc'; cases hoc'
              exact Or.inl ⟨h1, hp'⟩
            · exact Or.inr ⟨h1, h2⟩
end

/-- schema level: `Schema::intersection` iterates the right operand and looks each field up in the left one -/
theorem Schema.inter_paths (a : Schema) (ig : Bool) (hnda : nodupB (a.map Field.name) = true) :
    ∀ (b r : Schema),
      (∀ o ∈ b, ∀ f, findByName o.name a = some f → f.compat o = true) → uniqL b = true →
      Schema.inter a ig b = .ok r →
      ∀ p, p ∈ namePathsL r ↔ p ∈ namePathsL a ∧ p ∈ namePathsL b
  | [], r, _, _, h, p => by simp [Schema.inter] at h; cases h; simp [namePathsL]
  | o :: os, r, hc, hu, h, p => by
    simp only [uniqL, Bool.and_eq_true] at hu
    unfold Schema.inter at h
    cases hf : findByName o.name a with
    | none =>
      simp only [hf] at h
      have ih := Schema.inter_paths a ig hnda os r (fun o' ho' => hc o' (by simp [ho'])) hu.2 h p
      simp only [namePathsL, List.mem_append, ih]
      constructor
      · rintro ⟨h1, h2⟩; exact ⟨h1, Or.inr h2⟩
      · rintro ⟨h1, h2 | h2⟩
        · exfalso
          obtain ⟨f, hfa, hpf⟩ := (namePathsL_mem a p).mp h1
          obtain ⟨r1, hr1⟩ := f.namePaths_head p hpf
          obtain ⟨r2, hr2⟩ := o.namePaths_head p h2
          rw [hr1] at hr2
          have : f.name = o.name := by injection hr2
          exact findByName_none_names hf f hfa this
        · exact ⟨h1, h2⟩
    | some f =>
      simp only [hf] at h
      have hfn := findByName_some hf
      split at h
      · cases h
      · rename_i x hx
        split at h
        · cases h
        · rename_i rest hrest
          cases h
          have ih1 := Field.inter_paths ig f o x hfn.1 (hc o (by simp) f hf) hu.1 hx p
          have ih2 := Schema.inter_paths a ig hnda os rest (fun o' ho' => hc o' (by simp [ho'])) hu.2 hrest p
          simp only [namePathsL, List.mem_append, ih1, ih2]
          constructor
          · rintro (⟨h1, h2⟩ | ⟨h1, h2⟩)
            · exact ⟨(namePathsL_mem a p).mpr ⟨f, hfn.2, h1⟩, Or.inl h2⟩
            · exact ⟨h1, Or.inr h2⟩
          · rintro ⟨h1, h2 | h2⟩
            · obtain ⟨f', hf', hp'⟩ := (namePathsL_lookup a hnda o p h2).mp h1
              rw [hf] at hf'; cases hf'
              exact Or.inl ⟨hp', h2⟩
            · exact Or.inr ⟨h1, h2⟩

end LanceModel.C43
