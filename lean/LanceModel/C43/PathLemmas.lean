import LanceModel.C43.Model
/-
C43: lemmas about the field-path parser / formatter.
-/
namespace LanceModel.C43

theorem tick_ne_dot : tick ≠ dot := by decide

/-! one lemma per branch of the loop body -/
theorem parseGo_nil (res cur q) : parseGo res cur q [] = some (res, cur, q) := by rw [parseGo]
theorem parseGo_other (res cur q c rest) (h1 : c ≠ tick) (h2 : ¬ (c = dot ∧ q = false)) :
    parseGo res cur q (c :: rest) = parseGo res (cur ++ [c]) q rest := by
  rw [parseGo.eq_def]; simp [h1, h2]
theorem parseGo_open (res rest) : parseGo res [] false (tick :: rest) = parseGo res [] true rest := by
  rw [parseGo.eq_def]; simp
theorem parseGo_esc (res cur rest) :
    parseGo res cur true (tick :: tick :: rest) = parseGo res (cur ++ [tick]) true rest := by
  rw [parseGo]; simp
theorem parseGo_close_end (res cur) : parseGo res cur true [tick] = some (res, cur, false) := by
  rw [parseGo]; simp
theorem parseGo_close_dot (res cur rest) :
    parseGo res cur true (tick :: dot :: rest) = parseGo res cur false (dot :: rest) := by
  rw [parseGo]; simp [tick_ne_dot.symm]
theorem parseGo_dot (res cur rest) (h : cur ≠ []) :
    parseGo res cur false (dot :: rest) = parseGo (res ++ [cur]) [] false rest := by
  rw [parseGo.eq_def]; simp [tick_ne_dot.symm, h]

/-- unquoted run: characters that are neither `.` nor a backtick are appended to `current` -/
theorem parseGo_plain (res : List (List Char)) (s t : List Char) :
    ∀ cur, (∀ c ∈ s, c ≠ tick ∧ c ≠ dot) →
      parseGo res cur false (s ++ t) = parseGo res (cur ++ s) false t := by
  induction s with
  | nil => intro cur _; simp
  | cons c s ih =>
    intro cur h
    have hc := h c (by simp)
    have := ih (cur ++ [c]) (fun d hd => h d (by simp [hd]))
    rw [List.cons_append, parseGo_other _ _ _ _ _ hc.1 (fun h => hc.2 h.1), this]
    simp

/-- inside quotes: the escaped body followed by the closing backtick and (end | `.`…) -/
theorem parseGo_quoted (res : List (List Char)) (s t : List Char)
    (ht : t = [] ∨ ∃ t', t = dot :: t') :
    ∀ cur, parseGo res cur true (escapeTicks s ++ tick :: t) = parseGo res (cur ++ s) false t := by
  induction s with
  | nil =>
    intro cur
    rcases ht with rfl | ⟨t', rfl⟩
    · simp [escapeTicks, parseGo_close_end, parseGo_nil]
    · simp [escapeTicks, parseGo_close_dot]
  | cons c s ih =>
    intro cur
    by_cases hc : c = tick
    · subst hc
      have := ih (cur ++ [tick])
      simp only [escapeTicks, if_true, List.cons_append]
      rw [parseGo_esc, this]; simp
    · have := ih (cur ++ [c])
      simp only [escapeTicks, hc, if_false, List.cons_append]
      rw [parseGo_other _ _ _ _ _ hc (by simp), this]; simp

theorem parseGo_quoteSeg (res : List (List Char)) (s t : List Char)
    (ht : t = [] ∨ ∃ t', t = dot :: t') :
    parseGo res [] false (quoteSeg s ++ t) = parseGo res s false t := by
  have := parseGo_quoted res s t ht []
  simp only [quoteSeg, List.cons_append, List.append_assoc, List.singleton_append, parseGo_open]
  simpa using this

theorem contains_false_iff (s : List Char) (x : Char) : s.contains x = false ↔ ∀ c ∈ s, c ≠ x := by
  induction s with
  | nil => simp
  | cons a s ih =>
    simp only [List.contains_cons, Bool.or_eq_false_iff, ih, List.mem_cons, forall_eq_or_imp]
    constructor
    · rintro ⟨h1, h2⟩; exact ⟨fun h => by simp [h] at h1, h2⟩
    · rintro ⟨h1, h2⟩; exact ⟨by simp; exact fun h => h1 h.symm, h2⟩

theorem parseGo_formatSeg (res : List (List Char)) (s t : List Char)
    (ht : t = [] ∨ ∃ t', t = dot :: t') :
    parseGo res [] false (formatSeg s ++ t) = parseGo res s false t := by
  unfold formatSeg
  by_cases hq : needsQuote s = true
  · simp only [hq, if_true]; exact parseGo_quoteSeg res s t ht
  · simp only [hq]
    have hq' : needsQuote s = false := by simpa using hq
    simp only [needsQuote, Bool.or_eq_false_iff, contains_false_iff] at hq'
    have := parseGo_plain res s t [] (fun c hc => ⟨hq'.2 c hc, hq'.1 c hc⟩)
    simpa using this

/-- the loop over a whole formatted path, for any per-segment encoder `enc` that the parser reads back -/
theorem parseGo_join (enc : List Char → List Char)
    (henc : ∀ res s t, (t = [] ∨ ∃ t', t = dot :: t') →
      parseGo res [] false (enc s ++ t) = parseGo res s false t) :
    ∀ (segs : List (List Char)) (s : List Char) (res : List (List Char)),
      s ≠ [] → (∀ x ∈ segs, x ≠ []) →
      parseGo res [] false (joinDot ((s :: segs).map enc))
        = some (res ++ (s :: segs).dropLast, (s :: segs).getLast (by simp), false) := by
  intro segs
  induction segs with
  | nil =>
    intro s res _ _
    have := henc res s [] (Or.inl rfl)
    simp only [List.append_nil] at this
    simp [joinDot, this, parseGo]
  | cons s2 segs ih =>
    intro s res hs hall
    have h1 := henc res s (dot :: joinDot ((s2 :: segs).map enc)) (Or.inr ⟨_, rfl⟩)
    have h2 := ih s2 (res ++ [s]) (hall s2 (by simp)) (fun x hx => hall x (by simp [hx]))
    have hd : dot ≠ tick := fun h => tick_ne_dot h.symm
    simp only [List.map_cons] at h1 h2 ⊢
    rw [joinDot, h1, parseGo_dot _ _ _ hs, h2]
    simp
    · simp

theorem joinDot_ne_nil (enc : List Char → List Char) (s : List Char) (segs : List (List Char))
    (h : enc s ≠ []) : joinDot ((s :: segs).map enc) ≠ [] := by
  cases segs with
  | nil => simpa [joinDot] using h
  | cons a t => simp [joinDot, h]

theorem quoteSeg_ne_nil (s : List Char) : quoteSeg s ≠ [] := by simp [quoteSeg]

theorem formatSeg_ne_nil (s : List Char) (h : s ≠ []) : formatSeg s ≠ [] := by
  unfold formatSeg; split
  · exact quoteSeg_ne_nil s
  · exact h

theorem parsePath_join (enc : List Char → List Char)
    (henc : ∀ res s t, (t = [] ∨ ∃ t', t = dot :: t') →
      parseGo res [] false (enc s ++ t) = parseGo res s false t)
    (hne : ∀ s, s ≠ [] → enc s ≠ [])
    (segs : List (List Char)) (h0 : segs ≠ []) (hall : ∀ x ∈ segs, x ≠ []) :
    parsePath (joinDot (segs.map enc)) = some segs := by
  cases segs with
  | nil => exact absurd rfl h0
  | cons s segs =>
    have hs : s ≠ [] := hall s (by simp)
    have hj := parseGo_join enc henc segs s [] hs (fun x hx => hall x (by simp [hx]))
    have hne' := joinDot_ne_nil enc s segs (hne s hs)
    have hlast : (s :: segs).getLast (by simp) ≠ [] := hall _ (List.getLast_mem _)
    unfold parsePath
    rw [if_neg hne', hj]
    simp only [List.nil_append, Bool.false_eq_true, if_false, ne_eq, hlast, not_false_eq_true, if_true]
    rw [List.dropLast_concat_getLast]

/-- invariant of the loop: the pushed segments are non-empty -/
theorem parseGo_nonempty (p : List Char) :
    ∀ res cur q res' cur' q', parseGo res cur q p = some (res', cur', q') →
      (∀ s ∈ res, s ≠ []) → ∀ s ∈ res', s ≠ [] := by
  intro res cur q
  fun_induction parseGo res cur q p <;> intro res' cur' q' h hres
  all_goals simp_all
  rename_i ih
  apply ih
  rintro s (hs | rfl)
  · exact hres s hs
  · assumption

end LanceModel.C43
