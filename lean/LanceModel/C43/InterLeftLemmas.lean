import LanceModel.C43.InterLemmas
/-
C43: for ANY two schemas, every field of the intersection is a field of the left operand with the left operand's id
and attributes.
-/
namespace LanceModel.C43

mutual
/-- every id in the subtree is assigned (non-negative) -/
def Field.nonneg : Field → Bool
  | .mk _ i _ _ _ cs => decide (0 ≤ i) && nonnegL cs
def nonnegL : List Field → Bool
  | [] => true
  | f :: fs => f.nonneg && nonnegL fs
end

theorem nonnegL_mem : ∀ (l : List Field), nonnegL l = true → ∀ f ∈ l, f.nonneg = true
  | [], _, f, hf => by simp at hf
  | a :: l, h, f, hf => by
    simp only [nonnegL, Bool.and_eq_true] at h
    simp only [List.mem_cons] at hf
    rcases hf with rfl | hf
    · exact h.1
    · exact nonnegL_mem l h.2 f hf

mutual
theorem Field.inter_keeps_left (ig : Bool) :
    ∀ (f o r : Field), f.nonneg = true → f.inter ig o = .ok r → Sub r f
  | .mk n i k b m cs, o, r, hnn, h => by
    simp only [Field.nonneg, Bool.and_eq_true, decide_eq_true_eq] at hnn
    unfold Field.inter at h
    split at h
    · cases h
    · split at h
      · cases h
      · split at h
        · split at h
          · cases h
          · rename_i cs' hcs
            cases h
            simp only [ge_iff_le, hnn.1, if_true]
            exact Sub.mk (interL_keeps_left cs o.children cs' hnn.2 hcs)
        · split at h
          · cases h
          · cases h
            simp only [ge_iff_le, hnn.1, if_true]
            exact Sub.refl _
theorem interL_keeps_left :
    ∀ (cs others r : List Field), nonnegL cs = true → interL others cs = .ok r → SubL r cs
  | [], others, r, _, h => by simp [interL] at h; cases h; exact SubL.nil
  | c :: cs, others, r, hnn, h => by
    simp only [nonnegL, Bool.and_eq_true] at hnn
    unfold interL at h
    split at h
    · rename_i oc _
      split at h
      · cases h
      · exact SubL.skip (interL_keeps_left cs others r hnn.2 h)
      · rename_i x hx
        split at h
        · cases h
        · rename_i rest hrest
          cases h
          exact SubL.cons (Field.inter_keeps_left false c oc x hnn.1 hx)
            (interL_keeps_left cs others rest hnn.2 hrest)
    · exact SubL.skip (interL_keeps_left cs others r hnn.2 h)
end

theorem Schema.inter_keeps_left (a : Schema) (ig : Bool) (hnn : nonnegL a = true) :
    ∀ (b r : Schema), Schema.inter a ig b = .ok r →
      ∀ x ∈ r, ∃ f, findByName x.name a = some f ∧ Sub x f
  | [], r, h, x, hx => by simp [Schema.inter] at h; cases h; simp at hx
  | o :: os, r, h, x, hx => by
    unfold Schema.inter at h
    split at h
    · rename_i f hf
      split at h
      · cases h
      · rename_i y hy
        split at h
        · cases h
        · rename_i rest hrest
          cases h
          simp only [List.mem_cons] at hx
          rcases hx with rfl | hx
          · have hfn := findByName_some hf
            have hs := Field.inter_keeps_left ig f o x (nonnegL_mem a hnn f hfn.2) hy
            refine ⟨f, ?_, hs⟩
            rw [hs.name_eq, hfn.1]; exact hf
          · exact Schema.inter_keeps_left a ig hnn os rest hrest x hx
    · exact Schema.inter_keeps_left a ig hnn os r h x hx

end LanceModel.C43
