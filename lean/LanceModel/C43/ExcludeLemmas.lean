import LanceModel.C43.InterLemmas
/-
C43: exclusion of a sub-schema is set difference on leaf name paths.
-/
namespace LanceModel.C43

mutual
/-- name paths (from this field down) of the primitive fields in the subtree -/
def Field.leafPaths : Field → List (List (List Char))
  | .mk n _ k _ _ cs => if k.isNested then (leafPathsL cs).map (n :: ·) else [[n]]
def leafPathsL : List Field → List (List (List Char))
  | [] => []
  | f :: fs => f.leafPaths ++ leafPathsL fs
end

theorem Field.leafPaths_head (f : Field) : ∀ p ∈ f.leafPaths, ∃ rest, p = f.name :: rest := by
  cases f with
  | mk n i k b m cs =>
    intro p hp
    simp only [Field.leafPaths] at hp
    split at hp
    · obtain ⟨r, _, rfl⟩ := List.mem_map.mp hp; exact ⟨r, rfl⟩
    · simp at hp; exact ⟨[], hp⟩

theorem leafPathsL_head : ∀ (cs : List Field), ∀ p ∈ leafPathsL cs, ∃ c ∈ cs, ∃ rest, p = c.name :: rest
  | [], p, hp => by simp [leafPathsL] at hp
  | c :: cs, p, hp => by
    simp only [leafPathsL, List.mem_append] at hp
    rcases hp with hp | hp
    · obtain ⟨r, hr⟩ := c.leafPaths_head p hp; exact ⟨c, by simp, r, hr⟩
    · obtain ⟨d, hd, r, hr⟩ := leafPathsL_head cs p hp; exact ⟨d, by simp [hd], r, hr⟩

theorem filter_map_cons (n : List Char) (l l' : List (List (List Char))) :
    (l.map (n :: ·)).filter (fun p => !(l'.map (n :: ·)).contains p)
      = (l.filter (fun p => !l'.contains p)).map (n :: ·) := by
  induction l with
  | nil => simp
  | cons a t ih =>
    have : (l'.map (n :: ·)).contains (n :: a) = l'.contains a := by
      induction l' with
      | nil => simp
      | cons x xs ihx => simp [List.contains_cons, ihx]
    simp only [List.map_cons, List.filter_cons, this, ih]
    split <;> simp

/-- `excludeL` only looks at `others` through name lookups of the fields of `cs` -/
theorem excludeL_congr (o1 o2 : List Field) : ∀ (cs : List Field),
    (∀ c ∈ cs, findByName c.name o1 = findByName c.name o2) → excludeL o1 cs = excludeL o2 cs
  | [], _ => by simp [excludeL]
  | c :: cs, h => by
    have h1 := h c (by simp)
    have h2 := excludeL_congr o1 o2 cs (fun d hd => h d (by simp [hd]))
    simp only [excludeL, h1, h2]

theorem Field.exclude_of_not_dtOk (f o : Field) (h : f.dtOk = false) : f.exclude o = .error .panic := by
  cases f with
  | mk n i k b m cs => simp [Field.exclude, h]

theorem Field.exclude_of_leaf (f o : Field) (hd : f.dtOk = true) (hk : f.kind.isNested = false) :
    f.exclude o = .ok none := by
  cases f with
  | mk n i k b m cs =>
    simp only [Field.kind_mk] at hk
    simp [Field.exclude, hd, hk]

/-- the top-level loop of `Schema::exclude` is the children loop of `Field::exclude` -/
theorem Schema.exclude_eq_excludeL (o : Schema) : ∀ (s : Schema), Schema.exclude s o = excludeL o s
  | [] => by simp [Schema.exclude, excludeL]
  | f :: fs => by
    have ih := Schema.exclude_eq_excludeL o fs
    simp only [Schema.exclude, excludeL, ih]
    cases hf : findByName f.name o with
    | none => rfl
    | some of =>
      simp only []
      cases hd : f.dtOk with
      | false => simp [Field.exclude_of_not_dtOk f of hd]
      | true =>
        cases hk : f.kind.isNested with
        | false =>
          simp only [Bool.not_true, Bool.false_eq_true, if_false, Field.exclude_of_leaf f of hd hk]
          cases excludeL o fs <;> rfl
        | true => first | rfl | (simp; rfl)

theorem filter_not_contains_of_disjoint (l l1 l2 : List (List (List Char)))
    (h : ∀ p ∈ l, p ∉ l1) :
    l.filter (fun p => !(l1 ++ l2).contains p) = l.filter (fun p => !l2.contains p) := by
  apply List.filter_congr
  intro p hp
  have := h p hp
  simp [this]

theorem filter_not_contains_of_disjoint' (l l1 l2 : List (List (List Char)))
    (h : ∀ p ∈ l, p ∉ l2) :
    l.filter (fun p => !(l1 ++ l2).contains p) = l.filter (fun p => !l1.contains p) := by
  apply List.filter_congr
  intro p hp
  have := h p hp
  simp [this]

theorem filter_all (l l1 : List (List (List Char))) (h : ∀ p ∈ l, p ∉ l1) :
    l.filter (fun p => !l1.contains p) = l := by
  apply List.filter_eq_self.mpr
  intro p hp
  simp [h p hp]

mutual
theorem Field.exclude_leafPaths :
    ∀ (f o : Field), Sub o f → f.wf = true →
      ∃ r, f.exclude o = .ok r ∧
        (match r with | some f' => f'.leafPaths | none => [])
          = f.leafPaths.filter (fun p => !o.leafPaths.contains p)
  | .mk n i k b m cs, o, hsub, hwf => by
    cases hsub with
    | mk hcs =>
      rename_i cs'
      simp only [Field.wf, Bool.and_eq_true, decide_eq_true_eq] at hwf
      obtain ⟨⟨⟨⟨_, hnd⟩, hleaf⟩, hdt⟩, hwfl⟩ := hwf
      cases hk : k.isNested with
      | false =>
        refine ⟨none, by simp [Field.exclude, hdt, hk], ?_⟩
        simp [Field.leafPaths, hk]
      | true =>
        obtain ⟨r, hr, hp⟩ := excludeL_leafPaths cs cs' hcs hnd hwfl
        by_cases he : r.isEmpty = true
        · refine ⟨none, by simp [Field.exclude, hdt, hk, hr, he], ?_⟩
          simp only [Field.leafPaths, hk, if_true, filter_map_cons, ← hp]
          have : r = [] := by simpa using he
          subst this; simp [leafPathsL]
        · refine ⟨some (.mk n i k b m r), by simp [Field.exclude, hdt, hk, hr, he], ?_⟩
          simp only [Field.leafPaths, hk, if_true, filter_map_cons, ← hp]
theorem excludeL_leafPaths :
    ∀ (cs cs' : List Field), SubL cs' cs → nodupB (cs.map Field.name) = true → wfL cs = true →
      ∃ r, excludeL cs' cs = .ok r ∧
        leafPathsL r = (leafPathsL cs).filter (fun p => !(leafPathsL cs').contains p)
  | [], cs', h, _, _ => by
    have := h.nil_right; subst this
    exact ⟨[], by simp [excludeL], by simp [leafPathsL]⟩
  | c :: rest, cs', h, hnd, hwf => by
    simp only [List.map_cons, nodupB_cons] at hnd
    simp only [wfL, Bool.and_eq_true] at hwf
    cases h with
    | skip h' =>
      obtain ⟨r, hr, hp⟩ := excludeL_leafPaths rest cs' h' hnd.2 hwf.2
      have hnone : findByName c.name cs' = none :=
        findByName_none_of_not_mem _ _ (fun hm => hnd.1 (h'.names_subset _ hm))
      refine ⟨c :: r, by simp [excludeL, hnone, hr], ?_⟩
      simp only [leafPathsL, List.filter_append, hp]
      congr 1
      symm
      apply filter_all
      intro p hp1 hp2
      obtain ⟨r1, hr1⟩ := c.leafPaths_head p hp1
      obtain ⟨d, hd, r2, hr2⟩ := leafPathsL_head cs' p hp2
      rw [hr1] at hr2
      have : c.name = d.name := by injection hr2
      apply hnd.1
      rw [this]
      exact h'.names_subset _ (List.mem_map.mpr ⟨d, hd, rfl⟩)
    | cons hs h' =>
      rename_i c' l
      have hfind : findByName c.name (c' :: l) = some c' := by
        rw [← hs.name_eq]; exact findByName_cons_eq c' l
      obtain ⟨x, hx, hpx⟩ := Field.exclude_leafPaths c c' hs hwf.1
      obtain ⟨r, hr, hp⟩ := excludeL_leafPaths rest l h' hnd.2 hwf.2
      have hrest : excludeL (c' :: l) rest = excludeL l rest := by
        apply excludeL_congr
        intro d hd
        apply findByName_cons_ne
        intro e
        apply hnd.1
        rw [← hs.name_eq, e]
        exact List.mem_map.mpr ⟨d, hd, rfl⟩
      have h1 : (c.leafPaths).filter (fun p => !(c'.leafPaths ++ leafPathsL l).contains p)
          = c.leafPaths.filter (fun p => !c'.leafPaths.contains p) := by
        apply filter_not_contains_of_disjoint'
        intro p hp1 hp2
        obtain ⟨r1, hr1⟩ := c.leafPaths_head p hp1
        obtain ⟨d, hd, r2, hr2⟩ := leafPathsL_head l p hp2
        rw [hr1] at hr2
        have : c.name = d.name := by injection hr2
        apply hnd.1
        rw [this]
        exact h'.names_subset _ (List.mem_map.mpr ⟨d, hd, rfl⟩)
      have h2 : (leafPathsL rest).filter (fun p => !(c'.leafPaths ++ leafPathsL l).contains p)
          = (leafPathsL rest).filter (fun p => !(leafPathsL l).contains p) := by
        apply filter_not_contains_of_disjoint
        intro p hp1 hp2
        obtain ⟨d, hd, r1, hr1⟩ := leafPathsL_head rest p hp1
        obtain ⟨r2, hr2⟩ := c'.leafPaths_head p hp2
        rw [hr1] at hr2
        have : d.name = c'.name := by injection hr2
        apply hnd.1
        rw [← hs.name_eq, ← this]
        exact List.mem_map.mpr ⟨d, hd, rfl⟩
      cases x with
      | none =>
        refine ⟨r, by simp [excludeL, hfind, hx, hrest, hr], ?_⟩
        simp only [leafPathsL, List.filter_append, h1, h2, ← hp, ← hpx]
        simp
      | some c'' =>
        refine ⟨c'' :: r, by simp [excludeL, hfind, hx, hrest, hr], ?_⟩
        simp only [leafPathsL, List.filter_append, h1, h2, ← hp, ← hpx]
end

end LanceModel.C43
