/-
C43 model: field paths, `Field` / `Schema` projection algebra and `Projection`
(rust/lance-core/src/datatypes/schema.rs, rust/lance-core/src/datatypes/field.rs).

Import-free (core only) so that the driver links natively.

Modelling choices
* a `String` is a `List Char` (Rust iterates `chars()`, i.e. Unicode scalar values, and so does the model).
* a field is `name, id, kind, nullable, meta, children`.  `kind` abstracts `logical_type`: `struct`, `list`
  (List; its element is `children[0]`), or a primitive leaf type tagged by a number.  `meta` stands for the
  metadata map (a tag; the operations only ever copy it).  `parent_id`, `encoding`, `dictionary`,
  `unenforced_primary_key` are copied verbatim by every modelled operation and are not represented; LargeList,
  FixedSizeList, dictionary and blob fields are out of the model.
* `Field::data_type()` panics on a list without children (`children[0]`); `dtOk` says it does not.  Every operation
  that calls `data_type()` yields `Err.panic` exactly where the Rust code would panic.
* `HashSet<i32>` in `Projection` is a list with membership semantics (the driver prints it sorted, de-duplicated).
* the schema-level metadata map is not modelled.
-/
namespace LanceModel.C43

/-! ## Field paths: `parse_field_path`, `format_field_path`, `escape_field_path_for_project` (schema.rs) -/

def tick : Char := '`'
def dot : Char := '.'

/-- the `while let Some(ch) = chars.next()` loop of `parse_field_path` (schema.rs): state `(result, current,
    in_quotes)`; `none` = one of the `return Err(..)` inside the loop. -/
def parseGo (res : List (List Char)) (cur : List Char) (inQ : Bool) :
    List Char → Option (List (List Char) × List Char × Bool)
  | [] => some (res, cur, inQ)
  | c :: rest =>
    if c = tick then
      if inQ then
        match rest with
        | [] => some (res, cur, false)
        | d :: rest' =>
          if d = tick then parseGo res (cur ++ [tick]) true rest'
          else if d = dot then parseGo res cur false (d :: rest')
          else none
      else if cur = [] then parseGo res cur true rest
      else none
    else if c = dot ∧ inQ = false then
      if cur = [] then none else parseGo (res ++ [cur]) [] false rest
    else parseGo res (cur ++ [c]) inQ rest

/-- `parse_field_path` (schema.rs). Every error is `Error::Schema`, so `none` = `err:schema`. -/
def parsePath (p : List Char) : Option (List (List Char)) :=
  if p = [] then none
  else
    match parseGo [] [] false p with
    | none => none
    | some (res, cur, inQ) =>
      if inQ then none
      else if cur ≠ [] then some (res ++ [cur])
      else none

/-- `field.replace('`', "``")` -/
def escapeTicks : List Char → List Char
  | [] => []
  | c :: t => if c = tick then tick :: tick :: escapeTicks t else c :: escapeTicks t

def quoteSeg (s : List Char) : List Char := tick :: (escapeTicks s ++ [tick])

def needsQuote (s : List Char) : Bool := s.contains dot || s.contains tick

def formatSeg (s : List Char) : List Char := if needsQuote s then quoteSeg s else s

/-- `join(".")` -/
def joinDot : List (List Char) → List Char
  | [] => []
  | [s] => s
  | s :: t => s ++ dot :: joinDot t

/-- `format_field_path` (schema.rs) -/
def formatPath (segs : List (List Char)) : List Char := joinDot (segs.map formatSeg)

/-- `escape_field_path_for_project` (schema.rs) -/
def escapePath (name : List Char) : List Char :=
  if name = ['*'] then name
  else
    joinDot ((match parsePath name with
      | some segs => segs
      | none => [name]).map quoteSeg)

/-! ## Fields -/

inductive Kind where
  | struct
  | list
  | leaf (t : Nat)
deriving DecidableEq, Repr, Inhabited

inductive Field where
  | mk (name : List Char) (id : Int) (kind : Kind) (nullable : Bool) (md : Nat) (children : List Field)
deriving Repr, Inhabited

namespace Field
def name : Field → List Char | mk n _ _ _ _ _ => n
def id : Field → Int | mk _ i _ _ _ _ => i
def kind : Field → Kind | mk _ _ k _ _ _ => k
def nullable : Field → Bool | mk _ _ _ b _ _ => b
def md : Field → Nat | mk _ _ _ _ m _ => m
def children : Field → List Field | mk _ _ _ _ _ c => c
/-- `Self { children, ..self.clone() }` -/
def withChildren : Field → List Field → Field | mk n i k b m _, c => mk n i k b m c
def withId : Field → Int → Field | mk n _ k b m c, i => mk n i k b m c
end Field

abbrev Schema := List Field

inductive Err where
  | schema | arrow | invalid | index | panic
deriving DecidableEq, Repr, Inhabited

/-- `self.children.iter().find(|c| c.name == name)`: `Field::child`, and the fixed top-level lookup
    `Schema::top_level_field` (schema.rs) -/
def findByName (n : List Char) : List Field → Option Field
  | [] => none
  | f :: fs => if f.name = n then some f else findByName n fs

mutual
/-- `Field::data_type()` does not panic: no list reachable through struct children / list elements lacks its element -/
def Field.dtOk : Field → Bool
  | .mk _ _ .struct _ _ cs => dtOkAll cs
  | .mk _ _ .list _ _ cs => dtOkHead cs
  | .mk _ _ (.leaf _) _ _ _ => true
def dtOkAll : List Field → Bool
  | [] => true
  | f :: fs => f.dtOk && dtOkAll fs
def dtOkHead : List Field → Bool
  | [] => false
  | f :: _ => f.dtOk
end

def Kind.isNested : Kind → Bool
  | .leaf _ => false
  | _ => true

/-! ### ids, pre-order -/

mutual
/-- pre-order ids of a field and its descendants (`fields_pre_order().map(|f| f.id)` restricted to one field) -/
def Field.ids : Field → List Int
  | .mk _ i _ _ _ cs => i :: idsL cs
/-- `Schema::field_ids` (schema.rs) -/
def idsL : List Field → List Int
  | [] => []
  | f :: fs => f.ids ++ idsL fs
end

mutual
/-- the field and all its descendants, pre-order (`fields_pre_order`) -/
def Field.nodes : Field → List Field
  | .mk n i k b m cs => .mk n i k b m cs :: nodesL cs
def nodesL : List Field → List Field
  | [] => []
  | f :: fs => f.nodes ++ nodesL fs
end

/-! ### resolve -/

/-- `Field::resolve` (field.rs): push self, then follow the remaining segments through first-match children -/
def Field.resolve : Field → List (List Char) → Option (List Field)
  | f, [] => some [f]
  | f, s :: rest =>
    match findByName s f.children with
    | some c => (c.resolve rest).map (f :: ·)
    | none => none

/-- `Schema::resolve` on already parsed segments -/
def resolveSegs (s : Schema) : List (List Char) → Option (List Field)
  | [] => none
  | first :: rest =>
    match findByName first s with
    | some f => f.resolve rest
    | none => none

/-- `Schema::resolve` (schema.rs) -/
def Schema.resolve (s : Schema) (col : List Char) : Option (List Field) :=
  match parsePath col with
  | none => none
  | some split => resolveSegs s split

/-- `Schema::field` (schema.rs) -/
def Schema.field (s : Schema) (col : List Char) : Option Field :=
  match s.resolve col with
  | some fs => fs.getLast?
  | none => none

/-! ### field_by_id / field_ancestry_by_id / field_path -/

mutual
/-- first field in pre-order with the id: `Schema::field_by_id` + `Field::field_by_id` -/
def Field.byId (id : Int) : Field → Option Field
  | .mk n i k b m cs => if i = id then some (.mk n i k b m cs) else byIdL id cs
def byIdL (id : Int) : List Field → Option Field
  | [] => none
  | f :: fs =>
    match f.byId id with
    | some g => some g
    | none => byIdL id fs
end

mutual
/-- `Schema::field_ancestry_by_id`: the explicit stack pops the LAST pushed path first, so the search is a pre-order
    walk of the mirrored tree: later siblings before earlier ones. `ancF` handles one field, `ancL` a sibling list
    that is already given in visiting order (reversed). -/
def Field.ancRev (id : Int) : Field → Option (List Field)
  | .mk n i k b m cs =>
    if i = id then some [.mk n i k b m cs]
    else
      match ancRevL id cs with
      | some p => some (.mk n i k b m cs :: p)
      | none => none
/-- siblings `fs` in original order; the last one is searched first -/
def ancRevL (id : Int) : List Field → Option (List Field)
  | [] => none
  | f :: fs =>
    match ancRevL id fs with
    | some p => some p
    | none => f.ancRev id
end

/-- `Schema::field_path` (schema.rs): `none` = `Error::Index` -/
def Schema.fieldPath (s : Schema) (id : Int) : Option (List Char) :=
  match ancRevL id s with
  | some p => some (formatPath (p.map Field.name))
  | none => none

/-! ### project_by_ids -/

mutual
/-- `Field::project_by_ids` (field.rs) -/
def Field.projIds (I : List Int) (all : Bool) : Field → Option Field
  | .mk n i k b m cs =>
    let cs' := projIdsL I all cs
    if I.contains i && (cs'.isEmpty || all) then some (.mk n i k b m cs)
    else if !cs'.isEmpty then some (.mk n i k b m cs')
    else none
/-- `children.iter().filter_map(|c| c.project_by_ids(..))`; at top level: `Schema::project_by_ids` (schema.rs) -/
def projIdsL (I : List Int) (all : Bool) : List Field → List Field
  | [] => []
  | f :: fs =>
    match f.projIds I all with
    | some f' => f' :: projIdsL I all fs
    | none => projIdsL I all fs
end

def Schema.projectByIds (s : Schema) (I : List Int) (all : Bool) : Schema := projIdsL I all s

/-! ### exclude -/

mutual
/-- `Field::exclude` (field.rs): `.error .panic` where `data_type()` panics -/
def Field.exclude : Field → Field → Except Err (Option Field)
  | .mk n i k b m cs, other =>
    if !(Field.mk n i k b m cs).dtOk then .error .panic
    else if !k.isNested then .ok none
    else
      match excludeL other.children cs with
      | .error e => .error e
      | .ok cs' => if cs'.isEmpty then .ok none else .ok (some (.mk n i k b m cs'))
/-- the `map … filter … flatten` over `self.children` -/
def excludeL (others : List Field) : List Field → Except Err (List Field)
  | [] => .ok []
  | c :: cs =>
    match findByName c.name others with
    | some oc =>
      match c.exclude oc with
      | .error e => .error e
      | .ok r =>
        match excludeL others cs with
        | .error e => .error e
        | .ok rest => .ok (match r with | some c' => c' :: rest | none => rest)
    | none =>
      match excludeL others cs with
      | .error e => .error e
      | .ok rest => .ok (c :: rest)
end

/-- `Schema::exclude` (schema.rs, after fix 3daae2e: exact top-level name lookup; fix b3e7562: `is_nested`) -/
def Schema.exclude (s : Schema) (other : Schema) : Except Err Schema :=
  match s with
  | [] => .ok []
  | f :: fs =>
    match findByName f.name other with
    | some o =>
      if !f.dtOk then .error .panic
      else if f.kind.isNested then
        match f.exclude o with
        | .error e => .error e
        | .ok r =>
          match Schema.exclude fs other with
          | .error e => .error e
          | .ok rest => .ok (match r with | some f' => f' :: rest | none => rest)
      else Schema.exclude fs other
    | none =>
      match Schema.exclude fs other with
      | .error e => .error e
      | .ok rest => .ok (f :: rest)

/-! ### intersection -/

/-- both are structs or both are lists: the `matches!` in `Field::do_intersection` -/
def bothNested : Kind → Kind → Bool
  | .struct, .struct => true
  | .list, .list => true
  | _, _ => false

mutual
/-- `Field::do_intersection` (field.rs) -/
def Field.inter (ignoreTypes : Bool) : Field → Field → Except Err Field
  | .mk n i k b m cs, other =>
    if n ≠ other.name then .error .arrow
    else if !(Field.mk n i k b m cs).dtOk || !other.dtOk then .error .panic
    else if bothNested k other.kind then
      match interL other.children cs with
      | .error e => .error e
      | .ok cs' => .ok (.mk n (if i ≥ 0 then i else other.id) k b m cs')
    else if !ignoreTypes && k ≠ other.kind then .error .arrow
    else .ok (if i ≥ 0 then .mk n i k b m cs else other)
/-- `self.children.iter().filter_map(|c| other.child(&c.name).and_then(|oc| c.intersection(oc).ok()))`;
    a panic aborts, any other error drops the child -/
def interL (others : List Field) : List Field → Except Err (List Field)
  | [] => .ok []
  | c :: cs =>
    match findByName c.name others with
    | some oc =>
      match c.inter false oc with
      | .error .panic => .error .panic
      | .error _ => interL others cs
      | .ok r =>
        match interL others cs with
        | .error e => .error e
        | .ok rest => .ok (r :: rest)
    | none => interL others cs
end

/-- `Schema::do_intersection` (schema.rs): iterates the OTHER schema's top-level fields -/
def Schema.inter (s : Schema) (ignoreTypes : Bool) : Schema → Except Err Schema
  | [] => .ok []
  | o :: os =>
    match findByName o.name s with
    | some f =>
      match f.inter ignoreTypes o with
      | .error e => .error e
      | .ok r =>
        match Schema.inter s ignoreTypes os with
        | .error e => .error e
        | .ok rest => .ok (r :: rest)
    | none => Schema.inter s ignoreTypes os

/-! ### merge -/

mutual
/-- `Field::reset_id` -/
def Field.resetId : Field → Field
  | .mk n _ k b m cs => .mk n (-1) k b m (resetIdL cs)
def resetIdL : List Field → List Field
  | [] => []
  | f :: fs => f.resetId :: resetIdL fs
end

/-- replace the first field named `n` by `g` of it (`child_mut(name)` + in-place update); `none` if there is none -/
def updFirst (n : List Char) (g : Field → Except Err Field) : List Field → Except Err (Option (List Field))
  | [] => .ok none
  | c :: cs =>
    if c.name = n then
      match g c with
      | .error e => .error e
      | .ok c' => .ok (some (c' :: cs))
    else
      match updFirst n g cs with
      | .error e => .error e
      | .ok none => .ok none
      | .ok (some cs') => .ok (some (c :: cs'))

mutual
/-- `Field::merge(&mut self, other)` (field.rs), returning the updated `self`; structural on `other` -/
def Field.mergeWith (self : Field) : Field → Except Err Field
  | .mk on oi ok ob om ocs =>
    if !self.dtOk || !(Field.mk on oi ok ob om ocs).dtOk then .error .panic
    else
      match self.kind, ok with
      | .struct, .struct =>
        match mergeChildren self.children ocs with
        | .error e => .error e
        | .ok cs' => .ok (self.withChildren cs')
      | .list, .list =>
        match self.children, ocs with
        | c :: cs, oc :: _ =>
          match c.mergeWith oc with
          | .error e => .error e
          | .ok c' => .ok (self.withChildren (c' :: cs))
        | _, _ => .error .panic
      | k1, k2 => if k1 ≠ k2 then .error .schema else .ok self
/-- `for other_child in other.children { if let Some(f) = self.child_mut(name) { f.merge(oc)? } else { push } }` -/
def mergeChildren (cs : List Field) : List Field → Except Err (List Field)
  | [] => .ok cs
  | oc :: ocs =>
    match updFirst oc.name (fun c => c.mergeWith oc) cs with
    | .error e => .error e
    | .ok (some cs') => mergeChildren cs' ocs
    | .ok none => mergeChildren (cs ++ [oc]) ocs
end

/-- first loop of `Schema::merge`: each field of `self` merged with the same-named top-level field of `other` -/
def mergeTop (other : Schema) : Schema → Except Err Schema
  | [] => .ok []
  | f :: fs =>
    match (match findByName f.name other with
      | some o => f.mergeWith o
      | none => .ok f) with
    | .error e => .error e
    | .ok f' =>
      match mergeTop other fs with
      | .error e => .error e
      | .ok rest => .ok (f' :: rest)

/-- second loop of `Schema::merge`: append the top-level fields of `other` whose name is not there yet -/
def mergeNew (acc : Schema) : Schema → Schema
  | [] => acc
  | o :: os => if acc.any (fun f => f.name = o.name) then mergeNew acc os else mergeNew (acc ++ [o]) os

/-- `Schema::merge` (schema.rs; after fix 3daae2e) -/
def Schema.merge (s other : Schema) : Except Err Schema :=
  let other := resetIdL other
  match mergeTop other s with
  | .error e => .error e
  | .ok merged => .ok (mergeNew merged other)

/-! ### project (by column paths) -/

/-- `Field::project(path_components)` (field.rs) -/
def Field.project : Field → List (List Char) → Field
  | f, [] => f
  | f, s :: rest =>
    f.withChildren (match findByName s f.children with
      | some c => [c.project rest]
      | none => [])

def rowId : List Char := "_rowid".toList
def rowAddr : List Char := "_rowaddr".toList
def rowUpd : List Char := "_row_last_updated_at_version".toList
def rowCrt : List Char := "_row_created_at_version".toList

/-- `Schema::do_project` (schema.rs; after fix 3daae2e) -/
def doProject (s : Schema) (errOnMissing : Bool) (cands : Schema) : List (List Char) → Except Err Schema
  | [] => .ok cands
  | col :: cols =>
    match parsePath col with
    | none => .error .schema
    | some [] => .error .panic
    | some (first :: rest) =>
      match findByName first s with
      | some f =>
        let p := f.project rest
        match updFirst first (fun c => c.mergeWith p) cands with
        | .error e => .error e
        | .ok (some cands') => doProject s errOnMissing cands' cols
        | .ok none => doProject s errOnMissing (cands ++ [p]) cols
      | none =>
        if errOnMissing && first ≠ rowId && first ≠ rowAddr then .error .schema
        else doProject s errOnMissing cands cols

/-- `Schema::project` / `Schema::project_or_drop` -/
def Schema.project (s : Schema) (cols : List (List Char)) (errOnMissing : Bool) : Except Err Schema :=
  doProject s errOnMissing [] cols

/-! ### ids: max_field_id / set_field_id -/

def maxInt (a b : Int) : Int := if a ≤ b then b else a

mutual
/-- `Field::max_id` -/
def Field.maxId : Field → Int
  | .mk _ i _ _ _ cs => maxInt i (match maxIdL cs with | some m => m | none => -1)
/-- `iter().map(max_id).max()` -/
def maxIdL : List Field → Option Int
  | [] => none
  | f :: fs =>
    match maxIdL fs with
    | some m => some (maxInt f.maxId m)
    | none => some f.maxId
end

/-- `Schema::max_field_id` -/
def Schema.maxFieldId (s : Schema) : Option Int := maxIdL s

mutual
/-- `Field::set_id` threading `id_seed` -/
def Field.setId : Field → Int → Field × Int
  | .mk n i k b m cs, seed =>
    let i' := if i < 0 then seed else i
    let seed' := if i < 0 then seed + 1 else seed
    let r := setIdL cs seed'
    (.mk n i' k b m r.1, r.2)
def setIdL : List Field → Int → List Field × Int
  | [], seed => ([], seed)
  | f :: fs, seed =>
    let r := f.setId seed
    let r2 := setIdL fs r.2
    (r.1 :: r2.1, r2.2)
end

/-- `Schema::set_field_id` -/
def Schema.setFieldId (s : Schema) (maxExisting : Option Int) : Schema :=
  let schemaMax := match s.maxFieldId with | some m => m | none => -1
  let ex := match maxExisting with | some m => m | none => -1
  (setIdL s (maxInt schemaMax ex + 1)).1

/-! ### validate -/

def joinPlain : List (List Char) → List Char
  | [] => []
  | [s] => s
  | s :: t => s ++ dot :: joinPlain t

def nodupB {α : Type} [DecidableEq α] : List α → Bool
  | [] => true
  | x :: xs => !xs.contains x && nodupB xs

/-- `Schema::validate` (schema.rs): `true` = `Ok(())`, every failure is `Error::Schema` -/
def Schema.validate (s : Schema) : Bool :=
  s.all (fun f => !f.name.contains dot)
  && nodupB (s.map (fun f => match ancRevL f.id s with
      | some p => joinPlain (p.map Field.name)
      | none => []))
  && (idsL s).all (fun i => decide (0 ≤ i))
  && nodupB (idsL s)

/-! ## Projection -/

structure Projection where
  base : Schema
  ids : List Int
  rid : Bool
  raddr : Bool
  upd : Bool
  crt : Bool
deriving Inhabited

namespace Projection

/-- `Projection::empty` -/
def empty (base : Schema) : Projection := ⟨base, [], false, false, false, false⟩

/-- one step of the loop of `Projection::union_schema` -/
def addField (p : Projection) (f : Field) : Projection :=
  if f.id ≥ 0 then { p with ids := f.id :: p.ids }
  else if f.name = rowId then { p with rid := true }
  else if f.name = rowAddr then { p with raddr := true }
  else if f.name = rowUpd then { p with upd := true }
  else if f.name = rowCrt then { p with crt := true }
  else p

/-- `Projection::union_schema` -/
def unionSchema (p : Projection) (other : Schema) : Projection := (nodesL other).foldl addField p

def subField (p : Projection) (f : Field) : Projection :=
  if f.id ≥ 0 then { p with ids := p.ids.filter (· ≠ f.id) }
  else if f.name = rowId then { p with rid := false }
  else if f.name = rowAddr then { p with raddr := false }
  else if f.name = rowUpd then { p with upd := false }
  else if f.name = rowCrt then { p with crt := false }
  else p

/-- `Projection::subtract_schema` -/
def subtractSchema (p : Projection) (other : Schema) : Projection := (nodesL other).foldl subField p

/-- `Projection::full` -/
def full (base : Schema) : Projection := (empty base).unionSchema base

/-- `Projection::union_column` -/
def unionColumn (p : Projection) (col : List Char) (errOnMissing : Bool) : Except Err Projection :=
  if col = rowId then .ok { p with rid := true }
  else if col = rowAddr then .ok { p with raddr := true }
  else if col = rowUpd then .ok { p with upd := true }
  else if col = rowCrt then .ok { p with crt := true }
  else
    match p.base.resolve col with
    | some fs =>
      .ok { p with ids := p.ids ++ fs.map Field.id ++ (match fs.getLast? with
        | some l => idsL l.children
        | none => []) }
    | none => if errOnMissing then .error .invalid else .ok p

/-- `Projection::union_projection` -/
def union (p q : Projection) : Projection :=
  { p with ids := p.ids ++ q.ids, rid := p.rid || q.rid, raddr := p.raddr || q.raddr,
           upd := p.upd || q.upd, crt := p.crt || q.crt }

/-- `Projection::subtract_projection` -/
def subtract (p q : Projection) : Projection :=
  { p with ids := p.ids.filter (fun i => !q.ids.contains i), rid := p.rid && !q.rid,
           raddr := p.raddr && !q.raddr, upd := p.upd && !q.upd, crt := p.crt && !q.crt }

/-- `Projection::intersect` -/
def intersect (p q : Projection) : Projection :=
  { p with ids := p.ids.filter (fun i => q.ids.contains i), rid := p.rid && q.rid,
           raddr := p.raddr && q.raddr, upd := p.upd && q.upd, crt := p.crt && q.crt }

end Projection

mutual
/-- `Field::apply_projection` (field.rs); the `assert!` is `.error .panic`. Blob unloading is the identity on the
    modelled (non-blob) fields. -/
def Field.applyProj (I : List Int) : Field → Except Err (Option Field)
  | .mk n i k b m cs =>
    match applyProjL I cs with
    | .error e => .error e
    | .ok cs' =>
      if !(!cs'.isEmpty || !I.contains i || cs.isEmpty) then .error .panic
      else if cs'.isEmpty && !I.contains i then .ok none
      else .ok (some (.mk n i k b m cs'))
def applyProjL (I : List Int) : List Field → Except Err (List Field)
  | [] => .ok []
  | f :: fs =>
    match f.applyProj I with
    | .error e => .error e
    | .ok r =>
      match applyProjL I fs with
      | .error e => .error e
      | .ok rest => .ok (match r with | some f' => f' :: rest | none => rest)
end

/-- `Projection::to_bare_schema` -/
def Projection.toBareSchema (p : Projection) : Except Err Schema := applyProjL p.ids p.base

end LanceModel.C43
