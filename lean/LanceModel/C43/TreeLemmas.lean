import LanceModel.C43.Model
/-
C43: specification vocabulary for field trees (sub-schema relation, root paths, hit / cover predicates) and the
lemmas about `project_by_ids`.
-/
namespace LanceModel.C43

@[simp] theorem Field.name_mk (n i k b m cs) : (Field.mk n i k b m cs).name = n := rfl
@[simp] theorem Field.id_mk (n i k b m cs) : (Field.mk n i k b m cs).id = i := rfl
@[simp] theorem Field.kind_mk (n i k b m cs) : (Field.mk n i k b m cs).kind = k := rfl
@[simp] theorem Field.nullable_mk (n i k b m cs) : (Field.mk n i k b m cs).nullable = b := rfl
@[simp] theorem Field.md_mk (n i k b m cs) : (Field.mk n i k b m cs).md = m := rfl
@[simp] theorem Field.children_mk (n i k b m cs) : (Field.mk n i k b m cs).children = cs := rfl

/-! ## attribute- and order-preserving sub-schema -/

mutual
/-- `Sub f' f`: `f'` is `f` with some descendants removed; name, id, type, nullability, metadata of every kept field
    and the relative order of kept fields are those of `f`. -/
inductive Sub : Field → Field → Prop
  | mk {n i k b m cs' cs} : SubL cs' cs → Sub (.mk n i k b m cs') (.mk n i k b m cs)
inductive SubL : List Field → List Field → Prop
  | nil : SubL [] []
  | skip {l r f} : SubL l r → SubL l (f :: r)
  | cons {f' f l r} : Sub f' f → SubL l r → SubL (f' :: l) (f :: r)
end

mutual
theorem Sub.refl : ∀ f : Field, Sub f f
  | .mk _ _ _ _ _ cs => Sub.mk (SubL.refl cs)
theorem SubL.refl : ∀ cs : List Field, SubL cs cs
  | [] => SubL.nil
  | f :: fs => SubL.cons (Sub.refl f) (SubL.refl fs)
end

theorem SubL.nil_left : ∀ cs : List Field, SubL [] cs
  | [] => SubL.nil
  | _ :: fs => SubL.skip (SubL.nil_left fs)

/-! ## root paths -/

/-- a node of a schema together with its ancestors (outermost first) -/
abbrev Path := List Field × Field

def Path.chain (p : Path) : List Field := p.1 ++ [p.2]

mutual
/-- all nodes of `f` in pre-order, each with its ancestors; `pre` are the ancestors of `f` itself -/
def Field.paths (pre : List Field) : Field → List Path
  | .mk n i k b m cs => (pre, .mk n i k b m cs) :: pathsL (pre ++ [.mk n i k b m cs]) cs
def pathsL (pre : List Field) : List Field → List Path
  | [] => []
  | f :: fs => f.paths pre ++ pathsL pre fs
end

/-- the subtree of `f` contains a field whose id is in `I` -/
def hits (I : List Int) (f : Field) : Bool := f.ids.any (fun i => I.contains i)
def hitsL (I : List Int) (cs : List Field) : Bool := (idsL cs).any (fun i => I.contains i)

theorem hits_mk (I : List Int) (n i k b m cs) :
    hits I (.mk n i k b m cs) = (I.contains i || hitsL I cs) := by
  simp [hits, hitsL, Field.ids]

theorem hitsL_cons (I : List Int) (f : Field) (fs : List Field) :
    hitsL I (f :: fs) = (hits I f || hitsL I fs) := by
  simp [hits, hitsL, idsL, List.any_append]

mutual
theorem Field.paths_ids (pre : List Field) : ∀ f : Field, (f.paths pre).map (fun p => p.2.id) = f.ids
  | .mk n i k b m cs => by
    simp only [Field.paths, List.map_cons, Field.ids, Field.id_mk]
    rw [pathsL_ids]
theorem pathsL_ids (pre : List Field) : ∀ cs : List Field, (pathsL pre cs).map (fun p => p.2.id) = idsL cs
  | [] => by simp [pathsL, idsL]
  | f :: fs => by
    simp only [pathsL, List.map_append, idsL]
    rw [Field.paths_ids pre f, pathsL_ids pre fs]
end

mutual
theorem Field.paths_chain (pre : List Field) :
    ∀ (f : Field) (p : Path), p ∈ f.paths pre → ∀ a ∈ pre ++ [f], a ∈ p.chain
  | .mk n i k b m cs, p, hp, a, ha => by
    simp only [Field.paths, List.mem_cons] at hp
    rcases hp with rfl | hp
    · exact ha
    · exact pathsL_chain _ cs p hp a ha
theorem pathsL_chain (pre : List Field) :
    ∀ (cs : List Field) (p : Path), p ∈ pathsL pre cs → ∀ a ∈ pre, a ∈ p.chain
  | [], p, hp, _, _ => by simp [pathsL] at hp
  | f :: fs, p, hp, a, ha => by
    simp only [pathsL, List.mem_append] at hp
    rcases hp with hp | hp
    · exact Field.paths_chain pre f p hp a (by simp [ha])
    · exact pathsL_chain pre fs p hp a ha
end

/-! ## project_by_ids -/

mutual
theorem Field.projIds_sub (I : List Int) (all : Bool) :
    ∀ (f f' : Field), f.projIds I all = some f' → Sub f' f
  | .mk n i k b m cs, f', h => by
    simp only [Field.projIds] at h
    split at h
    · cases h; exact Sub.refl _
    · split at h
      · cases h; exact Sub.mk (projIdsL_sub I all cs)
      · cases h
theorem projIdsL_sub (I : List Int) (all : Bool) : ∀ cs : List Field, SubL (projIdsL I all cs) cs
  | [] => by simp [projIdsL]; exact SubL.nil
  | f :: fs => by
    simp only [projIdsL]
    split
    · rename_i f' h; exact SubL.cons (Field.projIds_sub I all f f' h) (projIdsL_sub I all fs)
    · exact SubL.skip (projIdsL_sub I all fs)
end

mutual
/-- a field survives `project_by_ids` iff its subtree contains a selected id -/
theorem Field.projIds_isSome (I : List Int) (all : Bool) :
    ∀ f : Field, (f.projIds I all).isSome = hits I f
  | .mk n i k b m cs => by
    have ih := projIdsL_isEmpty I all cs
    simp only [Field.projIds, hits_mk]
    cases hc : I.contains i <;> cases hh : hitsL I cs <;> cases all <;> simp_all
theorem projIdsL_isEmpty (I : List Int) (all : Bool) :
    ∀ cs : List Field, (projIdsL I all cs).isEmpty = !hitsL I cs
  | [] => by simp [projIdsL, hitsL, idsL]
  | f :: fs => by
    have h1 := Field.projIds_isSome I all f
    have h2 := projIdsL_isEmpty I all fs
    simp only [projIdsL, hitsL_cons]
    cases hf : f.projIds I all <;> simp_all
end

/-- `f` is selected and is taken as a whole (`Some(self.clone())`): include_all_children, or nothing below it is selected -/
def down (I : List Int) (all : Bool) (f : Field) : Bool :=
  I.contains f.id && (!hitsL I f.children || all)

theorem down_mk (I : List Int) (all : Bool) (n i k b m cs) :
    down I all (.mk n i k b m cs) = (I.contains i && (!hitsL I cs || all)) := rfl

theorem Field.projIds_mk (I : List Int) (all : Bool) (n i k b m cs) :
    (Field.mk n i k b m cs).projIds I all =
      if (I.contains i && (!hitsL I cs || all)) = true then some (.mk n i k b m cs)
      else if hitsL I cs = true then some (.mk n i k b m (projIdsL I all cs)) else none := by
  simp only [Field.projIds, projIdsL_isEmpty, Bool.not_not]

/-- the node at the end of `p` is kept by `project_by_ids(I, all)`: its subtree contains a selected id (it is selected
    or an ancestor of a selected field), or it lies in the subtree of a selected field that is taken as a whole -/
def keep (I : List Int) (all : Bool) (p : Path) : Bool := hits I p.2 || p.chain.any (down I all)

mutual
theorem Field.projIds_ids (I : List Int) (all : Bool) :
    ∀ (f : Field) (pre : List Field), (∀ a ∈ pre, down I all a = false) →
      (match f.projIds I all with | some f' => f'.ids | none => [])
        = ((f.paths pre).filter (keep I all)).map (fun p => p.2.id)
  | .mk n i k b m cs, pre, hpre => by
    rw [Field.projIds_mk]
    by_cases hd : (I.contains i && (!hitsL I cs || all)) = true
    · -- taken as a whole
      have hall : ∀ p ∈ (Field.mk n i k b m cs).paths pre, keep I all p = true := by
        intro p hp
        have := Field.paths_chain pre _ p hp (.mk n i k b m cs) (by simp)
        simp only [keep, Bool.or_eq_true, List.any_eq_true]
        exact Or.inr ⟨_, this, by rw [down_mk]; exact hd⟩
      rw [List.filter_eq_self.mpr hall, Field.paths_ids, if_pos hd]
    · have hd' : down I all (.mk n i k b m cs) = false := by rw [down_mk]; simpa using hd
      have ih := projIdsL_ids I all cs (pre ++ [.mk n i k b m cs]) (by
        intro a ha
        rcases List.mem_append.mp ha with h | h
        · exact hpre a h
        · simp at h; subst h; exact hd')
      have hpany : (pre ++ [Field.mk n i k b m cs]).any (down I all) = false := by
        rw [List.any_append, List.any_cons, List.any_nil, hd']
        simp only [Bool.or_false, List.any_eq_false]
        intro a ha; simp [hpre a ha]
      rw [if_neg hd]
      simp only [Field.paths, List.filter_cons, keep, Path.chain, hpany, Bool.or_false, hits_mk]
      cases hh : hitsL I cs
      · -- nothing selected below; the field itself is not selected either (else it would be taken whole)
        have hci : I.contains i = false := by
          cases hc : I.contains i
          · rfl
          · rw [hc, hh] at hd; simp at hd
        have hnil : projIdsL I all cs = [] := by
          have := projIdsL_isEmpty I all cs; rw [hh] at this; simpa using this
        rw [hnil] at ih
        simp only [idsL] at ih
        simp only [hci, Bool.or_false, Bool.false_eq_true, if_false]
        exact ih
      · simp only [Bool.or_true, if_true, List.map_cons, Field.ids, Field.id_mk]
        rw [ih]
theorem projIdsL_ids (I : List Int) (all : Bool) :
    ∀ (cs pre : List Field), (∀ a ∈ pre, down I all a = false) →
      idsL (projIdsL I all cs) = ((pathsL pre cs).filter (keep I all)).map (fun p => p.2.id)
  | [], _, _ => by simp [projIdsL, pathsL, idsL]
  | f :: fs, pre, hpre => by
    have h1 := Field.projIds_ids I all f pre hpre
    have h2 := projIdsL_ids I all fs pre hpre
    simp only [projIdsL, pathsL, List.filter_append, List.map_append]
    rw [← h1, ← h2]
    cases f.projIds I all <;> simp [idsL]
end

end LanceModel.C43
