import LanceModel.C27.Model
/-!
C27 helper lemmas: control-word packing / parsing (`build_control_word_iterator`, `ControlWordParser`).
-/
namespace LanceModel.C27

/-! ### `bitLen` (`log_2_ceil`) -/

theorem bitLen_succ (n : Nat) : bitLen (n + 1) = bitLen ((n + 1) / 2) + 1 := by
  rw [bitLen]

theorem lt_two_pow_bitLen (n : Nat) : n < 2 ^ bitLen n := by
  induction n using Nat.strongRecOn with
  | _ n ih =>
    cases n with
    | zero => simp [bitLen]
    | succ m =>
      rw [bitLen_succ, Nat.pow_succ]
      have := ih ((m + 1) / 2) (by omega)
      omega

theorem bitLen_le_of_lt (n k : Nat) (h : n < 2 ^ k) : bitLen n ≤ k := by
  induction k generalizing n with
  | zero =>
    have : n = 0 := by simpa using h
    subst this; simp [bitLen]
  | succ k ih =>
    cases n with
    | zero => simp [bitLen]
    | succ m =>
      rw [bitLen_succ]
      have : (m + 1) / 2 < 2 ^ k := by
        rw [Nat.pow_succ] at h; omega
      have := ih _ this
      omega

/-! ### little-endian bytes -/

theorem length_toLE (k w : Nat) : (toLE k w).length = k := by
  induction k generalizing w with
  | zero => rfl
  | succ k ih => simp [toLE, ih]

theorem fromLE_toLE (k w : Nat) (h : w < 256 ^ k) : fromLE (toLE k w) = w := by
  induction k generalizing w with
  | zero => simp at h; subst h; rfl
  | succ k ih =>
    simp only [toLE, fromLE]
    have : w / 256 < 256 ^ k := by
      rw [Nat.pow_succ] at h
      exact Nat.div_lt_of_lt_mul (by omega)
    rw [ih _ this]
    omega

/-! ### chunks of fixed-width words -/

theorem chunks_flatMap {α : Type} (k : Nat) (hk : 0 < k) (f : α → List Nat) (l : List α)
    (hf : ∀ x ∈ l, (f x).length = k) (fuel : Nat) (hfuel : l.length ≤ fuel) :
    chunks k fuel (l.flatMap f) = l.map f := by
  induction l generalizing fuel with
  | nil =>
    cases fuel with
    | zero => rfl
    | succ fuel => simp [chunks]
  | cons x xs ih =>
    cases fuel with
    | zero => simp at hfuel
    | succ fuel =>
      have hx : (f x).length = k := hf x (by simp)
      simp only [List.flatMap_cons, chunks, List.map_cons]
      have hlen : ¬ (k = 0 ∨ (f x ++ xs.flatMap f).length < k) := by
        simp only [List.length_append]; omega
      rw [if_neg hlen]
      have h1 : (f x ++ xs.flatMap f).take k = f x := by
        rw [← hx]; simp
      have h2 : (f x ++ xs.flatMap f).drop k = xs.flatMap f := by
        rw [← hx]; simp
      rw [h1, h2, ih (fun y hy => hf y (by simp [hy])) fuel (by simpa using hfuel)]

theorem length_flatMap_const {α : Type} (k : Nat) (f : α → List Nat) (l : List α)
    (hf : ∀ x ∈ l, (f x).length = k) : (l.flatMap f).length = l.length * k := by
  induction l with
  | nil => simp
  | cons x xs ih =>
    simp only [List.flatMap_cons, List.length_append, List.length_cons]
    rw [hf x (by simp), ih (fun y hy => hf y (by simp [hy]))]
    rw [Nat.add_mul]; omega

/-! ### the bit arithmetic of one control word -/

theorem and_mask_of_lt (x w : Nat) (h : x < 2 ^ w) : x &&& getMask w = x := by
  unfold getMask
  rw [Nat.and_two_pow_sub_one_eq_mod, Nat.mod_eq_of_lt h]

theorem pack_shift (r d dw : Nat) (hd : d < 2 ^ dw) : ((r <<< dw) + d) >>> dw = r := by
  rw [Nat.shiftLeft_eq, Nat.shiftRight_eq_div_pow]
  rw [Nat.mul_comm, Nat.mul_add_div (Nat.two_pow_pos dw), Nat.div_eq_of_lt hd]
  omega

theorem pack_mask (r d dw : Nat) (hd : d < 2 ^ dw) : ((r <<< dw) + d) &&& getMask dw = d := by
  unfold getMask
  rw [Nat.and_two_pow_sub_one_eq_mod, Nat.shiftLeft_eq, Nat.mul_comm, Nat.mul_add_mod, Nat.mod_eq_of_lt hd]

theorem pack_lt (r d rw dw : Nat) (hr : r < 2 ^ rw) (hd : d < 2 ^ dw) : (r <<< dw) + d < 2 ^ (rw + dw) := by
  rw [Nat.shiftLeft_eq, Nat.pow_add]
  have : (r + 1) * 2 ^ dw ≤ 2 ^ rw * 2 ^ dw := Nat.mul_le_mul_right _ hr
  rw [Nat.add_mul] at this
  omega

/-- a word of `total` bits fits the bytes chosen for it (as long as `total <= 32`) -/
theorem word_fits (x total : Nat) (hx : x < 2 ^ total) (ht : total ≤ 32) : x < 256 ^ wordBytes total := by
  unfold wordBytes
  by_cases h8 : total ≤ 8
  · rw [if_pos h8]
    calc x < 2 ^ total := hx
      _ ≤ 2 ^ 8 := Nat.pow_le_pow_right (by omega) h8
      _ = 256 ^ 1 := by decide
  · rw [if_neg h8]
    by_cases h16 : total ≤ 16
    · rw [if_pos h16]
      calc x < 2 ^ total := hx
        _ ≤ 2 ^ 16 := Nat.pow_le_pow_right (by omega) h16
        _ = 256 ^ 2 := by decide
    · rw [if_neg h16]
      calc x < 2 ^ total := hx
        _ ≤ 2 ^ 32 := Nat.pow_le_pow_right (by omega) ht
        _ = 256 ^ 4 := by decide

theorem wordBytes_pos (t : Nat) : 0 < wordBytes t := by
  unfold wordBytes; split
  · omega
  · split <;> omega

/-- width of a level bounded by `max` (0 when `max = 0`) -/
def levelWidth (max : Nat) : Nat := if max = 0 then 0 else bitLen max

theorem level_lt_width (x max : Nat) (h : x ≤ max) : x < 2 ^ levelWidth max := by
  unfold levelWidth
  split
  · rename_i h0; subst h0
    have : x = 0 := by omega
    subst this; simp
  · exact Nat.lt_of_le_of_lt h (lt_two_pow_bitLen max)

theorem levelWidth_le (max : Nat) (h : max < 2 ^ 16) : levelWidth max ≤ 16 := by
  unfold levelWidth
  split
  · omega
  · exact bitLen_le_of_lt _ _ h

theorem levelMask_eq (max : Nat) : (if max = 0 then 0 else getMask (bitLen max)) = getMask (levelWidth max) := by
  unfold levelWidth
  split
  · simp [getMask]
  · rfl

theorem filterMap_fst_some {α β : Type} (l : List (α × β)) :
    (l.map (fun p => ((some p.1 : Option α), (some p.2 : Option β)))).filterMap (·.1) = l.map (·.1) := by
  induction l with
  | nil => rfl
  | cons x xs ih => simp [ih]

theorem filterMap_snd_some {α β : Type} (l : List (α × β)) :
    (l.map (fun p => ((some p.1 : Option α), (some p.2 : Option β)))).filterMap (·.2) = l.map (·.2) := by
  induction l with
  | nil => rfl
  | cons x xs ih => simp [ih]

theorem map_fst_zip_eq {α β : Type} (a : List α) (b : List β) (h : a.length = b.length) : (a.zip b).map (·.1) = a := by
  induction a generalizing b with
  | nil => simp
  | cons x xs ih =>
    cases b with
    | nil => simp at h
    | cons y ys => simp [ih ys (by simpa using h)]

theorem map_snd_zip_eq {α β : Type} (a : List α) (b : List β) (h : a.length = b.length) : (a.zip b).map (·.2) = b := by
  induction a generalizing b with
  | nil => cases b <;> simp at h ⊢
  | cons x xs ih =>
    cases b with
    | nil => simp at h
    | cons y ys => simp [ih ys (by simpa using h)]

/-- both levels present: every control word parses back to its pair -/
theorem cw_binary_roundtrip (r d : List Nat) (maxRep maxDef mvd len : Nat)
    (hr : ∀ x ∈ r, x ≤ maxRep) (hd : ∀ x ∈ d, x ≤ maxDef) (hlen : r.length = d.length)
    (hmr : maxRep < 2 ^ 16) (hmd : maxDef < 2 ^ 16) (hr0 : 0 < maxRep) (hd0 : 0 < maxDef) :
    (CwParser.new (buildCw (some r) maxRep (some d) maxDef mvd len).bitsRep
        (buildCw (some r) maxRep (some d) maxDef mvd len).bitsDef).parseAll
      (buildCw (some r) maxRep (some d) maxDef mvd len).run.1 = (r, d) := by
  have hrw : (if maxRep = 0 then 0 else bitLen maxRep) = levelWidth maxRep := rfl
  have hdw : (if maxDef = 0 then 0 else bitLen maxDef) = levelWidth maxDef := rfl
  have hrpos : 0 < levelWidth maxRep := by
    unfold levelWidth; rw [if_neg (by omega)]
    cases maxRep with
    | zero => omega
    | succ m => rw [bitLen_succ]; omega
  have hdpos : 0 < levelWidth maxDef := by
    unfold levelWidth; rw [if_neg (by omega)]
    cases maxDef with
    | zero => omega
    | succ m => rw [bitLen_succ]; omega
  have hr0' : ¬ maxRep = 0 := by omega
  have hd0' : ¬ maxDef = 0 := by omega
  simp only [buildCw, hrw, hdw, if_neg hr0', if_neg hd0', CwIter.bitsRep, CwIter.bitsDef, CwIter.run, CwParser.new]
  rw [decide_eq_true hrpos, decide_eq_true hdpos]
  simp only [CwParser.parseAll, CwParser.bytesPerWord]
  have hbpos : 0 < wordBytes (levelWidth maxRep + levelWidth maxDef) := wordBytes_pos _
  have hfit : ∀ y, y < 2 ^ (levelWidth maxRep + levelWidth maxDef) →
      y < 256 ^ wordBytes (levelWidth maxRep + levelWidth maxDef) :=
    fun y hy => word_fits _ _ hy (by have := levelWidth_le _ hmr; have := levelWidth_le _ hmd; omega)
  generalize wordBytes (levelWidth maxRep + levelWidth maxDef) = b at hbpos hfit ⊢
  have hw : ∀ p ∈ r.zip d,
      (toLE b (packBinary (getMask (levelWidth maxRep)) (getMask (levelWidth maxDef)) (levelWidth maxDef) p)).length = b :=
    fun _ _ => length_toLE _ _
  rw [length_flatMap_const b _ _ hw, chunks_flatMap b hbpos _ _ hw _ (by
    have : (r.zip d).length * 1 ≤ (r.zip d).length * b := Nat.mul_le_mul_left _ hbpos
    omega)]
  rw [List.map_map]
  have hparse : ∀ p ∈ r.zip d,
      ((CwParser.both b (levelWidth maxDef) (getMask (levelWidth maxDef))).parse ∘
        fun p => toLE b (packBinary (getMask (levelWidth maxRep)) (getMask (levelWidth maxDef)) (levelWidth maxDef) p)) p
        = (some p.1, some p.2) := by
    intro p hp
    have hp1 : p.1 ≤ maxRep := hr _ (List.of_mem_zip hp).1
    have hp2 : p.2 ≤ maxDef := hd _ (List.of_mem_zip hp).2
    have h1 := level_lt_width _ _ hp1
    have h2 := level_lt_width _ _ hp2
    simp only [Function.comp, CwParser.parse, packBinary, and_mask_of_lt _ _ h1, and_mask_of_lt _ _ h2]
    rw [fromLE_toLE]
    · rw [pack_shift _ _ _ h2, pack_mask _ _ _ h2]
    · exact hfit _ (pack_lt _ _ _ _ h1 h2)
  rw [List.map_congr_left hparse, filterMap_fst_some, filterMap_snd_some, map_fst_zip_eq _ _ hlen,
    map_snd_zip_eq _ _ hlen]

theorem filterMap_fst_only (l : List Nat) :
    (l.map (fun x => ((some x : Option Nat), (none : Option Nat)))).filterMap (·.1) = l ∧
    (l.map (fun x => ((some x : Option Nat), (none : Option Nat)))).filterMap (·.2) = [] := by
  induction l with
  | nil => exact ⟨rfl, rfl⟩
  | cons x xs ih => simp [ih.1, ih.2]

theorem filterMap_snd_only (l : List Nat) :
    (l.map (fun x => ((none : Option Nat), (some x : Option Nat)))).filterMap (·.1) = [] ∧
    (l.map (fun x => ((none : Option Nat), (some x : Option Nat)))).filterMap (·.2) = l := by
  induction l with
  | nil => exact ⟨rfl, rfl⟩
  | cons x xs ih => simp [ih.1, ih.2]

/-- only one kind of level present: every control word parses back to its level -/
theorem cw_unary_words (l : List Nat) (max : Nat) (hl : ∀ x ∈ l, x ≤ max) (hm : max < 2 ^ 16) :
    (chunks (wordBytes (levelWidth max)) (l.flatMap (fun x => toLE (wordBytes (levelWidth max)) (x &&& getMask (levelWidth max)))).length
      (l.flatMap (fun x => toLE (wordBytes (levelWidth max)) (x &&& getMask (levelWidth max))))).map fromLE = l := by
  have hbpos : 0 < wordBytes (levelWidth max) := wordBytes_pos _
  have hfit : ∀ y, y < 2 ^ levelWidth max → y < 256 ^ wordBytes (levelWidth max) :=
    fun y hy => word_fits _ _ hy (by have := levelWidth_le _ hm; omega)
  generalize wordBytes (levelWidth max) = b at hbpos hfit ⊢
  have hw : ∀ x ∈ l, (toLE b (x &&& getMask (levelWidth max))).length = b := fun _ _ => length_toLE _ _
  rw [length_flatMap_const b _ _ hw, chunks_flatMap b hbpos _ _ hw _ (by
    have : l.length * 1 ≤ l.length * b := Nat.mul_le_mul_left _ hbpos
    omega)]
  rw [List.map_map]
  have : ∀ x ∈ l, (fromLE ∘ fun x => toLE b (x &&& getMask (levelWidth max))) x = x := by
    intro x hx
    have h1 := level_lt_width _ _ (hl x hx)
    simp only [Function.comp, and_mask_of_lt _ _ h1]
    exact fromLE_toLE _ _ (hfit _ h1)
  rw [List.map_congr_left this, List.map_id']

theorem levelWidth_pos (max : Nat) (h : 0 < max) : 0 < levelWidth max := by
  unfold levelWidth; rw [if_neg (by omega)]
  cases max with
  | zero => omega
  | succ m => rw [bitLen_succ]; omega

/-- only repetition levels -/
theorem cw_rep_roundtrip (r : List Nat) (maxRep maxDef mvd len : Nat)
    (hr : ∀ x ∈ r, x ≤ maxRep) (hmr : maxRep < 2 ^ 16) (hr0 : 0 < maxRep) (hd0 : maxDef = 0) :
    (CwParser.new (buildCw (some r) maxRep none maxDef mvd len).bitsRep
        (buildCw (some r) maxRep none maxDef mvd len).bitsDef).parseAll
      (buildCw (some r) maxRep none maxDef mvd len).run.1 = (r, []) := by
  have hrw : (if maxRep = 0 then 0 else bitLen maxRep) = levelWidth maxRep := rfl
  have hrpos := levelWidth_pos maxRep hr0
  have hr0' : ¬ maxRep = 0 := by omega
  subst hd0
  simp only [buildCw, hrw, if_neg hr0', if_true, Nat.add_zero, CwIter.bitsRep, CwIter.bitsDef, CwIter.run, CwParser.new]
  rw [decide_eq_true hrpos, decide_eq_false (by omega : ¬ 0 < 0)]
  simp only [CwParser.parseAll, CwParser.bytesPerWord]
  have hparse : (CwParser.rep (wordBytes (levelWidth maxRep))).parse = fun w => (some (fromLE w), none) := by
    funext w; rfl
  have hm : ∀ L : List (List Nat), L.map (fun w => ((some (fromLE w) : Option Nat), (none : Option Nat))) =
      (L.map fromLE).map (fun x => ((some x : Option Nat), (none : Option Nat))) := by
    intro L; rw [List.map_map]; rfl
  rw [hparse, hm, cw_unary_words r maxRep hr hmr]
  have := filterMap_fst_only r
  rw [this.1, this.2]

/-- only definition levels -/
theorem cw_def_roundtrip (d : List Nat) (maxRep maxDef mvd len : Nat)
    (hd : ∀ x ∈ d, x ≤ maxDef) (hmd : maxDef < 2 ^ 16) (hd0 : 0 < maxDef) (hr0 : maxRep = 0) :
    (CwParser.new (buildCw none maxRep (some d) maxDef mvd len).bitsRep
        (buildCw none maxRep (some d) maxDef mvd len).bitsDef).parseAll
      (buildCw none maxRep (some d) maxDef mvd len).run.1 = ([], d) := by
  have hdw : (if maxDef = 0 then 0 else bitLen maxDef) = levelWidth maxDef := rfl
  have hdpos := levelWidth_pos maxDef hd0
  have hd0' : ¬ maxDef = 0 := by omega
  subst hr0
  simp only [buildCw, hdw, if_neg hd0', if_true, Nat.zero_add, CwIter.bitsRep, CwIter.bitsDef, CwIter.run, CwParser.new]
  rw [decide_eq_true hdpos, decide_eq_false (by omega : ¬ 0 < 0)]
  simp only [CwParser.parseAll, CwParser.bytesPerWord]
  have hparse : (CwParser.def_ (wordBytes (levelWidth maxDef))).parse = fun w => (none, some (fromLE w)) := by
    funext w; rfl
  have hm : ∀ L : List (List Nat), L.map (fun w => ((none : Option Nat), (some (fromLE w) : Option Nat))) =
      (L.map fromLE).map (fun x => ((none : Option Nat), (some x : Option Nat))) := by
    intro L; rw [List.map_map]; rfl
  rw [hparse, hm, cw_unary_words d maxDef hd hmd]
  have := filterMap_snd_only d
  rw [this.1, this.2]

end LanceModel.C27
